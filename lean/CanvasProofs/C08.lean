import CanvasProofs.Lemmas.C08
import CanvasProofs.Lemmas.C08Equiv
import CanvasProofs.Lemmas.C08Fixed

/-! # C08 — Bounds is the tight bounding box and FastBounds contains it

Model: `Canvas.C08.fastBounds` / `Canvas.C08.bounds` (CanvasModel/C08.lean, hand-written fold over the
command list, compared with the real `Path.FastBounds()/Path.Bounds()` on every run), instantiated
over an arbitrary linearly ordered field `K` with `min`/`max` and the *generated* definitions
`GenK.Equal`, `GenK.IntervalExclusive`, `GenK.quadraticBezierPos`, `GenK.cubicBezierPos`. -/
set_option linter.unusedSectionVars false
set_option linter.unusedVariables false
namespace C08
open Canvas Canvas.C08 GenK
variable {K : Type} [Field K] [LinearOrder K] [IsStrictOrderedRing K] [Env K] [ArcFns K]

/-- Every point of a quadratic Bézier at `t ∈ [0,1]` lies within min/max of its control points. -/
theorem bernstein_hull_quad (p0 p1 p2 : Pt K) (t : K) (h0 : 0 ≤ t) (h1 : t ≤ 1) :
    InRect ⟨min p0.x (min p1.x p2.x), min p0.y (min p1.y p2.y), max p0.x (max p1.x p2.x), max p0.y (max p1.y p2.y)⟩
      (quadraticBezierPos p0 p1 p2 t) := by
  simp only [InRect, quadPos_x, quadPos_y]
  exact ⟨hull3_lo _ _ _ _ t (min_le_left _ _) ((min_le_right _ _).trans (min_le_left _ _)) ((min_le_right _ _).trans (min_le_right _ _)) h0 h1,
    hull3_hi _ _ _ _ t (le_max_left _ _) ((le_max_left _ _).trans (le_max_right _ _)) ((le_max_right _ _).trans (le_max_right _ _)) h0 h1,
    hull3_lo _ _ _ _ t (min_le_left _ _) ((min_le_right _ _).trans (min_le_left _ _)) ((min_le_right _ _).trans (min_le_right _ _)) h0 h1,
    hull3_hi _ _ _ _ t (le_max_left _ _) ((le_max_left _ _).trans (le_max_right _ _)) ((le_max_right _ _).trans (le_max_right _ _)) h0 h1⟩

/-- Every point of a cubic Bézier at `t ∈ [0,1]` lies within min/max of its control points. -/
theorem bernstein_hull_cube (p0 p1 p2 p3 : Pt K) (t : K) (h0 : 0 ≤ t) (h1 : t ≤ 1) :
    InRect ⟨min p0.x (min p1.x (min p2.x p3.x)), min p0.y (min p1.y (min p2.y p3.y)),
            max p0.x (max p1.x (max p2.x p3.x)), max p0.y (max p1.y (max p2.y p3.y))⟩
      (cubicBezierPos p0 p1 p2 p3 t) := by
  simp only [InRect, cubePos_x, cubePos_y]
  exact ⟨hull4_lo _ _ _ _ _ t (min_le_left _ _) ((min_le_right _ _).trans (min_le_left _ _))
      ((min_le_right _ _).trans ((min_le_right _ _).trans (min_le_left _ _))) ((min_le_right _ _).trans ((min_le_right _ _).trans (min_le_right _ _))) h0 h1,
    hull4_hi _ _ _ _ _ t (le_max_left _ _) ((le_max_left _ _).trans (le_max_right _ _))
      ((le_max_left _ _).trans ((le_max_right _ _).trans (le_max_right _ _))) ((le_max_right _ _).trans ((le_max_right _ _).trans (le_max_right _ _))) h0 h1,
    hull4_lo _ _ _ _ _ t (min_le_left _ _) ((min_le_right _ _).trans (min_le_left _ _))
      ((min_le_right _ _).trans ((min_le_right _ _).trans (min_le_left _ _))) ((min_le_right _ _).trans ((min_le_right _ _).trans (min_le_right _ _))) h0 h1,
    hull4_hi _ _ _ _ _ t (le_max_left _ _) ((le_max_left _ _).trans (le_max_right _ _))
      ((le_max_left _ _).trans ((le_max_right _ _).trans (le_max_right _ _))) ((le_max_right _ _).trans ((le_max_right _ _).trans (le_max_right _ _))) h0 h1⟩

/-! ## Bounds -/

/-- The stationary parameter used by `Bounds` for a quadratic, `t* = (p0−p1)/(p0−2p1+p2)`, zeroes the
derivative, and `B(t) − B(t*) = (p0−2p1+p2)·(t−t*)²` (per coordinate): the extreme is exactly `B(t*)`. -/
theorem quad_extremum (p0 p1 p2 : Pt K) (t : K) :
    (p0.x - 2 * p1.x + p2.x ≠ 0 →
      (quadraticBezierDeriv p0 p1 p2 ((p0.x - p1.x) / (p0.x - 2 * p1.x + p2.x))).x = 0 ∧
      (quadraticBezierPos p0 p1 p2 t).x - (quadraticBezierPos p0 p1 p2 ((p0.x - p1.x) / (p0.x - 2 * p1.x + p2.x))).x
        = (p0.x - 2 * p1.x + p2.x) * (t - (p0.x - p1.x) / (p0.x - 2 * p1.x + p2.x)) ^ 2) ∧
    (p0.y - 2 * p1.y + p2.y ≠ 0 →
      (quadraticBezierDeriv p0 p1 p2 ((p0.y - p1.y) / (p0.y - 2 * p1.y + p2.y))).y = 0 ∧
      (quadraticBezierPos p0 p1 p2 t).y - (quadraticBezierPos p0 p1 p2 ((p0.y - p1.y) / (p0.y - 2 * p1.y + p2.y))).y
        = (p0.y - 2 * p1.y + p2.y) * (t - (p0.y - p1.y) / (p0.y - 2 * p1.y + p2.y)) ^ 2) := by
  constructor <;> intro h <;>
    simp only [quadraticBezierDeriv, quadraticBezierPos, Point.Mul, Point.Add] <;>
    constructor <;> field_simp <;> ring

/-- FULL STATEMENT: Bounds contains every point of an M/L/Q/C/Z path (at Epsilon = 0). The cubic case
(monotonicity between the roots of the derivative) is not proved here; it is refined by sampling. -/
def bounds_contains_curve_statement (K : Type) [Field K] [LinearOrder K] [IsStrictOrderedRing K] [Env K] [ArcFns K] : Prop :=
  (Env.epsilon : K) = 0 → (∀ x : K, 0 ≤ x → Env.sqrt x * Env.sqrt x = x) →
  ∀ (cs : List (Cmd K)) (q : Pt K), (∀ c ∈ cs, c.isArc = false) → OnPath cs q → InRect (bounds cs) q

/-- Bounds contains every point of every line and quadratic segment (paths of M/L/Q/Z commands, any
number of subpaths), exactly, at Epsilon = 0. -/
theorem bounds_contains_curve_quadratic (hε : (Env.epsilon : K) = 0) (cs : List (Cmd K)) (q : Pt K)
    (harc : ∀ c ∈ cs, c.isArc = false) (hcube : ∀ c ∈ cs, c.isCube = false) (h : OnPath cs q) :
    InRect (bounds cs) q :=
  run_contains (boundsStep_good hε _) cs q
    (fun c hc => ⟨harc c (List.mem_of_mem_tail hc), hcube c (List.mem_of_mem_tail hc)⟩) h

/-- Every side of Bounds is the coordinate of an actual point of the path (M/L/Q/C/Z paths, any
Epsilon ≥ 0): the box is never larger than necessary. -/
theorem bounds_sides_attained (hε : 0 ≤ (Env.epsilon : K)) (cs : List (Cmd K)) (hne : cs ≠ [])
    (harc : ∀ c ∈ cs, c.isArc = false) :
    (∃ q, OnPath cs q ∧ q.x = (bounds cs).x0) ∧ (∃ q, OnPath cs q ∧ q.x = (bounds cs).x1) ∧
    (∃ q, OnPath cs q ∧ q.y = (bounds cs).y0) ∧ (∃ q, OnPath cs q ∧ q.y = (bounds cs).y1) := by
  cases cs with
  | nil => exact absurd rfl hne
  | cons c cs =>
    have h0 : Att (fun q => q = c.firstPt) (St.init c.firstPt : St K) :=
      ⟨⟨_, rfl, rfl⟩, ⟨_, rfl, rfl⟩, ⟨_, rfl, rfl⟩, ⟨_, rfl, rfl⟩⟩
    have h : Att _ (cs.foldl boundsStep (St.init c.firstPt)) :=
      fold_att hε _ cs _ _ (fun c' hc' => harc c' (List.mem_cons_of_mem _ hc')) h0
    obtain ⟨⟨q1, p1, e1⟩, ⟨q2, p2, e2⟩, ⟨q3, p3, e3⟩, ⟨q4, p4, e4⟩⟩ := h
    exact ⟨⟨q1, p1, e1⟩, ⟨q2, p2, e2⟩, ⟨q3, p3, e3⟩, ⟨q4, p4, e4⟩⟩

/-- Bounds is below every box that contains the path: together with containment it is the smallest
axis-aligned box. -/
theorem bounds_smallest (hε : 0 ≤ (Env.epsilon : K)) (cs : List (Cmd K)) (hne : cs ≠ [])
    (harc : ∀ c ∈ cs, c.isArc = false) (r : Rct K) (hr : ∀ q, OnPath cs q → InRect r q) :
    r.x0 ≤ (bounds cs).x0 ∧ (bounds cs).x1 ≤ r.x1 ∧ r.y0 ≤ (bounds cs).y0 ∧ (bounds cs).y1 ≤ r.y1 := by
  obtain ⟨⟨q1, p1, e1⟩, ⟨q2, p2, e2⟩, ⟨q3, p3, e3⟩, ⟨q4, p4, e4⟩⟩ := bounds_sides_attained hε cs hne harc
  exact ⟨e1 ▸ (hr q1 p1).1, e2 ▸ (hr q2 p2).2.1, e3 ▸ (hr q3 p3).2.2.1, e4 ▸ (hr q4 p4).2.2.2⟩

/-- `solveQuadraticFormula` (model, Epsilon = 0, `sqrt` a square root on non-negatives): every value it
returns is a root of `a t² + b t + c`. These are the parameters at which `Bounds` evaluates a cubic. -/
theorem solveQuadratic_roots (hε : (Env.epsilon : K) = 0)
    (hs : ∀ x : K, 0 ≤ x → Env.sqrt x * Env.sqrt x = x) (a b c t : K)
    (h : (solveQuadratic a b c).1 = some t ∨ (solveQuadratic a b c).2 = some t) :
    a * t * t + b * t + c = 0 :=
  solveQuadratic_sound hε hs a b c t h

/-- The coefficients `Bounds` hands to `solveQuadraticFormula` for a cubic are those of its derivative:
`B'(t) = 3 (a t² + b t + c)`. Hence the candidates are exactly stationary points of the coordinate. -/
theorem cubic_derivative_coefficients (p0 p1 p2 p3 : Pt K) (t : K) :
    (cubicBezierDeriv p0 p1 p2 p3 t).x
      = 3 * ((-p0.x + 3 * p1.x - 3 * p2.x + p3.x) * t * t + (2 * p0.x - 4 * p1.x + 2 * p2.x) * t + (-p0.x + p1.x)) ∧
    (cubicBezierDeriv p0 p1 p2 p3 t).y
      = 3 * ((-p0.y + 3 * p1.y - 3 * p2.y + p3.y) * t * t + (2 * p0.y - 4 * p1.y + 2 * p2.y) * t + (-p0.y + p1.y)) := by
  simp only [cubicBezierDeriv, Point.Mul, Point.Add]; constructor <;> ring

/-! ## arcs: the algebra behind the extreme angles and the radius box

An arc point is `(cx + rx·cosθ·cosφ − ry·sinθ·sinφ, cy + rx·cosθ·sinφ + ry·sinθ·cosφ)`. Writing
`(u, v)` for a direction proportional to `(sinθ, cosθ)`, `dx/dθ ∝ −rx·u·cosφ − ry·v·sinφ` and
`dy/dθ ∝ −rx·u·sinφ + ry·v·cosφ`. `Bounds` takes `θ = atan2(u, v)`. -/

/-- `thetaRight = atan2(−ry·sinφ, rx·cosφ)` is a stationary direction of x. -/
theorem arc_x_extreme_direction (rx ry s c : K) : -rx * (-ry * s) * c - ry * (rx * c) * s = 0 := by ring

/-- the corrected `thetaTop = atan2(ry·cosφ, rx·sinφ)` is a stationary direction of y. -/
theorem arc_y_extreme_direction_fixed (rx ry s c : K) : -rx * (ry * c) * s + ry * (rx * s) * c = 0 := by ring

/-- DEFECT (known finding `bounds-arc-thetatop`): the source's `thetaTop = atan2(rx·cosφ, ry·sinφ)` is
stationary for y only if `(ry² − rx²)·sinφ·cosφ = 0`, i.e. for circles and unrotated ellipses. -/
theorem arc_y_extreme_direction_defect (rx ry s c : K) :
    -rx * (rx * c) * s + ry * (ry * s) * c = (ry * ry - rx * rx) * s * c := by ring

/-- …and it is not stationary on a concrete rotated ellipse (rx = 2, ry = 1, sinφ = 3/5, cosφ = 4/5). -/
theorem arc_y_extreme_direction_defect_witness :
    -(2 : ℚ) * (2 * (4 / 5)) * (3 / 5) + 1 * (1 * (3 / 5)) * (4 / 5) ≠ 0 := by norm_num

-- after-fix thetatop
/-- After the fix of `bounds-arc-thetatop`: the angle the model of `Bounds` tests for the top extreme
of an arc is `atan2 (ry·cosφ) (rx·sinφ)`, the stationary direction of y (`arc_y_extreme_direction_fixed`). -/
theorem bounds_arc_top_angle (s : St K) (rx ry phi : K) (l sw : Bool) (p : Pt K) :
    (boundsStep s (.A rx ry phi l sw p)).ymax =
      max (if Ops.angleBetween (Ops.atan2 (ry * (Ops.sincos phi).2) (rx * (Ops.sincos phi).1))
              (Ops.center s.start.x s.start.y rx ry phi l sw p.x p.y).2.2.1
              (Ops.center s.start.x s.start.y rx ry phi l sw p.x p.y).2.2.2 = true
           then max s.ymax ((Ops.center s.start.x s.start.y rx ry phi l sw p.x p.y).2.1 +
              Ops.sqrt (rx * rx * (Ops.sincos phi).1 * (Ops.sincos phi).1 + ry * ry * (Ops.sincos phi).2 * (Ops.sincos phi).2))
           else s.ymax) p.y := rfl


/-- the radius box of FastBounds' ArcTo case: a point of the ellipse is within `max rx ry` of the
centre in each coordinate (`c,s` = cos/sin of the parameter, `C,S` = cos/sin of the rotation). -/
theorem ellipse_in_radius_box (rx ry c s C S : K) (hrx : 0 ≤ rx) (hry : 0 ≤ ry)
    (h1 : c * c + s * s = 1) (h2 : C * C + S * S = 1) :
    |rx * c * C - ry * s * S| ≤ max rx ry ∧ |rx * c * S + ry * s * C| ≤ max rx ry := by
  have hm : 0 ≤ max rx ry := hrx.trans (le_max_left _ _)
  have bound : ∀ u v : K, |u| + |v| ≤ 1 → |rx * u - ry * v| ≤ max rx ry ∧ |rx * u + ry * v| ≤ max rx ry := by
    intro u v huv
    have a1 : |rx * u| ≤ max rx ry * |u| := by
      rw [abs_mul, abs_of_nonneg hrx]; exact mul_le_mul_of_nonneg_right (le_max_left _ _) (abs_nonneg _)
    have a2 : |ry * v| ≤ max rx ry * |v| := by
      rw [abs_mul, abs_of_nonneg hry]; exact mul_le_mul_of_nonneg_right (le_max_right _ _) (abs_nonneg _)
    have tot : max rx ry * |u| + max rx ry * |v| ≤ max rx ry := by nlinarith [abs_nonneg u, abs_nonneg v]
    exact ⟨(abs_sub _ _).trans ((add_le_add a1 a2).trans tot), (abs_add_le _ _).trans ((add_le_add a1 a2).trans tot)⟩
  -- |cC| + |sS| ≤ 1 and |cS| + |sC| ≤ 1 by Cauchy–Schwarz in the form 2|xy| ≤ x² + y²
  have cs1 : |c * C| + |s * S| ≤ 1 := by
    rw [abs_mul, abs_mul]
    nlinarith [sq_nonneg (|c| - |C|), sq_nonneg (|s| - |S|), abs_mul_abs_self c, abs_mul_abs_self s, abs_mul_abs_self C, abs_mul_abs_self S]
  have cs2 : |c * S| + |s * C| ≤ 1 := by
    rw [abs_mul, abs_mul]
    nlinarith [sq_nonneg (|c| - |S|), sq_nonneg (|s| - |C|), abs_mul_abs_self c, abs_mul_abs_self s, abs_mul_abs_self C, abs_mul_abs_self S]
  constructor
  · have := (bound (c * C) (s * S) cs1).1; rwa [← mul_assoc, ← mul_assoc] at this
  · have := (bound (c * S) (s * C) cs2).2; rwa [← mul_assoc, ← mul_assoc] at this

/-! ## equivariance under translation and reflection (Bézier paths) -/

/-- Bounds of the translated path is the translated Bounds (lines, quadratics and cubics; any Epsilon). -/
theorem bounds_translate (d : Pt K) (cs : List (Cmd K)) (hne : cs ≠ []) (harc : ∀ c ∈ cs, c.isArc = false) :
    bounds (cs.map (Cmd.mapP (trP d))) = trR d (bounds cs) :=
  run_equiv boundsStep (trP d) (trS d) (trR d) (fun c => c.isArc = false)
    (fun s c hc => boundsStepG_tr _ d s c hc)
    (fun c hc => firstPt_mapP _ c hc) (init_tr d) (fun s => rfl) cs hne harc

/-- Bounds commutes with both reflections on paths of lines and quadratics (any Epsilon).
(For cubics the two roots may be returned in either slot of `solveQuadraticFormula`; refined only.) -/
theorem bounds_reflect_quadratic (cs : List (Cmd K)) (hne : cs ≠ [])
    (harc : ∀ c ∈ cs, c.isArc = false) (hcube : ∀ c ∈ cs, c.isCube = false) :
    bounds (cs.map (Cmd.mapP rxP)) = rxR (bounds cs) ∧ bounds (cs.map (Cmd.mapP ryP)) = ryR (bounds cs) := by
  have hok : ∀ c ∈ cs, BoundsOk c := fun c hc => ⟨harc c hc, hcube c hc⟩
  constructor
  · exact run_equiv boundsStep rxP rxS rxR BoundsOk (fun s c hc => boundsStepG_rx _ s c hc)
      (fun c hc => firstPt_mapP _ c hc.1) init_rx (fun s => rfl) cs hne hok
  · exact run_equiv boundsStep ryP ryS ryR BoundsOk (fun s c hc => boundsStepG_ry _ s c hc)
      (fun c hc => firstPt_mapP _ c hc.1) init_ry (fun s => rfl) cs hne hok

-- after-fix fastbounds
/-! ## FastBounds (after the fix of `fastbounds-cubic-minmax`): full strength, all M/L/Q/C/Z paths.
Proofs are in `CanvasProofs/Lemmas/C08Fixed.lean`; `fastBounds` and `fastBoundsFixed` are
definitionally equal once the model's `fastStep` is `fastStepG mx`. -/

/-- FastBounds contains every point of every M/L/Q/C/Z path (induction over the command list,
Bernstein hull per segment). -/
theorem fastBounds_contains_curve (cs : List (Cmd K)) (q : Pt K)
    (harc : ∀ c ∈ cs, c.isArc = false) (h : OnPath cs q) : InRect (fastBounds cs) q :=
  fastBoundsFixed_contains_curve cs q harc h

/-- FastBounds contains Bounds for every M/L/Q/C/Z path (any Epsilon ≥ 0). -/
theorem fast_contains_bounds (hε : 0 ≤ (Env.epsilon : K)) (cs : List (Cmd K))
    (harc : ∀ c ∈ cs, c.isArc = false) :
    (fastBounds cs).x0 ≤ (bounds cs).x0 ∧ (bounds cs).x1 ≤ (fastBounds cs).x1 ∧
    (fastBounds cs).y0 ≤ (bounds cs).y0 ∧ (bounds cs).y1 ≤ (fastBounds cs).y1 :=
  fastFixed_contains_bounds hε _ cs harc

/-- FastBounds of the translated path is the translated FastBounds. -/
theorem fastBounds_translate (d : Pt K) (cs : List (Cmd K)) (hne : cs ≠ []) (harc : ∀ c ∈ cs, c.isArc = false) :
    fastBounds (cs.map (Cmd.mapP (trP d))) = trR d (fastBounds cs) :=
  fastBoundsFixed_translate d cs hne harc

/-- FastBounds commutes with the reflections x ↦ −x and y ↦ −y. -/
theorem fastBounds_reflect (cs : List (Cmd K)) (hne : cs ≠ []) (harc : ∀ c ∈ cs, c.isArc = false) :
    fastBounds (cs.map (Cmd.mapP rxP)) = rxR (fastBounds cs) ∧ fastBounds (cs.map (Cmd.mapP ryP)) = ryR (fastBounds cs) :=
  fastBoundsFixed_reflect cs hne harc

/-- the former witness `M0 0 C0 1 10 0 0 2` now has the control hull (0,0)-(10,2) -/
@[instance_reducible] def envQ : Env ℚ := ⟨0, 0, 0, id, id, id, fun _ _ => 0, id, fun _ _ => 0, id, id, fun _ _ => 0, fun _ => false⟩
@[instance_reducible] def arcQ : ArcFns ℚ := ⟨fun _ _ _ _ _ _ _ _ _ => (0, 0, 0, 0), fun _ _ _ => false⟩
attribute [local instance] envQ arcQ
example : fastBounds ([.M ⟨0, 0⟩, .C ⟨0, 1⟩ ⟨10, 0⟩ ⟨0, 2⟩] : List (Cmd ℚ)) = (⟨0, 0, 10, 2⟩ : Rct ℚ) := by
  simp [fastBounds, run, fastStep, fastStepG, St.init, St.rect, Cmd.firstPt]


/-- non-vacuity of the `_partial` theorems: a path with a quadratic and two subpaths satisfies their
hypotheses, and its boxes are what the real code returns ((0,0)-(20,10) and (0,0)-(20,5)). -/
example : (∀ c ∈ ([.M ⟨0, 0⟩, .Q ⟨10, 10⟩ ⟨20, 0⟩, .Z ⟨0, 0⟩, .M ⟨1, 1⟩, .L ⟨2, 3⟩] : List (Cmd ℚ)), c.isArc = false ∧ c.isCube = false) := by
  simp [Cmd.isArc, Cmd.isCube]

end C08
