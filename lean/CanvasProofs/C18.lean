import CanvasModel.C18
import CanvasProofs.Lemmas.C18Sub
import CanvasProofs.Lemmas.C18W
import CanvasProofs.Lemmas.C18TU
import CanvasProofs.Lemmas.C18TJ
import Mathlib.Tactic.Linarith
import Mathlib.Tactic.Ring

/-! # C18 — Embedded fonts and glyph paths reproduce the laid-out text

Theorems about the hand-written models in `CanvasModel/C18.lean` (tied to /repo by the correspondence
run of `bin/check C18`).  All quantifiers are unbounded: every `Get` history, every width list, every
list of code points, every advance, every glyph list. -/
namespace C18
open Canvas.C18 C18L

/-! ## (a) FontSubsetter: any history of `Get` calls on glyph IDs (uint16) -/

/-- `.notdef` stays at zero: after any history `IDs[0] = 0` and `Get(0)` returns `0`. -/
theorem subsetter_notdef_zero (h : List Nat) (hb : ∀ g ∈ h, g < 65536) :
    (Sub.new.run h).1.ids[0]? = some 0 ∧ ((Sub.new.run h).1.get 0).2 = 0 := by
  obtain ⟨i, _, _, _⟩ := run_spec h Sub.new inv_new hb
  refine ⟨i.head, ?_⟩
  have := (i.inv 0 0).2 i.head
  simp [Sub.get, this]

/-- `IDs[Get g] = g`: every code handed out during the history names its glyph in the final table. -/
theorem subsetter_ids_get (h : List Nat) (hb : ∀ g ∈ h, g < 65536) :
    ∀ p ∈ h.zip (Sub.new.run h).2, (Sub.new.run h).1.ids[p.2]? = some p.1 :=
  (run_spec h Sub.new inv_new hb).2.2.2

/-- one code per call -/
theorem subsetter_codes_length (h : List Nat) (hb : ∀ g ∈ h, g < 65536) :
    (Sub.new.run h).2.length = h.length :=
  (run_spec h Sub.new inv_new hb).2.2.1

/-- `Get` is a function of the glyph over the whole history (a code never changes once assigned). -/
theorem subsetter_function (h : List Nat) (hb : ∀ g ∈ h, g < 65536) (g c c' : Nat)
    (h1 : (g, c) ∈ h.zip (Sub.new.run h).2) (h2 : (g, c') ∈ h.zip (Sub.new.run h).2) : c = c' := by
  obtain ⟨i, _, _, sp⟩ := run_spec h Sub.new inv_new hb
  have a := (i.inv g c).2 (sp _ h1)
  have b := (i.inv g c').2 (sp _ h2)
  rw [a] at b; injection b

/-- `Get` is injective: two glyphs never share a code. -/
theorem subsetter_injective (h : List Nat) (hb : ∀ g ∈ h, g < 65536) (g g' c : Nat)
    (h1 : (g, c) ∈ h.zip (Sub.new.run h).2) (h2 : (g', c) ∈ h.zip (Sub.new.run h).2) : g = g' := by
  obtain ⟨_, _, _, sp⟩ := run_spec h Sub.new inv_new hb
  have a := sp _ h1
  have b := sp _ h2
  simp only at a b
  rw [a] at b; injection b

/-- codes are dense: every code is an index into `IDs` (so the subset font has a glyph for it). -/
theorem subsetter_code_lt (h : List Nat) (hb : ∀ g ∈ h, g < 65536) (g c : Nat)
    (h1 : (g, c) ∈ h.zip (Sub.new.run h).2) : c < (Sub.new.run h).1.ids.length := by
  have := subsetter_ids_get h hb _ h1
  exact (List.getElem?_eq_some_iff.1 this).1

/-- `IDs` has no duplicates and is bounded by the uint16 code space, so `uint16(len(IDs))` never wraps. -/
theorem subsetter_nodup (h : List Nat) (hb : ∀ g ∈ h, g < 65536) :
    (Sub.new.run h).1.ids.Nodup ∧ (Sub.new.run h).1.ids.length ≤ 65536 := by
  obtain ⟨i, _, _, _⟩ := run_spec h Sub.new inv_new hb
  exact ⟨i.nodup, nodup_bounded_length 65536 _ i.nodup i.bound⟩

theorem run_append (s : Sub) (h1 h2 : List Nat) :
    s.run (h1 ++ h2) = (((s.run h1).1.run h2).1, (s.run h1).2 ++ ((s.run h1).1.run h2).2) := by
  induction h1 generalizing s with
  | nil => simp [Sub.run]
  | cons g h ih => simp [Sub.run, ih]

/-- Stability under continuation: extending a history neither changes the codes already returned nor the
table entries already made (`IDs` only grows at the end). -/
theorem subsetter_stable (h1 h2 : List Nat) (hb : ∀ g ∈ h1 ++ h2, g < 65536) :
    (Sub.new.run (h1 ++ h2)).2.take h1.length = (Sub.new.run h1).2 ∧
    (Sub.new.run h1).1.ids <+: (Sub.new.run (h1 ++ h2)).1.ids := by
  have hb1 : ∀ g ∈ h1, g < 65536 := fun g hg => hb g (List.mem_append_left _ hg)
  have hb2 : ∀ g ∈ h2, g < 65536 := fun g hg => hb g (List.mem_append_right _ hg)
  obtain ⟨i, _, l, _⟩ := run_spec h1 Sub.new inv_new hb1
  obtain ⟨_, p, _, _⟩ := run_spec h2 _ i hb2
  rw [run_append]
  exact ⟨by simp [← l], p⟩

/-! ## (b) W array: every width list -/

/-- What a §9.7.4.3 reader computes for each CID of the list is the width that was put in — for every
run-length threshold, in particular the `4` of the source. -/
theorem w_cid_lookup_any_threshold (thr : Nat) (ws : List Int) (hne : ws ≠ []) (cid : Nat) (hc : cid < ws.length) :
    lookupW (encodeWT thr ws).1 (encodeWT thr ws).2 cid = ws[cid] := by
  have hl : 2 ≤ (wWidths ws).length := by
    cases ws with
    | nil => exact absurd rfl hne
    | cons a t => simp [wWidths]
  have inv := winv_all thr (wWidths ws) ((wWidths ws).getD 0 0) (wWidths ws).length hl (Nat.le_refl _)
  have hc' : cid < (wWidths ws).length := by simp [wWidths]; omega
  have := lookup_finish (wWidths ws) _ _ hl rfl inv cid hc'
  simp only [encodeWT]
  rw [this]
  simp [wWidths, List.getD, List.getElem?_append_left hc, List.getElem?_eq_getElem hc]

theorem w_cid_lookup (ws : List Int) (hne : ws ≠ []) (cid : Nat) (hc : cid < ws.length) :
    lookupW (encodeW ws).1 (encodeW ws).2 cid = ws[cid] :=
  w_cid_lookup_any_threshold 4 ws hne cid hc

/-- `decodeW DW (encodeW ws) = ws` for every non-empty width list (`.notdef` is always present). -/
theorem w_roundtrip (ws : List Int) (hne : ws ≠ []) :
    decodeW (encodeW ws).1 (encodeW ws).2 ws.length = ws := by
  apply List.ext_getElem
  · simp [decodeW]
  · intro k h1 h2
    simp only [decodeW, List.getElem_map, List.getElem_range]
    exact w_cid_lookup ws hne k h2

/-- DW is the width of `.notdef` (CID 0), which is never listed in W. -/
theorem w_dw (ws : List Int) (hne : ws ≠ []) : (encodeW ws).1 = ws[0]'(by cases ws with | nil => exact absurd rfl hne | cons a t => simp) := by
  cases ws with
  | nil => exact absurd rfl hne
  | cons a t => simp [encodeW, encodeWT, wWidths]

/-! ## (c) ToUnicode: every list of code points -/

/-- FULL STRENGTH: `decode (encode us) = us` under the strict §9.10.3 reader for every list of Unicode
scalar values (the builder closes a bfrange before the last byte of its destination would pass 0xFF). -/
theorem tounicode_roundtrip (us : List Nat) (hv : ∀ u ∈ us, validScalar u = true) :
    decodeTU (encodeTU us).1 (encodeTU us).2 us.length = us.map some := by
  apply List.ext_getElem
  · simp [decodeTU]
  · intro k h1 h2
    have hk : k < us.length := by simpa [decodeTU] using h1
    simp only [decodeTU, List.getElem_map, List.getElem_range]
    rw [tuLookup_eq]
    have := encodeTUP_spec (us.map pack) (k + 1) (pack us[k]) (packed_getElem us k hk)
    simp only [encodeTU]
    rw [this]
    exact scalar_pack _ (hv _ (List.getElem_mem hk))

/-- code 0 (`.notdef`) reads U+FFFD -/
theorem tounicode_notdef (us : List Nat) :
    tuLookup (encodeTU us).1 (encodeTU us).2 0 = some 0xFFFD := by
  rw [tuLookup_eq]
  have := encodeTUP_spec (us.map pack) 0 0xFFFD (by simp)
  simp only [encodeTU]
  rw [this]
  decide

/-- the inputs that used to be written as one range over the `..FF → ..00` step are now split -/
theorem tounicode_low_byte_split :
    encodeTU [0xFE, 0xFF, 0x100, 0x101] = ([(1, 2, 0xFE), (3, 4, 0x100)], [(0, 0xFFFD)]) ∧
    encodeTU [0xFF, 0x100] = ([], [(0, 0xFFFD), (1, 0xFF), (2, 0x100)]) := by
  decide

example : decodeTU (encodeTU [0x1F0FF, 0x1F100]).1 (encodeTU [0x1F0FF, 0x1F100]).2 2 = [some 0x1F0FF, some 0x1F100] := by
  decide
example : decodeTU (encodeTU [72, 101, 108, 109, 0x1F600, 0x1F601]).1 (encodeTU [72, 101, 108, 109, 0x1F600, 0x1F601]).2 6
    = [some 72, some 101, some 108, some 109, some 0x1F600, some 0x1F601] := by decide

/-! ## (d) TJ adjustment and W rounding: per-glyph drift, in units of 1/(2000·upm) em

`tjAdjust upm dx` is the number written into the TJ array for an advance correction of `dx` font units;
a reader moves the pen by `-(tjAdjust upm dx)/1000` em where the layout asked for `dx/upm` em. -/

/-- corrections with `1000·dx/upm ≥ -1/2`: rounded to nearest, |error| ≤ 1/2 thousandth of an em -/
theorem tj_drift_nonneg (upm dx : Int) (hu : 0 < upm) (h : 0 ≤ 2000 * dx + upm) :
    - upm < 2 * upm * (- tjAdjust upm dx) - 2000 * dx ∧ 2 * upm * (- tjAdjust upm dx) - 2000 * dx ≤ upm := by
  have := tdiv_bounds_nonneg (2000 * dx + upm) (2 * upm) h (by linarith)
  simp only [tjAdjust, neg_neg]
  constructor <;> linarith [this.1, this.2]

/-- negative corrections are truncated the wrong way: the pen ends between 1/2 and 3/2 thousandths of an
em to the right of where the layout put it (the exact rounding asymmetry of `int(x+0.5)` for `x < -1/2`) -/
theorem tj_drift_neg (upm dx : Int) (hu : 0 < upm) (h : 2000 * dx + upm < 0) :
    upm ≤ 2 * upm * (- tjAdjust upm dx) - 2000 * dx ∧ 2 * upm * (- tjAdjust upm dx) - 2000 * dx < 3 * upm := by
  have := tdiv_bounds_neg (2000 * dx + upm) (2 * upm) h (by linarith)
  simp only [tjAdjust, neg_neg]
  constructor <;> linarith [this.1, this.2]

/-- per-glyph drift bound for every correction: strictly less than 3/2 thousandths of an em -/
theorem tj_drift (upm dx : Int) (hu : 0 < upm) :
    - upm < 2 * upm * (- tjAdjust upm dx) - 2000 * dx ∧ 2 * upm * (- tjAdjust upm dx) - 2000 * dx < 3 * upm := by
  by_cases h : 0 ≤ 2000 * dx + upm
  · have := tj_drift_nonneg upm dx hu h
    constructor <;> linarith [this.1, this.2]
  · have := tj_drift_neg upm dx hu (by linarith)
    constructor <;> linarith [this.1, this.2]

/-- the asymmetry is real: a kern of −50/1000 em is written as 49, a correction of −1/1000 em is lost -/
theorem tj_negative_witness : tjAdjust 1000 (-50) = 49 ∧ tjAdjust 1000 (-1) = 0 ∧ tjAdjust 1000 50 = -50 := by
  decide

/-- W widths (advances are unsigned): rounded to nearest, |error| ≤ 1/2 thousandth of an em -/
theorem w_width_drift (upm adv : Int) (hu : 0 < upm) (ha : 0 ≤ adv) :
    - upm < 2 * upm * wWidth upm adv - 2000 * adv ∧ 2 * upm * wWidth upm adv - 2000 * adv ≤ upm := by
  have h : 0 ≤ 2000 * adv + upm := by linarith
  have := tdiv_bounds_nonneg (2000 * adv + upm) (2 * upm) h (by linarith)
  simp only [wWidth]
  constructor <;> linarith [this.1, this.2]

/-! ## (e) pen positions of `toPath` and `textWidth` (font units; the code multiplies by `MmPerEm`) -/

def sumX (gs : List G) : Int := (gs.map (·.xadv)).sum
def sumY (gs : List G) : Int := (gs.map (·.yadv)).sum

/-- glyph `k` is placed at the face offset plus the sum of the preceding advances plus its own offset -/
theorem topath_positions (gs : List G) (x y : Int) (k : Nat) (hk : k < gs.length) :
    (penRun x y gs).1[k]? = some (x + sumX (gs.take k) + gs[k].xoff, y + sumY (gs.take k) + gs[k].yoff) := by
  induction gs generalizing x y k with
  | nil => simp at hk
  | cons g gs ih =>
    cases k with
    | zero => simp [penRun, sumX, sumY]
    | succ k =>
      have hk' : k < gs.length := by simpa using hk
      simp only [penRun, List.getElem?_cons_succ, List.take_succ_cons, List.getElem_cons_succ]
      rw [ih (x + g.xadv) (y + g.yadv) k hk']
      simp only [sumX, sumY, List.map_cons, List.sum_cons]
      congr 2 <;> omega

/-- the returned pen position is the face offset plus all horizontal advances -/
theorem topath_final (gs : List G) (x y : Int) : (penRun x y gs).2 = x + sumX gs := by
  induction gs generalizing x y with
  | nil => simp [penRun, sumX]
  | cons g gs ih =>
    simp only [penRun]
    rw [ih]
    simp only [sumX, List.map_cons, List.sum_cons]
    omega

/-- for horizontal glyphs the width returned by `toPath` is `XOffset + textWidth` (equal when the face has
no horizontal offset) -/
theorem topath_width_textwidth (gs : List G) (x y : Int) (hh : ∀ g ∈ gs, g.vert = false) :
    (penRun x y gs).2 = x + textWidthUnits gs := by
  rw [topath_final]
  congr 1
  induction gs with
  | nil => simp [sumX, textWidthUnits]
  | cons g gs ih =>
    have hg := hh g (by simp)
    have := ih (fun g' hg' => hh g' (by simp [hg']))
    simp only [sumX, List.map_cons, List.sum_cons, textWidthUnits, hg] at this ⊢
    simp [this]

/-- as many positions as glyphs -/
theorem topath_count (gs : List G) (x y : Int) : (penRun x y gs).1.length = gs.length := by
  induction gs generalizing x y with
  | nil => simp [penRun]
  | cons g gs ih => simp [penRun, ih]

/-! ## (f) scaling: the outline of a text at face scale `f` is the unit-scale outline times `f` -/

theorem glyphPts_scale (f px py : Int) (o : List (Int × Int)) :
    glyphPts f px py o = scalePts f (glyphPts 1 px py o) := by
  simp only [glyphPts, scalePts, List.map_map]
  apply List.map_congr_left
  intro c _
  simp only [Function.comp]
  congr 1 <;> ring

/-- `toPath` at scale `f` = `f ·` (`toPath` at scale 1): same glyphs, same relative geometry, for every
face offset, glyph list and outline — the result does not depend on anything else (no `ppem`, no history). -/
theorem toPath_scale_unit (f x y : Int) (gs : List (G × List (Int × Int))) :
    toPathPts f x y gs = scalePts f (toPathPts 1 x y gs) := by
  induction gs generalizing x y with
  | nil => simp [toPathPts, scalePts]
  | cons go gs ih =>
    obtain ⟨g, o⟩ := go
    simp only [toPathPts]
    rw [ih, glyphPts_scale]
    simp [scalePts]

/-- `toPath_scale_linear`: outlines of two faces of one font are proportional, `f₀ · outline(f) = f · outline(f₀)`
(i.e. outline(size s) = s/s₀ · outline(size s₀)). -/
theorem toPath_scale_linear (f f0 x y : Int) (gs : List (G × List (Int × Int))) :
    scalePts f0 (toPathPts f x y gs) = scalePts f (toPathPts f0 x y gs) := by
  rw [toPath_scale_unit f, toPath_scale_unit f0]
  simp only [scalePts, List.map_map]
  apply List.map_congr_left
  intro p _
  simp only [Function.comp]
  congr 1 <;> ring

/-- every glyph contributes exactly its outline points (nothing dropped, nothing shared between glyphs) -/
theorem toPath_point_count (f x y : Int) (gs : List (G × List (Int × Int))) :
    (toPathPts f x y gs).length = (gs.map (fun go => go.2.length)).sum := by
  induction gs generalizing x y with
  | nil => simp [toPathPts]
  | cons go gs ih =>
    obtain ⟨g, o⟩ := go
    simp [toPathPts, glyphPts, ih]

end C18
