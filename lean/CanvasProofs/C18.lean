import CanvasModel.C18
import CanvasProofs.Lemmas.C18Sub
import CanvasProofs.Lemmas.C18W
import CanvasProofs.Lemmas.C18TU
import CanvasProofs.Lemmas.C18TJ
import CanvasProofs.Lemmas.C18Content
import Mathlib.Tactic.Linarith
import Mathlib.Tactic.Ring

/-! # C18 — Embedded fonts and glyph paths reproduce the laid-out text

Theorems about the hand-written models in `CanvasModel/C18.lean` (tied to /repo by the correspondence
run of `bin/check C18`).  All quantifiers are unbounded: every `Get` history, every width list, every
list of code points, every advance, every glyph list. -/
namespace C18
open Canvas.C18 C18L

/-! ## (a) FontSubsetter: any history of `Get` calls on glyph IDs (uint16) -/

/-- `.notdef` stays at zero: after any history `IDs[0] = 0` and `Get(0)` returns `0`. -/
theorem subsetter_notdef_zero (h : List Nat) (hb : ∀ g ∈ h, g < 65536) :
    (Sub.new.run h).1.ids[0]? = some 0 ∧ ((Sub.new.run h).1.get 0).2 = 0 := by
  obtain ⟨i, _, _, _⟩ := run_spec h Sub.new inv_new hb
  refine ⟨i.head, ?_⟩
  have := (i.inv 0 0).2 i.head
  simp [Sub.get, this]

/-- `IDs[Get g] = g`: every code handed out during the history names its glyph in the final table. -/
theorem subsetter_ids_get (h : List Nat) (hb : ∀ g ∈ h, g < 65536) :
    ∀ p ∈ h.zip (Sub.new.run h).2, (Sub.new.run h).1.ids[p.2]? = some p.1 :=
  (run_spec h Sub.new inv_new hb).2.2.2

/-- one code per call -/
theorem subsetter_codes_length (h : List Nat) (hb : ∀ g ∈ h, g < 65536) :
    (Sub.new.run h).2.length = h.length :=
  (run_spec h Sub.new inv_new hb).2.2.1

/-- `Get` is a function of the glyph over the whole history (a code never changes once assigned). -/
theorem subsetter_function (h : List Nat) (hb : ∀ g ∈ h, g < 65536) (g c c' : Nat)
    (h1 : (g, c) ∈ h.zip (Sub.new.run h).2) (h2 : (g, c') ∈ h.zip (Sub.new.run h).2) : c = c' := by
  obtain ⟨i, _, _, sp⟩ := run_spec h Sub.new inv_new hb
  have a := (i.inv g c).2 (sp _ h1)
  have b := (i.inv g c').2 (sp _ h2)
  rw [a] at b; injection b

/-- `Get` is injective: two glyphs never share a code. -/
theorem subsetter_injective (h : List Nat) (hb : ∀ g ∈ h, g < 65536) (g g' c : Nat)
    (h1 : (g, c) ∈ h.zip (Sub.new.run h).2) (h2 : (g', c) ∈ h.zip (Sub.new.run h).2) : g = g' := by
  obtain ⟨_, _, _, sp⟩ := run_spec h Sub.new inv_new hb
  have a := sp _ h1
  have b := sp _ h2
  simp only at a b
  rw [a] at b; injection b

/-- codes are dense: every code is an index into `IDs` (so the subset font has a glyph for it). -/
theorem subsetter_code_lt (h : List Nat) (hb : ∀ g ∈ h, g < 65536) (g c : Nat)
    (h1 : (g, c) ∈ h.zip (Sub.new.run h).2) : c < (Sub.new.run h).1.ids.length := by
  have := subsetter_ids_get h hb _ h1
  exact (List.getElem?_eq_some_iff.1 this).1

/-- `IDs` has no duplicates and is bounded by the uint16 code space, so `uint16(len(IDs))` never wraps. -/
theorem subsetter_nodup (h : List Nat) (hb : ∀ g ∈ h, g < 65536) :
    (Sub.new.run h).1.ids.Nodup ∧ (Sub.new.run h).1.ids.length ≤ 65536 := by
  obtain ⟨i, _, _, _⟩ := run_spec h Sub.new inv_new hb
  exact ⟨i.nodup, nodup_bounded_length 65536 _ i.nodup i.bound⟩

theorem run_append (s : Sub) (h1 h2 : List Nat) :
    s.run (h1 ++ h2) = (((s.run h1).1.run h2).1, (s.run h1).2 ++ ((s.run h1).1.run h2).2) := by
  induction h1 generalizing s with
  | nil => simp [Sub.run]
  | cons g h ih => simp [Sub.run, ih]

/-- Stability under continuation: extending a history neither changes the codes already returned nor the
table entries already made (`IDs` only grows at the end). -/
theorem subsetter_stable (h1 h2 : List Nat) (hb : ∀ g ∈ h1 ++ h2, g < 65536) :
    (Sub.new.run (h1 ++ h2)).2.take h1.length = (Sub.new.run h1).2 ∧
    (Sub.new.run h1).1.ids <+: (Sub.new.run (h1 ++ h2)).1.ids := by
  have hb1 : ∀ g ∈ h1, g < 65536 := fun g hg => hb g (List.mem_append_left _ hg)
  have hb2 : ∀ g ∈ h2, g < 65536 := fun g hg => hb g (List.mem_append_right _ hg)
  obtain ⟨i, _, l, _⟩ := run_spec h1 Sub.new inv_new hb1
  obtain ⟨_, p, _, _⟩ := run_spec h2 _ i hb2
  rw [run_append]
  exact ⟨by simp [← l], p⟩

/-! ## (b) W array: every width list -/

/-- What a §9.7.4.3 reader computes for each CID of the list is the width that was put in — for every
run-length threshold, in particular the `4` of the source. -/
theorem w_cid_lookup_any_threshold (thr : Nat) (ws : List Int) (hne : ws ≠ []) (cid : Nat) (hc : cid < ws.length) :
    lookupW (encodeWT thr ws).1 (encodeWT thr ws).2 cid = ws[cid] := by
  have hl : 2 ≤ (wWidths ws).length := by
    cases ws with
    | nil => exact absurd rfl hne
    | cons a t => simp [wWidths]
  have inv := winv_all thr (wWidths ws) ((wWidths ws).getD 0 0) (wWidths ws).length hl (Nat.le_refl _)
  have hc' : cid < (wWidths ws).length := by simp [wWidths]; omega
  have := lookup_finish (wWidths ws) _ _ hl rfl inv cid hc'
  simp only [encodeWT]
  rw [this]
  simp [wWidths, List.getD, List.getElem?_append_left hc, List.getElem?_eq_getElem hc]

theorem w_cid_lookup (ws : List Int) (hne : ws ≠ []) (cid : Nat) (hc : cid < ws.length) :
    lookupW (encodeW ws).1 (encodeW ws).2 cid = ws[cid] :=
  w_cid_lookup_any_threshold 4 ws hne cid hc

/-- `decodeW DW (encodeW ws) = ws` for every non-empty width list (`.notdef` is always present). -/
theorem w_roundtrip (ws : List Int) (hne : ws ≠ []) :
    decodeW (encodeW ws).1 (encodeW ws).2 ws.length = ws := by
  apply List.ext_getElem
  · simp [decodeW]
  · intro k h1 h2
    simp only [decodeW, List.getElem_map, List.getElem_range]
    exact w_cid_lookup ws hne k h2

/-- DW is the width of `.notdef` (CID 0), which is never listed in W. -/
theorem w_dw (ws : List Int) (hne : ws ≠ []) : (encodeW ws).1 = ws[0]'(by cases ws with | nil => exact absurd rfl hne | cons a t => simp) := by
  cases ws with
  | nil => exact absurd rfl hne
  | cons a t => simp [encodeW, encodeWT, wWidths]

/-! ## (c) ToUnicode: every list of code points -/

/-- FULL STRENGTH: `decode (encode us) = us` under the strict §9.10.3 reader for every list of Unicode
scalar values (the builder closes a bfrange before the last byte of its destination would pass 0xFF). -/
theorem tounicode_roundtrip (us : List Nat) (hv : ∀ u ∈ us, validScalar u = true) :
    decodeTU (encodeTU us).1 (encodeTU us).2 us.length = us.map some := by
  apply List.ext_getElem
  · simp [decodeTU]
  · intro k h1 h2
    have hk : k < us.length := by simpa [decodeTU] using h1
    simp only [decodeTU, List.getElem_map, List.getElem_range]
    rw [tuLookup_eq]
    have := encodeTUP_spec (us.map pack) (k + 1) (pack us[k]) (packed_getElem us k hk)
    simp only [encodeTU]
    rw [this]
    exact scalar_pack _ (hv _ (List.getElem_mem hk))

/-- code 0 (`.notdef`) reads U+FFFD -/
theorem tounicode_notdef (us : List Nat) :
    tuLookup (encodeTU us).1 (encodeTU us).2 0 = some 0xFFFD := by
  rw [tuLookup_eq]
  have := encodeTUP_spec (us.map pack) 0 0xFFFD (by simp)
  simp only [encodeTU]
  rw [this]
  decide

/-- the inputs that used to be written as one range over the `..FF → ..00` step are now split -/
theorem tounicode_low_byte_split :
    encodeTU [0xFE, 0xFF, 0x100, 0x101] = ([(1, 2, 0xFE), (3, 4, 0x100)], [(0, 0xFFFD)]) ∧
    encodeTU [0xFF, 0x100] = ([], [(0, 0xFFFD), (1, 0xFF), (2, 0x100)]) := by
  decide

example : decodeTU (encodeTU [0x1F0FF, 0x1F100]).1 (encodeTU [0x1F0FF, 0x1F100]).2 2 = [some 0x1F0FF, some 0x1F100] := by
  decide
example : decodeTU (encodeTU [72, 101, 108, 109, 0x1F600, 0x1F601]).1 (encodeTU [72, 101, 108, 109, 0x1F600, 0x1F601]).2 6
    = [some 72, some 101, some 108, some 109, some 0x1F600, some 0x1F601] := by decide

/-! ## (d) TJ adjustment and W rounding: per-glyph drift, in units of 1/(2000·upm) em

`tjAdjust upm dx` is the number written into the TJ array for an advance correction of `dx` font units;
a reader moves the pen by `-(tjAdjust upm dx)/1000` em where the layout asked for `dx/upm` em. -/

/-- corrections with `1000·dx/upm ≥ -1/2`: rounded to nearest, |error| ≤ 1/2 thousandth of an em -/
theorem tj_drift_nonneg (upm dx : Int) (hu : 0 < upm) (h : 0 ≤ 2000 * dx + upm) :
    - upm < 2 * upm * (- tjAdjust upm dx) - 2000 * dx ∧ 2 * upm * (- tjAdjust upm dx) - 2000 * dx ≤ upm := by
  have := tdiv_bounds_nonneg (2000 * dx + upm) (2 * upm) h (by linarith)
  simp only [tjAdjust, neg_neg]
  constructor <;> linarith [this.1, this.2]

/-- negative corrections are truncated the wrong way: the pen ends between 1/2 and 3/2 thousandths of an
em to the right of where the layout put it (the exact rounding asymmetry of `int(x+0.5)` for `x < -1/2`) -/
theorem tj_drift_neg (upm dx : Int) (hu : 0 < upm) (h : 2000 * dx + upm < 0) :
    upm ≤ 2 * upm * (- tjAdjust upm dx) - 2000 * dx ∧ 2 * upm * (- tjAdjust upm dx) - 2000 * dx < 3 * upm := by
  have := tdiv_bounds_neg (2000 * dx + upm) (2 * upm) h (by linarith)
  simp only [tjAdjust, neg_neg]
  constructor <;> linarith [this.1, this.2]

/-- per-glyph drift bound for every correction: strictly less than 3/2 thousandths of an em -/
theorem tj_drift (upm dx : Int) (hu : 0 < upm) :
    - upm < 2 * upm * (- tjAdjust upm dx) - 2000 * dx ∧ 2 * upm * (- tjAdjust upm dx) - 2000 * dx < 3 * upm := by
  by_cases h : 0 ≤ 2000 * dx + upm
  · have := tj_drift_nonneg upm dx hu h
    constructor <;> linarith [this.1, this.2]
  · have := tj_drift_neg upm dx hu (by linarith)
    constructor <;> linarith [this.1, this.2]

/-- the asymmetry is real: a kern of −50/1000 em is written as 49, a correction of −1/1000 em is lost -/
theorem tj_negative_witness : tjAdjust 1000 (-50) = 49 ∧ tjAdjust 1000 (-1) = 0 ∧ tjAdjust 1000 50 = -50 := by
  decide

/-- W widths (advances are unsigned): rounded to nearest, |error| ≤ 1/2 thousandth of an em -/
theorem w_width_drift (upm adv : Int) (hu : 0 < upm) (ha : 0 ≤ adv) :
    - upm < 2 * upm * wWidth upm adv - 2000 * adv ∧ 2 * upm * wWidth upm adv - 2000 * adv ≤ upm := by
  have h : 0 ≤ 2000 * adv + upm := by linarith
  have := tdiv_bounds_nonneg (2000 * adv + upm) (2 * upm) h (by linarith)
  simp only [wWidth]
  constructor <;> linarith [this.1, this.2]

/-! ## (e) pen positions of `toPath` and `textWidth` (font units; the code multiplies by `MmPerEm`) -/

def sumX (gs : List G) : Int := (gs.map (·.xadv)).sum
def sumY (gs : List G) : Int := (gs.map (·.yadv)).sum

/-- glyph `k` is placed at the face offset plus the sum of the preceding advances plus its own offset -/
theorem topath_positions (gs : List G) (x y : Int) (k : Nat) (hk : k < gs.length) :
    (penRun x y gs).1[k]? = some (x + sumX (gs.take k) + gs[k].xoff, y + sumY (gs.take k) + gs[k].yoff) := by
  induction gs generalizing x y k with
  | nil => simp at hk
  | cons g gs ih =>
    cases k with
    | zero => simp [penRun, sumX, sumY]
    | succ k =>
      have hk' : k < gs.length := by simpa using hk
      simp only [penRun, List.getElem?_cons_succ, List.take_succ_cons, List.getElem_cons_succ]
      rw [ih (x + g.xadv) (y + g.yadv) k hk']
      simp only [sumX, sumY, List.map_cons, List.sum_cons]
      congr 2 <;> omega

/-- the returned pen position is the face offset plus all horizontal advances -/
theorem topath_final (gs : List G) (x y : Int) : (penRun x y gs).2 = x + sumX gs := by
  induction gs generalizing x y with
  | nil => simp [penRun, sumX]
  | cons g gs ih =>
    simp only [penRun]
    rw [ih]
    simp only [sumX, List.map_cons, List.sum_cons]
    omega

/-- for horizontal glyphs the width returned by `toPath` is `XOffset + textWidth` (equal when the face has
no horizontal offset) -/
theorem topath_width_textwidth (gs : List G) (x y : Int) (hh : ∀ g ∈ gs, g.vert = false) :
    (penRun x y gs).2 = x + textWidthUnits gs := by
  rw [topath_final]
  congr 1
  induction gs with
  | nil => simp [sumX, textWidthUnits]
  | cons g gs ih =>
    have hg := hh g (by simp)
    have := ih (fun g' hg' => hh g' (by simp [hg']))
    simp only [sumX, List.map_cons, List.sum_cons, textWidthUnits, hg] at this ⊢
    simp [this]

/-- as many positions as glyphs -/
theorem topath_count (gs : List G) (x y : Int) : (penRun x y gs).1.length = gs.length := by
  induction gs generalizing x y with
  | nil => simp [penRun]
  | cons g gs ih => simp [penRun, ih]

/-! ## (f) scaling: the outline of a text at face scale `f` is the unit-scale outline times `f` -/

theorem glyphPts_scale (f px py : Int) (o : List (Int × Int)) :
    glyphPts f px py o = scalePts f (glyphPts 1 px py o) := by
  simp only [glyphPts, scalePts, List.map_map]
  apply List.map_congr_left
  intro c _
  simp only [Function.comp]
  congr 1 <;> ring

/-- `toPath` at scale `f` = `f ·` (`toPath` at scale 1): same glyphs, same relative geometry, for every
face offset, glyph list and outline — the result does not depend on anything else (no `ppem`, no history). -/
theorem toPath_scale_unit (f x y : Int) (gs : List (G × List (Int × Int))) :
    toPathPts f x y gs = scalePts f (toPathPts 1 x y gs) := by
  induction gs generalizing x y with
  | nil => simp [toPathPts, scalePts]
  | cons go gs ih =>
    obtain ⟨g, o⟩ := go
    simp only [toPathPts]
    rw [ih, glyphPts_scale]
    simp [scalePts]

/-- `toPath_scale_linear`: outlines of two faces of one font are proportional, `f₀ · outline(f) = f · outline(f₀)`
(i.e. outline(size s) = s/s₀ · outline(size s₀)). -/
theorem toPath_scale_linear (f f0 x y : Int) (gs : List (G × List (Int × Int))) :
    scalePts f0 (toPathPts f x y gs) = scalePts f (toPathPts f0 x y gs) := by
  rw [toPath_scale_unit f, toPath_scale_unit f0]
  simp only [scalePts, List.map_map]
  apply List.map_congr_left
  intro p _
  simp only [Function.comp]
  congr 1 <;> ring

/-- every glyph contributes exactly its outline points (nothing dropped, nothing shared between glyphs) -/
theorem toPath_point_count (f x y : Int) (gs : List (G × List (Int × Int))) :
    (toPathPts f x y gs).length = (gs.map (fun go => go.2.length)).sum := by
  induction gs generalizing x y with
  | nil => simp [toPathPts]
  | cons go gs ih =>
    obtain ⟨g, o⟩ := go
    simp [toPathPts, glyphPts, ih]

/-! ## (g) glyph codes in content streams: escaped literal strings read back byte for byte -/

/-- For every list of codes: a §7.3.4.2 reader that has consumed `(` reads the written bytes up to the
closing parenthesis as exactly the big-endian code bytes, and stops right behind it. -/
theorem content_string_roundtrip (cs rest : List Nat) :
    readLit LSt.start (escCodes cs ++ 41 :: rest) = some (allCodeBytes cs, rest) := by
  have := readLit_escCodes cs [] (41 :: rest)
  simp only [LSt.start]
  rw [this]
  simp [readLit, litStep, litNormal]

/-- the two-byte codes come back from the bytes (codes are uint16) -/
theorem content_codes_roundtrip (cs : List Nat) (hb : ∀ c ∈ cs, c < 65536) :
    codesOfBytes (allCodeBytes cs) = some cs := by
  induction cs with
  | nil => rfl
  | cons c cs ih =>
    have hc := hb c (by simp)
    simp only [allCodeBytes, codeBytes, List.cons_append, List.nil_append, codesOfBytes]
    rw [ih (fun x hx => hb x (by simp [hx]))]
    simp only [Option.map_some]
    congr 2
    omega

/-! ## (h) the TJ array: structure and accumulated pen error -/

/-- Reading the array `WriteText` builds (§9.4.3) gives every glyph's code in order, each followed by the
rounded adjustment of its own advance difference (none when the advance is the font's), and no leading
adjustment — for every glyph list. -/
theorem tj_read_build (upm : Int) (gs : List (Nat × Int)) :
    tjRead (tjBuild upm gs) = (0, gs.map (tjSpec upm)) := by
  have h1 := tjRead_go_lead upm [] gs
  have h2 := tjRead_go upm [] gs
  simp only [List.map_nil, List.nil_append] at h2
  unfold tjBuild
  rw [← h1, ← h2]

/-- accumulated pen error of a glyph run in units of 1/(2000·upm) em: what the reader adds up
(`-(adjustment)` thousandths per glyph) minus what the layout asked for (`dx/upm` em per glyph) -/
def tjError (upm : Int) : List (Nat × Int) → Int
  | [] => 0
  | g :: gs => (2 * upm * (- (tjSpec upm g).2) - 2000 * g.2) + tjError upm gs

/-- Error bound for a whole run: after `n` glyphs the pen is at most `n/2` thousandths of an em left and
`3n/2` right of the laid-out position (the one-sided bias of `int(x+0.5)` for negative `x`). -/
theorem tj_error_total (upm : Int) (hu : 0 < upm) (gs : List (Nat × Int)) :
    - (upm * gs.length) ≤ tjError upm gs ∧ tjError upm gs ≤ 3 * upm * gs.length := by
  induction gs with
  | nil => simp [tjError]
  | cons g gs ih =>
    obtain ⟨c, dx⟩ := g
    have e : ((List.length ((c, dx) :: gs) : Nat) : Int) = (gs.length : Int) + 1 := by simp
    rw [e]
    simp only [tjError, tjSpec]
    by_cases hdx : dx = 0
    · subst hdx
      simp only [if_true]
      constructor <;> nlinarith [ih.1, ih.2]
    · simp only [hdx, if_false]
      have d := tj_drift upm dx hu
      constructor <;> nlinarith [ih.1, ih.2, d.1, d.2]

/-- and without any adjusted glyph there is no error at all -/
theorem tj_error_none (upm : Int) (gs : List (Nat × Int)) (h : ∀ g ∈ gs, g.2 = 0) : tjError upm gs = 0 := by
  induction gs with
  | nil => rfl
  | cons g gs ih =>
    have hg := h g (by simp)
    simp only [tjError, tjSpec, hg, if_true]
    rw [ih (fun x hx => h x (by simp [hx]))]
    simp

/-! ## (i) code → glyph: subsetter ∘ (CIDToGIDMap | subset program order) -/

/-- the CIDToGIDMap stream reads back the glyph list, for every list of uint16 glyph IDs -/
theorem cidmap_roundtrip (ids : List Nat) (hb : ∀ g ∈ ids, g < 65536) (cid : Nat) :
    cidToGid (encodeCidMap ids) cid = ids[cid]? :=
  cidToGid_encode ids hb cid

/-- END TO END for glyph selection: after any history of `Get` calls, the code that was written into the
content stream for glyph `g` selects exactly `g` of the source font — when a subset program is embedded, and
for TrueType fonts whenever the full program is embedded (CIDToGIDMap stream). -/
theorem code_selects_glyph_partial (subset trueType : Bool) (hmode : subset = true ∨ trueType = true)
    (h : List Nat) (hb : ∀ g ∈ h, g < 65536) (g c : Nat)
    (hgc : (g, c) ∈ h.zip (Sub.new.run h).2) : codeGlyph subset trueType (Sub.new.run h).1.ids c = some g := by
  obtain ⟨i, _, _, sp⟩ := run_spec h Sub.new inv_new hb
  have hs := sp _ hgc
  unfold codeGlyph
  cases subset with
  | true => simpa using hs
  | false =>
    have ht : trueType = true := by simpa using hmode
    simp only [Bool.false_eq_true, if_false, ht, if_true]
    rw [cidToGid_encode _ i.bound]
    exact hs

/-- FULL STRENGTH for TrueType fonts: whatever the SubsetFonts option and whether or not `sfnt.Subset`
succeeded (the fallback of /repo 788048f writes the stream), every code shows the laid-out glyph. -/
theorem code_selects_glyph_truetype (wanted subsetOK : Bool) (h : List Nat) (hb : ∀ g ∈ h, g < 65536) (g c : Nat)
    (hgc : (g, c) ∈ h.zip (Sub.new.run h).2) :
    fontCodeGlyph wanted subsetOK true (Sub.new.run h).1.ids c = some g :=
  code_selects_glyph_partial _ true (Or.inr rfl) h hb g c hgc

/-- for CFF fonts: whenever the subset program is embedded -/
theorem code_selects_glyph_cff_subset (h : List Nat) (hb : ∀ g ∈ h, g < 65536) (g c : Nat)
    (hgc : (g, c) ∈ h.zip (Sub.new.run h).2) :
    fontCodeGlyph true true false (Sub.new.run h).1.ids c = some g :=
  code_selects_glyph_partial true false (Or.inl rfl) h hb g c hgc

/-- the full statement (every font format and embedding outcome); it does NOT hold for the unchanged code -/
def code_selects_glyph_statement : Prop :=
  ∀ (wanted subsetOK trueType : Bool) (h : List Nat), (∀ g ∈ h, g < 65536) → ∀ g c,
    (g, c) ∈ h.zip (Sub.new.run h).2 → fontCodeGlyph wanted subsetOK trueType (Sub.new.run h).1.ids c = some g

/-- Witness of the remaining defect: an OpenType/CFF font embedded whole (SubsetFonts off, or subsetting
failed). The first glyph used, say glyph 5, gets code 1; the CIDToGIDMap stream that would translate 1 ↦ 5
does not apply to a CIDFontType0, a conforming reader shows glyph 1. -/
theorem cff_whole_font_witness :
    (Sub.new.run [5]).2 = [1] ∧ fontCodeGlyph false true false (Sub.new.run [5]).1.ids 1 = some 1 ∧
    fontCodeGlyph true false false (Sub.new.run [5]).1.ids 1 = some 1 := by decide

theorem code_selects_glyph_statement_false : ¬ code_selects_glyph_statement := by
  intro h
  have := h false true false [5] (by decide) 5 1 (by decide)
  revert this
  decide

example : codeGlyph true false (Sub.new.run [5, 7, 5, 300]).1.ids 3 = some 300 := by decide
example : fontCodeGlyph true false true (Sub.new.run [5, 7, 5, 300]).1.ids 3 = some 300 := by decide

/-! ## (b') W array of a font: advances → widths → W -/

theorem w_font_lookup (upm : Int) (advs : List Int) (hne : advs ≠ []) (cid : Nat) (hc : cid < advs.length) :
    lookupW (fontW upm advs).1 (fontW upm advs).2 cid = wWidth upm advs[cid] := by
  have hne' : advs.map (wWidth upm) ≠ [] := by simpa using hne
  have := w_cid_lookup (advs.map (wWidth upm)) hne' cid (by simpa using hc)
  simpa [fontW] using this

/-- the width a reader uses for a glyph is its advance in thousandths of an em rounded to nearest -/
theorem w_font_error (upm : Int) (hu : 0 < upm) (advs : List Int) (ha : ∀ a ∈ advs, 0 ≤ a) (hne : advs ≠ [])
    (cid : Nat) (hc : cid < advs.length) :
    - upm < 2 * upm * lookupW (fontW upm advs).1 (fontW upm advs).2 cid - 2000 * advs[cid] ∧
    2 * upm * lookupW (fontW upm advs).1 (fontW upm advs).2 cid - 2000 * advs[cid] ≤ upm := by
  rw [w_font_lookup upm advs hne cid hc]
  exact w_width_drift upm advs[cid] hu (ha _ (List.getElem_mem hc))

example : tjRead (tjBuild 1000 [(1, 0), (2, -50), (3, 0), (4, 7)]) = (0, [(1, 0), (2, 49), (3, 0), (4, -7)]) := by decide
example : readLit LSt.start (escCodes [10, 40, 0x5C29, 65] ++ 41 :: [32]) = some ([0, 10, 0, 40, 0x5C, 0x29, 0, 65], [32]) := by decide
example : codeGlyph false true (Sub.new.run [5, 7, 5, 300]).1.ids 3 = some 300 := by decide

/-! ## (j) soundness of the Lean-side verdict used for whole PDF files -/

/-- verdict "ok" ⇒ for EVERY code of the font a §9.7.4.3 reader gets the rounded advance of the glyph and a
strict §9.10.3 reader gets its character. -/
theorem fontVerdict_sound (o : FontObs) (h : fontVerdict o = none) (k : Nat) (hk : k < o.advs.length) :
    lookupW o.dw o.w k = wWidth o.upm (o.advs.getD k 0) ∧
    ∀ u, o.unis.getD k none = some u → tuLookup o.ranges o.chars k = some u := by
  have := List.find?_eq_none.1 h k (List.mem_range.2 hk)
  simp only [Bool.not_eq_true, Bool.not_eq_false', codeOK, Bool.and_eq_true, beq_iff_eq] at this
  refine ⟨this.1, ?_⟩
  intro u hu
  have h2 := this.2
  rw [hu] at h2
  simpa using h2

/-- verdict `some k` ⇒ code `k` really is wrong (the verdict never alarms on a correct table) -/
theorem fontVerdict_complete (o : FontObs) (k : Nat) (h : fontVerdict o = some k) : codeOK o k = false := by
  have := List.find?_some h
  simpa using this

/-- the writer's own tables always pass: W built by `fontW`, ToUnicode built by `encodeTU` (codes 1…n carry
the glyphs' runes, code 0 is `.notdef`) -/
theorem fontVerdict_of_model (upm : Int) (advs : List Int) (us : List Nat) (hne : advs ≠ [])
    (hlen : advs.length = us.length + 1) (hv : ∀ u ∈ us, validScalar u = true) :
    fontVerdict ⟨upm, advs, none :: us.map some, (fontW upm advs).1, (fontW upm advs).2,
      (encodeTU us).1, (encodeTU us).2⟩ = none := by
  apply List.find?_eq_none.2
  intro k hk
  have hk' : k < advs.length := List.mem_range.1 hk
  simp only [Bool.not_eq_true, Bool.not_eq_false', codeOK, Bool.and_eq_true, beq_iff_eq]
  constructor
  · rw [w_font_lookup upm advs hne k hk']
    simp [List.getD, List.getElem?_eq_getElem hk']
  · cases k with
    | zero => simp
    | succ j =>
      have hj : j < us.length := by omega
      have rt := tounicode_roundtrip us hv
      have := congrArg (fun l => l[j]?) rt
      simp only [decodeTU, List.getElem?_map, List.getElem?_range hj, Option.map_some] at this
      rw [List.getElem?_eq_getElem hj] at this
      simp only [Option.map_some, Option.some.injEq] at this
      simp [List.getD, hj, this]

/-! ## non-vacuity: the hypotheses of the theorems above are met by ordinary inputs -/

example : (Sub.new.run [36, 72, 0, 36, 65535]).2 = [1, 2, 0, 1, 3] ∧ (Sub.new.run [36, 72, 0, 36, 65535]).1.ids = [0, 36, 72, 65535] := by decide
example : ∀ g ∈ [36, 72, 0, 36, 65535], g < 65536 := by decide
example : decodeW (encodeW [600, 500, 500, 500, 500, 500, 500, 300, 600, 600, 600, 600, 600, 0]).1
    (encodeW [600, 500, 500, 500, 500, 500, 500, 300, 600, 600, 600, 600, 600, 0]).2 14
    = [600, 500, 500, 500, 500, 500, 500, 300, 600, 600, 600, 600, 600, 0] :=
  w_roundtrip _ (by decide)
example : ∀ u ∈ [0x48, 0xFF, 0x100, 0x1F600], validScalar u = true := by decide
example : (0 : Int) < 2048 ∧ - (2048 * 3) ≤ tjError 2048 [(1, -50), (2, 0), (3, 7)] ∧ tjError 2048 [(1, -50), (2, 0), (3, 7)] ≤ 3 * 2048 * 3 :=
  ⟨by decide, (tj_error_total 2048 (by decide) [(1, -50), (2, 0), (3, 7)]).1, (tj_error_total 2048 (by decide) _).2⟩
example : tjError 2048 [(1, -50), (2, 0), (3, 7)] = 4080 := by decide
example : fontVerdict ⟨1000, [500, 600, 600], [none, some 65, some 66], 500, [WEnt.arr 1 [600, 600, 0]], [(1, 2, 65)], [(0, 0xFFFD)]⟩ = none := by decide
example : fontVerdict ⟨1000, [500, 600, 700], [none, some 65, some 66], 500, [WEnt.arr 1 [600, 600, 0]], [(1, 2, 65)], [(0, 0xFFFD)]⟩ = some 2 := by decide
example : scalePts 3 (toPathPts 2 10 20 [(⟨5, 0, 1, 2, false⟩, [(0, 0), (4, 7)])]) = scalePts 2 (toPathPts 3 10 20 [(⟨5, 0, 1, 2, false⟩, [(0, 0), (4, 7)])]) :=
  toPath_scale_linear 2 3 10 20 _

end C18
