#!/usr/bin/env python3
"""switch_after_fix.py fastbounds|thetatop [--lean DIR]

Switches the C08 Lean model and property file to the corrected formula after the corresponding
`fix:` commit has been made in /repo (see lean/CanvasProofs/Lemmas/C08Fixed.lean). Idempotent.
  fastbounds: CanvasModel/C08.lean  fastStep := fastStepG mn -> fastStepG mx ;
              CanvasProofs/C08.lean  block 'pre-fix fastbounds' -> C08_fastbounds_after_fix.lean.txt,
              import CanvasProofs.Lemmas.C08Fixed added
  thetatop:   CanvasModel/C08.lean  boundsStep := boundsStepG false -> boundsStepG true ;
              CanvasProofs/C08.lean  block 'pre-fix thetatop' -> C08_thetatop_after_fix.lean.txt
Afterwards set the known_findings.json entry to status "fixed" and run bin/check C08."""
import os, re, sys
here = os.path.dirname(os.path.abspath(__file__))
which = sys.argv[1]
lean = os.path.join(os.path.dirname(os.path.dirname(here)), "lean")
if "--lean" in sys.argv:
    lean = sys.argv[sys.argv.index("--lean") + 1]
model = os.path.join(lean, "CanvasModel/C08.lean")
prop = os.path.join(lean, "CanvasProofs/C08.lean")
m, p = open(model).read(), open(prop).read()

def block(text, name, repl):
    b, e = "-- BEGIN pre-fix %s\n" % name, "-- END pre-fix %s\n" % name
    if b not in text:
        return text
    i, j = text.index(b), text.index(e) + len(e)
    return text[:i] + "-- after-fix %s\n" % name + repl + text[j:]

if which == "fastbounds":
    m = m.replace("def fastStep : St α → Cmd α → St α := fastStepG mn", "def fastStep : St α → Cmd α → St α := fastStepG mx")
    p = block(p, "fastbounds", open(os.path.join(here, "C08_fastbounds_after_fix.lean.txt")).read())
    if "import CanvasProofs.Lemmas.C08Fixed" not in p:
        p = p.replace("import CanvasProofs.Lemmas.C08Equiv\n", "import CanvasProofs.Lemmas.C08Equiv\nimport CanvasProofs.Lemmas.C08Fixed\n", 1)
elif which == "thetatop":
    m = m.replace("def boundsStep : St α → Cmd α → St α := boundsStepG false", "def boundsStep : St α → Cmd α → St α := boundsStepG true")
    p = block(p, "thetatop", open(os.path.join(here, "C08_thetatop_after_fix.lean.txt")).read())
else:
    raise SystemExit(__doc__)
open(model, "w").write(m)
open(prop, "w").write(p)
print("switched", which, "in", lean)
