// gotolean: translate a whitelisted subset of pure Go functions of tdewolff/canvas into Lean 4
// definitions. Stdlib only (go/parser, go/ast). Two printing modes:
//
//	F: scalar = Float (executable, linked into the model driver, compared bit-exactly with Go)
//	K: scalar = K with [Field K] [LinearOrder K] [IsStrictOrderedRing K] [Env K] (used by the proofs)
//
// Anything outside the accepted subset makes the tool exit non-zero naming the function: a function
// that used to be translatable and no longer is counts as a broken obligation, never as silence.
package main

import (
	"encoding/json"
	"fmt"
	"go/ast"
	"go/parser"
	"go/token"
	"os"
	"path/filepath"
	"sort"
	"strconv"
	"strings"
)

type Type string

const (
	TFloat Type = "float"
	TInt   Type = "int"
	TBool  Type = "bool"
	TPoint Type = "Point"
	TMat   Type = "Matrix"
	TRect  Type = "Rect"
	TUnk   Type = ""
)

type Spec struct {
	Funcs []struct {
		File string `json:"file"`
		Recv string `json:"recv"`
		Name string `json:"name"`
	} `json:"funcs"`
	Consts []struct {
		File  string   `json:"file"`
		Names []string `json:"names"`
	} `json:"consts"`
	// Records: Go struct name -> field -> type; receiver pointers are flattened to value records.
	Records map[string]map[string]string `json:"records"`
}

type fn struct {
	decl *ast.FuncDecl
	recv string
	name string
	rets []Type
	file string
}

var (
	mode    string // "F" or "K"
	fset    = token.NewFileSet()
	funcs   = map[string]*fn{} // key recv.name or name
	order   []*fn
	intEnum = map[string]bool{"FillRule": true, "pathOp": true, "int": true, "uint8": true, "uint": true, "int64": true}
	records = map[string]map[string]Type{}
	consts  = map[string]Type{} // known constant names -> type
	curFn   string
)

func fail(n ast.Node, format string, a ...any) {
	pos := ""
	if n != nil {
		pos = fset.Position(n.Pos()).String() + ": "
	}
	fmt.Fprintf(os.Stderr, "gotolean: UNSUPPORTED in %s: %s%s\n", curFn, pos, fmt.Sprintf(format, a...))
	os.Exit(3)
}

func goType(e ast.Expr) Type {
	switch t := e.(type) {
	case *ast.Ident:
		switch t.Name {
		case "float64":
			return TFloat
		case "bool":
			return TBool
		case "Point":
			return TPoint
		case "Matrix":
			return TMat
		case "Rect":
			return TRect
		}
		if intEnum[t.Name] {
			return TInt
		}
		if _, ok := records[t.Name]; ok {
			return Type(t.Name)
		}
	case *ast.StarExpr:
		return goType(t.X)
	}
	return TUnk
}

func leanType(t Type) string {
	s := "Float"
	if mode == "K" {
		s = "K"
	}
	switch t {
	case TFloat:
		return s
	case TInt:
		return "Int"
	case TBool:
		return "Bool"
	case TPoint:
		return "(Pt " + s + ")"
	case TMat:
		return "(Mat " + s + ")"
	case TRect:
		return "(Rct " + s + ")"
	}
	if _, ok := records[string(t)]; ok {
		return "(" + string(t) + " " + s + ")"
	}
	return "?"
}

var leanKw = map[string]bool{"open": true, "end": true, "at": true, "from": true, "fun": true, "in": true, "do": true, "then": true, "else": true, "let": true, "have": true, "show": true, "by": true, "with": true, "match": true, "where": true, "instance": true, "class": true, "structure": true, "theorem": true, "def": true, "local": true, "section": true, "namespace": true, "variable": true, "universe": true, "import": true, "export": true, "private": true, "protected": true, "mutual": true, "deriving": true, "if": true, "Type": true, "Prop": true, "Sort": true, "macro": true, "syntax": true, "notation": true, "attribute": true, "example": true, "axiom": true, "abbrev": true, "inductive": true, "opaque": true, "using": true, "calc": true, "obtain": true, "suffices": true, "return": true, "for": true, "unless": true, "try": true, "catch": true, "finally": true, "mut": true, "nomatch": true, "nofun": true, "extends": true, "to": true, "prefix": true, "postfix": true, "infix": true, "this": true, "self": true}

func id(s string) string {
	if leanKw[s] {
		return s + "_"
	}
	return s
}

func lower1(s string) string {
	if s == "" {
		return s
	}
	return strings.ToLower(s[:1]) + s[1:]
}

func fieldName(t Type, f string) (string, Type) {
	switch t {
	case TPoint:
		if f == "X" || f == "Y" {
			return lower1(f), TFloat
		}
	case TRect:
		switch f {
		case "X0", "Y0", "X1", "Y1":
			return lower1(f), TFloat
		}
	}
	if r, ok := records[string(t)]; ok {
		if ft, ok := r[f]; ok {
			return id(f), ft
		}
		// embedded Point
		if _, ok := r["Point"]; ok && (f == "X" || f == "Y") {
			return "Point." + lower1(f), TFloat
		}
	}
	return "", TUnk
}

var matField = [2][3]string{{"a", "b", "c"}, {"d", "e", "f"}}

func lit(s string, t Type) string {
	if t == TInt {
		return "(" + s + " : Int)"
	}
	// float literal
	if mode == "F" {
		if !strings.ContainsAny(s, ".eE") {
			s += ".0"
		}
		return "(" + s + " : Float)"
	}
	// K: exact rational
	mant, exp := s, 0
	if i := strings.IndexAny(s, "eE"); i >= 0 {
		mant = s[:i]
		exp, _ = strconv.Atoi(s[i+1:])
	}
	den := 0
	if i := strings.Index(mant, "."); i >= 0 {
		frac := strings.TrimRight(mant[i+1:], "0")
		mant = mant[:i] + frac
		den = len(frac)
	}
	mant = strings.TrimLeft(mant, "0")
	if mant == "" {
		mant = "0"
	}
	exp -= den
	switch {
	case exp == 0:
		return "(" + mant + " : K)"
	case exp > 0:
		return "(" + mant + strings.Repeat("0", exp) + " : K)"
	default:
		return "((" + mant + " : K) / 1" + strings.Repeat("0", -exp) + ")"
	}
}

type env struct {
	vars map[string]Type
}

func (e *env) clone() *env {
	n := &env{vars: map[string]Type{}}
	for k, v := range e.vars {
		n.vars[k] = v
	}
	return n
}

func isLit(e ast.Expr) bool {
	switch x := e.(type) {
	case *ast.BasicLit:
		return true
	case *ast.ParenExpr:
		return isLit(x.X)
	case *ast.UnaryExpr:
		return isLit(x.X)
	case *ast.BinaryExpr:
		return isLit(x.X) && isLit(x.Y)
	}
	return false
}

// prop translates a boolean Go expression into a Lean Prop.
func (e *env) prop(x ast.Expr) string {
	switch b := x.(type) {
	case *ast.ParenExpr:
		return "(" + e.prop(b.X) + ")"
	case *ast.UnaryExpr:
		if b.Op == token.NOT {
			return "(¬ " + e.prop(b.X) + ")"
		}
	case *ast.BinaryExpr:
		switch b.Op {
		case token.LAND:
			return "(" + e.prop(b.X) + " ∧ " + e.prop(b.Y) + ")"
		case token.LOR:
			return "(" + e.prop(b.X) + " ∨ " + e.prop(b.Y) + ")"
		case token.LSS, token.LEQ, token.GTR, token.GEQ, token.EQL, token.NEQ:
			var ls, rs string
			var lt, rt Type
			if isLit(b.X) && !isLit(b.Y) {
				rs, rt = e.expr(b.Y, TUnk)
				ls, lt = e.expr(b.X, rt)
			} else {
				ls, lt = e.expr(b.X, TUnk)
				rs, rt = e.expr(b.Y, lt)
			}
			_ = rt
			op := map[token.Token]string{token.LSS: "<", token.LEQ: "≤", token.GTR: ">", token.GEQ: "≥", token.EQL: "=", token.NEQ: "≠"}[b.Op]
			if lt == TFloat && mode == "F" {
				// IEEE comparisons; == on floats is BEq, never structural equality
				switch b.Op {
				case token.EQL:
					return "((" + ls + " == " + rs + ") = true)"
				case token.NEQ:
					return "((" + ls + " != " + rs + ") = true)"
				}
			}
			if lt == TBool {
				if b.Op == token.EQL {
					return "(" + ls + " = " + rs + ")"
				}
				return "(" + ls + " ≠ " + rs + ")"
			}
			if lt == TPoint && mode == "F" {
				fail(x, "point equality in F mode")
			}
			return "(" + ls + " " + op + " " + rs + ")"
		}
	}
	s, t := e.expr(x, TBool)
	if t != TBool {
		fail(x, "expected bool expression, got %q", t)
	}
	return "(" + s + " = true)"
}

func (e *env) call(c *ast.CallExpr, want Type) (string, Type) {
	args := func(ts ...Type) []string {
		var out []string
		for i, a := range c.Args {
			t := TUnk
			if i < len(ts) {
				t = ts[i]
			}
			s, _ := e.expr(a, t)
			out = append(out, s)
		}
		return out
	}
	switch f := c.Fun.(type) {
	case *ast.Ident:
		switch f.Name {
		case "float64":
			s, t := e.expr(c.Args[0], TUnk)
			if t == TInt {
				if mode == "F" {
					return "(Float.ofInt " + s + ")", TFloat
				}
				return "((" + s + " : Int) : K)", TFloat
			}
			return s, TFloat
		case "int", "uint8":
			s, t := e.expr(c.Args[0], TInt)
			if t != TInt {
				fail(c, "float to int conversion")
			}
			return s, TInt
		}
		if fd, ok := funcs[f.Name]; ok {
			var pts []Type
			for _, p := range fd.decl.Type.Params.List {
				for range p.Names {
					pts = append(pts, goType(p.Type))
				}
			}
			rt := TUnk
			if len(fd.rets) == 1 {
				rt = fd.rets[0]
			} else {
				rt = Type("tuple")
			}
			return "(" + f.Name + " " + strings.Join(args(pts...), " ") + ")", rt
		}
		fail(c, "call to non-whitelisted function %s", f.Name)
	case *ast.SelectorExpr:
		if id, ok := f.X.(*ast.Ident); ok && id.Name == "math" {
			a := args(TFloat, TFloat, TFloat)
			m := map[string][2]string{
				"Sqrt": {"Float.sqrt", "Env.sqrt"}, "Abs": {"Float.abs", "abs"},
				"Min": {"goMin", "min"}, "Max": {"goMax", "max"},
				"Cos": {"Float.cos", "Env.cos"}, "Sin": {"Float.sin", "Env.sin"},
				"Atan2": {"Float.atan2", "Env.atan2"}, "Hypot": {"goHypot", "Env.hypot"},
				"Round": {"goRound", "Env.round"}, "Acos": {"Float.acos", "Env.acos"},
				"Cbrt": {"Float.cbrt", "Env.cbrt"}, "Pow": {"Float.pow", "Env.pow"},
			}
			if v, ok := m[f.Sel.Name]; ok {
				i := 0
				if mode == "K" {
					i = 1
				}
				return "(" + v[i] + " " + strings.Join(a, " ") + ")", TFloat
			}
			if f.Sel.Name == "IsNaN" {
				if mode == "F" {
					return "(Float.isNaN " + a[0] + ")", TBool
				}
				return "(Env.isNaN " + a[0] + ")", TBool
			}
			fail(c, "math.%s", f.Sel.Name)
		}
		// method call
		rs, rt := e.expr(f.X, TUnk)
		key := string(rt) + "." + f.Sel.Name
		if rt == TInt {
			// enum methods: find any int-enum receiver with this method
			for k := range funcs {
				if strings.HasSuffix(k, "."+f.Sel.Name) && intEnum[strings.Split(k, ".")[0]] {
					key = k
				}
			}
		}
		fd, ok := funcs[key]
		if !ok {
			fail(c, "call to non-whitelisted method %s", key)
		}
		var pts []Type
		for _, p := range fd.decl.Type.Params.List {
			for range p.Names {
				pts = append(pts, goType(p.Type))
			}
		}
		ret := Type("tuple")
		if len(fd.rets) == 1 {
			ret = fd.rets[0]
		}
		return "(" + fd.recv + "." + fd.name + " " + rs + " " + strings.Join(args(pts...), " ") + ")", ret
	}
	fail(c, "call form")
	return "", TUnk
}

func (e *env) expr(x ast.Expr, want Type) (string, Type) {
	switch b := x.(type) {
	case *ast.ParenExpr:
		s, t := e.expr(b.X, want)
		return s, t
	case *ast.BasicLit:
		switch b.Kind {
		case token.FLOAT:
			return lit(b.Value, TFloat), TFloat
		case token.INT:
			if want == TFloat {
				return lit(b.Value, TFloat), TFloat
			}
			return lit(b.Value, TInt), TInt
		}
	case *ast.Ident:
		if t, ok := e.vars[b.Name]; ok {
			return b.Name, t
		}
		if t, ok := consts[b.Name]; ok {
			if t == TFloat {
				if mode == "K" {
					return "(Env." + lower1(b.Name) + " : K)", t
				}
				return b.Name, t
			}
			return b.Name, t
		}
		switch b.Name {
		case "true", "false":
			return b.Name, TBool
		case "Identity":
			one, zero := lit("1", TFloat), lit("0", TFloat)
			return "(Mat.mk " + strings.Join([]string{one, zero, zero, zero, one, zero}, " ") + ")", TMat
		}
		fail(x, "unknown identifier %s", b.Name)
	case *ast.SelectorExpr:
		if id, ok := b.X.(*ast.Ident); ok && id.Name == "math" {
			if b.Sel.Name == "Pi" {
				if mode == "F" {
					return "goPi", TFloat
				}
				return "(Env.pi : K)", TFloat
			}
			fail(x, "math.%s", b.Sel.Name)
		}
		s, t := e.expr(b.X, TUnk)
		fn, ft := fieldName(t, b.Sel.Name)
		if fn == "" {
			fail(x, "field %s of %q", b.Sel.Name, t)
		}
		return s + "." + fn, ft
	case *ast.IndexExpr:
		// m[i][j] with constant indices on a Matrix
		if in, ok := b.X.(*ast.IndexExpr); ok {
			s, t := e.expr(in.X, TMat)
			if t == TMat {
				i, _ := strconv.Atoi(in.Index.(*ast.BasicLit).Value)
				j, _ := strconv.Atoi(b.Index.(*ast.BasicLit).Value)
				return s + "." + matField[i][j], TFloat
			}
		}
		fail(x, "index expression")
	case *ast.UnaryExpr:
		switch b.Op {
		case token.SUB:
			s, t := e.expr(b.X, want)
			return "(-" + s + ")", t
		case token.NOT:
			return "(decide " + e.prop(x) + ")", TBool
		}
	case *ast.BinaryExpr:
		switch b.Op {
		case token.ADD, token.SUB, token.MUL, token.QUO, token.REM:
			var ls, rs string
			var lt, rt Type
			if isLit(b.X) && !isLit(b.Y) {
				rs, rt = e.expr(b.Y, want)
				ls, lt = e.expr(b.X, rt)
			} else {
				ls, lt = e.expr(b.X, want)
				rs, rt = e.expr(b.Y, lt)
			}
			if lt != rt {
				fail(x, "operand types %q vs %q", lt, rt)
			}
			if lt == TInt {
				switch b.Op {
				case token.QUO:
					return "(Int.tdiv " + ls + " " + rs + ")", TInt
				case token.REM:
					return "(Int.tmod " + ls + " " + rs + ")", TInt
				}
			}
			if b.Op == token.REM {
				fail(x, "float %%")
			}
			return "(" + ls + " " + b.Op.String() + " " + rs + ")", lt
		default:
			return "(decide " + e.prop(x) + ")", TBool
		}
	case *ast.CallExpr:
		return e.call(b, want)
	case *ast.CompositeLit:
		t := goType(b.Type)
		switch t {
		case TPoint, TRect:
			names := []string{"X", "Y"}
			ctor := "Pt.mk"
			if t == TRect {
				names = []string{"X0", "Y0", "X1", "Y1"}
				ctor = "Rct.mk"
			}
			vals := make([]string, len(names))
			for i := range vals {
				vals[i] = lit("0", TFloat)
			}
			for i, el := range b.Elts {
				if kv, ok := el.(*ast.KeyValueExpr); ok {
					for j, n := range names {
						if kv.Key.(*ast.Ident).Name == n {
							vals[j], _ = e.expr(kv.Value, TFloat)
						}
					}
				} else {
					vals[i], _ = e.expr(el, TFloat)
				}
			}
			return "(" + ctor + " " + strings.Join(vals, " ") + ")", t
		case TMat:
			var vals []string
			for _, row := range b.Elts {
				for _, el := range row.(*ast.CompositeLit).Elts {
					s, _ := e.expr(el, TFloat)
					vals = append(vals, s)
				}
			}
			if len(vals) != 6 {
				fail(x, "matrix literal with %d entries", len(vals))
			}
			return "(Mat.mk " + strings.Join(vals, " ") + ")", TMat
		}
	}
	fail(x, "expression %T", x)
	return "", TUnk
}

func hasReturn(ss []ast.Stmt) bool {
	found := false
	for _, s := range ss {
		ast.Inspect(s, func(n ast.Node) bool {
			if _, ok := n.(*ast.ReturnStmt); ok {
				found = true
			}
			return true
		})
	}
	return found
}

// terminates reports whether every path through ss ends in a return (or panic).
func terminates(ss []ast.Stmt) bool {
	if len(ss) == 0 {
		return false
	}
	switch s := ss[len(ss)-1].(type) {
	case *ast.ReturnStmt:
		return true
	case *ast.ExprStmt:
		if c, ok := s.X.(*ast.CallExpr); ok {
			if id, ok := c.Fun.(*ast.Ident); ok && id.Name == "panic" {
				return true
			}
		}
	case *ast.IfStmt:
		if s.Else == nil {
			return false
		}
		var el []ast.Stmt
		switch x := s.Else.(type) {
		case *ast.BlockStmt:
			el = x.List
		default:
			el = []ast.Stmt{x}
		}
		return terminates(s.Body.List) && terminates(el)
	}
	return false
}

func isPanic(ss []ast.Stmt) bool {
	if len(ss) != 1 {
		return false
	}
	if s, ok := ss[0].(*ast.ExprStmt); ok {
		if c, ok := s.X.(*ast.CallExpr); ok {
			if id, ok := c.Fun.(*ast.Ident); ok && id.Name == "panic" {
				return true
			}
		}
	}
	return false
}

// assign produces "let <target> := <value>\n" for one assignment target.
func (e *env) assignTo(lhs ast.Expr, val string, vt Type, define bool, ind string) string {
	switch l := lhs.(type) {
	case *ast.Ident:
		if l.Name == "_" {
			return ""
		}
		if t, ok := e.vars[l.Name]; ok && !define && t != vt && vt != TUnk {
			fail(lhs, "assignment changes type of %s (%q to %q)", l.Name, t, vt)
		}
		if _, ok := e.vars[l.Name]; !ok || define {
			e.vars[l.Name] = vt
		}
		return ind + "let " + l.Name + " := " + val + "\n"
	case *ast.SelectorExpr:
		base, ok := l.X.(*ast.Ident)
		if !ok {
			fail(lhs, "nested field assignment")
		}
		fn, _ := fieldName(e.vars[base.Name], l.Sel.Name)
		if fn == "" {
			fail(lhs, "field assignment %s", l.Sel.Name)
		}
		return ind + "let " + base.Name + " := { " + base.Name + " with " + fn + " := " + val + " }\n"
	case *ast.IndexExpr:
		if in, ok := l.X.(*ast.IndexExpr); ok {
			if base, ok := in.X.(*ast.Ident); ok && e.vars[base.Name] == TMat {
				i, _ := strconv.Atoi(in.Index.(*ast.BasicLit).Value)
				j, _ := strconv.Atoi(l.Index.(*ast.BasicLit).Value)
				return ind + "let " + base.Name + " := { " + base.Name + " with " + matField[i][j] + " := " + val + " }\n"
			}
		}
	}
	fail(lhs, "assignment target")
	return ""
}

func assignedVars(ss []ast.Stmt, e *env) []string {
	set := map[string]bool{}
	for _, s := range ss {
		ast.Inspect(s, func(n ast.Node) bool {
			if a, ok := n.(*ast.AssignStmt); ok {
				for _, l := range a.Lhs {
					for {
						switch x := l.(type) {
						case *ast.SelectorExpr:
							l = x.X
							continue
						case *ast.IndexExpr:
							l = x.X
							continue
						}
						break
					}
					if id, ok := l.(*ast.Ident); ok {
						if _, known := e.vars[id.Name]; known {
							set[id.Name] = true
						}
					}
				}
			}
			return true
		})
	}
	var out []string
	for k := range set {
		out = append(out, k)
	}
	sort.Strings(out)
	return out
}

func tupleOf(vs []string) string {
	if len(vs) == 1 {
		return vs[0]
	}
	return "(" + strings.Join(vs, ", ") + ")"
}

// stmts translates a statement list followed by the continuation `rest` (more statements) into a
// Lean term. rets are the declared result types.
func (e *env) stmts(ss []ast.Stmt, rets []Type, ind string, tail string) string {
	if len(ss) == 0 {
		if tail == "" {
			fail(nil, "control reaches end of function without return")
		}
		return ind + tail + "\n"
	}
	s, rest := ss[0], ss[1:]
	switch st := s.(type) {
	case *ast.ReturnStmt:
		var vals []string
		for i, r := range st.Results {
			want := TUnk
			if i < len(rets) {
				want = rets[i]
			}
			if want == TBool {
				if id, ok := r.(*ast.Ident); ok && (id.Name == "true" || id.Name == "false") {
					vals = append(vals, id.Name)
				} else if id, ok := r.(*ast.Ident); ok {
					vals = append(vals, id.Name)
				} else {
					vals = append(vals, "(decide "+e.prop(r)+")")
				}
				continue
			}
			v, t := e.expr(r, want)
			if len(st.Results) == 1 && len(rets) > 1 && t == "tuple" {
				return ind + v + "\n"
			}
			vals = append(vals, v)
		}
		return ind + tupleOf(vals) + "\n"
	case *ast.DeclStmt:
		out := ""
		gd := st.Decl.(*ast.GenDecl)
		for _, sp := range gd.Specs {
			vs := sp.(*ast.ValueSpec)
			t := goType(vs.Type)
			for i, n := range vs.Names {
				var v string
				if i < len(vs.Values) {
					v, _ = e.expr(vs.Values[i], t)
				} else {
					switch t {
					case TBool:
						v = "false"
					case TFloat:
						v = lit("0", TFloat)
					case TInt:
						v = lit("0", TInt)
					case TPoint:
						v = "(Pt.mk " + lit("0", TFloat) + " " + lit("0", TFloat) + ")"
					default:
						fail(st, "var decl of type %q", t)
					}
				}
				e.vars[n.Name] = t
				out += ind + "let " + n.Name + " := " + v + "\n"
			}
		}
		return out + e.stmts(rest, rets, ind, tail)
	case *ast.AssignStmt:
		out := ""
		define := st.Tok == token.DEFINE
		switch {
		case st.Tok == token.ASSIGN || st.Tok == token.DEFINE:
			if len(st.Lhs) > 1 && len(st.Rhs) == 1 {
				// tuple destructuring from a call
				v, _ := e.expr(st.Rhs[0], TUnk)
				call := st.Rhs[0].(*ast.CallExpr)
				var fd *fn
				switch f := call.Fun.(type) {
				case *ast.Ident:
					fd = funcs[f.Name]
				case *ast.SelectorExpr:
					_, rt := e.expr(f.X, TUnk)
					fd = funcs[string(rt)+"."+f.Sel.Name]
				}
				var names []string
				for i, l := range st.Lhs {
					id := l.(*ast.Ident)
					names = append(names, id.Name)
					if id.Name != "_" {
						e.vars[id.Name] = fd.rets[i]
					}
				}
				out += ind + "let (" + strings.Join(names, ", ") + ") := " + v + "\n"
			} else if len(st.Lhs) > 1 {
				// parallel assignment: evaluate all right sides first
				var tmps []string
				var tts []Type
				for i, r := range st.Rhs {
					want := TUnk
					if id, ok := st.Lhs[i].(*ast.Ident); ok {
						want = e.vars[id.Name]
					}
					v, t := e.expr(r, want)
					tmp := fmt.Sprintf("tmp%d_", i)
					out += ind + "let " + tmp + " := " + v + "\n"
					tmps = append(tmps, tmp)
					tts = append(tts, t)
				}
				for i, l := range st.Lhs {
					out += e.assignTo(l, tmps[i], tts[i], define, ind)
				}
			} else {
				want := TUnk
				if id, ok := st.Lhs[0].(*ast.Ident); ok && !define {
					want = e.vars[id.Name]
				}
				if sel, ok := st.Lhs[0].(*ast.SelectorExpr); ok {
					if b, ok := sel.X.(*ast.Ident); ok {
						_, want = fieldName(e.vars[b.Name], sel.Sel.Name)
					}
				}
				var v string
				var t Type
				if want == TBool {
					v, t = "(decide "+e.prop(st.Rhs[0])+")", TBool
				} else {
					v, t = e.expr(st.Rhs[0], want)
				}
				out += e.assignTo(st.Lhs[0], v, t, define, ind)
			}
		default:
			// op-assign
			op := strings.TrimSuffix(st.Tok.String(), "=")
			ls, lt := e.expr(st.Lhs[0], TUnk)
			rs, _ := e.expr(st.Rhs[0], lt)
			v := "(" + ls + " " + op + " " + rs + ")"
			if lt == TInt && (op == "/" || op == "%") {
				fail(st, "int op-assign %s", op)
			}
			out += e.assignTo(st.Lhs[0], v, lt, false, ind)
		}
		return out + e.stmts(rest, rets, ind, tail)
	case *ast.IfStmt:
		if st.Init != nil {
			fail(st, "if with init")
		}
		var el []ast.Stmt
		if st.Else != nil {
			switch x := st.Else.(type) {
			case *ast.BlockStmt:
				el = x.List
			default:
				el = []ast.Stmt{x}
			}
		}
		if isPanic(st.Body.List) && st.Else == nil {
			// guard: recorded as a precondition comment; the definition continues as the code does
			// when the guard is false.
			return ind + "-- precondition (panics otherwise): ¬ " + e.prop(st.Cond) + "\n" + e.stmts(rest, rets, ind, tail)
		}
		cond := e.prop(st.Cond)
		if !hasReturn(st.Body.List) && !hasReturn(el) {
			vs := assignedVars(append(append([]ast.Stmt{}, st.Body.List...), el...), e)
			if len(vs) == 0 {
				return e.stmts(rest, rets, ind, tail)
			}
			t := tupleOf(vs)
			e1, e2 := e.clone(), e.clone()
			out := ind + "let " + t + " := if " + cond + " then\n"
			out += e1.stmts(st.Body.List, rets, ind+"    ", t)
			out += ind + "  else\n"
			out += e2.stmts(el, rets, ind+"    ", t)
			return out + e.stmts(rest, rets, ind, tail)
		}
		// duplicate the continuation into the branches that fall through
		e1, e2 := e.clone(), e.clone()
		b1 := st.Body.List
		if !terminates(b1) {
			b1 = append(append([]ast.Stmt{}, b1...), rest...)
		}
		b2 := el
		if !terminates(b2) {
			b2 = append(append([]ast.Stmt{}, b2...), rest...)
		}
		out := ind + "if " + cond + " then\n"
		out += e1.stmts(b1, rets, ind+"  ", tail)
		out += ind + "else\n"
		out += e2.stmts(b2, rets, ind+"  ", tail)
		return out
	case *ast.SwitchStmt:
		if st.Init != nil || st.Tag == nil {
			fail(st, "switch form")
		}
		tag, tt := e.expr(st.Tag, TUnk)
		// rewrite as if-chain
		var chain ast.Stmt
		var def []ast.Stmt
		type cs struct {
			cond string
			body []ast.Stmt
		}
		var cases []cs
		for _, c := range st.Body.List {
			cc := c.(*ast.CaseClause)
			for _, b := range cc.Body {
				if br, ok := b.(*ast.BranchStmt); ok {
					fail(br, "break/fallthrough in switch")
				}
			}
			if cc.List == nil {
				def = cc.Body
				continue
			}
			var alts []string
			for _, v := range cc.List {
				vs, _ := e.expr(v, tt)
				if tt == TFloat && mode == "F" {
					alts = append(alts, "(("+tag+" == "+vs+") = true)")
				} else {
					alts = append(alts, "("+tag+" = "+vs+")")
				}
			}
			cases = append(cases, cs{"(" + strings.Join(alts, " ∨ ") + ")", cc.Body})
		}
		_ = chain
		// emit
		var emit func(i int, en *env, ind string) string
		anyRet := false
		for _, c := range cases {
			if hasReturn(c.body) {
				anyRet = true
			}
		}
		if hasReturn(def) {
			anyRet = true
		}
		if !anyRet {
			var all []ast.Stmt
			for _, c := range cases {
				all = append(all, c.body...)
			}
			all = append(all, def...)
			vs := assignedVars(all, e)
			t := tupleOf(vs)
			emit = func(i int, en *env, ind string) string {
				if i == len(cases) {
					return en.clone().stmts(def, rets, ind, t)
				}
				return ind + "if " + cases[i].cond + " then\n" + en.clone().stmts(cases[i].body, rets, ind+"  ", t) + ind + "else\n" + emit(i+1, en, ind+"  ")
			}
			out := ind + "let " + t + " :=\n" + emit(0, e, ind+"    ")
			return out + e.stmts(rest, rets, ind, tail)
		}
		emit = func(i int, en *env, ind string) string {
			withRest := func(b []ast.Stmt) []ast.Stmt {
				if terminates(b) {
					return b
				}
				return append(append([]ast.Stmt{}, b...), rest...)
			}
			if i == len(cases) {
				return en.clone().stmts(withRest(def), rets, ind, tail)
			}
			return ind + "if " + cases[i].cond + " then\n" + en.clone().stmts(withRest(cases[i].body), rets, ind+"  ", tail) + ind + "else\n" + emit(i+1, en, ind+"  ")
		}
		return emit(0, e, ind)
	case *ast.ExprStmt:
		fail(st, "expression statement")
	}
	fail(s, "statement %T", s)
	return ""
}

// dispatcher emits `dispatch : String → List String → Option String`: parse the arguments of a
// generated function from protocol tokens (floats as IEEE hex, ints decimal, bools 0/1), call it,
// print the result tokens.
func dispatcher(group string) string {
	var sb strings.Builder
	sb.WriteString("\ndef dispatch" + group + " (name : String) (args : List String) : Option String :=\n")
	width := func(t Type) int {
		switch t {
		case TPoint:
			return 2
		case TMat:
			return 6
		case TRect:
			return 4
		}
		if r, ok := records[string(t)]; ok {
			return len(r)
		}
		return 1
	}
	for _, f := range order {
		var pts []Type
		if f.decl.Recv != nil {
			pts = append(pts, goType(f.decl.Recv.List[0].Type))
		}
		for _, p := range f.decl.Type.Params.List {
			for range p.Names {
				pts = append(pts, goType(p.Type))
			}
		}
		name := f.name
		if f.recv != "" {
			name = f.recv + "." + f.name
		}
		var pat, binds, call []string
		k := 0
		for i, t := range pts {
			v := fmt.Sprintf("v%d", i)
			var toks []string
			for j := 0; j < width(t); j++ {
				toks = append(toks, fmt.Sprintf("t%d", k))
				k++
			}
			pat = append(pat, toks...)
			switch t {
			case TFloat:
				binds = append(binds, fmt.Sprintf("let %s ← floatOfHex? %s", v, toks[0]))
			case TInt:
				binds = append(binds, fmt.Sprintf("let %s ← parseInt? %s", v, toks[0]))
			case TBool:
				binds = append(binds, fmt.Sprintf("let %s := decide (%s = \"1\")", v, toks[0]))
			case TPoint:
				binds = append(binds, fmt.Sprintf("let %s ← (do pure (Pt.mk (← floatOfHex? %s) (← floatOfHex? %s)) : Option (Pt Float))", v, toks[0], toks[1]))
			case TMat:
				binds = append(binds, fmt.Sprintf("let %s ← (do pure (Mat.mk (← floatOfHex? %s) (← floatOfHex? %s) (← floatOfHex? %s) (← floatOfHex? %s) (← floatOfHex? %s) (← floatOfHex? %s)) : Option (Mat Float))", v, toks[0], toks[1], toks[2], toks[3], toks[4], toks[5]))
			case TRect:
				binds = append(binds, fmt.Sprintf("let %s ← (do pure (Rct.mk (← floatOfHex? %s) (← floatOfHex? %s) (← floatOfHex? %s) (← floatOfHex? %s)) : Option (Rct Float))", v, toks[0], toks[1], toks[2], toks[3]))
			default:
				// record: fields in sorted order
				r := records[string(t)]
				var fs []string
				for fn := range r {
					fs = append(fs, fn)
				}
				sort.Strings(fs)
				var parts []string
				for j, fn := range fs {
					switch r[fn] {
					case TInt:
						parts = append(parts, fmt.Sprintf("%s := (← parseInt? %s)", id(fn), toks[j]))
					case TBool:
						parts = append(parts, fmt.Sprintf("%s := decide (%s = \"1\")", id(fn), toks[j]))
					case TFloat:
						parts = append(parts, fmt.Sprintf("%s := (← floatOfHex? %s)", id(fn), toks[j]))
					}
				}
				binds = append(binds, fmt.Sprintf("let %s ← (do pure { %s } : Option (%s Float))", v, strings.Join(parts, ", "), string(t)))
			}
			call = append(call, v)
		}
		var outs []string
		fmtOne := func(t Type, e string) string {
			switch t {
			case TFloat:
				return "hexOfFloat " + e
			case TInt:
				return "toString " + e
			case TBool:
				return "(if " + e + " then \"1\" else \"0\")"
			case TPoint:
				return "(hexOfFloat " + e + ".x ++ \" \" ++ hexOfFloat " + e + ".y)"
			case TMat:
				return "(hexOfFloat " + e + ".a ++ \" \" ++ hexOfFloat " + e + ".b ++ \" \" ++ hexOfFloat " + e + ".c ++ \" \" ++ hexOfFloat " + e + ".d ++ \" \" ++ hexOfFloat " + e + ".e ++ \" \" ++ hexOfFloat " + e + ".f)"
			case TRect:
				return "(hexOfFloat " + e + ".x0 ++ \" \" ++ hexOfFloat " + e + ".y0 ++ \" \" ++ hexOfFloat " + e + ".x1 ++ \" \" ++ hexOfFloat " + e + ".y1)"
			}
			return "\"?\""
		}
		res := "r"
		if len(f.rets) == 1 {
			outs = append(outs, fmtOne(f.rets[0], "r"))
		} else {
			var names []string
			for i, t := range f.rets {
				n := fmt.Sprintf("r%d", i)
				names = append(names, n)
				outs = append(outs, fmtOne(t, n))
			}
			res = "(" + strings.Join(names, ", ") + ")"
		}
		fmt.Fprintf(&sb, "  if name = \"%s\" then\n    match args with\n    | [%s] => do\n", name, strings.Join(pat, ", "))
		for _, b := range binds {
			sb.WriteString("      " + b + "\n")
		}
		fmt.Fprintf(&sb, "      let %s := %s %s\n      pure (String.intercalate \" \" [%s])\n    | _ => none\n  else\n", res, name, strings.Join(call, " "), strings.Join(outs, ", "))
	}
	sb.WriteString("  none\n\n")
	return sb.String()
}

func mangle(n ast.Node) {
	ast.Inspect(n, func(x ast.Node) bool {
		switch v := x.(type) {
		case *ast.SelectorExpr:
			mangle(v.X)
			return false
		case *ast.KeyValueExpr:
			mangle(v.Value)
			return false
		case *ast.Ident:
			v.Name = id(v.Name)
		}
		return true
	})
}

func translate(f *fn) string {
	curFn = f.name
	mangle(f.decl)
	e := &env{vars: map[string]Type{}}
	var params []string
	if f.decl.Recv != nil {
		r := f.decl.Recv.List[0]
		t := goType(r.Type)
		name := "self_"
		if len(r.Names) > 0 {
			name = r.Names[0].Name
		}
		e.vars[name] = t
		params = append(params, "("+name+" : "+leanType(t)+")")
	}
	for _, p := range f.decl.Type.Params.List {
		t := goType(p.Type)
		if t == TUnk {
			fail(p, "parameter type")
		}
		for _, n := range p.Names {
			e.vars[n.Name] = t
			params = append(params, "("+n.Name+" : "+leanType(t)+")")
		}
	}
	var rts []string
	for _, t := range f.rets {
		rts = append(rts, strings.Trim(leanType(t), "()"))
	}
	name := f.name
	if f.recv != "" {
		name = f.recv + "." + f.name
	}
	body := e.stmts(f.decl.Body.List, f.rets, "  ", "")
	// cut unreachable code after an unconditional return is handled by stmts (it stops at return)
	return fmt.Sprintf("-- %s\ndef %s %s : %s :=\n%s", fset.Position(f.decl.Pos()), name, strings.Join(params, " "), strings.Join(rts, " × "), body)
}

type Group struct {
	Name string   `json:"name"`
	Deps []string `json:"deps"`
	Spec
}

func main() {
	if len(os.Args) < 6 {
		fmt.Fprintln(os.Stderr, "usage: gotolean <repo> <spec.json> <group> <F|K> <out.lean>")
		os.Exit(2)
	}
	repo, specPath, group, out := os.Args[1], os.Args[2], os.Args[3], os.Args[5]
	mode = os.Args[4]
	var all struct {
		Groups []Group `json:"groups"`
	}
	b, err := os.ReadFile(specPath)
	if err != nil {
		panic(err)
	}
	if err := json.Unmarshal(b, &all); err != nil {
		panic(err)
	}
	byName := map[string]*Group{}
	for i := range all.Groups {
		byName[all.Groups[i].Name] = &all.Groups[i]
	}
	g, ok := byName[group]
	if !ok {
		fmt.Fprintln(os.Stderr, "gotolean: unknown group", group)
		os.Exit(2)
	}
	files := map[string]*ast.File{}
	parse := func(name string) *ast.File {
		if f, ok := files[name]; ok {
			return f
		}
		f, err := parser.ParseFile(fset, filepath.Join(repo, name), nil, parser.SkipObjectResolution)
		if err != nil {
			fmt.Fprintln(os.Stderr, "gotolean:", err)
			os.Exit(3)
		}
		files[name] = f
		return f
	}
	var sb strings.Builder
	sb.WriteString("-- GENERATED by tools/gotolean from /repo sources (group " + group + "). Do not edit; regenerated on every check.\n")
	sb.WriteString("import CanvasModel.Prelude\n")
	for _, d := range g.Deps {
		sb.WriteString("import CanvasGen." + d + mode + "\n")
	}
	if mode == "F" {
		sb.WriteString("namespace GenF\nopen Canvas\nset_option linter.unusedVariables false\n\n")
	} else {
		sb.WriteString("import Mathlib.Algebra.Order.Field.Basic\nimport Mathlib.Algebra.Order.Ring.Abs\nnamespace GenK\nopen Canvas\nvariable {K : Type} [Field K] [LinearOrder K] [IsStrictOrderedRing K] [Env K]\nset_option linter.unusedVariables false\n\n")
	}
	// dependencies first (declared, not emitted)
	seen := map[string]bool{}
	var visit func(n string)
	var discard strings.Builder
	visit = func(n string) {
		if seen[n] {
			return
		}
		seen[n] = true
		d, ok := byName[n]
		if !ok {
			fmt.Fprintln(os.Stderr, "gotolean: unknown dependency group", n)
			os.Exit(2)
		}
		for _, x := range d.Deps {
			visit(x)
		}
		if n != group {
			process(d.Spec, parse, &discard, false)
		}
	}
	visit(group)
	process(g.Spec, parse, &sb, true)
	for _, f := range order {
		sb.WriteString(translate(f))
		sb.WriteString("\n")
	}
	if mode == "F" {
		sb.WriteString(dispatcher(group))
		sb.WriteString("end GenF\n")
	} else {
		sb.WriteString("end GenK\n")
	}
	if err := os.WriteFile(out, []byte(sb.String()), 0o644); err != nil {
		panic(err)
	}
}

// process registers (and, when emit is set, prints) the constants, records and functions of a spec.
func process(spec Spec, parse func(string) *ast.File, sbp *strings.Builder, emit bool) {
	var sb strings.Builder
	newRecords := map[string]bool{}
	for name, fs := range spec.Records {
		records[name] = map[string]Type{}
		newRecords[name] = true
		for f, t := range fs {
			records[name][f] = Type(t)
		}
	}
	// constants
	for _, c := range spec.Consts {
		f := parse(c.File)
		want := map[string]bool{}
		for _, n := range c.Names {
			want[n] = true
		}
		for _, d := range f.Decls {
			gd, ok := d.(*ast.GenDecl)
			if !ok || (gd.Tok != token.CONST && gd.Tok != token.VAR) {
				continue
			}
			iota := 0
			var lastT Type
			for _, sp := range gd.Specs {
				vs := sp.(*ast.ValueSpec)
				for i, n := range vs.Names {
					if want[n.Name] {
						delete(want, n.Name)
						t := lastT
						if vs.Type != nil {
							t = goType(vs.Type)
						}
						val := ""
						if i < len(vs.Values) {
							switch v := vs.Values[i].(type) {
							case *ast.Ident:
								if v.Name == "iota" {
									val = strconv.Itoa(iota)
								}
							case *ast.BasicLit:
								val = v.Value
								if t == TUnk {
									if v.Kind == token.FLOAT {
										t = TFloat
									} else {
										t = TInt
									}
								}
							}
						} else {
							val = strconv.Itoa(iota)
						}
						if val == "" {
							curFn = n.Name
							fail(vs, "constant value")
						}
						lastT = t
						consts[n.Name] = t
						if t == TFloat {
							if mode == "F" {
								fmt.Fprintf(&sb, "def %s : Float := %s\n", n.Name, lit(val, TFloat))
							} else {
								// float tunables are abstract in K mode (Env.<name>); the literal is recorded
								fmt.Fprintf(&sb, "-- %s = %s (abstract as Env.%s)\n", n.Name, val, lower1(n.Name))
							}
						} else {
							fmt.Fprintf(&sb, "def %s : Int := %s\n", n.Name, val)
						}
					} else if vs.Type != nil {
						lastT = goType(vs.Type)
					}
				}
				iota++
			}
		}
		for n := range want {
			fmt.Fprintf(os.Stderr, "gotolean: constant %s not found in %s\n", n, c.File)
			os.Exit(3)
		}
	}
	sb.WriteString("\n")
	// records
	var rnames []string
	for n := range newRecords {
		rnames = append(rnames, n)
	}
	sort.Strings(rnames)
	for _, n := range rnames {
		fmt.Fprintf(&sb, "structure %s (α : Type) where\n", n)
		var fs []string
		for f := range records[n] {
			fs = append(fs, f)
		}
		sort.Strings(fs)
		for _, f := range fs {
			lt := map[Type]string{TFloat: "α", TInt: "Int", TBool: "Bool", TPoint: "Pt α"}[records[n][f]]
			fmt.Fprintf(&sb, "  %s : %s\n", id(f), lt)
		}
		sb.WriteString("\n")
	}
	// collect functions
	for _, w := range spec.Funcs {
		f := parse(w.File)
		found := false
		for _, d := range f.Decls {
			fd, ok := d.(*ast.FuncDecl)
			if !ok || fd.Name.Name != w.Name {
				continue
			}
			recv := ""
			if fd.Recv != nil {
				switch t := fd.Recv.List[0].Type.(type) {
				case *ast.Ident:
					recv = t.Name
				case *ast.StarExpr:
					recv = t.X.(*ast.Ident).Name
				}
			}
			if recv != w.Recv {
				continue
			}
			found = true
			x := &fn{decl: fd, recv: recv, name: w.Name, file: w.File}
			if fd.Type.Results != nil {
				for _, r := range fd.Type.Results.List {
					n := len(r.Names)
					if n == 0 {
						n = 1
					}
					for i := 0; i < n; i++ {
						t := goType(r.Type)
						if t == TUnk {
							curFn = w.Name
							fail(r, "result type")
						}
						x.rets = append(x.rets, t)
					}
				}
			}
			key := w.Name
			if recv != "" {
				key = recv + "." + w.Name
				if goType(ast.NewIdent(recv)) == TInt {
					// enum receiver
				}
			}
			funcs[key] = x
			if emit {
				order = append(order, x)
			}
		}
		if !found {
			fmt.Fprintf(os.Stderr, "gotolean: UNSUPPORTED: function %s.%s not found in %s\n", w.Recv, w.Name, w.File)
			os.Exit(3)
		}
	}
	if emit {
		sbp.WriteString(sb.String())
	}
}
