module gotolean

go 1.23
