package main

// Font-level state: the struct types reachable from a loaded font (canvas.Font, canvas.FontFace,
// text.Shaper) inside the analysed packages, their fields, and — for fields that are containers
// (map, sync.Map, sync.Pool, chan) — every site that mutates the container after construction:
// element assignment `x.f[k] = v`, `delete(x.f, k)`, a mutating method call `x.f.Store(..)`, or a
// re-assignment `x.f = e` on an object that is not a fresh local of the function. Sites are matched
// by FIELD NAME over all six packages (no type information: an over-approximation).
// A loaded font is shared by every layout and every renderer: it must carry no mutable cache.
// Types of other modules (font.SFNT, harfbuzz.Font) are out of scope.

import (
	"bytes"
	"fmt"
	"go/ast"
	"go/token"
	"sort"
	"strings"
)

var fontRoots = [][2]string{{"canvas", "Font"}, {"canvas", "FontFace"}, {"text", "Shaper"}}

var mutators = map[string]bool{"Store": true, "LoadOrStore": true, "LoadAndDelete": true, "Delete": true, "Swap": true,
	"CompareAndSwap": true, "CompareAndDelete": true, "Clear": true, "Put": true}

type fieldFact struct {
	pkg, st, name, typ, pos string
	container            bool
	writes               []site
}

func containerType(t ast.Expr) bool {
	switch x := t.(type) {
	case *ast.StarExpr:
		return containerType(x.X)
	case *ast.MapType, *ast.ChanType:
		return true
	case *ast.SelectorExpr:
		if id, ok := x.X.(*ast.Ident); ok && id.Name == "sync" {
			return x.Sel.Name == "Map" || x.Sel.Name == "Pool"
		}
	}
	return false
}

func emitFontLevel(b *bytes.Buffer, all []*pkgInfo) {
	byName := map[string]*pkgInfo{}
	for _, p := range all {
		byName[p.name] = p
	}
	// reachability over field types
	seen := map[[2]string]bool{}
	var order [][2]string
	var visit func(pkg, name string)
	var walkType func(pkg string, t ast.Expr)
	walkType = func(pkg string, t ast.Expr) {
		switch x := t.(type) {
		case *ast.StarExpr:
			walkType(pkg, x.X)
		case *ast.ArrayType:
			walkType(pkg, x.Elt)
		case *ast.MapType:
			walkType(pkg, x.Key)
			walkType(pkg, x.Value)
		case *ast.Ident:
			visit(pkg, x.Name)
		case *ast.SelectorExpr:
			if id, ok := x.X.(*ast.Ident); ok {
				visit(id.Name, x.Sel.Name) // import name = last path element for the analysed packages
			}
		case *ast.StructType:
			for _, f := range x.Fields.List {
				walkType(pkg, f.Type)
			}
		}
	}
	visit = func(pkg, name string) {
		p := byName[pkg]
		if p == nil || p.stTypes[name] == nil || seen[[2]string{pkg, name}] {
			return
		}
		seen[[2]string{pkg, name}] = true
		order = append(order, [2]string{pkg, name})
		for _, f := range p.stTypes[name].Fields.List {
			walkType(pkg, f.Type)
		}
	}
	for _, r := range fontRoots {
		visit(r[0], r[1])
	}
	var fields []*fieldFact
	cont := map[string][]*fieldFact{} // container field name -> facts
	for _, k := range order {
		p := byName[k[0]]
		for _, f := range p.stTypes[k[1]].Fields.List {
			names := []string{}
			for _, n := range f.Names {
				names = append(names, n.Name)
			}
			if len(names) == 0 {
				t := f.Type
				if s, ok := t.(*ast.StarExpr); ok {
					t = s.X
				}
				switch x := t.(type) {
				case *ast.Ident:
					names = append(names, x.Name)
				case *ast.SelectorExpr:
					names = append(names, x.Sel.Name)
				}
			}
			for _, n := range names {
				ff := &fieldFact{pkg: k[0], st: k[1], name: n, typ: p.render(f.Type), pos: p.pos(f), container: containerType(f.Type)}
				fields = append(fields, ff)
				if ff.container {
					cont[n] = append(cont[n], ff)
				}
			}
		}
	}
	// mutation sites of container fields, by field name
	if len(cont) > 0 {
		for _, p := range all {
			for _, u := range p.units {
				fresh := map[*ast.Object]bool{} // locals bound to a fresh composite literal / new(T)
				ast.Inspect(u.body, func(n ast.Node) bool {
					if a, ok := n.(*ast.AssignStmt); ok && (a.Tok == token.DEFINE || a.Tok == token.ASSIGN) && len(a.Lhs) == len(a.Rhs) {
						for i, r := range a.Rhs {
							e := r
							if ue, ok := e.(*ast.UnaryExpr); ok && ue.Op == token.AND {
								e = ue.X
							}
							_, lit := e.(*ast.CompositeLit)
							if c, ok := e.(*ast.CallExpr); ok {
								if id, ok := c.Fun.(*ast.Ident); ok && id.Name == "new" {
									lit = true
								}
							}
							if id, ok := a.Lhs[i].(*ast.Ident); ok && lit && id.Obj != nil {
								fresh[id.Obj] = true
							}
						}
					}
					return true
				})
				// bodies of `x.once.Do(func(){…})`: lazily built, synchronised by the once
				onceBodies := []*ast.FuncLit{}
				ast.Inspect(u.body, func(n ast.Node) bool {
					if c, ok := n.(*ast.CallExpr); ok && len(c.Args) == 1 {
						if f, ok := c.Fun.(*ast.SelectorExpr); ok && f.Sel.Name == "Do" {
							if fl, ok := c.Args[0].(*ast.FuncLit); ok {
								onceBodies = append(onceBodies, fl)
							}
						}
					}
					return true
				})
				add := func(sel *ast.SelectorExpr, kind string, at ast.Node) {
					if id, _ := rootIdent(sel.X); id != nil && id.Obj != nil && fresh[id.Obj] {
						return // the object was allocated in this function: construction, not mutation
					}
					sy := syncT{"none", ""}
					for _, fl := range onceBodies {
						if fl.Pos() <= at.Pos() && at.End() <= fl.End() {
							sy = syncT{"once", "field"}
						}
					}
					for _, ff := range cont[sel.Sel.Name] {
						ff.writes = append(ff.writes, site{fn: p.name + "." + u.display, pos: p.pos(at), kind: kind, sync: sy})
					}
				}
				selOf := func(e ast.Expr) *ast.SelectorExpr {
					for {
						switch x := e.(type) {
						case *ast.ParenExpr:
							e = x.X
						case *ast.StarExpr:
							e = x.X
						case *ast.SelectorExpr:
							if cont[x.Sel.Name] != nil {
								return x
							}
							return nil
						default:
							return nil
						}
					}
				}
				ast.Inspect(u.body, func(n ast.Node) bool {
					switch x := n.(type) {
					case *ast.AssignStmt:
						if x.Tok == token.DEFINE {
							return true
						}
						for _, l := range x.Lhs {
							if ix, ok := l.(*ast.IndexExpr); ok {
								if s := selOf(ix.X); s != nil {
									add(s, "elem", l)
								}
							} else if s := selOf(l); s != nil {
								add(s, "assign", l)
							}
						}
					case *ast.CallExpr:
						if id, ok := x.Fun.(*ast.Ident); ok && id.Name == "delete" && len(x.Args) == 2 {
							if s := selOf(x.Args[0]); s != nil {
								add(s, "delete", x)
							}
						}
						if f, ok := x.Fun.(*ast.SelectorExpr); ok && mutators[f.Sel.Name] {
							if s := selOf(f.X); s != nil {
								add(s, "method:"+f.Sel.Name, x)
							}
						}
					}
					return true
				})
			}
		}
	}
	var ls []string
	for _, f := range fields {
		ls = append(ls, fmt.Sprintf("{ pkg := %s, struct := %s, name := %s, typ := %s, pos := %s, container := %v,\n    writes := %s }",
			q(f.pkg), q(f.st), q(f.name), q(f.typ), q(f.pos), f.container, leanSitesRaw(f.writes)))
	}
	var rs []string
	for _, r := range fontRoots {
		rs = append(rs, q(r[0]+"."+r[1]))
	}
	var ts []string
	for _, k := range order {
		ts = append(ts, k[0]+"."+k[1])
	}
	sort.Strings(ts)
	fmt.Fprintf(b, "/-- roots of the font-level state (what a loaded font shares between all layouts) -/\ndef fontRoots : List String := [%s]\n\n", strings.Join(rs, ", "))
	fmt.Fprintf(b, "/-- struct types of the analysed packages reachable from the roots through field types -/\ndef fontLevelTypes : List String := %s\n\n", qs(ts))
	fmt.Fprintf(b, "/-- every field of these types; for container fields (map, sync.Map, sync.Pool, chan) the sites that\nmutate the container after construction (matched by field name) -/\ndef fontLevelFields : List FieldFact := [\n  %s]\n\n", strings.Join(ls, ",\n  "))
	// `&(*e)`: looks like a copy, is the same pointer
	var al []string
	// functions of the dependency that mutate a container field of a font-level type, or contain an alias copy
	mut := map[string]bool{}
	for _, f := range fields {
		for _, w := range f.writes {
			if w.sync.kind != "once" {
				mut[w.fn] = true
			}
		}
	}
	for _, p := range all {
		for _, u := range p.units {
			ast.Inspect(u.body, func(n ast.Node) bool {
				if ue, ok := n.(*ast.UnaryExpr); ok && ue.Op == token.AND {
					e := ue.X
					if pe, ok := e.(*ast.ParenExpr); ok {
						e = pe.X
					}
					if _, ok := e.(*ast.StarExpr); ok {
						al = append(al, fmt.Sprintf("⟨%s, %s, %s, .none⟩", q(p.name+"."+u.display), q(p.pos(n)), q(p.render(n))))
						mut[p.name+"."+u.display] = true
					}
				}
				return true
			})
		}
	}
	fmt.Fprintf(b, "/-- expressions `&(*e)`: written like a copy, but the same pointer (the receiver's table is then\nmodified through the alias) -/\ndef aliasCopies : List Site := [\n  %s]\n\n", strings.Join(al, ",\n  "))
	// call sites in canvas and its sub-packages of methods with the NAME of such a function
	names := map[string]bool{}
	for fn := range mut {
		if strings.HasPrefix(fn, "font.") {
			names[fn[strings.LastIndex(fn, ".")+1:]] = true
		}
	}
	var cs []string
	for _, p := range all {
		if p.name == "font" {
			continue
		}
		for _, u := range p.units {
			var stack []ast.Node
			ast.Inspect(u.body, func(n ast.Node) bool {
				if n == nil {
					stack = stack[:len(stack)-1]
					return true
				}
				if c, ok := n.(*ast.CallExpr); ok {
					if f, ok := c.Fun.(*ast.SelectorExpr); ok && names[f.Sel.Name] {
						recv, _ := rootIdent(f.X)
						rn, copyPos := "?", ""
						if recv != nil {
							rn = recv.Name
							copyPos = p.privateCopyBefore(recv, append(append([]ast.Node{}, stack...), n))
						}
						cs = append(cs, fmt.Sprintf("{ fn := %s, pos := %s, call := %s, recv := %s, privateCopy := %v, copyPos := %s }",
							q(p.name+"."+u.display), q(p.pos(c)), q(p.render(c.Fun)), q(rn), copyPos != "", q(copyPos)))
					}
				}
				stack = append(stack, n)
				return true
			})
		}
	}
	fmt.Fprintf(b, "/-- calls from canvas and its sub-packages to methods named like a dependency function that mutates\nfont-level state (container write outside a once body, or alias copy). privateCopy: a statement\n`if c, err := ….ParseSFNT(recv.Write(), …); err == nil { recv = c }` precedes the call in an enclosing\nblock of the same function, i.e. the receiver variable was rebound to a re-parsed copy (when the\nre-parse succeeds) -/\ndef fontMutatorCalls : List MutatorCall := [\n  %s]\n\n", strings.Join(cs, ",\n  "))
	fmt.Fprintln(b, "end Canvas.FactsC20")
}

func leanSitesRaw(l []site) string {
	if len(l) == 0 {
		return "[]"
	}
	var r []string
	for _, s := range l {
		sy := ".none"
		if s.sync.kind == "once" {
			sy = "(.once \"field\")"
		}
		r = append(r, fmt.Sprintf("⟨%s, %s, %s, %s⟩", q(s.fn), q(s.pos), q(s.kind), sy))
	}
	return "[" + strings.Join(r, ", ") + "]"
}

// privateCopyBefore: position of a statement `if c, err := X.ParseSFNT(recv.Write(), …); err == nil { recv = c }`
// that precedes the node (last element of stack) in one of its enclosing blocks; "" if none.
func (p *pkgInfo) privateCopyBefore(recv *ast.Ident, stack []ast.Node) string {
	same := func(e ast.Expr) bool {
		id, ok := e.(*ast.Ident)
		return ok && id.Name == recv.Name && id.Obj == recv.Obj
	}
	isCopy := func(s ast.Stmt) bool {
		is, ok := s.(*ast.IfStmt)
		if !ok || is.Init == nil {
			return false
		}
		as, ok := is.Init.(*ast.AssignStmt)
		if !ok || as.Tok != token.DEFINE || len(as.Lhs) != 2 || len(as.Rhs) != 1 {
			return false
		}
		call, ok := as.Rhs[0].(*ast.CallExpr)
		if !ok || len(call.Args) < 1 {
			return false
		}
		if f, ok := call.Fun.(*ast.SelectorExpr); !ok || f.Sel.Name != "ParseSFNT" {
			return false
		}
		w, ok := call.Args[0].(*ast.CallExpr)
		if !ok {
			return false
		}
		wf, ok := w.Fun.(*ast.SelectorExpr)
		if !ok || wf.Sel.Name != "Write" || !same(wf.X) {
			return false
		}
		cid, ok := as.Lhs[0].(*ast.Ident)
		if !ok {
			return false
		}
		// condition err == nil and body rebinding recv = c
		be, ok := is.Cond.(*ast.BinaryExpr)
		if !ok || be.Op != token.EQL {
			return false
		}
		for _, st := range is.Body.List {
			if a, ok := st.(*ast.AssignStmt); ok && a.Tok == token.ASSIGN && len(a.Lhs) == 1 && len(a.Rhs) == 1 && same(a.Lhs[0]) {
				if r, ok := a.Rhs[0].(*ast.Ident); ok && r.Name == cid.Name {
					return true
				}
			}
		}
		return false
	}
	for k := 0; k+1 < len(stack); k++ {
		list := stmtList(stack[k])
		if list == nil {
			continue
		}
		for _, s := range list {
			if ast.Node(s) == stack[k+1] {
				break
			}
			if isCopy(s) {
				return p.pos(s)
			}
		}
	}
	return ""
}
