package main

// Pool protocol facts: the RAW material for the Lean-side verdicts (no judgement here).
//   * per Get site: the straight-line statements after `v := pool.Get().(*T)` that mention v, as
//     steps  set f | setAll | use, each with the fields of v it READS and whether v itself is used
//     as a value (`whole`: passed, stored, dereferenced as a whole). The list ends with the first
//     `use` (the object is published) or with a synthetic use at the end of the block.
//   * per function containing a Put: its top-level statements classified other | release | return
//     (release = does nothing but Put, see releaseOnly).

import (
	"go/ast"
	"go/token"
)

type initStep struct {
	pos, kind, field string
	reads            []string
	whole            bool
}

type putFunc struct {
	fn    string
	stmts [][2]string // pos, kind
}

func (p *pkgInfo) stepScan(g *getSite, oid *ast.Ident, rest []ast.Stmt) []initStep {
	name, obj := oid.Name, oid.Obj
	isField := map[string]bool{}
	for _, f := range g.fields {
		isField[f] = true
	}
	isV := func(e ast.Expr) bool {
		id, ok := e.(*ast.Ident)
		return ok && id.Name == name && id.Obj == obj
	}
	// uses of v inside e: fields read through v.f, and whether v occurs otherwise
	scan := func(e ast.Node, reads *[]string, whole *bool) {
		var stack []ast.Node
		ast.Inspect(e, func(m ast.Node) bool {
			if m == nil {
				stack = stack[:len(stack)-1]
				return true
			}
			if id, ok := m.(*ast.Ident); ok && isV(id) {
				done := false
				if len(stack) > 0 {
					if se, ok := stack[len(stack)-1].(*ast.SelectorExpr); ok && se.X == ast.Expr(id) && isField[se.Sel.Name] {
						*reads = append(*reads, se.Sel.Name)
						done = true
					}
				}
				if !done {
					*whole = true
				}
			}
			stack = append(stack, m)
			return true
		})
	}
	var steps []initStep
	for _, s := range rest {
		if !mentions(s, name, obj) {
			continue
		}
		as, ok := s.(*ast.AssignStmt)
		if !ok || as.Tok != token.ASSIGN || len(as.Lhs) != len(as.Rhs) {
			return append(steps, initStep{pos: p.pos(s), kind: "use", whole: true})
		}
		var reads []string
		whole := false
		for _, r := range as.Rhs {
			scan(r, &reads, &whole)
		}
		var targets []initStep
		for _, l := range as.Lhs {
			switch x := l.(type) {
			case *ast.StarExpr:
				if isV(x.X) {
					targets = append(targets, initStep{pos: p.pos(s), kind: "setAll"})
					continue
				}
			case *ast.SelectorExpr:
				if isV(x.X) && isField[x.Sel.Name] {
					targets = append(targets, initStep{pos: p.pos(s), kind: "set", field: x.Sel.Name})
					continue
				}
			}
			scan(l, &reads, &whole)
		}
		if len(targets) == 0 {
			return append(steps, initStep{pos: p.pos(s), kind: "use", reads: reads, whole: whole})
		}
		targets[0].reads, targets[0].whole = reads, whole
		steps = append(steps, targets...)
	}
	return append(steps, initStep{pos: "end of block", kind: "use", whole: true})
}

func (p *pkgInfo) putFuncFacts() []putFunc {
	var res []putFunc
	seen := map[*unit]bool{}
	for _, u := range p.units {
		has := false
		ast.Inspect(u.body, func(n ast.Node) bool {
			if es, ok := n.(*ast.ExprStmt); ok && p.releaseOnly(es) {
				has = true
			}
			return !has
		})
		if !has || seen[u] {
			continue
		}
		seen[u] = true
		pf := putFunc{fn: u.display}
		for _, s := range u.body.List {
			k := "other"
			if _, ok := s.(*ast.ReturnStmt); ok {
				k = "return"
			} else if p.releaseOnly(s) {
				k = "release"
			}
			pf.stmts = append(pf.stmts, [2]string{p.pos(s), k})
		}
		res = append(res, pf)
	}
	return res
}

// Deferred releases: a local list that a release statement ranges over (`for _, e := range L { Put(e) }`)
// and every site `L = append(L, x, y…)` that fills it. For each such site: is the element taken out
// of the container it came from in the same pass — i.e. is there, after the append in an enclosing
// block of the same function, a statement `C = append(C[:i], C[j:]...)` or `C = C[:k]` (re-slicing
// deletion)? Only then can the final release of the containers' remaining elements and the release
// of L be disjoint. (That an element occurs in one container only, and once, is not syntactic.)
type deferredRelease struct {
	fn, list, pos string
	args          []string
	deletionPos   string
}

func (p *pkgInfo) deferredReleases() []deferredRelease {
	var res []deferredRelease
	for _, u := range p.units {
		lists := map[string]bool{}
		ast.Inspect(u.body, func(n ast.Node) bool {
			if rs, ok := n.(*ast.RangeStmt); ok && p.releaseOnly(rs) {
				if id, ok := rs.X.(*ast.Ident); ok {
					lists[id.Name] = true
				}
			}
			return true
		})
		if len(lists) == 0 {
			continue
		}
		isDeletion := func(s ast.Stmt) bool {
			as, ok := s.(*ast.AssignStmt)
			if !ok || as.Tok != token.ASSIGN || len(as.Lhs) != 1 || len(as.Rhs) != 1 {
				return false
			}
			l := p.render(as.Lhs[0])
			switch r := as.Rhs[0].(type) {
			case *ast.SliceExpr:
				return p.render(r.X) == l
			case *ast.CallExpr:
				if id, ok := r.Fun.(*ast.Ident); ok && id.Name == "append" && len(r.Args) == 2 && r.Ellipsis.IsValid() {
					a, ok1 := r.Args[0].(*ast.SliceExpr)
					b, ok2 := r.Args[1].(*ast.SliceExpr)
					return ok1 && ok2 && p.render(a.X) == l && p.render(b.X) == l
				}
			}
			return false
		}
		var stack []ast.Node
		ast.Inspect(u.body, func(n ast.Node) bool {
			if n == nil {
				stack = stack[:len(stack)-1]
				return true
			}
			if as, ok := n.(*ast.AssignStmt); ok && len(as.Lhs) == 1 && len(as.Rhs) == 1 {
				if id, ok := as.Lhs[0].(*ast.Ident); ok && lists[id.Name] {
					if c, ok := as.Rhs[0].(*ast.CallExpr); ok && len(c.Args) >= 2 {
						if f, ok := c.Fun.(*ast.Ident); ok && f.Name == "append" && p.render(c.Args[0]) == id.Name {
							d := deferredRelease{fn: u.display, list: id.Name, pos: p.pos(as)}
							for _, a := range c.Args[1:] {
								d.args = append(d.args, p.render(a))
							}
							full := append(append([]ast.Node{}, stack...), n)
							for k := len(full) - 2; k >= 0 && d.deletionPos == ""; k-- {
								list := stmtList(full[k])
								after := false
								for _, s := range list {
									if ast.Node(s) == full[k+1] {
										after = true
										continue
									}
									if after && isDeletion(s) {
										d.deletionPos = p.pos(s)
										break
									}
								}
							}
							res = append(res, d)
						}
					}
				}
			}
			stack = append(stack, n)
			return true
		})
	}
	return res
}
