package main

// Pool protocol facts: the RAW material for the Lean-side verdicts (no judgement here).
//   * per Get site: the straight-line statements after `v := pool.Get().(*T)` that mention v, as
//     steps  set f | setAll | use, each with the fields of v it READS and whether v itself is used
//     as a value (`whole`: passed, stored, dereferenced as a whole). The list ends with the first
//     `use` (the object is published) or with a synthetic use at the end of the block.
//   * per function containing a Put: its top-level statements classified other | release | return
//     (release = does nothing but Put, see releaseOnly).

import (
	"go/ast"
	"go/token"
)

type initStep struct {
	pos, kind, field string
	reads            []string
	whole            bool
}

type putFunc struct {
	fn    string
	stmts [][2]string // pos, kind
}

func (p *pkgInfo) stepScan(g *getSite, oid *ast.Ident, rest []ast.Stmt) []initStep {
	name, obj := oid.Name, oid.Obj
	isField := map[string]bool{}
	for _, f := range g.fields {
		isField[f] = true
	}
	isV := func(e ast.Expr) bool {
		id, ok := e.(*ast.Ident)
		return ok && id.Name == name && id.Obj == obj
	}
	// uses of v inside e: fields read through v.f, and whether v occurs otherwise
	scan := func(e ast.Node, reads *[]string, whole *bool) {
		var stack []ast.Node
		ast.Inspect(e, func(m ast.Node) bool {
			if m == nil {
				stack = stack[:len(stack)-1]
				return true
			}
			if id, ok := m.(*ast.Ident); ok && isV(id) {
				done := false
				if len(stack) > 0 {
					if se, ok := stack[len(stack)-1].(*ast.SelectorExpr); ok && se.X == ast.Expr(id) && isField[se.Sel.Name] {
						*reads = append(*reads, se.Sel.Name)
						done = true
					}
				}
				if !done {
					*whole = true
				}
			}
			stack = append(stack, m)
			return true
		})
	}
	var steps []initStep
	for _, s := range rest {
		if !mentions(s, name, obj) {
			continue
		}
		as, ok := s.(*ast.AssignStmt)
		if !ok || as.Tok != token.ASSIGN || len(as.Lhs) != len(as.Rhs) {
			return append(steps, initStep{pos: p.pos(s), kind: "use", whole: true})
		}
		var reads []string
		whole := false
		for _, r := range as.Rhs {
			scan(r, &reads, &whole)
		}
		var targets []initStep
		for _, l := range as.Lhs {
			switch x := l.(type) {
			case *ast.StarExpr:
				if isV(x.X) {
					targets = append(targets, initStep{pos: p.pos(s), kind: "setAll"})
					continue
				}
			case *ast.SelectorExpr:
				if isV(x.X) && isField[x.Sel.Name] {
					targets = append(targets, initStep{pos: p.pos(s), kind: "set", field: x.Sel.Name})
					continue
				}
			}
			scan(l, &reads, &whole)
		}
		if len(targets) == 0 {
			return append(steps, initStep{pos: p.pos(s), kind: "use", reads: reads, whole: whole})
		}
		targets[0].reads, targets[0].whole = reads, whole
		steps = append(steps, targets...)
	}
	return append(steps, initStep{pos: "end of block", kind: "use", whole: true})
}

func (p *pkgInfo) putFuncFacts() []putFunc {
	var res []putFunc
	seen := map[*unit]bool{}
	for _, u := range p.units {
		has := false
		ast.Inspect(u.body, func(n ast.Node) bool {
			if es, ok := n.(*ast.ExprStmt); ok && p.releaseOnly(es) {
				has = true
			}
			return !has
		})
		if !has || seen[u] {
			continue
		}
		seen[u] = true
		pf := putFunc{fn: u.display}
		for _, s := range u.body.List {
			k := "other"
			if _, ok := s.(*ast.ReturnStmt); ok {
				k = "return"
			} else if p.releaseOnly(s) {
				k = "release"
			}
			pf.stmts = append(pf.stmts, [2]string{p.pos(s), k})
		}
		res = append(res, pf)
	}
	return res
}
