// facts: the C20 fact extractor (stdlib only: go/parser, go/ast, go/printer, go/build/constraint).
//
//	facts <repo> <out.lean>
//
// Re-reads the current source of packages canvas, canvas/text and renderers/{pdf,ps,svg,rasterizer}
// and emits Lean data (module CanvasGen.FactsC20, core-only):
//
//	(a) every package-level `var` with every WRITE site outside init()/var initialisers
//	    (assignments, op-assign, ++/--, writes through field/element/deref paths rooted at the
//	    variable, atomic.* calls on its address) and every READ site of the variables that are
//	    written, each with the synchronisation that syntactically dominates it:
//	      once o       inside the body of sync.OnceFunc/OnceValue(s) bound to o, or of o.Do(func)
//	      atomic       argument of a sync/atomic call, or method of an atomic.* typed variable
//	      lock m       between m.Lock()/m.RLock() and m.Unlock() in the same function (m rooted at a
//	                   package-level variable)
//	      afterOnce o  a call o() / o.Do(..) precedes the site in an enclosing block of the same
//	                   function, or on every call path inside the package (greatest fixpoint over a
//	                   call graph matched by function/method NAME and ARGUMENT COUNT — a heuristic
//	                   over-approximation of the callers; exported functions and methods are entry
//	                   points except methods of the sweep-internal helper types, see internalTypes)
//	      localLock m  a lock that is not package-level is held (does not protect a global)
//	      none
//	    Mutating method calls Store/LoadOrStore/Delete/… on a package-level variable and delete(v,k)
//	    are write sites (kind method:<name> / delete). OUT OF SCOPE (not seen): mutation through
//	    other method calls on the variable (bytes.Buffer …, sync.Pool internals), through aliases after the address was taken (sites that
//	    take the address are listed with kind "addr"), function values, reflection, other packages.
//	(b) every sync.Pool Get site with the pooled struct type, the full field list of that struct and
//	    the set of fields assigned before the first read/escape of the object on the straight-line
//	    path after the Get (`*x = …` counts as all fields); plus all Put sites with the loops that
//	    enclose them and whether they lie in the function's RELEASE TAIL: the trailing top-level
//	    statements (before the final return) that do nothing but Put — an object is given back only
//	    when the function has no statement left that could still use it.
package main

import (
	"bytes"
	"fmt"
	"go/ast"
	"go/build/constraint"
	"go/parser"
	"go/printer"
	"go/token"
	"os"
	"path/filepath"
	"sort"
	"strings"
)

type syncT struct{ kind, name string }

type site struct {
	fn, pos, kind string
	sync          syncT
}

type varInfo struct {
	pkg, name, typ, pos string
	writes, reads, addrs []site
	isOnceFunc           bool
	isOnce               bool
	isAtomic             bool
	isPool               bool
}

type unit struct {
	key      string // "name" for functions, ".name" for methods, "" for var-init closures
	display  string
	body     *ast.BlockStmt
	entry    bool // callable from outside the package
	onceBody string
	decl     *ast.FuncDecl
	nparams  int
	variadic bool
}

// compatible: a call with n arguments (n < 0: unknown, e.g. f(g()) or f(xs...)) can target this unit
func (u *unit) compatible(n int) bool {
	if n == -2 { // f(xs...) can only target a variadic function
		return u.variadic
	}
	if n < 0 {
		return true
	}
	if u.variadic {
		return n >= u.nparams-1
	}
	return n == u.nparams
}

type callSite struct {
	caller *unit
	after  map[string]bool
	nargs  int
}

type getSite struct {
	pool, typ, fn, pos, obj string
	fields, assigned        []string
	whole                   bool
	stop                    string
	steps                   []initStep
	initPos                 []string // positions of the initialising statements (where the object is overwritten)
}

// putSite: one pool.Put call with the loops around it and whether it lies in the function's release
// tail (the trailing top-level statements that do nothing but Put, before the final return)
type putSite struct {
	pool, fn, pos, arg string
	loops              []string
	inTail             bool
}

type pkgInfo struct {
	name, dir string
	fset      *token.FileSet
	files     []*ast.File
	vars      map[string]*varInfo
	order     []string
	specs     map[*ast.ValueSpec]bool
	funcs     map[string]bool // package-level function names
	structs   map[string][]string
	stTypes   map[string]*ast.StructType
	units     []*unit
	calls     map[string][]callSite
	escaping  map[string]bool
	entryAft  map[*unit]map[string]bool
	multi     map[string]bool // function / method names with more than one result
	onces     []string
	gets      []getSite
	puts      []putSite
	poolFuncs map[string]bool // "file:from:to:name" of functions containing a Get or Put
}

// Exported helper types of the sweep line that are meaningful only inside bentleyOttmann: their
// methods are NOT treated as entry points (stated as an assumption of the check).
var internalTypes = map[string]bool{"SweepPoint": true, "SweepEvents": true, "SweepStatus": true, "SweepNode": true,
	"toleranceSquares": true, "toleranceSquare": true}

func main() {
	if len(os.Args) < 3 {
		fmt.Fprintln(os.Stderr, "usage: facts <repo> <out.lean> [name=dir=posprefix ...]   (extra packages outside the repo, e.g. a dependency in the module cache)")
		os.Exit(2)
	}
	repo := os.Args[1]
	pkgs := [][2]string{{"canvas", "."}, {"text", "text"}, {"pdf", "renderers/pdf"}, {"ps", "renderers/ps"},
		{"svg", "renderers/svg"}, {"rasterizer", "renderers/rasterizer"}}
	var all []*pkgInfo
	for _, pd := range pkgs {
		p, err := load(pd[0], filepath.Join(repo, pd[1]), repo)
		if err != nil {
			fmt.Fprintln(os.Stderr, "facts:", err)
			os.Exit(1)
		}
		p.analyse()
		all = append(all, p)
	}
	for _, extra := range os.Args[3:] {
		f := strings.SplitN(extra, "=", 3)
		if len(f) != 3 {
			fmt.Fprintln(os.Stderr, "facts: bad extra package", extra)
			os.Exit(1)
		}
		posPrefix = f[2]
		p, err := load(f[0], f[1], f[1])
		posPrefix = ""
		if err != nil {
			fmt.Fprintln(os.Stderr, "facts:", err)
			os.Exit(1)
		}
		p.analyse()
		all = append(all, p)
	}
	var b bytes.Buffer
	emit(&b, all)
	emitFontLevel(&b, all)
	if err := os.WriteFile(os.Args[2], b.Bytes(), 0o644); err != nil {
		fmt.Fprintln(os.Stderr, "facts:", err)
		os.Exit(1)
	}
}

var posPrefix string

func tagOK(tag string) bool {
	return tag == "linux" || tag == "amd64" || tag == "gc" || tag == "unix" || strings.HasPrefix(tag, "go1.")
}

func load(name, dir, repo string) (*pkgInfo, error) {
	p := &pkgInfo{name: name, dir: dir, fset: token.NewFileSet(), vars: map[string]*varInfo{}, specs: map[*ast.ValueSpec]bool{},
		funcs: map[string]bool{}, structs: map[string][]string{}, stTypes: map[string]*ast.StructType{}, calls: map[string][]callSite{}, escaping: map[string]bool{},
		entryAft: map[*unit]map[string]bool{}, multi: map[string]bool{}, poolFuncs: map[string]bool{}}
	ents, err := os.ReadDir(dir)
	if err != nil {
		return nil, err
	}
	for _, e := range ents {
		n := e.Name()
		if e.IsDir() || !strings.HasSuffix(n, ".go") || strings.HasSuffix(n, "_test.go") {
			continue
		}
		src, err := os.ReadFile(filepath.Join(dir, n))
		if err != nil {
			return nil, err
		}
		skip := false
		for _, line := range strings.Split(string(src), "\n") {
			t := strings.TrimSpace(line)
			if strings.HasPrefix(t, "package ") {
				break
			}
			if constraint.IsGoBuild(t) {
				if x, err := constraint.Parse(t); err == nil && !x.Eval(tagOK) {
					skip = true
				}
			}
		}
		if skip {
			continue
		}
		rel, _ := filepath.Rel(repo, filepath.Join(dir, n))
		rel = posPrefix + rel
		f, err := parser.ParseFile(p.fset, rel, src, parser.ParseComments)
		if err != nil {
			return nil, err
		}
		p.files = append(p.files, f)
	}
	return p, nil
}

func (p *pkgInfo) render(n ast.Node) string {
	var b bytes.Buffer
	printer.Fprint(&b, p.fset, n)
	s := b.String()
	if i := strings.IndexByte(s, '\n'); i >= 0 {
		s = s[:i] + "…"
	}
	if len(s) > 80 {
		s = s[:80] + "…"
	}
	return s
}

func (p *pkgInfo) pos(n ast.Node) string {
	ps := p.fset.Position(n.Pos())
	return fmt.Sprintf("%s:%d", ps.Filename, ps.Line)
}

// isPkgVar: the identifier denotes a package-level variable of this package (not a local, field or
// qualified name). go/parser resolves identifiers per file: locals have Obj.Decl inside a function,
// same-file globals point at the file-level ValueSpec, other-file globals are unresolved (Obj nil).
func (p *pkgInfo) isPkgVar(id *ast.Ident) *varInfo {
	v, ok := p.vars[id.Name]
	if !ok {
		return nil
	}
	if id.Obj == nil {
		return v
	}
	if vs, ok := id.Obj.Decl.(*ast.ValueSpec); ok && p.specs[vs] {
		return v
	}
	return nil
}

func (p *pkgInfo) isPkgFunc(id *ast.Ident) bool {
	if !p.funcs[id.Name] {
		return false
	}
	if id.Obj == nil {
		return true
	}
	_, ok := id.Obj.Decl.(*ast.FuncDecl)
	return ok
}

func selCall(e ast.Expr) (x ast.Expr, sel string, call *ast.CallExpr) {
	c, ok := e.(*ast.CallExpr)
	if !ok {
		return nil, "", nil
	}
	s, ok := c.Fun.(*ast.SelectorExpr)
	if !ok {
		return nil, "", c
	}
	return s.X, s.Sel.Name, c
}

func isPkgSel(e ast.Expr, pkg, name string) bool {
	s, ok := e.(*ast.SelectorExpr)
	if !ok {
		return false
	}
	id, ok := s.X.(*ast.Ident)
	return ok && id.Name == pkg && id.Obj == nil && (name == "" || s.Sel.Name == name)
}

func rootIdent(e ast.Expr) (*ast.Ident, string) {
	kind := "assign"
	for {
		switch x := e.(type) {
		case *ast.Ident:
			return x, kind
		case *ast.ParenExpr:
			e = x.X
		case *ast.SelectorExpr:
			kind, e = "field", x.X
		case *ast.IndexExpr:
			kind, e = "elem", x.X
		case *ast.StarExpr:
			kind, e = "deref", x.X
		case *ast.SliceExpr:
			kind, e = "elem", x.X
		default:
			return nil, ""
		}
	}
}

func recvType(d *ast.FuncDecl) string {
	if d.Recv == nil || len(d.Recv.List) == 0 {
		return ""
	}
	t := d.Recv.List[0].Type
	for {
		switch x := t.(type) {
		case *ast.StarExpr:
			t = x.X
		case *ast.IndexExpr:
			t = x.X
		case *ast.Ident:
			return x.Name
		default:
			return "?"
		}
	}
}

func (p *pkgInfo) analyse() {
	// declarations
	type initLit struct {
		name string
		lit  *ast.FuncLit
		once bool
	}
	var lits []initLit
	for _, f := range p.files {
		for _, d := range f.Decls {
			switch d := d.(type) {
			case *ast.GenDecl:
				for _, sp := range d.Specs {
					switch sp := sp.(type) {
					case *ast.ValueSpec:
						if d.Tok != token.VAR {
							continue
						}
						p.specs[sp] = true
						for i, id := range sp.Names {
							if id.Name == "_" {
								continue
							}
							v := &varInfo{pkg: p.name, name: id.Name, pos: p.pos(id)}
							if sp.Type != nil {
								v.typ = p.render(sp.Type)
							} else if i < len(sp.Values) {
								v.typ = ":= " + p.render(sp.Values[i])
							}
							v.isOnce = sp.Type != nil && isPkgSel(sp.Type, "sync", "Once")
							v.isAtomic = sp.Type != nil && isPkgSel(sp.Type, "atomic", "")
							if sp.Type != nil && strings.Contains(v.typ, "sync.Pool") {
								v.isPool = true
							}
							if i < len(sp.Values) {
								if c, ok := sp.Values[i].(*ast.CallExpr); ok && (isPkgSel(c.Fun, "sync", "OnceFunc") || isPkgSel(c.Fun, "sync", "OnceValue") || isPkgSel(c.Fun, "sync", "OnceValues")) {
									v.isOnceFunc = true
								}
								if strings.Contains(p.render(sp.Values[i]), "sync.Pool{") {
									v.isPool = true
								}
							}
							p.vars[id.Name] = v
							p.order = append(p.order, id.Name)
						}
					case *ast.TypeSpec:
						if st, ok := sp.Type.(*ast.StructType); ok {
							var fs []string
							for _, fl := range st.Fields.List {
								if len(fl.Names) == 0 {
									t := fl.Type
									if s, ok := t.(*ast.StarExpr); ok {
										t = s.X
									}
									switch x := t.(type) {
									case *ast.Ident:
										fs = append(fs, x.Name)
									case *ast.SelectorExpr:
										fs = append(fs, x.Sel.Name)
									}
								}
								for _, n := range fl.Names {
									fs = append(fs, n.Name)
								}
							}
							p.structs[sp.Name.Name] = fs
							p.stTypes[sp.Name.Name] = st
						}
					}
				}
			case *ast.FuncDecl:
				if d.Recv == nil {
					p.funcs[d.Name.Name] = true
				}
				if d.Type.Results != nil {
					nres := 0
					for _, f := range d.Type.Results.List {
						if len(f.Names) == 0 {
							nres++
						}
						nres += len(f.Names)
					}
					if nres > 1 {
						if d.Recv == nil {
							p.multi[d.Name.Name] = true
						} else {
							p.multi["."+d.Name.Name] = true
						}
					}
				}
			}
		}
	}
	// pools assigned later (boPointPool = &sync.Pool{…})
	for _, f := range p.files {
		ast.Inspect(f, func(n ast.Node) bool {
			if a, ok := n.(*ast.AssignStmt); ok && len(a.Lhs) == 1 && len(a.Rhs) == 1 {
				if id, ok := a.Lhs[0].(*ast.Ident); ok {
					if v := p.isPkgVar(id); v != nil && strings.Contains(p.render(a.Rhs[0]), "sync.Pool{") {
						v.isPool = true
					}
				}
			}
			return true
		})
	}
	// units
	for _, f := range p.files {
		for _, d := range f.Decls {
			switch d := d.(type) {
			case *ast.FuncDecl:
				if d.Body == nil || (d.Recv == nil && d.Name.Name == "init") {
					continue
				}
				u := &unit{body: d.Body, decl: d}
				for _, f := range d.Type.Params.List {
					k := len(f.Names)
					if k == 0 {
						k = 1
					}
					u.nparams += k
					if _, ok := f.Type.(*ast.Ellipsis); ok {
						u.variadic = true
					}
				}
				rt := recvType(d)
				if rt == "" {
					u.key, u.display = d.Name.Name, d.Name.Name
					u.entry = ast.IsExported(d.Name.Name)
				} else {
					u.key, u.display = "."+d.Name.Name, rt+"."+d.Name.Name
					// exported methods are entry points (also through interfaces when the type is
					// unexported) unless the receiver is a sweep-internal helper type
					u.entry = ast.IsExported(d.Name.Name) && !(p.name == "canvas" && internalTypes[rt])
				}
				p.units = append(p.units, u)
			case *ast.GenDecl:
				if d.Tok != token.VAR {
					continue
				}
				for _, sp := range d.Specs {
					vs := sp.(*ast.ValueSpec)
					for i, val := range vs.Values {
						name := "_"
						if i < len(vs.Names) {
							name = vs.Names[i].Name
						}
						ast.Inspect(val, func(n ast.Node) bool {
							if c, ok := n.(*ast.CallExpr); ok {
								if isPkgSel(c.Fun, "sync", "OnceFunc") || isPkgSel(c.Fun, "sync", "OnceValue") || isPkgSel(c.Fun, "sync", "OnceValues") {
									if len(c.Args) == 1 {
										if fl, ok := c.Args[0].(*ast.FuncLit); ok {
											lits = append(lits, initLit{name, fl, true})
											return false
										}
									}
								}
							}
							if fl, ok := n.(*ast.FuncLit); ok {
								lits = append(lits, initLit{name, fl, false})
								return false
							}
							return true
						})
					}
				}
			}
		}
	}
	for _, l := range lits {
		u := &unit{display: "varinit:" + l.name, body: l.lit.Body, entry: true}
		if l.once {
			u.onceBody = l.name
		}
		p.units = append(p.units, u)
	}
	for _, n := range p.order {
		if p.vars[n].isOnceFunc || p.vars[n].isOnce {
			p.onces = append(p.onces, n)
		}
	}
	// pass 1: call sites with their dominating once-calls; escaping function values
	for _, u := range p.units {
		p.walk(u, func(stack []ast.Node, n ast.Node) {
			switch x := n.(type) {
			case *ast.CallExpr:
				key := ""
				switch f := x.Fun.(type) {
				case *ast.Ident:
					if p.isPkgFunc(f) {
						key = f.Name
					}
				case *ast.SelectorExpr:
					key = "." + f.Sel.Name
				}
				if key != "" {
					c := p.ctxAt(u, stack)
					na := len(x.Args)
					if x.Ellipsis.IsValid() {
						na = -2
					} else if na == 1 {
						// f(g()) passes all results of g: unknown arity when g is a function or method
						// name of this package with several results (other callees: one value)
						if inner, isCall := x.Args[0].(*ast.CallExpr); isCall {
							switch g := inner.Fun.(type) {
							case *ast.Ident:
								if p.multi[g.Name] {
									na = -1
								}
							case *ast.SelectorExpr:
								if p.multi["."+g.Sel.Name] {
									na = -1
								}
							}
						}
					}
					p.calls[key] = append(p.calls[key], callSite{u, c.after, na})
				}
			case *ast.Ident:
				if p.isPkgFunc(x) && !isCallFun(stack, x) && !isSel(stack, x) {
					p.escaping[x.Name] = true
				}
			case *ast.SelectorExpr:
				if !isCallFun(stack, x) {
					p.escaping["."+x.Sel.Name] = true
				}
			}
		})
	}
	// greatest fixpoint: once-calls that precede every call path into a non-entry function
	top := func() map[string]bool {
		m := map[string]bool{}
		for _, o := range p.onces {
			m[o] = true
		}
		return m
	}
	// a non-entry function without call sites is unreachable (function values are `escaping`): the
	// intersection over no call paths is everything
	for _, u := range p.units {
		if u.entry || u.key == "" || p.escaping[u.key] {
			p.entryAft[u] = map[string]bool{}
		} else {
			p.entryAft[u] = top()
		}
	}
	for changed := true; changed; {
		changed = false
		for _, u := range p.units {
			cur := p.entryAft[u]
			if len(cur) == 0 {
				continue
			}
			for o := range cur {
				for _, cs := range p.calls[u.key] {
					if !u.compatible(cs.nargs) {
						continue
					}
					if !cs.after[o] && !p.entryAft[cs.caller][o] {
						delete(cur, o)
						changed = true
						break
					}
				}
			}
		}
	}
	if os.Getenv("FACTS_DEBUG") != "" {
		for _, u := range p.units {
			fmt.Fprintf(os.Stderr, "unit %s key=%s entry=%v esc=%v calls=%d after=%v\n", u.display, u.key, u.entry, p.escaping[u.key], len(p.calls[u.key]), p.entryAft[u])
		}
	}
	// several methods may share a key (same name, different receivers): all get the intersection
	// pass 2: accesses
	for _, u := range p.units {
		writeRoots := map[*ast.Ident]string{}
		ast.Inspect(u.body, func(n ast.Node) bool {
			switch x := n.(type) {
			case *ast.AssignStmt:
				if x.Tok == token.DEFINE {
					return true
				}
				for _, l := range x.Lhs {
					if id, k := rootIdent(l); id != nil {
						if x.Tok != token.ASSIGN && k == "assign" {
							k = "opassign"
						}
						writeRoots[id] = k
					}
				}
			case *ast.IncDecStmt:
				if id, k := rootIdent(x.X); id != nil {
					if k == "assign" {
						k = "incdec"
					}
					writeRoots[id] = k
				}
			case *ast.RangeStmt:
				if x.Tok == token.ASSIGN {
					for _, e := range []ast.Expr{x.Key, x.Value} {
						if e != nil {
							if id, k := rootIdent(e); id != nil {
								writeRoots[id] = k
							}
						}
					}
				}
			case *ast.UnaryExpr:
				if x.Op == token.AND {
					if id, _ := rootIdent(x.X); id != nil {
						if _, w := writeRoots[id]; !w {
							writeRoots[id] = "addr"
						}
					}
				}
			}
			return true
		})
		p.walk(u, func(stack []ast.Node, n ast.Node) {
			id, ok := n.(*ast.Ident)
			if !ok || isSel(stack, id) || isStructKey(stack, id) {
				return
			}
			v := p.isPkgVar(id)
			if v == nil {
				return
			}
			c := p.ctxAt(u, stack)
			s := site{fn: u.display, pos: p.pos(id), sync: c.sync(p, u)}
			if k, w := writeRoots[id]; w {
				s.kind = k
				if k == "addr" {
					if c.atomic != "" {
						if strings.HasPrefix(c.atomic, "Load") {
							s.kind = "atomicload"
							v.reads = append(v.reads, s)
						} else {
							s.kind = "atomic:" + c.atomic
							v.writes = append(v.writes, s)
						}
					} else {
						v.addrs = append(v.addrs, s)
					}
				} else {
					v.writes = append(v.writes, s)
				}
				return
			}
			// receiver of a mutex operation: the synchronisation itself, not an access
			if len(stack) >= 2 {
				if se, ok := stack[len(stack)-1].(*ast.SelectorExpr); ok && se.X == ast.Expr(id) && isCallFun(stack[:len(stack)-1], se) {
					switch se.Sel.Name {
					case "Lock", "Unlock", "RLock", "RUnlock":
						return
					}
				}
			}
			// method call on an atomic.* typed variable
			if v.isAtomic && len(stack) >= 2 {
				if se, ok := stack[len(stack)-1].(*ast.SelectorExpr); ok && se.X == id && isCallFun(stack[:len(stack)-1], se) {
					s.sync = syncT{"atomic", ""}
					if se.Sel.Name == "Load" {
						s.kind = "atomicload"
						v.reads = append(v.reads, s)
					} else {
						s.kind = "atomic:" + se.Sel.Name
						v.writes = append(v.writes, s)
					}
					return
				}
			}
			// mutating method call on a package-level container (sync.Map, sync.Pool is exempt: it
			// carries no observable state by construction of the Get sites), or delete(v, k)
			if len(stack) >= 2 && !v.isPool {
				if se, ok := stack[len(stack)-1].(*ast.SelectorExpr); ok && se.X == ast.Expr(id) && isCallFun(stack[:len(stack)-1], se) && mutators[se.Sel.Name] {
					s.kind = "method:" + se.Sel.Name
					v.writes = append(v.writes, s)
					return
				}
			}
			if len(stack) >= 1 {
				if ce, ok := stack[len(stack)-1].(*ast.CallExpr); ok && len(ce.Args) == 2 && ce.Args[0] == ast.Expr(id) {
					if f, ok := ce.Fun.(*ast.Ident); ok && f.Name == "delete" {
						s.kind = "delete"
						v.writes = append(v.writes, s)
						return
					}
				}
			}
			s.kind = "read"
			v.reads = append(v.reads, s)
		})
	}
	p.pools()
}

func isCallFun(stack []ast.Node, e ast.Expr) bool {
	if len(stack) == 0 {
		return false
	}
	c, ok := stack[len(stack)-1].(*ast.CallExpr)
	return ok && c.Fun == e
}

func isSel(stack []ast.Node, id *ast.Ident) bool {
	if len(stack) == 0 {
		return false
	}
	s, ok := stack[len(stack)-1].(*ast.SelectorExpr)
	return ok && s.Sel == id
}

// key of a struct composite literal (`Point: start`): a field name, not a variable
func isStructKey(stack []ast.Node, id *ast.Ident) bool {
	if len(stack) < 2 {
		return false
	}
	kv, ok := stack[len(stack)-1].(*ast.KeyValueExpr)
	if !ok || kv.Key != id {
		return false
	}
	cl, ok := stack[len(stack)-2].(*ast.CompositeLit)
	if !ok {
		return false
	}
	switch cl.Type.(type) {
	case *ast.MapType, *ast.ArrayType:
		return false
	}
	return true
}

// walk calls f(stack, node) for every node of the unit's body with the stack of its ancestors;
// nested function literals are part of the unit.
func (p *pkgInfo) walk(u *unit, f func(stack []ast.Node, n ast.Node)) {
	var stack []ast.Node
	ast.Inspect(u.body, func(n ast.Node) bool {
		if n == nil {
			stack = stack[:len(stack)-1]
			return true
		}
		f(stack, n)
		stack = append(stack, n)
		return true
	})
}

type ctx struct {
	once   string
	atomic string
	after  map[string]bool
	held   []string // global locks
	local  []string
}

func (c ctx) sync(p *pkgInfo, u *unit) syncT {
	switch {
	case c.once != "":
		return syncT{"once", c.once}
	case c.atomic != "":
		return syncT{"atomic", ""}
	case len(c.held) > 0:
		return syncT{"lock", c.held[0]}
	}
	var as []string
	for o := range c.after {
		as = append(as, o)
	}
	for o := range p.entryAft[u] {
		if !c.after[o] {
			as = append(as, o)
		}
	}
	sort.Strings(as)
	if len(as) > 0 {
		return syncT{"afterOnce", as[0]}
	}
	if len(c.local) > 0 {
		return syncT{"localLock", c.local[0]}
	}
	return syncT{"none", ""}
}

func stmtList(n ast.Node) []ast.Stmt {
	switch x := n.(type) {
	case *ast.BlockStmt:
		return x.List
	case *ast.CaseClause:
		return x.Body
	case *ast.CommClause:
		return x.Body
	}
	return nil
}

// onceCallee: the statement is a call o() of a sync.OnceFunc variable or o.Do(..) of a sync.Once variable
func (p *pkgInfo) onceCallee(c *ast.CallExpr) string {
	switch f := c.Fun.(type) {
	case *ast.Ident:
		if v := p.isPkgVar(f); v != nil && v.isOnceFunc {
			return v.name
		}
	case *ast.SelectorExpr:
		if f.Sel.Name == "Do" {
			if id, ok := f.X.(*ast.Ident); ok {
				if v := p.isPkgVar(id); v != nil && v.isOnce {
					return v.name
				}
			}
		}
	}
	return ""
}

func (p *pkgInfo) ctxAt(u *unit, stack []ast.Node) ctx {
	c := ctx{once: u.onceBody, after: map[string]bool{}}
	remove := func(l []string, s string) []string {
		var r []string
		for _, x := range l {
			if x != s {
				r = append(r, x)
			}
		}
		return r
	}
	full := append(append([]ast.Node{}, stack...), nil)
	for k := 0; k+1 < len(full); k++ {
		n := full[k]
		switch x := n.(type) {
		case *ast.FuncLit:
			// a closure does not inherit the locks held where it was created
			c.held, c.local = nil, nil
			// body of o.Do(func(){…})
			if k > 0 {
				if call, ok := full[k-1].(*ast.CallExpr); ok {
					if o := p.onceCallee(call); o != "" && len(call.Args) == 1 && call.Args[0] == ast.Expr(x) {
						c.once = o
					}
				}
			}
		case *ast.CallExpr:
			if isPkgSel(x.Fun, "atomic", "") && len(x.Args) > 0 && full[k+1] == ast.Node(x.Args[0]) {
				c.atomic = x.Fun.(*ast.SelectorExpr).Sel.Name
			}
		}
		list := stmtList(n)
		if list == nil || full[k+1] == nil {
			continue
		}
		for _, s := range list {
			if ast.Node(s) == full[k+1] {
				break
			}
			es, ok := s.(*ast.ExprStmt)
			if ok {
				x, sel, call := selCall(es.X)
				if call != nil {
					if o := p.onceCallee(call); o != "" {
						c.after[o] = true
						continue
					}
				}
				if x != nil && len(call.Args) == 0 {
					name := p.render(x)
					id, _ := rootIdent(x)
					global := id != nil && p.isPkgVar(id) != nil
					switch sel {
					case "Lock", "RLock":
						if global {
							c.held = append(c.held, name)
						} else {
							c.local = append(c.local, name)
						}
						continue
					case "Unlock", "RUnlock":
						c.held, c.local = remove(c.held, name), remove(c.local, name)
						continue
					}
				}
			}
			if _, ok := s.(*ast.DeferStmt); ok {
				continue
			}
			// any nested Unlock in a compound statement conservatively releases the lock
			ast.Inspect(s, func(m ast.Node) bool {
				if e, ok := m.(ast.Expr); ok {
					if x, sel, call := selCall(e); x != nil && call != nil && (sel == "Unlock" || sel == "RUnlock") {
						name := p.render(x)
						c.held, c.local = remove(c.held, name), remove(c.local, name)
					}
				}
				return true
			})
		}
	}
	return c
}

// ---- sync.Pool Get/Put sites -------------------------------------------------------------------

func mentions(n ast.Node, name string, obj *ast.Object) bool {
	found := false
	ast.Inspect(n, func(m ast.Node) bool {
		if id, ok := m.(*ast.Ident); ok && id.Name == name && id.Obj == obj {
			found = true
		}
		return !found
	})
	return found
}

func (p *pkgInfo) pools() {
	for _, u := range p.units {
		p.walk(u, func(stack []ast.Node, n ast.Node) {
			x, sel, call := selCall(exprOf(n))
			if call == nil || x == nil {
				return
			}
			id, ok := x.(*ast.Ident)
			if !ok {
				return
			}
			v := p.isPkgVar(id)
			if v == nil || !v.isPool {
				return
			}
			if sel == "Put" || sel == "Get" {
				if u.decl != nil {
					a, b := p.fset.Position(u.decl.Pos()), p.fset.Position(u.decl.End())
					p.poolFuncs[fmt.Sprintf("%s:%d:%d:%s", a.Filename, a.Line, b.Line, u.display)] = true
				}
			}
			switch sel {
			case "Put":
				arg := ""
				if len(call.Args) == 1 {
					arg = p.render(call.Args[0])
				}
				ps := putSite{pool: p.name + "." + v.name, fn: u.display, pos: p.pos(call), arg: arg}
				for _, a := range stack {
					switch l := a.(type) {
					case *ast.ForStmt:
						h := "for"
						if l.Cond != nil {
							h += " " + p.render(l.Cond)
						}
						ps.loops = append(ps.loops, h)
					case *ast.RangeStmt:
						ps.loops = append(ps.loops, "range "+p.render(l.X))
					}
				}
				if len(stack) >= 2 {
					if top, ok := stack[1].(ast.Stmt); ok {
						ps.inTail = p.releaseTail(u.body)[top]
					}
				}
				p.puts = append(p.puts, ps)
			case "Get":
				g := getSite{pool: v.name, fn: u.display, pos: p.pos(call), typ: "?", obj: "?", stop: "get result is not bound by `v := pool.Get().(*T)`"}
				// expected shape: v := pool.Get().(*T) as a statement of a block
				if len(stack) >= 3 {
					ta, ok1 := stack[len(stack)-1].(*ast.TypeAssertExpr)
					as, ok2 := stack[len(stack)-2].(*ast.AssignStmt)
					list := stmtList(stack[len(stack)-3])
					if ok1 && ok2 && list != nil && len(as.Lhs) == 1 && len(as.Rhs) == 1 && as.Tok == token.DEFINE {
						if st, ok := ta.Type.(*ast.StarExpr); ok {
							if tid, ok := st.X.(*ast.Ident); ok {
								g.typ = tid.Name
							}
						}
						if oid, ok := as.Lhs[0].(*ast.Ident); ok {
							g.obj = oid.Name
							g.fields = p.structs[g.typ]
							idx := 0
							for i, s := range list {
								if s == ast.Stmt(as) {
									idx = i
								}
							}
							p.initScan(&g, oid, list[idx+1:])
							g.steps = p.stepScan(&g, oid, list[idx+1:])
						}
					}
				}
				p.gets = append(p.gets, g)
			}
		})
	}
}

// releaseOnly: the statement does nothing but return objects to pools (Put calls, possibly inside
// loops and if-guards without initialiser)
func (p *pkgInfo) releaseOnly(s ast.Stmt) bool {
	all := func(l []ast.Stmt) bool {
		for _, x := range l {
			if !p.releaseOnly(x) {
				return false
			}
		}
		return len(l) > 0
	}
	switch x := s.(type) {
	case *ast.ExprStmt:
		r, sel, call := selCall(x.X)
		if call == nil || r == nil || sel != "Put" {
			return false
		}
		id, ok := r.(*ast.Ident)
		if !ok {
			return false
		}
		v := p.isPkgVar(id)
		return v != nil && v.isPool
	case *ast.BlockStmt:
		return all(x.List)
	case *ast.RangeStmt:
		return all(x.Body.List)
	case *ast.ForStmt:
		return x.Init == nil && x.Post == nil && all(x.Body.List)
	case *ast.IfStmt:
		return x.Init == nil && all(x.Body.List) && (x.Else == nil || p.releaseOnly(x.Else))
	}
	return false
}

// releaseTail: the trailing top-level statements of a function body that are release-only (the final
// return statement is skipped)
func (p *pkgInfo) releaseTail(body *ast.BlockStmt) map[ast.Stmt]bool {
	tail := map[ast.Stmt]bool{}
	l := body.List
	if n := len(l); n > 0 {
		if _, ok := l[n-1].(*ast.ReturnStmt); ok {
			l = l[:n-1]
		}
	}
	for i := len(l) - 1; i >= 0 && p.releaseOnly(l[i]); i-- {
		tail[l[i]] = true
	}
	return tail
}

func exprOf(n ast.Node) ast.Expr {
	if e, ok := n.(ast.Expr); ok {
		return e
	}
	return nil
}

// initScan: straight-line scan of the statements after the Get. A field counts as assigned when a
// statement `v.f = e` / `*v = e` whose right-hand side does not mention v is reached before any other
// use of v. The scan stops at the first other use of v (read of an unassigned field, v passed or
// stored somewhere, compound statement mentioning v).
func (p *pkgInfo) initScan(g *getSite, oid *ast.Ident, rest []ast.Stmt) {
	name, obj := oid.Name, oid.Obj
	assigned := map[string]bool{}
	isField := map[string]bool{}
	for _, f := range g.fields {
		isField[f] = true
	}
	all := func() bool {
		for _, f := range g.fields {
			if !assigned[f] {
				return false
			}
		}
		return len(g.fields) > 0
	}
	isV := func(e ast.Expr) bool {
		id, ok := e.(*ast.Ident)
		return ok && id.Name == name && id.Obj == obj
	}
	// readsOK: every mention of v inside e is a read `v.f` of an already assigned field
	var readsOK func(e ast.Node) bool
	readsOK = func(e ast.Node) bool {
		ok := true
		var stack []ast.Node
		ast.Inspect(e, func(m ast.Node) bool {
			if m == nil {
				stack = stack[:len(stack)-1]
				return true
			}
			if id, isId := m.(*ast.Ident); isId && isV(id) {
				good := false
				if len(stack) > 0 {
					if se, isSel := stack[len(stack)-1].(*ast.SelectorExpr); isSel && se.X == ast.Expr(id) && assigned[se.Sel.Name] {
						good = true
					}
				}
				if !good {
					ok = false
				}
			}
			stack = append(stack, m)
			return true
		})
		return ok
	}
	g.stop = "end of block"
scan:
	for _, s := range rest {
		if !mentions(s, name, obj) {
			continue
		}
		if all() {
			g.stop = "all fields assigned before " + p.pos(s)
			break
		}
		as, ok := s.(*ast.AssignStmt)
		if !ok || as.Tok != token.ASSIGN || len(as.Lhs) != len(as.Rhs) {
			g.stop = "use at " + p.pos(s) + ": " + p.render(s)
			break
		}
		for _, r := range as.Rhs {
			if !readsOK(r) {
				g.stop = "read/escape at " + p.pos(s) + ": " + p.render(s)
				break scan
			}
		}
		var newly []string
		for _, l := range as.Lhs {
			switch x := l.(type) {
			case *ast.StarExpr:
				if isV(x.X) {
					g.whole = true
					newly = append(newly, g.fields...)
					continue
				}
			case *ast.SelectorExpr:
				if isV(x.X) && isField[x.Sel.Name] {
					newly = append(newly, x.Sel.Name)
					continue
				}
			}
			if !readsOK(l) {
				g.stop = "read/escape at " + p.pos(s) + ": " + p.render(s)
				break scan
			}
		}
		for _, f := range newly {
			assigned[f] = true
		}
		if len(newly) > 0 {
			g.initPos = append(g.initPos, p.pos(s))
		}
	}
	for _, f := range g.fields {
		if assigned[f] {
			g.assigned = append(g.assigned, f)
		}
	}
}

// ---- Lean output ---------------------------------------------------------------------------------

func q(s string) string {
	var b strings.Builder
	b.WriteByte('"')
	for _, r := range s {
		switch r {
		case '"':
			b.WriteString("\\\"")
		case '\\':
			b.WriteString("\\\\")
		case '\n':
			b.WriteString("\\n")
		case '\t':
			b.WriteString(" ")
		default:
			b.WriteRune(r)
		}
	}
	b.WriteByte('"')
	return b.String()
}

func qs(l []string) string {
	var r []string
	for _, s := range l {
		r = append(r, q(s))
	}
	return "[" + strings.Join(r, ", ") + "]"
}

var curPkg string

func leanSync(s syncT) string {
	s.name = curPkg + "." + s.name
	switch s.kind {
	case "once":
		return "(.once " + q(s.name) + ")"
	case "afterOnce":
		return "(.afterOnce " + q(s.name) + ")"
	case "lock":
		return "(.lock " + q(s.name) + ")"
	case "localLock":
		return "(.localLock " + q(s.name) + ")"
	case "atomic":
		return ".atomic"
	}
	return ".none"
}

func leanSteps(l []initStep) string {
	var r []string
	for _, s := range l {
		k := ".use"
		switch s.kind {
		case "set":
			k = "(.set " + q(s.field) + ")"
		case "setAll":
			k = ".setAll"
		}
		r = append(r, fmt.Sprintf("⟨%s, %s, %s, %v⟩", q(s.pos), k, qs(s.reads), s.whole))
	}
	return "[" + strings.Join(r, ",\n      ") + "]"
}

func leanSites(l []site) string {
	if len(l) == 0 {
		return "[]"
	}
	var r []string
	for _, s := range l {
		r = append(r, fmt.Sprintf("⟨%s, %s, %s, %s⟩", q(s.fn), q(s.pos), q(s.kind), leanSync(s.sync)))
	}
	return "[\n      " + strings.Join(r, ",\n      ") + "]"
}

func emit(b *bytes.Buffer, all []*pkgInfo) {
	fmt.Fprintln(b, "import CanvasModel.C20.FactTypes")
	fmt.Fprintln(b, "/-! GENERATED by tools/facts from the current /repo source on every run of bin/facts-c20 — do not edit.")
	fmt.Fprintln(b, "Package-level variables with their write/read sites and dominating synchronisation, sync.Pool")
	fmt.Fprintln(b, "Get sites with the fields assigned before first use. See tools/facts/main.go for what is out of scope. -/")
	fmt.Fprintln(b, "namespace Canvas.FactsC20")
	fmt.Fprintln(b, "open Canvas.C20")
	fmt.Fprintln(b)
	var names []string
	nvars, nwritten := 0, 0
	for _, p := range all {
		curPkg = p.name
		for _, n := range p.order {
			v := p.vars[n]
			nvars++
			dn := "v_" + p.name + "_" + n
			names = append(names, dn)
			reads := v.reads
			if len(v.writes) == 0 && len(v.addrs) == 0 {
				reads = nil // never written outside initialisation: its reads cannot conflict
			} else {
				nwritten++
			}
			fmt.Fprintf(b, "def %s : VarFact := {\n  qname := %s, pkg := %s, name := %s, typ := %s, pos := %s, nreads := %d,\n  writes := %s,\n  addrs := %s,\n  reads := %s }\n\n",
				dn, q(p.name+"."+v.name), q(p.name), q(v.name), q(v.typ), q(v.pos), len(v.reads), leanSites(v.writes), leanSites(v.addrs), leanSites(reads))
		}
	}
	fmt.Fprintf(b, "/-- all %d package-level variables (%d written or address-taken outside initialisation) -/\n", nvars, nwritten)
	fmt.Fprintf(b, "def vars : List VarFact := [\n  %s]\n\n", strings.Join(names, ",\n  "))
	var gs, ps, sts []string
	for _, p := range all {
		for _, g := range p.gets {
			g.pool = p.name + "." + g.pool
			gs = append(gs, fmt.Sprintf("{ pkg := %s, pool := %s, typ := %s, fn := %s, pos := %s, obj := %s,\n    fields := %s,\n    assigned := %s,\n    whole := %v, stop := %s, initPos := %s,\n    steps := %s }",
				q(p.name), q(g.pool), q(g.typ), q(g.fn), q(g.pos), q(g.obj), qs(g.fields), qs(g.assigned), g.whole, q(g.stop), qs(g.initPos), leanSteps(g.steps)))
		}
		for _, s := range p.puts {
			ps = append(ps, fmt.Sprintf("{ pool := %s, fn := %s, pos := %s, arg := %s, loops := %s, inTail := %v }", q(s.pool), q(s.fn), q(s.pos), q(s.arg), qs(s.loops), s.inTail))
		}
		var tn []string
		for t := range p.structs {
			tn = append(tn, t)
		}
		sort.Strings(tn)
		for _, t := range tn {
			used := false
			for _, g := range p.gets {
				if g.typ == t {
					used = true
				}
			}
			if used {
				sts = append(sts, fmt.Sprintf("(%s, %s)", q(t), qs(p.structs[t])))
			}
		}
	}
	fmt.Fprintf(b, "def getSites : List GetSite := [\n  %s]\n\n", strings.Join(gs, ",\n  "))
	fmt.Fprintf(b, "def putSites : List PutSite := [\n  %s]\n\n", strings.Join(ps, ",\n  "))
	fmt.Fprintf(b, "/-- field lists of the pooled struct types -/\ndef pooledStructs : List (String × List String) := [\n  %s]\n\n", strings.Join(sts, ",\n  "))
	var pfs []string
	for _, p := range all {
		for _, f := range p.putFuncFacts() {
			var ss []string
			for _, st := range f.stmts {
				k := ".other"
				if st[1] == "release" {
					k = ".release"
				} else if st[1] == "return" {
					k = ".ret"
				}
				ss = append(ss, fmt.Sprintf("(%s, %s)", q(st[0]), k))
			}
			pfs = append(pfs, fmt.Sprintf("{ pkg := %s, fn := %s, stmts := [%s] }", q(p.name), q(f.fn), strings.Join(ss, ", ")))
		}
	}
	fmt.Fprintf(b, "/-- top-level statements of every function that returns objects to a pool -/\ndef putFuncs : List PutFunc := [\n  %s]\n\n", strings.Join(pfs, ",\n  "))
	var drs []string
	for _, p := range all {
		for _, d := range p.deferredReleases() {
			drs = append(drs, fmt.Sprintf("{ fn := %s, list := %s, pos := %s, args := %s, deleted := %v, deletionPos := %s }", q(d.fn), q(d.list), q(d.pos), qs(d.args), d.deletionPos != "", q(d.deletionPos)))
		}
	}
	fmt.Fprintf(b, "/-- sites that put objects on a local list released at the end of the function, and the statement\nafter them that takes the same elements out of their container -/\ndef deferredReleases : List DeferredRelease := [\n  %s]\n\n", strings.Join(drs, ",\n  "))
	var pf []string
	for _, p := range all {
		var ks []string
		for k := range p.poolFuncs {
			ks = append(ks, k)
		}
		sort.Strings(ks)
		for _, k := range ks {
			f := strings.SplitN(k, ":", 4)
			pf = append(pf, fmt.Sprintf("(%s, %s, %s, %s)", q(f[0]), f[1], f[2], q(f[3])))
		}
	}
	fmt.Fprintf(b, "/-- functions that take objects from or return them to a pool: (file, first line, last line, name) -/\ndef poolFuncs : List (String × Nat × Nat × String) := [\n  %s]\n\n", strings.Join(pf, ",\n  "))
	var it []string
	for t := range internalTypes {
		it = append(it, t)
	}
	sort.Strings(it)
	fmt.Fprintf(b, "/-- exported helper types whose methods are assumed not to be entry points -/\ndef internalTypes : List String := %s\n\n", qs(it))
}
