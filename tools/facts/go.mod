module facts

go 1.23
