package main

import (
	"fmt"
	"math"
	"runtime"
	"strings"
	"time"

	"github.com/tdewolff/canvas"
	"verifharness/hc"
)

// ---- oracle B: totality and purity ----------------------------------------------------------------
//
// Every public query/derivation is called under recover (and a watchdog) on well-formed paths: builder
// results, shapes, parser output and results of earlier derivations. Receiver and arguments are deep
// copied before and compared bit for bit afterwards.

type callCtx struct {
	p, q *canvas.Path
	pt   hc.P2
	seg  int
	t    float64
	ts   []float64 // SplitAt argument
	dash []float64 // Dash argument
	out  []*canvas.Path
}

type call struct {
	name    string
	inPlace bool // documented as modifying the receiver: run on a copy, no purity check
	f       func(x *callCtx)
}

var caps = []canvas.Capper{canvas.RoundCap, canvas.ButtCap, canvas.SquareCap}
var joins = []canvas.Joiner{canvas.BevelJoin, canvas.RoundJoin, canvas.MiterJoin, canvas.ArcsJoin}

func calls() []call {
	keep := func(x *callCtx, ps ...*canvas.Path) { x.out = append(x.out, ps...) }
	return []call{
		{"Queries", false, func(x *callCtx) {
			p := x.p
			p.Empty()
			p.Len()
			p.Closed()
			p.PointClosed()
			p.HasSubpaths()
			p.Pos()
			p.StartPos()
			p.Coords()
			p.Equals(x.q)
			p.Sane()
			p.Flat()
			p.Segments()
			_ = p.String()
			p.GobEncode()
		}},
		{"Same", false, func(x *callCtx) { x.p.Same(x.q) }},
		{"CCW", false, func(x *callCtx) { x.p.CCW() }},
		{"Filling", false, func(x *callCtx) { x.p.Filling(canvas.NonZero); x.p.Filling(canvas.EvenOdd) }},
		{"FastBounds", false, func(x *callCtx) { x.p.FastBounds() }},
		{"Bounds", false, func(x *callCtx) { x.p.Bounds() }},
		{"Length", false, func(x *callCtx) { x.p.Length() }},
		{"Direction", false, func(x *callCtx) { x.p.Direction(x.seg, x.t) }},
		{"CoordDirections", false, func(x *callCtx) { x.p.CoordDirections() }},
		{"Curvature", false, func(x *callCtx) { x.p.Curvature(x.seg, x.t) }},
		{"Windings", false, func(x *callCtx) { x.p.Windings(x.pt.X, x.pt.Y) }},
		{"Crossings", false, func(x *callCtx) { x.p.Crossings(x.pt.X, x.pt.Y) }},
		{"Contains", false, func(x *callCtx) { x.p.Contains(x.pt.X, x.pt.Y, canvas.EvenOdd) }},
		{"RayIntersections", false, func(x *callCtx) { x.p.RayIntersections(x.pt.X, x.pt.Y) }},
		{"ToSVG", false, func(x *callCtx) { _ = x.p.ToSVG() }},
		{"ToPS", false, func(x *callCtx) { _ = x.p.ToPS() }},
		{"ToPDF", false, func(x *callCtx) { _ = x.p.ToPDF() }},
		{"Scanner", false, func(x *callCtx) {
			for s := x.p.Scanner(); s.Scan(); {
				cmd := s.Cmd()
				s.Values()
				s.Start()
				s.End()
				if cmd == canvas.QuadToCmd || cmd == canvas.CubeToCmd {
					s.CP1()
				}
				if cmd == canvas.CubeToCmd {
					s.CP2()
				}
				if cmd == canvas.ArcToCmd {
					s.Arc()
				}
				s.Path()
			}
		}},
		{"ReverseScanner", false, func(x *callCtx) {
			for s := x.p.ReverseScanner(); s.Scan(); {
				cmd := s.Cmd()
				s.Values()
				s.Start()
				s.End()
				if cmd == canvas.QuadToCmd || cmd == canvas.CubeToCmd {
					s.CP1()
				}
				if cmd == canvas.CubeToCmd {
					s.CP2()
				}
				if cmd == canvas.ArcToCmd {
					s.Arc()
				}
				s.Path()
			}
		}},
		{"Markers", false, func(x *callCtx) { x.p.Markers(x.q, x.q, x.q, true) }},
		{"Copy", false, func(x *callCtx) { keep(x, x.p.Copy()) }},
		{"Flatten", false, func(x *callCtx) { keep(x, x.p.Flatten(0.01)) }},
		{"ReplaceArcs", false, func(x *callCtx) { keep(x, x.p.ReplaceArcs()) }},
		{"XMonotone", false, func(x *callCtx) { keep(x, x.p.XMonotone()) }},
		{"Split", false, func(x *callCtx) { keep(x, x.p.Split()...) }},
		// the pieces returned by Split are capacity-limited views (p.d[i:j:j]): appending to a piece must
		// reallocate and never write into the receiver (anchor "capacity-limited subpath slices")
		{"SplitThenAppend", false, func(x *callCtx) {
			// only calls that APPEND a record: the pieces are views, so the builder's in-place branches
			// (collinear LineTo merge, Close rewriting the last LineTo, MoveTo overwrite) write through by design
			for _, piece := range x.p.Split() {
				e := piece.Pos()
				piece.CubeTo(e.X+123.25, e.Y-77.5, e.X-61.5, e.Y-19.125, e.X+7.75, e.Y+33.5)
				piece.ArcTo(3, 2, 30, false, true, e.X-11.5, e.Y+2.25)
			}
		}},

		{"SplitAt", false, func(x *callCtx) { keep(x, x.p.SplitAt(x.ts...)...) }},
		{"Dash", false, func(x *callCtx) { keep(x, x.p.Dash(x.t, x.dash...)) }},
		{"Reverse", false, func(x *callCtx) { keep(x, x.p.Reverse()) }},
		{"Offset", false, func(x *callCtx) { keep(x, x.p.Offset(0.5-x.t*2, 0.01)) }},
		{"Stroke", false, func(x *callCtx) {
			keep(x, x.p.Stroke(0.3+x.t, caps[x.seg%len(caps)], joins[x.seg%len(joins)], 0.01))
		}},
		{"Settle", false, func(x *callCtx) { keep(x, x.p.Settle(canvas.FillRule(x.seg%2))) }},
		{"And", false, func(x *callCtx) { keep(x, x.p.And(x.q)) }},
		{"Or", false, func(x *callCtx) { keep(x, x.p.Or(x.q)) }},
		{"Xor", false, func(x *callCtx) { keep(x, x.p.Xor(x.q)) }},
		{"Not", false, func(x *callCtx) { keep(x, x.p.Not(x.q)) }},
		{"DivideBy", false, func(x *callCtx) { keep(x, x.p.DivideBy(x.q)) }},
		{"SimplifyVisvalingamWhyatt", false, func(x *callCtx) { keep(x, x.p.SimplifyVisvalingamWhyatt(0.1)) }},
		{"FastClip", false, func(x *callCtx) { keep(x, x.p.FastClip(-2, -2, 3, 3)) }},
		{"Translate", false, func(x *callCtx) { keep(x, x.p.Translate(1, 2)) }},
		{"Scale", false, func(x *callCtx) { keep(x, x.p.Scale(2, 0.5)) }},
		{"Transform", true, func(x *callCtx) { keep(x, x.p.Transform(canvas.Identity.Rotate(30).Scale(2, 1))) }},
		{"Gridsnap", true, func(x *callCtx) { keep(x, x.p.Gridsnap(0.5)) }},
	}
}

// guard runs f under recover with a watchdog. Returns panic message or "" ; hung reports a timeout.
// guard runs f under recover with a two-stage watchdog that is robust against machine load: a call is
// declared hung after 6 s only if the heap has grown by more than 1.5 GB since it started (the runaway
// allocation of a spinning sweep, ~350 MB/s, must be stopped before the memory cap); otherwise it gets
// 25 s of wall time, far more than any terminating call needs even at load 30 (the slowest ones take
// ~0.5 s on an idle machine).
func guard(f func()) (msg string, hung bool) {
	done := make(chan string, 1)
	var m0 runtime.MemStats
	start := time.Now()
	go func() { done <- hc.Try(f) }()
	// fast path: almost every call returns within milliseconds
	select {
	case m := <-done:
		return m, false
	case <-time.After(1 * time.Second):
	}
	runtime.ReadMemStats(&m0)
	tick := time.NewTicker(time.Second)
	defer tick.Stop()
	for {
		select {
		case m := <-done:
			return m, false
		case <-tick.C:
			el := time.Since(start)
			if el >= 25*time.Second {
				return "", true
			}
			if el >= 6*time.Second {
				var m runtime.MemStats
				runtime.ReadMemStats(&m)
				if m.HeapAlloc > m0.HeapAlloc+1500<<20 {
					return "", true
				}
			}
		}
	}
}

// overlapCause: cause predicate for hangs of the sweep, decided from the operands alone. The sweep is
// known not to terminate when contours coincide: "+repeated-subpaths" if two subpaths (of the receiver
// and, for binary operations, the argument) have bit-identical record arrays apart from nothing — the
// same contour twice; "+repeated-segments" if at least two drawing records coincide exactly (same
// start, same record, possibly reversed end points for lines); "" otherwise.
func overlapCause(ps ...*canvas.Path) string {
	var subs []string
	type segKey struct {
		a, b hc.P2
		rest string
	}
	segs := map[segKey]int{}
	repeatedSeg := false
	for _, p := range ps {
		if p == nil {
			continue
		}
		ss, err := hc.Decode(p.Data())
		if err != nil {
			continue
		}
		d := p.Data()
		i := 0
		var cur strings.Builder
		flush := func() {
			if cur.Len() > 0 {
				subs = append(subs, cur.String())
				cur.Reset()
			}
		}
		for _, sg := range ss {
			n := recLen(d[i])
			if sg.Kind == 'M' {
				flush()
			}
			cur.WriteString(hc.DataHex(d[i:i+n]) + ";")
			if sg.Kind != 'M' && !(sg.Kind == 'Z' && sg.P0 == sg.End) {
				a, b := sg.P0, sg.End
				rest := ""
				if sg.Kind == 'L' || sg.Kind == 'Z' {
					if b.X < a.X || (b.X == a.X && b.Y < a.Y) {
						a, b = b, a
					}
				} else {
					rest = hc.DataHex(d[i+1 : i+n-3])
				}
				k := segKey{a, b, rest}
				segs[k]++
				if segs[k] > 1 {
					repeatedSeg = true
				}
			}
			i += n
		}
		flush()
	}
	seen := map[string]bool{}
	for _, s := range subs {
		if len(s) > 70 && seen[s] { // more than a lone MoveTo
			return "+repeated-subpaths"
		}
		seen[s] = true
	}
	if repeatedSeg {
		return "+repeated-segments"
	}
	if subGridVertices(ps...) {
		return "+sub-grid-vertices"
	}
	if overlappingLines(ps...) {
		return "+overlapping-edges"
	}
	return ""
}

// retracesOwnEdge: within ONE subpath two straight records are collinear (exactly, or within 4e-8 at both
// ends of the common part) over more than 1e-6: the path goes back over an edge it has drawn.
func retracesOwnEdge(p *canvas.Path) bool {
	for _, sub := range p.Split() {
		if overlappingLines(sub) {
			return true
		}
	}
	return false
}

// collinearHairpinCurve: a quadratic or cubic record whose control polygon is collinear (every control
// point within 1e-9·size of the line through the end points; for start = end: the control points collinear
// with that point) and folds back (the chord is zero, or a control point projects outside the chord): the
// curve runs out and back along one line, so its stroke outline runs back over itself.
func collinearHairpinCurve(p *canvas.Path) bool {
	segs, err := hc.Decode(p.Data())
	if err != nil {
		return false
	}
	for _, s := range segs {
		var cps []hc.P2
		switch s.Kind {
		case 'Q':
			cps = []hc.P2{s.P1}
		case 'C':
			cps = []hc.P2{s.P1, s.P2}
		default:
			continue
		}
		size := s.P0.Dist(s.End)
		for _, c := range cps {
			size = math.Max(size, math.Max(c.Dist(s.P0), c.Dist(s.End)))
		}
		if size == 0 {
			continue
		}
		tol := 1e-9 * size
		chord := s.End.Sub(s.P0)
		l := chord.Len()
		if l <= tol {
			// start = end: fold-back whenever the control points lie on one line through that point
			ok := len(cps) == 1 || math.Abs(cps[0].Sub(s.P0).Cross(cps[1].Sub(s.P0))) <= tol*size
			if ok {
				return true
			}
			continue
		}
		u := chord.Mul(1 / l)
		collinear, outside := true, false
		for _, c := range cps {
			d := c.Sub(s.P0)
			if math.Abs(u.Cross(d)) > tol {
				collinear = false
			}
			if t := d.Dot(u); t < -tol || t > l+tol {
				outside = true
			}
		}
		if collinear && outside {
			return true
		}
	}
	return false
}

// subGridVertices: two distinct record end points of the operands are closer than 2.5 cells of the
// sweep's snap grid (BentleyOttmannEpsilon = 1e-8), the "sub-grid" class of the C01 residue analysis.
func subGridVertices(ps ...*canvas.Path) bool {
	var pts []hc.P2
	for _, p := range ps {
		if p == nil {
			continue
		}
		if ss, err := hc.Decode(p.Data()); err == nil {
			for _, sg := range ss {
				pts = append(pts, sg.End)
			}
		}
	}
	if len(pts) > 600 {
		pts = pts[:600]
	}
	for i := range pts {
		for j := i + 1; j < len(pts); j++ {
			if pts[i] != pts[j] && math.Abs(pts[i].X-pts[j].X) < 2.5e-8 && math.Abs(pts[i].Y-pts[j].Y) < 2.5e-8 {
				return true
			}
		}
	}
	return false
}

// overlappingLines: two straight records (LineTo or a Close of positive length) of the operands are
// collinear — exactly, or within 4e-8 at both ends of the common part — over a length of more than 1e-6:
// the "coincident edges" on which the sweep's residual failures occur (C01 residue analysis, cause 8).
func overlappingLines(ps ...*canvas.Path) bool {
	type edge struct{ a, b hc.P2 }
	var es []edge
	for _, p := range ps {
		if p == nil {
			continue
		}
		ss, err := hc.Decode(p.Data())
		if err != nil {
			continue
		}
		for _, sg := range ss {
			if (sg.Kind == 'L' || sg.Kind == 'Z') && sg.P0 != sg.End {
				es = append(es, edge{sg.P0, sg.End})
			}
		}
	}
	if len(es) > 400 {
		es = es[:400]
	}
	for i, e := range es {
		d := e.b.Sub(e.a)
		l := d.Len()
		if l == 0 {
			continue
		}
		u := d.Mul(1 / l)
		for j, f := range es {
			if i == j {
				continue
			}
			ta, tb := f.a.Sub(e.a).Dot(u), f.b.Sub(e.a).Dot(u)
			sa, sb := u.Cross(f.a.Sub(e.a)), u.Cross(f.b.Sub(e.a))
			if ta > tb {
				ta, tb, sa, sb = tb, ta, sb, sa
			}
			lo, hi := math.Max(ta, 0), math.Min(tb, l)
			if hi-lo <= 1e-6 || tb <= ta {
				continue
			}
			at := func(t float64) float64 { return sa + (sb-sa)*(t-ta)/(tb-ta) }
			if math.Abs(at(lo)) < 4e-8 && math.Abs(at(hi)) < 4e-8 {
				return true
			}
		}
	}
	return false
}

func cloneF(a []float64) []float64 { return append([]float64(nil), a...) }

// panicClass shortens a panic message into a stable class for the finding kind.
func panicClass(msg string) string {
	msg = strings.SplitN(msg, "\n", 2)[0]
	switch {
	case strings.Contains(msg, "index out of range"):
		return "index-out-of-range"
	case strings.Contains(msg, "slice bounds out of range"):
		return "slice-bounds"
	case strings.Contains(msg, "nil pointer"):
		return "nil-pointer"
	}
	if len(msg) > 40 {
		msg = msg[:40]
	}
	return strings.ReplaceAll(msg, " ", "-")
}

func quietWF(p *canvas.Path) bool {
	if p == nil {
		return false
	}
	tmp := &hc.Ctx{Hist: map[string]int{}}
	return validate(tmp, p, false, nil, "").ok
}

func total(c *hc.Ctx, pool []*canvas.Path) {
	cs := calls()
	// well-formed inputs only
	var in []*canvas.Path
	for _, p := range pool {
		if quietWF(p) {
			in = append(in, p)
		}
	}
	if len(in) == 0 {
		return
	}
	st := structured(c)
	budget := 3 * c.N
	if c.Tier != "quick" {
		budget = 6 * c.N
	}
	var derived []*canvas.Path
	aborted := false
	runOn := func(p *canvas.Path, origin string) {
		if aborted {
			return
		}
		q := in[c.Intn(len(in))]
		if c.Chance(0.3) {
			// open clipping operand whose last edge is collinear with the missing closing edge
			q = openCollinearClip(c, p)
			c.Count("arg:open-collinear-clip")
		}
		d := p.Data()
		x := callCtx{seg: 0, t: float64(c.Intn(5)) / 4}
		if n := p.Len(); n > 0 {
			x.seg = c.Intn(n)
		}
		// query point: level with a vertex (the interesting case for ray casting) or anywhere
		if len(d) > 0 && c.Chance(0.6) {
			segs, _ := hc.Decode(d)
			v := segs[c.Intn(len(segs))].End
			x.pt = hc.P2{X: v.X - float64(c.Intn(4)), Y: v.Y}
		} else {
			x.pt = hc.P2{X: c.GenCoord(), Y: c.GenCoord()}
		}
		x.ts = []float64{float64(c.Intn(8)), float64(c.Intn(4)) / 2, float64(c.Intn(12))}
		dashes := [][]float64{{1, 2}, {2, 1, 0.5}, {1, 0, 2, 3}, {0, 1, 2}, {3}, {0.5, 0.5, 1, 0}}
		x.dash = cloneF(dashes[c.Intn(len(dashes))])
		kind := pathKind(p)
		for _, cl := range cs {
			if c.Only != "" && c.Only != "total" && c.Only != cl.name {
				continue
			}
			recv, backP := tailCopy(p)
			arg, backQ := tailCopy(q)
			snapP, snapQ := cloneF(recv.Data()), cloneF(arg.Data())
			snapBackP, snapBackQ := cloneF(backP), cloneF(backQ)
			ts, dash := cloneF(x.ts), cloneF(x.dash)
			y := x
			y.p, y.q, y.ts, y.dash, y.out = recv, arg, ts, dash, nil
			c.Evals++
			c.Count("call:" + cl.name)
			replay := map[string]any{"method": cl.name, "p": p.String(), "q": q.String(), "point": []float64{x.pt.X, x.pt.Y},
				"seg": x.seg, "t": x.t, "ts": x.ts, "dash": x.dash, "origin": origin, "pdata": hc.DataHex(d), "qdata": hc.DataHex(q.Data()), "shape": kind}
			if cl.name == "Dash" || cl.name == "SplitAt" || cl.name == "Stroke" || cl.name == "Offset" {
				// Dash loops `for pos+d[i] < length`: with a non-finite Length it never returns (and
				// allocates without bound), so the precondition is observed through Length first.
				var l float64
				if m := hc.Try(func() { l = recv.Length() }); m == "" && (math.IsInf(l, 0) || math.IsNaN(l)) {
					if cl.name == "Dash" {
						fail(c, "nonfinite:Length", fmt.Sprintf("Length() = %v on a finite well-formed path (Dash then never terminates)", l), replay)
					}
					continue
				} else if cl.name == "Dash" && l > 1e5 {
					c.Count("skip:Dash-over-1e5-long-path") // 1e5/0.5 dashes: slow by design, not a hang
					continue
				}
			}
			msg, hung := guard(func() { cl.f(&y) })
			if hung {
				cause := overlapCause(p)
				switch cl.name {
				case "And", "Or", "Xor", "Not", "DivideBy":
					cause = overlapCause(p, q)
				}
				fail(c, "hang:"+cl.name+cause, cl.name+" did not return (watchdog: 25 s, or 6 s with more than 1.5 GB of new heap)", replay)
				// the abandoned goroutine cannot be stopped and the sweep allocates ~350 MB/s while it
				// spins: end the totality oracle here, the process exit reclaims it
				aborted = true
				c.Count("total:aborted-after-hang")
				return
			}
			if msg != "" {
				cls := panicClass(msg)
				switch cl.name {
				case "Windings", "Contains", "Crossings", "RayIntersections":
					cls = rayClass(p, x.pt)
				}
				switch cl.name {
				case "Settle":
					if strings.Contains(msg, "buggy intersection code") {
						cls += overlapCause(p)
					}
				case "Offset", "Stroke":
					if strings.Contains(msg, "buggy intersection code") {
						cause := overlapCause(p)
						if cause == "+overlapping-edges" || cause == "+sub-grid-vertices" || cause == "" {
							// decided from the stroked path alone: one subpath runs back over its own straight edge
							// (hairpin / retraced edge), so both sides of the outline repeat edges of each other
							if retracesOwnEdge(p) {
								cause = "+retraces-own-edge"
							} else if collinearHairpinCurve(p) {
								cause = "+collinear-hairpin-curve"
							}
						}
						cls += cause
					}
				case "And", "Or", "Xor", "Not", "DivideBy":
					if strings.Contains(msg, "buggy intersection code") {
						cls += overlapCause(p, q)
					}
				}
				fail(c, "panic:"+cl.name+":"+cls, cl.name+" panicked: "+msg, replay)
				continue
			}
			if !cl.inPlace {
				if !sameData(snapP, recv.Data()) {
					fail(c, "impure:"+cl.name+"-receiver", cl.name+" changed its receiver: "+fmt.Sprint(snapP)+" -> "+fmt.Sprint(recv.Data()), replay)
				}
			}
			if !sameData(snapQ, arg.Data()) || !sameData(snapBackQ[:len(snapQ)], backQ[:len(snapQ)]) {
				fail(c, "impure:"+cl.name+"-path-arg", cl.name+" changed its path argument: "+canvas.NewPathFromData(snapQ).String()+" -> "+canvas.NewPathFromData(backQ[:len(snapQ)]).String(), replay)
			} else if !sameData(snapBackQ, backQ) {
				fail(c, "impure:"+cl.name+"-path-arg-capacity", cl.name+" wrote into the spare capacity of its path argument", replay)
			}
			if !cl.inPlace && sameData(snapP, recv.Data()) && !sameData(snapBackP, backP) {
				fail(c, "impure:"+cl.name+"-receiver-capacity", cl.name+" wrote into the spare capacity of its receiver", replay)
			}
			checkDerived(c, cl.name, p, y.out, replay)
			if !sameData(x.ts, ts) {
				fail(c, "impure:"+cl.name+"-ts-arg", cl.name+" changed the caller's ts slice: "+fmt.Sprint(x.ts)+" -> "+fmt.Sprint(ts), replay)
			}
			if !sameData(x.dash, dash) {
				fail(c, "impure:"+cl.name+"-dashes-arg", cl.name+" changed the caller's dash slice: "+fmt.Sprint(x.dash)+" -> "+fmt.Sprint(dash), replay)
			}
			// aliasing: a result that shares memory with the receiver is not a new path
			for _, o := range y.out {
				if o != nil && len(derived) < budget && c.Chance(0.15) && len(o.Data()) > 0 && len(o.Data()) < 400 && quietWF(o) && moderate(o) {
					derived = append(derived, o.Copy())
				}
			}
		}
	}
	for _, p := range st {
		if quietWF(p) {
			runOn(p, "structured")
		} else {
			c.Count("structured:not-wf")
		}
	}
	for it := 0; it < budget && it < len(in)*2; it++ {
		runOn(in[c.Intn(len(in))], "built")
	}
	// second round: results of earlier derivations as inputs
	n2 := budget / 3
	for it := 0; it < n2 && len(derived) > 0; it++ {
		in = append(in, derived[it%len(derived)])
		runOn(derived[it%len(derived)], "derived")
	}
}

// rayClass: where the query point lies relative to the vertices (independent of the library).
func rayClass(p *canvas.Path, pt hc.P2) string {
	segs, err := hc.Decode(p.Data())
	if err != nil {
		return "undecodable"
	}
	vertex := false
	for _, sub := range hc.Subpaths(segs) {
		last := sub[len(sub)-1]
		if last.Kind != 'Z' && (sub[0].End.Y == pt.Y || last.End.Y == pt.Y) {
			return "level-with-open-endpoint"
		}
		for _, s := range sub {
			if s.End.Y == pt.Y {
				vertex = true
			}
		}
	}
	if vertex {
		return "level-with-vertex"
	}
	return "generic-point"
}

// pathKind: coarse structural class of the receiver, part of the panic kinds so that known findings
// stay narrow ("open", "closed", "mixed"; "+mm" when it has consecutive MoveTos or ends in a MoveTo).
func pathKind(p *canvas.Path) string {
	segs, err := hc.Decode(p.Data())
	if err != nil || len(segs) == 0 {
		return "empty"
	}
	open, closed, lone := 0, 0, 0
	for i, s := range segs {
		if s.Kind == 'M' {
			if i+1 == len(segs) || segs[i+1].Kind == 'M' || segs[i+1].Kind == 'Z' {
				lone++
			}
			// look ahead for the close of this subpath
			j := i + 1
			for j < len(segs) && segs[j].Kind != 'M' && segs[j].Kind != 'Z' {
				j++
			}
			if j < len(segs) && segs[j].Kind == 'Z' {
				closed++
			} else {
				open++
			}
		}
	}
	k := "mixed"
	if closed == 0 {
		k = "open"
	} else if open == 0 {
		k = "closed"
	}
	if lone > 0 {
		k += "+lone-moveto"
	}
	return k
}

// ---- shapes and parser output -----------------------------------------------------------------------

func shapes(c *hc.Ctx) []*canvas.Path {
	var out []*canvas.Path
	dims := []float64{0, 1e-11, 0.5, 1, 2, 3, 7.5, 10, -2}
	dim := func() float64 { return dims[c.Intn(len(dims))] }
	n := c.N / 2
	for it := 0; it < n; it++ {
		var p *canvas.Path
		var desc string
		msg := hc.Try(func() {
			switch c.Intn(13) {
			case 0:
				x, y := dim(), dim()
				desc, p = fmt.Sprintf("Line(%v,%v)", x, y), canvas.Line(x, y)
			case 1:
				r, a, b := dim(), float64(c.Intn(17)-8)*45, float64(c.Intn(17)-8)*45
				desc, p = fmt.Sprintf("Arc(%v,%v,%v)", r, a, b), canvas.Arc(r, a, b)
			case 2:
				rx, ry, rot, a, b := dim(), dim(), float64(c.Intn(12))*30, float64(c.Intn(17)-8)*45, c.Range(-400, 400)
				desc, p = fmt.Sprintf("EllipticalArc(%v,%v,%v,%v,%v)", rx, ry, rot, a, b), canvas.EllipticalArc(rx, ry, rot, a, b)
			case 3:
				w, h := dim(), dim()
				desc, p = fmt.Sprintf("Rectangle(%v,%v)", w, h), canvas.Rectangle(w, h)
			case 4:
				w, h, r := dim(), dim(), dim()
				desc, p = fmt.Sprintf("RoundedRectangle(%v,%v,%v)", w, h, r), canvas.RoundedRectangle(w, h, r)
			case 5:
				w, h, r := dim(), dim(), dim()
				desc, p = fmt.Sprintf("BeveledRectangle(%v,%v,%v)", w, h, r), canvas.BeveledRectangle(w, h, r)
			case 6:
				r := dim()
				desc, p = fmt.Sprintf("Circle(%v)", r), canvas.Circle(r)
			case 7:
				rx, ry := dim(), dim()
				desc, p = fmt.Sprintf("Ellipse(%v,%v)", rx, ry), canvas.Ellipse(rx, ry)
			case 8:
				r := dim()
				desc, p = fmt.Sprintf("Triangle(%v)", r), canvas.Triangle(r)
			case 9:
				k, r, up := c.Intn(9), dim(), c.Bool()
				desc, p = fmt.Sprintf("RegularPolygon(%v,%v,%v)", k, r, up), canvas.RegularPolygon(k, r, up)
			case 10:
				k, d, r, up := c.Intn(9), c.Intn(5), dim(), c.Bool()
				desc, p = fmt.Sprintf("RegularStarPolygon(%v,%v,%v,%v)", k, d, r, up), canvas.RegularStarPolygon(k, d, r, up)
			case 11:
				k, R, r, up := c.Intn(8), dim(), dim(), c.Bool()
				desc, p = fmt.Sprintf("StarPolygon(%v,%v,%v,%v)", k, R, r, up), canvas.StarPolygon(k, R, r, up)
			case 12:
				w, h, nx, ny, r := 10.0+float64(c.Intn(3)), 10.0, 1+c.Intn(3), 1+c.Intn(3), []float64{0.5, 1, 0.25}[c.Intn(3)]
				desc, p = fmt.Sprintf("Grid(%v,%v,%v,%v,%v)", w, h, nx, ny, r), canvas.Grid(w, h, nx, ny, r)
				if p != nil {
					gridCheck(c, p, w, h, nx, ny, r, desc)
				}
			}
		})
		c.Evals++
		name := strings.SplitN(desc, "(", 2)[0]
		c.Count("shape:" + name)
		if msg != "" {
			fail(c, "panic:shape:"+name, desc+" panicked: "+msg, map[string]any{"shape": desc})
			continue
		}
		if p == nil {
			continue
		}
		validate(c, p, true, map[string]any{"shape": desc}, "")
		out = append(out, p)
	}
	// parser output: SVG path strings (absolute commands) from the same generator; the commands are also
	// replayed on the builder to recognise the reversed-merge defect class (see corr)
	for it := 0; it < n; it++ {
		pool := genPool(c)
		var sb strings.Builder
		k := 1 + c.Intn(8)
		b := &canvas.Path{}
		taint := ""
		for i := 0; i < k; {
			o := genOp(c, pool)
			if !strings.ContainsRune("MLQCAZ", rune(o.k)) || (o.k == 'A' && (o.f[0] < 0 || o.f[1] < 0 || math.IsInf(o.f[0], 0) || math.IsInf(o.f[1], 0))) {
				continue
			}
			i++
			switch o.k {
			case 'M', 'L':
				fmt.Fprintf(&sb, "%c%v %v", o.k, o.f[0], o.f[1])
			case 'Q':
				fmt.Fprintf(&sb, "Q%v %v %v %v", o.f[0], o.f[1], o.f[2], o.f[3])
			case 'C':
				fmt.Fprintf(&sb, "C%v %v %v %v %v %v", o.f[0], o.f[1], o.f[2], o.f[3], o.f[4], o.f[5])
			case 'A':
				fmt.Fprintf(&sb, "A%v %v %v %s %s %v %v", o.f[0], o.f[1], o.f[2], hc.B(o.l), hc.B(o.s), o.f[3], o.f[4])
			case 'Z':
				sb.WriteString("z")
			}
			prev := cloneF(b.Data())
			o.apply(b)
			if reversedMerge(prev, b.Data()) {
				taint = "reversed-merge"
			}
		}
		s := sb.String()
		var p *canvas.Path
		var err error
		msg := hc.Try(func() { p, err = canvas.ParseSVGPath(s) })
		c.Evals++
		c.Count("parser:ParseSVGPath")
		if msg != "" {
			fail(c, "panic:ParseSVGPath", "ParseSVGPath panicked: "+msg, map[string]any{"svg": s})
			continue
		}
		if err != nil || p == nil {
			c.Count("parser:error")
			continue
		}
		validate(c, p, true, map[string]any{"svg": s}, taint)
		out = append(out, p)
	}
	return out
}

// gridCheck: Grid(w,h,nx,ny,r) must consist of the outer rectangle and nx*ny cells at
// (r+i(r+dx), r+j(r+dy)) of size dx × dy, all inside the outer rectangle.
func gridCheck(c *hc.Ctx, p *canvas.Path, w, h float64, nx, ny int, r float64, desc string) {
	segs, err := hc.Decode(p.Data())
	if err != nil {
		return
	}
	subs := hc.Subpaths(segs)
	if len(subs) != 1+nx*ny {
		fail(c, "shape:Grid-cell-count", fmt.Sprintf("%s has %d subpaths, want %d", desc, len(subs), 1+nx*ny), map[string]any{"shape": desc, "out": p.String()})
		return
	}
	dx, dy := (w-float64(nx+1)*r)/float64(nx), (h-float64(ny+1)*r)/float64(ny)
	for k, sub := range subs[1:] {
		i, j := k%nx, k/nx
		x0, y0 := r+float64(i)*(r+dx), r+float64(j)*(r+dy)
		minx, miny, maxx, maxy := math.Inf(1), math.Inf(1), math.Inf(-1), math.Inf(-1)
		for _, s := range sub {
			minx, miny = math.Min(minx, s.End.X), math.Min(miny, s.End.Y)
			maxx, maxy = math.Max(maxx, s.End.X), math.Max(maxy, s.End.Y)
		}
		if math.Abs(minx-x0) > 1e-9 || math.Abs(miny-y0) > 1e-9 || math.Abs(maxx-x0-dx) > 1e-9 || math.Abs(maxy-y0-dy) > 1e-9 {
			fail(c, "shape:Grid-cell-position", fmt.Sprintf("%s: cell (%d,%d) spans (%v,%v)-(%v,%v), want (%v,%v)-(%v,%v)", desc, i, j, minx, miny, maxx, maxy, x0, y0, x0+dx, y0+dy),
				map[string]any{"shape": desc, "out": p.String()})
			return
		}
	}
}

// moderate: no value beyond 1e9 in magnitude. Stroke/Offset occasionally return arcs with radii around
// 1e15 (recorded under C04); feeding those back makes Flatten/Dash emit ~1e12 segments, which is slow by
// design and not a totality defect of the method under test.
func moderate(p *canvas.Path) bool {
	for _, v := range p.Data() {
		if math.Abs(v) > 1e9 {
			return false
		}
	}
	return true
}
