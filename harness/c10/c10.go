// C10 — built paths are well-formed; operations on them are total and side-effect free.
//
//  1. correspondence: random construction histories (primitive builder calls, Join/Append of earlier
//     results, optimizeClose) run on the real builder and on the Lean Float model; Data() compared.
//  2. oracle A (validate.go): independent validator of Data() after every builder call, of shapes and of
//     parser output; trace oracle: the built geometry is the requested geometry.
//  3. oracle B (total.go): every public query/derivation under recover on well-formed paths, with deep
//     comparison of receiver and arguments before/after.
package main

import (
	"fmt"
	"math"
	"strings"

	"github.com/tdewolff/canvas"
	"verifharness/hc"
)

func main() { hc.Main("C10", run) }

func run(c *hc.Ctx) {
	pool := []*canvas.Path{}
	if c.Only == "" || c.Only == "regress" {
		regress(c)
		if regressHung {
			c.Count("run:aborted-after-regression-hang")
			return
		}
	}
	if c.Only == "" || c.Only == "corr" {
		pool = corr(c)
	}
	if c.Only == "" || c.Only == "shapes" {
		pool = append(pool, shapes(c)...)
	}
	if c.Only == "" || c.Only == "total" {
		total(c, pool)
	}
}

// ---- generator ---------------------------------------------------------------------------------

type op struct {
	k    byte // M L Q C A B Z O
	f    []float64
	l, s bool
}

func (o op) tokens() string {
	var sb strings.Builder
	sb.WriteByte(o.k)
	switch o.k {
	case 'A':
		sb.WriteString(" " + hc.Hs(o.f[0], o.f[1], o.f[2]) + " " + hc.B(o.l) + " " + hc.B(o.s) + " " + hc.Hs(o.f[3], o.f[4]))
	case 'Z', 'O':
	default:
		sb.WriteString(" " + hc.Hs(o.f...))
	}
	return sb.String()
}

func (o op) String() string {
	switch o.k {
	case 'A':
		return fmt.Sprintf("ArcTo(%v,%v,%v,%v,%v,%v,%v)", o.f[0], o.f[1], o.f[2], o.l, o.s, o.f[3], o.f[4])
	case 'B':
		return fmt.Sprintf("Arc(%v,%v,%v,%v,%v)", o.f[0], o.f[1], o.f[2], o.f[3], o.f[4])
	case 'Z':
		return "Close()"
	case 'O':
		return "optimizeClose()"
	}
	name := map[byte]string{'M': "MoveTo", 'L': "LineTo", 'Q': "QuadTo", 'C': "CubeTo"}[o.k]
	s := make([]string, len(o.f))
	for i, f := range o.f {
		s[i] = fmt.Sprint(f)
	}
	return name + "(" + strings.Join(s, ",") + ")"
}

func (o op) apply(p *canvas.Path) {
	f := o.f
	switch o.k {
	case 'M':
		p.MoveTo(f[0], f[1])
	case 'L':
		p.LineTo(f[0], f[1])
	case 'Q':
		p.QuadTo(f[0], f[1], f[2], f[3])
	case 'C':
		p.CubeTo(f[0], f[1], f[2], f[3], f[4], f[5])
	case 'A':
		p.ArcTo(f[0], f[1], f[2], o.l, o.s, f[3], f[4])
	case 'B':
		p.Arc(f[0], f[1], f[2], f[3], f[4])
	case 'Z':
		p.Close()
	case 'O':
		p.VerifOptimizeClose()
	}
}

type seg struct {
	head string // E | R i | J i j | P i j
	i, j int
	ops  []op
}

func (s seg) tokens() string {
	parts := []string{s.head}
	for _, o := range s.ops {
		parts = append(parts, o.tokens())
	}
	return strings.Join(parts, " ")
}

func (s seg) String() string {
	parts := []string{s.head}
	for _, o := range s.ops {
		parts = append(parts, o.String())
	}
	return strings.Join(parts, ".")
}

// genPool: about six points per history, built so that coincident, collinear (both directions) and
// zero-length situations are frequent; sometimes a point 4e-11 away from another one (inside Epsilon).
func genPool(c *hc.Ctx) []hc.P2 {
	a := hc.P2{X: float64(c.Intn(9) - 4), Y: float64(c.Intn(9) - 4)}
	d := hc.P2{X: float64(c.Intn(7) - 3), Y: float64(c.Intn(7) - 3)}
	if d.X == 0 && d.Y == 0 {
		d.X = 1
	}
	if c.Chance(0.3) {
		d = hc.P2{X: c.GenCoord() / 4, Y: c.GenCoord() / 4}
		if d.X == 0 && d.Y == 0 {
			d.Y = 0.5
		}
	}
	pool := []hc.P2{a, a.Add(d), a.Add(d.Mul(2)), a.Sub(d), {X: c.GenCoord(), Y: c.GenCoord()}, {X: 0, Y: 0}}
	if c.Chance(0.25) {
		pool = append(pool, hc.P2{X: a.X + 4e-11, Y: a.Y - 3e-11})
	}
	if c.Chance(0.5) {
		pool = append(pool, a.Add(hc.P2{X: -d.Y, Y: d.X}))
	}
	return pool
}

func genOp(c *hc.Ctx, pool []hc.P2) op {
	pt := func() hc.P2 {
		if c.Chance(0.85) {
			return pool[c.Intn(len(pool))]
		}
		return hc.P2{X: c.GenCoord(), Y: c.GenCoord()}
	}
	r := c.Intn(100)
	switch {
	case r < 14:
		p := pt()
		return op{k: 'M', f: []float64{p.X, p.Y}}
	case r < 44:
		p := pt()
		return op{k: 'L', f: []float64{p.X, p.Y}}
	case r < 56:
		a, p := pt(), pt()
		return op{k: 'Q', f: []float64{a.X, a.Y, p.X, p.Y}}
	case r < 66:
		a, b, p := pt(), pt(), pt()
		return op{k: 'C', f: []float64{a.X, a.Y, b.X, b.Y, p.X, p.Y}}
	case r < 79:
		radii := []float64{0, 1, 2.5, 5, -3, 10, 0.1, 5, 2.5, 1e-11, math.Inf(1)}
		rx, ry := radii[c.Intn(len(radii))], radii[c.Intn(len(radii))]
		var rot float64
		switch c.Intn(4) {
		case 0:
			rot = 0
		case 1:
			rot = float64(c.Intn(49)-16) * 22.5 // -360 .. 720
		case 2:
			rot = float64(c.Intn(8)) * 45
		default:
			rot = math.Round(c.Range(-400, 800)*100) / 100
		}
		p := pt()
		return op{k: 'A', f: []float64{rx, ry, rot, p.X, p.Y}, l: c.Bool(), s: c.Bool()}
	case r < 83:
		radii := []float64{1, 2, 5, 2, 0.5}
		th := func() float64 {
			if c.Chance(0.7) {
				return float64(c.Intn(33)-16) * 45
			}
			return math.Round(c.Range(-800, 800)*10) / 10
		}
		return op{k: 'B', f: []float64{radii[c.Intn(len(radii))], radii[c.Intn(len(radii))], float64(c.Intn(12)) * 30, th(), th()}}
	case r < 97:
		return op{k: 'Z'}
	default:
		return op{k: 'O'}
	}
}

func hasArc(segs []seg) bool {
	for _, s := range segs {
		for _, o := range s.ops {
			if o.k == 'A' || o.k == 'B' {
				return true
			}
		}
	}
	return false
}

// corr runs the correspondence and the builder oracles; it returns built paths for the totality oracle.
func corr(c *hc.Ctx) []*canvas.Path {
	var keep []*canvas.Path
	nh := c.N
	for it := 0; it < nh; it++ {
		pool := genPool(c)
		nseg := 1 + c.Intn(5)
		var segs []seg
		var res []*canvas.Path
		primitiveOnly := []bool{}
		taints := []string{}
		follows := []int{} // follows[k] = e: segment k starts with a MoveTo to the end point of result e
		for k := 0; k < nseg; k++ {
			s := seg{head: "E"}
			prim := true
			taint := ""
			var p *canvas.Path
			if k > 0 {
				switch r := c.Intn(100); {
				case r < 35:
					s.i, s.j = c.Intn(k), c.Intn(k)
					// prefer a pair made for each other, so that Join takes its smart branch
					var cand []int
					for j, e := range follows {
						if e >= 0 {
							cand = append(cand, j)
						}
					}
					if len(cand) > 0 && c.Chance(0.9) {
						s.j = cand[c.Intn(len(cand))]
						s.i = follows[s.j]
						s.head = fmt.Sprintf("J %d %d", s.i, s.j)
					} else if len(cand) > 0 || c.Chance(0.3) {
						s.head = fmt.Sprintf("J %d %d", s.i, s.j)
					} // else: stay an "E" segment (most of them start at the end of an earlier result)
				case r < 60:
					s.i, s.j = c.Intn(k), c.Intn(k)
					s.head = fmt.Sprintf("P %d %d", s.i, s.j)
				case r < 70:
					s.i = c.Intn(k)
					s.head = fmt.Sprintf("R %d", s.i)
				}
			}
			var before []float64
			var msg string
			switch s.head[0] {
			case 'E':
				p = &canvas.Path{}
			case 'R':
				p = res[s.i].Copy()
				prim = primitiveOnly[s.i]
				taint = taints[s.i]
			case 'J':
				a, b := res[s.i].Copy(), res[s.j].Copy()
				before = append([]float64{}, b.Data()...)
				msg = hc.Try(func() { p = a.Join(b).Copy() })
				prim = false
				taint = taints[s.i]
				if taint == "" {
					taint = taints[s.j]
				}
				jk := joinKind(res[s.i], res[s.j])
				c.Count("seg:Join:" + jk)
				if jk == "smart" && joinReversedMerge(res[s.i], res[s.j]) {
					fail(c, "merge:LineTo-reversed-direction", "Join re-issues the first command of q through LineTo, which merges it into the reversed previous line", map[string]any{"p": res[s.i].String(), "q": res[s.j].String()})
					taint = "reversed-merge"
				}
				if msg == "" && !sameData(before, b.Data()) {
					fail(c, "impure:Join-arg", "Join changed its argument", map[string]any{"p": res[s.i].String(), "q": res[s.j].String()})
				}
			case 'P':
				a, b := res[s.i].Copy(), res[s.j].Copy()
				before = append([]float64{}, b.Data()...)
				msg = hc.Try(func() { p = a.Append(b).Copy() })
				// Append preserves strict well-formedness (theorem append_strict, /repo 7353487): two
				// consecutive MoveTos after Append are a failure again
				prim = primitiveOnly[s.i] && primitiveOnly[s.j]
				taint = taints[s.i]
				if taint == "" {
					taint = taints[s.j]
				}
				c.Count("seg:Append")
				if msg == "" && !sameData(before, b.Data()) {
					fail(c, "impure:Append-arg", "Append changed its argument", map[string]any{"p": res[s.i].String(), "q": res[s.j].String()})
				}
			}
			if msg != "" {
				fail(c, "panic:"+s.head[:1], "Join/Append panicked: "+msg, histReplay(segs, s))
				p = &canvas.Path{}
			}
			if s.head[0] != 'E' {
				c.Evals++
				validate(c, p, prim, histReplay(segs, s), taint)
			}
			follow := -1
			nops := c.Intn(9)
			if s.head[0] == 'E' {
				nops = 1 + c.Intn(10)
				// a segment meant to be joined starts where an earlier result ends
				if k > 0 && c.Chance(0.8) {
					ei := c.Intn(k)
					e := res[ei]
					if d := e.Data(); len(d) > 0 {
						follow = ei
						o := op{k: 'M', f: []float64{d[len(d)-3], d[len(d)-2]}}
						s.ops = append(s.ops, o)
						o.apply(p)
					}
				}
			}
			tr := newTrace(p)
			// scenario for optimizeClose: M a+d, L a+2d, L r, L a, Close, optimizeClose — the closing
			// line a -> a+d continues into the first line, so the start point moves to a+2d
			var script []op
			if s.head[0] == 'E' && len(s.ops) == 0 && c.Chance(0.08) {
				r := pool[4]
				script = []op{{k: 'M', f: []float64{pool[1].X, pool[1].Y}}, {k: 'L', f: []float64{pool[2].X, pool[2].Y}},
					{k: 'L', f: []float64{r.X, r.Y}}, {k: 'L', f: []float64{pool[0].X, pool[0].Y}}, {k: 'Z'}, {k: 'O'}}
				if nops < len(script) {
					nops = len(script) + c.Intn(3)
				}
				c.Count("scenario:optimizeClose")
			} else if s.head[0] == 'E' && len(s.ops) == 0 && c.Chance(0.12) {
				// scenario: reversing collinear LineTos, axis-parallel and diagonal, both directions
				// (regression guard for the dominant-axis test of LineTo, /repo 219108c)
				dirs := []hc.P2{{X: 1, Y: 0}, {X: -1, Y: 0}, {X: 0, Y: 1}, {X: 0, Y: -1}, {X: 1, Y: 1}, {X: -1, Y: -1}, {X: 1, Y: -1}, {X: -1, Y: 1},
					{X: -2, Y: -3}, {X: 3, Y: -2}, {X: -3, Y: 1}, {X: 0.25, Y: -0.5}}
				di := c.Intn(len(dirs))
				d := dirs[di].Mul(float64(1 + c.Intn(4)))
				a := pool[0]
				back := []float64{0, 0.5, -1, 1.5}[c.Intn(4)] // end of the second line as a + back*d: 1.5 extends, the others reverse
				e := a.Add(d.Mul(back))
				script = []op{{k: 'M', f: []float64{a.X, a.Y}}, {k: 'L', f: []float64{a.X + d.X, a.Y + d.Y}}, {k: 'L', f: []float64{e.X, e.Y}}}
				if c.Chance(0.5) {
					script = append(script, op{k: 'Z'})
				}
				if nops < len(script) {
					nops = len(script) + c.Intn(3)
				}
				kind := "diagonal"
				if di < 4 {
					kind = "axis"
				}
				if back > 1 {
					c.Count("scenario:collinear-extension:" + kind)
				} else {
					c.Count("scenario:collinear-reversal:" + kind)
				}
			} else if s.head[0] == 'E' && len(s.ops) == 0 && c.Chance(0.12) {
				// scenario: curves at large coordinates (1e5..1e7: one ulp is 1e-11..2e-9, around Epsilon), a
				// closed curved subpath followed by a closed flat one — the end point of a flattened /
				// converted arc then differs from the record's end point by rounding noise, which replace has
				// to bridge with a LineTo so that the subpath is not split
				sc := []float64{1e5, 1e6, 4e6, 1e7}[c.Intn(4)]
				ox, oy := math.Round(c.Range(-1, 1)*sc), math.Round(c.Range(-1, 1)*sc)
				script = []op{{k: 'M', f: []float64{ox + 9, oy + 57}}, {k: 'L', f: []float64{ox + 30, oy + 40}},
					{k: 'A', f: []float64{float64(5 + c.Intn(40)), float64(5 + c.Intn(40)), float64(c.Intn(12))*15 + c.Range(0, 1), ox + 9 + c.Range(0, 1), oy + 20}, l: c.Bool(), s: c.Bool()}}
				if c.Bool() {
					script = append(script, op{k: 'Q', f: []float64{ox - 5, oy + 30, ox + 2, oy + 45}})
				}
				script = append(script, op{k: 'L', f: []float64{ox + 16, oy + 70}}, op{k: 'Z'},
					op{k: 'M', f: []float64{ox + 100, oy}}, op{k: 'L', f: []float64{ox + 110, oy}}, op{k: 'L', f: []float64{ox + 110, oy + 10}}, op{k: 'Z'})
				nops = len(script)
				c.Count("scenario:large-coordinate-curves")
			} else if follow >= 0 && c.Chance(0.35) {
				// scenario for Join's close repair: q continues p with an OPEN piece and has a later CLOSED
				// subpath (plus, sometimes, a first piece that closes): only the Close of the joined piece
				// may be redirected to p's start, every later Close keeps its own subpath's MoveTo
				a, b, d, e := pool[1], pool[2], pool[4], pool[3]
				script = []op{{k: 'L', f: []float64{a.X, a.Y}}}
				if c.Chance(0.3) {
					script = append(script, op{k: 'L', f: []float64{b.X, b.Y}}, op{k: 'Z'})
				}
				script = append(script, op{k: 'M', f: []float64{d.X + 20, d.Y + 20}}, op{k: 'L', f: []float64{e.X + 31, e.Y + 20}},
					op{k: 'L', f: []float64{e.X + 30, e.Y + 33}}, op{k: 'Z'})
				if nops < len(script) {
					nops = len(script) + c.Intn(2)
				}
				c.Count("scenario:join-open-then-closed-subpath")
			}
			for n := 0; n < nops; n++ {
				o := genOp(c, pool)
				if n < len(script) {
					o = script[n]
				}
				if o.k == 'O' {
					prim = false // optimizeClose moves the start point: outside the trace oracle
				}
				prev := append([]float64{}, p.Data()...)
				s.ops = append(s.ops, o)
				if msg := hc.Try(func() { o.apply(p) }); msg != "" {
					fail(c, "panic:builder:"+string(o.k), o.String()+" panicked: "+msg, histReplay(segs, s))
					break
				}
				eff := effect(prev, p.Data())
				c.Count("op:" + string(o.k) + ":" + eff)
				if eff == "rewrote(L->L)" && len(prev) >= 8 {
					n := len(prev)
					if reversedMerge(prev, p.Data()) {
						fail(c, "merge:LineTo-reversed-direction", fmt.Sprintf("%s at %v after a line from %v: the reversing line replaced the previous one", o.String(), hc.P2{X: prev[n-3], Y: prev[n-2]}, hc.P2{X: prev[n-7], Y: prev[n-6]}), histReplay(segs, s))
						taint = "reversed-merge"
					} else {
						c.Count("merge:same-direction")
					}
				}
				c.Evals++
				validate(c, p, prim, histReplay(segs, s), taint)
				tr.request(o, prev)
			}
			if !tr.skip {
				c.Evals++
				tr.check(c, p, histReplay(segs, s), taint)
			}
			segs = append(segs, s)
			res = append(res, p)
			primitiveOnly = append(primitiveOnly, prim)
			taints = append(taints, taint)
			follows = append(follows, follow)

			// one correspondence case per prefix: the model must reproduce every intermediate result
			toks := make([]string, len(segs))
			for i := range segs {
				toks[i] = segs[i].tokens()
			}
			mode := "="
			if hasArc(segs) {
				mode = "~"
			}
			hist := strings.Join(toks, " | ")
			c.Case("C10 "+hist, mode, hc.DataHex(p.Data()))
			c.Distinct(hc.DataHex(p.Data()))
			deriverCases(c, p, hist, mode)
			if it < 3 && k == nseg-1 {
				c.Sample(fmt.Sprintf("history %v -> %q", segs, p.String()))
			}
		}
		c.Count(fmt.Sprintf("history:segments=%d", nseg))
		if len(keep) < 4*c.N {
			keep = append(keep, res...)
		}
	}
	return keep
}

// fail records at most three failing inputs per kind (all are counted in the histogram), so that a
// frequent class cannot crowd the others out of the report.
var failSeen = map[*hc.Ctx]map[string]int{}

func fail(c *hc.Ctx, kind, desc string, replay any) {
	m := failSeen[c]
	if m == nil {
		m = map[string]int{}
		failSeen[c] = m
	}
	m[kind]++
	if m[kind] <= 3 {
		c.Fail(kind, desc, replay)
	} else {
		c.Count("FAIL:" + kind)
	}
}

func histReplay(segs []seg, cur seg) map[string]any {
	h := []string{}
	for _, s := range segs {
		h = append(h, s.String())
	}
	h = append(h, cur.String())
	return map[string]any{"history": h}
}

func sameData(a, b []float64) bool {
	if len(a) != len(b) {
		return false
	}
	for i := range a {
		if math.Float64bits(a[i]) != math.Float64bits(b[i]) && !(a[i] != a[i] && b[i] != b[i]) {
			return false
		}
	}
	return true
}

// reversedMerge: a LineTo was merged into the previous LineTo (same length, last record rewritten)
// although it runs against the previous direction (independent check with the dot product).
func reversedMerge(prev, cur []float64) bool {
	n := len(prev)
	if n < 8 || len(cur) != n || prev[n-1] != 2 || cur[n-1] != 2 || sameData(prev, cur) {
		return false
	}
	da := hc.P2{X: prev[n-3] - prev[n-7], Y: prev[n-2] - prev[n-6]}
	db := hc.P2{X: cur[n-3] - prev[n-3], Y: cur[n-2] - prev[n-2]}
	return da.Dot(db) < 0
}

// effect classifies what a builder call did to the data array (branch histogram).
func effect(prev, cur []float64) string {
	last := func(d []float64) string {
		if len(d) == 0 {
			return "-"
		}
		return map[float64]string{1: "M", 2: "L", 4: "Q", 8: "C", 16: "A", 32: "Z"}[d[len(d)-1]]
	}
	switch {
	case sameData(prev, cur):
		return "dropped/noop"
	case len(cur) < len(prev) && last(cur) == "Z" && last(prev) == "Z":
		return "moved-start(removed first L)"
	case len(cur) < len(prev):
		return "removed(" + last(prev) + ")"
	case len(cur) == len(prev):
		return "rewrote(" + last(prev) + "->" + last(cur) + ")"
	default:
		// how many records were added
		n, i := 0, len(prev)
		for i < len(cur) {
			k := map[float64]int{1: 4, 2: 4, 4: 6, 8: 8, 16: 8, 32: 4}[cur[i]]
			if k == 0 {
				break
			}
			i += k
			n++
		}
		return fmt.Sprintf("added%d(%s)", n, last(cur))
	}
}

// joinReversedMerge: Join's smart branch re-issues q's first drawing command on p; replay that call on a
// copy and test the merge with the independent dot-product criterion.
func joinReversedMerge(p, q *canvas.Path) bool {
	segs, err := hc.Decode(q.Data())
	if err != nil || len(segs) < 2 {
		return false
	}
	t := p.Copy()
	prev := append([]float64{}, t.Data()...)
	f := segs[1]
	switch f.Kind {
	case 'L':
		t.LineTo(f.End.X, f.End.Y)
	case 'Q':
		t.QuadTo(f.P1.X, f.P1.Y, f.End.X, f.End.Y)
	case 'C':
		t.CubeTo(f.P1.X, f.P1.Y, f.P2.X, f.P2.Y, f.End.X, f.End.Y)
	case 'A':
		t.ArcTo(f.Rx, f.Ry, f.Phi*180/math.Pi, f.Large, f.Sweep, f.End.X, f.End.Y)
	default:
		return false
	}
	return reversedMerge(prev, t.Data())
}

func joinKind(p, q *canvas.Path) string {
	pd, qd := p.Data(), q.Data()
	switch {
	case len(qd) <= 4:
		return "q-empty"
	case len(pd) <= 4:
		return "p-empty"
	case pd[len(pd)-1] == canvas.CloseCmd:
		return "raw(p-closed)"
	case !canvas.Equal(pd[len(pd)-3], qd[1]) || !canvas.Equal(pd[len(pd)-2], qd[2]):
		return "raw(apart)"
	}
	return "smart"
}

// deriverCases: the modelled derivers on the result of the history — Reverse, Split and the splice
// driver replace with the real replacements recorded through the hook (Flatten, ReplaceArcs, XMonotone).
func deriverCases(c *hc.Ctx, p *canvas.Path, hist, mode string) {
	if len(p.Data()) == 0 || len(hist) > 6000 {
		return
	}
	var rv *canvas.Path
	if msg := hc.Try(func() { rv = p.Copy().Reverse() }); msg == "" {
		c.Case("RV "+hist, mode, hc.DataHex(rv.Data()))
		c.Count("case:RV")
		// which branches of Reverse the input reaches
		if segs, err := hc.Decode(p.Data()); err == nil {
			for _, sub := range hc.Subpaths(segs) {
				last := sub[len(sub)-1]
				switch {
				case len(sub) == 1:
					c.Count("RV:branch:lone-moveto")
				case last.Kind != 'Z':
					c.Count("RV:branch:open-subpath")
				default:
					if near(last.P0, last.End) {
						c.Count("RV:branch:closed,zero-length-close(no-line-emitted)")
					} else {
						c.Count("RV:branch:closed,close-becomes-line")
					}
					if len(sub) > 2 && sub[1].Kind == 'L' {
						c.Count("RV:branch:closed,first-line-becomes-close")
					} else {
						c.Count("RV:branch:closed,first-segment-curve(close-appended)")
					}
					for _, s := range sub[2 : len(sub)-1] {
						if s.Kind == 'L' && near(s.End, sub[0].End) {
							c.Count("RV:branch:closed,revisits-first-point")
						}
					}
				}
			}
		}
	}
	var ps []*canvas.Path
	if msg := hc.Try(func() { ps = p.Copy().Split() }); msg == "" {
		parts := make([]string, len(ps))
		for i, q := range ps {
			parts[i] = hc.DataHex(q.Data())
		}
		c.Case("SP "+hist, mode, strings.Join(parts, " | "))
		c.Count(fmt.Sprintf("case:SP:pieces=%d", min(len(ps), 4)))
	}
	curved := false
	for i, d := 0, p.Data(); i < len(d); i += recLen(d[i]) {
		if d[i] == 4 || d[i] == 8 || d[i] == 16 {
			curved = true
		}
	}
	if !curved {
		return
	}
	for _, m := range []string{"flatten", "arcs", "xmono"} {
		var out *canvas.Path
		var reps []canvas.VerifRep
		tol := []float64{0.5, 0.1, 2}[c.Intn(3)]
		if msg := hc.Try(func() { out, reps = p.Copy().VerifReplaceTrace(m, tol) }); msg != "" || len(reps) == 0 {
			continue
		}
		var sb strings.Builder
		sb.WriteString("RP " + hist)
		for _, r := range reps {
			sb.WriteString(" # " + hc.Hs(r.Start.X, r.Start.Y) + " " + hc.DataHex(r.Rec) + " :")
			if len(r.Q) > 0 {
				sb.WriteString(" " + hc.DataHex(r.Q))
			}
		}
		if sb.Len() > 12000 {
			c.Count("skip:RP-line-too-long")
			continue
		}
		c.Case(sb.String(), mode, hc.DataHex(out.Data()))
		c.Count("case:RP:" + m)
		c.Count(fmt.Sprintf("RP:replacements=%d", min(len(reps), 5)))
		for _, r := range reps {
			switch {
			case len(r.Q) <= 4:
				c.Count("RP:branch:empty-replacement")
			case len(r.Q) == 8:
				c.Count("RP:branch:one-record-replacement")
			default:
				c.Count("RP:branch:multi-record-replacement")
			}
		}
		if n0, n1 := strings.Count(p.String(), "M"), strings.Count(out.String(), "M"); n1 != n0 {
			c.Count("RP:result-subpath-count-changed")
		}
		// the public methods are exactly the driver with these callbacks
		var pub *canvas.Path
		switch m {
		case "flatten":
			pub = p.Copy().Flatten(tol)
		case "arcs":
			pub = p.Copy().ReplaceArcs()
		case "xmono":
			pub = p.Copy().XMonotone()
		}
		if !sameData(pub.Data(), out.Data()) {
			fail(c, "hook:replace-trace-differs:"+m, "the traced replace run differs from the public method", map[string]any{"p": p.String()})
		}
		checkDerived(c, map[string]string{"flatten": "Flatten", "arcs": "ReplaceArcs", "xmono": "XMonotone"}[m], p, []*canvas.Path{pub},
			map[string]any{"p": p.String(), "pdata": hc.DataHex(p.Data()), "history": hist})
	}
}
