package main

import (
	"fmt"
	"math"

	"github.com/tdewolff/canvas"
	"verifharness/hc"
)

// regress replays the minimised inputs of the repaired C10 defects first, under the same failure
// kinds the generators use: a recurrence is reported whatever the seed generates.
func regress(c *hc.Ctx) {
	P := func(s string) *canvas.Path { return canvas.MustParseSVGPath(s) }
	run := func(kind, desc string, f func() string) {
		c.Evals++
		c.Count("regress:" + kind)
		var bad string
		msg, hung := guard(func() { bad = f() })
		switch {
		case hung:
			fail(c, "hang:"+kind, desc+" did not return within 10s", map[string]any{"regress": desc})
		case msg != "":
			fail(c, kind, desc+" panicked: "+msg, map[string]any{"regress": desc})
		case bad != "":
			fail(c, kind, desc+": "+bad, map[string]any{"regress": desc})
		}
	}
	build := func(ops ...op) *canvas.Path {
		p := &canvas.Path{}
		for _, o := range ops {
			o.apply(p)
		}
		return p
	}
	M := func(x, y float64) op { return op{k: 'M', f: []float64{x, y}} }
	L := func(x, y float64) op { return op{k: 'L', f: []float64{x, y}} }
	Z := op{k: 'Z'}
	want := func(p *canvas.Path, s string) string {
		if p.String() != s {
			return "built " + p.String() + ", want " + s
		}
		return ""
	}
	// 219108c: LineTo merged a reversing collinear line
	run("merge:LineTo-reversed-direction", "M0 0 L-2 0 L0 0", func() string { return want(build(M(0, 0), L(-2, 0), L(0, 0)), "M0 0L-2 0L0 0") })
	run("merge:LineTo-reversed-direction", "M0 0 L0 -2 L0 3", func() string { return want(build(M(0, 0), L(0, -2), L(0, 3)), "M0 0L0 -2L0 3") })
	run("merge:LineTo-reversed-direction", "M0 0 L-2 -3 L2 3", func() string { return want(build(M(0, 0), L(-2, -3), L(2, 3)), "M0 0L-2 -3L2 3") })
	// 60bb9c2: Close after a bare MoveTo re-opened the previous open subpath
	run("trace:built-not-requested", "L3 4 M-13.783 4 Close L17.072 7", func() string {
		return want(build(L(3, 4), M(-13.783, 4), Z, L(17.072, 7)), "M0 0L3 4M-13.783 4L17.072 7")
	})
	// 83194f5: Append left two consecutive MoveTos
	run("wf:consecutive-moveto", "(M0 0L1 1M5 5).Append(M2 2L3 3)", func() string {
		return want(build(M(0, 0), L(1, 1), M(5, 5)).Append(P("M2 2L3 3")), "M0 0L1 1M2 2L3 3")
	})
	// d70f6ff: replace indexed past the array
	for _, s := range []string{"M0 0L1 1M4 -4C1 -3 7 -5 4 -4z", "M0 0L1 0L1 1zM4 -4C1 -3 7 -5 4 -4z", "M0 0L1 0L1 1zM4 -4C4 -4 4.0000000002 -4 4 -4z"} {
		s := s
		run("panic:Flatten:index-out-of-range", s+" .Flatten(0.01)", func() string { P(s).Flatten(0.01); return "" })
	}
	// d239a7e: optimizeInnerBend read past the array
	run("panic:Stroke:index-out-of-range", "M0 0L-2 1C-4 -1 -2 1 -2 1L-6 -3 .Stroke", func() string {
		P("M0 0L-2 1C-4 -1 -2 1 -2 1L-6 -3").Stroke(0.3, canvas.SquareCap, canvas.MiterJoin, 0.01)
		return ""
	})
	// b0e3198: boolean operations closed the caller's q in place
	for name, f := range map[string]func(p, q *canvas.Path) *canvas.Path{
		"And": (*canvas.Path).And, "Or": (*canvas.Path).Or, "Xor": (*canvas.Path).Xor, "Not": (*canvas.Path).Not, "DivideBy": (*canvas.Path).DivideBy} {
		name, f := name, f
		run("impure:"+name+"-path-arg", "(M1 -1L3 -1L3 1L1 1z)."+name+"(M0 0L2 0L2 2L0 0)", func() string {
			q := P("M0 0L2 0L2 2L0 0")
			f(P("M1 -1L3 -1L3 1L1 1z"), q)
			return want(q, "M0 0L2 0L2 2L0 0")
		})
	}
	// 2c6f66f / a6207f9: SplitAt sorted and Dash rewrote the caller's slices
	run("impure:SplitAt-ts-arg", "SplitAt(3,1,2)", func() string {
		ts := []float64{3, 1, 2}
		P("M0 0L20 0").SplitAt(ts...)
		if fmt.Sprint(ts) != "[3 1 2]" {
			return "ts is now " + fmt.Sprint(ts)
		}
		return ""
	})
	run("impure:Dash-dashes-arg", "Dash(0, 1,0,2,3)", func() string {
		d := []float64{1, 0, 2, 3}
		P("M0 0L20 0").Dash(0, d...)
		if fmt.Sprint(d) != "[1 0 2 3]" {
			return "dashes are now " + fmt.Sprint(d)
		}
		return ""
	})
	// 4102be9: Length of a quadratic with a collinear outside control point was +Inf
	run("nonfinite:Length", "M-1 2Q-2.2575 2 1.515 2 .Length()", func() string {
		if l := P("M-1 2Q-2.2575 2 1.515 2").Length(); math.IsInf(l, 0) || math.IsNaN(l) {
			return fmt.Sprint("Length() = ", l)
		}
		return ""
	})
	// feae37f: ellipseSplit panicked on eccentric arcs
	run("panic:SplitAt:theta-not-in-elliptic-arc-range-for-spli", "eccentric arc .SplitAt(2,1.5,2)", func() string {
		P("M1 0A10 0.1 44.99999999999995 1 0 3 2A2 0.5 30.000000000000014 0 1 2.950268334707519 1.7346182357206776M8 -2.501L1 0M3 -2L0 0M3 0L0 0").SplitAt(2, 1.5, 2)
		return ""
	})
	run("panic:Dash:theta-not-in-elliptic-arc-range-for-spli", "eccentric arc .Dash(0.75, .5,.5,1,0)", func() string {
		P("M0 0C1 3 -6 16.058 3.695 2.7525A28.459916977855222 0.5691983395571045 159.75000000000009 1 1 -9.379 8.75A2 2 0 1 0 -9.6699153754479 8.545541249700406M0.7525 0.30500000000000016L1.2475 5.695M1 3L0.505 -2.3899999999999997").Dash(0.75, 0.5, 0.5, 1, 0)
		return ""
	})
}
