package main

import (
	"fmt"
	"math"
	"strconv"
	"strings"

	"github.com/tdewolff/canvas"
	"verifharness/hc"
)

// regress replays the minimised inputs of the repaired C10 defects first, under the same failure
// kinds the generators use: a recurrence is reported whatever the seed generates.
// regressHung: a regression input did not return; the rest of the run is skipped (see guard).
var regressHung bool

func regress(c *hc.Ctx) {
	P := func(s string) *canvas.Path { return canvas.MustParseSVGPath(s) }
	run := func(kind, desc string, f func() string) {
		if regressHung {
			return
		}
		c.Evals++
		c.Count("regress:" + kind)
		var bad string
		msg, hung := guard(func() { bad = f() })
		switch {
		case hung:
			regressHung = true // the abandoned goroutine keeps spinning (and possibly allocating): stop here
			fail(c, "hang:"+kind, desc+" did not return (watchdog)", map[string]any{"regress": desc})
		case msg != "":
			fail(c, kind, desc+" panicked: "+msg, map[string]any{"regress": desc})
		case bad != "":
			fail(c, kind, desc+": "+bad, map[string]any{"regress": desc})
		}
	}
	build := func(ops ...op) *canvas.Path {
		p := &canvas.Path{}
		for _, o := range ops {
			o.apply(p)
		}
		return p
	}
	M := func(x, y float64) op { return op{k: 'M', f: []float64{x, y}} }
	L := func(x, y float64) op { return op{k: 'L', f: []float64{x, y}} }
	Z := op{k: 'Z'}
	want := func(p *canvas.Path, s string) string {
		if p.String() != s {
			return "built " + p.String() + ", want " + s
		}
		return ""
	}
	// 219108c: LineTo merged a reversing collinear line
	run("merge:LineTo-reversed-direction", "M0 0 L-2 0 L0 0", func() string { return want(build(M(0, 0), L(-2, 0), L(0, 0)), "M0 0L-2 0L0 0") })
	run("merge:LineTo-reversed-direction", "M0 0 L0 -2 L0 3", func() string { return want(build(M(0, 0), L(0, -2), L(0, 3)), "M0 0L0 -2L0 3") })
	run("merge:LineTo-reversed-direction", "M0 0 L-2 -3 L2 3", func() string { return want(build(M(0, 0), L(-2, -3), L(2, 3)), "M0 0L-2 -3L2 3") })
	// 58c03cc: Close after a bare MoveTo re-opened the previous open subpath
	run("trace:built-not-requested", "L3 4 M-13.783 4 Close L17.072 7", func() string {
		return want(build(L(3, 4), M(-13.783, 4), Z, L(17.072, 7)), "M0 0L3 4M-13.783 4L17.072 7")
	})
	// 7353487: Append left two consecutive MoveTos
	run("wf:consecutive-moveto", "(M0 0L1 1M5 5).Append(M2 2L3 3)", func() string {
		return want(build(M(0, 0), L(1, 1), M(5, 5)).Append(P("M2 2L3 3")), "M0 0L1 1M2 2L3 3")
	})
	// 6dcb309: replace indexed past the array
	for _, s := range []string{"M0 0L1 1M4 -4C1 -3 7 -5 4 -4z", "M0 0L1 0L1 1zM4 -4C1 -3 7 -5 4 -4z", "M0 0L1 0L1 1zM4 -4C4 -4 4.0000000002 -4 4 -4z"} {
		s := s
		run("panic:Flatten:index-out-of-range", s+" .Flatten(0.01)", func() string { P(s).Flatten(0.01); return "" })
	}
	// 1b74b9e: optimizeInnerBend read past the array
	run("panic:Stroke:index-out-of-range", "M0 0L-2 1C-4 -1 -2 1 -2 1L-6 -3 .Stroke", func() string {
		P("M0 0L-2 1C-4 -1 -2 1 -2 1L-6 -3").Stroke(0.3, canvas.SquareCap, canvas.MiterJoin, 0.01)
		return ""
	})
	// 255bd73: boolean operations closed the caller's q in place
	for name, f := range map[string]func(p, q *canvas.Path) *canvas.Path{
		"And": (*canvas.Path).And, "Or": (*canvas.Path).Or, "Xor": (*canvas.Path).Xor, "Not": (*canvas.Path).Not, "DivideBy": (*canvas.Path).DivideBy} {
		name, f := name, f
		run("impure:"+name+"-path-arg", "(M1 -1L3 -1L3 1L1 1z)."+name+"(M0 0L2 0L2 2L0 0)", func() string {
			q := P("M0 0L2 0L2 2L0 0")
			f(P("M1 -1L3 -1L3 1L1 1z"), q)
			return want(q, "M0 0L2 0L2 2L0 0")
		})
	}
	// 6f95aa6 / a6207f9: SplitAt sorted and Dash rewrote the caller's slices
	run("impure:SplitAt-ts-arg", "SplitAt(3,1,2)", func() string {
		ts := []float64{3, 1, 2}
		P("M0 0L20 0").SplitAt(ts...)
		if fmt.Sprint(ts) != "[3 1 2]" {
			return "ts is now " + fmt.Sprint(ts)
		}
		return ""
	})
	run("impure:Dash-dashes-arg", "Dash(0, 1,0,2,3)", func() string {
		d := []float64{1, 0, 2, 3}
		P("M0 0L20 0").Dash(0, d...)
		if fmt.Sprint(d) != "[1 0 2 3]" {
			return "dashes are now " + fmt.Sprint(d)
		}
		return ""
	})
	// e51fcfc: Length of a quadratic with a collinear outside control point was +Inf
	run("nonfinite:Length", "M-1 2Q-2.2575 2 1.515 2 .Length()", func() string {
		if l := P("M-1 2Q-2.2575 2 1.515 2").Length(); math.IsInf(l, 0) || math.IsNaN(l) {
			return fmt.Sprint("Length() = ", l)
		}
		return ""
	})
	// fc041fc: ellipseSplit panicked on eccentric arcs
	run("panic:SplitAt:theta-not-in-elliptic-arc-range-for-spli", "eccentric arc .SplitAt(2,1.5,2)", func() string {
		P("M1 0A10 0.1 44.99999999999995 1 0 3 2A2 0.5 30.000000000000014 0 1 2.950268334707519 1.7346182357206776M8 -2.501L1 0M3 -2L0 0M3 0L0 0").SplitAt(2, 1.5, 2)
		return ""
	})
	run("panic:Dash:theta-not-in-elliptic-arc-range-for-spli", "eccentric arc .Dash(0.75, .5,.5,1,0)", func() string {
		P("M0 0C1 3 -6 16.058 3.695 2.7525A28.459916977855222 0.5691983395571045 159.75000000000009 1 1 -9.379 8.75A2 2 0 1 0 -9.6699153754479 8.545541249700406M0.7525 0.30500000000000016L1.2475 5.695M1 3L0.505 -2.3899999999999997").Dash(0.75, 0.5, 0.5, 1, 0)
		return ""
	})
	// round-2 seeded classes (no defect in the current tree; fixed inputs make a recurrence seed-independent)
	// boolean operations must not rewrite an OPEN clipping operand whose last edge is collinear with
	// the missing closing edge (Close's in-place branch on a view of the caller's memory)
	for name, f := range map[string]func(p, q *canvas.Path) *canvas.Path{
		"And": (*canvas.Path).And, "Or": (*canvas.Path).Or, "Xor": (*canvas.Path).Xor, "Not": (*canvas.Path).Not, "DivideBy": (*canvas.Path).DivideBy} {
		name, f := name, f
		run("impure:"+name+"-path-arg", "(M0 0L20 0L20 20L0 20z)."+name+"(M2 2L12 2L12 12L7 7)", func() string {
			q, back := tailCopy(P("M2 2L12 2L12 12L7 7"))
			snap := cloneF(back)
			f(P("M0 0L20 0L20 20L0 20z"), q)
			if !sameData(snap, back) {
				return "q is now " + canvas.NewPathFromData(back[:len(q.Data())]).String()
			}
			return ""
		})
	}
	// Join repairs only the Close of the joined piece; a Close of a later subpath of q keeps its own start
	run("wf:close-not-at-start", "(M0 0L10 0).Join(M10 0L10 10M20 20L30 20L30 30z)", func() string {
		bad, _ := framing(P("M0 0L10 0").Join(P("M10 0L10 10M20 20L30 20L30 30z")).Data())
		return bad
	})
	for _, s := range []string{"M0 0Q5 5 10 0L5 -5M20 0L30 0L30 10z", "M0 0L10 0Q12 8 5 9zM20 20L30 20L30 30z", "M0 0C3 6 8 -6 10 0L12 5M20 20L30 20Q33 27 30 30zM-20 0L-30 1L-25 9z"} {
		s := s
		for name, f := range map[string]func(*canvas.Path) *canvas.Path{
			"Flatten":     func(p *canvas.Path) *canvas.Path { return p.Flatten(0.01) },
			"ReplaceArcs": (*canvas.Path).ReplaceArcs, "XMonotone": (*canvas.Path).XMonotone, "Reverse": (*canvas.Path).Reverse} {
			name, f := name, f
			run("derived-wf:"+name, s+" ."+name, func() string {
				in := P(s)
				out := f(in)
				if bad, _ := framing(out.Data()); bad != "" {
					return bad + " in " + out.String()
				}
				_, ci := framing(in.Data())
				_, co := framing(out.Data())
				a, b := drawnSubpaths(in.Data(), ci), drawnSubpaths(out.Data(), co)
				if name == "Reverse" {
					for i, j := 0, len(b)-1; i < j; i, j = i+1, j-1 {
						b[i], b[j] = b[j], b[i]
					}
				}
				if fmt.Sprint(a) != fmt.Sprint(b) {
					return fmt.Sprintf("subpath structure %v -> %v in %s", a, b, out.String())
				}
				return ""
			})
		}
	}
	// replace keeps an arc with large coordinates in one subpath (rounding noise at the end of the replacement)
	for _, s := range []string{"M100009 100057L100030 100040A25 17 33.5 0 1 100009.3 100020L100016 100070z", "M-737991 57L-737970 40A25 17 33.5 1 0 -737990.7 20L-737984 70zM10 0L20 0L20 10z",
		"M9009 57L9030 40A12 30 75.25 0 0 9009.6 20Q8995 30 9002 45L9016 70z"} {
		s := s
		for name, f := range map[string]func(*canvas.Path) *canvas.Path{
			"Flatten":     func(p *canvas.Path) *canvas.Path { return p.Flatten(0.01) },
			"ReplaceArcs": (*canvas.Path).ReplaceArcs, "XMonotone": (*canvas.Path).XMonotone} {
			name, f := name, f
			run("derived-structure:"+name, s+" ."+name, func() string {
				in := P(s)
				out := f(in)
				if bad, _ := framing(out.Data()); bad != "" {
					return bad + " in " + out.String()
				}
				_, ci := framing(in.Data())
				_, co := framing(out.Data())
				if a, b := drawnSubpaths(in.Data(), ci), drawnSubpaths(out.Data(), co); fmt.Sprint(a) != fmt.Sprint(b) {
					return fmt.Sprintf("subpath structure %v -> %v in %s", a, b, out.String())
				}
				return ""
			})
		}
	}
	// Reverse of a closed subpath that revisits its own first point
	run("derived-wf:Reverse", "M0 0L10 5L10 -5L0 0L-10 8L-10 -2z .Reverse", func() string {
		out := P("M0 0L10 5L10 -5L0 0L-10 8L-10 -2z").Reverse()
		bad, co := framing(out.Data())
		if bad != "" {
			return bad + " in " + out.String()
		}
		if fmt.Sprint(co) != "[true]" {
			return "subpath structure [true] -> " + fmt.Sprint(co) + " in " + out.String()
		}
		return ""
	})
	// 43a429d: Translate and Scale transformed the receiver in place (and Grid accumulated the offsets of
	// its shared cell)
	run("impure:Translate-receiver", "Rectangle(1,1).Translate(1,2)", func() string {
		p, back := tailCopy(canvas.Rectangle(1, 1))
		snap := cloneF(back)
		q := p.Translate(1, 2)
		if !sameData(snap, back) {
			return "receiver is now " + p.String()
		}
		return want(q, "M1 2L2 2L2 3L1 3z")
	})
	run("impure:Scale-receiver", "Rectangle(1,1).Scale(2,3)", func() string {
		p, back := tailCopy(canvas.Rectangle(1, 1))
		snap := cloneF(back)
		q := p.Scale(2, 3)
		if !sameData(snap, back) {
			return "receiver is now " + p.String()
		}
		return want(q, "M0 0L2 0L2 3L0 3z")
	})
	run("shape:Grid-cell-position", "Grid(10,10,2,2,1)", func() string {
		return want(canvas.Grid(10, 10, 2, 2, 1), "M0 0L10 0L10 10L0 10zM1 1L1 4.5L4.5 4.5L4.5 1zM5.5 1L5.5 4.5L9 4.5L9 1zM1 5.5L1 9L4.5 9L4.5 5.5zM5.5 5.5L5.5 9L9 9L9 5.5z")
	})
	// 0cf6beb: windings() indexed past the intersection list (open end point, unpaired vertex hit, Filling)
	run("panic:Windings:level-with-open-endpoint", "M0 0L10 10L10 0 .Windings(5,0)", func() string { P("M0 0L10 10L10 0").Windings(5, 0); return "" })
	run("panic:Contains:level-with-open-endpoint", "M0 0L10 10L10 0 .Contains(5,0)", func() string {
		P("M0 0L10 10L10 0").Contains(5, 0, canvas.EvenOdd)
		return ""
	})
	run("panic:Windings:level-with-vertex", "M0 0L15.924 -1.003C3 1 5 1 2 1z .Windings(1,1)", func() string {
		P("M0 0L15.924 -1.003C3 1 5 1 2 1z").Windings(1, 1)
		return ""
	})
	run("panic:Filling:index-out-of-range", "M0 0Q-1 1 -3 -8.152zM1 -3L4 6C-1 1 2 0 2 0 .Filling", func() string {
		P("M0 0Q-1 1 -3 -8.152zM1 -3L4 6C-1 1 2 0 2 0").Filling(canvas.NonZero)
		return ""
	})
	// 4e53250: the sweep split a status segment directly below its left endpoint and panicked
	// "impossible: first segment became vertical ..." (other panics of the sweep are separate classes)
	{
		sub := "M0 0A10 2.5 90 0 0 4 2A5 0.5 90 1 0 3.292893218813452 -5.071067811865475A5 0.5 90 1 0 4 2A5 0.5 90 1 0 3.669128103471353 3.4593189430208358L7 5z"
		c.Evals++
		c.Count("regress:panic:And:impossible:-first-segment-became-vertica")
		msg, _ := guard(func() { P("M0 0L-2 2M2 2L-5 -8.5").And(P(sub + sub + sub + sub)) })
		if !strings.Contains(msg, "first segment became vertical") {
			// since the batch-5 sweep repairs the input above no longer reaches the split; this one does
			// (exact array of corpus/C10/sweep-first-segment-vertical-settle.json)
			msg, _ = guard(func() {
				hexPath("3ff0000000000000 4156d0a880000000 412aa0f200000000 3ff0000000000000 4000000000000000 4156d0adc0000000 412aa0d000000000 4000000000000000 4030000000000000 4031000000000000 402c000000000000 3f800282c2615cdc 4008000000000000 4156d0a8af12fbc2 412aa0a800000000 4030000000000000 4000000000000000 4156d0aa40000000 412aa10c00000000 4000000000000000 4040000000000000 4156d0a880000000 412aa0f200000000 4040000000000000 3ff0000000000000 4156d0bf40000000 412aa08000000000 3ff0000000000000 4000000000000000 4156d0c1c0000000 412aa08000000000 4000000000000000 4000000000000000 4156d0c1c0000000 412aa09400000000 4000000000000000 4040000000000000 4156d0bf40000000 412aa08000000000 4040000000000000 3ff0000000000000 4156d0a880000000 412aa0f200000000 3ff0000000000000 4000000000000000 4156d0adc0000000 412aa0d000000000 4000000000000000 4030000000000000 4031000000000000 402c000000000000 3f800282c2615cdc 4008000000000000 4156d0a8af12fbc2 412aa0a800000000 4030000000000000 4000000000000000 4156d0aa40000000 412aa10c00000000 4000000000000000 4040000000000000 4156d0a880000000 412aa0f200000000 4040000000000000 3ff0000000000000 4156d0bf40000000 412aa08000000000 3ff0000000000000 4000000000000000 4156d0c1c0000000 412aa08000000000 4000000000000000 4000000000000000 4156d0c1c0000000 412aa09400000000 4000000000000000 4040000000000000 4156d0bf40000000 412aa08000000000 4040000000000000 3ff0000000000000 4156d0bf40000000 412aa08000000000 3ff0000000000000 4030000000000000 4148e79c857c2839 41309a6858fd7026 0000000000000000 4000000000000000 0000000000000000 0000000000000000 4030000000000000 4000000000000000 4000000000000000 c008000000000000 4000000000000000 4000000000000000 0000000000000000 0000000000000000 4000000000000000 4040000000000000 4156d0bf40000000 412aa08000000000 4040000000000000 3ff0000000000000 4156d0bf40000000 412aa08000000000 3ff0000000000000 4020000000000000 0000000000000000 c02f4fdf3b645a1d c010000000000000 4018000000000000 c010000000000000 4018000000000000 4020000000000000 4040000000000000 4156d0bf40000000 412aa08000000000 4040000000000000").Settle(canvas.EvenOdd)
			})
		}
		if strings.Contains(msg, "first segment became vertical") {
			fail(c, "panic:And:impossible:-first-segment-became-vertica", "And panicked: "+msg, map[string]any{"regress": "(M0 0L-2 2M2 2L-5 -8.5).And(4 x " + sub + ")"})
		}
	}
	// fbfcb63: Path.offset scaled up an arc whose offset radius is zero; Offset then never returned
	// (exact array of corpus/C10/hang-offset.json: the decimal form does not survive the lexer's rounding)
	run("Offset", "open path of elliptic arcs running a full ellipse .Offset(0.5)", func() string {
		hexPath("3ff0000000000000 3ff8000000000000 3ff8000000000000 3ff0000000000000 4030000000000000 4008000000000000 4004000000000000 3fb4320fd1065080 4000000000000000 bcc3000000000000 bcb0000000000000 4030000000000000 4030000000000000 3ff0000000000001 3fe0000000000001 3fe0c152382d7368 0000000000000000 bfcdc5e813de70a6 3fd1d9f8d1765b72 4030000000000000 4030000000000000 3ff0000000000001 3fe0000000000001 3fe0c152382d7368 0000000000000000 3ff566b13f69bdcc 3ff47477d5aa0585 4030000000000000 4030000000000000 3ff0000000000000 3fe0000000000000 3fe0c152382d7368 0000000000000000 3ff91f6e41e58be0 3feffbf34298dd50 4030000000000000 4030000000000000 3ff0000000000000 3fe0000000000000 3fe0c152382d7368 0000000000000000 bc94000000000000 bc90000000000000 4030000000000000 4030000000000000 3ff0000000000000 3fe0000000000000 3fe0c152382d7368 0000000000000000 bfcdc5e813de7096 3fd1d9f8d1765b77 4030000000000000 4030000000000000 3ff0000000000000 3fe0000000000000 3fe0c152382d7368 0000000000000000 3ff91f6e41e58be0 3feffbf34298dd52 4030000000000000 4030000000000000 3ff0000000000000 3fe0000000000000 3fe0c152382d7368 0000000000000000 3fed66b13f69bdc8 3fca64e985f77cb6 4030000000000000 4040000000000000 3ff8000000000000 3ff8000000000000 4040000000000000").Offset(0.5, 0.01)
		return ""
	})
	// ac9673c: collinear segments got their end points ordered inconsistently ("right-endpoint not part of status")
	{
		c.Evals++
		c.Count("regress:panic:Stroke:right-endpoint-not-part-of-status,-proba")
		msg, _ := guard(func() {
			hexPath("3ff0000000000000 0000000000000000 0000000000000000 3ff0000000000000 4000000000000000 c000f876ccdf6cde c00d64d51e0db1c4 4000000000000000 4000000000000000 0000000000000000 0000000000000000 4000000000000000 4000000000000000 bff66262ad39b3cd c00362a8cd012be1 4000000000000000").Stroke(0.3, canvas.RoundCap, canvas.ArcsJoin, 0.01)
		})
		if strings.Contains(msg, "right-endpoint not part of status") {
			fail(c, "panic:Stroke:right-endpoint-not-part-of-status,-proba", "Stroke panicked: "+msg, map[string]any{"regress": "M0 0L-2.1213203435596446 -3.6742346141747664L0 0L-1.399019886647909 -2.423173524473427 .Stroke(0.3, RoundCap, ArcsJoin, 0.01)"})
		}
	}
	// bd4354e: the sweep re-entered its event loop for ever on repeated subpaths
	run("Settle+repeated-subpaths", "seed-63 path (9 subpaths, repeated) .Settle(EvenOdd)", func() string {
		hc.Try(func() {
			P("M0 0L0.4930000000000001 -5.3665L-1.7465000000000002 -0.3167500000000001C-0.25349999999999995 -3.68325 -1 -2 -1 -2M-1.7465000000000002 -0.3167500000000001L13.707 5.005C-0.25349999999999995 -3.68325 0.4930000000000001 -5.3665 13.707 5.005zM-1.7465000000000002 -0.3167500000000001Q-0.25349999999999995 -3.68325 -1 -2M0 0L0.4930000000000001 -5.3665L-1.7465000000000002 -0.3167500000000001C-0.25349999999999995 -3.68325 -1 -2 -1 -2M-1.7465000000000002 -0.3167500000000001L13.707 5.005C-0.25349999999999995 -3.68325 0.4930000000000001 -5.3665 13.707 5.005zM0 0L0.4930000000000001 -5.3665L-1.7465000000000002 -0.3167500000000001C-0.25349999999999995 -3.68325 -1 -2 -1 -2M-0.25349999999999995 -3.68325C-1 -2 -1.7465000000000002 -0.3167500000000001 -1 -2zM-0.25349999999999995 -3.68325L-1.7465000000000002 -0.3167500000000001Q18.057 -15.273 -1 -2zM-0.25349999999999995 -3.68325L-1 -2L0 0z").Settle(canvas.EvenOdd)
		})
		return "" // a panic of the sweep here is a separate class; only termination is at stake
	})
	// 04e22f3: intersectionCircleCircle returned NaN for tangent circles (ArcsJoin next to a control point
	// 4e-11 from the start) and Stroke panicked "path has NaN or Inf"
	run("panic:Stroke:path-has-NaN-or-Inf", "Q/A/C with a control point 4e-11 from the vertex .Stroke(0.8, ButtCap, ArcsJoin)", func() string {
		q := P("M-2 6Q4 2 6.25 -10A132.70548417118474 5.308219366847389 160.99999999999997 1 1 4 2C4.00000000004 1.99999999997 2 -1 -2 6").Stroke(0.8, canvas.ButtCap, canvas.ArcsJoin, 0.01)
		for _, v := range q.Data() {
			if math.IsNaN(v) || math.IsInf(v, 0) {
				return "the stroke outline contains " + fmt.Sprint(v)
			}
		}
		return ""
	})
}

func hexPath(s string) *canvas.Path {
	var d []float64
	for _, t := range strings.Fields(s) {
		u, _ := strconv.ParseUint(t, 16, 64)
		d = append(d, math.Float64frombits(u))
	}
	return canvas.NewPathFromData(d)
}
