package main

import (
	"fmt"
	"math"

	"github.com/tdewolff/canvas"
	"verifharness/hc"
)

// ---- oracle A1: independent validator of Data() -------------------------------------------------
//
// Written from the documented encoding only (command value at both ends of each record, record
// lengths 4/4/6/8/8/4); it calls no method of the library except Data().

const eps = 1e-10 // canvas.Epsilon

func recLen(cmd float64) int {
	switch cmd {
	case 1, 2, 32:
		return 4
	case 4:
		return 6
	case 8, 16:
		return 8
	}
	return 0
}

func near(a, b hc.P2) bool { return math.Abs(a.X-b.X) <= eps && math.Abs(a.Y-b.Y) <= eps }

func finite(fs ...float64) bool {
	for _, f := range fs {
		if math.IsNaN(f) || math.IsInf(f, 0) {
			return false
		}
	}
	return true
}

// wfReport: the strict-only observations are returned, everything else is reported as failure.
type wfReport struct {
	mm, mz int // consecutive MoveTos, Close directly after MoveTo
	ok     bool
}

// validate checks the well-formedness rules. strict: the path was produced by primitive builder calls
// only, so consecutive MoveTos and M-Z are failures too (otherwise they are counted: Append/Join of a
// receiver that ends in a MoveTo produces them by construction).
func validate(c *hc.Ctx, p *canvas.Path, strict bool, replay map[string]any, taint string) wfReport {
	d := p.Data()
	rep := wfReport{ok: true}
	fail := func(kind, desc string) {
		rep.ok = false
		r := map[string]any{"data": hc.DataHex(d), "path": fmt.Sprint(d)}
		for k, v := range replay {
			r[k] = v
		}
		if taint != "" {
			kind += "@" + taint
		}
		fail(c, kind, desc, r)
	}
	// forward framing
	segs, err := hc.Decode(d)
	if err != nil {
		fail("wf:decode-forward", err.Error())
		return rep
	}
	// backward framing: i -= cmdLen(d[i-1]) must visit the same record boundaries
	var bounds []int
	for i := len(d); i > 0; {
		n := recLen(d[i-1])
		if n == 0 || i-n < 0 || d[i-n] != d[i-1] {
			fail("wf:decode-backward", fmt.Sprintf("backward scan fails at index %d", i))
			return rep
		}
		i -= n
		bounds = append(bounds, i)
	}
	if len(bounds) != len(segs) {
		fail("wf:decode-backward", "forward and backward scans see different record counts")
		return rep
	}
	for k, i := 0, 0; k < len(segs); k++ {
		if bounds[len(bounds)-1-k] != i {
			fail("wf:decode-backward", "forward and backward scans see different record boundaries")
			return rep
		}
		i += recLen(d[i])
	}
	// automaton
	const (
		stStart = iota
		stMoved
		stOpen
		stClosed
	)
	st := stStart
	var start hc.P2
	i := 0
	for k, s := range segs {
		n := recLen(d[i])
		if !finite(d[i : i+n]...) {
			fail("wf:non-finite", fmt.Sprintf("record %d has a NaN/Inf value", k))
			return rep
		}
		switch s.Kind {
		case 'M':
			if st == stMoved {
				rep.mm++
				if strict {
					fail("wf:consecutive-moveto", fmt.Sprintf("record %d: MoveTo directly after MoveTo", k))
				}
			}
			st, start = stMoved, s.End
		case 'Z':
			switch st {
			case stOpen:
			case stMoved:
				rep.mz++
				if strict {
					fail("wf:close-after-moveto", fmt.Sprintf("record %d: Close directly after MoveTo", k))
				}
			default:
				fail("wf:close-outside-subpath", fmt.Sprintf("record %d: Close without an open subpath", k))
				return rep
			}
			if !near(s.End, start) {
				fail("wf:close-not-at-start", fmt.Sprintf("record %d: Close carries %v, subpath starts at %v", k, s.End, start))
			}
			st = stClosed
		default:
			if st != stMoved && st != stOpen {
				fail("wf:draw-outside-subpath", fmt.Sprintf("record %d (%c) does not follow a MoveTo", k, s.Kind))
				return rep
			}
			st = stOpen
			zero := near(s.P0, s.End)
			switch s.Kind {
			case 'Q':
				zero = zero && near(s.P0, s.P1)
			case 'C':
				zero = zero && near(s.P0, s.P1) && near(s.P0, s.P2)
			case 'A':
				fl := d[i+4]
				if fl != 0 && fl != 1 && fl != 2 && fl != 3 {
					fail("wf:arc-flag", fmt.Sprintf("record %d: arc flag %v", k, fl))
				}
				if !(s.Rx > 0 && s.Ry > 0 && s.Rx >= s.Ry-eps && 0 <= s.Phi && s.Phi < math.Pi) {
					fail("wf:arc-canonical", fmt.Sprintf("record %d: rx=%v ry=%v phi=%v", k, s.Rx, s.Ry, s.Phi))
				} else {
					// SVG F.6.6: the radii must be large enough to span start..end
					sin, cos := math.Sincos(s.Phi)
					dx, dy := (s.P0.X-s.End.X)/2, (s.P0.Y-s.End.Y)/2
					x1, y1 := cos*dx+sin*dy, -sin*dx+cos*dy
					if lam := x1*x1/(s.Rx*s.Rx) + y1*y1/(s.Ry*s.Ry); lam > 1+1e-9 {
						fail("wf:arc-radii-too-small", fmt.Sprintf("record %d: lambda^2=%v", k, lam))
					}
				}
			}
			if zero {
				fail("wf:zero-length:"+string(s.Kind), fmt.Sprintf("record %d (%c) has zero length at %v", k, s.Kind, s.P0))
			}
		}
		i += n
	}
	if rep.mm > 0 {
		c.Count("weak:consecutive-moveto")
	}
	if rep.mz > 0 {
		c.Count("weak:close-after-moveto")
	}
	return rep
}

// ---- oracle A2: the built geometry is the requested geometry --------------------------------------

type curve struct {
	at   func(t float64) hc.P2
	desc string
}

func segCurve(s hc.Seg) curve {
	return curve{at: s.At, desc: fmt.Sprintf("%c %v->%v", s.Kind, s.P0, s.End)}
}

// dist from point to curve: 64 coarse samples, then ternary refinement around every local minimum
// (a multi-turn Arc passes the same place several times)
func (cv curve) dist(p hc.P2) float64 {
	const n = 64
	var ds [n + 1]float64
	best := math.Inf(1)
	for i := 0; i <= n; i++ {
		ds[i] = p.Dist(cv.at(float64(i) / n))
		best = math.Min(best, ds[i])
	}
	for i := 0; i <= n; i++ {
		if (i > 0 && ds[i-1] < ds[i]) || (i < n && ds[i+1] < ds[i]) {
			continue
		}
		lo, hi := math.Max(0, float64(i-1)/n), math.Min(1, float64(i+1)/n)
		for it := 0; it < 40; it++ {
			m1, m2 := lo+(hi-lo)/3, hi-(hi-lo)/3
			if p.Dist(cv.at(m1)) < p.Dist(cv.at(m2)) {
				hi = m2
			} else {
				lo = m1
			}
		}
		if d := p.Dist(cv.at((lo + hi) / 2)); d < best {
			best = d
		}
	}
	return best
}

type trace struct {
	skip       bool
	pen, start hc.P2
	open       bool // a segment was requested since the last MoveTo/Close
	req        []curve
	ext        float64
	mz         bool // a Close directly followed a MoveTo somewhere in this history
}

func newTrace(p *canvas.Path) *trace {
	return &trace{skip: len(p.Data()) != 0}
}

func ellipseAt(rx, ry, phi, th float64) hc.P2 {
	s, cs := math.Sincos(th)
	sp, cp := math.Sincos(phi)
	return hc.P2{X: rx*cs*cp - ry*s*sp, Y: rx*cs*sp + ry*s*cp}
}

func (t *trace) grow(ps ...hc.P2) {
	for _, p := range ps {
		t.ext = math.Max(t.ext, math.Max(math.Abs(p.X), math.Abs(p.Y)))
	}
}

// request records what the call asks for, from the documented meaning of the builder methods.
func (t *trace) request(o op, prev []float64) {
	if t.skip {
		return
	}
	f := o.f
	line := func(e hc.P2) {
		if !near(t.pen, e) {
			t.req = append(t.req, segCurve(hc.Seg{Kind: 'L', P0: t.pen, End: e}))
			t.open = true
		}
		t.pen = e
	}
	switch o.k {
	case 'O':
		t.skip = true
	case 'M':
		t.pen = hc.P2{X: f[0], Y: f[1]}
		t.start, t.open = t.pen, false
	case 'Z':
		if t.open {
			line(t.start)
		}
		// Close directly after a MoveTo: the documented meaning is an empty closed subpath at that
		// point (pen stays there). The builder removes the MoveTo when the path is otherwise empty or
		// the previous subpath is closed, so its pen falls back; remember the situation so that a
		// resulting mismatch gets its own kind.
		if !t.open && len(prev) >= 4 && prev[len(prev)-1] == 1 && (len(prev) == 4 || prev[len(prev)-5] == 32) {
			// only on an otherwise empty path or after a closed subpath (recorded remainder of the
			// defect); on top of an open subpath the MoveTo is kept since /repo 58c03cc and a mismatch
			// there is an ordinary trace failure
			t.mz = true
		}
		t.pen, t.open = t.start, false
	case 'L':
		line(hc.P2{X: f[0], Y: f[1]})
	case 'Q':
		cp, e := hc.P2{X: f[0], Y: f[1]}, hc.P2{X: f[2], Y: f[3]}
		if !(near(t.pen, e) && near(t.pen, cp)) {
			t.req = append(t.req, segCurve(hc.Seg{Kind: 'Q', P0: t.pen, P1: cp, End: e}))
			t.open = true
		}
		t.pen = e
	case 'C':
		c1, c2, e := hc.P2{X: f[0], Y: f[1]}, hc.P2{X: f[2], Y: f[3]}, hc.P2{X: f[4], Y: f[5]}
		if !(near(t.pen, e) && near(t.pen, c1) && near(t.pen, c2)) {
			t.req = append(t.req, segCurve(hc.Seg{Kind: 'C', P0: t.pen, P1: c1, P2: c2, End: e}))
			t.open = true
		}
		t.pen = e
	case 'A':
		e := hc.P2{X: f[3], Y: f[4]}
		rx, ry := math.Abs(f[0]), math.Abs(f[1])
		if rx <= eps || ry <= eps || math.IsInf(rx, 0) || math.IsInf(ry, 0) {
			line(e)
		} else if !near(t.pen, e) {
			if rx < 1e-6 || ry < 1e-6 {
				t.skip = true // radii of 1e-11 scaled up by 1e11: outside the tolerance model of this oracle
				return
			}
			t.req = append(t.req, segCurve(hc.Seg{Kind: 'A', P0: t.pen, End: e, Rx: rx, Ry: ry, Phi: f[2] * math.Pi / 180, Large: o.l, Sweep: o.s}))
			t.open = true
			t.pen = e
		}
	case 'B':
		rx, ry, phi := f[0], f[1], f[2]*math.Pi/180
		th0, th1 := f[3]*math.Pi/180, f[4]*math.Pi/180
		if th0 == th1 {
			return
		}
		center := t.pen.Sub(ellipseAt(rx, ry, phi, th0))
		t.req = append(t.req, curve{at: func(u float64) hc.P2 { return center.Add(ellipseAt(rx, ry, phi, th0+u*(th1-th0))) },
			desc: fmt.Sprintf("Arc %v..%v", f[3], f[4])})
		t.grow(center.Add(hc.P2{X: rx + ry, Y: rx + ry}), center.Sub(hc.P2{X: rx + ry, Y: rx + ry}))
		t.open = true
		if d := math.Abs(th1 - th0); d >= 2*math.Pi && math.Mod(d, 2*math.Pi) <= eps {
			// a whole number of turns: the pen is back at the start
		} else {
			t.pen = center.Add(ellipseAt(rx, ry, phi, th1))
		}
	}
	t.grow(t.pen)
}

func (t *trace) check(c *hc.Ctx, p *canvas.Path, replay map[string]any, taint string) {
	segs, err := hc.Decode(p.Data())
	if err != nil {
		return // reported by validate
	}
	var built []curve
	for _, s := range segs {
		if s.Kind == 'M' || (s.Kind == 'Z' && near(s.P0, s.End)) {
			continue
		}
		built = append(built, segCurve(s))
		t.grow(s.P0, s.End)
	}
	tol := 1e-5 * (1 + t.ext)
	c.Count("trace:checked")
	oneWay := func(from, to []curve, what string) bool {
		for _, cv := range from {
			// Arc requests with several turns need more samples
			n := 16
			if len(cv.desc) > 3 && cv.desc[:3] == "Arc" {
				n = 96
			}
			for k := 0; k <= n; k++ {
				pt := cv.at(float64(k) / float64(n))
				best := math.Inf(1)
				for _, o := range to {
					if d := o.dist(pt); d < best {
						best = d
						if best <= tol {
							break
						}
					}
				}
				if best > tol {
					r := map[string]any{"built": p.String()}
					for k, v := range replay {
						r[k] = v
					}
					if t.mz {
						what = "moveto-close-forgets-pen"
					} else if taint != "" {
						what += "@" + taint
					}
					fail(c, "trace:"+what, fmt.Sprintf("%s: point %v of [%s] is %.3g away (tol %.3g)", what, pt, cv.desc, best, tol), r)
					return false
				}
			}
		}
		return true
	}
	if oneWay(t.req, built, "requested-not-built") {
		oneWay(built, t.req, "built-not-requested")
	}
}
