package main

import (
	"fmt"
	"math"

	"github.com/tdewolff/canvas"
	"verifharness/hc"
)

// framing judges the subpath structure of a data array, independently of the library: records decode,
// every drawing/Close record lies in a subpath opened by a MoveTo, nothing but a MoveTo follows a
// Close, and every Close carries the coordinates of ITS OWN subpath's MoveTo. Returns "" or
// "rule: description". Also returns per subpath whether it is closed.
func framing(d []float64) (string, []bool) { return framingTol(d, eps) }

// framingTol: the same with an explicit closing tolerance. Close keeps coordinates within Epsilon of its
// MoveTo; a map that scales by k stretches that distance by k (hypothesis of theorem transform_wf).
func framingTol(d []float64, tol float64) (string, []bool) {
	segs, err := hc.Decode(d)
	if err != nil {
		return "decode-forward: " + err.Error(), nil
	}
	var closed []bool
	st := 0 // 0 start, 1 moved, 2 open, 3 closed
	var start hc.P2
	for k, s := range segs {
		switch s.Kind {
		case 'M':
			st, start = 1, s.End
			closed = append(closed, false)
		case 'Z':
			if st != 1 && st != 2 {
				return fmt.Sprintf("close-outside-subpath: record %d", k), closed
			}
			if math.Abs(s.End.X-start.X) > tol || math.Abs(s.End.Y-start.Y) > tol {
				return fmt.Sprintf("close-not-at-start: record %d: Close carries %v, its subpath starts at %v", k, s.End, start), closed
			}
			st = 3
			closed[len(closed)-1] = true
		default:
			if st != 1 && st != 2 {
				return fmt.Sprintf("draw-outside-subpath: record %d (%c) does not follow a MoveTo", k, s.Kind), closed
			}
			st = 2
		}
	}
	return "", closed
}

// tailCopy returns a copy of p whose backing array has 12 spare values filled with a sentinel, and the
// whole backing array: a write into the spare capacity is a side effect too.
const sentinel = 12345.6789

func tailCopy(p *canvas.Path) (*canvas.Path, []float64) {
	d := p.Data()
	back := make([]float64, len(d)+12)
	copy(back, d)
	for i := len(d); i < len(back); i++ {
		back[i] = sentinel
	}
	return canvas.NewPathFromData(back[:len(d)]), back
}

// openCollinearClip builds an OPEN, flat clipping operand over the vertices of p whose last edge is
// collinear with (and points along) the missing closing edge: M a, L a+(w,0), L a+(w,w), L a+(w/2,w/2).
// Close() on such a path rewrites the last LineTo in place instead of appending.
func openCollinearClip(c *hc.Ctx, p *canvas.Path) *canvas.Path {
	segs, err := hc.Decode(p.Data())
	x0, y0, x1, y1 := 0.0, 0.0, 4.0, 4.0
	if err == nil && len(segs) > 0 {
		x0, y0, x1, y1 = math.Inf(1), math.Inf(1), math.Inf(-1), math.Inf(-1)
		for _, s := range segs {
			x0, y0 = math.Min(x0, s.End.X), math.Min(y0, s.End.Y)
			x1, y1 = math.Max(x1, s.End.X), math.Max(y1, s.End.Y)
		}
	}
	if !finite(x0, y0, x1, y1) || x1-x0 > 1e6 || y1-y0 > 1e6 {
		x0, y0, x1, y1 = 0, 0, 4, 4
	}
	ax, ay := math.Floor(x0)-1, math.Floor(y0)-1
	w := 2 * math.Ceil((math.Max(x1-ax, y1-ay)+1)/2)
	q := &canvas.Path{}
	switch c.Intn(3) {
	case 0:
		q.MoveTo(ax, ay)
		q.LineTo(ax+w, ay)
		q.LineTo(ax+w, ay+w)
		q.LineTo(ax+w/2, ay+w/2)
	case 1: // mirrored, and with a second (closed) subpath before it
		q.MoveTo(ax+w+3, ay)
		q.LineTo(ax+w+5, ay)
		q.LineTo(ax+w+5, ay+2)
		q.Close()
		q.MoveTo(ax+w, ay+w)
		q.LineTo(ax, ay+w)
		q.LineTo(ax, ay)
		q.LineTo(ax+w/4, ay+w/4)
	default: // last edge returns exactly to the start
		q.MoveTo(ax, ay)
		q.LineTo(ax+w, ay)
		q.LineTo(ax+w, ay+w)
		q.LineTo(ax, ay)
	}
	return q
}

// structured inputs for the structure-preservation oracle: arcs with large coordinates, a closed
// curved subpath followed by a closed flat one (curve directly before the Close, and not), an open
// curved subpath followed by a closed one, closed subpaths that revisit their own first point.
func structured(c *hc.Ctx) []*canvas.Path {
	var out []*canvas.Path
	n := 12
	if c.Tier != "quick" {
		n = 40
	}
	for it := 0; it < n; it++ {
		p := &canvas.Path{}
		switch it % 4 {
		case 0: // large coordinates
			s := []float64{1e3, 1e4, 1e5, 1e6}[c.Intn(4)]
			ox, oy := math.Round(c.Range(-1, 1)*s), math.Round(c.Range(-1, 1)*s)
			p.MoveTo(ox+9, oy+57)
			p.LineTo(ox+30, oy+40)
			p.ArcTo(float64(5+c.Intn(40)), float64(5+c.Intn(40)), float64(c.Intn(12))*15+c.Range(0, 1), c.Bool(), c.Bool(), ox+9+c.Range(0, 1), oy+20)
			if c.Bool() {
				p.QuadTo(ox-5, oy+30, ox+2, oy+45)
			}
			p.LineTo(ox+16, oy+70)
			p.Close()
			p.MoveTo(ox+100, oy)
			p.LineTo(ox+110, oy)
			p.LineTo(ox+110, oy+10)
			p.Close()
			c.Count("structured:large-coordinates")
		case 1: // closed curved subpath, then closed flat subpath
			a := hc.P2{X: c.GenCoord(), Y: c.GenCoord()}
			p.MoveTo(a.X, a.Y)
			p.LineTo(a.X+10, a.Y)
			if c.Bool() {
				p.QuadTo(a.X+12, a.Y+8, a.X+5, a.Y+9) // curve directly before the Close
			} else {
				p.ArcTo(4, 3, 30, false, true, a.X+5, a.Y+9)
				p.LineTo(a.X-2, a.Y+4)
			}
			p.Close()
			p.MoveTo(a.X+20, a.Y+20)
			p.LineTo(a.X+30, a.Y+20)
			p.LineTo(a.X+30, a.Y+30)
			p.Close()
			c.Count("structured:closed-curved-then-closed-flat")
		case 2: // open curved subpath, then closed subpath(s)
			a := hc.P2{X: c.GenCoord(), Y: c.GenCoord()}
			p.MoveTo(a.X, a.Y)
			p.CubeTo(a.X+3, a.Y+6, a.X+8, a.Y-6, a.X+10, a.Y)
			p.LineTo(a.X+12, a.Y+5)
			p.MoveTo(a.X+20, a.Y+20)
			p.LineTo(a.X+30, a.Y+20)
			p.QuadTo(a.X+33, a.Y+27, a.X+30, a.Y+30)
			p.Close()
			p.MoveTo(a.X-20, a.Y)
			p.LineTo(a.X-30, a.Y+1)
			p.LineTo(a.X-25, a.Y+9)
			p.Close()
			c.Count("structured:open-curved-then-closed")
		default: // closed subpath revisiting its first point
			a := hc.P2{X: c.GenCoord(), Y: c.GenCoord()}
			p.MoveTo(a.X, a.Y)
			p.LineTo(a.X+10, a.Y+5)
			p.LineTo(a.X+10, a.Y-5)
			p.LineTo(a.X, a.Y)
			p.LineTo(a.X-10, a.Y+8)
			if c.Bool() {
				p.QuadTo(a.X-14, a.Y+3, a.X-10, a.Y-2)
			} else {
				p.LineTo(a.X-10, a.Y-2)
			}
			p.Close()
			if c.Bool() {
				p.MoveTo(a.X+40, a.Y)
				p.LineTo(a.X+50, a.Y+3)
				p.LineTo(a.X+40, a.Y)
				p.LineTo(a.X+45, a.Y-6)
			}
			c.Count("structured:revisits-first-point")
		}
		out = append(out, p)
	}
	return out
}

// structureMethods: derivations that must return a well-framed path with the same subpaths
// (number, order — reversed for Reverse — and closedness) as their receiver.
var structureMethods = map[string]bool{"Copy": true, "Flatten": true, "ReplaceArcs": true, "XMonotone": true, "Reverse": true,
	"Translate": true, "Scale": true}

func checkDerived(c *hc.Ctx, method string, in *canvas.Path, out []*canvas.Path, replay map[string]any) {
	if !structureMethods[method] || len(out) != 1 || out[0] == nil {
		return
	}
	c.Evals++
	o := out[0]
	r := map[string]any{"out": o.String(), "outdata": hc.DataHex(o.Data())}
	for k, v := range replay {
		r[k] = v
	}
	if n := len(o.Data()); method != "Scale" && n > 0 && n <= 300 && (c.Tier == "quick" || c.Chance(0.4)) {
		// the same judgement by the Lean specification (wfArray: decode + subpath automaton on bit patterns)
		c.Case("W "+hc.DataHex(o.Data()), "!", "derived-wf-lean:"+method)
		c.Count("case:W:" + method)
	}
	tol := eps
	if method == "Scale" {
		tol = 2 * eps // the call is Scale(2, 0.5)
	}
	bad, closedOut := framingTol(o.Data(), tol)
	if bad != "" {
		fail(c, "derived-wf:"+method+":"+ruleOf(bad), method+" returned an ill-framed path: "+bad, r)
		return
	}
	_, closedIn := framing(in.Data())
	if !robustSubpaths(in.Data()) {
		// a subpath all of whose segments have (nearly) coincident end points may flatten to nothing
		c.Count("skip:derived-structure-fragile-subpath")
		return
	}
	// lone MoveTos (no segment) may legitimately disappear: compare the subpaths that have segments
	inSubs, outSubs := drawnSubpaths(in.Data(), closedIn), drawnSubpaths(o.Data(), closedOut)
	if method == "Reverse" {
		for i, j := 0, len(outSubs)-1; i < j; i, j = i+1, j-1 {
			outSubs[i], outSubs[j] = outSubs[j], outSubs[i]
		}
	}
	if fmt.Sprint(inSubs) != fmt.Sprint(outSubs) {
		fail(c, "derived-structure:"+method, fmt.Sprintf("%s changed the subpath structure (closed flags per drawn subpath) %v -> %v", method, inSubs, outSubs), r)
	}
}

func ruleOf(bad string) string {
	for i := 0; i < len(bad); i++ {
		if bad[i] == ':' {
			return bad[:i]
		}
	}
	return bad
}

// drawnSubpaths lists the closed flag of every subpath that has at least one drawing record or Close.
func drawnSubpaths(d []float64, closed []bool) []bool {
	segs, err := hc.Decode(d)
	if err != nil {
		return nil
	}
	var out []bool
	for i, sub := range hc.Subpaths(segs) {
		if len(sub) > 1 && i < len(closed) {
			out = append(out, closed[i])
		}
	}
	return out
}

// robustSubpaths: every subpath with segments has a segment whose chord is longer than 1e-3.
func robustSubpaths(d []float64) bool {
	segs, err := hc.Decode(d)
	if err != nil {
		return false
	}
	for _, sub := range hc.Subpaths(segs) {
		if len(sub) < 2 {
			continue
		}
		ok := false
		for _, s := range sub[1:] {
			if s.Kind != 'Z' && s.P0.Dist(s.End) > 1e-3 {
				ok = true
			}
		}
		if !ok {
			return false
		}
	}
	return true
}
