package main

// Independent structural validator for PDF files (Go-side oracle for C13). It shares no code with the
// library: it reads the file the way PDF 32000-1 prescribes (startxref → xref table → trailer → objects at
// the recorded offsets → catalog → page tree → resources → content streams) and reports either a summary
// ("ok …") or the sorted set of structural error classes ("bad …"), in the same format as the Lean L3
// reader (lean/CanvasModel/C13/Reader.lean) so that the two can be compared line by line.

import (
	"bytes"
	"compress/zlib"
	"fmt"
	"io"
	"sort"
	"strings"
)

type pvKind int

const (
	pvNull pvKind = iota
	pvBool
	pvNum
	pvStr
	pvName
	pvArr
	pvDict
	pvRef
	pvKw
)

type pv struct {
	k    pvKind
	b    bool
	s    []byte // num text, string bytes, name, keyword
	n    int    // ref
	arr  []*pv
	keys []string
	vals []*pv
}

func (v *pv) get(k string) *pv {
	if v == nil || v.k != pvDict {
		return nil
	}
	for i, kk := range v.keys {
		if kk == k {
			return v.vals[i]
		}
	}
	return nil
}
func (v *pv) isName(n string) bool { return v != nil && v.k == pvName && string(v.s) == n }
func (v *pv) nat() (int, bool) {
	if v == nil || v.k != pvNum || !isNatTok(v.s) {
		return 0, false
	}
	return natOf(v.s), true
}

func vIsWS(c byte) bool { return c == 0 || c == 9 || c == 10 || c == 12 || c == 13 || c == 32 }
func vIsDelim(c byte) bool {
	return c == '(' || c == ')' || c == '<' || c == '>' || c == '[' || c == ']' || c == '{' || c == '}' || c == '/' || c == '%'
}
func vIsReg(c byte) bool   { return !vIsWS(c) && !vIsDelim(c) }
func vIsDigit(c byte) bool { return '0' <= c && c <= '9' }

type rd struct{ b []byte }

func (r *rd) at(i int) byte {
	if i >= 0 && i < len(r.b) {
		return r.b[i]
	}
	return 0
}
func (r *rd) sws(i int) int {
	for i < len(r.b) {
		c := r.b[i]
		if vIsWS(c) {
			i++
		} else if c == '%' {
			for i < len(r.b) && r.b[i] != 10 && r.b[i] != 13 {
				i++
			}
		} else {
			break
		}
	}
	return i
}
func (r *rd) regEnd(i int) int {
	for i < len(r.b) && vIsReg(r.b[i]) {
		i++
	}
	return i
}
func (r *rd) slice(i, j int) []byte {
	if i > len(r.b) {
		i = len(r.b)
	}
	if j > len(r.b) {
		j = len(r.b)
	}
	if j < i {
		j = i
	}
	return r.b[i:j]
}
func (r *rd) startsAt(i int, s string) bool { return string(r.slice(i, i+len(s))) == s }

func isNatTok(t []byte) bool {
	if len(t) == 0 {
		return false
	}
	for _, c := range t {
		if !vIsDigit(c) {
			return false
		}
	}
	return true
}
func natOf(t []byte) int {
	n := 0
	for _, c := range t {
		n = n*10 + int(c-'0')
	}
	return n
}
func isNumTok(t []byte) bool {
	if len(t) > 0 && (t[0] == '+' || t[0] == '-') {
		t = t[1:]
	}
	if len(t) == 0 {
		return false
	}
	dots, digits := 0, 0
	for _, c := range t {
		if c == '.' {
			dots++
		} else if vIsDigit(c) {
			digits++
		} else {
			return false
		}
	}
	return dots <= 1 && digits > 0
}

// ReadLit implements the literal-string rules of PDF 32000-1 §7.3.4.2 on the bytes after the opening
// parenthesis. Returns the string, the number of bytes consumed (including the closing parenthesis), ok.
func ReadLit(in []byte) ([]byte, int, bool) {
	out := []byte{}
	depth := 0
	i := 0
	isOct := func(c byte) bool { return '0' <= c && c <= '7' }
	for i < len(in) {
		c := in[i]
		switch {
		case c == ')':
			if depth == 0 {
				return out, i + 1, true
			}
			depth--
			out = append(out, c)
			i++
		case c == '(':
			depth++
			out = append(out, c)
			i++
		case c == 13:
			out = append(out, 10)
			i++
			if i < len(in) && in[i] == 10 {
				i++
			}
		case c == '\\':
			if i+1 >= len(in) {
				return nil, 0, false
			}
			e := in[i+1]
			i += 2
			switch {
			case e == 'n':
				out = append(out, 10)
			case e == 'r':
				out = append(out, 13)
			case e == 't':
				out = append(out, 9)
			case e == 'b':
				out = append(out, 8)
			case e == 'f':
				out = append(out, 12)
			case e == 10:
			case e == 13:
				if i < len(in) && in[i] == 10 {
					i++
				}
			case isOct(e):
				v := int(e - '0')
				if i < len(in) && isOct(in[i]) {
					v = v*8 + int(in[i]-'0')
					i++
					if i < len(in) && isOct(in[i]) {
						v = v*8 + int(in[i]-'0')
						i++
					}
				}
				out = append(out, byte(v%256))
			default:
				out = append(out, e)
			}
		default:
			out = append(out, c)
			i++
		}
	}
	return nil, 0, false
}

// unescName: in a name, '#' followed by two hexadecimal digits stands for that byte (7.3.5).
func unescName(b []byte) []byte {
	if bytes.IndexByte(b, '#') < 0 {
		return b
	}
	out := []byte{}
	for i := 0; i < len(b); i++ {
		if b[i] == '#' && i+2 < len(b)+0 && i+2 <= len(b)-1+0 {
			h1, ok1 := hexVal(b[i+1])
			h2, ok2 := hexVal(b[i+2])
			if ok1 && ok2 {
				out = append(out, byte(h1*16+h2))
				i += 2
				continue
			}
		}
		out = append(out, b[i])
	}
	return out
}

func hexVal(c byte) (int, bool) {
	switch {
	case '0' <= c && c <= '9':
		return int(c - '0'), true
	case 'A' <= c && c <= 'F':
		return int(c-'A') + 10, true
	case 'a' <= c && c <= 'f':
		return int(c-'a') + 10, true
	}
	return 0, false
}

// parseObj parses one object or keyword at/after i.
func (r *rd) parseObj(refs bool, i int, depth int) (*pv, int, bool) {
	if depth > 200 {
		return nil, 0, false
	}
	i = r.sws(i)
	if i >= len(r.b) {
		return nil, 0, false
	}
	c := r.b[i]
	switch {
	case c == '/':
		j := r.regEnd(i + 1)
		return &pv{k: pvName, s: unescName(r.slice(i+1, j))}, j, true
	case c == '(':
		s, n, ok := ReadLit(r.b[i+1:])
		if !ok {
			return nil, 0, false
		}
		return &pv{k: pvStr, s: s}, i + 1 + n, true
	case c == '<':
		if r.at(i+1) == '<' {
			d := &pv{k: pvDict}
			k := i + 2
			for {
				k = r.sws(k)
				if k >= len(r.b) {
					return nil, 0, false
				}
				if r.at(k) == '>' && r.at(k+1) == '>' {
					return d, k + 2, true
				}
				key, k2, ok := r.parseObj(refs, k, depth+1)
				if !ok || key.k != pvName {
					return nil, 0, false
				}
				val, k3, ok := r.parseObj(refs, k2, depth+1)
				if !ok {
					return nil, 0, false
				}
				d.keys = append(d.keys, string(key.s))
				d.vals = append(d.vals, val)
				k = k3
			}
		}
		j := bytes.IndexByte(r.b[i+1:], '>')
		if j < 0 {
			return nil, 0, false
		}
		var nib []int
		for _, c := range r.b[i+1 : i+1+j] {
			if vIsWS(c) {
				continue
			}
			v, ok := hexVal(c)
			if !ok {
				return nil, 0, false
			}
			nib = append(nib, v)
		}
		if len(nib)%2 == 1 {
			nib = append(nib, 0)
		}
		s := []byte{}
		for q := 0; q < len(nib); q += 2 {
			s = append(s, byte(nib[q]*16+nib[q+1]))
		}
		return &pv{k: pvStr, s: s}, i + 2 + j, true
	case c == '[':
		a := &pv{k: pvArr}
		k := i + 1
		for {
			k = r.sws(k)
			if k >= len(r.b) {
				return nil, 0, false
			}
			if r.at(k) == ']' {
				return a, k + 1, true
			}
			v, k2, ok := r.parseObj(refs, k, depth+1)
			if !ok {
				return nil, 0, false
			}
			a.arr = append(a.arr, v)
			k = k2
		}
	case vIsReg(c):
		j := r.regEnd(i)
		t := r.slice(i, j)
		if isNatTok(t) && refs {
			k1 := r.sws(j)
			k2 := r.regEnd(k1)
			t2 := r.slice(k1, k2)
			k3 := r.sws(k2)
			if isNatTok(t2) && k1 > j && k3 > k2 && r.at(k3) == 'R' && !(vIsReg(r.at(k3+1)) && k3+1 < len(r.b)) {
				return &pv{k: pvRef, n: natOf(t)}, k3 + 1, true
			}
			return &pv{k: pvNum, s: t}, j, true
		}
		switch {
		case isNumTok(t):
			return &pv{k: pvNum, s: t}, j, true
		case string(t) == "true":
			return &pv{k: pvBool, b: true}, j, true
		case string(t) == "false":
			return &pv{k: pvBool, b: false}, j, true
		case string(t) == "null":
			return &pv{k: pvNull}, j, true
		}
		return &pv{k: pvKw, s: t}, j, true
	}
	return nil, 0, false
}

type vObj struct {
	val  *pv
	body []byte
	has  bool // has a stream body
}

type vDoc struct {
	size    int
	objs    map[int]*vObj
	trailer *pv
}

func (d *vDoc) deref(v *pv) *pv {
	if v != nil && v.k == pvRef {
		if o, ok := d.objs[v.n]; ok {
			return o.val
		}
		return nil
	}
	return v
}

func hasFlate(d *pv) bool {
	f := d.get("Filter")
	if f == nil {
		return false
	}
	if f.k == pvName {
		return string(f.s) == "FlateDecode"
	}
	if f.k == pvArr {
		for _, x := range f.arr {
			if x.k == pvName && string(x.s) == "FlateDecode" {
				return true
			}
		}
	}
	return false
}

func kwsOf(v *pv, depth int, out *[]string) {
	if v == nil || depth == 0 {
		return
	}
	switch v.k {
	case pvKw:
		*out = append(*out, string(v.s))
	case pvArr:
		for _, x := range v.arr {
			kwsOf(x, depth-1, out)
		}
	case pvDict:
		for _, x := range v.vals {
			kwsOf(x, depth-1, out)
		}
	}
}

func refsOf(v *pv, depth int, out *[]int) {
	if v == nil || depth == 0 {
		return
	}
	switch v.k {
	case pvRef:
		*out = append(*out, v.n)
	case pvArr:
		for _, x := range v.arr {
			refsOf(x, depth-1, out)
		}
	case pvDict:
		for _, x := range v.vals {
			refsOf(x, depth-1, out)
		}
	}
}

var opTable = map[string]int{ // -1 = variable
	"q": 0, "Q": 0, "cm": 6, "w": 1, "J": 1, "j": 1, "M": 1, "d": 2, "ri": 1, "i": 1, "gs": 1,
	"m": 2, "l": 2, "c": 6, "v": 4, "y": 4, "h": 0, "re": 4,
	"S": 0, "s": 0, "f": 0, "F": 0, "f*": 0, "B": 0, "B*": 0, "b": 0, "b*": 0, "n": 0, "W": 0, "W*": 0,
	"BT": 0, "ET": 0, "Tc": 1, "Tw": 1, "Tz": 1, "TL": 1, "Tf": 2, "Tr": 1, "Ts": 1, "Td": 2, "TD": 2, "Tm": 6, "T*": 0,
	"Tj": 1, "TJ": 1, "'": 1, "\"": 3,
	"CS": 1, "cs": 1, "SC": -1, "SCN": -1, "sc": -1, "scn": -1,
	"G": 1, "g": 1, "RG": 3, "rg": 3, "K": 4, "k": 4, "sh": 1, "Do": 1,
}
var textOps = map[string]bool{"Tc": true, "Tw": true, "Tz": true, "TL": true, "Tf": true, "Tr": true, "Ts": true, "Td": true, "TD": true, "Tm": true, "T*": true, "Tj": true, "TJ": true, "'": true, "\"": true}

type csState struct {
	errs    []string
	ops     int
	resUses int
	inText  bool
	depth   int
	stack   []*pv
}

func (d *vDoc) resHas(res *pv, cat string, name []byte) bool {
	c := d.deref(res.get(cat))
	if c == nil || c.k != pvDict {
		return false
	}
	for _, k := range c.keys {
		if k == string(name) {
			return true
		}
	}
	return false
}

func (d *vDoc) checkContent(res *pv, content []byte) *csState {
	st := &csState{}
	r := &rd{b: content}
	i := 0
	for {
		i1 := r.sws(i)
		if i1 >= len(r.b) {
			break
		}
		tok, j, ok := r.parseObj(false, i1, 0)
		if !ok || j <= i1 {
			st.errs = append(st.errs, "cs-token")
			break
		}
		i = j
		if tok.k != pvKw {
			st.stack = append(st.stack, tok)
			continue
		}
		name := string(tok.s)
		if name == "NaN" || name == "Inf" || name == "+Inf" || name == "-Inf" {
			st.errs = append(st.errs, "cs-number:"+name)
			st.stack = append(st.stack, &pv{k: pvNum, s: tok.s})
			continue
		}
		args := st.stack
		st.stack = nil
		st.ops++
		ar, known := opTable[name]
		if !known {
			st.errs = append(st.errs, "op-unknown:"+name)
			continue
		}
		if ar >= 0 && len(args) != ar {
			st.errs = append(st.errs, "op-arity:"+name)
		}
		if textOps[name] && !st.inText {
			st.errs = append(st.errs, "text-op-outside:"+name)
		}
		useRes := func(cat string, a *pv) {
			if a != nil && a.k == pvName {
				if d.resHas(res, cat, a.s) {
					st.resUses++
				} else {
					st.errs = append(st.errs, "res:"+cat)
				}
			} else {
				st.errs = append(st.errs, "op-operand:"+name)
			}
		}
		var first, last *pv
		if len(args) > 0 {
			first, last = args[0], args[len(args)-1]
		}
		switch name {
		case "BT":
			if st.inText {
				st.errs = append(st.errs, "bt-nested")
			} else {
				st.inText = true
			}
		case "ET":
			if st.inText {
				st.inText = false
			} else {
				st.errs = append(st.errs, "et-unmatched")
			}
		case "q":
			if st.inText {
				st.errs = append(st.errs, "q-in-text")
			}
			st.depth++
		case "Q":
			if st.inText {
				st.errs = append(st.errs, "q-in-text")
			}
			if st.depth == 0 {
				st.errs = append(st.errs, "q-underflow")
			} else {
				st.depth--
			}
		case "gs":
			useRes("ExtGState", first)
		case "Tf":
			useRes("Font", first)
		case "Do":
			useRes("XObject", first)
		case "sh":
			useRes("Shading", first)
		case "cs", "CS":
			if first != nil && first.k == pvName {
				n := string(first.s)
				if n != "DeviceGray" && n != "DeviceRGB" && n != "DeviceCMYK" && n != "Pattern" {
					useRes("ColorSpace", first)
				}
			} else {
				st.errs = append(st.errs, "op-operand:"+name)
			}
		case "scn", "SCN":
			if last != nil && last.k == pvName {
				useRes("Pattern", last)
			}
		default:
			ok := true
			for _, a := range args {
				switch a.k {
				case pvNum:
				case pvStr:
					ok = ok && (name == "Tj" || name == "'" || name == "\"")
				case pvArr:
					ok = ok && (name == "TJ" || name == "d")
				default:
					ok = false
				}
			}
			if !ok {
				st.errs = append(st.errs, "op-operand:"+name)
			}
		}
	}
	if st.inText {
		st.errs = append(st.errs, "bt-open")
	}
	if st.depth != 0 {
		st.errs = append(st.errs, "q-open")
	}
	if len(st.stack) != 0 {
		st.errs = append(st.errs, "cs-trailing-operands")
	}
	return st
}

func isNums(v *pv, n int) bool {
	if v == nil || v.k != pvArr || len(v.arr) != n {
		return false
	}
	for _, x := range v.arr {
		if x.k != pvNum {
			return false
		}
	}
	return true
}

type vAcc struct {
	errs    []string
	pages   int
	ops     int
	resUses int
}

func (d *vDoc) checkPage(infl map[int][]byte, parent int, pg *pv, acc *vAcc) {
	acc.pages++
	if p := pg.get("Parent"); p == nil || p.k != pvRef || p.n != parent {
		acc.errs = append(acc.errs, "page-parent")
	}
	if !isNums(pg.get("MediaBox"), 4) {
		acc.errs = append(acc.errs, "mediabox")
	}
	res := d.deref(pg.get("Resources"))
	if res == nil || res.k != pvDict {
		acc.errs = append(acc.errs, "resources")
		res = &pv{k: pvNull}
	}
	if an := pg.get("Annots"); an != nil {
		a := d.deref(an)
		ok := a == nil || a.k == pvArr
		if ok && a != nil {
			for _, x := range a.arr {
				xd := d.deref(x)
				if xd == nil || xd.k != pvDict || !xd.get("Subtype").isName("Link") || !isNums(xd.get("Rect"), 4) {
					ok = false
				}
			}
		}
		if !ok {
			acc.errs = append(acc.errs, "annot")
		}
	}
	var crefs []int
	if c := pg.get("Contents"); c != nil {
		if c.k == pvRef {
			crefs = []int{c.n}
		} else if c.k == pvArr {
			for _, x := range c.arr {
				if x.k == pvRef {
					crefs = append(crefs, x.n)
				}
			}
		}
	}
	if len(crefs) == 0 {
		acc.errs = append(acc.errs, "contents")
		return
	}
	content := []byte{}
	for _, n := range crefs {
		o, ok := d.objs[n]
		if !ok || !o.has {
			acc.errs = append(acc.errs, "contents")
			return
		}
		if hasFlate(o.val) {
			data, ok := infl[n]
			if !ok {
				acc.errs = append(acc.errs, "no-inflated")
				return
			}
			content = append(append(content, 10), data...)
		} else if o.val.get("Filter") != nil {
			acc.errs = append(acc.errs, "contents-filter")
			return
		} else {
			content = append(append(content, 10), o.body...)
		}
	}
	cs := d.checkContent(res, content)
	acc.errs = append(acc.errs, cs.errs...)
	acc.ops += cs.ops
	acc.resUses += cs.resUses
}

func (d *vDoc) walkPages(infl map[int][]byte, fuel, parent, n int, acc *vAcc) {
	if fuel == 0 {
		acc.errs = append(acc.errs, "page-tree-depth")
		return
	}
	o, ok := d.objs[n]
	if !ok {
		acc.errs = append(acc.errs, "page-tree")
		return
	}
	if o.val.get("Type").isName("Page") {
		d.checkPage(infl, parent, o.val, acc)
	} else if o.val.get("Type").isName("Pages") {
		before := acc.pages
		if k := o.val.get("Kids"); k != nil && k.k == pvArr {
			for _, x := range k.arr {
				if x.k == pvRef {
					d.walkPages(infl, fuel-1, n, x.n, acc)
				} else {
					acc.errs = append(acc.errs, "page-tree")
				}
			}
		} else {
			acc.errs = append(acc.errs, "page-tree")
		}
		if c, ok := o.val.get("Count").nat(); !ok || c != acc.pages-before {
			acc.errs = append(acc.errs, "page-count")
		}
	} else {
		acc.errs = append(acc.errs, "page-type")
	}
}

func fmtErrs(errs []string) string {
	m := map[string]bool{}
	for _, e := range errs {
		m[e] = true
	}
	u := []string{}
	for e := range m {
		u = append(u, e)
	}
	sort.Strings(u)
	return "bad " + strings.Join(u, ",")
}

func adler32(b []byte) uint32 {
	a, s := uint32(1), uint32(0)
	for _, c := range b {
		a = (a + uint32(c)) % 65521
		s = (s + a) % 65521
	}
	return s<<16 | a
}

// ValidateResult carries the verdict and the parsed document for further oracle checks.
type ValidateResult struct {
	Verdict string
	Doc     *vDoc
	Info    map[string][]byte // decoded literal strings of Title…Creator and Lang (absent if not stored)
	FlateOK bool              // every Flate stream inflates with compress/zlib
	Inflate map[int][]byte    // inflated data of the page content streams
}

func strField(d *vDoc, dv *pv, k string) string {
	if dv == nil {
		return "-"
	}
	v := d.deref(dv.get(k))
	if v == nil {
		return "-"
	}
	if v.k != pvStr {
		return "?"
	}
	if len(v.s) == 0 {
		return "e"
	}
	return fmt.Sprintf("%x", v.s)
}

// Validate reads the file. Flate streams are inflated with compress/zlib (trusted) for the content
// streams; the same inflated data is handed to the Lean reader.
func Validate(file []byte) *ValidateResult {
	res := &ValidateResult{Info: map[string][]byte{}, FlateOK: true, Inflate: map[int][]byte{}}
	r := &rd{b: file}
	if !r.startsAt(0, "%PDF-1.") {
		res.Verdict = fmtErrs([]string{"header"})
		return res
	}
	sx := bytes.LastIndex(file, []byte("startxref"))
	if sx < 0 {
		res.Verdict = fmtErrs([]string{"startxref"})
		return res
	}
	i1 := r.sws(sx + 9)
	i2 := r.regEnd(i1)
	xt := r.slice(i1, i2)
	if !isNatTok(xt) {
		res.Verdict = fmtErrs([]string{"startxref"})
		return res
	}
	x := natOf(xt)
	var errs []string
	i3 := i2
	for i3 < len(file) && vIsWS(file[i3]) {
		i3++
	}
	if !r.startsAt(i3, "%%EOF") {
		errs = append(errs, "eof")
	}
	for _, c := range r.slice(i3+5, len(file)) {
		if !vIsWS(c) {
			errs = append(errs, "eof-trailing")
			break
		}
	}
	if !r.startsAt(x, "xref") {
		res.Verdict = fmtErrs(append(errs, "xref-offset"))
		return res
	}
	j1 := r.sws(x + 4)
	j2 := r.regEnd(j1)
	j3 := r.sws(j2)
	j4 := r.regEnd(j3)
	t1, t2 := r.slice(j1, j2), r.slice(j3, j4)
	if !(isNatTok(t1) && isNatTok(t2)) || natOf(t1) != 0 {
		res.Verdict = fmtErrs(append(errs, "xref-format"))
		return res
	}
	n := natOf(t2)
	e0 := j4
	if r.at(j4) == 13 && r.at(j4+1) == 10 {
		e0 = j4 + 2
	} else if r.at(j4) == 10 || r.at(j4) == 13 {
		e0 = j4 + 1
	}
	if e0 == j4 || n == 0 || n > len(file) {
		res.Verdict = fmtErrs(append(errs, "xref-format"))
		return res
	}
	type ent struct {
		off   int
		inUse bool
	}
	ents := make([]ent, n)
	for k := 0; k < n; k++ {
		s := r.slice(e0+20*k, e0+20*k+20)
		ok := len(s) == 20 && isNatTok(s[0:10]) && isNatTok(s[11:16]) && s[10] == 32 && s[16] == 32 && (s[17] == 'n' || s[17] == 'f') &&
			((s[18] == 32 && (s[19] == 10 || s[19] == 13)) || (s[18] == 13 && s[19] == 10))
		if !ok {
			res.Verdict = fmtErrs(append(errs, "xref-format"))
			return res
		}
		ents[k] = ent{natOf(s[0:10]), s[17] == 'n'}
	}
	if ents[0].inUse {
		errs = append(errs, "xref-free")
	}
	tpos := r.sws(e0 + 20*n)
	if !r.startsAt(tpos, "trailer") {
		res.Verdict = fmtErrs(append(errs, "trailer"))
		return res
	}
	tr, _, ok := r.parseObj(true, tpos+7, 0)
	if !ok {
		res.Verdict = fmtErrs(append(errs, "trailer"))
		return res
	}
	if sz, ok := tr.get("Size").nat(); !ok || sz != n {
		errs = append(errs, "size")
	}
	d := &vDoc{size: n, objs: map[int]*vObj{}, trailer: tr}
	res.Doc = d
	for k := 1; k < n; k++ {
		e := ents[k]
		if !e.inUse {
			errs = append(errs, "xref-entry-free")
			continue
		}
		p1 := e.off
		p2 := r.regEnd(p1)
		q1 := r.sws(p2)
		q2 := r.regEnd(q1)
		r1 := r.sws(q2)
		numTok, genTok := r.slice(p1, p2), r.slice(q1, q2)
		if !(isNatTok(numTok) && natOf(numTok) == k && isNatTok(genTok) && natOf(genTok) == 0 && r.startsAt(r1, "obj") && p1 < len(file) && q1 > p2 && r1 > q2) {
			errs = append(errs, "xref-offset-obj")
			continue
		}
		v, p3, ok := r.parseObj(true, r1+3, 0)
		if !ok {
			errs = append(errs, "obj-parse")
			continue
		}
		p4 := r.sws(p3)
		if r.startsAt(p4, "stream") {
			s0 := p4 + 6
			s1 := s0
			if r.at(s0) == 13 && r.at(s0+1) == 10 {
				s1 = s0 + 2
			} else if r.at(s0) == 10 {
				s1 = s0 + 1
			}
			if s1 == s0 {
				errs = append(errs, "stream-eol")
			}
			ln, ok := v.get("Length").nat()
			if !ok {
				errs = append(errs, "length")
				d.objs[k] = &vObj{val: v}
				continue
			}
			body := r.slice(s1, s1+ln)
			a0 := s1 + ln
			a1 := a0
			if r.at(a0) == 13 && r.at(a0+1) == 10 {
				a1 = a0 + 2
			} else if r.at(a0) == 10 || r.at(a0) == 13 {
				a1 = a0 + 1
			}
			if !r.startsAt(a1, "endstream") || len(body) != ln {
				errs = append(errs, "length")
			} else {
				a2 := r.sws(a1 + 9)
				if !r.startsAt(a2, "endobj") {
					errs = append(errs, "endobj")
				}
			}
			if hasFlate(v) {
				var c0, c1 byte
				if len(body) > 1 {
					c0, c1 = body[0], body[1]
				}
				if !(c0%16 == 8 && (int(c0)*256+int(c1))%31 == 0 && len(body) >= 6) {
					errs = append(errs, "flate")
				}
				// independent of the reader: does compress/zlib accept it? (only the last filter stage can be checked
				// when Flate is the only filter)
				if f := v.get("Filter"); f != nil && f.k == pvName {
					zr, err := zlib.NewReader(bytes.NewReader(body))
					if err != nil {
						res.FlateOK = false
					} else {
						data, err := io.ReadAll(zr)
						if err != nil {
							res.FlateOK = false
						} else {
							res.Inflate[k] = data
						}
					}
				}
			}
			d.objs[k] = &vObj{val: v, body: body, has: true}
		} else {
			if !r.startsAt(p4, "endobj") {
				errs = append(errs, "endobj")
			}
			d.objs[k] = &vObj{val: v}
		}
	}
	// keep only the inflated data of page content streams for the Lean side (small); checked below
	var all []int
	refsOf(tr, 64, &all)
	for _, o := range d.objs {
		refsOf(o.val, 64, &all)
	}
	for _, x := range all {
		if _, ok := d.objs[x]; !ok {
			errs = append(errs, "ref")
			break
		}
	}
	var kws []string
	kwsOf(tr, 64, &kws)
	for _, o := range d.objs {
		kwsOf(o.val, 64, &kws)
	}
	for _, k := range kws {
		errs = append(errs, "obj-keyword:"+k)
	}
	root := tr.get("Root")
	cat := d.deref(root)
	acc := &vAcc{}
	contentObjs := map[int]bool{}
	if root != nil && root.k == pvRef && cat != nil {
		if !cat.get("Type").isName("Catalog") {
			errs = append(errs, "catalog")
		}
		if p := cat.get("Pages"); p != nil && p.k == pvRef {
			po, ok := d.objs[p.n]
			if !ok || !po.val.get("Type").isName("Pages") {
				errs = append(errs, "pages-type")
			} else {
				// adler check for content streams happens on the Lean side; here use zlib's own result
				d.walkPages(res.Inflate, 16, 0, p.n, acc)
				// collect content stream numbers
				var collect func(n, fuel int)
				collect = func(n, fuel int) {
					o, ok := d.objs[n]
					if !ok || fuel == 0 {
						return
					}
					if o.val.get("Type").isName("Pages") {
						if k := o.val.get("Kids"); k != nil && k.k == pvArr {
							for _, x := range k.arr {
								if x.k == pvRef {
									collect(x.n, fuel-1)
								}
							}
						}
					} else if c := o.val.get("Contents"); c != nil {
						if c.k == pvRef {
							contentObjs[c.n] = true
						} else if c.k == pvArr {
							for _, x := range c.arr {
								if x.k == pvRef {
									contentObjs[x.n] = true
								}
							}
						}
					}
				}
				collect(p.n, 16)
			}
		} else {
			errs = append(errs, "catalog-pages")
		}
	} else {
		errs = append(errs, "root")
	}
	for k := range res.Inflate {
		if !contentObjs[k] {
			delete(res.Inflate, k)
		}
	}
	errs = append(errs, acc.errs...)
	info := d.deref(tr.get("Info"))
	for _, k := range []string{"Title", "Subject", "Keywords", "Author", "Creator"} {
		if v := d.deref(info.get(k)); v != nil && v.k == pvStr {
			res.Info[k] = v.s
		}
	}
	if v := d.deref(cat.get("Lang")); v != nil && v.k == pvStr {
		res.Info["Lang"] = v.s
	}
	if len(errs) > 0 {
		res.Verdict = fmtErrs(errs)
		return res
	}
	res.Verdict = fmt.Sprintf("ok n=%d pages=%d ops=%d res=%d T=%s S=%s K=%s A=%s C=%s L=%s", n, acc.pages, acc.ops, acc.resUses,
		strField(d, info, "Title"), strField(d, info, "Subject"), strField(d, info, "Keywords"), strField(d, info, "Author"), strField(d, info, "Creator"), strField(d, cat, "Lang"))
	return res
}

// DecodeText decodes a PDF text string (UTF-16BE with BOM, otherwise bytes as code points).
func DecodeText(b []byte) []rune {
	if len(b) >= 2 && b[0] == 0xFE && b[1] == 0xFF {
		b = b[2:]
		var out []rune
		for len(b) >= 2 {
			u := rune(b[0])<<8 | rune(b[1])
			if len(b) >= 4 {
				v := rune(b[2])<<8 | rune(b[3])
				if 0xD800 <= u && u < 0xDC00 && 0xDC00 <= v && v < 0xE000 {
					out = append(out, 0x10000+(u-0xD800)*1024+(v-0xDC00))
					b = b[4:]
					continue
				}
			}
			out = append(out, u)
			b = b[2:]
		}
		return out
	}
	out := make([]rune, len(b))
	for i, c := range b {
		out[i] = pdfDocRune(c)
	}
	return out
}

// pdfDocHigh: PDFDocEncoding (PDF 32000-1 Annex D.2) for 0x80-0x9F; 0x9F is undefined.
var pdfDocHigh = [32]rune{0x2022, 0x2020, 0x2021, 0x2026, 0x2014, 0x2013, 0x0192, 0x2044, 0x2039, 0x203A, 0x2212, 0x2030, 0x201E, 0x201C, 0x201D, 0x2018,
	0x2019, 0x201A, 0x2122, 0xFB01, 0xFB02, 0x0141, 0x0152, 0x0160, 0x0178, 0x017D, 0x0131, 0x0142, 0x0153, 0x0161, 0x017E, 0xFFFD}

// pdfDocRune decodes one byte of a text string without byte order mark. Below 0x80 the byte is taken as
// the code point (the ASCII-compatible part; 0x18-0x1F are diacritics in PDFDocEncoding — not judged here);
// 0x80-0xA0 and 0xAD differ from Latin-1.
func pdfDocRune(c byte) rune {
	switch {
	case 0x80 <= c && c <= 0x9F:
		return pdfDocHigh[c-0x80]
	case c == 0xA0:
		return 0x20AC
	case c == 0xAD:
		return 0xFFFD
	}
	return rune(c)
}
