// gendoc.go: random generator of small multi-page PDF document recipes (plain JSON-serialisable data)
// and a deterministic builder that turns a recipe into PDF bytes with the REAL tdewolff/canvas PDF
// renderer. Everything random comes from hc.Ctx's PRNG; images derive their pixels from ImgSeed with a
// local splitmix64, so BuildDoc(recipe) is a pure function of the recipe EXCEPT for two places where the
// library reads the clock: /CreationDate in the info dictionary, and the head.modified field (plus the
// checksums depending on it) of every embedded font program (tdewolff/font sfnt.Write uses time.Now()
// with 1 s resolution), which sits inside the possibly Flate-compressed FontFile2/FontFile3 stream. Two
// builds in the same wall-clock second agree outside /CreationDate; a determinism check has to retry
// when a document with text differs.
//
// Fonts: the TrueType font is loaded once per process and shared; the CFF font is parsed anew for every
// BuildDoc call unless DocShareFonts is set (see there: the CFF subsetter mutates the shared font).
//
// Conventions (all of them are what BuildDoc does, validators can rely on them):
//
//   - Matrix (any item kind): nil = identity, else 6 numbers [a b c d e f] in the PDF/SVG order, i.e.
//     x' = a*x + c*y + e, y' = b*x + d*y + f, which is canvas.Matrix{{a, c, e}, {b, d, f}}.
//     path:  m = Matrix
//     text:  m = Matrix * Translate(X, Y)
//     image: m = Matrix * Translate(X, Y) * Scale(gdImgMmPerPx, gdImgMmPerPx)   (pixel -> mm)
//   - Colours in the recipe are NON-premultiplied R,G,B,A (0..255); gdPremul converts them to the
//     premultiplied color.RGBA the library wants (same arithmetic as color.NRGBA.RGBA()>>8).
//   - Gradient geometry is in the extra field Grad: linear [x0 y0 x1 y1], radial [cx0 cy0 r0 cx1 cy1 r1]
//     (mm); nil falls back to (0,0)-(100,100) resp. centre (50,50) radii 0 and 50.
//   - Join: "" leaves DefaultStyle.StrokeJoiner (= canvas.MiterJoin, bevel gap, limit 4); "miter" sets
//     canvas.MiterJoin explicitly (same value); "bevel" / "round" / "arcs" = canvas.BevelJoin / RoundJoin /
//     ArcsJoin. Cap: "" leaves DefaultStyle.StrokeCapper (= ButtCap); "butt" / "round" / "square".
//   - FauxBold sets face.FauxBold = gdFauxBold.
//   - ImgReuse = k > 0 draws the same image.Image object as the (k-1)-th image ITEM (0-based, counting
//     every image item of the document in build order, reused ones included) if that item exists;
//     otherwise a fresh image is built from ImgW/ImgH/ImgAlpha/ImgSeed.
//   - Opaque images (ImgAlpha=false) are *image.RGBA, images with alpha are *image.NRGBA.
package main

import (
	"bytes"
	"fmt"
	"image"
	"image/color"
	"math"
	"os"
	"sort"
	"strconv"
	"strings"
	"sync"
	"unicode/utf16"

	"github.com/tdewolff/canvas"
	"github.com/tdewolff/canvas/renderers/pdf"

	"verifharness/hc"
)

type DocStop struct {
	Off   float64 `json:"off"`
	Color []int   `json:"color"`
}

type DocItem struct {
	Kind string `json:"kind"` // "path" | "image" | "text" | "link"
	// path
	Path     string    `json:"path,omitempty"`     // SVG path data, mm
	Fill     []int     `json:"fill,omitempty"`     // nil = no fill; else non-premultiplied R,G,B,A
	Stroke   []int     `json:"stroke,omitempty"`   // nil = no stroke
	Width    float64   `json:"width,omitempty"`    // stroke width (mm)
	Dashes   []float64 `json:"dashes,omitempty"`   //
	DashOff  float64   `json:"dashoff,omitempty"`  //
	EvenOdd  bool      `json:"evenodd,omitempty"`  //
	Join     string    `json:"join,omitempty"`     // "" | "bevel" | "round" | "miter" | "arcs"
	Cap      string    `json:"cap,omitempty"`      // "" | "butt" | "round" | "square"
	Gradient string    `json:"gradient,omitempty"` // "" | "linear" | "radial" (fill paint instead of Fill)
	Stops    []DocStop `json:"stops,omitempty"`    //
	Grad     []float64 `json:"grad,omitempty"`     // gradient geometry (see file comment) -- EXTRA field
	Matrix   []float64 `json:"matrix,omitempty"`   // nil = identity; [a b c d e f] = canvas.Matrix{{a,c,e},{b,d,f}}
	// image
	ImgW     int    `json:"imgw,omitempty"`     // 1..4 pixels
	ImgH     int    `json:"imgh,omitempty"`     //
	ImgAlpha bool   `json:"imgalpha,omitempty"` // some pixels with alpha < 255
	ImgSeed  uint64 `json:"imgseed,omitempty"`  // pixel contents derive from this
	Lossy    bool   `json:"lossy,omitempty"`    // JPEG (DCT) instead of Flate
	ImgReuse int    `json:"imgreuse,omitempty"` // >0: same image.Image object as image item #ImgReuse-1
	// gradient sharing: path items with the same GradGroup > 0 are painted with ONE gradient object (same
	// pointer) wherever they are in the document (other pages included); GradStroke: the gradient paints the
	// stroke (width Width) instead of the fill
	GradGroup  int     `json:"gradgroup,omitempty"`
	GradStroke bool    `json:"gradstroke,omitempty"`
	X          float64 `json:"x,omitempty"` // position in mm (image, text)
	Y          float64 `json:"y,omitempty"` //
	// text
	Font     string  `json:"font,omitempty"`  // "ttf" | "cff"
	Text     string  `json:"text,omitempty"`  //
	Size     float64 `json:"size,omitempty"`  // points
	Color    []int   `json:"color,omitempty"` // text fill R,G,B,A
	FauxBold bool    `json:"fauxbold,omitempty"`
	// link
	URI  string     `json:"uri,omitempty"`
	Rect [4]float64 `json:"rect,omitempty"` // x0 y0 x1 y1 mm
}

type DocPage struct {
	W     float64   `json:"w"`
	H     float64   `json:"h"`
	Items []DocItem `json:"items"`
}

type DocRecipe struct {
	Pages    []DocPage `json:"pages"` // 1..6 pages
	Compress bool      `json:"compress"`
	Subset   bool      `json:"subset"`
	Meta     [6]string `json:"meta"`    // title, subject, keywords, author, creator, lang ("" = not set)
	SetInfo  bool      `json:"setinfo"` // call SetInfo at all
}

// DocAvoid lists the feature classes a caller can ask GenDoc not to produce (avoid[class] = true):
//
//	"evenodd-stroke-only"  EvenOdd fill rule on an item that has a stroke but no fill
//	"evenodd-stroke-split" EXTRA class: EvenOdd on an item with fill AND stroke that RenderPath paints in
//	                       two steps (gradient fill, or fill alpha != stroke alpha): it emits "f*" and then
//	                       the same invalid "S*"/"s*" as the stroke-only case
//	"gradient-stitch"      gradient with >=3 stops, or first offset != 0, or last offset != 1
//	"gradient-alpha0"      a gradient stop whose alpha is 0
//	"text-alpha0"          text colour with alpha 0
//	"meta-cr"              a metadata string whose PDF encoding contains the byte 0x0D
//	"stroke-explicit-curves" EXTRA class: a stroked item with curves (Q, C, A) whose stroke PDF cannot
//	                       express (Join "arcs" or non-similarity Matrix), so that RenderPath calls
//	                       Path.Dash / Path.Stroke itself: 20-120 kB of content per item and panics of the
//	                       path code ("theta not in elliptic arc range for splitting"). Without curves such
//	                       items are always generated (short straight polylines).
//
// Both evenodd classes are tagged by DocFeatures from the recipe alone; the bad operator is only
// emitted when the PDF stroke is used, i.e. not for Join "arcs" or a non-similarity Matrix. Injected
// instances always use a PDF-native stroke.
var DocAvoid = []string{"evenodd-stroke-only", "evenodd-stroke-split", "gradient-stitch", "gradient-alpha0", "text-alpha0", "meta-cr", "stroke-explicit-curves"}

const (
	gdImgMmPerPx   = 2.0  // image pixel size in mm
	gdFauxBold     = 0.02 // value of face.FauxBold for FauxBold items
	gdFontTTF      = "/repo/resources/DejaVuSerif.ttf"
	gdFontCFF      = "/repo/resources/Dynalight-Regular.otf" // "OTTO" sfnt with CFF outlines (sfnt.IsCFF), 44 kB
	gdMaxItems     = 14
	gdMaxPageItems = 6
	gdDefectProb   = 0.15 // per document and per non-avoided defect class
)

// ---------------------------------------------------------------------------------------------------
// small helpers

func gdR2(x float64) float64 { return math.Round(x*100) / 100 }
func gdR1(x float64) float64 { return math.Round(x*10) / 10 }

func gdNum(x float64) string { return strconv.FormatFloat(gdR2(x), 'f', -1, 64) }

func gdClampByte(v int) uint8 {
	if v < 0 {
		return 0
	}
	if v > 255 {
		return 255
	}
	return uint8(v)
}

// gdPremul converts a recipe colour (non-premultiplied R,G,B,A 0..255; nil or short = transparent) to
// the premultiplied color.RGBA used by the library.
func gdPremul(c []int) color.RGBA {
	if len(c) < 4 {
		return color.RGBA{}
	}
	n := color.NRGBA{gdClampByte(c[0]), gdClampByte(c[1]), gdClampByte(c[2]), gdClampByte(c[3])}
	r, g, b, a := n.RGBA()
	return color.RGBA{uint8(r >> 8), uint8(g >> 8), uint8(b >> 8), uint8(a >> 8)}
}

// gdMatrix converts the recipe's [a b c d e f] to a canvas.Matrix.
func gdMatrix(m []float64) canvas.Matrix {
	if len(m) != 6 {
		return canvas.Identity
	}
	return canvas.Matrix{{m[0], m[2], m[4]}, {m[1], m[3], m[5]}}
}

func gdMatrixSlice(m canvas.Matrix) []float64 {
	return []float64{m[0][0], m[1][0], m[0][1], m[1][1], m[0][2], m[1][2]}
}

// gdMatrixIsSimilarity mirrors canvas.Matrix.IsSimilarity for the recipe representation.
func gdMatrixIsSimilarity(m []float64) bool {
	return gdMatrix(m).IsSimilarity()
}

func gdIsASCII(s string) bool {
	for _, r := range s {
		if r >= 0x80 {
			return false
		}
	}
	return true
}

// gdMetaHasCR reports whether the PDF string encoding the library uses for a metadata string contains
// the byte 0x0D: ASCII strings are written as is, all others as UTF-16BE with BOM.
func gdMetaHasCR(s string) bool {
	if gdIsASCII(s) {
		return strings.IndexByte(s, '\r') >= 0
	}
	for _, u := range utf16.Encode([]rune(s)) {
		if u>>8 == 0x0D || u&0xFF == 0x0D {
			return true
		}
	}
	return false
}

func gdStopsStitch(stops []DocStop) bool {
	if len(stops) == 0 {
		return false
	}
	return len(stops) >= 3 || stops[0].Off != 0 || stops[len(stops)-1].Off != 1
}

func gdStopsAlpha0(stops []DocStop) bool {
	for _, s := range stops {
		if len(s.Color) >= 4 && s.Color[3] == 0 {
			return true
		}
	}
	return false
}

func gdItemHasFill(it *DocItem) bool {
	return (it.Gradient != "" && !it.GradStroke) || (len(it.Fill) >= 4 && it.Fill[3] != 0)
}
func gdItemHasStroke(it *DocItem) bool {
	if it.Gradient != "" && it.GradStroke {
		return it.Width > 0
	}
	return len(it.Stroke) >= 4 && it.Stroke[3] != 0 && it.Width > 0
}

// gdItemSplitPaint: fill and stroke are painted by two separate operators (f then S).
func gdItemSplitPaint(it *DocItem) bool {
	return gdItemHasFill(it) && gdItemHasStroke(it) && (it.Gradient != "" || it.Fill[3] != it.Stroke[3])
}

// gdItemExplicitStroke: RenderPath does not use the PDF stroke operators but strokes the path itself.
func gdItemExplicitStroke(it *DocItem) bool {
	return gdItemHasStroke(it) && (it.Join == "arcs" || (it.Matrix != nil && !gdMatrixIsSimilarity(it.Matrix)))
}

func gdPathCurvy(path string) bool { return strings.ContainsAny(path, "QCA") }

// gdNativeStroke makes sure RenderPath uses the PDF stroke operators for the item.
func gdNativeStroke(it *DocItem) {
	if it.Join == "arcs" {
		it.Join = "round"
	}
	if it.Matrix != nil && !gdMatrixIsSimilarity(it.Matrix) {
		it.Matrix = nil
	}
}

// ---------------------------------------------------------------------------------------------------
// generator

type gdGen struct {
	c      *hc.Ctx
	r      *DocRecipe
	nText  int
	nImage int
}

func gdPick[T any](c *hc.Ctx, xs []T) T { return xs[c.Intn(len(xs))] }

func (g *gdGen) alpha() int {
	u := g.c.Float()
	switch {
	case u < 0.45:
		return 255
	case u < 0.70:
		return 128
	case u < 0.90:
		return 64
	case u < 0.95:
		return 192
	default:
		return 16
	}
}

// rgb returns a random colour with the given alpha; ~20% greys (R==G==B selects the g/G operators).
func (g *gdGen) rgb(a int) []int {
	c := g.c
	if c.Chance(0.2) {
		v := c.Intn(256)
		return []int{v, v, v, a}
	}
	return []int{c.Intn(256), c.Intn(256), c.Intn(256), a}
}

func (g *gdGen) pt(w, h float64) (float64, float64) {
	return gdR2(g.c.Range(2, w-2)), gdR2(g.c.Range(2, h-2))
}

// subpath generates one SVG subpath inside the box [2,w-2]x[2,h-2] using M L Q C A z.
func (g *gdGen) subpath(w, h float64) string {
	c := g.c
	var sb strings.Builder
	p := func(x, y float64) { sb.WriteString(gdNum(x) + " " + gdNum(y)) }
	switch u := c.Float(); {
	case u < 0.2: // rectangle
		x0, y0 := g.pt(w, h)
		x1, y1 := g.pt(w, h)
		sb.WriteString("M")
		p(x0, y0)
		sb.WriteString("L")
		p(x1, y0)
		sb.WriteString("L")
		p(x1, y1)
		sb.WriteString("L")
		p(x0, y1)
		sb.WriteString("z")
	case u < 0.3: // circle / ellipse out of two arcs
		cx, cy := g.pt(w, h)
		rx := gdR2(c.Range(1, math.Min(w, h)/3))
		ry := rx
		if c.Bool() {
			ry = gdR2(c.Range(1, math.Min(w, h)/3))
		}
		sb.WriteString("M")
		p(cx-rx, cy)
		sb.WriteString("A" + gdNum(rx) + " " + gdNum(ry) + " 0 1 0 ")
		p(cx+rx, cy)
		sb.WriteString("A" + gdNum(rx) + " " + gdNum(ry) + " 0 1 0 ")
		p(cx-rx, cy)
		sb.WriteString("z")
	default: // polygon / polyline, possibly with curves
		curvy := c.Chance(0.5)
		n := 2 + c.Intn(5)
		x, y := g.pt(w, h)
		sb.WriteString("M")
		p(x, y)
		for i := 0; i < n; i++ {
			x, y = g.pt(w, h)
			k := 0
			if curvy {
				k = c.Intn(4)
			}
			switch k {
			case 0:
				sb.WriteString("L")
				p(x, y)
			case 1:
				cx, cy := g.pt(w, h)
				sb.WriteString("Q")
				p(cx, cy)
				sb.WriteString(" ")
				p(x, y)
			case 2:
				ax, ay := g.pt(w, h)
				bx, by := g.pt(w, h)
				sb.WriteString("C")
				p(ax, ay)
				sb.WriteString(" ")
				p(bx, by)
				sb.WriteString(" ")
				p(x, y)
			default:
				rx, ry := gdR2(c.Range(2, 25)), gdR2(c.Range(2, 25))
				rot := gdPick(c, []float64{0, 0, 30, 45, 90, 120})
				sb.WriteString("A" + gdNum(rx) + " " + gdNum(ry) + " " + gdNum(rot) + " " + strconv.Itoa(c.Intn(2)) + " " + strconv.Itoa(c.Intn(2)) + " ")
				p(x, y)
			}
		}
		if c.Chance(0.55) {
			sb.WriteString("z")
		}
	}
	return sb.String()
}

func (g *gdGen) stops2() []DocStop {
	a0, a1 := 255, 255
	if g.c.Chance(0.25) {
		a0 = gdPick(g.c, []int{128, 64})
	}
	if g.c.Chance(0.25) {
		a1 = gdPick(g.c, []int{128, 64})
	}
	return []DocStop{{0, g.rgb(a0)}, {1, g.rgb(a1)}}
}

func (g *gdGen) gradGeom(kind string, w, h float64) []float64 {
	c := g.c
	if kind == "linear" {
		x0, y0 := g.pt(w, h)
		x1, y1 := g.pt(w, h)
		if x0 == x1 && y0 == y1 {
			x1 += 5
		}
		return []float64{x0, y0, x1, y1}
	}
	cx, cy := g.pt(w, h)
	r1 := gdR2(c.Range(3, math.Min(w, h)/2))
	r0 := 0.0
	if c.Bool() {
		r0 = gdR2(c.Range(0, r1*0.6))
	}
	cx1, cy1 := cx, cy
	if c.Chance(0.3) { // focal point off centre, still inside the outer circle
		cx1, cy1 = gdR2(cx+r1*0.2), gdR2(cy-r1*0.1)
	}
	return []float64{cx, cy, r0, cx1, cy1, r1}
}

func (g *gdGen) setGradient(it *DocItem, w, h float64) {
	it.Fill = nil
	it.Gradient = gdPick(g.c, []string{"linear", "radial"})
	it.Stops = g.stops2()
	it.Grad = g.gradGeom(it.Gradient, w, h)
}

func (g *gdGen) setStroke(it *DocItem, a int) {
	c := g.c
	it.Stroke = g.rgb(a)
	it.Width = gdR2(c.Range(0.2, 4))
	it.Join = gdPick(c, []string{"", "", "bevel", "round", "miter", "arcs"})
	it.Cap = gdPick(c, []string{"", "", "butt", "round", "square"})
	if c.Chance(0.3) {
		n := 1 + c.Intn(4)
		it.Dashes = make([]float64, n)
		for i := range it.Dashes {
			it.Dashes[i] = gdR1(c.Range(0.5, 6))
		}
		switch c.Intn(3) {
		case 1:
			it.DashOff = gdR1(c.Range(0.1, 8))
		case 2:
			it.DashOff = -gdR1(c.Range(0.1, 8))
		}
	}
}

// pathMatrix: kind 1 = similarity (rotation, uniform scale, reflection, translation), 2 = non-similarity.
func (g *gdGen) pathMatrix(kind int, w, h float64) []float64 {
	c := g.c
	cx, cy := gdR1(w/2), gdR1(h/2)
	m := canvas.Identity
	if kind == 1 {
		switch c.Intn(4) {
		case 0:
			m = m.Translate(gdR1(c.Range(-5, 5)), gdR1(c.Range(-5, 5)))
		case 1:
			m = m.RotateAbout(gdPick(c, []float64{90, 180, 270, 30, 45, -60}), cx, cy)
		case 2:
			s := gdPick(c, []float64{0.5, 0.75, 1.25, 2})
			m = m.ScaleAbout(s, s, cx, cy)
		default:
			s := gdPick(c, []float64{0.5, 1, 1.5})
			m = m.Translate(cx, cy).Rotate(gdPick(c, []float64{15, 90, 135})).Scale(-s, s).Translate(-cx, -cy)
		}
	} else {
		switch c.Intn(3) {
		case 0:
			m = m.ShearAbout(gdR1(c.Range(0.2, 0.8)), 0, cx, cy)
		case 1:
			m = m.ScaleAbout(gdPick(c, []float64{0.5, 1.5}), gdPick(c, []float64{0.8, 1.2}), cx, cy)
		default:
			m = m.Translate(cx, cy).Rotate(30).Shear(0, gdR1(c.Range(0.2, 0.6))).Translate(-cx, -cy)
		}
	}
	return gdMatrixSlice(m)
}

func (g *gdGen) pathItem(w, h float64) DocItem {
	c := g.c
	bw, bh := math.Min(w, 100), math.Min(h, 100)
	it := DocItem{Kind: "path"}
	it.Path = g.subpath(bw, bh)
	if c.Chance(0.25) {
		it.Path += g.subpath(bw, bh)
	}
	switch u := c.Float(); {
	case u < 0.30: // fill only
		it.Fill = g.rgb(g.alpha())
	case u < 0.55: // stroke only
		g.setStroke(&it, g.alpha())
	case u < 0.80: // both, same alpha
		a := g.alpha()
		it.Fill = g.rgb(a)
		g.setStroke(&it, a)
	default: // both, different alpha
		a := g.alpha()
		b := g.alpha()
		for b == a {
			b = g.alpha()
		}
		it.Fill = g.rgb(a)
		g.setStroke(&it, b)
	}
	if it.Fill != nil && c.Chance(0.25) {
		g.setGradient(&it, bw, bh)
	}
	// EvenOdd only on items that fill with one operator (f*, b*, B*); the stroke-only and the
	// fill-then-stroke variants are defect classes that are injected separately
	if gdItemHasFill(&it) && !gdItemSplitPaint(&it) && c.Chance(0.4) {
		it.EvenOdd = true
	}
	switch u := c.Float(); {
	case u < 0.15:
		it.Matrix = g.pathMatrix(1, bw, bh)
	case u < 0.30:
		it.Matrix = g.pathMatrix(2, bw, bh)
	}
	// RenderPath converts strokes that PDF cannot express (arcs join, non-similarity matrix) to a fill
	// path itself (Path.Dash, Path.Stroke): on curved paths that gives tens of kB of content and runs
	// into panics of the path code, so that combination is the separate class "stroke-explicit-curves"
	if gdItemExplicitStroke(&it) && gdPathCurvy(it.Path) {
		it.Path = g.simplePath(bw, bh)
		for i := range it.Dashes {
			it.Dashes[i] = gdR1(3 + it.Dashes[i])
		}
	}
	return it
}

// simplePath is one short polyline / polygon of straight segments.
func (g *gdGen) simplePath(w, h float64) string {
	c := g.c
	w, h = math.Min(w, 50), math.Min(h, 50)
	var sb strings.Builder
	n := 3 + c.Intn(3)
	for i := 0; i < n; i++ {
		x, y := g.pt(w, h)
		if i == 0 {
			sb.WriteString("M")
		} else {
			sb.WriteString("L")
		}
		sb.WriteString(gdNum(x) + " " + gdNum(y))
	}
	if c.Bool() {
		sb.WriteString("z")
	}
	return sb.String()
}

var (
	gdAsciiRunes  = []rune("abcdefghijklmnopqrstuvwxyzABCDEFGHIJKLMNOPQRSTUVWXYZ0123456789 .,-!?()/&")
	gdLatin1Runes = []rune("éèüöäñçßøåÆÐþ©±½¿«»")
	gdCyrGrkRunes = []rune("ПриветШрифтжящюЖαβγδλπΣΩ")
)

func (g *gdGen) textString(font string) string {
	c := g.c
	n := 1 + c.Intn(8)
	rs := make([]rune, n)
	nonASCII := c.Chance(0.35)
	for i := range rs {
		if nonASCII && c.Chance(0.6) {
			if font == "ttf" && c.Bool() {
				rs[i] = gdPick(c, gdCyrGrkRunes)
			} else {
				rs[i] = gdPick(c, gdLatin1Runes)
			}
		} else {
			rs[i] = gdPick(c, gdAsciiRunes)
		}
	}
	// a text of only spaces shapes fine but is uninteresting
	if strings.TrimSpace(string(rs)) == "" {
		rs[0] = 'x'
	}
	return string(rs)
}

func (g *gdGen) textItem(w, h float64) DocItem {
	c := g.c
	it := DocItem{Kind: "text"}
	it.Font = gdPick(c, []string{"ttf", "cff"})
	it.Text = g.textString(it.Font)
	it.Size = gdR1(c.Range(6, 24))
	it.Color = g.rgb(gdPick(c, []int{255, 255, 255, 128, 64}))
	it.FauxBold = c.Chance(0.2)
	it.X = gdR2(c.Range(2, math.Max(3, w*0.6)))
	it.Y = gdR2(c.Range(2, h-2))
	if c.Chance(0.15) {
		it.Matrix = gdMatrixSlice(canvas.Identity.RotateAbout(gdPick(c, []float64{90, 30, -45}), gdR1(w/2), gdR1(h/2)))
	}
	g.nText++
	return it
}

func (g *gdGen) imageItem(w, h float64, earlier []DocItem) DocItem {
	c := g.c
	it := DocItem{Kind: "image"}
	if len(earlier) > 0 && c.Chance(0.3) {
		k := c.Intn(len(earlier))
		src := earlier[k]
		it.ImgReuse = k + 1
		it.ImgW, it.ImgH, it.ImgAlpha, it.ImgSeed = src.ImgW, src.ImgH, src.ImgAlpha, src.ImgSeed
	} else {
		it.ImgW, it.ImgH = 1+c.Intn(4), 1+c.Intn(4)
		it.ImgAlpha = c.Chance(0.35)
		it.ImgSeed = c.U64()>>12 | 1 // < 2^53 so that it survives JSON readers that use float64; never 0
	}
	it.Lossy = c.Chance(0.25)
	it.X = gdR2(c.Range(1, math.Max(2, w-10)))
	it.Y = gdR2(c.Range(1, math.Max(2, h-10)))
	if c.Chance(0.2) {
		it.Matrix = gdMatrixSlice(canvas.Identity.RotateAbout(gdPick(c, []float64{90, 30, 45, 200}), gdR1(w/2), gdR1(h/2)))
	}
	g.nImage++
	return it
}

var gdURIs = []string{
	"https://example.com/",
	"https://example.com/a(b)c",
	"https://example.com/x)y(",
	"http://example.org/?q=1&r=%20#frag",
	"mailto:someone@example.org",
	"file:///C:\\dir\\file.pdf",
	"https://example.com/(((",
	"#page2",
}

func (g *gdGen) linkItem(w, h float64) DocItem {
	c := g.c
	it := DocItem{Kind: "link", URI: gdPick(c, gdURIs)}
	x0, y0 := gdR2(c.Range(0, w-6)), gdR2(c.Range(0, h-6))
	x1, y1 := gdR2(c.Range(x0+2, w)), gdR2(c.Range(y0+2, h))
	it.Rect = [4]float64{x0, y0, x1, y1}
	return it
}

var (
	gdMetaASCII = []string{
		"Test document", "canvas", "pdf, vector, test", "J. Doe", "verif harness", "Report (draft)",
		"a\\b", "50% (off", "unbalanced )", "x", "Title: #1 <&>", "tab\there", "line\nbreak", "((nested))",
	}
	gdMetaNonASCII = []string{
		"Café Münü", "naïve résumé", "Ærøskøbing", "Привет мир", "Шрифт (тест)", "漢字テスト", "中文标题", "한국어",
		"🎨 art", "emoji 😀 end", "Ελληνικά", "señor ½", "\\ Ж )", "𝒜 math",
	}
	gdMetaCR = []string{
		"car\rriage", "\r", "crlf\r\nline", "Dvořáček", "č", "മലയാളം", "不可", "heart 😍", "ȍ", "Ѝ",
	}
	gdLangs = []string{"en-US", "nl", "es-CL", "zh-Hans", "ru", "de-AT"}
)

func (g *gdGen) metaString(nonASCII bool) string {
	c := g.c
	for try := 0; try < 50; try++ {
		var s string
		if nonASCII {
			s = gdPick(c, gdMetaNonASCII)
			if c.Chance(0.4) {
				s += " " + string([]rune{gdPick(c, gdLatin1Runes), gdPick(c, gdCyrGrkRunes)})
			}
		} else {
			s = gdPick(c, gdMetaASCII)
			if c.Chance(0.4) {
				s += " " + strconv.Itoa(c.Intn(1000))
			}
		}
		if !gdMetaHasCR(s) { // the CR class is injected separately
			return s
		}
	}
	return "x"
}

func (g *gdGen) meta() {
	c, r := g.c, g.r
	switch u := c.Float(); {
	case u < 0.25: // none
		r.SetInfo = c.Bool() // SetInfo("", "", "", "", "") or no call at all
	default:
		nonASCII := u >= 0.60
		r.SetInfo = true
		for i := 0; i < 5; i++ {
			if c.Chance(0.6) {
				r.Meta[i] = g.metaString(nonASCII && c.Chance(0.7))
			}
		}
		k := c.Intn(5) // at least one field of the chosen class
		if r.Meta[k] == "" || (nonASCII && gdIsASCII(r.Meta[k])) {
			r.Meta[k] = g.metaString(nonASCII)
		}
	}
	if c.Chance(0.4) {
		r.Meta[5] = gdPick(c, gdLangs)
	}
}

// pathItems returns pointers to all path items of the recipe.
func (g *gdGen) itemsOf(kind string) []*DocItem {
	var out []*DocItem
	for pi := range g.r.Pages {
		for ii := range g.r.Pages[pi].Items {
			if g.r.Pages[pi].Items[ii].Kind == kind {
				out = append(out, &g.r.Pages[pi].Items[ii])
			}
		}
	}
	return out
}

// somePath returns a random path item satisfying want (or any path item; or a freshly appended one).
func (g *gdGen) somePath(want func(*DocItem) bool) *DocItem {
	all := g.itemsOf("path")
	var sel []*DocItem
	for _, it := range all {
		if want != nil && want(it) {
			sel = append(sel, it)
		}
	}
	if len(sel) > 0 {
		return gdPick(g.c, sel)
	}
	if len(all) > 0 {
		return gdPick(g.c, all)
	}
	pg := &g.r.Pages[g.c.Intn(len(g.r.Pages))]
	pg.Items = append(pg.Items, g.pathItem(pg.W, pg.H))
	return &pg.Items[len(pg.Items)-1]
}

func (g *gdGen) pageOf(it *DocItem) *DocPage {
	for pi := range g.r.Pages {
		for ii := range g.r.Pages[pi].Items {
			if &g.r.Pages[pi].Items[ii] == it {
				return &g.r.Pages[pi]
			}
		}
	}
	return &g.r.Pages[0]
}

func (g *gdGen) ensureGradient(it *DocItem) {
	if it.Gradient == "" {
		pg := g.pageOf(it)
		g.setGradient(it, math.Min(pg.W, 100), math.Min(pg.H, 100))
		if gdItemHasStroke(it) {
			it.EvenOdd = false // would otherwise turn into the evenodd-stroke-split class
		}
	}
}

func (g *gdGen) inject(class string) {
	c := g.c
	switch class {
	case "evenodd-stroke-only":
		it := g.somePath(func(it *DocItem) bool { return !gdItemHasFill(it) && gdItemHasStroke(it) })
		it.Fill, it.Gradient, it.Stops, it.Grad = nil, "", nil, nil
		if !gdItemHasStroke(it) {
			g.setStroke(it, g.alpha())
		}
		it.EvenOdd = true
		gdNativeStroke(it)
	case "evenodd-stroke-split":
		it := g.somePath(gdItemSplitPaint)
		if !gdItemHasFill(it) {
			it.Fill = g.rgb(g.alpha())
		}
		if !gdItemHasStroke(it) {
			g.setStroke(it, g.alpha())
		}
		if !gdItemSplitPaint(it) { // colour fill and stroke of the same alpha
			it.Stroke[3] = gdPick(c, []int{255, 128, 64})
			for it.Stroke[3] == it.Fill[3] {
				it.Stroke[3] = gdPick(c, []int{255, 128, 64})
			}
		}
		it.EvenOdd = true
		gdNativeStroke(it)
	case "stroke-explicit-curves":
		it := g.somePath(func(it *DocItem) bool { return gdItemHasStroke(it) && !it.EvenOdd })
		if !gdItemHasStroke(it) {
			g.setStroke(it, g.alpha())
			it.EvenOdd = false
		}
		if !gdItemExplicitStroke(it) {
			if c.Bool() {
				it.Join = "arcs"
			} else {
				pg := g.pageOf(it)
				it.Matrix = g.pathMatrix(2, math.Min(pg.W, 100), math.Min(pg.H, 100))
			}
		}
		for try := 0; try < 100 && !gdPathCurvy(it.Path); try++ {
			pg := g.pageOf(it)
			it.Path = g.subpath(math.Min(pg.W, 100), math.Min(pg.H, 100))
		}
	case "gradient-stitch":
		it := g.somePath(func(it *DocItem) bool { return it.Gradient != "" && !gdStopsAlpha0(it.Stops) })
		g.ensureGradient(it)
		switch c.Intn(5) {
		case 0:
			it.Stops = []DocStop{{0, g.rgb(255)}, {gdR2(c.Range(0.2, 0.8)), g.rgb(255)}, {1, g.rgb(255)}}
		case 1:
			it.Stops = []DocStop{{0, g.rgb(255)}, {0.25, g.rgb(255)}, {0.5, g.rgb(255)}, {1, g.rgb(255)}}
		case 2:
			it.Stops = []DocStop{{gdR2(c.Range(0.1, 0.4)), g.rgb(255)}, {1, g.rgb(255)}}
		case 3:
			it.Stops = []DocStop{{0, g.rgb(255)}, {gdR2(c.Range(0.6, 0.9)), g.rgb(255)}}
		default:
			it.Stops = []DocStop{{0.1, g.rgb(255)}, {0.5, g.rgb(255)}, {0.9, g.rgb(255)}}
		}
	case "gradient-alpha0":
		it := g.somePath(func(it *DocItem) bool { return it.Gradient != "" && !gdStopsStitch(it.Stops) })
		g.ensureGradient(it)
		k := c.Intn(len(it.Stops))
		col := g.rgb(0)
		it.Stops[k].Color = col
	case "text-alpha0":
		texts := g.itemsOf("text")
		var it *DocItem
		if len(texts) > 0 {
			it = gdPick(c, texts)
		} else {
			pg := &g.r.Pages[c.Intn(len(g.r.Pages))]
			pg.Items = append(pg.Items, g.textItem(pg.W, pg.H))
			it = &pg.Items[len(pg.Items)-1]
		}
		it.Color = g.rgb(0)
	case "meta-cr":
		g.r.SetInfo = true
		g.r.Meta[c.Intn(5)] = gdPick(c, gdMetaCR)
	}
}

// GenDoc generates a random document recipe. avoid lists the defect classes (see DocAvoid) that must
// not be produced; every class that is not avoided is injected into ~7% of the documents.
// shareGradients makes documents reuse the SAME gradient object: (a) a gradient item may join the group of
// an earlier gradient item (same page or an earlier page), (b) in multi-page documents a shared "theme"
// gradient is painted on two or three different pages (first use possibly on a page k > 1), as fill or as
// stroke, linear or radial, with other gradients possibly defined before it on the later page.
func (g *gdGen) shareGradients() {
	c := g.c
	r := g.r
	group := 0
	var earlier []*DocItem
	for pi := range r.Pages {
		for ii := range r.Pages[pi].Items {
			it := &r.Pages[pi].Items[ii]
			if it.Kind != "path" || it.Gradient == "" {
				continue
			}
			if len(earlier) > 0 && c.Chance(0.4) {
				src := earlier[c.Intn(len(earlier))]
				if src.GradGroup == 0 {
					group++
					src.GradGroup = group
				}
				it.GradGroup = src.GradGroup
				it.Gradient, it.Grad = src.Gradient, append([]float64{}, src.Grad...)
				it.Stops = append([]DocStop{}, src.Stops...)
			}
			earlier = append(earlier, it)
		}
	}
	if len(r.Pages) >= 2 && c.Chance(0.45) {
		group++
		proto := DocItem{Kind: "path"}
		g.setGradient(&proto, 60, 60)
		n := 2 + c.Intn(2)
		if n > len(r.Pages) {
			n = len(r.Pages)
		}
		// n distinct pages
		idx := map[int]bool{}
		for len(idx) < n {
			idx[c.Intn(len(r.Pages))] = true
		}
		for pi := range r.Pages {
			if !idx[pi] {
				continue
			}
			pg := &r.Pages[pi]
			it := DocItem{Kind: "path", Path: g.simplePath(math.Min(pg.W, 100), math.Min(pg.H, 100))}
			it.Gradient, it.Grad, it.Stops, it.GradGroup = proto.Gradient, append([]float64{}, proto.Grad...), append([]DocStop{}, proto.Stops...), group
			switch c.Intn(3) {
			case 0: // gradient stroke only
				it.GradStroke, it.Width = true, gdR1(c.Range(0.5, 3))
			case 1: // gradient stroke over a colour fill
				it.GradStroke, it.Width = true, gdR1(c.Range(0.5, 3))
				it.Fill = g.rgb(g.alpha())
			}
			// before or after the page's other items (so that other patterns may take P0 first)
			if c.Bool() {
				pg.Items = append([]DocItem{it}, pg.Items...)
			} else {
				pg.Items = append(pg.Items, it)
			}
		}
	}
}

func GenDoc(c *hc.Ctx, avoid map[string]bool) *DocRecipe {
	g := &gdGen{c: c, r: &DocRecipe{}}
	r := g.r
	r.Compress = c.Chance(0.35)
	r.Subset = !c.Chance(0.10)
	maxText := 1 << 30
	if !r.Subset {
		maxText = 1 // whole font gets embedded: keep it to one text item (one font)
	}

	nPages := 1 + c.Intn(6)
	budget := gdMaxItems
	var images []DocItem
	for p := 0; p < nPages; p++ {
		pg := DocPage{Items: []DocItem{}}
		switch c.Intn(5) {
		case 0:
			pg.W, pg.H = 210, 297
		case 1:
			pg.W, pg.H = 100, 100
		default:
			pg.W, pg.H = gdR1(c.Range(30, 200)), gdR1(c.Range(30, 200))
		}
		n := 0
		if !c.Chance(0.08) { // sometimes an empty page
			n = 1 + c.Intn(gdMaxPageItems)
			if c.Bool() && n > 3 {
				n = 1 + c.Intn(3)
			}
		}
		// leave at least a chance of one item for the remaining pages
		if n > budget {
			n = budget
		}
		budget -= n
		for i := 0; i < n; i++ {
			var it DocItem
			u := c.Float()
			if u >= 0.5 && u < 0.7 && g.nText >= maxText {
				u = 0 // path instead of a second text in a non-subset document
			}
			switch {
			case u < 0.5:
				it = g.pathItem(pg.W, pg.H)
			case u < 0.7:
				it = g.textItem(pg.W, pg.H)
			case u < 0.85:
				it = g.imageItem(pg.W, pg.H, images)
				images = append(images, it)
			default:
				it = g.linkItem(pg.W, pg.H)
			}
			pg.Items = append(pg.Items, it)
		}
		r.Pages = append(r.Pages, pg)
	}
	// a non-subset document without any text would not exercise the flag
	if !r.Subset && g.nText == 0 && c.Chance(0.8) {
		pg := &r.Pages[c.Intn(len(r.Pages))]
		pg.Items = append(pg.Items, g.textItem(pg.W, pg.H))
	}

	g.shareGradients()

	g.meta()

	for _, class := range DocAvoid {
		if !avoid[class] && c.Chance(gdDefectProb) {
			g.inject(class)
		}
	}
	return r
}

// ---------------------------------------------------------------------------------------------------
// builder

// DocShareFonts = true makes BuildDoc share ONE *canvas.Font per font file across all documents of the
// process (also for the CFF font). The default (false) shares only the TrueType font and gives every
// document its own freshly parsed CFF font, because the library's CFF subsetter mutates the font: after
// the first subsetted document every later document using the same *canvas.Font object prints
// "WARNING: font subsetting failed: CFF: local subroutine: N doesn't exist" on stdout and embeds the
// whole font, which makes the output depend on the process history.
var DocShareFonts = false

var (
	gdFontMu    sync.Mutex
	gdFontCache = map[string]*canvas.Font{}
	gdFontRaw   = map[string][]byte{}
)

// gdFont returns the font for a recipe font name: "ttf" (and "cff" when DocShareFonts) is loaded once
// per process; otherwise "cff" is parsed anew on every call from the cached file contents (about 2 ms).
func gdFont(name string) *canvas.Font {
	gdFontMu.Lock()
	defer gdFontMu.Unlock()
	shared := name != "cff" || DocShareFonts
	if shared {
		if f, ok := gdFontCache[name]; ok {
			return f
		}
	}
	file := gdFontTTF
	if name == "cff" {
		file = gdFontCFF
	}
	raw, ok := gdFontRaw[name]
	if !ok {
		var err error
		if raw, err = os.ReadFile(file); err != nil {
			panic("gendoc: cannot read font " + file + ": " + err.Error())
		}
		gdFontRaw[name] = raw
	}
	f, err := canvas.LoadFont(append([]byte{}, raw...), 0, canvas.FontRegular)
	if err != nil {
		panic("gendoc: cannot load font " + file + ": " + err.Error())
	}
	if shared {
		gdFontCache[name] = f
	}
	return f
}

func gdSplitmix(s *uint64) uint64 {
	*s += 0x9e3779b97f4a7c15
	z := *s
	z = (z ^ (z >> 30)) * 0xbf58476d1ce4e5b9
	z = (z ^ (z >> 27)) * 0x94d049bb133111eb
	return z ^ (z >> 31)
}

// gdImage builds the image of an image item: *image.RGBA (opaque) or *image.NRGBA (with alpha; the
// first pixel always has alpha < 255, others have alpha from {0, 64, 128, 255}).
func gdImage(it *DocItem) image.Image {
	w, h := it.ImgW, it.ImgH
	if w < 1 {
		w = 1
	}
	if h < 1 {
		h = 1
	}
	s := it.ImgSeed
	if !it.ImgAlpha {
		img := image.NewRGBA(image.Rect(0, 0, w, h))
		for y := 0; y < h; y++ {
			for x := 0; x < w; x++ {
				v := gdSplitmix(&s)
				img.SetRGBA(x, y, color.RGBA{uint8(v), uint8(v >> 8), uint8(v >> 16), 255})
			}
		}
		return img
	}
	img := image.NewNRGBA(image.Rect(0, 0, w, h))
	alphas := [4]uint8{0, 64, 128, 255}
	for y := 0; y < h; y++ {
		for x := 0; x < w; x++ {
			v := gdSplitmix(&s)
			a := alphas[(v>>24)&3]
			if x == 0 && y == 0 {
				a = alphas[(v>>24)%3]
			}
			img.SetNRGBA(x, y, color.NRGBA{uint8(v), uint8(v >> 8), uint8(v >> 16), a})
		}
	}
	return img
}

// gdStyle builds the canvas.Style of a path item.
func gdStyle(it *DocItem, grad canvas.Gradient) canvas.Style {
	style := canvas.DefaultStyle
	style.Fill = canvas.Paint{}
	style.Dashes = []float64{}
	if it.Gradient != "" && !it.GradStroke {
		style.Fill = canvas.Paint{Gradient: grad}
	} else if it.Fill != nil {
		style.Fill = canvas.Paint{Color: gdPremul(it.Fill)}
	}
	if it.Gradient != "" && it.GradStroke {
		style.Stroke = canvas.Paint{Gradient: grad}
	} else if it.Stroke != nil {
		style.Stroke = canvas.Paint{Color: gdPremul(it.Stroke)}
	}
	style.StrokeWidth = it.Width
	switch it.Join {
	case "bevel":
		style.StrokeJoiner = canvas.BevelJoin
	case "round":
		style.StrokeJoiner = canvas.RoundJoin
	case "miter":
		style.StrokeJoiner = canvas.MiterJoin
	case "arcs":
		style.StrokeJoiner = canvas.ArcsJoin
	}
	switch it.Cap {
	case "butt":
		style.StrokeCapper = canvas.ButtCap
	case "round":
		style.StrokeCapper = canvas.RoundCap
	case "square":
		style.StrokeCapper = canvas.SquareCap
	}
	if len(it.Dashes) > 0 {
		style.Dashes = append([]float64{}, it.Dashes...)
		style.DashOffset = it.DashOff
	}
	if it.EvenOdd {
		style.FillRule = canvas.EvenOdd
	}
	return style
}

func gdGradient(it *DocItem) canvas.Gradient {
	if it.Gradient == "radial" {
		q := []float64{50, 50, 0, 50, 50, 50}
		if len(it.Grad) == 6 {
			q = it.Grad
		}
		g := canvas.NewRadialGradient(canvas.Point{X: q[0], Y: q[1]}, q[2], canvas.Point{X: q[3], Y: q[4]}, q[5])
		for _, s := range it.Stops {
			g.Add(s.Off, gdPremul(s.Color))
		}
		return g
	}
	q := []float64{0, 0, 100, 100}
	if len(it.Grad) == 4 {
		q = it.Grad
	}
	g := canvas.NewLinearGradient(canvas.Point{X: q[0], Y: q[1]}, canvas.Point{X: q[2], Y: q[3]})
	for _, s := range it.Stops {
		g.Add(s.Off, gdPremul(s.Color))
	}
	return g
}

// BuildDoc rebuilds the document with the real library. It returns the bytes written so far and
// panicMsg != "" if a library call panicked ("<panic value> @<stage>", building stops at the first
// panic) or if Close returned an error ("closeerr:<error>").
func BuildDoc(r *DocRecipe) (pdfBytes []byte, panicMsg string) {
	var buf bytes.Buffer
	stage := "init"
	defer func() {
		if e := recover(); e != nil {
			panicMsg = fmt.Sprint(e) + " @" + stage
		}
		pdfBytes = buf.Bytes()
	}()
	if len(r.Pages) == 0 {
		return nil, "gendoc: recipe without pages"
	}
	var p *pdf.PDF
	var images []image.Image
	grads := map[int]canvas.Gradient{} // GradGroup -> the one gradient object of that group
	fonts := map[string]*canvas.Font{} // one *canvas.Font per font name within a document
	for pi := range r.Pages {
		pg := &r.Pages[pi]
		if pi == 0 {
			stage = "new"
			p = pdf.New(&buf, pg.W, pg.H, &pdf.Options{Compress: r.Compress, SubsetFonts: r.Subset, ImageEncoding: canvas.Lossless})
			if r.SetInfo {
				stage = "setinfo"
				p.SetInfo(r.Meta[0], r.Meta[1], r.Meta[2], r.Meta[3], r.Meta[4])
			}
			if r.Meta[5] != "" {
				stage = "setlang"
				p.SetLang(r.Meta[5])
			}
		} else {
			stage = fmt.Sprintf("newpage%d", pi)
			p.NewPage(pg.W, pg.H)
		}
		for ii := range pg.Items {
			it := &pg.Items[ii]
			stage = fmt.Sprintf("page%d.item%d.%s", pi, ii, it.Kind)
			m := gdMatrix(it.Matrix)
			switch it.Kind {
			case "path":
				path := canvas.MustParseSVGPath(it.Path)
				var grad canvas.Gradient
				if it.Gradient != "" {
					if it.GradGroup > 0 {
						if grad = grads[it.GradGroup]; grad == nil {
							grad = gdGradient(it)
							grads[it.GradGroup] = grad
						}
					} else {
						grad = gdGradient(it)
					}
				}
				p.RenderPath(path, gdStyle(it, grad), m)
			case "text":
				font := fonts[it.Font]
				if font == nil {
					font = gdFont(it.Font)
					fonts[it.Font] = font
				}
				face := font.Face(it.Size, gdPremul(it.Color))
				if it.FauxBold {
					face.FauxBold = gdFauxBold
				}
				text := canvas.NewTextLine(face, it.Text, canvas.Left)
				p.RenderText(text, m.Translate(it.X, it.Y))
			case "image":
				var img image.Image
				if it.ImgReuse > 0 && it.ImgReuse-1 < len(images) {
					img = images[it.ImgReuse-1]
				} else {
					img = gdImage(it)
				}
				images = append(images, img)
				if it.Lossy {
					p.SetImageEncoding(canvas.Lossy)
				} else {
					p.SetImageEncoding(canvas.Lossless)
				}
				p.RenderImage(img, m.Translate(it.X, it.Y).Scale(gdImgMmPerPx, gdImgMmPerPx))
			case "link":
				p.AddLink(it.URI, canvas.Rect{X0: it.Rect[0], Y0: it.Rect[1], X1: it.Rect[2], Y1: it.Rect[3]})
			default:
				panic("gendoc: unknown item kind " + it.Kind)
			}
		}
	}
	stage = "close"
	if err := p.Close(); err != nil {
		panicMsg = "closeerr:" + err.Error()
	}
	return
}

// ---------------------------------------------------------------------------------------------------
// features

// DocFeatures returns the sorted list of feature tags present in a recipe.
func DocFeatures(r *DocRecipe) []string {
	set := map[string]bool{}
	add := func(s string) { set[s] = true }
	add(fmt.Sprintf("pages=%d", len(r.Pages)))
	if r.Compress {
		add("compress")
	} else {
		add("nocompress")
	}
	if r.Subset {
		add("subset")
	} else {
		add("nosubset")
	}
	nImg := 0
	gradPage := map[int]int{} // GradGroup -> page of its first use
	for pi := range r.Pages {
		if len(r.Pages[pi].Items) == 0 {
			add("page:empty")
		}
		for ii := range r.Pages[pi].Items {
			it := &r.Pages[pi].Items[ii]
			switch it.Kind {
			case "path":
				add("path")
				fill, stroke := gdItemHasFill(it), gdItemHasStroke(it)
				switch {
				case fill && stroke:
					add("path:fill+stroke")
					if !gdItemSplitPaint(it) {
						add("path:fill+stroke:samealpha")
					} else {
						add("path:fill+stroke:diffalpha")
					}
				case fill:
					add("path:fill")
				case stroke:
					add("path:stroke")
				default:
					add("path:nopaint")
				}
				if it.EvenOdd {
					add("path:evenodd")
					if stroke && !fill {
						add("evenodd-stroke-only")
					}
					if gdItemSplitPaint(it) {
						add("evenodd-stroke-split")
					}
				}
				if stroke {
					if len(it.Dashes) > 0 {
						add("path:dashed")
						if it.DashOff < 0 {
							add("path:dashoff-negative")
						}
						if len(it.Dashes)%2 == 1 {
							add("path:dashes-odd")
						}
					}
					if it.Join != "" {
						add("path:join-" + it.Join)
					}
					if it.Cap != "" {
						add("path:cap-" + it.Cap)
					}
				}
				if it.Gradient != "" {
					add("path:gradient-" + it.Gradient)
					if it.GradStroke {
						add("path:gradient-stroke")
					}
					if it.GradGroup > 0 {
						if first, ok := gradPage[it.GradGroup]; !ok {
							gradPage[it.GradGroup] = pi
						} else if first == pi {
							add("path:gradient-shared-same-page")
						} else {
							add("path:gradient-shared-other-page")
							if first > 0 {
								add("path:gradient-shared-first-use-after-page1")
							}
						}
					}
					if gdStopsStitch(it.Stops) {
						add("gradient-stitch")
					}
					if gdStopsAlpha0(it.Stops) {
						add("gradient-alpha0")
					}
				}
				if gdItemExplicitStroke(it) {
					add("path:stroke-explicit")
					if gdPathCurvy(it.Path) {
						add("stroke-explicit-curves")
					}
				}
				if it.Matrix != nil {
					add("path:matrix")
					if !gdMatrixIsSimilarity(it.Matrix) {
						add("path:matrix-nonsimilar")
					}
				}
				if strings.Count(it.Path, "M") > 1 {
					add("path:subpaths2")
				}
				if strings.Contains(it.Path, "z") {
					add("path:closed")
				}
				if !strings.HasSuffix(it.Path, "z") {
					add("path:open")
				}
				if strings.ContainsAny(it.Path, "QCA") {
					add("path:curves")
				}
				for _, col := range [][]int{it.Fill, it.Stroke} {
					if len(col) >= 4 && col[3] != 0 {
						if col[3] < 255 {
							add("path:alpha")
						}
						if col[0] == col[1] && col[1] == col[2] {
							add("path:grey")
						}
					}
				}
			case "image":
				add("image")
				nImg++
				if it.ImgAlpha {
					add("image:alpha")
				}
				if it.Lossy {
					add("image:lossy")
				}
				if it.ImgReuse > 0 && it.ImgReuse < nImg {
					add("image:reused")
				}
				if it.Matrix != nil {
					add("image:matrix")
				}
			case "text":
				add("text:" + it.Font)
				if !gdIsASCII(it.Text) {
					add("text:nonascii")
				}
				if it.FauxBold {
					add("text:fauxbold")
				}
				if it.Matrix != nil {
					add("text:matrix")
				}
				if len(it.Color) >= 4 {
					if it.Color[3] == 0 {
						add("text-alpha0")
					} else if it.Color[3] < 255 {
						add("text:alpha")
					}
				}
			case "link":
				add("link")
			}
		}
	}
	none := true
	if r.SetInfo {
		for _, s := range r.Meta[:5] {
			if s == "" {
				continue
			}
			none = false
			if gdIsASCII(s) {
				add("meta:ascii")
			} else {
				add("meta:nonascii")
			}
			if gdMetaHasCR(s) {
				add("meta-cr")
			}
		}
		if none {
			add("meta:setinfo-empty")
		}
	}
	if none {
		add("meta:none")
	}
	if r.Meta[5] != "" {
		add("meta:lang")
		if gdMetaHasCR(r.Meta[5]) {
			add("meta-cr")
		}
	}
	out := make([]string, 0, len(set))
	for k := range set {
		out = append(out, k)
	}
	sort.Strings(out)
	return out
}
