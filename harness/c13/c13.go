package main

// C13 — every PDF produced is structurally valid.
//   STR   literal strings: real writeVal(string) vs the Lean model's writeString, read back by §7.3.4.2 readers
//   TXT   text strings: real `encode` closure of Close (through /Title) vs the model's encodeText
//   HIST  operation histories on the real pdfWriter/pdfPageWriter (hooks) vs the Lean writer model:
//         output length, FNV-1a hash of all bytes, pos, objOffsets, xref offset, page refs
//   DOC   whole documents from the real back-end, read by the independent Go validator and by the Lean L3 reader

import (
	"bytes"
	"compress/zlib"
	"encoding/ascii85"
	"encoding/json"
	"fmt"
	"image"
	"image/color"
	"math"
	"os"
	"path/filepath"
	"regexp"
	"sort"
	"strconv"
	"strings"
	"time"

	"github.com/tdewolff/canvas"
	"github.com/tdewolff/canvas/renderers/pdf"
	"verifharness/hc"
)

func main() { hc.Main("C13", run) }

func run(c *hc.Ctx) {
	n := c.N
	if c.Only == "" || c.Only == "str" {
		genSTR(c, 4*n)
	}
	if c.Only == "" || c.Only == "txt" {
		genTXT(c, 2*n)
	}
	if c.Only == "" || c.Only == "num" {
		genNUM(c, 3*n)
	}
	if c.Only == "" || c.Only == "parse" {
		genPARSE(c, 2*n)
		genPSTRM(c, n)
	}
	if c.Only == "" || c.Only == "hist" {
		genHIST(c, 3*n)
	}
	if c.Only == "" || c.Only == "doc" {
		genDOC(c, n)
	}
}

func hx(b []byte) string {
	if len(b) == 0 {
		return "-"
	}
	return fmt.Sprintf("%x", b)
}

func fnv64(b []byte) uint64 {
	h := uint64(0xcbf29ce484222325)
	for _, c := range b {
		h = (h ^ uint64(c)) * 0x100000001b3
	}
	return h
}

// ---------------------------------------------------------------------------------------------
// STR

var specialBytes = []byte{'(', ')', '\\', 13, 10, 9, 8, 12, 0, 255, 'n', 'r', '0', '7', '8', ' ', '%', '/', '<', '>', 0xFE}

func genBytes(c *hc.Ctx, maxLen int) []byte {
	n := c.Intn(maxLen + 1)
	b := make([]byte, n)
	mode := c.Intn(4)
	for i := range b {
		switch {
		case mode == 0:
			b[i] = byte(32 + c.Intn(95))
		case mode == 1 || c.Chance(0.5):
			b[i] = specialBytes[c.Intn(len(specialBytes))]
		default:
			b[i] = byte(c.Intn(256))
		}
	}
	return b
}

func genSTR(c *hc.Ctx, n int) {
	for it := 0; it < n; it++ {
		s := genBytes(c, 12)
		w := pdf.VerifNewWriter()
		start := w.Pos()
		w.WriteVal(pdf.VerifVal{Kind: 's', S: string(s)})
		out := w.Bytes()[start:]
		rd := "none"
		var back []byte
		ok := false
		if len(out) > 0 && out[0] == '(' {
			var used int
			back, used, ok = ReadLit(out[1:])
			if ok && used == len(out)-1 {
				rd = hx(back)
			} else {
				ok = false
			}
		}
		c.Case("STR "+hx(s), "=", "w="+hx(out)+" r="+rd)
		c.Evals++
		c.Distinct(string(s))
		hasCR := bytes.IndexByte(s, 13) >= 0
		if hasCR {
			c.Count("str:with-CR")
		} else if bytes.ContainsAny(s, "()\\") {
			c.Count("str:escapes")
		} else {
			c.Count("str:plain")
		}
		if !ok || !bytes.Equal(back, s) {
			kind := "string-roundtrip:other"
			if hasCR {
				kind = "string-roundtrip:raw-CR"
			}
			c.Fail(kind, fmt.Sprintf("literal string %q is written as %q which a conforming reader (PDF 32000-1 7.3.4.2) reads as %q", s, out, back),
				map[string]any{"string_hex": hx(s), "written_hex": hx(out)})
		}
	}
}

// ---------------------------------------------------------------------------------------------
// TXT

var runePools = [][]rune{
	[]rune("abcXYZ 019()\\"),
	[]rune("éüñçß¡¿©\u00a0\u00ad\u0085ÿ"), // Latin-1 incl. NO-BREAK SPACE, SOFT HYPHEN, a C1 control
	[]rune("čĊČďĎč഍ു"),                    // UTF-16 units containing the byte 0x0D
	[]rune("ЖжЯяЩ"),
	[]rune("漢字かな한"),
	[]rune("😀🎉𝔘𐍈"),
	[]rune("\r\n\t"),
}

func genRunes(c *hc.Ctx, maxLen int) []rune {
	n := 1 + c.Intn(maxLen)
	rs := make([]rune, n)
	nonASCII := c.Chance(0.6)
	latin1Only := nonASCII && c.Chance(0.3) // every character <= U+00FF
	for i := range rs {
		if latin1Only {
			p := c.Intn(2)
			rs[i] = runePools[p][c.Intn(len(runePools[p]))]
			continue
		}
		p := 0
		if nonASCII && c.Chance(0.6) {
			p = 1 + c.Intn(len(runePools)-2)
		} else if c.Chance(0.04) {
			p = len(runePools) - 1
		}
		rs[i] = runePools[p][c.Intn(len(runePools[p]))]
	}
	return rs
}

func runesTok(rs []rune) string {
	if len(rs) == 0 {
		return "-"
	}
	ss := make([]string, len(rs))
	for i, r := range rs {
		ss[i] = strconv.Itoa(int(r))
	}
	return strings.Join(ss, ",")
}

// rawLiteralAfter returns the raw literal string (including parentheses) that follows key in b.
func rawLiteralAfter(b []byte, key string) []byte {
	i := bytes.Index(b, []byte(key+"("))
	if i < 0 {
		return nil
	}
	j := i + len(key) + 1
	for j < len(b) {
		if b[j] == '\\' {
			j += 2
			continue
		}
		if b[j] == ')' {
			return b[i+len(key) : j+1]
		}
		j++
	}
	return nil
}

func genTXT(c *hc.Ctx, n int) {
	for it := 0; it < n; it++ {
		rs := genRunes(c, 8)
		w := pdf.VerifNewWriter()
		w.SetTitle(string(rs))
		if err := w.Close(); err != nil {
			c.Fail("close-error", err.Error(), nil)
			continue
		}
		raw := rawLiteralAfter(w.Bytes(), "/Title")
		dec := "none"
		var back []rune
		if len(raw) > 0 {
			if s, used, ok := ReadLit(raw[1:]); ok && used == len(raw)-1 {
				back = DecodeText(s)
				dec = runesTok(back)
			}
		}
		c.Case("TXT "+runesTok(rs), "=", "w="+hx(raw)+" d="+dec)
		c.Evals++
		c.Distinct(string(rs))
		ascii := true
		for _, r := range rs {
			if r >= 0x80 {
				ascii = false
			}
		}
		// does the stored text string carry the byte 0x0D (raw before 7b13040, escaped as \r since)?
		hasCR := bytes.IndexByte(raw, 13) >= 0 || bytes.Contains(raw, []byte("\\r")) && gdMetaHasCR(string(rs))
		switch {
		case hasCR:
			c.Count("txt:with-0x0D")
		case ascii:
			c.Count("txt:ascii")
		default:
			c.Count("txt:utf16")
		}
		if string(back) != string(rs) {
			kind := "info:other"
			if hasCR {
				kind = "info:raw-CR"
			}
			c.Fail(kind, fmt.Sprintf("title %q is stored as %q which reads back as %q", string(rs), raw, string(back)),
				map[string]any{"title": string(rs), "title_runes": runesTok(rs), "stored_hex": hx(raw)})
		}
	}
}

// ---------------------------------------------------------------------------------------------
// NUM: everything the writer prints for a finite float64 has the shape -?d*(.d+)? (hypothesis of
// C13.printed_number_wf / value_roundtrip, discharged on the real printer `dec`)

var numShape = regexp.MustCompile(`^-?[0-9]*(\.[0-9]+)?$`)

func genNUM(c *hc.Ctx, n int) {
	for it := 0; it < n; it++ {
		var f float64
		switch c.Intn(6) {
		case 0:
			f = floatPool[c.Intn(len(floatPool))]
		case 1:
			f = math.Float64frombits(c.U64()) // any bit pattern
			if math.IsNaN(f) || math.IsInf(f, 0) {
				f = 0
			}
		case 2:
			f = c.Range(-1, 1) * math.Pow(10, float64(c.Intn(40)-20))
		case 3:
			f = float64(int64(c.U64()>>uint(c.Intn(64)))) * []float64{1, -1}[c.Intn(2)]
		case 4:
			f = float64(c.Intn(2000)-1000) / float64(1+c.Intn(1000))
		default:
			f = []float64{0, math.Copysign(0, -1), 1e-9, -1e-9, 5e-9, 4.9e-9, math.MaxFloat64, -math.MaxFloat64, math.SmallestNonzeroFloat64, 2147483647, 2147483648, -2147483648, -2147483649, 0.99999999999, 1e8, 123456789.123456789}[c.Intn(16)]
		}
		p := pdf.VerifDec(f)
		ok := numShape.MatchString(p) && strings.ContainsAny(p, "0123456789")
		c.Case("NUM "+hx([]byte(p)), "=", hc.B(ok))
		c.Evals++
		c.Distinct(p)
		switch {
		case strings.Contains(p, ".") && strings.HasPrefix(strings.TrimPrefix(p, "-"), "."):
			c.Count("num:.frac")
		case strings.Contains(p, "."):
			c.Count("num:int.frac")
		case len(p) > 12:
			c.Count("num:long-int")
		default:
			c.Count("num:int")
		}
		if !ok {
			c.Fail("number:not-decimal", fmt.Sprintf("dec(%v) prints %q which is not a PDF number", f, p), map[string]any{"float_bits": hc.H(f), "printed": p})
		}
	}
}

// ---------------------------------------------------------------------------------------------
// PARSE: nested values through the real writeVal, read back by the Lean list parser (the one the theorem
// C13.value_roundtrip is about) and by the Lean ByteArray reader; expected = the original tree.

func showVal(v pdf.VerifVal) string {
	switch v.Kind {
	case 'b':
		if v.B {
			return "T"
		}
		return "F"
	case 'i':
		return "#" + strconv.Itoa(v.I)
	case 'f':
		return "#" + pdf.VerifDec(v.F)
	case 's':
		return "(" + fmt.Sprintf("%x", v.S) + ")"
	case 'r':
		return "R" + strconv.Itoa(v.I)
	case 'n', 'F':
		return "/" + fmt.Sprintf("%x", v.S)
	case 'a':
		sb := "["
		for _, x := range v.Arr {
			sb += showVal(x) + " "
		}
		return sb + "]"
	case 'd':
		idx := map[string]int{}
		var others []string
		for i, k := range v.Keys {
			idx[k] = i
			if k != "Type" && k != "Subtype" {
				others = append(others, k)
			}
		}
		sort.Strings(others)
		order := []string{}
		if _, ok := idx["Type"]; ok {
			order = append(order, "Type")
		}
		if _, ok := idx["Subtype"]; ok {
			order = append(order, "Subtype")
		}
		order = append(order, others...)
		sb := "{"
		for _, k := range order {
			sb += fmt.Sprintf("%x", k) + "=" + showVal(v.Vals[idx[k]]) + " "
		}
		return sb + "}"
	}
	return "?"
}

func hasStream(v pdf.VerifVal) bool {
	if v.Kind == 'S' {
		return true
	}
	for _, x := range v.Arr {
		if hasStream(x) {
			return true
		}
	}
	for _, x := range v.Vals {
		if hasStream(x) {
			return true
		}
	}
	return false
}

// PSTRM: stream values through the real writeVal, read back by the Lean stream-object parser of
// C13.stream_roundtrip: dictionary with the /Length the writer set, and exactly the (filtered) data.
func genPSTRM(c *hc.Ctx, n int) {
	g := &valGen{c: c, refN: 20, quiet: true}
	for it := 0; it < n; it++ {
		v := g.gen(3)
		if v.Kind != 'S' {
			it--
			continue
		}
		nested := false
		for _, x := range v.Vals {
			nested = nested || hasStream(x)
		}
		if nested {
			it--
			continue
		}
		body := filtered(v)
		w := pdf.VerifNewWriter()
		start := w.Pos()
		if msg := hc.Try(func() { w.WriteVal(v) }); msg != "" {
			c.Fail("panic:writeVal", msg, map[string]any{"value": showVal(v)})
			continue
		}
		out := w.Bytes()[start:]
		d := pdf.VerifVal{Kind: 'd'}
		for i, k := range v.Keys {
			if k != "Length" {
				d.Keys = append(d.Keys, k)
				d.Vals = append(d.Vals, v.Vals[i])
			}
		}
		d.Keys = append(d.Keys, "Length")
		d.Vals = append(d.Vals, pdf.VerifVal{Kind: 'i', I: len(body)})
		c.Case("PSTRM "+hx(out), "=", showVal(d)+" body="+hx(body)+" rest=0a")
		c.Evals++
		c.Distinct(string(out))
		c.Count("pstrm:cases")
	}
}

func genPARSE(c *hc.Ctx, n int) {
	g := &valGen{c: c, refN: 20, quiet: true}
	for it := 0; it < n; it++ {
		v := g.gen(4)
		if hasStream(v) {
			it--
			continue
		}
		w := pdf.VerifNewWriter()
		start := w.Pos()
		if msg := hc.Try(func() { w.WriteVal(v) }); msg != "" {
			c.Fail("panic:writeVal", msg, map[string]any{"value": showVal(v)})
			continue
		}
		out := w.Bytes()[start:]
		want := showVal(v)
		c.Case("PARSE "+hx(out), "=", want+" same=true")
		c.Evals++
		c.Distinct(want)
		c.Count("parse:kind-" + string(v.Kind))
		// Go-side oracle: the independent Go parser reads the same tree back
		pvv, used, ok := (&rd{b: out}).parseObj(true, 0, 0)
		var toks []string
		if ok {
			pvTokens(pvv, nil, false, &toks)
		}
		var wantToks []string
		g.tokens(canonVal(v), &wantToks)
		if !ok || used != len(out) || normToks(toks) != normToks(wantToks) {
			c.Fail("value-roundtrip", fmt.Sprintf("value %s is written as %q which does not read back as the same tree", want, out), map[string]any{"value": want, "written_hex": hx(out)})
		}
	}
}

// canonVal reorders dictionary entries the way a reader sees them (Type, Subtype, sorted keys).
func canonVal(v pdf.VerifVal) pdf.VerifVal {
	switch v.Kind {
	case 'a':
		o := pdf.VerifVal{Kind: 'a'}
		for _, x := range v.Arr {
			o.Arr = append(o.Arr, canonVal(x))
		}
		return o
	case 'd':
		idx := map[string]int{}
		var others []string
		for i, k := range v.Keys {
			idx[k] = i
			if k != "Type" && k != "Subtype" {
				others = append(others, k)
			}
		}
		sort.Strings(others)
		order := []string{}
		if _, ok := idx["Type"]; ok {
			order = append(order, "Type")
		}
		if _, ok := idx["Subtype"]; ok {
			order = append(order, "Subtype")
		}
		order = append(order, others...)
		o := pdf.VerifVal{Kind: 'd'}
		for _, k := range order {
			o.Keys = append(o.Keys, k)
			o.Vals = append(o.Vals, canonVal(v.Vals[idx[k]]))
		}
		return o
	}
	return v
}

// normToks: integers and floats are both plain number text for a reader ("i5" vs "f35")
func normToks(t []string) string {
	o := make([]string, len(t))
	for i, x := range t {
		if strings.HasPrefix(x, "i") {
			x = "f" + fmt.Sprintf("%x", x[1:])
		}
		o[i] = x
	}
	return strings.Join(o, " ")
}

// ---------------------------------------------------------------------------------------------
// HIST

type valGen struct {
	c     *hc.Ctx
	refN  int
	quiet bool // do not count stream kinds
}

var keyPool = []string{"Type", "Subtype", "Length", "Filter", "A", "B", "Zz", "Kids", "Count", "a", "Typ", "Subtypes", "Len", "X1", "x1"}
var namePool = []string{"Font", "Page", "X", "DeviceRGB", "A0", "F12", "Im0", "Name.With-Chars_1"}
var floatPool = []float64{0, 1, -1, 0.5, 2.8346457, 1e-9, 123456.789, -0.000001, 1e10, 3e9, -5e9, 255.0 / 255.0, 1.0 / 3.0, 595.27559, 72 / 25.4}

func (g *valGen) tokens(v pdf.VerifVal, sb *[]string) {
	switch v.Kind {
	case 'b':
		if v.B {
			*sb = append(*sb, "b1")
		} else {
			*sb = append(*sb, "b0")
		}
	case 'i':
		*sb = append(*sb, "i"+strconv.Itoa(v.I))
	case 'f':
		*sb = append(*sb, "f"+fmt.Sprintf("%x", pdf.VerifDec(v.F)))
	case 's':
		*sb = append(*sb, "s"+fmt.Sprintf("%x", v.S))
	case 'r':
		*sb = append(*sb, "r"+strconv.Itoa(v.I))
	case 'n', 'F':
		*sb = append(*sb, "n"+fmt.Sprintf("%x", v.S))
	case 'a':
		*sb = append(*sb, "[")
		for _, x := range v.Arr {
			g.tokens(x, sb)
		}
		*sb = append(*sb, "]")
	case 'd', 'S':
		if v.Kind == 'S' {
			*sb = append(*sb, "S")
		}
		*sb = append(*sb, "<<")
		for i, k := range v.Keys {
			*sb = append(*sb, "k"+fmt.Sprintf("%x", k))
			g.tokens(v.Vals[i], sb)
		}
		*sb = append(*sb, ">>")
		if v.Kind == 'S' {
			*sb = append(*sb, "x"+fmt.Sprintf("%x", filtered(v)))
		}
	}
}

// filtered applies the stream filters the way the PDF specification requires the encoder to (the
// reverse of the decoding order given by /Filter), independently of writer.go.
func filtered(v pdf.VerifVal) []byte {
	var filters []string
	for i, k := range v.Keys {
		if k != "Filter" {
			continue
		}
		f := v.Vals[i]
		if f.Kind == 'F' {
			filters = []string{f.S}
		} else if f.Kind == 'a' {
			for j := len(f.Arr) - 1; j >= 0; j-- {
				if f.Arr[j].Kind == 'F' {
					filters = append(filters, f.Arr[j].S)
				}
			}
		}
	}
	b := v.Stream
	for _, f := range filters {
		switch f {
		case "ASCII85Decode":
			var buf bytes.Buffer
			e := ascii85.NewEncoder(&buf)
			e.Write(b)
			e.Close()
			buf.WriteString("~>")
			b = buf.Bytes()
		case "FlateDecode":
			b = deflate(b)
		}
	}
	return b
}

func deflate(b []byte) []byte {
	var buf bytes.Buffer
	z := zlib.NewWriter(&buf)
	z.Write(b)
	z.Close()
	return buf.Bytes()
}

func (g *valGen) gen(depth int) pdf.VerifVal {
	c := g.c
	k := c.Intn(10)
	if depth <= 0 && k >= 6 {
		k = c.Intn(6)
	}
	switch k {
	case 0:
		return pdf.VerifVal{Kind: 'b', B: c.Bool()}
	case 1:
		vals := []int{0, 1, -1, 7, 42, -300, 65535, 1234567890, -2147483648}
		return pdf.VerifVal{Kind: 'i', I: vals[c.Intn(len(vals))]}
	case 2:
		f := floatPool[c.Intn(len(floatPool))]
		if c.Chance(0.3) {
			f = c.Range(-1000, 1000)
		}
		return pdf.VerifVal{Kind: 'f', F: f}
	case 3:
		return pdf.VerifVal{Kind: 's', S: string(genBytes(c, 8))}
	case 4:
		return pdf.VerifVal{Kind: 'r', I: 1 + c.Intn(g.refN+3)}
	case 5:
		kind := byte('n')
		name := namePool[c.Intn(len(namePool))]
		if c.Chance(0.2) {
			kind = 'F'
			name = []string{"FlateDecode", "ASCII85Decode", "DCTDecode"}[c.Intn(3)]
		}
		return pdf.VerifVal{Kind: kind, S: name}
	case 6, 7:
		n := c.Intn(4)
		v := pdf.VerifVal{Kind: 'a'}
		for i := 0; i < n; i++ {
			v.Arr = append(v.Arr, g.gen(depth-1))
		}
		return v
	case 8:
		return g.dict('d', depth)
	default:
		v := g.dict('S', depth)
		// streams: choose the Filter entry deliberately
		keys, vals := []string{}, []pdf.VerifVal{}
		for i, k := range v.Keys {
			if k != "Filter" {
				keys = append(keys, k)
				vals = append(vals, v.Vals[i])
			}
		}
		switch c.Intn(6) {
		case 0:
			keys, vals = append(keys, "Filter"), append(vals, pdf.VerifVal{Kind: 'F', S: "FlateDecode"})
			g.count("hist:stream-flate")
		case 1:
			keys, vals = append(keys, "Filter"), append(vals, pdf.VerifVal{Kind: 'F', S: "ASCII85Decode"})
			g.count("hist:stream-a85")
		case 2:
			keys, vals = append(keys, "Filter"), append(vals, pdf.VerifVal{Kind: 'a', Arr: []pdf.VerifVal{{Kind: 'F', S: "ASCII85Decode"}, {Kind: 'F', S: "FlateDecode"}}})
			g.count("hist:stream-a85+flate")
		case 3:
			keys, vals = append(keys, "Filter"), append(vals, pdf.VerifVal{Kind: 'F', S: "DCTDecode"})
			g.count("hist:stream-dct")
		default:
			g.count("hist:stream-nofilter")
		}
		v.Keys, v.Vals = keys, vals
		v.Stream = genBytes(c, 40)
		return v
	}
}

func (g *valGen) count(k string) {
	if !g.quiet {
		g.c.Count(k)
	}
}

func (g *valGen) dict(kind byte, depth int) pdf.VerifVal {
	c := g.c
	v := pdf.VerifVal{Kind: kind}
	n := c.Intn(5)
	used := map[string]bool{}
	for i := 0; i < n; i++ {
		k := keyPool[c.Intn(len(keyPool))]
		if used[k] {
			continue
		}
		used[k] = true
		v.Keys = append(v.Keys, k)
		v.Vals = append(v.Vals, g.gen(depth-1))
	}
	return v
}

// pvTokens turns a parsed object (from the validator's parser) back into protocol tokens.
func pvTokens(v *pv, body []byte, has bool, sb *[]string) {
	if has {
		*sb = append(*sb, "S")
	}
	switch v.k {
	case pvBool:
		if v.b {
			*sb = append(*sb, "b1")
		} else {
			*sb = append(*sb, "b0")
		}
	case pvNum:
		*sb = append(*sb, "f"+fmt.Sprintf("%x", v.s))
	case pvStr:
		*sb = append(*sb, "s"+fmt.Sprintf("%x", v.s))
	case pvName:
		*sb = append(*sb, "n"+fmt.Sprintf("%x", v.s))
	case pvRef:
		*sb = append(*sb, "r"+strconv.Itoa(v.n))
	case pvArr:
		*sb = append(*sb, "[")
		for _, x := range v.arr {
			pvTokens(x, nil, false, sb)
		}
		*sb = append(*sb, "]")
	case pvDict:
		*sb = append(*sb, "<<")
		for i, k := range v.keys {
			*sb = append(*sb, "k"+fmt.Sprintf("%x", k))
			pvTokens(v.vals[i], nil, false, sb)
		}
		*sb = append(*sb, ">>")
	default:
		*sb = append(*sb, "?")
	}
	if has {
		*sb = append(*sb, "x"+fmt.Sprintf("%x", body))
	}
}

var histFonts []*canvas.Font

func loadHistFonts() {
	if histFonts != nil {
		return
	}
	for _, f := range []string{"/repo/resources/DejaVuSerif.ttf", "/repo/resources/Dynalight-Regular.otf"} {
		// two distinct *canvas.Font objects per file: identity is by pointer
		for k := 0; k < 2; k++ {
			ft, err := canvas.LoadFontFile(f, canvas.FontRegular)
			if err != nil {
				panic(err)
			}
			histFonts = append(histFonts, ft)
		}
	}
}

const dateLayout = "D:20060102150405Z0700"

func genHIST(c *hc.Ctx, n int) {
	loadHistFonts()
	for it := 0; it < n; it++ {
		oneHist(c)
	}
}

func oneHist(c *hc.Ctx) {
	for attempt := 0; attempt < 3; attempt++ {
		if histAttempt(c) {
			return
		}
		c.Count("hist:retry-clock")
	}
}

func histGradients() ([]canvas.Gradient, []string) {
	mk := func(radial bool, offs []float64) canvas.Gradient {
		cols := []color.RGBA{{255, 0, 0, 255}, {0, 128, 0, 255}, {0, 0, 255, 255}}
		if radial {
			g := canvas.NewRadialGradient(canvas.Point{X: 10, Y: 10}, 0, canvas.Point{X: 10, Y: 10}, 20)
			for i, o := range offs {
				g.Add(o, cols[i])
			}
			return g
		}
		g := canvas.NewLinearGradient(canvas.Point{X: 0, Y: 0}, canvas.Point{X: 30, Y: 5})
		for i, o := range offs {
			g.Add(o, cols[i])
		}
		return g
	}
	return []canvas.Gradient{mk(false, []float64{0, 1}), mk(true, []float64{0, 1}), mk(false, []float64{0, 1}), mk(false, []float64{0, 0.4, 1})},
		[]string{"L0", "R1", "L0", "L3"}
}

// three tiny images: opaque, with alpha (soft mask object), opaque drawn lossy (DCT)
func histImages(c *hc.Ctx) []image.Image {
	mk := func(alpha bool) image.Image {
		im := image.NewNRGBA(image.Rect(0, 0, 2, 2))
		for i := range im.Pix {
			im.Pix[i] = byte(c.Intn(256))
			if i%4 == 3 && !(alpha && i > 4) {
				im.Pix[i] = 255
			}
		}
		return im
	}
	return []image.Image{mk(false), mk(true), mk(false)}
}

func histAttempt(c *hc.Ctx) bool {
	w := pdf.VerifNewWriter()
	g := &valGen{c: c}
	var ops []string
	var zs [][2][]byte
	compress := true
	hasPage := false
	inText := false
	usedFont := false
	var fontRefs []int // refs handed out for embedded fonts (H and V), in order of reservation
	seenRef := map[int]bool{}
	alphas := []float64{1, 0.5, 0.25, 0, 0.75}
	// gradients: g2 has the same value as g0 but is another object (the writer compares values);
	// the SAME objects are used on every page of the history
	grads, gradKeys := histGradients()
	var pageKeys [][]string // per page (in NewPage order): distinct gradient values in order of first use
	var curKeys []string
	closePageKeys := func() {
		if hasPage {
			pageKeys = append(pageKeys, curKeys)
		}
		curKeys = nil
	}
	var imageToks []string
	nImages := 0
	imgSeen := map[int]bool{}
	imgs := histImages(c)
	withFonts := c.Chance(0.5)
	// whole-font embedding (SetFontSubsetting(false)): writeFont then writes a CIDToGIDMap object between
	// the font program and the late font dictionary. Only with the (small) CFF fonts, to keep lines short.
	noSubset := withFonts && c.Chance(0.15)
	if noSubset {
		w.SetFontSubsetting(false)
		c.Count("hist:nosubset")
	}
	fontID := func() int {
		if noSubset {
			return 2 + c.Intn(2)
		}
		return c.Intn(len(histFonts))
	}
	withPanics := c.Chance(0.08)
	nops := 2 + c.Intn(24)
	if c.Tier == "thorough" && c.Chance(0.3) {
		nops = 25 + c.Intn(60) // long histories: many pages, many reserved fonts, name counters beyond 9
	}
	pageLen := func() int {
		if !hasPage {
			return -1
		}
		return len(w.PageBytes())
	}
	branch := func(op string, before int) {
		if before < 0 {
			return
		}
		if len(w.PageBytes()) == before {
			c.Count("branch:" + op + "-unchanged")
		} else {
			c.Count("branch:" + op + "-emits")
		}
	}
	panicked := ""
	flushTable := func() {
		if hasPage && compress {
			raw := w.PageBytes()
			if len(raw) > 0 && raw[0] == ' ' {
				raw = raw[1:]
			}
			zs = append(zs, [2][]byte{raw, deflate(raw)})
		}
	}
	do := func(f func()) {
		if msg := hc.Try(f); msg != "" {
			panicked = msg
		}
	}
	cmPrefix := func() string {
		d := pdf.VerifDec(pdf.VerifPtPerMm)
		return fmt.Sprintf(" %v 0 0 %v 0 0 cm", d, d)
	}
	for i := 0; i < nops && panicked == ""; i++ {
		k := c.Intn(20)
		switch {
		case k == 0:
			b := c.Bool()
			w.SetCompression(b)
			compress = b
			ops = append(ops, "SC", hc.B(b))
			c.Count("hist:op-setcompress")
		case k == 1:
			f := c.Intn(6)
			rs := genRunes(c, 5)
			if c.Chance(0.1) {
				rs = nil
			}
			s := string(rs)
			[]func(string){w.SetTitle, w.SetSubject, w.SetKeywords, w.SetAuthor, w.SetCreator, w.SetLang}[f](s)
			ops = append(ops, "MT", strconv.Itoa(f), runesTok(rs))
			c.Count("hist:op-setmeta")
		case k <= 5:
			v := g.gen(3)
			var toks []string
			g.tokens(v, &toks)
			ref := 0
			do(func() { ref = w.WriteObject(v) })
			g.refN = ref
			ops = append(ops, "W")
			ops = append(ops, toks...)
			c.Count("hist:op-writeobject")
		case k == 6 && withFonts:
			id := fontID()
			vert := c.Chance(0.3)
			nb := len(w.Offsets())
			ref := w.GetFont(histFonts[id], vert)
			if len(w.Offsets()) > nb {
				c.Count("branch:getfont-reserves")
			} else {
				c.Count("branch:getfont-cached")
			}
			if !seenRef[ref] {
				seenRef[ref] = true
				fontRefs = append(fontRefs, ref)
			}
			usedFont = true
			ops = append(ops, "GF", strconv.Itoa(id), hc.B(vert))
			c.Count("hist:op-getfont")
		case k <= 8:
			wd, ht := float64(10+c.Intn(200)), c.Range(10, 300)
			closePageKeys()
			flushTable()
			if msg := hc.Try(func() { w.NewPage(wd, ht) }); msg != "" {
				c.Fail("panic:newpage", "NewPage (writePage of the previous page) panicked: "+msg, map[string]any{"ops": strings.Join(ops, " ")})
				return true
			}
			hasPage, inText = true, false
			ops = append(ops, "NP", hx([]byte(pdf.VerifDec(wd*pdf.VerifPtPerMm))), hx([]byte(pdf.VerifDec(ht*pdf.VerifPtPerMm))), hx([]byte(cmPrefix())))
			c.Count("hist:op-newpage")
		default:
			if !hasPage && !withPanics {
				i--
				if c.Chance(0.5) {
					// make progress: open a page
					closePageKeys()
					flushTable()
					if msg := hc.Try(func() { w.NewPage(100, 100) }); msg != "" {
						c.Fail("panic:newpage", "NewPage (writePage of the previous page) panicked: "+msg, map[string]any{"ops": strings.Join(ops, " ")})
						return true
					}
					hasPage, inText = true, false
					ops = append(ops, "NP", hx([]byte(pdf.VerifDec(100*pdf.VerifPtPerMm))), hx([]byte(pdf.VerifDec(100*pdf.VerifPtPerMm))), hx([]byte(cmPrefix())))
					c.Count("hist:op-newpage")
				}
				continue
			}
			switch c.Intn(11) {
			case 9, 10:
				gi := c.Intn(len(grads))
				stroke := c.Chance(0.4)
				paint := canvas.Paint{Gradient: grads[gi]}
				b0 := pageLen()
				if stroke {
					do(func() { w.SetStrokePaint(paint) })
				} else {
					do(func() { w.SetFillPaint(paint) })
				}
				branch("setgradient", b0)
				if hasPage {
					known := false
					for _, k := range curKeys {
						known = known || k == gradKeys[gi]
					}
					if known {
						c.Count("branch:getpattern-name-reused-or-paint-unchanged")
					} else {
						c.Count("branch:getpattern-new-name")
					}
				}
				ops = append(ops, "SG", hc.B(stroke), hx([]byte(gradKeys[gi])), hx([]byte(pdf.VerifDec(1.0))))
				if hasPage {
					dup := false
					for _, k := range curKeys {
						dup = dup || k == gradKeys[gi]
					}
					if !dup {
						curKeys = append(curKeys, gradKeys[gi])
					}
					if len(pageKeys) > 0 {
						c.Count("hist:gradient-on-later-page")
					}
				}
				c.Count("hist:op-setgradient")
			case 8:
				id := c.Intn(len(imgs))
				lossy := id == 2
				m := canvas.Identity.Translate(c.Range(0, 50), c.Range(0, 50)).Scale(c.Range(0.5, 3), c.Range(0.5, 3))
				if c.Chance(0.3) {
					m = m.Rotate(float64(c.Intn(8)) * 45)
				}
				if !hasPage {
					do(func() { w.DrawImage(imgs[id], lossy, m) })
					ops = append(ops, "DI", strconv.Itoa(id), "-", "-", "-")
					break
				}
				before := w.PageBytes()
				nBefore := len(w.Offsets())
				do(func() { w.DrawImage(imgs[id], lossy, m) })
				if panicked != "" {
					break
				}
				d := w.PageBytes()[len(before):]
				i := bytes.Index(d, []byte("h W n"))
				j := bytes.LastIndex(d, []byte(" cm /Im"))
				if i < 0 || j < i {
					c.Fail("hist:drawimage-shape", "unexpected DrawImage emission", map[string]any{"emitted": string(d)})
					return true
				}
				// emission: [" /A<k> gs"] " q … h W n" " a b c d e f" " cm /Im<k> Do Q"
				q0 := bytes.Index(d, []byte(" q "))
				if q0 < 0 || q0 > i {
					c.Fail("hist:drawimage-shape", "unexpected DrawImage emission", map[string]any{"emitted": string(d)})
					return true
				}
				clip, rest := d[q0:i+5], d[i+5:j]
				ops = append(ops, "DI", strconv.Itoa(id), hx(clip), hx(rest), hx([]byte(pdf.VerifDec(1.0))))
				if !imgSeen[id] {
					imgSeen[id] = true
					// the objects embedImage wrote (soft mask?, image): recover their values from the output
					offs := w.Offsets()
					out := w.Bytes()
					r := &rd{b: out}
					var toks []string
					for n := nBefore; n < len(offs); n++ {
						p := r.regEnd(offs[n])
						p = r.regEnd(r.sws(p))
						p = r.sws(p) + 3
						v, p3, ok := r.parseObj(true, p, 0)
						p4 := r.sws(p3)
						if !ok || !r.startsAt(p4, "stream") {
							c.Fail("hist:image-object-unparsable", "cannot parse object written by embedImage", map[string]any{"obj": n + 1})
							return true
						}
						ln, _ := v.get("Length").nat()
						pvTokens(v, r.slice(p4+7, p4+7+ln), true, &toks)
					}
					imageToks = append(imageToks, strconv.Itoa(id), strconv.Itoa(len(offs)-nBefore))
					imageToks = append(imageToks, toks...)
					nImages++
					c.Count(fmt.Sprintf("hist:image-new-%dobj", len(offs)-nBefore))
				} else {
					c.Count("hist:image-cached")
				}
				c.Count("hist:op-drawimage")
			case 0, 1:
				b := []byte([]string{" 0 0 m 10 10 l S", " q 1 0 0 1 5 5 cm Q", " 1 0 0 rg", "(x)", " ", " f*"}[c.Intn(6)])
				if c.Chance(0.2) {
					b = genBytes(c, 10)
				}
				do(func() { w.PageWrite(b) })
				ops = append(ops, "PW", hx(b))
				c.Count("hist:op-pagewrite")
			case 2, 3:
				a := alphas[c.Intn(len(alphas))]
				b0, g0 := pageLen(), 0
				if hasPage {
					g0 = bytes.Count(w.PageBytes(), []byte(" gs"))
				}
				do(func() { w.SetAlpha(a) })
				branch("setalpha", b0)
				_ = g0
				ops = append(ops, "SA", hc.H(a), hx([]byte(pdf.VerifDec(a))))
				c.Count("hist:op-setalpha")
			case 4:
				uri := string(genBytes(c, 10))
				r := canvas.Rect{X0: c.Range(0, 50), Y0: c.Range(0, 50), X1: c.Range(50, 100), Y1: c.Range(50, 100)}
				do(func() { w.AddURIAction(uri, r) })
				p := func(f float64) string { return hx([]byte(pdf.VerifDec(f * pdf.VerifPtPerMm))) }
				ops = append(ops, "URI", hx([]byte(uri)), p(r.X0), p(r.Y0), p(r.X1), p(r.Y1))
				c.Count("hist:op-adduri")
			case 5:
				// text-object bracket; only a panic-history issues it in the wrong state
				if inText == false || withPanics && c.Chance(0.3) {
					do(func() { w.StartTextObject() })
					ops = append(ops, "BT")
					inText = true
					c.Count("hist:op-BT")
				} else {
					do(func() { w.EndTextObject() })
					ops = append(ops, "ET")
					inText = false
					c.Count("hist:op-ET")
				}
			case 6:
				if !inText && !(withPanics && c.Chance(0.3)) {
					continue
				}
				m := c.Intn(3)
				do(func() { w.SetTextRenderMode(m) })
				ops = append(ops, "TR", strconv.Itoa(m))
				c.Count("hist:op-Tr")
			case 7:
				if !withFonts {
					continue
				}
				if !inText && !(withPanics && c.Chance(0.3)) {
					do(func() { w.StartTextObject() })
					ops = append(ops, "BT")
					inText = true
					c.Count("hist:op-BT")
				}
				id := fontID()
				size := []float64{12, 10.5, 12, 8}[c.Intn(4)]
				vert := c.Chance(0.25)
				before := len(w.Offsets())
				b0 := pageLen()
				do(func() { w.SetFont(histFonts[id], size, vert) })
				branch("setfont", b0)
				if panicked == "" {
					if len(w.Offsets()) > before {
						c.Count("branch:getfont-reserves")
					} else {
						c.Count("branch:getfont-cached")
					}
				}
				if panicked == "" {
					offs := w.Offsets()
					if len(offs) > before {
						ref := len(offs)
						if !seenRef[ref] {
							seenRef[ref] = true
							fontRefs = append(fontRefs, ref)
						}
					}
					usedFont = true
				}
				ops = append(ops, "TF", strconv.Itoa(id), hc.H(size), hx([]byte(pdf.VerifDec(size))), hc.B(vert))
				c.Count("hist:op-Tf")
			}
		}
	}
	doClose := panicked == "" && c.Chance(0.9)
	date := ""
	var fontToks []string
	nFontEntries := 0
	goOut := ""
	if panicked != "" {
		goOut = "PANIC"
		c.Count("hist:panic")
	} else if doClose {
		closePageKeys()
		flushTable()
		date = time.Now().Format(dateLayout)
		posBefore := w.Pos()
		pagePending := w.HasPage()
		var err error
		if msg := hc.Try(func() { err = w.Close() }); msg != "" {
			c.Fail("panic:close", "Close panicked: "+msg, map[string]any{"ops": strings.Join(ops, " ")})
			return true
		}
		if err != nil {
			c.Fail("close-error", err.Error(), nil)
			return true
		}
		if date != time.Now().Format(dateLayout) {
			return false // clock ticked between our reading and Close's: retry
		}
		out := w.Bytes()
		offs := w.Offsets()
		if usedFont {
			// recover the values of the objects writeFont wrote (font programs, ToUnicode, dictionaries):
			// they are parameters of the model; what the model decides is where they go and what the table records.
			type oo struct{ num, off int }
			var order []oo
			for i, o := range offs {
				if o >= posBefore {
					order = append(order, oo{i + 1, o})
				}
			}
			sort.Slice(order, func(a, b int) bool { return order[a].off < order[b].off })
			if pagePending && len(order) >= 2 {
				order = order[2:]
			}
			isFont := map[int]bool{}
			for _, r := range fontRefs {
				isFont[r] = true
			}
			r := &rd{b: out}
			var pending []string
			npre := 0
			for _, e := range order {
				if e.num <= 3 {
					break
				}
				p := r.regEnd(e.off)
				p = r.regEnd(r.sws(p))
				p = r.sws(p) + 3
				v, p3, ok := r.parseObj(true, p, 0)
				if !ok {
					c.Fail("hist:font-object-unparsable", "cannot parse object written by writeFont", map[string]any{"obj": e.num})
					return true
				}
				var toks []string
				p4 := r.sws(p3)
				if r.startsAt(p4, "stream") {
					ln, _ := v.get("Length").nat()
					pvTokens(v, r.slice(p4+7, p4+7+ln), true, &toks)
				} else {
					pvTokens(v, nil, false, &toks)
				}
				if isFont[e.num] {
					fontToks = append(fontToks, strconv.Itoa(e.num), strconv.Itoa(npre))
					fontToks = append(fontToks, pending...)
					fontToks = append(fontToks, toks...)
					nFontEntries++
					pending, npre = nil, 0
				} else {
					pending = append(pending, toks...)
					npre++
				}
			}
			c.Count("hist:with-fonts")
		}
		goOut = fmt.Sprintf("%d %016x x=%d pos=%d o=%s p=%s", len(out), fnv64(out), xrefOffsetOf(out), w.Pos(), intsTok(offs), intsTok(w.Pages()))
		c.Count("hist:closed")
		// oracle on the real bytes: the property predicate for the object table, judged independently
		judgeTable(c, out, offs, ops)
	} else {
		out := w.Bytes()
		goOut = fmt.Sprintf("%d %016x pos=%d o=%s p=%s", len(out), fnv64(out), w.Pos(), intsTok(w.Offsets()), intsTok(w.Pages()))
		c.Count("hist:not-closed")
	}
	line := []string{"HIST", hx([]byte(date)), hc.H(1.0), strconv.Itoa(len(zs))}
	for _, z := range zs {
		line = append(line, hx(z[0]), hx(z[1]))
	}
	line = append(line, strconv.Itoa(nFontEntries))
	line = append(line, fontToks...)
	line = append(line, strconv.Itoa(nImages))
	line = append(line, imageToks...)
	// pattern dictionaries getPattern built: recovered from the /Resources /Pattern of the written pages, where
	// the j-th distinct gradient value of a page must be found under the page-local name P<j>
	{
		out := w.Bytes()
		offs := w.Offsets()
		r := &rd{b: out}
		seen := map[string]bool{}
		var ptoks []string
		npat := 0
		for i, ref := range w.Pages() {
			if i >= len(pageKeys) || ref < 1 || ref > len(offs) {
				break
			}
			p := r.regEnd(offs[ref-1])
			p = r.regEnd(r.sws(p))
			p = r.sws(p) + 3
			pg, _, ok := r.parseObj(true, p, 0)
			if !ok {
				continue
			}
			for j, k := range pageKeys[i] {
				v := pg.get("Resources").get("Pattern").get("P" + strconv.Itoa(j))
				if v == nil || seen[k] {
					continue
				}
				seen[k] = true
				ptoks = append(ptoks, hx([]byte(k)))
				pvTokens(v, nil, false, &ptoks)
				npat++
			}
		}
		line = append(line, strconv.Itoa(npat))
		line = append(line, ptoks...)
	}
	line = append(line, hc.B(doClose))
	line = append(line, ops...)
	c.Case(strings.Join(line, " "), "=", goOut)
	c.Distinct(strings.Join(ops, " "))
	if os.Getenv("VERIF_DUMP") != "" && doClose {
		os.WriteFile(fmt.Sprintf("/tmp/c13hist-%d.pdf", c.Hist["hist:closed"]), w.Bytes(), 0o644)
	}
	return true
}

func intsTok(xs []int) string {
	ss := make([]string, len(xs))
	for i, x := range xs {
		ss[i] = strconv.Itoa(x)
	}
	return strings.Join(ss, ",")
}

func xrefOffsetOf(out []byte) int {
	i := bytes.LastIndex(out, []byte("\nstartxref\n"))
	if i < 0 {
		return -1
	}
	j := i + 11
	n := 0
	for j < len(out) && '0' <= out[j] && out[j] <= '9' {
		n = n*10 + int(out[j]-'0')
		j++
	}
	return n
}

// judgeTable checks, on the real bytes and the real objOffsets, the statement of C13.offsets_exact and the
// xref/trailer statements, without the model.
func judgeTable(c *hc.Ctx, out []byte, offs []int, ops []string) {
	c.Evals++
	replay := map[string]any{"ops": strings.Join(ops, " ")}
	for i, o := range offs {
		h := fmt.Sprintf("%d 0 obj\n", i+1)
		if o < 0 || o+len(h) > len(out) || string(out[o:o+len(h)]) != h {
			c.Fail("table:offset-not-at-object", fmt.Sprintf("objOffsets[%d]=%d does not point at %q", i, o, h), replay)
			return
		}
	}
	x := xrefOffsetOf(out)
	want := fmt.Sprintf("xref\n0 %d\n0000000000 65535 f \n", len(offs)+1)
	if x < 0 || x+len(want) > len(out) || string(out[x:x+len(want)]) != want {
		c.Fail("table:xref-header", "startxref does not point at an xref section announcing len+1 entries", replay)
		return
	}
	p := x + len(want)
	for i, o := range offs {
		e := fmt.Sprintf("%010d 00000 n \n", o)
		if p+20 > len(out) || string(out[p:p+20]) != e {
			c.Fail("table:xref-entry", fmt.Sprintf("xref entry %d is not %q", i+1, e), replay)
			return
		}
		p += 20
	}
	if !bytes.HasPrefix(out[p:], []byte("trailer\n")) || !bytes.Contains(out[p:], []byte(fmt.Sprintf("/Size %d", len(offs)+1))) || !bytes.HasSuffix(out, []byte("\n%%EOF\n")) {
		c.Fail("table:trailer", "trailer / Size / EOF wrong", replay)
	}
}

// ---------------------------------------------------------------------------------------------
// DOC

// corpusDocs replays the minimised document recipes of past failures (corpus/C13/recipe-*.json) first.
func corpusDocs(c *hc.Ctx) {
	spec := os.Getenv("VERIF_SPEC") // <root>/tools/gotolean/spec.json
	if spec == "" {
		return
	}
	root := filepath.Dir(filepath.Dir(filepath.Dir(spec)))
	files, _ := filepath.Glob(filepath.Join(root, "corpus", "C13", "recipe-*.json"))
	sort.Strings(files)
	for _, f := range files {
		b, err := os.ReadFile(f)
		if err != nil {
			continue
		}
		var r DocRecipe
		if json.Unmarshal(b, &r) != nil {
			c.Count("doc:corpus-unreadable")
			continue
		}
		c.Count("doc:corpus")
		checkDoc(c, &r)
	}
}

func genDOC(c *hc.Ctx, n int) {
	// since 027bf2b the writers subset a private copy: one *canvas.Font per file is shared by all documents
	DocShareFonts = true
	corpusDocs(c)
	for it := 0; it < n; it++ {
		avoid := map[string]bool{}
		// explicit strokes of curved paths make documents of 100 kB and more (and reach the recorded
		// ellipse-split panic of the path code): keep them rare. All other former defect classes
		// (EvenOdd strokes, stitched gradients, alpha-0 colours, CR in metadata) are repaired and generated freely.
		if !c.Chance(0.15) {
			avoid["stroke-explicit-curves"] = true
		}
		r := GenDoc(c, avoid)
		if !r.Subset && c.Tier == "quick" && c.Chance(0.7) {
			r.Subset = true // whole-font documents are 30-240 kB; keep a few
		}
		checkDoc(c, r)
	}
}

func checkDoc(c *hc.Ctx, r *DocRecipe) {
	feats := DocFeatures(r)
	for _, f := range feats {
		c.Count("doc:" + f)
	}
	rj, _ := json.Marshal(r)
	replay := map[string]any{"recipe": json.RawMessage(rj)}
	file, pmsg := BuildDoc(r)
	c.Evals++
	if pmsg != "" {
		kind := "panic:other"
		switch {
		case strings.Contains(pmsg, "unknown PDF type []pdf.pdfDict"):
			kind = "panic:writeVal-unknown-type-[]pdfDict"
		case strings.Contains(pmsg, "theta not in elliptic arc range"):
			kind = "panic:ellipse-split-theta"
		case strings.HasPrefix(pmsg, "closeerr:"):
			kind = "close-error"
		}
		c.Fail(kind, "building the document: "+pmsg, replay)
		c.Count("doc:PANIC")
		return
	}
	c.Distinct(string(rj))
	res := Validate(file)
	line := "DOC " + hx(file)
	keys := []int{}
	for k := range res.Inflate {
		keys = append(keys, k)
	}
	sort.Ints(keys)
	for _, k := range keys {
		line += fmt.Sprintf(" %d:%s", k, hx(res.Inflate[k]))
	}
	c.Case(line, "=", res.Verdict)
	c.Count(fmt.Sprintf("doc:size<%dk", 1<<bitsFor(len(file)/1024)))
	if len(c.Samples) < 3 {
		c.Sample(fmt.Sprintf("doc %d bytes, %s -> %s", len(file), strings.Join(feats, " "), res.Verdict))
	}
	if !res.FlateOK {
		c.Fail("doc:flate-corrupt", "a FlateDecode stream is rejected by compress/zlib", replay)
	}
	if strings.HasPrefix(res.Verdict, "bad ") {
		for _, e := range strings.Split(res.Verdict[4:], ",") {
			c.Fail("doc:"+e, "independent reader: "+e, replay)
		}
		c.Count("doc:BAD")
	} else {
		c.Count("doc:OK")
	}
	// document information stored verbatim under the key of the same name
	if r.SetInfo {
		for i, key := range []string{"Title", "Subject", "Keywords", "Author", "Creator"} {
			want := r.Meta[i]
			got, present := res.Info[key]
			if want == "" {
				if present {
					c.Fail("info:"+key, "field stored though not set", replay)
				}
				continue
			}
			if !present || string(DecodeText(got)) != want {
				kind := "info:" + key
				if gdMetaHasCR(want) {
					kind = "info:raw-CR"
				}
				c.Fail(kind, fmt.Sprintf("%s %q reads back as %q", key, want, string(DecodeText(got))), replay)
			}
		}
	}
	if lang := r.Meta[5]; lang != "" {
		got, present := res.Info["Lang"]
		if !present || string(DecodeText(got)) != lang {
			creator := ""
			if r.SetInfo {
				creator = r.Meta[4]
			}
			kind := "info:Lang"
			if present && string(DecodeText(got)) == creator || present && gdMetaHasCR(creator) {
				kind = "info:Lang-receives-creator"
			}
			c.Fail(kind, fmt.Sprintf("SetLang(%q) but /Lang reads %q (creator %q)", lang, string(DecodeText(got)), creator), replay)
		}
	}
}

func bitsFor(n int) int {
	b := 0
	for (1 << b) <= n {
		b++
	}
	return b
}
