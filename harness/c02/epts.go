package main

import (
	"fmt"
	"strings"

	"github.com/tdewolff/canvas"
	"verifharness/hc"
)

// runEndpoints: EPTS lines. The real SweepEvents.AddPathEndpoints on one subpath against the Lean
// model of operand preparation (lean/CanvasModel/C02/Endpoints.lean): which segments are created
// (zero-length commands skipped), vertical / increasing / open flags, segment indices.
// Inputs: the flattened subpaths of generated paths, and raw command arrays with repeated vertices
// (the path builder never emits those), vertical and horizontal runs, open and closed.
func runEndpoints(c *hc.Ctx, n int) {
	emit := func(p *canvas.Path, tag string) {
		segs, err := hc.Decode(p.Data())
		if err != nil {
			return
		}
		var verts []hc.P2
		closed := false
		for _, s := range segs {
			switch s.Kind {
			case 'M', 'L':
				verts = append(verts, s.End)
			case 'Z':
				closed = true
			default:
				return
			}
		}
		seg0 := c.Intn(50)
		out, next, msg := canvas.VerifAddPathEndpoints(p, seg0)
		if msg != "" {
			c.Fail("endpoints:panic", msg, map[string]any{"P": p.String()})
			return
		}
		var toks []string
		nv, nz := 0, len(verts)-1+ind(closed)-len(out)
		for _, e := range out {
			if !e.Consistent || e.StartIsLeft != e.Increasing {
				c.Fail("endpoints:inconsistent-pair", "the two endpoints of a segment disagree on a flag", map[string]any{"P": p.String(), "seg": e.Segment})
			}
			toks = append(toks, hc.B(e.Vertical), hc.B(e.Increasing), hc.B(e.Open), fmt.Sprint(e.Segment))
			nv += ind(e.Vertical)
		}
		toks = append(toks, fmt.Sprint(next))
		line := fmt.Sprintf("EPTS %s %d %s", hc.B(closed), seg0, hc.PtsTokens(verts))
		c.Case(line, "=", strings.Join(toks, " "))
		c.Distinct(line)
		c.Count("epts:" + tag)
		if nv > 0 {
			c.Count("epts:branch:vertical")
		}
		if nz > 0 {
			c.Count("epts:branch:zero-length-skipped")
		}
		if !closed {
			c.Count("epts:branch:open")
		}
	}
	for it := 0; it < n; it++ {
		if c.Chance(0.5) {
			P, _, _ := genInput(c)
			for _, sp := range P.Flatten(canvas.Tolerance).Split() {
				emit(sp, "library-subpath")
			}
			continue
		}
		k := 1 + c.Intn(8)
		var d []float64
		var prev, first hc.P2
		for i := 0; i < k; i++ {
			v := hc.P2{X: float64(c.Intn(7) - 3), Y: float64(c.Intn(7) - 3)}
			if i > 0 {
				switch c.Intn(6) {
				case 0:
					v = prev // zero-length command
				case 1:
					v.X = prev.X // vertical
				case 2:
					v.Y = prev.Y // horizontal
				}
			}
			if c.Chance(0.15) {
				v.X += c.Norm() * 1e-9
			}
			cmd := canvas.LineToCmd
			if i == 0 {
				cmd, first = canvas.MoveToCmd, v
			}
			d = append(d, cmd, v.X, v.Y, cmd)
			prev = v
		}
		if c.Chance(0.7) {
			d = append(d, canvas.CloseCmd, first.X, first.Y, canvas.CloseCmd)
		}
		emit(canvas.VerifC09PathFromData(d), "raw-commands")
	}
}
