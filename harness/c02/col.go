package main

import (
	"fmt"
	"strings"

	"github.com/tdewolff/canvas"
	"verifharness/hc"
)

// Column-level correspondence of the Settle model (lean/CanvasModel/C02.lean) with the real
// computeSweepFields / InResult / mergeOverlapping, through the hooks VerifSweepColumn and
// VerifMergeColumn (verif_hooks_c01*.go).

func ind(b bool) int {
	if b {
		return 1
	}
	return 0
}

// runColumns: SCOL lines. A column of subject segments is swept by the real code under opSettle;
// the kept edges, directed with the filled side on the left, are swept AGAIN by the real code with
// a second rule: for NonZero/EvenOdd/Positive every edge must be kept with the same winding fields
// (column-level idempotence, theorem column_settle_idempotent), for Negative none.
func runColumns(c *hc.Ctx, n int) {
	for it := 0; it < n; it++ {
		h := 1 + c.Intn(12)
		if c.Chance(0.1) {
			h = 13 + c.Intn(28) // tall stacks
		}
		bias := c.Float() // share of upward edges: strongly biased columns reach |winding| > 2
		flags := make([][4]bool, h)
		var toks []string
		nOpen, nVert := 0, 0
		for i := range flags {
			flags[i] = [4]bool{false, c.Chance(0.15), c.Chance(bias), c.Chance(0.08)}
			toks = append(toks, hc.B(flags[i][1]), hc.B(flags[i][2]), hc.B(flags[i][3]))
			nVert += ind(flags[i][1])
			nOpen += ind(flags[i][3])
		}
		rule, rule2 := c.Intn(4), c.Intn(4)
		f := canvas.FillRule(rule)
		first := canvas.VerifSweepColumn(flags, 0, f)
		var o1, o2, o3 []string
		var out [][4]bool
		var outSW []int
		maxW, kept := 0, 0
		for i, r := range first {
			sw := 0
			if !flags[i][3] {
				sw = 2*ind(flags[i][2]) - 1
			}
			d := ind(f.Fills(r[0]+sw)) - ind(f.Fills(r[0]))
			if flags[i][3] {
				d = 0
			}
			o1 = append(o1, fmt.Sprintf("%d %d %d", r[0], r[2], d))
			if a := r[0] + sw; a > maxW {
				maxW = a
			} else if -a > maxW {
				maxW = -a
			}
			if flags[i][1] {
				continue // vertical segments do not cross the column's line
			}
			if flags[i][3] {
				out = append(out, [4]bool{false, false, flags[i][2], true})
				outSW = append(outSW, 0)
			} else if d != 0 {
				if r[2] != 1 {
					c.Fail("column:boundary-edge-dropped", "an edge across which the fill changes is not in the result", map[string]any{"flags": flags, "rule": ruleNames[rule], "i": i})
				}
				kept++
				out = append(out, [4]bool{false, false, d == 1, false})
				outSW = append(outSW, d)
			} else if r[2] != 0 {
				c.Fail("column:interior-edge-kept", "an edge with the same fill on both sides is in the result", map[string]any{"flags": flags, "rule": ruleNames[rule], "i": i})
			}
		}
		second := canvas.VerifSweepColumn(out, 0, canvas.FillRule(rule2))
		f2 := canvas.FillRule(rule2)
		for i, r := range second {
			o2 = append(o2, fmt.Sprintf("%d %d %d %d", ind(out[i][2]), ind(out[i][3]), r[0], outSW[i]))
			d := ind(f2.Fills(r[0]+outSW[i])) - ind(f2.Fills(r[0]))
			if out[i][3] {
				d = 0
			}
			o3 = append(o3, fmt.Sprintf("%d %d %d", r[0], r[2], d))
			// the property at column level, judged on the real code
			if r[0] != 0 && r[0] != 1 || r[0]+outSW[i] != 0 && r[0]+outSW[i] != 1 {
				c.Fail("column:winding-not-01", "re-swept result column has a winding number outside {0,1}", map[string]any{"flags": flags, "rule": ruleNames[rule], "i": i})
			}
			if !out[i][3] && rule2 != 3 && (r[2] != 1 || d != outSW[i]) {
				c.Fail("column:not-idempotent", "an edge of the settled column is dropped or turned when settled again", map[string]any{"flags": flags, "rule": ruleNames[rule], "rule2": ruleNames[rule2], "i": i})
			}
			if !out[i][3] && rule2 == 3 && r[2] != 0 {
				c.Fail("column:negative-keeps-canonical", "Negative keeps an edge of a canonical column", map[string]any{"flags": flags, "rule": ruleNames[rule], "i": i})
			}
		}
		line := fmt.Sprintf("SCOL %d %d %s", rule, rule2, strings.Join(toks, " "))
		c.Case(line, "=", strings.Join(o1, " ")+" | "+strings.TrimSpace(strings.Join(o2, " ")+" | "+strings.Join(o3, " ")))
		c.Distinct(line)
		c.Count(fmt.Sprintf("scol:height-bucket:%d", (h+3)/4*4))
		c.Count(fmt.Sprintf("scol:max-abs-winding:%d", min(maxW, 6)))
		c.Count(fmt.Sprintf("scol:kept-edges-bucket:%d", (kept+1)/2*2))
		if nOpen > 0 {
			c.Count("scol:with-open-segments")
		}
		if nVert > 0 {
			c.Count("scol:with-vertical-segments")
		}
		if kept == 0 {
			c.Count("scol:nothing-kept")
		}
		if it == 0 {
			c.Sample(line + " => " + strings.Join(o1, " ") + " | " + strings.Join(o2, " ") + " | " + strings.Join(o3, " "))
		}
	}
}

// runMerges: SMRG lines. The real mergeOverlapping under opSettle on subject-only chains with self
// windings in -2..2; the Settle decision on the merged entries (|selfWindings| > 1, the case where
// NonZero and Positive/Negative differ) comes from the real InResult.
func runMerges(c *hc.Ctx, n int) {
	for it := 0; it < n; it++ {
		k := 1 + c.Intn(7)
		ents := make([]canvas.VerifMergeEnt, k)
		ngeom := 1 + c.Intn(3)
		var toks []string
		for i := range ents {
			e := canvas.VerifMergeEnt{Vertical: c.Chance(0.15), Increasing: c.Bool(), Open: c.Chance(0.1),
				Overlapped: c.Chance(0.12), Geom: c.Intn(ngeom), W: c.Intn(5) - 2, SW: c.Intn(5) - 2}
			if i > 0 && c.Chance(0.6) {
				e.Geom = ents[i-1].Geom
				e.Vertical = ents[i-1].Vertical
			}
			ents[i] = e
			toks = append(toks, hc.B(e.Vertical), hc.B(e.Increasing), hc.B(e.Open), hc.B(e.Overlapped), fmt.Sprint(e.Geom), fmt.Sprint(e.W), fmt.Sprint(e.SW))
		}
		rule := c.Intn(4)
		line := fmt.Sprintf("SMRG %d %s", rule, strings.Join(toks, " "))
		var out [][6]int
		var openAfter []bool
		var keeps []int
		var prev int
		if msg := hc.Try(func() { out, openAfter, keeps, prev = canvas.VerifMergeColumnOpen(ents, 0, canvas.FillRule(rule)) }); msg != "" {
			c.Fail("merge:panic", msg, map[string]any{"line": line})
			continue
		}
		var outs []string
		absorbed := 0
		for i, r := range out {
			// keep = the real InResult of the entry's FINAL state (fields and the open flag
			// mergeOverlapping leaves: 51f64dd clears it on a receiver lying on a closed segment)
			keep := keeps[i]
			if r[5] != 7 && r[5] != keep && r[4] == 0 {
				c.Fail("merge:inResult-stale", "the inResult mergeOverlapping stored differs from InResult of the stored fields", map[string]any{"line": line, "i": i})
			}
			if openAfter[i] != ents[i].Open {
				c.Count("smrg:branch:open-receiver-closed-on-closed-segment")
			}
			outs = append(outs, fmt.Sprintf("%d %d %d %d %s", r[0], r[2], r[4], keep, hc.B(openAfter[i])))
			if i > 0 && r[4] == 1 && !ents[i].Overlapped {
				absorbed++
			}
		}
		c.Case(line, "=", strings.Join(outs, " ")+fmt.Sprintf(" %d", prev))
		c.Distinct(line)
		c.Count(fmt.Sprintf("smrg:absorbed:%d", absorbed))
		if absorbed > 0 {
			sw := out[0][2]
			if sw < 0 {
				sw = -sw
			}
			c.Count(fmt.Sprintf("smrg:merged-abs-selfwindings:%d", min(sw, 4)))
			// the entry where the rules differ: winding changes sign across the merged edge
			if w := out[0][0]; (w < 0) != (w+out[0][2] < 0) && w != 0 && w+out[0][2] != 0 {
				c.Count("smrg:merged-edge-between-negative-and-positive")
			}
		}
		if it == 0 {
			c.Sample(line + " => " + strings.Join(outs, " "))
		}
	}
}
