package main

import (
	"fmt"
	"math"
	"sort"
	"strings"
	"time"

	"github.com/tdewolff/canvas"
	"verifharness/hc"
)

func main() { hc.Main("C02", run) }

var delta = 4 * canvas.BentleyOttmannEpsilon

var ruleNames = []string{"NonZero", "EvenOdd", "Positive", "Negative"}

func fills(rule int, w int) bool {
	switch rule {
	case 0:
		return w != 0
	case 1:
		return w%2 != 0
	case 2:
		return w > 0
	}
	return w < 0
}

func run(c *hc.Ctx) {
	// L1: the Settle row of the InResult table (self windings up to ±3: merged overlapping segments)
	inres := canvas.VerifFuncs["SweepPoint.InResult"].(func(bool, bool, int, int, int, int, int, canvas.FillRule) uint8)
	for r := 0; r < 4; r++ {
		for open := 0; open < 2; open++ {
			for a := -4; a <= 4; a++ {
				for s := -3; s <= 3; s++ {
					c.Case(fmt.Sprintf("L1 SweepPoint.InResult 0 %d 0 0 %d %d 0 %d", open, s, a, r), "=",
						fmt.Sprint(inres(false, open == 1, 0, 0, s, a, 0, canvas.FillRule(r))))
				}
			}
		}
	}
	c.Count("l1:InResult-settle-row")

	// L2 column model against the real computeSweepFields / InResult / mergeOverlapping
	c.WithStream("c02-columns", func() {
		runColumns(c, c.N*2)
		runMerges(c, c.N*2)
	})
	// L2 operand preparation: the real AddPathEndpoints against its model
	c.WithStream("c02-endpoints", func() { runEndpoints(c, c.N) })

	// recorded inputs of past failures first (own stream: the generated inputs below are unchanged)
	c.WithStream("c02-corpus", func() { runCorpus(c) })

	// L3 verdicts + final sweep/tracer state on real Settle runs
	for it := 0; it < c.N; it++ {
		P, class, _ := genInput(c)
		judge(c, P, class, it == 0)
	}
	// bulk strict class: triangles on a 4x4 integer grid
	c.WithStream("c02-small-grid", func() { runSmallGrid(c, c.N*4) })
	// boundary classes and (thorough) larger inputs, on their own stream
	c.WithStream("c02-sweeps", func() { runSweeps(c) })
}

// hung counts the calls that did not return within the time limit; their goroutines keep spinning
// (they cannot be stopped), so after a few of them no further large inputs are generated.
var hung int

// tryTimed runs f under recover like hc.Try, but gives up after 10 s: a Settle call that does not
// return is a failure with an input, not a stuck check.
func tryTimed(f func()) (msg string, timedOut bool) {
	done := make(chan string, 1)
	go func() { done <- hc.Try(f) }()
	select {
	case msg = <-done:
		return msg, false
	case <-time.After(10 * time.Second):
		hung++
		return "", true
	}
}

// judge runs Settle on P under the four rules through the real entry points, has the Lean
// specification judge region / winding / crossings (SETTLE lines) and the final sweep state (STRACE
// lines), and re-settles the result.
func judge(c *hc.Ctx, P *canvas.Path, class int, sample bool) {
	fp := P.Flatten(canvas.Tolerance)
	cp, ok := hc.Contours(fp)
	if !ok {
		c.Count("skip-undecodable")
		return
	}
	open := !fp.Closed() || strings.Count(fp.String(), "M") != strings.Count(fp.String(), "z")
	ovSelf, ovSelfCrossed, ovVert, ovShared := overlapClass4(cp, delta)
	if ovSelfCrossed {
		c.Count("input:degenerate:self-overlap-crossed")
	}
	overl := ovSelf || ovVert || ovShared
	nseg := 0
	for _, ct := range cp {
		nseg += len(ct)
	}
	c.Count(fmt.Sprintf("input:segments-bucket:%d", (nseg+9)/10*10))
	c.Count(fmt.Sprintf("input:subpaths:%d", min(len(cp), 8)))
	if ovSelf {
		c.Count("input:degenerate:self-overlapping-edges")
	}
	if ovVert {
		c.Count("input:degenerate:near-vertical-overlapping-edges")
	}
	if ovShared {
		c.Count("input:shared-edges")
	}
	if open {
		c.Count("input:open-subpaths")
	}
	// cause predicates computed from the input: they are part of the failure kind, so that a
	// recorded defect class (open subpaths; self-overlapping or vertical overlapping edges) cannot hide another one
	suffix := causeSuffix(open, cp)
	for rule := 0; rule < 4; rule++ {
		c.Evals++
		var R *canvas.Path
		viaPaths := c.Chance(0.3) // the Paths entry point, with the compound path as one element
		if viaPaths {
			c.Count("entry:Paths.Settle")
		} else {
			c.Count("entry:Path.Settle")
		}
		var Rx *canvas.Path // written by the call's goroutine; read only when it returned in time
		msg, timedOut := tryTimed(func() {
			if viaPaths {
				Rx = canvas.Paths{P.Copy()}.Settle(canvas.FillRule(rule))
			} else {
				Rx = P.Copy().Settle(canvas.FillRule(rule))
			}
		})
		if timedOut {
			c.Fail("hang:settle"+strings.TrimSpace(suffix), "Settle did not return within 10 s", map[string]any{"rule": ruleNames[rule], "P": P.String()})
			continue
		}
		R = Rx
		if msg != "" {
			first := strings.SplitN(msg, "\n", 2)[0]
			c.Fail("panic:settle:"+first+strings.TrimSpace(suffix), "Settle panicked: "+first, map[string]any{"rule": ruleNames[rule], "P": P.String()})
			if open {
				judgeClosedVariant(c, fp, rule)
			}
			continue
		}
		// open result subpaths are polylines (the library keeps open subject subpaths open): for the
		// region they enclose nothing
		cr, ok := closedContours(R)
		if !ok {
			c.Fail("result-not-flat", "Settle result is not a flat well-formed path", map[string]any{"rule": ruleNames[rule], "P": P.String(), "R": R.String()})
			continue
		}
		m := 40
		if c.Tier == "thorough" {
			m = 64
		}
		pts := samplePts(c, m, cp, cr)
		if c.Tier == "search" {
			floatOracle(c, rule, P, R, cp, cr, pts, suffix)
		}
		line := fmt.Sprintf("SETTLE %d %s P %s R %s PTS %s", rule, hc.H(delta), hc.PolyTokens(cp), hc.PolyTokens(cr), hc.PtsTokens(pts))
		c.Case(line, "!", "settle:"+ruleNames[rule]+suffix)
		c.Count(fmt.Sprintf("rule:%s class:%d open:%v", ruleNames[rule], class, open))
		holes := 0
		for _, ct := range cr {
			if hc.Area(ct) < 0 {
				holes++
			}
		}
		c.Count(fmt.Sprintf("result:contours:%d", min(len(cr), 8)))
		c.Count(fmt.Sprintf("result:holes:%d", min(holes, 6)))
		if len(cr) > 0 {
			c.Distinct(ruleNames[rule] + P.String())
		}
		if sample && rule == 0 {
			c.Sample(fmt.Sprintf("Settle(%s) of %q -> %q", ruleNames[rule], P.String(), R.String()))
		}

		// the final sweep/tracer state of the same call, judged by the Lean trace model
		traceCase(c, P, viaPaths, rule, R, cr, suffix)

		// settling a settled path (any of the four rules): same region under the three filling rules,
		// nothing under Negative, same canonical form
		if rule == 0 || c.Chance(0.3) {
			rule2 := c.Intn(4)
			var R2 *canvas.Path
			var R2x *canvas.Path
			msg, timedOut := tryTimed(func() { R2x = R.Copy().Settle(canvas.FillRule(rule2)) })
			R2 = R2x
			if timedOut {
				c.Fail("hang:resettle"+strings.TrimSpace(suffix), "Settle of a settled path did not return within 10 s", map[string]any{"R": R.String()})
			} else if msg != "" {
				first := strings.SplitN(msg, "\n", 2)[0]
				c.Fail("panic:resettle:"+first+strings.TrimSpace(suffix), "Settle of a settled path panicked: "+first, map[string]any{"R": R.String()})
			} else if cr2, ok := closedContours(R2); ok {
				pts2 := samplePts(c, 30, cr, cr2)
				line := fmt.Sprintf("SETTLE %d %s P %s R %s PTS %s", rule2, hc.H(delta), hc.PolyTokens(cr), hc.PolyTokens(cr2), hc.PtsTokens(pts2))
				c.Case(line, "!", "resettle"+suffix)
				c.Count("resettle:" + ruleNames[rule2])
				moved := maxVertexMove(cr, cr2)
				if rule2 != 3 && !open && moved > delta && !overl {
					// a vertex of the re-settled path farther than the snap tolerance from the settled one
					c.Count("resettle:vertex-moved-beyond-tolerance")
				}
			}
		}

		// an input with open subpaths fails for the recorded reason only if the same input with
		// every subpath closed explicitly passes: judge that too, as an ordinary closed case
		if open && (rule == 0 || c.Chance(0.35)) {
			judgeClosedVariant(c, fp, rule)
		}
	}
}

// judgeClosedVariant settles the flattened input with every open subpath closed explicitly and has
// it judged as an ordinary (closed) case: SETTLE verdict + STRACE state.
func judgeClosedVariant(c *hc.Ctx, fp *canvas.Path, rule int) {
	Pc := closeAllSubpaths(fp)
	cpc, ok := hc.Contours(Pc)
	if !ok {
		return
	}
	var Rc *canvas.Path
	sfx := causeSuffix(false, cpc)
	var Rcx *canvas.Path
	msg, timedOut := tryTimed(func() { Rcx = Pc.Copy().Settle(canvas.FillRule(rule)) })
	Rc = Rcx
	if timedOut {
		c.Fail("hang:settle"+strings.TrimSpace(sfx), "Settle did not return within 10 s", map[string]any{"rule": ruleNames[rule], "P": Pc.String()})
	} else if msg != "" {
		first := strings.SplitN(msg, "\n", 2)[0]
		c.Fail("panic:settle:"+first+strings.TrimSpace(sfx), "Settle panicked: "+first, map[string]any{"rule": ruleNames[rule], "P": Pc.String()})
	} else if crc, ok := closedContours(Rc); ok {
		ptsc := samplePts(c, 30, cpc, crc)
		line := fmt.Sprintf("SETTLE %d %s P %s R %s PTS %s", rule, hc.H(delta), hc.PolyTokens(cpc), hc.PolyTokens(crc), hc.PtsTokens(ptsc))
		c.Case(line, "!", "settle:"+ruleNames[rule]+sfx)
		c.Count("open-input-closed-explicitly")
		traceCase(c, Pc, false, rule, Rc, crc, sfx)
	}
}

// causeSuffix names the class an input belongs to, decided from the input alone. Two edges
// "overlap" if they are collinear over a positive length (exact) or run within the tolerance band
// 4e-8 of each other over more than 1e-6 (they become coincident once the sweep snaps them).
//
//	+open                        a subpath without Close                            (recorded defect)
//	+self-overlap-crossed        two edges of the SAME contour overlap (spike, contour traversed
//	                             twice) and at least two other edges meet the common part strictly
//	                             inside it                                            (recorded defect)
//	+self-overlapping-edges      any other self-overlap: STRICT since batch 5 (719b7ec .. bd4354e)
//	+near-vertical-overlapping-edges  two edges of different contours that are vertical after snapping
//	                             overlap without coinciding exactly (x = -5.0000000009 next to
//	                             x = -5): STRICT since 719b7ec
//	+shared-edges                any other overlap of edges of different contours (exactly shared
//	                             edges of any direction, near-coincident non-vertical edges): STRICT
//	                             since the sweep repairs e1c72e9 / 1501096 / 4e53250 — no known finding
func causeSuffix(open bool, cp [][]hc.P2) string {
	if open {
		return " +open"
	}
	self, selfCrossed, vertical, shared := overlapClass4(cp, delta)
	switch {
	case selfCrossed:
		return " +self-overlap-crossed"
	case self:
		return " +self-overlapping-edges"
	case vertical:
		return " +near-vertical-overlapping-edges"
	case shared:
		return " +shared-edges"
	}
	return ""
}

// overlapClass: which kinds of overlapping edge pairs the contours contain.
func overlapClass(cp [][]hc.P2, tol float64) (self, vertical, shared bool) {
	self, _, vertical, shared = overlapClass4(cp, tol)
	return
}

// overlapClass4 additionally reports selfCrossed: some pair of overlapping edges of one contour
// whose common part is met (crossed or touched from outside its line) by at least two other edges
// strictly inside it — the investigator's "cause 8" of corpus/C01/residue-rootcause.md.
func overlapClass4(cp [][]hc.P2, tol float64) (self, selfCrossed, vertical, shared bool) {
	type edge struct {
		a, b hc.P2
		ct   int
	}
	var es []edge
	for k, ct := range cp {
		for i := range ct {
			a, b := ct[i], ct[(i+1)%len(ct)]
			if a != b {
				es = append(es, edge{a, b, k})
			}
		}
	}
	for i := range es {
		e := es[i]
		d := e.b.Sub(e.a)
		l := d.Len()
		if l == 0 {
			continue
		}
		u := d.Mul(1 / l)
		for j := range es {
			if i == j {
				continue
			}
			f := es[j]
			// parameters (arc length along e) and signed distances of f's end points
			ta, tb := f.a.Sub(e.a).Dot(u), f.b.Sub(e.a).Dot(u)
			sa, sb := u.Cross(f.a.Sub(e.a)), u.Cross(f.b.Sub(e.a))
			if ta > tb {
				ta, tb, sa, sb = tb, ta, sb, sa
			}
			lo, hi := math.Max(ta, 0), math.Min(tb, l)
			if hi <= lo || tb <= ta {
				continue
			}
			exact := d.Cross(f.a.Sub(e.a)) == 0 && d.Cross(f.b.Sub(e.a)) == 0
			at := func(t float64) float64 { return sa + (sb-sa)*(t-ta)/(tb-ta) }
			near := hi-lo > 1e-6 && math.Abs(at(lo)) < tol && math.Abs(at(hi)) < tol
			if !exact && !near {
				continue
			}
			switch {
			case e.ct == f.ct:
				self = true
				if !selfCrossed {
					met := 0
					for k := range es {
						if k == i || k == j {
							continue
						}
						g := es[k]
						s0, s1 := u.Cross(g.a.Sub(e.a)), u.Cross(g.b.Sub(e.a))
						if (math.Abs(s0) < tol && math.Abs(s1) < tol) || (s0 > 0 && s1 > 0) || (s0 < 0 && s1 < 0) {
							continue
						}
						tg := s0 / (s0 - s1)
						te := g.a.Add(g.b.Sub(g.a).Mul(tg)).Sub(e.a).Dot(u)
						if lo+1e-9 < te && te < hi-1e-9 {
							met++
						}
					}
					selfCrossed = met >= 2
				}
			case !exact && math.Abs(d.X) < tol && math.Abs(f.b.X-f.a.X) < tol:
				vertical = true
			default:
				shared = true
			}
		}
	}
	return
}

// floatOracle is the float64 search oracle (search tier only; the deciding evaluation is the exact
// Lean specification).
func floatOracle(c *hc.Ctx, rule int, P, R *canvas.Path, cp, cr [][]hc.P2, pts []hc.P2, suffix string) {
	for _, pt := range pts {
		if hc.DistToContours(pt, cp) < 4*delta || hc.DistToContours(pt, cr) < 4*delta {
			continue
		}
		exp := fills(rule, hc.WnFloat(pt, cp))
		wr := hc.WnFloat(pt, cr)
		if exp != (wr != 0) {
			cls := "boundary"
			if (wr%2 != 0) == exp {
				cls = "orientation-only"
			}
			c.Fail("settle:"+ruleNames[rule]+":"+cls+strings.TrimSpace(suffix), fmt.Sprintf("Settle(%s): point (%v,%v) expected filled=%v, result winding %d", ruleNames[rule], pt.X, pt.Y, exp, wr),
				map[string]any{"rule": ruleNames[rule], "P": P.String(), "R": R.String(), "point": []float64{pt.X, pt.Y}})
			return
		} else if wr != 0 && wr != 1 {
			c.Fail("settle:"+ruleNames[rule]+":winding-not-01"+strings.TrimSpace(suffix), fmt.Sprintf("Settle(%s): point (%v,%v) has winding %d in the result", ruleNames[rule], pt.X, pt.Y, wr),
				map[string]any{"rule": ruleNames[rule], "P": P.String(), "R": R.String(), "point": []float64{pt.X, pt.Y}})
			return
		}
	}
}

// closeAllSubpaths returns the flat path with every open subpath closed explicitly.
func closeAllSubpaths(fp *canvas.Path) *canvas.Path {
	out := &canvas.Path{}
	for _, sp := range fp.Split() {
		q := sp.Copy()
		if !q.Closed() {
			q.Close()
		}
		out = out.Append(q)
	}
	return out
}

// maxVertexMove is the largest distance from a vertex of b to the contours of a.
func maxVertexMove(a, b [][]hc.P2) float64 {
	if len(a) == 0 {
		return 0
	}
	m := 0.0
	for _, ct := range b {
		for _, v := range ct {
			if d := hc.DistToContours(v, a); d > m {
				m = d
			}
		}
	}
	return m
}

// samplePts: half of the query points are centres of the faces of the arrangement of input and
// result (for every slab between consecutive vertex abscissae, the middle of every gap between
// consecutive edges at the slab's centre line, plus one below and one above all edges), the rest
// comes from the shared grid/random sampler.
func samplePts(c *hc.Ctx, m int, css ...[][]hc.P2) []hc.P2 {
	faces := facePoints(css...)
	var pts []hc.P2
	if len(faces) > 0 {
		for i := 0; i < m/2; i++ {
			pts = append(pts, faces[c.Intn(len(faces))])
		}
	}
	return append(pts, c.SamplePoints(m-len(pts), css...)...)
}

func facePoints(css ...[][]hc.P2) []hc.P2 {
	type edge struct{ a, b hc.P2 }
	var es []edge
	var xs []float64
	for _, cs := range css {
		for _, ct := range cs {
			for i, v := range ct {
				xs = append(xs, v.X)
				w := ct[(i+1)%len(ct)]
				if v.X != w.X {
					if v.X < w.X {
						es = append(es, edge{v, w})
					} else {
						es = append(es, edge{w, v})
					}
				}
			}
		}
	}
	if len(xs) == 0 {
		return nil
	}
	sort.Float64s(xs)
	var out []hc.P2
	for i := 0; i+1 < len(xs); i++ {
		if xs[i+1]-xs[i] < 1e-6 {
			continue
		}
		xm := xs[i] + (xs[i+1]-xs[i])*0.4871
		var ys []float64
		for _, e := range es {
			if e.a.X < xm && xm < e.b.X {
				t := (xm - e.a.X) / (e.b.X - e.a.X)
				ys = append(ys, e.a.Y+t*(e.b.Y-e.a.Y))
			}
		}
		if len(ys) == 0 {
			continue
		}
		sort.Float64s(ys)
		out = append(out, hc.P2{X: xm, Y: ys[0] - 0.29}, hc.P2{X: xm, Y: ys[len(ys)-1] + 0.31})
		for j := 0; j+1 < len(ys); j++ {
			if ys[j+1]-ys[j] > 1e-6 {
				out = append(out, hc.P2{X: xm, Y: ys[j] + (ys[j+1]-ys[j])*0.4713})
			}
		}
	}
	return out
}

// runSweeps: boundary classes that the random generator reaches rarely, enumerated.
func runSweeps(c *hc.Ctx) {
	thorough := c.Tier == "thorough"
	// star polygons {n/d} for all n, d (d not coprime: contours traversed several times), at a grid
	// aligned and at a generic rotation
	for n := 3; n <= 11; n++ {
		for d := 1; d <= n/2; d++ {
			if !thorough && c.Chance(0.7) {
				continue
			}
			for _, rot := range []float64{0, 0.3217} {
				P := &canvas.Path{}
				for i := 0; i < n; i++ {
					a := rot + 2*math.Pi*float64(i*d%n)/float64(n)
					if i == 0 {
						P.MoveTo(5*math.Cos(a), 5*math.Sin(a))
					} else {
						P.LineTo(5*math.Cos(a), 5*math.Sin(a))
					}
				}
				P.Close()
				c.Count("sweep:star")
				judge(c, P, 6, false)
			}
		}
	}
	// nesting towers: k concentric squares with every combination of orientations (k <= 4), the
	// nesting depth / hole rule for every parity pattern
	for k := 1; k <= 4; k++ {
		for mask := 0; mask < 1<<k; mask++ {
			if !thorough && c.Chance(0.6) {
				continue
			}
			P := &canvas.Path{}
			for i := 0; i < k; i++ {
				r := float64(9 - 2*i)
				if mask>>i&1 == 0 {
					P.MoveTo(-r, -r)
					P.LineTo(r, -r)
					P.LineTo(r, r)
					P.LineTo(-r, r)
				} else {
					P.MoveTo(-r, -r)
					P.LineTo(-r, r)
					P.LineTo(r, r)
					P.LineTo(r, -r)
				}
				P.Close()
			}
			c.Count("sweep:nesting-tower")
			judge(c, P, 7, false)
		}
	}
	// the same contour traversed k times, and traversed back and forth
	for k := 2; k <= 4; k++ {
		for rev := 0; rev < 2; rev++ {
			P := &canvas.Path{}
			base := []hc.P2{{X: -3, Y: -2}, {X: 4, Y: -1}, {X: 2, Y: 5}}
			for i := 0; i < k; i++ {
				b := base
				if rev == 1 && i%2 == 1 {
					b = []hc.P2{base[2], base[1], base[0]}
				}
				P.MoveTo(b[0].X, b[0].Y)
				P.LineTo(b[1].X, b[1].Y)
				P.LineTo(b[2].X, b[2].Y)
				P.Close()
			}
			c.Count("sweep:coincident-contours")
			judge(c, P, 8, false)
		}
	}
	if thorough {
		// larger inputs: four to six polygons appended
		for it := 0; it < c.N/6 && hung < 3; it++ {
			var pool []hc.P2
			P := &canvas.Path{}
			for k, n := 0, 4+c.Intn(3); k < n; k++ {
				P = P.Append(c.GenPolygon([]int{0, 0, 1, 2, 3, 4}[c.Intn(6)], &pool, true))
			}
			c.Count("sweep:large")
			judge(c, P, 9, false)
		}
	}
}

// genInput draws one input path: class 0..4 of hc.GenPolygon (15% with open subpaths), 20% a frame
// with stacked holes/islands (class 5), otherwise 50% two polygons appended (shared vertices).
func genInput(c *hc.Ctx) (*canvas.Path, int, bool) {
	var pool []hc.P2
	class := []int{0, 0, 0, 1, 2, 3, 4}[c.Intn(7)]
	closeAll := !c.Chance(0.15)
	P := c.GenPolygon(class, &pool, closeAll)
	if c.Chance(0.2) {
		// a frame with several holes / islands, many stacked in the same columns (hole above hole,
		// island in hole): the nesting depth of each result contour decides its orientation
		class, closeAll = 5, true
		P = &canvas.Path{}
		rect := func(x0, y0, w, h float64, ccw bool) {
			P.MoveTo(x0, y0)
			if ccw {
				P.LineTo(x0+w, y0)
				P.LineTo(x0+w, y0+h)
				P.LineTo(x0, y0+h)
			} else {
				P.LineTo(x0, y0+h)
				P.LineTo(x0+w, y0+h)
				P.LineTo(x0+w, y0)
			}
			P.Close()
		}
		occ := c.Bool()
		rect(-9, -9, 18, 18, occ)
		cols := []float64{-7, -6, -2, -1, 3, 4}
		for k, n := 0, 2+c.Intn(4); k < n; k++ {
			x0 := cols[c.Intn(len(cols))]
			y0 := float64(c.Intn(15) - 8)
			rect(x0, y0, float64(1+c.Intn(3)), float64(1+c.Intn(2)), c.Chance(0.2) == occ)
		}
	} else if c.Chance(0.5) {
		// several contours sharing vertices: overlaps, nesting, opposite orientations
		P = P.Append(c.GenPolygon([]int{0, 1, 2, 3, 4}[c.Intn(5)], &pool, closeAll))
	}

	return P, class, closeAll
}

// closedContours returns the contours of a flat path, every subpath implicitly closed.
func closedContours(p *canvas.Path) ([][]hc.P2, bool) {
	segs, err := hc.Decode(p.Data())
	if err != nil {
		return nil, false
	}
	var out [][]hc.P2
	for _, sp := range hc.Subpaths(segs) {
		var ct []hc.P2
		closed := false
		for _, s := range sp {
			switch s.Kind {
			case 'M', 'L':
				ct = append(ct, s.End)
			case 'Z':
				closed = true
			default:
				return nil, false
			}
		}
		_ = closed // open result subpaths are read implicitly closed, like open input subpaths
		if len(ct) > 1 && ct[0] == ct[len(ct)-1] {
			ct = ct[:len(ct)-1]
		}
		out = append(out, ct)
	}
	return out, true
}
