package main

import (
	"fmt"
	"strings"

	"github.com/tdewolff/canvas"
	"verifharness/hc"
)

func main() { hc.Main("C02", run) }

var delta = 4 * canvas.BentleyOttmannEpsilon

var ruleNames = []string{"NonZero", "EvenOdd", "Positive", "Negative"}

func fills(rule int, w int) bool {
	switch rule {
	case 0:
		return w != 0
	case 1:
		return w%2 != 0
	case 2:
		return w > 0
	}
	return w < 0
}

func run(c *hc.Ctx) {
	// L1: the Settle row of the InResult table
	inres := canvas.VerifFuncs["SweepPoint.InResult"].(func(bool, bool, int, int, int, int, int, canvas.FillRule) uint8)
	for r := 0; r < 4; r++ {
		for open := 0; open < 2; open++ {
			for a := -4; a <= 4; a++ {
				for s := -2; s <= 2; s++ {
					c.Case(fmt.Sprintf("L1 SweepPoint.InResult 0 %d 0 0 %d %d 0 %d", open, s, a, r), "=",
						fmt.Sprint(inres(false, open == 1, 0, 0, s, a, 0, canvas.FillRule(r))))
				}
			}
		}
	}
	c.Count("l1:InResult-settle-row")

	for it := 0; it < c.N; it++ {
		var pool []hc.P2
		class := []int{0, 0, 0, 1, 2, 3, 4}[c.Intn(7)]
		closeAll := !c.Chance(0.15)
		P := c.GenPolygon(class, &pool, closeAll)
		if c.Chance(0.2) {
			// a frame with several holes / islands, many stacked in the same columns (hole above hole,
			// island in hole): the nesting depth of each result contour decides its orientation
			class, closeAll = 5, true
			P = &canvas.Path{}
			rect := func(x0, y0, w, h float64, ccw bool) {
				P.MoveTo(x0, y0)
				if ccw {
					P.LineTo(x0+w, y0)
					P.LineTo(x0+w, y0+h)
					P.LineTo(x0, y0+h)
				} else {
					P.LineTo(x0, y0+h)
					P.LineTo(x0+w, y0+h)
					P.LineTo(x0+w, y0)
				}
				P.Close()
			}
			occ := c.Bool()
			rect(-9, -9, 18, 18, occ)
			cols := []float64{-7, -6, -2, -1, 3, 4}
			for k, n := 0, 2+c.Intn(4); k < n; k++ {
				x0 := cols[c.Intn(len(cols))]
				y0 := float64(c.Intn(15) - 8)
				rect(x0, y0, float64(1+c.Intn(3)), float64(1+c.Intn(2)), c.Chance(0.2) == occ)
			}
		} else if c.Chance(0.5) {
			// several contours sharing vertices: overlaps, nesting, opposite orientations
			P = P.Append(c.GenPolygon([]int{0, 1, 2, 3, 4}[c.Intn(5)], &pool, closeAll))
		}
		fp := P.Flatten(canvas.Tolerance)
		cp, ok := hc.Contours(fp)
		if !ok {
			c.Count("skip-undecodable")
			continue
		}
		open := !fp.Closed() || strings.Count(fp.String(), "M") != strings.Count(fp.String(), "z")
		for rule := 0; rule < 4; rule++ {
			c.Evals++
			var R *canvas.Path
			viaPaths := c.Chance(0.3) // the Paths entry point, with the compound path as one element
			if viaPaths {
				c.Count("entry:Paths.Settle")
			}
			if msg := hc.Try(func() {
				if viaPaths {
					R = canvas.Paths{P.Copy()}.Settle(canvas.FillRule(rule))
				} else {
					R = P.Copy().Settle(canvas.FillRule(rule))
				}
			}); msg != "" {
				first := strings.SplitN(msg, "\n", 2)[0]
				pk := "panic:settle:" + first
				if hc.OverlappingEdges(cp) {
					pk += "+overlapping-edges"
				}
				c.Fail(pk, "Settle panicked: "+first, map[string]any{"rule": ruleNames[rule], "P": P.String()})
				continue
			}
			// open result subpaths are polylines (the library keeps open subject subpaths open): for the
			// region they enclose nothing
			cr, ok := closedContours(R)
			if !ok {
				c.Fail("result-not-flat", "Settle result is not a flat well-formed path", map[string]any{"rule": ruleNames[rule], "P": P.String(), "R": R.String()})
				continue
			}
			suffix := ""
			if open {
				suffix = " +open"
			} else if hc.OverlappingEdges(cp) {
				suffix = " +overlapping-edges"
				c.Count("input-with-overlapping-edges")
			}
			pts := c.SamplePoints(40, cp, cr)
			if c.Tier == "search" {
				for _, pt := range pts {
					if hc.DistToContours(pt, cp) < 4*delta || hc.DistToContours(pt, cr) < 4*delta {
						continue
					}
					exp := fills(rule, hc.WnFloat(pt, cp))
					wr := hc.WnFloat(pt, cr)
					if exp != (wr != 0) {
						cls := "boundary"
						if (wr%2 != 0) == exp {
							cls = "orientation-only"
						}
						c.Fail("settle:"+ruleNames[rule]+":"+cls+strings.TrimSpace(suffix), fmt.Sprintf("Settle(%s): point (%v,%v) expected filled=%v, result winding %d", ruleNames[rule], pt.X, pt.Y, exp, wr),
							map[string]any{"rule": ruleNames[rule], "P": P.String(), "R": R.String(), "point": []float64{pt.X, pt.Y}})
						break
					} else if wr != 0 && wr != 1 {
						c.Fail("settle:"+ruleNames[rule]+":winding-not-01"+strings.TrimSpace(suffix), fmt.Sprintf("Settle(%s): point (%v,%v) has winding %d in the result", ruleNames[rule], pt.X, pt.Y, wr),
							map[string]any{"rule": ruleNames[rule], "P": P.String(), "R": R.String(), "point": []float64{pt.X, pt.Y}})
						break
					}
				}
			}
			line := fmt.Sprintf("REGION settle %d %s P %s R %s PTS %s", rule, hc.H(delta), hc.PolyTokens(cp), hc.PolyTokens(cr), hc.PtsTokens(pts))
			c.Case(line, "!", "settle:"+ruleNames[rule]+suffix)
			c.Count(fmt.Sprintf("rule:%s class:%d open:%v", ruleNames[rule], class, open))
			if len(cr) > 0 {
				c.Distinct(ruleNames[rule] + P.String())
			}
			if it == 0 && rule == 0 {
				c.Sample(fmt.Sprintf("Settle(%s) of %q -> %q", ruleNames[rule], P.String(), R.String()))
			}
			// settling a settled path: same region (read with NonZero), same canonical form
			if rule == 0 || c.Chance(0.3) {
				var R2 *canvas.Path
				if msg := hc.Try(func() { R2 = R.Copy().Settle(canvas.NonZero) }); msg != "" {
					first := strings.SplitN(msg, "\n", 2)[0]
					c.Fail("panic:resettle:"+first, "Settle of a settled path panicked: "+first, map[string]any{"R": R.String()})
				} else if cr2, ok := closedContours(R2); ok {
					pts2 := c.SamplePoints(30, cr, cr2)
					line := fmt.Sprintf("REGION settle 0 %s P %s R %s PTS %s", hc.H(delta), hc.PolyTokens(cr), hc.PolyTokens(cr2), hc.PtsTokens(pts2))
					c.Case(line, "!", "resettle"+suffix)
					c.Count("resettle")
				}
			}
		}
	}
}

// closedContours returns the contours of a flat path, every subpath implicitly closed.
func closedContours(p *canvas.Path) ([][]hc.P2, bool) {
	segs, err := hc.Decode(p.Data())
	if err != nil {
		return nil, false
	}
	var out [][]hc.P2
	for _, sp := range hc.Subpaths(segs) {
		var ct []hc.P2
		closed := false
		for _, s := range sp {
			switch s.Kind {
			case 'M', 'L':
				ct = append(ct, s.End)
			case 'Z':
				closed = true
			default:
				return nil, false
			}
		}
		_ = closed // open result subpaths are read implicitly closed, like open input subpaths
		if len(ct) > 1 && ct[0] == ct[len(ct)-1] {
			ct = ct[:len(ct)-1]
		}
		out = append(out, ct)
	}
	return out, true
}
