package main

import (
	"fmt"
	"strings"

	"github.com/tdewolff/canvas"
	"verifharness/hc"
)

// runSmallGrid: bulk STRICT class. Two to four non-degenerate triangles on a 4x4 integer grid in one
// path (shared edges, vertices on edges, crossings at inexact points are the rule), settled under the
// four rules. No recorded defect applies: the kinds carry the suffix +small-grid and match no known
// finding. The float winding number (exact for the integer input, used on a fixed lattice of 380
// points off the tolerance band) only pre-selects: every suspected case and a random 2% go to the
// exact Lean specification (SETTLE + STRACE lines), which decides.
func runSmallGrid(c *hc.Ctx, n int) {
	var lattice []hc.P2
	for x := -0.37; x < 3.5; x += 0.2113 {
		for y := -0.41; y < 3.5; y += 0.1931 {
			lattice = append(lattice, hc.P2{X: x, Y: y})
		}
	}
	for it := 0; it < n; it++ {
		P := &canvas.Path{}
		k := 2 + c.Intn(3)
		for t := 0; t < k; {
			a := hc.P2{X: float64(c.Intn(4)), Y: float64(c.Intn(4))}
			b := hc.P2{X: float64(c.Intn(4)), Y: float64(c.Intn(4))}
			d := hc.P2{X: float64(c.Intn(4)), Y: float64(c.Intn(4))}
			if b.Sub(a).Cross(d.Sub(a)) == 0 {
				continue
			}
			P.MoveTo(a.X, a.Y)
			P.LineTo(b.X, b.Y)
			P.LineTo(d.X, d.Y)
			P.Close()
			t++
		}
		cp, ok := hc.Contours(P)
		if !ok {
			continue
		}
		if _, _, shared := overlapClass(cp, delta); shared {
			c.Count("small-grid:with-shared-edges")
		}
		for rule := 0; rule < 4; rule++ {
			c.Evals++
			var Rx *canvas.Path
			msg, timedOut := tryTimed(func() { Rx = P.Copy().Settle(canvas.FillRule(rule)) })
			if timedOut {
				c.Fail("hang:settle+small-grid", "Settle did not return within 10 s", map[string]any{"rule": ruleNames[rule], "P": P.String()})
				continue
			}
			if msg != "" {
				first := strings.SplitN(msg, "\n", 2)[0]
				c.Fail("panic:settle:"+first+"+small-grid", "Settle panicked: "+first, map[string]any{"rule": ruleNames[rule], "P": P.String()})
				continue
			}
			R := Rx
			cr, ok := closedContours(R)
			if !ok {
				c.Fail("result-not-flat+small-grid", "Settle result is not a flat well-formed path", map[string]any{"rule": ruleNames[rule], "P": P.String(), "R": R.String()})
				continue
			}
			suspected := false
			for _, pt := range lattice {
				if hc.DistToContours(pt, cp) < 4*delta || (len(cr) > 0 && hc.DistToContours(pt, cr) < 4*delta) {
					continue
				}
				wr := hc.WnFloat(pt, cr)
				if fills(rule, hc.WnFloat(pt, cp)) != (wr != 0) || (wr != 0 && wr != 1) {
					suspected = true
					break
				}
			}
			c.Count("small-grid:settled")
			if !suspected && !c.Chance(0.02) {
				continue
			}
			if suspected {
				c.Count("small-grid:suspected-by-float-oracle")
			}
			line := fmt.Sprintf("SETTLE %d %s P %s R %s PTS %s", rule, hc.H(delta), hc.PolyTokens(cp), hc.PolyTokens(cr), hc.PtsTokens(lattice))
			c.Case(line, "!", "settle:"+ruleNames[rule]+" +small-grid")
			c.Count("small-grid:judged-by-lean")
			traceCase(c, P, false, rule, R, cr, " +small-grid")
		}
	}
}
