package main

import (
	"fmt"
	"strings"

	"github.com/tdewolff/canvas"
	"verifharness/hc"
)

// traceCase re-runs the same Settle call through the hook VerifSettleTrace (the real
// bentleyOttmann with a SweepPoint pool that remembers its points), checks that it returns the
// very path the entry point returned, and sends the final state of every surviving segment to the
// Lean trace model (STRACE line, verdict mode): windings along the prev chains, kept = traced,
// resultWindings parity / steps, direction of the edge in the returned path.
func traceCase(c *hc.Ctx, P *canvas.Path, viaPaths bool, rule int, R *canvas.Path, cr [][]hc.P2, suffix string) {
	var segs []canvas.VerifSettleSeg
	var R2 *canvas.Path
	if msg := hc.Try(func() {
		if viaPaths {
			R2, segs = canvas.VerifSettleTrace(canvas.Paths{P.Copy()}, canvas.FillRule(rule))
		} else {
			R2, segs = canvas.VerifSettleTrace(P.Copy().Split(), canvas.FillRule(rule))
		}
	}); msg != "" {
		c.Fail("trace:panic", "bentleyOttmann panicked under the trace hook but not through the entry point: "+strings.SplitN(msg, "\n", 2)[0],
			map[string]any{"rule": ruleNames[rule], "P": P.String()})
		return
	}
	if R2.String() != R.String() {
		c.Fail("trace:result-differs", "the traced run returns a different path than the entry point",
			map[string]any{"rule": ruleNames[rule], "P": P.String(), "R": R.String(), "Rtrace": R2.String()})
		return
	}
	if len(segs) > 400 {
		c.Count("trace:skipped-too-large")
		return
	}
	var sb strings.Builder
	fmt.Fprintf(&sb, "STRACE %d %d", rule, len(segs))
	absorbed, vertical, merged, ambiguous, traced, maxRW, chainMax := 0, 0, 0, 0, 0, 0, 0
	for _, s := range segs {
		dir := 0
		if s.Traced && !s.Open {
			fwd, bwd := dirInResult(s, cr)
			if fwd+bwd == 1 {
				dir = fwd - bwd
			} else {
				ambiguous++
			}
		}
		fmt.Fprintf(&sb, " %s %s %s %s %s %d %d %d %d %d %s", hc.B(s.Vertical), hc.B(s.Increasing), hc.B(s.Open), hc.B(s.Overlapped), hc.B(s.Traced),
			s.W, s.SW, s.Prev, s.ResultWindings, dir, hc.Hs(s.X0, s.Y0, s.X1, s.Y1))
		absorbed += ind(s.Overlapped)
		vertical += ind(s.Vertical)
		traced += ind(s.Traced)
		if s.SW > 1 || s.SW < -1 {
			merged++
		}
		if s.Traced && s.ResultWindings > maxRW {
			maxRW = s.ResultWindings
		}
		n := 0
		for q := s.Prev; q >= 0 && n <= len(segs); q = segs[q].Prev {
			n++
		}
		if n > chainMax {
			chainMax = n
		}
		if s.Left != 0 {
			kind := "trace:" + ruleNames[rule] + ":inResult-left-over" + strings.TrimSpace(suffix)
			c.Fail(kind, "a segment's inResult counter is not used up by the tracer", map[string]any{"rule": ruleNames[rule], "P": P.String(), "seg": fmt.Sprintf("%+v", s)})
		}
	}
	// the flattened input, so that the case is a self-contained replay (not read by the judgement)
	if cp, ok := hc.Contours(P.Flatten(canvas.Tolerance)); ok {
		sb.WriteString(" IN " + hc.PolyTokens(cp))
	}
	c.Case(sb.String(), "!", "trace:"+ruleNames[rule]+suffix)
	c.Count(fmt.Sprintf("trace:segments-bucket:%d", (len(segs)+19)/20*20))
	c.Count(fmt.Sprintf("trace:max-nesting:%d", min(maxRW, 6)))
	c.Count(fmt.Sprintf("trace:longest-prev-chain-bucket:%d", (chainMax+3)/4*4))
	if absorbed > 0 {
		c.Count("trace:branch:mergeOverlapping-absorbed")
	}
	if merged > 0 {
		c.Count("trace:branch:merged-selfWindings>1")
	}
	if vertical > 0 {
		c.Count("trace:branch:vertical-segments")
	}
	if ambiguous > 0 {
		c.Count("trace:direction-not-observable")
	}
	if traced == 0 {
		c.Count("trace:nothing-traced")
	}
	if maxRW >= 2 {
		c.Count("trace:branch:hole-reversed")
	}
}

// dirInResult counts the edges of the result that run along segment s (both endpoints of s within
// 1e-8 of the edge): fwd in the direction left endpoint -> right endpoint, bwd against it.
func dirInResult(s canvas.VerifSettleSeg, cr [][]hc.P2) (fwd, bwd int) {
	a, b := hc.P2{X: s.X0, Y: s.Y0}, hc.P2{X: s.X1, Y: s.Y1}
	d := b.Sub(a)
	for _, ct := range cr {
		for i := range ct {
			u, v := ct[i], ct[(i+1)%len(ct)]
			if u == v {
				continue
			}
			if hc.DistPointSeg(a, u, v) < 1e-8 && hc.DistPointSeg(b, u, v) < 1e-8 {
				if d.Dot(v.Sub(u)) > 0 {
					fwd++
				} else {
					bwd++
				}
			}
		}
	}
	return
}
