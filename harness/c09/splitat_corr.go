package main

// Correspondence of the structural SplitAt model (lean/CanvasModel/C09/SplitAt.lean): the model does
// the whole walk (sorted copy, subpaths, selection of cuts per segment, cutting loops, builder calls,
// push) itself; what it leaves abstract - the segment length dT SplitAt advances by, the values
// invL(ts[j]-T) of the inverse arc length and the centre form of arcs - is obtained here from the
// real functions through hooks, by a shadow walk that only replicates the selection of the cuts.

import (
	"fmt"
	"math"
	"sort"
	"strings"

	"github.com/tdewolff/canvas"
	"verifharness/hc"
)

type segOracle struct {
	dT, cx, cy, th1, th2 float64
	inv                  []float64 // invL(ts[j]-T) of invSpeedApprox (polished): branch statistics only
	est                  []float64 // the estimates of the Chebyshev polynomial: what the model receives
}

// the model computes dT and the polish loop itself: it only receives the centre form and the estimates
func (o segOracle) tokens() string {
	s := "s " + hc.Hs(o.cx, o.cy, o.th1, o.th2) + " " + fmt.Sprint(len(o.est))
	if len(o.est) > 0 {
		s += " " + hc.Hs(o.est...)
	}
	return s
}

// shadowOracle walks the records the way SplitAt does, only to know which positions fall into which
// segment, and asks the real code for dT / invL / the centre form. ok=false if a length is unusable.
// branchCount, when set, receives the branches of SplitAt the shadow walk sees
var branchCount func(string)

func branch(k string) {
	if branchCount != nil {
		branchCount("splitat-corr branch:" + k)
	}
}

func shadowOracle(rs []rec, tsIn []float64) (os []segOracle, ok bool) {
	ts := append([]float64{}, tsIn...)
	sort.Float64s(ts)
	if len(ts) > 0 && ts[0] == 0.0 {
		ts = ts[1:]
	}
	// Split drops a trailing lone MoveTo: such records are never visited
	n := len(rs)
	if n > 0 && rs[n-1].k == 'M' {
		n--
	}
	j, T := 0, 0.0
	var start canvas.Point
	for _, r := range rs[:n] {
		ex, ey := r.end()
		end := canvas.Point{X: ex, Y: ey}
		if r.k == 'M' {
			start = end
			continue
		}
		o := segOracle{}
		if j < len(ts) {
			var invL, estL func(float64) float64
			var q0, q1, q2, q3 canvas.Point
			switch r.k {
			case 'L', 'Z':
				o.dT = end.Sub(start).Length()
			case 'Q':
				q0, q1, q2 = start, canvas.Point{X: r.f[0], Y: r.f[1]}, end
			case 'C':
				q0, q1, q2, q3 = start, canvas.Point{X: r.f[0], Y: r.f[1]}, canvas.Point{X: r.f[2], Y: r.f[3]}, end
			case 'A':
				o.cx, o.cy, o.th1, o.th2 = canvas.VerifC09EllipseToCenter(start.X, start.Y, r.f[0], r.f[1], r.f[2], r.l, r.s, end.X, end.Y)
				q0, q1 = canvas.Point{X: r.f[0], Y: r.f[1]}, canvas.Point{X: o.th1, Y: o.th2}
			}
			if r.k == 'Q' || r.k == 'C' || r.k == 'A' {
				invL, o.dT = canvas.VerifC09InvArcLength(r.k, q0, q1, q2, q3)
				estL, _ = canvas.VerifC09InvEstimate(r.k, q0, q1, q2, q3)
			}
			if math.IsNaN(o.dT) || math.IsInf(o.dT, 0) {
				return nil, false
			}
			if j < len(ts) && !(T < ts[j]) {
				branch("position-not-beyond-T(blocks)")
			}
			for j < len(ts) && T < ts[j] && ts[j] <= T+o.dT {
				branch("cut-in-" + string(r.k))
				if ts[j] == T+o.dT {
					branch("cut-exactly-at-segment-end")
				}
				if invL != nil {
					v := invL(ts[j] - T)
					if n := len(o.inv); n > 0 && ((r.k != 'A' && v < o.inv[n-1]) || (r.k == 'A' && (o.th1 <= o.th2) == (v < o.inv[n-1]))) {
						branch("inverse-not-monotone-" + string(r.k))
					}
					if n := len(o.inv); r.k != 'A' && n > 0 && !(o.inv[n-1] < 1.0) {
						branch("cut-after-t0-reached-1")
					}
					if r.k != 'A' && math.Abs(v-1) <= 1e-10 {
						branch("remainder-skipped(t0==1)")
					}
					o.inv = append(o.inv, v)
					e := estL(ts[j] - T)
					o.est = append(o.est, e)
					if e != v {
						branch("polish-moved-the-estimate-" + string(r.k))
					} else {
						branch("polish-kept-the-estimate-" + string(r.k))
					}
				} else {
					o.inv = append(o.inv, 0) // lines: only the count matters
					o.est = append(o.est, 0)
				}
				j++
			}
			T += o.dT
			if len(o.inv) == 0 {
				branch("segment-without-cut")
			}
		} else {
			branch("copy-after-last-position")
		}
		os = append(os, o)
		start = end
	}
	return os, true
}

func corrSplitAt(c *hc.Ctx) {
	branchCount = c.Count
	defer func() { branchCount = nil }()
	for it := 0; it < 2*c.N; it++ {
		kinds := []string{"L", "LZ", "LQC", "LQCA", "QC", "A", "LQCAZ", "LA"}[c.Intn(8)]
		p := c.GenPath(kinds, 4, 1+c.Intn(3))
		rs, ok := recsOf(p.Data())
		if !ok || len(rs) < 2 {
			continue
		}
		var L float64
		if msg := hc.Try(func() { L = p.Length() }); msg != "" || !finite(L) || L <= 1e-6 {
			c.Count("splitat-corr skip:length-unusable")
			continue
		}
		m := 1 + c.Intn(5)
		ts := make([]float64, 0, m+2)
		for i := 0; i < m; i++ {
			ts = append(ts, L*c.Range(0, 1.05))
		}
		empty := c.Chance(0.02) // SplitAt() without positions returns the path itself
		switch c.Intn(8) {
		case 0:
			ts = append(ts, 0)
		case 1:
			ts = append(ts, ts[0]+L*c.Range(0.0005, 0.003)) // close pair
		case 2:
			ts = append(ts, ts[0]) // duplicate
		case 4:
			if c.Chance(0.4) {
				ts = append(ts, -L*c.Range(0.01, 0.3)) // outside [0, Length]: suppresses every cut
			}
		case 5:
			if c.Chance(0.4) {
				ts = append(ts, 0, 0) // only one leading 0 is dropped
			}
		case 6:
			// two positions on the very end of a leading Bezier: the second cut finds t0 == 1 (5884f31)
			if rs[1].k == 'Q' || rs[1].k == 'C' {
				x0, y0 := rs[0].end()
				f := rs[1].f
				p0 := canvas.Point{X: x0, Y: y0}
				var dT float64
				if rs[1].k == 'Q' {
					_, dT = canvas.VerifC09InvArcLength('Q', p0, canvas.Point{X: f[0], Y: f[1]}, canvas.Point{X: f[2], Y: f[3]}, canvas.Point{})
				} else {
					_, dT = canvas.VerifC09InvArcLength('C', p0, canvas.Point{X: f[0], Y: f[1]}, canvas.Point{X: f[2], Y: f[3]}, canvas.Point{X: f[4], Y: f[5]})
				}
				if dT > 0 && !math.IsInf(dT, 0) {
					ts = append(ts, dT, dT)
				}
			}
		case 3:
			// a position exactly at a vertex of a leading polyline
			if rs[1].k == 'L' {
				x0, y0 := rs[0].end()
				x1, y1 := rs[1].end()
				ts = append(ts, math.Hypot(x1-x0, y1-y0))
			}
		}
		if empty {
			ts = ts[:0]
			c.Count("splitat-corr branch:no-positions")
		}
		hasArc, nsub := false, 0
		for _, r := range rs {
			if r.k == 'A' {
				hasArc = true
			}
			if r.k == 'M' {
				nsub++
			}
		}
		os, ok := shadowOracle(rs, ts)
		if !ok {
			c.Count("splitat-corr skip:segment-length-unusable")
			continue
		}
		var qs []*canvas.Path
		goOut := ""
		if msg := hc.Try(func() { qs = p.SplitAt(append([]float64{}, ts...)...) }); msg != "" {
			segs, _ := drawSegs(p.Data())
			c.Fail("panic:SplitAt:"+firstLine(msg)+causes(segs), "SplitAt panicked: "+firstLine(msg), map[string]any{"path": p.String(), "ts": ts})
			goOut = "panic"
		} else {
			goOut = piecesHex(qs)
		}
		ot := make([]string, len(os))
		for i, o := range os {
			ot[i] = o.tokens()
		}
		line := "SPLITAT TS " + hc.Hs(ts...) + " P " + recsTokens(rs) + " O " + strings.Join(ot, " ")
		mode := "="
		if hasArc {
			mode = "~" // EllipsePos / radii correction use sin, cos: 1e-9 tolerance
		}
		c.Case(line, mode, goOut)
		c.Distinct(p.String() + fmt.Sprint(ts))
		ncut := 0
		for _, o := range os {
			ncut += len(o.inv)
		}
		c.Count(fmt.Sprintf("splitat-corr subpaths:%d", min(nsub, 3)))
		c.Count(fmt.Sprintf("splitat-corr cuts-made:%d", min(ncut, 6)))
		c.Count(fmt.Sprintf("splitat-corr pieces:%d", min(len(qs), 7)))
		for _, r := range rs {
			c.Count("splitat-corr record:" + string(r.k))
		}
		if it == 0 {
			c.Sample(fmt.Sprintf("SplitAt model case: %q at %v -> %d pieces", p.String(), ts, len(qs)))
		}
	}
}
