package main

// Oracles that judge the property predicate of C09 on the real code. Everything geometric here is
// evaluated from the mathematical definition (hc.Decode / Seg.At: Bernstein form and SVG F.6 centre
// parametrisation); the library's Length / Flatten / SplitAt are never used to judge themselves.

import (
	"fmt"
	"math"
	"sort"
	"strings"

	"github.com/tdewolff/canvas"
	"verifharness/hc"
)

const fineN = 1024 // samples per curved segment of the reference flattening

// drawSegs returns the geometric segments (no MoveTo; zero-length closing segments dropped with the
// tolerance of Point.Equals, the test Reverse itself applies).
func drawSegs(d []float64) ([]hc.Seg, bool) {
	segs, err := hc.Decode(d)
	if err != nil {
		return nil, false
	}
	var out []hc.Seg
	start := hc.P2{}
	for _, s := range segs {
		switch s.Kind {
		case 'M':
			start = s.End
			continue
		case 'Z':
			s.End = start // a Close returns to the subpath start
			if eqPt(s.P0, s.End) {
				continue
			}
		case 'L':
			if eqPt(s.P0, s.End) {
				continue // a zero-length line draws nothing
			}
		}
		out = append(out, s)
	}
	return out, true
}

func eqPt(a, b hc.P2) bool {
	return math.Abs(a.X-b.X) <= 1e-10 && math.Abs(a.Y-b.Y) <= 1e-10
}

func segSamples(s hc.Seg, n int) []hc.P2 {
	if s.Kind == 'L' || s.Kind == 'Z' {
		return []hc.P2{s.P0, s.End}
	}
	return hc.SampleSeg(s, n)
}

func segTrueLen(s hc.Seg) float64 { return hc.PolylineLen(segSamples(s, 4*fineN)) }

func trueLen(segs []hc.Seg) float64 {
	l := 0.0
	for _, s := range segs {
		l += segTrueLen(s)
	}
	return l
}

func finePolyline(segs []hc.Seg, n int) [][]hc.P2 {
	out := make([][]hc.P2, len(segs))
	for i, s := range segs {
		out[i] = segSamples(s, n)
	}
	return out
}

func bboxScale(pls [][]hc.P2) float64 {
	x0, y0, x1, y1 := math.Inf(1), math.Inf(1), math.Inf(-1), math.Inf(-1)
	for _, pl := range pls {
		for _, p := range pl {
			x0, y0, x1, y1 = math.Min(x0, p.X), math.Min(y0, p.Y), math.Max(x1, p.X), math.Max(y1, p.Y)
		}
	}
	if x0 > x1 {
		return 1
	}
	return math.Hypot(x1-x0, y1-y0) + math.Max(math.Max(math.Abs(x0), math.Abs(x1)), math.Max(math.Abs(y0), math.Abs(y1))) + 1
}

func distToPolylines(p hc.P2, pls [][]hc.P2) float64 {
	best := math.Inf(1)
	for _, pl := range pls {
		if d := hc.DistPointPolyline(p, pl); d < best {
			best = d
		}
	}
	return best
}

func finite(f float64) bool { return !math.IsNaN(f) && !math.IsInf(f, 0) }

// lengthTol is the accuracy the repaired code achieves, per segment kind (relative to the segment's arc
// length; measured after 0b071bc / 0869084 on 24,000 generated paths here and on 39,000 paths of curve
// families incl. cusps by the investigation in corpus/C09/inv-fix-cubic-length-quarters.md): straight
// segments exact (1e-9), quadratic closed form <= 1e-6, elliptical arcs <= 0.25% (budget 0.4%), cubics
// <= 0.7% (at a cusp; budget 0.7%). A path may deviate by the sum of the budgets.
func lengthTol(segs []hc.Seg) float64 {
	tol := 1e-9
	for _, s := range segs {
		l := segTrueLen(s)
		switch s.Kind {
		case 'Q':
			tol += 1e-6 * l
		case 'A':
			tol += 4e-3 * l
		case 'C':
			tol += 7e-3 * l
		default:
			tol += 1e-9 * l
		}
	}
	return tol
}

// cutBudgetBase: the length the error of a cut in segment si is measured against: the segment itself when
// it is curved (inverse arc length, stop at 0.1% of the segment) plus the curved segments before it (their
// 16-panel lengths position the segment)
func cutBudgetBase(segs []hc.Seg, segTrue []float64, si int) float64 {
	b := 1e-9
	for i := 0; i <= si; i++ {
		if k := segs[i].Kind; k == 'Q' || k == 'C' || k == 'A' {
			b += segTrue[i]
		}
	}
	return b
}

// errBucket names the decade of a relative error (for the accuracy histograms in the evidence)
func errBucket(e float64) string {
	switch {
	case e <= 1e-6:
		return "<=1e-6"
	case e <= 1e-4:
		return "<=1e-4"
	case e <= 1e-3:
		return "<=0.1%"
	case e <= 1.5e-3:
		return "<=0.15%"
	case e <= 2.5e-3:
		return "<=0.25%"
	case e <= 5e-3:
		return "<=0.5%"
	case e <= 1e-2:
		return "<=1%"
	}
	return ">1%"
}

// ---- cause predicates (computed from the input, they only NAME failure classes) -----------------

// collinearQuad: the quadratic Bezier is degenerate for the closed-form length in THIS direction:
// a = p0-2p1+p2 and b = 2(p1-p0) are antiparallel (control polygon collinear with the control point
// before the start or past the middle of the chord, a control point on the end point, or a quad
// returning to its start). Then B = -2 sqrt(AC) and quadraticBezierLength evaluates
// log(x/(BA+C2)) with BA+C2 = 0 (up to rounding): +Inf, -Inf or NaN. Through the builder only control
// points outside the chord occur (QuadTo turns the others into LineTo).
func collinearQuad(s hc.Seg) bool {
	if s.Kind != 'Q' {
		return false
	}
	a := s.P0.Sub(s.P1.Mul(2)).Add(s.End)
	b := s.P1.Sub(s.P0).Mul(2)
	return math.Abs(a.Cross(b)) <= 1e-8*a.Len()*b.Len() && a.Dot(b) < 0
}

// wideEllipticArc: a non-circular arc along which the speed sqrt(rx^2 sin^2 + ry^2 cos^2) varies by a
// factor of at least 1.4. Measured on the real code (radii ratio x extent grid, out/scratch probe):
// ellipseLength's single 5-point Gauss-Legendre rule over the whole extent exceeds 1% only inside
// this class (ratio 2 / 5 rad: 1.1%, ratio 10 / 1.5 rad: 1.4%, ratio 10 / 6 rad: 9%); circular arcs
// and arcs along the flat side of an ellipse (constant speed) are exact.
func wideEllipticArc(s hc.Seg) bool {
	if s.Kind != 'A' || eqPt(s.P0, s.End) {
		return false
	}
	_, th1, dth, rx, ry := hc.ArcCenter(s)
	lo, hi := math.Inf(1), 0.0
	for i := 0; i <= 64; i++ {
		sn, cs := math.Sincos(th1 + dth*float64(i)/64)
		v := math.Hypot(rx*sn, ry*cs)
		lo, hi = math.Min(lo, v), math.Max(hi, v)
	}
	return hi >= 1.4*lo
}

// sharpBezier: the control polygon folds back (two consecutive legs at more than 90 degrees) or is
// much longer than the chord: the speed |B'(t)| has a narrow minimum that the fixed quadrature /
// Chebyshev interpolation of the inverse arc length does not resolve.
func sharpBezier(s hc.Seg) bool {
	var pts []hc.P2
	switch s.Kind {
	case 'Q':
		pts = []hc.P2{s.P0, s.P1, s.End}
	case 'C':
		pts = []hc.P2{s.P0, s.P1, s.P2, s.End}
	default:
		return false
	}
	poly := 0.0
	for i := 0; i+1 < len(pts); i++ {
		poly += pts[i].Dist(pts[i+1])
	}
	if poly > 3*pts[0].Dist(pts[len(pts)-1]) {
		return true
	}
	for i := 0; i+2 < len(pts); i++ {
		u, v := pts[i+1].Sub(pts[i]), pts[i+2].Sub(pts[i+1])
		if u.Dot(v) < 0 {
			return true
		}
	}
	return false
}

// lineReversal: two consecutive straight segments (LineTo or the closing segment) run in exactly
// opposite directions (a spur / an out-and-back subpath such as "M a L b z"). LineTo's collinear
// merge treated such a reversal as an extension for leftward/downward lines (C10-lineto-merges-reversed-line,
// repaired in /repo 219108c), so a piece that SplitAt re-builds through LineTo lost the spur; the
// predicate is kept so that a regression is named, not hidden (entry C09-splitat-line-reversal is `fixed`).
func lineReversal(segs []hc.Seg) bool {
	for i := 0; i+1 < len(segs); i++ {
		a, b := segs[i], segs[i+1]
		if (a.Kind == 'L' || a.Kind == 'Z') && (b.Kind == 'L' || b.Kind == 'Z') && eqPt(a.End, b.P0) {
			u, v := a.End.Sub(a.P0), b.End.Sub(b.P0)
			if math.Abs(u.Cross(v)) <= 1e-9*u.Len()*v.Len() && u.Dot(v) < 0 {
				return true
			}
		}
	}
	return false
}

// degenerateLine: the array contains a LineTo to the current point, or a LineTo that ends exactly at
// the subpath's start directly before its Close. The builder leaves neither behind (LineTo drops the
// first, Close absorbs the second) except, before /repo 219108c, through the reversed-line merge of
// LineTo (C10-lineto-merges-reversed-line: MoveTo(5,4) .. LineTo(5,4) LineTo(3,4) LineTo(5,4) Close()
// gave "..L5 4L5 4" and then "..L5 4z"); entry C09-reverse-degenerate-line is `fixed`.
func degenerateLine(d []float64) bool {
	segs, err := hc.Decode(d)
	if err != nil {
		return false
	}
	start := hc.P2{}
	for i, s := range segs {
		if s.Kind == 'M' {
			start = s.End
		}
		if s.Kind == 'L' && s.P0 == s.End {
			return true
		}
		if s.Kind == 'L' && s.End == start && i+1 < len(segs) && segs[i+1].Kind == 'Z' {
			return true
		}
	}
	return false
}

// controlOnEndpoint: a quadratic Bezier whose control point lies extremely close to (within 1e-6 of
// the first leg of, but not exactly on) its end point. quadraticBezierLength computes
// Sabc = 2 sqrt(A+B+C) with A+B+C = 4|p2-p1|^2 by cancellation of terms of size |p1-p0|^2: below a
// relative distance of about 1e-7 the sum can come out slightly negative and the square root is NaN.
// Reachable through the builder when the distance exceeds Epsilon (MoveTo(-2,-12.115)
// QuadTo(2,2, 2.000000001,2)); known finding C09-length-nan-control-on-endpoint.
func controlOnEndpoint(s hc.Seg) bool {
	return s.Kind == 'Q' && s.P1 != s.End && s.P1.Dist(s.End) <= 1e-6*s.P1.Dist(s.P0)
}

// nearCuspCubic: a cubic whose speed |B'(t)| drops below 3% of its maximum somewhere inside (a cusp or
// an almost closed hairpin tip). After 8606e8f (two 7-point rules per inflection-free piece) only this
// class still exceeds 1% (measured: up to 1.07%, 2 of 8,000 generated cubic paths).
func nearCuspCubic(s hc.Seg) bool {
	if s.Kind != 'C' {
		return false
	}
	lo, hi := math.Inf(1), 0.0
	for i := 0; i <= 512; i++ {
		t := float64(i) / 512
		u := 1 - t
		dx := 3*u*u*(s.P1.X-s.P0.X) + 6*u*t*(s.P2.X-s.P1.X) + 3*t*t*(s.End.X-s.P2.X)
		dy := 3*u*u*(s.P1.Y-s.P0.Y) + 6*u*t*(s.P2.Y-s.P1.Y) + 3*t*t*(s.End.Y-s.P2.Y)
		v := math.Hypot(dx, dy)
		lo, hi = math.Min(lo, v), math.Max(hi, v)
	}
	return lo <= 0.03*hi
}

func causes(segs []hc.Seg) string {
	var cs []string
	has := func(f func(hc.Seg) bool) bool {
		for _, s := range segs {
			if f(s) {
				return true
			}
		}
		return false
	}
	if has(collinearQuad) {
		cs = append(cs, "+collinear-quad")
	}
	if has(controlOnEndpoint) {
		cs = append(cs, "+control-on-endpoint")
	}
	if has(wideEllipticArc) {
		cs = append(cs, "+wide-elliptic-arc")
	}
	if has(sharpBezier) {
		cs = append(cs, "+sharp-bezier")
	}
	if has(nearCuspCubic) {
		cs = append(cs, "+near-cusp")
	}
	if lineReversal(segs) {
		cs = append(cs, "+line-reversal")
	}
	return strings.Join(cs, "")
}

// ---- Reverse --------------------------------------------------------------------------------------

// involutionHyp: every Close carries exactly its subpath's MoveTo coordinates, a closed subpath does
// not begin with a zero-length LineTo nor end with a LineTo back to the start before its Close
// (the hypotheses of theorem C09.reverse_involutive; the builder guarantees them except that Close
// may keep coordinates within Epsilon of the start).
func involutionHyp(rs []rec) bool {
	for i := 0; i < len(rs); {
		if rs[i].k != 'M' {
			return false
		}
		sx, sy := rs[i].end()
		j := i + 1
		for j < len(rs) && rs[j].k != 'M' && rs[j].k != 'Z' {
			j++
		}
		if j < len(rs) && rs[j].k == 'Z' {
			zx, zy := rs[j].end()
			if zx != sx || zy != sy {
				return false
			}
			if j > i+1 {
				if f := rs[i+1]; f.k == 'L' {
					if x, y := f.end(); eqPt(hc.P2{X: sx, Y: sy}, hc.P2{X: x, Y: y}) {
						return false
					}
				}
				l := rs[j-1]
				x, y := l.end()
				if near := eqPt(hc.P2{X: sx, Y: sy}, hc.P2{X: x, Y: y}); near && (l.k == 'L' || x != sx || y != sy) {
					// Equals(start, end) but not identical: Reverse drops the closing segment and the
					// last command is re-targeted to the start point (differs by < 1e-10)
					return false
				}
			}
			j++
			if j < len(rs) && rs[j].k != 'M' {
				return false
			}
		}
		i = j
	}
	return true
}

func closedFlags(rs []rec) []bool {
	var fl []bool
	for i, r := range rs {
		if r.k == 'M' {
			fl = append(fl, false)
		} else if r.k == 'Z' && len(fl) > 0 && (i+1 == len(rs) || rs[i+1].k == 'M') {
			fl[len(fl)-1] = true
		}
	}
	return fl
}

func oracleReverse(c *hc.Ctx) {
	pool := []hc.P2{}
	for it := 0; it < 2*c.N; it++ {
		var p *canvas.Path
		class := ""
		switch it % 4 {
		case 0: // raw well-formed arrays
			rs, cl := genRecords(c, []string{"L", "LQCA", "QC", "LA"}[c.Intn(4)])
			if cl != "wf-exact" {
				continue
			}
			p = canvas.VerifC09PathFromData(recsData(rs))
			class = "raw"
		case 1: // flat polygons for the winding-number check
			p = c.GenPolygon(c.Intn(4), &pool, false)
			if len(pool) > 64 {
				pool = pool[:0]
			}
			class = "polygon"
		default:
			p = c.GenPath([]string{"L", "LQCA", "LQCAZ", "QC", "A", "LZ"}[c.Intn(6)], 5, 3)
			class = "builder"
		}
		rs, ok := recsOf(p.Data())
		if !ok || len(rs) == 0 {
			continue
		}
		if sg, _ := hc.Decode(p.Data()); class == "raw" {
			degenerate := false
			for _, s := range sg {
				if s.Kind == 'A' && eqPt(s.P0, s.End) {
					degenerate = true // an arc back to its start point has no geometry (SVG F.6.2)
				}
			}
			if degenerate {
				c.Count("reverse skip:degenerate-arc")
				continue
			}
		}
		c.Evals++
		var r, rr *canvas.Path
		if msg := hc.Try(func() { r = p.Reverse(); rr = r.Reverse() }); msg != "" {
			c.Fail("panic:Reverse", msg, map[string]any{"path": p.String()})
			continue
		}
		c.Distinct(p.String())
		c.Count("reverse class:" + class)
		replay := map[string]any{"path": p.String(), "data": hc.DataHex(p.Data()), "reverse": r.String(), "class": class}

		// involution, exact
		if involutionHyp(rs) {
			c.Count("reverse involution-checked")
			if hc.DataHex(rr.Data()) != hc.DataHex(p.Data()) {
				c.Fail("reverse-not-involutive", fmt.Sprintf("Reverse(Reverse(p)) = %q differs from p = %q", rr.String(), p.String()), replay)
			}
		} else {
			c.Count("reverse outside-involution-hypothesis")
			// outside the hypotheses of the theorem the builder can still reach paths whose last
			// segment ends within Epsilon of the start: involution then holds up to that tolerance
			if class == "builder" || class == "polygon" {
				a, b := p.Data(), rr.Data()
				same := len(a) == len(b)
				for i := 0; same && i < len(a); i++ {
					same = math.Abs(a[i]-b[i]) <= 1e-9
				}
				if !same {
					zl := ""
					if degenerateLine(p.Data()) {
						zl = "+degenerate-line"
					}
					c.Fail("reverse-not-involutive:approx"+zl, fmt.Sprintf("Reverse(Reverse(p)) = %q differs from p = %q by more than 1e-9", rr.String(), p.String()), replay)
				}
			}
		}

		// closedness: the flags of the subpaths, in reverse order
		if rsr, ok := recsOf(r.Data()); ok {
			a, b := closedFlags(rs), closedFlags(rsr)
			same := len(a) == len(b)
			for i := 0; same && i < len(a); i++ {
				same = a[i] == b[len(b)-1-i]
			}
			// a trailing lone MoveTo disappears/appears only for arrays the builder does not make
			if !same && involutionHyp(rs) {
				c.Fail("reverse-closedness", fmt.Sprintf("closed flags %v of p become %v", a, b), replay)
			}
		} else {
			c.Fail("reverse-malformed", "Reverse returned a malformed data array", replay)
			continue
		}

		// the executable Lean specification judges the real output on the exact bit patterns
		if rsr, ok := recsOf(r.Data()); ok {
			c.Case("REVSPEC "+recsTokens(rs)+" R "+recsTokens(rsr), "!", "reverse-spec")
			c.Count("reverse spec-verdict")
		}

		// same point set, traversed backwards
		sa, _ := drawSegs(p.Data())
		sb, _ := drawSegs(r.Data())
		scale := bboxScale(finePolyline(sa, 8))
		if len(sa) != len(sb) {
			c.Fail("reverse-segments", fmt.Sprintf("p has %d geometric segments, Reverse(p) has %d", len(sa), len(sb)), replay)
			continue
		}
		bad := ""
		for i := range sa {
			a, b := sa[i], sb[len(sb)-1-i]
			ka, kb := a.Kind, b.Kind
			if ka == 'Z' {
				ka = 'L'
			}
			if kb == 'Z' {
				kb = 'L'
			}
			if ka != kb {
				bad = fmt.Sprintf("segment %d: kind %c became %c", i, a.Kind, b.Kind)
				break
			}
			c.Count("reverse seg:" + string(ka))
			tol := 1e-9 * scale
			if ka == 'A' {
				tol = 1e-6 * scale
			}
			for k := 0; k <= 8; k++ {
				t := float64(k) / 8
				if d := a.At(t).Dist(b.At(1 - t)); !(d <= tol) {
					bad = fmt.Sprintf("segment %d (%c): point at t=%v is %g away from the reversed segment at 1-t", i, a.Kind, t, d)
					break
				}
			}
			if bad != "" {
				break
			}
		}
		if bad != "" {
			c.Fail("reverse-points", bad, replay)
			continue
		}

		// same length and bounds
		var l0, l1 float64
		var b0, b1 canvas.Rect
		if msg := hc.Try(func() { l0, l1 = p.Length(), r.Length(); b0, b1 = p.Bounds(), r.Bounds() }); msg != "" {
			c.Fail("panic:Length/Bounds", msg, replay)
			continue
		}
		if finite(l0) != finite(l1) {
			c.Fail("reverse-length:not-finite"+causes(append(append([]hc.Seg{}, sa...), sb...)), fmt.Sprintf("Length %v, of the reverse %v", l0, l1), replay)
		} else if finite(l0) {
			// both are approximations of the same arc length (measured difference <= 1e-4 of it)
			if !(math.Abs(l0-l1) <= math.Min(1e-3*trueLen(sa), 2*lengthTol(sa))+1e-9) {
				c.Fail("reverse-length"+causes(sa), fmt.Sprintf("Length %v, of the reverse %v", l0, l1), replay)
			} else if !(math.Abs(l0-l1) <= 1e-9*(1+math.Abs(l0))) {
				c.Count("reverse length-differs-by-more-than-1e-9")
			}
			c.Count("reverse length rel-difference " + errBucket(math.Abs(l0-l1)/(trueLen(sa)+1e-300)))
		} else {
			c.Fail("reverse-length:not-finite"+causes(append(append([]hc.Seg{}, sa...), sb...)), fmt.Sprintf("Length %v, of the reverse %v", l0, l1), replay)
		}
		btol := 1e-7 * scale
		if !(math.Abs(b0.X0-b1.X0) <= btol && math.Abs(b0.Y0-b1.Y0) <= btol && math.Abs(b0.X1-b1.X1) <= btol && math.Abs(b0.Y1-b1.Y1) <= btol) {
			c.Fail("reverse-bounds", fmt.Sprintf("Bounds %v, of the reverse %v", b0, b1), replay)
		}

		// negated winding number around every point: flat paths, judged by the exact Lean specification
		if cp, ok := hc.Contours(p); ok {
			if cr, ok := hc.Contours(r); ok {
				pts := c.SamplePoints(10, cp)
				if len(pts) > 0 {
					c.Case(fmt.Sprintf("REVWN %s P %s R %s PTS %s", hc.H(0), hc.PolyTokens(cp), hc.PolyTokens(cr), hc.PtsTokens(pts)), "!", "reverse-winding")
					c.Count("reverse winding-verdict")
					for _, q := range pts {
						if c.Tier == "search" && hc.WnFloat(q, cp) != -hc.WnFloat(q, cr) && hc.DistToContours(q, cp) > 1e-6 {
							c.Fail("reverse-winding:float", fmt.Sprintf("winding number at %v: %d, of the reverse %d", q, hc.WnFloat(q, cp), hc.WnFloat(q, cr)), replay)
						}
					}
				}
			}
		}
		if it == 2 {
			c.Sample(fmt.Sprintf("Reverse %q = %q", p.String(), r.String()))
		}
	}
}

// ---- Length ---------------------------------------------------------------------------------------

// segKindOfWorst finds the segment whose own Length() is farthest (relatively) from its true length.
func worstSegment(segs []hc.Seg) (byte, hc.Seg) {
	worst, wk := 0.0, byte('?')
	var ws hc.Seg
	for _, s := range segs {
		q := &canvas.Path{}
		q.MoveTo(s.P0.X, s.P0.Y)
		switch s.Kind {
		case 'L', 'Z':
			continue
		case 'Q':
			q = canvas.VerifC09PathFromData(append(q.Data(), canvas.QuadToCmd, s.P1.X, s.P1.Y, s.End.X, s.End.Y, canvas.QuadToCmd))
		case 'C':
			q = canvas.VerifC09PathFromData(append(q.Data(), canvas.CubeToCmd, s.P1.X, s.P1.Y, s.P2.X, s.P2.Y, s.End.X, s.End.Y, canvas.CubeToCmd))
		case 'A':
			fl := 0.0
			if s.Large {
				fl += 1
			}
			if s.Sweep {
				fl += 2
			}
			q = canvas.VerifC09PathFromData(append(q.Data(), canvas.ArcToCmd, s.Rx, s.Ry, s.Phi, fl, s.End.X, s.End.Y, canvas.ArcToCmd))
		}
		t := segTrueLen(s)
		l := q.Length()
		e := math.Abs(l-t) / (t + 1e-300)
		if !finite(l) {
			e = math.Inf(1)
		}
		if e > worst {
			worst, wk, ws = e, s.Kind, s
		}
	}
	return wk, ws
}

func genCurvePath(c *hc.Ctx, maxSubs int) *canvas.Path {
	kinds := []string{"L", "LQCA", "Q", "C", "A", "QC", "LA", "LQCAZ"}[c.Intn(8)]
	return c.GenPath(kinds, 4, maxSubs)
}

func oracleLength(c *hc.Ctx) {
	for it := 0; it < 2*c.N; it++ {
		p := genCurvePath(c, 2)
		segs, ok := drawSegs(p.Data())
		if !ok || len(segs) == 0 {
			continue
		}
		c.Evals++
		var l float64
		if msg := hc.Try(func() { l = p.Length() }); msg != "" {
			c.Fail("panic:Length", msg, map[string]any{"path": p.String()})
			continue
		}
		t := trueLen(segs)
		c.Distinct(p.String())
		for _, s := range segs {
			c.Count("length seg:" + string(s.Kind))
		}
		cs := causes(segs)
		if cs != "" {
			c.Count("length input" + cs)
		}
		replay := map[string]any{"path": p.String(), "data": hc.DataHex(p.Data()), "Length": fmt.Sprint(l), "fine_flattening_length": t}
		if !finite(l) {
			wk, ws := worstSegment(segs)
			c.Fail("length-not-finite:"+string(wk)+causes([]hc.Seg{ws}), fmt.Sprintf("Length() = %v for %q (arc length %.6g)", l, p.String(), t), replay)
			continue
		}
		if math.Abs(l-t) > lengthTol(segs) {
			wk, ws := worstSegment(segs)
			dir := "short"
			if l > t {
				dir = "long"
			}
			c.Fail("length-inaccurate:"+string(wk)+causes([]hc.Seg{ws}), fmt.Sprintf("Length() = %.6g is %.2f%% %s of the arc length %.6g of %q (allowed %.2f%%: straight 1e-9, Q 1e-6, A 0.4%%, C 0.7%% of each segment)", l, 100*math.Abs(l-t)/t, dir, t, p.String(), 100*lengthTol(segs)/t), replay)
			continue
		}
		c.Count("length within-tolerance")
		{
			wk, _ := worstSegment(segs)
			c.Count("length rel-error worst-seg:" + string(wk) + " " + errBucket(math.Abs(l-t)/t))
		}
		if it == 0 {
			c.Sample(fmt.Sprintf("Length %q = %v (fine flattening %v)", p.String(), l, t))
		}
	}
}

// ---- SplitAt --------------------------------------------------------------------------------------

func firstLine(s string) string {
	s = strings.SplitN(s, "\n", 2)[0]
	s = strings.ReplaceAll(s, " ", "-")
	if len(s) > 48 {
		s = s[:48]
	}
	return s
}

// suspects are the inputs of repaired defects (known_findings.json: status fixed; commits fc041fc,
// e51fcfc, 221f70c), replayed on every run as regression assertions: a recurrence is a VIOLATION.
func suspects(c *hc.Ctx) {
	{
		// (the second input still needs the monotone clamp after 56b2370: both estimates are within 0.1% and
		// are kept unpolished, the second angle 0.004 rad before the first)
		for _, in := range []struct {
			path string
			ts   []float64
		}{
			{"M7.75 2.25A16.25 1.702 59.99999999999999 1 0 4 -4.246", []float64{2.8704965091161636, 2.973014241584598}},
			{"M0 0A28.564729209941117 1.3101651788599762 150.00000000000003 1 1 -7.3144397975506035 3.5667055036408506", []float64{12.973838480874397, 12.983362131723563}},
		} {
			p := canvas.MustParseSVGPath(in.path)
			segs, _ := drawSegs(p.Data())
			c.Evals++
			if msg := hc.Try(func() { p.SplitAt(append([]float64{}, in.ts...)...) }); msg != "" {
				c.Fail("panic:SplitAt:"+firstLine(msg)+causes(segs), "SplitAt panicked: "+firstLine(msg), map[string]any{"path": p.String(), "ts": in.ts})
			} else {
				c.Count("regression input ok:splitat-arc-close-cuts")
			}
		}
	}
	{
		p := canvas.MustParseSVGPath("M-3.5 -1Q-2.415 -1 -8.25 -1")
		segs, _ := drawSegs(p.Data())
		c.Evals++
		if l := p.Length(); !finite(l) {
			c.Fail("length-not-finite:Q"+causes(segs), fmt.Sprintf("Length() = %v for %q", l, p.String()), map[string]any{"path": p.String()})
		} else {
			c.Count("regression input ok:length-collinear-quad")
		}
	}
	// 0b071bc / 8606e8f: Length of an eccentric arc and of a hairpin cubic
	for _, in := range []struct{ path, kind string }{
		{"M7.75 2.25A16.25 1.702 59.99999999999999 1 0 4 -4.246", "length-inaccurate:A+wide-elliptic-arc"},
		{"M-3.748 -4.25C3.041 0.505 -2.864 -18.722 2 5", "length-inaccurate:C+sharp-bezier"},
	} {
		p := canvas.MustParseSVGPath(in.path)
		segs, _ := drawSegs(p.Data())
		c.Evals++
		if l, t := p.Length(), trueLen(segs); !(math.Abs(l-t) <= lengthTol(segs)) {
			c.Fail(in.kind, fmt.Sprintf("Length() = %v, arc length %.6g of %q", l, t, p.String()), map[string]any{"path": p.String()})
		} else {
			c.Count("regression input ok:" + in.kind)
		}
	}
	// 0869084: Length of a cubic with a near-cusp
	{
		p := canvas.MustParseSVGPath("M-6 -3C-12.372 1.008 14.15 -15.212 1.25 -8.705")
		segs, _ := drawSegs(p.Data())
		c.Evals++
		if l, t := p.Length(), trueLen(segs); !(math.Abs(l-t) <= lengthTol(segs)) {
			c.Fail("length-inaccurate:C+sharp-bezier+near-cusp", fmt.Sprintf("Length() = %v, arc length %.6g of %q", l, t, p.String()), map[string]any{"path": p.String()})
		} else {
			c.Count("regression input ok:length-near-cusp-cubic")
		}
	}
	// 56b2370: cut positions on a hairpin cubic and on an eccentric arc
	for _, in := range []struct {
		path, kind string
		ts         []float64
	}{
		{"M7.5 9.277C10.254 -14.364 17.063 6.574 -2.666 3", "splitat-cut-position+sharp-bezier", []float64{2.8904549689859365, 23.174091721365194, 9.595601884370454, 20.16853771082224}},
		{"M-2 -8.977A6.081 3.5 14.999999999999982 1 0 -2 -15.247A39.058519910829254 4.339835545647695 105.00000000000004 1 1 5.81 -10.872", "splitat-cut-position+wide-elliptic-arc", []float64{14.728990764636382, 54.90020756769627, 81.5863567663037}},
	} {
		p := canvas.MustParseSVGPath(in.path)
		segs, _ := drawSegs(p.Data())
		segTrue := make([]float64, len(segs))
		for i, sg := range segs {
			segTrue[i] = segTrueLen(sg)
		}
		sorted := append([]float64{}, in.ts...)
		sort.Float64s(sorted)
		c.Evals++
		bad := ""
		msg := hc.Try(func() {
			qs := p.SplitAt(append([]float64{}, in.ts...)...)
			cum := 0.0
			for k := 0; k < len(sorted) && k < len(qs); k++ {
				sg, _ := drawSegs(qs[k].Data())
				cum += trueLen(sg)
				if e := math.Abs(cum - sorted[k]); e > 0.0015*cutBudgetBase(segs, segTrue, len(segs)-1) {
					bad = fmt.Sprintf("cut %d requested at %.6g lies at arc length %.6g", k, sorted[k], cum)
				}
			}
			if len(qs) != len(sorted)+1 {
				bad = fmt.Sprintf("%d pieces for %d cuts", len(qs), len(sorted))
			}
		})
		if msg != "" || bad != "" {
			c.Fail(in.kind, bad+msg, map[string]any{"path": p.String(), "ts": in.ts})
		} else {
			c.Count("regression input ok:" + in.kind)
		}
	}
	// deac3eb: two close cuts on a cubic must not come out in the wrong order (the second input still needs
	// the clamp after 56b2370: both estimates are within 0.1% and kept unpolished, t = 0.85095 then 0.85000)
	for _, in := range []struct {
		path string
		ts   []float64
	}{
		{"M1 0.29C-10.697 7 5 -2 -7.25 10C-9.076 -2.25 3 -3.68 8 -4C2 17.395 14.532 0 -3.529 -18.361C3 -17.809 6 -0.694 15.054 13.571", []float64{71.35346429181375, 71.06690681359908, 39.719843451538175, 39.59148072963598}},
		{"M-17.742 -11.168C14.702 -5.93 6.916 10.39 11.37 -11.253", []float64{32.936274735372166, 32.943661709801034}},
	} {
		p := canvas.MustParseSVGPath(in.path)
		segs, _ := drawSegs(p.Data())
		c.Evals++
		tot := 0.0
		msg := hc.Try(func() {
			for _, q := range p.SplitAt(append([]float64{}, in.ts...)...) {
				sg, _ := drawSegs(q.Data())
				tot += trueLen(sg)
			}
		})
		if T := trueLen(segs); msg != "" || tot > T*(1+1e-4) {
			c.Fail("splitat-overlap+sharp-bezier", fmt.Sprintf("the pieces overlap: their total arc length is %.6g, the path's %.6g %s", tot, T, msg), map[string]any{"path": p.String(), "ts": in.ts})
		} else {
			c.Count("regression input ok:splitat-overlap")
		}
	}
	{
		p := canvas.MustParseSVGPath("M0 0L10 0M0 5L10 5L10 8")
		c.Evals++
		var out []string
		if msg := hc.Try(func() {
			for _, q := range p.SplitAt(3, 12, 15) {
				out = append(out, q.String())
			}
		}); msg != "" || strings.Join(out, " | ") != "M0 0L3 0 | M3 0L10 0M0 5L2 5 | M2 5L5 5 | M5 5L10 5L10 8" {
			c.Fail("splitat-geometry+multi-subpath", fmt.Sprintf("SplitAt(3,12,15) of %q = %v %s", p.String(), out, msg), map[string]any{"path": p.String(), "ts": []float64{3, 12, 15}, "pieces": out})
		} else {
			c.Count("regression input ok:splitat-multi-subpath")
		}
	}
}

func oracleSplitAt(c *hc.Ctx) {
	suspects(c)
	for it := 0; it < 2*c.N; it++ {
		maxSubs := 1
		if it%4 == 3 {
			maxSubs = 3
		}
		p := genCurvePath(c, maxSubs)
		segs, ok := drawSegs(p.Data())
		if !ok || len(segs) == 0 {
			continue
		}
		nsub := 0
		rs, _ := recsOf(p.Data())
		for _, r := range rs {
			if r.k == 'M' {
				nsub++
			}
		}
		multi := ""
		if nsub > 1 {
			multi = "+multi-subpath"
		}
		var L float64
		if msg := hc.Try(func() { L = p.Length() }); msg != "" || !finite(L) {
			wk, ws := worstSegment(segs)
			c.Fail("length-not-finite:"+string(wk)+causes([]hc.Seg{ws}), fmt.Sprintf("Length() = %v %s for %q", L, msg, p.String()), map[string]any{"path": p.String()})
			continue
		}
		if L <= 1e-6 {
			c.Count("splitat skip:zero-length-path")
			continue
		}
		segTrue := make([]float64, len(segs))
		T := 0.0
		for i, s := range segs {
			segTrue[i] = segTrueLen(s)
			T += segTrue[i]
		}
		cs := causes(segs)
		// cut positions: distinct, unsorted, away from both ends (the ends are probed separately below)
		m := 1 + c.Intn(4)
		ts := make([]float64, m)
		for i := range ts {
			ts[i] = L * (0.03 + 0.94*(float64(i)+c.Range(0.1, 0.9))/float64(m))
		}
		if nsub > 1 && c.Chance(0.4) {
			// a cut exactly at the end of the first subpath (the caller derives it from the subpath's
			// own Length, as in "split this path at its subpath boundaries")
			var l0 float64
			if msg := hc.Try(func() { l0 = p.Split()[0].Length() }); msg == "" && l0 > 0.03*L && l0 < 0.97*L {
				dup := false
				for _, t := range ts {
					if math.Abs(t-l0) < 1e-6*L {
						dup = true
					}
				}
				if !dup {
					ts[0] = l0
					c.Count("splitat cut-at-subpath-end")
				}
			}
		}
		if c.Chance(0.25) && m <= 3 {
			// a second cut shortly after each one (two cuts inside one curved segment)
			for i := 0; i < m; i++ {
				ts = append(ts, ts[i]+L*c.Range(0.001, 0.004))
			}
			m = len(ts)
			c.Count("splitat close-pairs")
		}
		for i := len(ts) - 1; i > 0; i-- {
			j := c.Intn(i + 1)
			ts[i], ts[j] = ts[j], ts[i]
		}
		sorted := append([]float64{}, ts...)
		sort.Float64s(sorted)
		arg := append([]float64{}, ts...)
		before := hc.DataHex(p.Data())
		c.Evals++
		var qs []*canvas.Path
		replay := map[string]any{"path": p.String(), "data": before, "ts": ts}
		if msg := hc.Try(func() { qs = p.SplitAt(arg...) }); msg != "" {
			c.Fail("panic:SplitAt:"+firstLine(msg)+multi+cs, "SplitAt panicked: "+firstLine(msg), replay)
			continue
		}
		c.Distinct(p.String() + fmt.Sprint(ts))
		c.Count(fmt.Sprintf("splitat subpaths:%d cuts:%d", nsub, m))
		if cs != "" {
			c.Count("splitat input" + cs)
		}
		// purity
		if hc.DataHex(p.Data()) != before {
			c.Fail("impure:SplitAt-receiver", "SplitAt changed its receiver", replay)
		}
		for i := range ts {
			if arg[i] != ts[i] {
				c.Fail("impure:SplitAt-sorts-ts", fmt.Sprintf("SplitAt reordered the caller's slice %v into %v", ts, arg), replay)
				break
			}
		}
		out := make([]string, len(qs))
		for i, q := range qs {
			out[i] = q.String()
		}
		replay["pieces"] = out

		// decode the pieces
		var pieceSegs [][]hc.Seg
		malformed := false
		for _, q := range qs {
			sg, ok := drawSegs(q.Data())
			if !ok {
				malformed = true
				break
			}
			pieceSegs = append(pieceSegs, sg)
		}
		if malformed {
			c.Fail("splitat-malformed"+multi, "a piece has a malformed data array", replay)
			continue
		}
		if len(qs) != m+1 {
			c.Fail("splitat-piece-count"+multi+cs, fmt.Sprintf("%d cuts inside (0.03 L, 0.97 L) gave %d pieces", m, len(qs)), replay)
			continue
		}
		// consecutive pieces: each starts where the previous one ends
		// (per subpath: a piece may run over the end of a subpath into the next one - an inner MoveTo to
		// that subpath's start directly after the previous subpath's end - and a piece that follows a
		// cut at the very end of a subpath starts at the next subpath's start)
		bad := ""
		first, last := segs[0].P0, segs[len(segs)-1].End
		var subStarts, subEnds []hc.P2
		if all, err := hc.Decode(p.Data()); err == nil {
			for _, sp := range hc.Subpaths(all) {
				if len(sp) > 1 {
					subStarts = append(subStarts, sp[0].End)
					e := sp[len(sp)-1].End
					if sp[len(sp)-1].Kind == 'Z' {
						e = sp[0].End
					}
					subEnds = append(subEnds, e)
				}
			}
		}
		inSet := func(q hc.P2, set []hc.P2) bool {
			for _, x := range set {
				if eqPt(q, x) {
					return true
				}
			}
			return false
		}
		prevEnd := first
		for i, q := range qs {
			all, _ := hc.Decode(q.Data())
			if len(all) == 0 || all[0].Kind != 'M' {
				bad = fmt.Sprintf("piece %d does not start with a MoveTo", i)
				break
			}
			for k, sg := range all {
				if k > 0 && sg.Kind == 'M' && !(multi != "" && inSet(sg.End, subStarts) && inSet(all[k-1].End, subEnds)) {
					bad = fmt.Sprintf("piece %d is not one continuous curve", i)
				}
			}
			start, end := all[0].End, all[len(all)-1].End
			if len(all) == 1 {
				// two cuts mapped to the same point leave a piece that is only a MoveTo
				c.Count("splitat empty-piece")
			}
			// (a cut that falls on the first 1e-10 of an arc leaves a gap of a few ulp: MoveTo(EllipsePos(theta1)))
			if !eqPt(start, prevEnd) && !(multi != "" && i > 0 && inSet(prevEnd, subEnds) && inSet(start, subStarts)) {
				if i == 0 {
					bad = "the first piece does not start at the start of the path"
				} else {
					bad = fmt.Sprintf("piece %d does not start where piece %d ends", i, i-1)
				}
			} else if start != prevEnd {
				c.Count("splitat join-inexact-by-ulps")
			}
			if i == len(qs)-1 && !eqPt(end, last) {
				bad = "the last piece does not end at the end of the path"
			}
			prevEnd = end
		}
		if bad != "" {
			c.Fail("splitat-not-consecutive"+cs+multi, bad, replay)
			continue
		}

		// geometric concatenation: every piece lies on the path, the path is covered, nothing is drawn twice
		orig := finePolyline(segs, fineN)
		scale := bboxScale(orig)
		gtol := 2e-4 * scale
		var piecePl [][]hc.P2
		pieceTrue := make([]float64, len(pieceSegs))
		for i, sg := range pieceSegs {
			for _, s := range sg {
				pl := segSamples(s, 128)
				piecePl = append(piecePl, pl)
				pieceTrue[i] += hc.PolylineLen(segSamples(s, fineN))
				for k := 0; k < len(pl); k += 8 {
					if d := distToPolylines(pl[k], orig); !(d <= gtol) && bad == "" {
						bad = fmt.Sprintf("piece %d (%q) has a point %v that is %.3g away from the path", i, qs[i].String(), pl[k], d)
					}
				}
			}
		}
		if bad == "" {
			for _, pl := range orig {
				step := max(len(pl)/16, 1)
				for k := 0; k < len(pl); k += step {
					if d := distToPolylines(pl[k], piecePl); !(d <= gtol) && bad == "" {
						bad = fmt.Sprintf("point %v of the path is %.3g away from every piece", pl[k], d)
					}
				}
			}
		}
		sumTrue := 0.0
		for _, l := range pieceTrue {
			sumTrue += l
		}
		if bad == "" && sumTrue > T*(1+1e-3) {
			// every piece lies on the path and the path is covered, but a stretch is drawn twice: two
			// cuts came out in the wrong order and the piece between them runs backwards
			c.Fail("splitat-overlap"+cs+multi, fmt.Sprintf("the pieces overlap: their total arc length is %.6g, the path's %.6g", sumTrue, T), replay)
			continue
		}
		if bad == "" && sumTrue < T*(1-1e-3) {
			bad = fmt.Sprintf("the pieces have total arc length %.6g, the path %.6g", sumTrue, T)
		}
		if bad != "" {
			c.Fail("splitat-geometry"+cs+multi, bad, replay)
			continue
		}
		c.Count("splitat geometry-ok")

		// lengths of the pieces sum to Length()
		sumLen := 0.0
		lenOK := true
		for _, q := range qs {
			l := q.Length()
			if !finite(l) {
				lenOK = false
			}
			sumLen += l
		}
		if lenOK {
			c.Count("splitat length-sum rel-error " + errBucket(math.Abs(sumLen-L)/L))
		}
		if !lenOK || math.Abs(sumLen-L) > math.Min(0.005*L, 2*lengthTol(segs)) {
			c.Fail("splitat-length-sum"+cs+multi, fmt.Sprintf("piece lengths sum to %.6g, Length() = %.6g (arc length %.6g)", sumLen, L, T), replay)
		}

		// cut k lies at arc length ts[k], measured on the fine flattening
		cum := 0.0
		worst := ""
		for k := 0; k < m; k++ {
			cum += pieceTrue[k]
			// the segment the cut belongs to: the later one of where it lies and where it was requested
			pre, si := 0.0, 0
			for si = 0; si < len(segs); si++ {
				pre += segTrue[si]
				if cum <= pre+1e-9 && sorted[k] <= pre+1e-9 {
					break
				}
			}
			if si == len(segs) {
				si--
			}
			if e := math.Abs(cum - sorted[k]); true {
				c.Count("splitat cut rel-error/prefix " + errBucket(e/pre))
				c.Count("splitat cut rel-error/budget " + errBucket(e/cutBudgetBase(segs, segTrue, si)))
			}
			// measured after 56b2370 (68,000 cuts here, 39,000 paths in corpus/C09/inv-fix-splitat-polish.md):
			// every cut within 0.12% of the curved length up to the end of its segment; budget 0.15%
			if e := math.Abs(cum - sorted[k]); e > 0.0015*cutBudgetBase(segs, segTrue, si)+1e-9*pre && worst == "" {
				worst = fmt.Sprintf("cut %d requested at %.6g lies at arc length %.6g (off by %.3f%% of the curved length %.6g up to the end of its %c segment; allowed 0.15%%)", k, sorted[k], cum, 100*e/cutBudgetBase(segs, segTrue, si), cutBudgetBase(segs, segTrue, si), segs[si].Kind)
				// the position depends on the lengths of all segments up to and including this one
				c.Fail("splitat-cut-position"+causes(segs[:si+1])+multi, worst, replay)
			}
		}
		if worst == "" {
			c.Count("splitat cuts-within-0.15%")
		}
		if it == 0 {
			c.Sample(fmt.Sprintf("SplitAt %q at %v -> %v", p.String(), sorted, out))
		}
	}

	// end positions and degenerate requests: documented only by counting (outside (0, Length))
	for it := 0; it < c.N/4+1; it++ {
		p := genCurvePath(c, 1)
		var L float64
		if msg := hc.Try(func() { L = p.Length() }); msg != "" || !finite(L) || L <= 1e-6 {
			continue
		}
		for _, ts := range [][]float64{{0}, {L}, {L / 2, L / 2}, {-1, L / 2}, {2 * L}} {
			var qs []*canvas.Path
			c.Evals++
			if msg := hc.Try(func() { qs = p.SplitAt(append([]float64{}, ts...)...) }); msg != "" {
				segs, _ := drawSegs(p.Data())
				c.Fail("panic:SplitAt:"+firstLine(msg)+causes(segs), "SplitAt panicked: "+firstLine(msg), map[string]any{"path": p.String(), "ts": ts})
				continue
			}
			c.Count(fmt.Sprintf("splitat edge ts/L=%v pieces:%d", []float64{math.Round(ts[0]/L*100) / 100, math.Round(ts[len(ts)-1]/L*100) / 100}, len(qs)))
		}
	}
}
