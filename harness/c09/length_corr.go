package main

// Correspondence of the Length model (lean/CanvasModel/C09/Length.lean): the accumulation loop,
// math.Hypot, the quadratic closed form, the cubic and elliptic Gauss-Legendre sums (tables extracted
// from util.go) are computed by the model; only the inflection parameters of cubics and the centre
// angles of arcs are passed in from the real code.

import (
	"fmt"
	"math"
	"strings"

	"github.com/tdewolff/canvas"
	"verifharness/hc"
)

func corrLength(c *hc.Ctx) {
	// math.Hypot, bit-exact
	for it := 0; it < c.N; it++ {
		x, y := c.GenCoord(), c.GenCoord()
		switch c.Intn(8) {
		case 0:
			x = 0
		case 1:
			y = 0
		case 2:
			x, y = 0, 0
		case 3:
			x *= 1e-9
		case 4:
			y *= 1e6
		case 5:
			x = -x
		}
		c.Case("HYPOT "+hc.Hs(x, y), "=", hc.H(math.Hypot(x, y)))
		c.Count("length-corr hypot")
	}
	for it := 0; it < 2*c.N; it++ {
		var p *canvas.Path
		class := "builder"
		if it%3 == 2 {
			// raw arrays: degenerate quads (collinear, control point on an end point), zero-length records
			rs, _ := genRecords(c, []string{"LQ", "LQCA", "QC", "Q"}[c.Intn(4)])
			p = canvas.VerifC09PathFromData(recsData(rs))
			class = "raw"
		} else {
			kinds := []string{"L", "LZ", "LC", "C", "Q", "LQC", "A", "LQCA", "LQCAZ"}[c.Intn(9)]
			p = c.GenPath(kinds, 5, 1+c.Intn(3))
		}
		rs, ok := recsOf(p.Data())
		if !ok || len(rs) == 0 {
			continue
		}
		var L float64
		if msg := hc.Try(func() { L = p.Length() }); msg != "" {
			c.Fail("panic:Length", msg, map[string]any{"path": p.String()})
			continue
		}
		var or []float64
		exact := true
		var start canvas.Point
		for _, r := range rs {
			ex, ey := r.end()
			end := canvas.Point{X: ex, Y: ey}
			if r.k == 'M' {
				start = end
				continue
			}
			a, b := 0.0, 0.0
			switch r.k {
			case 'C':
				a, b = canvas.VerifFindInflectionPointsCubicBezier(start, canvas.Point{X: r.f[0], Y: r.f[1]}, canvas.Point{X: r.f[2], Y: r.f[3]}, end)
				if !math.IsNaN(a) {
					c.Count("length-corr cubic-with-inflection")
				}
			case 'A':
				_, _, a, b = canvas.VerifC09EllipseToCenter(start.X, start.Y, r.f[0], r.f[1], r.f[2], r.l, r.s, end.X, end.Y)
				exact = false // sin, cos
			case 'Q':
				exact = false // log
			}
			or = append(or, a, b)
			start = end
			c.Count("length-corr record:" + string(r.k))
		}
		mode := "~"
		if exact {
			mode = "="
			c.Count("length-corr exact-case")
		}
		line := "LENGTH " + recsTokens(rs) + " O"
		if len(or) > 0 {
			line += " " + hc.Hs(or...)
		}
		c.Case(line, mode, hc.H(L))
		c.Count("length-corr class:" + class)
		c.Distinct("len:" + p.String())
		if it == 0 {
			c.Sample(fmt.Sprintf("Length model case: %q = %v", strings.TrimSpace(p.String()), L))
		}
	}
}
