// C09 — Length, SplitAt and Reverse are consistent views of one curve.
//
//  1. correspondence (this file): Reverse and Split of generated record arrays (all segment types,
//     several subpaths, open/closed, builder-made and raw well-framed arrays the builder never
//     makes) vs the Lean model, bit-exact; ellipseSplit flag logic; gaussLegendre3/5/7 against the
//     node/weight table extracted from util.go; the de Casteljau split functions (L1).
//  2. oracles on the real code (oracle.go): Reverse (involution, same points backwards, length,
//     bounds, closedness, negated winding through the exact Lean specification), Length against a
//     fine independent flattening, SplitAt (consecutive pieces, geometric concatenation, piece
//     lengths, cut positions, purity, per-subpath behaviour).
package main

import (
	"fmt"
	"math"
	"strings"

	"github.com/tdewolff/canvas"
	"verifharness/hc"
)

func main() { hc.Main("C09", run) }

func run(c *hc.Ctx) {
	if c.Only == "" || c.Only == "corr" {
		corr(c)
	}
	if c.Only == "" || c.Only == "splitat-corr" {
		corrSplitAt(c)
	}
	if c.Only == "" || c.Only == "length-corr" {
		corrLength(c)
	}
	if c.Only == "" || c.Only == "reverse" {
		oracleReverse(c)
	}
	if c.Only == "" || c.Only == "length" {
		oracleLength(c)
	}
	if c.Only == "" || c.Only == "splitat" {
		oracleSplitAt(c)
	}
}

// ---- records -------------------------------------------------------------------------------------

// rec is one record of the data array.
type rec struct {
	k    byte // M L Q C A Z
	f    []float64
	l, s bool
}

func (r rec) data() []float64 {
	switch r.k {
	case 'M':
		return []float64{canvas.MoveToCmd, r.f[0], r.f[1], canvas.MoveToCmd}
	case 'L':
		return []float64{canvas.LineToCmd, r.f[0], r.f[1], canvas.LineToCmd}
	case 'Z':
		return []float64{canvas.CloseCmd, r.f[0], r.f[1], canvas.CloseCmd}
	case 'Q':
		return []float64{canvas.QuadToCmd, r.f[0], r.f[1], r.f[2], r.f[3], canvas.QuadToCmd}
	case 'C':
		return []float64{canvas.CubeToCmd, r.f[0], r.f[1], r.f[2], r.f[3], r.f[4], r.f[5], canvas.CubeToCmd}
	case 'A':
		fl := 0.0
		if r.l {
			fl += 1
		}
		if r.s {
			fl += 2
		}
		return []float64{canvas.ArcToCmd, r.f[0], r.f[1], r.f[2], fl, r.f[3], r.f[4], canvas.ArcToCmd}
	}
	panic("bad record")
}

func (r rec) tokens() string {
	if r.k == 'A' {
		return "A " + hc.Hs(r.f[0], r.f[1], r.f[2]) + " " + hc.B(r.l) + " " + hc.B(r.s) + " " + hc.Hs(r.f[3], r.f[4])
	}
	return string(r.k) + " " + hc.Hs(r.f...)
}

func (r rec) end() (float64, float64) { return r.f[len(r.f)-2], r.f[len(r.f)-1] }

func recsData(rs []rec) []float64 {
	var d []float64
	for _, r := range rs {
		d = append(d, r.data()...)
	}
	return d
}

func recsTokens(rs []rec) string {
	s := make([]string, len(rs))
	for i, r := range rs {
		s[i] = r.tokens()
	}
	return strings.Join(s, " ")
}

// recsOf decodes a (well-framed) data array into records.
func recsOf(d []float64) ([]rec, bool) {
	segs, err := hc.Decode(d)
	if err != nil {
		return nil, false
	}
	rs := make([]rec, 0, len(segs))
	for _, s := range segs {
		switch s.Kind {
		case 'M', 'L', 'Z':
			rs = append(rs, rec{k: s.Kind, f: []float64{s.End.X, s.End.Y}})
		case 'Q':
			rs = append(rs, rec{k: 'Q', f: []float64{s.P1.X, s.P1.Y, s.End.X, s.End.Y}})
		case 'C':
			rs = append(rs, rec{k: 'C', f: []float64{s.P1.X, s.P1.Y, s.P2.X, s.P2.Y, s.End.X, s.End.Y}})
		case 'A':
			rs = append(rs, rec{k: 'A', f: []float64{s.Rx, s.Ry, s.Phi, s.End.X, s.End.Y}, l: s.Large, s: s.Sweep})
		}
	}
	return rs, true
}

// small coordinate pool: equal and nearly-equal points must be frequent, because Reverse's only
// data-dependent decisions are Equals(start,end) at a Close and "first LineTo of a closed subpath".
func genSmall(c *hc.Ctx) float64 {
	switch c.Intn(8) {
	case 0, 1, 2, 3:
		return float64(c.Intn(5) - 2)
	case 4:
		return float64(c.Intn(5)-2) + 1e-11*float64(c.Intn(3)-1) // inside the Epsilon of Equal
	case 5:
		return float64(c.Intn(5)-2) + 1e-9*float64(c.Intn(3)-1) // just outside
	default:
		return c.GenCoord()
	}
}

// genRecords builds a well-framed record array: subpaths `M seg* Z?`, including arrays the builder
// never produces (zero-length segments, LineTo back to the start before Z, consecutive/trailing
// MoveTo, Close directly after MoveTo, Close carrying near or unrelated coordinates).
func genRecords(c *hc.Ctx, kinds string) ([]rec, string) {
	var rs []rec
	class := "wf-exact"
	ns := 1 + c.Intn(4)
	for s := 0; s < ns; s++ {
		sx, sy := genSmall(c), genSmall(c)
		rs = append(rs, rec{k: 'M', f: []float64{sx, sy}})
		if c.Chance(0.06) { // consecutive MoveTo
			sx, sy = genSmall(c), genSmall(c)
			rs = append(rs, rec{k: 'M', f: []float64{sx, sy}})
			class = "raw"
		}
		n := c.Intn(6)
		if c.Chance(0.05) {
			n = 0
		}
		px, py := sx, sy
		for i := 0; i < n; i++ {
			x, y := genSmall(c), genSmall(c)
			if c.Chance(0.05) { // zero-length
				x, y = px, py
			}
			if i == n-1 && c.Chance(0.25) { // back to the start
				x, y = sx, sy
			}
			switch kinds[c.Intn(len(kinds))] {
			case 'L':
				rs = append(rs, rec{k: 'L', f: []float64{x, y}})
			case 'Q':
				rs = append(rs, rec{k: 'Q', f: []float64{genSmall(c), genSmall(c), x, y}})
			case 'C':
				rs = append(rs, rec{k: 'C', f: []float64{genSmall(c), genSmall(c), genSmall(c), genSmall(c), x, y}})
			case 'A':
				rs = append(rs, rec{k: 'A', f: []float64{math.Abs(genSmall(c)) + 0.5, math.Abs(genSmall(c)) + 0.25, float64(c.Intn(12)) * math.Pi / 12, x, y}, l: c.Bool(), s: c.Bool()})
			}
			px, py = x, y
		}
		if c.Chance(0.5) {
			zx, zy := sx, sy
			if c.Chance(0.06) {
				zx += 1e-11
				class = "raw"
			} else if c.Chance(0.03) {
				zx, zy = genSmall(c), genSmall(c)
				class = "raw"
			}
			rs = append(rs, rec{k: 'Z', f: []float64{zx, zy}})
		}
	}
	if c.Chance(0.05) { // trailing MoveTo
		rs = append(rs, rec{k: 'M', f: []float64{genSmall(c), genSmall(c)}})
		class = "raw"
	}
	return rs, class
}

func piecesHex(ps []*canvas.Path) string {
	var sb strings.Builder
	sb.WriteString(fmt.Sprint(len(ps)))
	for _, p := range ps {
		sb.WriteString(" | ")
		sb.WriteString(hc.DataHex(p.Data()))
	}
	return sb.String()
}

func corr(c *hc.Ctx) {
	// 1. de Casteljau split functions (generated definitions the theorems are about)
	// (the generated definitions the theorems and the hand models are built on: the split/pos/deriv
	// functions, Equal and the Point operations used by the Length and SplitAt models)
	names := hc.L1Names([]string{"Core", "Bezier"}, func(file, recv, name string) bool {
		if recv == "Point" {
			switch name {
			case "Add", "Sub", "Mul", "Dot", "Interpolate":
				return true
			}
			return false
		}
		return name == "Equal" || strings.HasSuffix(name, "BezierSplit") || strings.HasSuffix(name, "BezierPos") || name == "cubicBezierDeriv"
	})
	c.L1Corr(names, c.N/2+1)

	// 2. Reverse / Split on record arrays
	for it := 0; it < 4*c.N; it++ {
		var rs []rec
		var class string
		if it%4 == 3 {
			// builder-made
			p := c.GenPath([]string{"L", "LQCA", "LQCAZ", "QC", "A"}[c.Intn(5)], 5, 4)
			var ok bool
			if rs, ok = recsOf(p.Data()); !ok || len(rs) == 0 {
				continue
			}
			class = "builder"
		} else {
			rs, class = genRecords(c, []string{"L", "LQCA", "LLQ", "QCA", "LA"}[c.Intn(5)])
		}
		d := recsData(rs)
		toks := recsTokens(rs)
		p := canvas.VerifC09PathFromData(d)
		var rev *canvas.Path
		if msg := hc.Try(func() { rev = p.Reverse() }); msg != "" {
			c.Fail("panic:Reverse", msg, map[string]any{"path": p.String()})
			continue
		}
		c.Case("REV "+toks, "=", hc.DataHex(rev.Data()))
		reverseBranches(c, rs)
		var ps []*canvas.Path
		if msg := hc.Try(func() { ps = p.Split() }); msg != "" {
			c.Fail("panic:Split", msg, map[string]any{"path": p.String()})
			continue
		}
		c.Case("SPLIT "+toks, "=", piecesHex(ps))
		c.Distinct(toks)
		c.Count("corr records class:" + class)
		nclosed, nsub := 0, 0
		for _, r := range rs {
			c.Count("corr record:" + string(r.k))
			if r.k == 'M' {
				nsub++
			}
			if r.k == 'Z' {
				nclosed++
			}
		}
		c.Count(fmt.Sprintf("corr subpaths:%d", min(nsub, 5)))
		if nclosed > 0 {
			c.Count("corr has-closed-subpath")
		}
		if len(rev.Data()) != len(d) {
			c.Count("corr reverse-changes-record-count")
		}
		if it == 0 {
			c.Sample(fmt.Sprintf("Reverse %q -> %q ; Split -> %d pieces", p.String(), rev.String(), len(ps)))
		}
	}

	// 2b. the Bezier cutting loops of SplitAt: one curved segment, 1-4 cuts; the parameters t = invL(ts[j])
	// are obtained from the same inverse arc length SplitAt builds (hook), the Lean model runs its
	// cutting loop with the generated split function on these parameters, pieces compared bit-exactly
	for it := 0; it < c.N; it++ {
		cube := c.Bool()
		pt := func() canvas.Point { return canvas.Point{X: c.GenCoord(), Y: c.GenCoord()} }
		p0, p1, p2, p3 := pt(), pt(), pt(), pt()
		p := &canvas.Path{}
		p.MoveTo(p0.X, p0.Y)
		kind := byte('Q')
		if cube {
			kind = 'C'
			p.CubeTo(p1.X, p1.Y, p2.X, p2.Y, p3.X, p3.Y)
		} else {
			p.QuadTo(p1.X, p1.Y, p2.X, p2.Y)
		}
		if rs, ok := recsOf(p.Data()); !ok || len(rs) != 2 || rs[1].k != kind {
			c.Count("cuts skip:builder-simplified-the-segment")
			continue
		}
		var invL func(float64) float64
		var dT float64
		if msg := hc.Try(func() { invL, dT = canvas.VerifC09InvArcLength(kind, p0, p1, p2, p3) }); msg != "" || !(dT > 1e-6) || math.IsInf(dT, 0) {
			c.Count("cuts skip:length-unusable")
			continue
		}
		m := 1 + c.Intn(4)
		ts := make([]float64, m)
		for i := range ts {
			ts[i] = dT * (0.05 + 0.9*(float64(i)+c.Range(0.2, 0.8))/float64(m))
		}
		tpar := make([]float64, m)
		mono := true
		for i := range ts {
			tpar[i] = invL(ts[i] - 0.0)
			if tpar[i] >= 1 || tpar[i] <= 0 || (i > 0 && tpar[i] <= tpar[i-1]) {
				mono = false
			}
		}
		if !mono {
			c.Count("cuts skip:parameters-not-increasing-in-(0,1)")
			continue
		}
		var qs []*canvas.Path
		if msg := hc.Try(func() { qs = p.SplitAt(append([]float64{}, ts...)...) }); msg != "" {
			c.Fail("panic:SplitAt:"+firstLine(msg), msg, map[string]any{"path": p.String(), "ts": ts})
			continue
		}
		ok := len(qs) == m+1
		out := make([]string, len(qs))
		for i, q := range qs {
			rs, dec := recsOf(q.Data())
			if !dec || len(rs) != 2 || rs[1].k != kind {
				ok = false // the builder turned a piece into a LineTo or dropped it
			}
			out[i] = hc.DataHex(q.Data())
		}
		if !ok {
			c.Count("cuts skip:piece-simplified-by-the-builder")
			continue
		}
		line := "QCUTS " + hc.Hs(p0.X, p0.Y, p1.X, p1.Y, p2.X, p2.Y)
		if cube {
			line = "CCUTS " + hc.Hs(p0.X, p0.Y, p1.X, p1.Y, p2.X, p2.Y, p3.X, p3.Y)
		}
		c.Case(line+" "+hc.Hs(tpar...), "=", strings.Join(out, " | "))
		c.Count(fmt.Sprintf("cuts %c cuts:%d", kind, m))
		c.Distinct(line + fmt.Sprint(ts))
	}

	// 3. ellipseSplit flag logic
	for it := 0; it < c.N; it++ {
		th0 := c.Range(0, 2*math.Pi)
		ext := c.Range(0.05, 2*math.Pi)
		if c.Chance(0.2) {
			ext = float64(1+c.Intn(4)) * math.Pi / 2
		}
		if c.Bool() {
			ext = -ext
		}
		th1 := th0 + ext
		var th float64
		switch c.Intn(6) {
		case 0: // outside
			th = th0 - ext*c.Range(0.05, 0.3)
		case 1: // beyond the end
			th = th1 + ext*c.Range(0.01, 0.2)
		default:
			th = th0 + ext*c.Range(0.001, 0.999)
		}
		mid, l0, l1, ok := canvas.VerifC09EllipseSplit(3, 2, 0.3, 1, 1, th0, th1, th)
		_ = mid
		c.Case("ESPLIT "+hc.Hs(th0, th1, th), "=", hc.B(ok)+" "+hc.B(l0)+" "+hc.B(l1))
		c.Count(fmt.Sprintf("esplit ok:%v large0:%v large1:%v", ok, l0, l1))
		if l0 && l1 {
			c.Fail("ellipseSplit-two-large-halves", "ellipseSplit reports both halves as large arcs", []float64{th0, th1, th})
		}
	}

	// 4. Gauss-Legendre tables: the real functions on monomials vs the extracted table
	for it := 0; it < c.N; it++ {
		n := []int{3, 5, 7}[c.Intn(3)]
		k := c.Intn(2*n + 2)
		a, b := c.Range(-3, 3), c.Range(-3, 3)
		if c.Chance(0.3) {
			a, b = -1, 1
		}
		f := func(x float64) float64 {
			r := 1.0
			for i := 0; i < k; i++ {
				r *= x
			}
			return r
		}
		v := canvas.VerifC09GaussLegendre(n, f, a, b)
		c.Case(fmt.Sprintf("GL %d %d %s", n, k, hc.Hs(a, b)), "~", hc.H(v))
		c.Count(fmt.Sprintf("gl n:%d", n))
		// the quadrature is exact (to the printed digits) for polynomials of degree <= 2n-1
		if k <= 2*n-1 {
			exact := (math.Pow(b, float64(k+1)) - math.Pow(a, float64(k+1))) / float64(k+1)
			scale := (math.Pow(math.Max(math.Abs(a), math.Abs(b)), float64(k)) + 1) * math.Abs(b-a)
			if math.Abs(v-exact) > 1e-5*scale {
				c.Fail("gauss-legendre-moment", fmt.Sprintf("gaussLegendre%d(x^%d,%v,%v)=%v, exact %v", n, k, a, b, v, exact), map[string]any{"n": n, "k": k, "a": a, "b": b})
			}
		}
	}
}

// reverseBranches counts the branches of Path.Reverse the record array exercises (one count per
// subpath / record), so that the evidence shows which parts of the backward loop the inputs reach.
func reverseBranches(c *hc.Ctx, rs []rec) {
	for i, r := range rs {
		switch r.k {
		case 'M':
			if i == 0 {
				c.Count("rev branch:MoveTo-at-index-0")
			} else {
				c.Count("rev branch:MoveTo-subpath-boundary")
			}
			// what follows decides how a pending Close is consumed
			j := i + 1
			for j < len(rs) && rs[j].k != 'M' {
				j++
			}
			closed := j > i+1 && rs[j-1].k == 'Z'
			switch {
			case !closed:
				c.Count("rev branch:open-subpath")
			case j == i+2:
				c.Count("rev branch:closed-subpath-empty(MZ)")
			case rs[i+1].k == 'L':
				c.Count("rev branch:closed-first-LineTo-becomes-Close")
			default:
				c.Count("rev branch:closed-first-curve-Close-at-MoveTo")
			}
		case 'Z':
			zx, zy := r.end()
			px, py := rs[i-1].end()
			if eqPt(hc.P2{X: zx, Y: zy}, hc.P2{X: px, Y: py}) {
				c.Count("rev branch:Close-zero-length(no LineTo)")
			} else {
				c.Count("rev branch:Close-emits-LineTo")
			}
		case 'A':
			c.Count("rev branch:arc-sweep-flip")
		case 'C':
			c.Count("rev branch:cubic-control-swap")
		}
	}
}
