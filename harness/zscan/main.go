package main

// scratch: exhaustive-ish scan of small-grid triangle operands on the real code (not committed)
import (
	"fmt"
	"math/rand"
	"os"
	"strconv"
	"strings"

	"github.com/tdewolff/canvas"
	"verifharness/hc"
)

var delta = 4 * canvas.BentleyOttmannEpsilon

func regionOp(op string, a, b bool) bool {
	switch op {
	case "and":
		return a && b
	case "or":
		return a || b
	case "xor":
		return a != b
	}
	return a && !b
}
func apply(op string, p, q *canvas.Path) *canvas.Path {
	switch op {
	case "and":
		return p.And(q)
	case "or":
		return p.Or(q)
	case "xor":
		return p.Xor(q)
	}
	return p.Not(q)
}

func main() {
	n, _ := strconv.Atoi(os.Args[1])
	seed, _ := strconv.Atoi(os.Args[2])
	r := rand.New(rand.NewSource(int64(seed)))
	tri := func(p *canvas.Path) {
		for {
			a := hc.P2{X: float64(r.Intn(4)), Y: float64(r.Intn(4))}
			b := hc.P2{X: float64(r.Intn(4)), Y: float64(r.Intn(4))}
			d := hc.P2{X: float64(r.Intn(4)), Y: float64(r.Intn(4))}
			if b.Sub(a).Cross(d.Sub(a)) == 0 {
				continue
			}
			p.MoveTo(a.X, a.Y)
			p.LineTo(b.X, b.Y)
			p.LineTo(d.X, d.Y)
			p.Close()
			return
		}
	}
	ops := []string{"and", "or", "xor", "not"}
	stats := map[string]int{}
	for it := 0; it < n; it++ {
		P, Q := &canvas.Path{}, &canvas.Path{}
		tri(P)
		np, nq := 1, 1
		if r.Float64() < 0.4 {
			tri(P)
			np = 2
		}
		tri(Q)
		if r.Float64() < 0.4 {
			tri(Q)
			nq = 2
		}
		op := ops[r.Intn(4)]
		cp, _ := hc.Contours(P)
		cq, _ := hc.Contours(Q)
		ov := hc.OverlappingEdges(cp, cq)
		key := fmt.Sprintf("np=%d nq=%d ov=%v", np, nq, ov)
		stats[key]++
		var R *canvas.Path
		if msg := hc.Try(func() { R = apply(op, P.Copy(), Q.Copy()) }); msg != "" {
			fmt.Printf("PANIC %s | %s | %s | %s | %s\n", key, op, P, Q, strings.SplitN(msg, "\n", 2)[0])
			stats["fail "+key]++
			continue
		}
		cr, ok := hc.Contours(R)
		if !ok {
			continue
		}
		// sample points: cell centres of a fine grid
		bad := false
		for x := -0.37; x < 3.5 && !bad; x += 0.2113 {
			for y := -0.41; y < 3.5; y += 0.1931 {
				pt := hc.P2{X: x, Y: y}
				if hc.DistToContours(pt, cp) < 1e-6 || hc.DistToContours(pt, cq) < 1e-6 || hc.DistToContours(pt, cr) < 1e-6 {
					continue
				}
				if regionOp(op, hc.WnFloat(pt, cp) != 0, hc.WnFloat(pt, cq) != 0) != (hc.WnFloat(pt, cr) != 0) {
					fmt.Printf("REGION %s | %s | %s | %s | %s at %v\n", key, op, P, Q, R, pt)
					stats["fail "+key]++
					bad = true
					break
				}
			}
		}
	}
	fmt.Println(stats)
}
