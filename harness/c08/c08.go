// C08 — Bounds is the tight bounding box and FastBounds contains it.
//
//  1. correspondence of the hand-written Lean model (CanvasModel/C08.lean) with the real
//     Path.FastBounds()/Path.Bounds(): "B <raw data>" lines, bit-exact for M/L/Q/C/Z paths, tolerant
//     for arcs; "SQ" lines for solveQuadraticFormula (bit-exact), "EC" for ellipseToCenter (tolerant).
//  2. oracle on the real code, independent of the library's evaluators (hc.Decode / hc.Seg.At):
//     dense sampling (2000 per segment) + bracketed refinement of each extreme;
//     Bounds contains every sample (1e-9·scale), each side is touched (1e-6·scale),
//     FastBounds contains Bounds, both equivariant under translation and reflection.
package main

import (
	"fmt"
	"math"

	"github.com/tdewolff/canvas"
	"verifharness/hc"
)

func main() { hc.Main("C08", run) }

// hc keeps only the first 200 failure records; the two known defect classes fire on a large share of
// the generated paths, so at most 25 records per kind are kept (all are counted in the histogram) and
// a failure of any other kind can never be crowded out.
var perKind = map[string]int{}

func fail(c *hc.Ctx, kind, desc string, replay any) {
	perKind[kind]++
	if perKind[kind] > 25 {
		c.Count("FAIL:" + kind)
		return
	}
	c.Fail(kind, desc, replay)
}

func run(c *hc.Ctx) {
	corrSolveQuadratic(c)
	corrEllipseToCenter(c)
	corrAngles(c)
	n := c.N
	for it := 0; it < n; it++ {
		var d []float64
		var tag string
		switch k := c.Intn(25); {
		case k < 4:
			kinds := []string{"L", "LQ", "Q", "C", "LQC", "LQCZ", "QC"}[c.Intn(7)]
			d, tag = c.GenPath(kinds, 5, 3).Data(), "builder-bezier"
		case k < 7:
			kinds := []string{"A", "LQCA", "LAZ", "AZ"}[c.Intn(4)]
			d, tag = c.GenPath(kinds, 4, 2).Data(), "builder-arc"
		case k < 11:
			d, tag = genRawBezier(c), "raw-bezier"
		case k < 13:
			d, tag = genDegenerate(c), "raw-degenerate"
		case k < 17:
			d, tag = genEllipseArc(c, false), "ellipse-arc"
		case k < 20:
			d, tag = genEllipseArc(c, true), "ellipse-tiny-arc"
		default:
			d, tag = genSegmentChain(c), "segment-chain"
		}
		if len(d) == 0 {
			c.Count("skip-empty")
			continue
		}
		c.Count("gen:" + tag)
		checkPath(c, d, tag, it < 3)
	}
	sweeps(c)
	// fixed corpus: the literal shapes of TestPathBounds-like inputs and the minimal witnesses
	for _, s := range []string{
		"M0 0C0 1 10 0 0 2", "M0 0C0 0 5 5 1 1", "M0 0Q10 10 20 0", "M0 0Q0 10 10 0", "M0 0C10 10 20 -10 30 0",
		"M10 0A5 5 0 0 1 0 0", "M10 0A10 5 30 1 1 0 0z", "M0 0L1 1M5 5", "M3 4", "M0 0A5 10 45 0 0 3 7A5 10 45 1 0 0 0",
	} {
		p, err := canvas.ParseSVGPath(s)
		if err != nil {
			continue
		}
		c.Count("gen:corpus")
		checkPath(c, p.Data(), "corpus", false)
	}
}

// sweeps: deterministic lattices (no randomness), so that every per-axis sign pattern of a small cubic
// and quadratic control polygon and a regular grid of ellipse rotations / radii ratios / arc extents
// is seen on every run. Quick tier: the Bezier lattices and a coarse arc grid; thorough: the fine grid.
func sweeps(c *hc.Ctx) {
	// cubic: all 5^4 = 625 control values {-2..2} on x, paired with a permuted pattern on y
	for i := 0; i < 625; i++ {
		j := (i*7 + 3) % 625
		v := func(k, pos int) float64 {
			for ; pos > 0; pos-- {
				k /= 5
			}
			return float64(k%5 - 2)
		}
		d := []float64{canvas.MoveToCmd, v(i, 0), v(j, 0), canvas.MoveToCmd,
			canvas.CubeToCmd, v(i, 1), v(j, 1), v(i, 2), v(j, 2), v(i, 3), v(j, 3), canvas.CubeToCmd}
		c.Count("gen:sweep-cubic-lattice")
		checkPath(c, d, "sweep-cubic", false)
	}
	// quadratic: all 5^3 = 125
	for i := 0; i < 125; i++ {
		j := (i*7 + 3) % 125
		v := func(k, pos int) float64 {
			for ; pos > 0; pos-- {
				k /= 5
			}
			return float64(k%5 - 2)
		}
		d := []float64{canvas.MoveToCmd, v(i, 0), v(j, 0), canvas.MoveToCmd,
			canvas.QuadToCmd, v(i, 1), v(j, 1), v(i, 2), v(j, 2), canvas.QuadToCmd}
		c.Count("gen:sweep-quad-lattice")
		checkPath(c, d, "sweep-quad", false)
	}
	// arcs: rotation x ratio x start x extent x direction
	nphi, nth, next := 6, 6, 5
	if c.Tier != "quick" {
		nphi, nth, next = 24, 16, 12
	}
	for ip := 0; ip < nphi; ip++ {
		phi := float64(ip) * math.Pi / float64(nphi)
		for _, ratio := range []float64{1, 0.5, 0.1, 2} {
			rx, ry := 8.0, 8.0*ratio
			sn, cs := math.Sincos(phi)
			at := func(th float64) (float64, float64) {
				ex, ey := rx*math.Cos(th), ry*math.Sin(th)
				return cs*ex - sn*ey, sn*ex + cs*ey
			}
			for it := 0; it < nth; it++ {
				th0 := float64(it) * 2 * math.Pi / float64(nth)
				for ie := 1; ie <= next; ie++ {
					ext := float64(ie) * 2 * math.Pi / float64(next+1)
					if (it+ie+ip)%2 == 1 {
						ext = -ext
					}
					x0, y0 := at(th0)
					x1, y1 := at(th0 + ext)
					fl := 0.0
					if math.Abs(ext) > math.Pi {
						fl += 1
					}
					if ext > 0 {
						fl += 2
					}
					d := []float64{canvas.MoveToCmd, x0, y0, canvas.MoveToCmd, canvas.ArcToCmd, rx, ry, phi, fl, x1, y1, canvas.ArcToCmd}
					c.Count("gen:sweep-arc-grid")
					checkPath(c, d, "sweep-arc", false)
				}
			}
		}
	}
}

// ---------------------------------------------------------------------------------------------
// generators (raw command arrays; framing as in path.go)

func scaleOf(c *hc.Ctx) float64 {
	switch c.Intn(12) {
	case 0:
		return 1e-3
	case 1:
		return 1e3
	case 2:
		return 1e6
	}
	return 1
}

func genRawBezier(c *hc.Ctx) []float64 {
	var d []float64
	sc := scaleOf(c)
	g := func() float64 { return c.GenCoord() * sc }
	ns := 1 + c.Intn(3)
	for s := 0; s < ns; s++ {
		d = append(d, canvas.MoveToCmd, g(), g(), canvas.MoveToCmd)
		sx, sy := d[len(d)-3], d[len(d)-2]
		n := 1 + c.Intn(5)
		for i := 0; i < n; i++ {
			switch c.Intn(7) {
			case 0:
				d = append(d, canvas.LineToCmd, g(), g(), canvas.LineToCmd)
			case 1, 2:
				d = append(d, canvas.QuadToCmd, g(), g(), g(), g(), canvas.QuadToCmd)
			default:
				d = append(d, canvas.CubeToCmd, g(), g(), g(), g(), g(), g(), canvas.CubeToCmd)
			}
		}
		if c.Chance(0.3) {
			d = append(d, canvas.CloseCmd, sx, sy, canvas.CloseCmd)
		}
	}
	if c.Chance(0.1) {
		d = append(d, canvas.MoveToCmd, g(), g(), canvas.MoveToCmd) // trailing MoveTo
	}
	return d
}

// control polygons that hit the special branches: tdenom = 0, a = 0 (derivative linear), c = 0
// (first control point on the start), discriminant = 0 (cusp/inflection with horizontal tangent),
// coincident points, collinear overshoot, values next to the Epsilon guards.
func genDegenerate(c *hc.Ctx) []float64 {
	gi := func() float64 { return float64(c.Intn(21) - 10) }
	axis := func(kind int) (a0, a1, a2, a3 float64) {
		a0 = gi()
		switch kind {
		case 0: // a = 0
			a1, a2 = gi(), gi()
			a3 = a0 - 3*a1 + 3*a2
		case 1: // c = 0
			a1, a2, a3 = a0, gi(), gi()
		case 2: // disc = 0: derivative ~ (2t-1)^2 scaled
			k := float64(1 + c.Intn(4))
			a1, a2, a3 = a0+k, a0, a0+k
		case 3: // a = b = 0 (straight, uniform speed) or all equal
			if c.Bool() {
				k := gi()
				a1, a2, a3 = a0+k, a0+2*k, a0+3*k
			} else {
				a1, a2, a3 = a0, a0, a0
			}
		case 4: // root exactly at/near 0 or 1: a3 = a2 (c'(1) = 0), tiny perturbation
			a1, a2 = gi(), gi()
			a3 = a2 + []float64{0, 1e-11, -1e-11, 3e-10, -3e-10, 1e-7}[c.Intn(6)]
		case 5: // b = 0, symmetric roots
			a1 = gi()
			a2 = 2*a1 - a0
			a3 = gi()
		default:
			a1, a2, a3 = gi(), gi(), gi()
		}
		return
	}
	var d []float64
	x0, y0 := gi(), gi()
	d = append(d, canvas.MoveToCmd, x0, y0, canvas.MoveToCmd)
	n := 1 + c.Intn(3)
	for i := 0; i < n; i++ {
		if c.Chance(0.35) {
			// quad: tdenom = 0 / near epsilon / control point on an endpoint
			cx, ex := gi(), gi()
			cy, ey := gi(), gi()
			switch c.Intn(5) {
			case 0:
				ex = 2*cx - x0 // tdenom = 0 on x
			case 1:
				ex = 2*cx - x0 + []float64{5e-11, -5e-11, 2e-10, -2e-10}[c.Intn(4)]
			case 2:
				cx, cy = x0, y0
			case 3:
				cx, cy = ex, ey
			}
			d = append(d, canvas.QuadToCmd, cx, cy, ex, ey, canvas.QuadToCmd)
			x0, y0 = ex, ey
		} else {
			_, x1, x2, x3 := axisFrom(x0, axis, c.Intn(7))
			_, y1, y2, y3 := axisFrom(y0, axis, c.Intn(7))
			d = append(d, canvas.CubeToCmd, x1, y1, x2, y2, x3, y3, canvas.CubeToCmd)
			x0, y0 = x3, y3
		}
	}
	return d
}

func axisFrom(a0 float64, axis func(int) (float64, float64, float64, float64), kind int) (float64, float64, float64, float64) {
	b0, b1, b2, b3 := axis(kind)
	sh := a0 - b0
	return a0, b1 + sh, b2 + sh, b3 + sh
}

// one or two arcs on a rotated ellipse; the end points are computed from centre angles, so every
// combination of (large, sweep) is a genuine arc of the same ellipse. tiny: a short arc placed around
// (or just beside) one of the four extremum angles.
func genEllipseArc(c *hc.Ctx, tiny bool) []float64 {
	rx := math.Round(c.Range(0.5, 20)*100) / 100
	ry := math.Round(c.Range(0.5, 20)*100) / 100
	switch c.Intn(8) {
	case 0:
		ry = rx
	case 1:
		ry = rx * []float64{0.01, 0.001, 100}[c.Intn(3)]
	}
	phi := 0.0
	switch c.Intn(6) {
	case 0:
		phi = 0
	case 1:
		phi = float64(c.Intn(8)) * math.Pi / 4
	case 2:
		phi = float64(c.Intn(24)) * 15 * math.Pi / 180
	default:
		phi = c.Range(-math.Pi, 2*math.Pi)
	}
	cx, cy := c.GenCoord(), c.GenCoord()
	sin, cos := math.Sincos(phi)
	at := func(th float64) (float64, float64) {
		ex, ey := rx*math.Cos(th), ry*math.Sin(th)
		return cx + cos*ex - sin*ey, cy + sin*ex + cos*ey
	}
	var th0, th1 float64
	if tiny {
		// extremum angles of x and y on the rotated ellipse
		base := math.Atan2(-ry*sin, rx*cos)
		if c.Bool() {
			base = math.Atan2(ry*cos, rx*sin)
		}
		base += float64(c.Intn(2)) * math.Pi
		w := []float64{1e-1, 1e-2, 1e-3, 1e-5, 1e-7}[c.Intn(5)]
		switch c.Intn(4) {
		case 0: // straddles the extremum
			th0, th1 = base-w*c.Range(0.2, 1), base+w*c.Range(0.2, 1)
			c.Count("tiny:straddle")
		case 1: // just before
			th0, th1 = base-2*w, base-w*c.Range(0.1, 0.9)
			c.Count("tiny:before")
		case 2: // just after
			th0, th1 = base+w*c.Range(0.1, 0.9), base+2*w
			c.Count("tiny:after")
		default: // ends exactly on it
			th0, th1 = base-w, base
			c.Count("tiny:touch")
		}
		if c.Bool() {
			th0, th1 = th1, th0
		}
	} else {
		th0 = c.Range(0, 2*math.Pi)
		switch c.Intn(5) {
		case 0:
			th0 = float64(c.Intn(8)) * math.Pi / 4
		}
		th1 = th0 + c.Range(0.05, 2*math.Pi-0.05)
		switch c.Intn(6) {
		case 0:
			th1 = th0 + math.Pi // half ellipse
		case 1:
			th1 = th0 + float64(1+c.Intn(3))*math.Pi/2
		}
	}
	x0, y0 := at(th0)
	x1, y1 := at(th1)
	// the geometric arc th0 -> th1 (ccw if th1 > th0) and the three others through the same points
	dth := th1 - th0
	sweep := dth > 0
	large := math.Abs(dth) > math.Pi
	combo := c.Intn(4)
	if !tiny && combo > 0 {
		// other flag combinations: same ellipse size/orientation, other arc or mirrored centre
		large, sweep = combo&1 == 1, combo&2 == 2
	}
	c.Count(fmt.Sprintf("arc-flags:%s%s", hc.B(large), hc.B(sweep)))
	fl := 0.0
	if large {
		fl += 1
	}
	if sweep {
		fl += 2
	}
	d := []float64{canvas.MoveToCmd, x0, y0, canvas.MoveToCmd, canvas.ArcToCmd, rx, ry, phi, fl, x1, y1, canvas.ArcToCmd}
	if !tiny && c.Chance(0.4) {
		// come back along the complementary arc (closed ellipse out of two arcs)
		fl2 := 0.0
		if !large {
			fl2 += 1
		}
		if sweep {
			fl2 += 2
		}
		d = append(d, canvas.ArcToCmd, rx, ry, phi, fl2, x0, y0, canvas.ArcToCmd)
		c.Count("arc:closed-pair")
	}
	return d
}

// genSegmentChain: 2-5 arcs (optionally with lines/quads/cubics, closes and new subpaths in between) in
// ONE path, where each arc shares some but not all of its parameters with the arc before it: same
// rotation with another radii ratio, same radii with another rotation, same ellipse with other flags
// or another extent, everything equal, everything new. Every arc is a genuine arc of its ellipse
// (end points computed from centre angles, the centre follows from the current point). The extent of
// an arc is random, or is cut between its own extreme angle and the extreme angle of a *differently
// shaped* ellipse of the same rotation (the previous shape or a random one), so that any dependence
// of one segment's result on parameters of another segment changes which extremes are applied.
// Bezier segments in between likewise reuse the previous control offsets with a new end point.
func genSegmentChain(c *hc.Ctx) []float64 {
	type shape struct{ rx, ry, phi float64 }
	newShape := func() shape {
		rx := math.Round(c.Range(0.5, 20)*100) / 100
		ry := math.Round(c.Range(0.5, 20)*100) / 100
		switch c.Intn(6) {
		case 0:
			ry = rx * []float64{0.1, 0.05, 0.5, 0.9}[c.Intn(4)]
		case 1:
			rx, ry = math.Max(rx, ry), math.Min(rx, ry)
		}
		var phi float64
		switch c.Intn(5) {
		case 0:
			phi = float64(c.Intn(12)) * 15 * math.Pi / 180
		case 1:
			phi = math.Pi / 4
		default:
			phi = c.Range(0, math.Pi)
		}
		return shape{rx, ry, phi}
	}
	extremes := func(sh shape) [4]float64 {
		sin, cos := math.Sincos(sh.phi)
		r, t := math.Atan2(-sh.ry*sin, sh.rx*cos), math.Atan2(sh.ry*cos, sh.rx*sin)
		return [4]float64{r, r + math.Pi, t, t + math.Pi}
	}
	x, y := c.GenCoord(), c.GenCoord()
	sx, sy := x, y
	d := []float64{canvas.MoveToCmd, x, y, canvas.MoveToCmd}
	cur := newShape()
	prev := cur
	var lastOff [4]float64
	n := 2 + c.Intn(4)
	for i := 0; i < n; i++ {
		if i > 0 {
			prev = cur
			switch c.Intn(7) {
			case 0, 1: // same rotation, other radii ratio
				ns := newShape()
				cur = shape{ns.rx, ns.ry, prev.phi}
				c.Count("chain:same-phi other-radii")
			case 2: // same rotation, radii swapped or scaled (same ratio)
				if c.Bool() {
					cur = shape{prev.ry, prev.rx, prev.phi}
					c.Count("chain:same-phi radii-swapped")
				} else {
					k := []float64{0.5, 2, 3}[c.Intn(3)]
					cur = shape{prev.rx * k, prev.ry * k, prev.phi}
					c.Count("chain:same-phi same-ratio scaled")
				}
			case 3: // same radii, other rotation
				cur = shape{prev.rx, prev.ry, newShape().phi}
				c.Count("chain:same-radii other-phi")
			case 4: // same ellipse again (other extent / flags)
				c.Count("chain:same-ellipse")
			default:
				cur = newShape()
				c.Count("chain:new-ellipse")
			}
			// something in between?
			switch c.Intn(8) {
			case 0:
				x, y = c.GenCoord(), c.GenCoord()
				d = append(d, canvas.LineToCmd, x, y, canvas.LineToCmd)
			case 1:
				ex, ey := c.GenCoord(), c.GenCoord()
				if lastOff == [4]float64{} || c.Bool() {
					lastOff = [4]float64{c.GenCoord(), c.GenCoord(), c.GenCoord(), c.GenCoord()}
				}
				d = append(d, canvas.QuadToCmd, x+lastOff[0], y+lastOff[1], ex, ey, canvas.QuadToCmd)
				x, y = ex, ey
			case 2:
				ex, ey := c.GenCoord(), c.GenCoord()
				if lastOff == [4]float64{} || c.Bool() {
					lastOff = [4]float64{c.GenCoord(), c.GenCoord(), c.GenCoord(), c.GenCoord()}
				}
				d = append(d, canvas.CubeToCmd, x+lastOff[0], y+lastOff[1], ex+lastOff[2], ey+lastOff[3], ex, ey, canvas.CubeToCmd)
				x, y = ex, ey
			case 3:
				d = append(d, canvas.CloseCmd, sx, sy, canvas.CloseCmd)
				x, y = c.GenCoord(), c.GenCoord()
				sx, sy = x, y
				d = append(d, canvas.MoveToCmd, x, y, canvas.MoveToCmd)
			case 4:
				x, y = c.GenCoord(), c.GenCoord()
				sx, sy = x, y
				d = append(d, canvas.MoveToCmd, x, y, canvas.MoveToCmd)
			}
		}
		// extent
		var th0, th1 float64
		switch c.Intn(3) {
		case 0:
			th0 = c.Range(0, 2*math.Pi)
			th1 = th0 + c.Range(0.05, 2*math.Pi-0.05)
			c.Count("chain-extent:random")
		default:
			// cut between an own extreme angle and the corresponding angle of another shape with the same rotation
			own := extremes(cur)
			other := shape{prev.rx, prev.ry, cur.phi}
			if i == 0 || c.Chance(0.3) || other.rx*cur.ry == other.ry*cur.rx {
				ns := newShape()
				other = shape{ns.rx, ns.ry, cur.phi}
			}
			dec := extremes(other)
			k := c.Intn(4)
			a, b := own[k], dec[k]
			diff := math.Remainder(b-a, 2*math.Pi)
			if math.Abs(diff) < 1e-3 {
				diff = 0.3
			}
			cut := a + diff*c.Range(0.3, 0.7) // between the two angles
			far := c.Range(0.2, 2.5)
			if c.Bool() {
				// contains the own extreme, stops before the decoy
				th0, th1 = cut, a-math.Copysign(far, diff)
				c.Count("chain-extent:own-extreme-inside decoy-outside")
			} else {
				th0, th1 = cut, b+math.Copysign(far, diff)
				c.Count("chain-extent:decoy-inside own-extreme-outside")
			}
			if math.Abs(th1-th0) > 2*math.Pi-0.05 {
				th1 = th0 + math.Copysign(2*math.Pi-0.05, th1-th0)
			}
		}
		if c.Bool() {
			th0, th1 = th1, th0
		}
		sin, cos := math.Sincos(cur.phi)
		e := func(th float64) (float64, float64) {
			ex, ey := cur.rx*math.Cos(th), cur.ry*math.Sin(th)
			return cos*ex - sin*ey, sin*ex + cos*ey
		}
		e0x, e0y := e(th0)
		e1x, e1y := e(th1)
		x1, y1 := x-e0x+e1x, y-e0y+e1y
		dth := th1 - th0
		fl := 0.0
		if math.Abs(dth) > math.Pi {
			fl += 1
		}
		if dth > 0 {
			fl += 2
		}
		if cur.rx == prev.rx && cur.ry == prev.ry && cur.phi == prev.phi && i > 0 && c.Chance(0.3) {
			// same ellipse and same end points would need the same start; instead flip one flag:
			// still a valid SVG arc (of the mirrored / complementary ellipse position)
			fl = float64((int(fl) + 1 + c.Intn(3)) % 4)
			c.Count("chain:flags-changed")
		}
		d = append(d, canvas.ArcToCmd, cur.rx, cur.ry, cur.phi, fl, x1, y1, canvas.ArcToCmd)
		x, y = x1, y1
	}
	if c.Chance(0.3) {
		d = append(d, canvas.CloseCmd, sx, sy, canvas.CloseCmd)
	}
	return d
}

// ---------------------------------------------------------------------------------------------
// correspondence of the two helpers

func corrSolveQuadratic(c *hc.Ctx) {
	gi := func() float64 { return float64(c.Intn(21) - 10) }
	for i := 0; i < c.N; i++ {
		var a, b, cc float64
		switch c.Intn(8) {
		case 0:
			a, b, cc = 0, gi(), gi()
		case 1:
			a, b, cc = gi(), gi(), 0
		case 2: // disc = 0
			r, k := gi(), gi()
			a, b, cc = k, -2*k*r, k*r*r
		case 3:
			a, b, cc = c.Norm()*1e-10, c.Norm(), c.Norm()
		case 4:
			a, b, cc = gi(), 0, gi()
		default:
			a, b, cc = c.GenCoord(), c.GenCoord(), c.GenCoord()
		}
		x1, x2 := canvas.VerifC08SolveQuadratic(a, b, cc)
		k := 0
		if !math.IsNaN(x1) {
			k++
		}
		if !math.IsNaN(x2) {
			k++
		}
		c.Count(fmt.Sprintf("solveQuadratic:roots%d", k))
		c.Case("SQ "+hc.Hs(a, b, cc), "=", hc.Hs(x1, x2))
		// oracle: returned values are roots, in increasing order
		c.Evals++
		sc := math.Abs(a) + math.Abs(b) + math.Abs(cc) + 1
		for _, x := range []float64{x1, x2} {
			if !math.IsNaN(x) && math.Abs(x) < 1e6 {
				if r := a*x*x + b*x + cc; math.Abs(r) > 1e-8*sc*(1+x*x) {
					fail(c, "solveQuadratic-not-root", fmt.Sprintf("solveQuadraticFormula(%v,%v,%v) returned %v with residual %g", a, b, cc, x, r), []float64{a, b, cc})
				}
			}
		}
		if k == 2 && x2 < x1 {
			// the doc comment promises "lowest root first"; the c = 0 branch returns (0, -b/a) unsorted.
			// Bounds does not depend on the order, so this is counted, not judged, under C08.
			c.Count("solveQuadratic:unsorted-pair (c=0 branch)")
		}
	}
}

// angleNorm / angleBetween use only + - math.Mod and comparisons: bit-exact correspondence, including
// the boundary classes (theta on an end of the range, Epsilon next to an end, whole turns added,
// swapped ends, ranges of almost a full turn, tiny ranges).
func corrAngles(c *hc.Ctx) {
	turn := 2 * math.Pi
	for i := 0; i < c.N; i++ {
		lo := c.Range(-7, 7)
		if c.Chance(0.2) {
			lo = float64(c.Intn(17)-8) * math.Pi / 4
		}
		ext := c.Range(0, turn)
		switch c.Intn(6) {
		case 0:
			ext = []float64{1e-12, 1e-10, 2e-10, 1e-9, 1e-6, 1e-3}[c.Intn(6)]
		case 1:
			ext = turn - []float64{0, 1e-12, 1e-10, 2e-10, 3e-10, 1e-9, 1e-3}[c.Intn(7)]
		case 2:
			ext = float64(c.Intn(9)) * math.Pi / 4
		}
		up := lo + ext
		var th float64
		cls := c.Intn(8)
		switch cls {
		case 0:
			th = lo
		case 1:
			th = up
		case 2:
			th = lo + []float64{-1e-10, 1e-10, -2e-10, -0.5e-10, -1.5e-10, 1e-15, -1e-15}[c.Intn(7)]
		case 3:
			th = up + []float64{-1e-10, 1e-10, 2e-10, 0.5e-10, 1.5e-10, 1e-15, -1e-15}[c.Intn(7)]
		case 4:
			th = lo + ext*c.Float() + float64(c.Intn(7)-3)*turn
		case 5:
			th = c.Range(-20, 20)
		case 6:
			th = (lo+up)/2 + math.Pi // opposite side
		default:
			th = lo + ext*c.Float()
		}
		if c.Chance(0.3) {
			lo, up = up, lo
			c.Count("angleBetween:ends swapped")
		}
		c.Count(fmt.Sprintf("angleBetween:class%d", cls))
		r := canvas.VerifC08AngleBetween(th, lo, up)
		c.Count("angleBetween:result " + hc.B(r))
		c.Case("AB "+hc.Hs(th, lo, up), "=", hc.B(r))
		an := th
		if c.Bool() {
			an = float64(c.Intn(33)-16) * math.Pi / 4 * []float64{1, 1 + 1e-16, 1 - 1e-16, 1e3}[c.Intn(4)]
		}
		c.Case("AN "+hc.H(an), "=", hc.H(canvas.VerifC08AngleNorm(an)))
	}
}

func corrEllipseToCenter(c *hc.Ctx) {
	for i := 0; i < c.N; i++ {
		var x1, y1, rx, ry, phi, fl, x2, y2 float64
		if c.Chance(0.3) {
			// the branch conditions of ellipseToCenter on exactly representable inputs: coincident end
			// points, the half-ellipse shortcut (|x2-x1| = 2rx, y1 = y2, phi = 0) and its near misses
			// (chord = rx, chord off by a few Epsilon, y or phi off by a few Epsilon), radii too small
			// (scaled), chord = diameter of a rotated ellipse (sq clamped to 0)
			rx, ry = float64(1+c.Intn(8)), float64(1+c.Intn(8))
			x1, y1 = float64(c.Intn(21)-10), float64(c.Intn(21)-10)
			fl = float64(c.Intn(4))
			d := []float64{0, 0, 1e-11, -1e-11, 0.9e-10, 1.1e-10, -1.1e-10, 3e-10, 1e-7}
			switch c.Intn(7) {
			case 0:
				x2, y2 = x1+d[c.Intn(len(d))], y1+d[c.Intn(len(d))]
				c.Count("ellipseToCenter-class:coincident")
			case 1:
				x2, y2 = x1+[]float64{2, -2}[c.Intn(2)]*rx+d[c.Intn(len(d))], y1+d[c.Intn(len(d))]
				phi = d[c.Intn(len(d))]
				c.Count("ellipseToCenter-class:chord=2rx")
			case 2:
				x2, y2 = x1+[]float64{1, -1}[c.Intn(2)]*rx+d[c.Intn(len(d))], y1
				c.Count("ellipseToCenter-class:chord=rx")
			case 3:
				x2, y2 = x1, y1+[]float64{2, -2}[c.Intn(2)]*ry
				c.Count("ellipseToCenter-class:chord=2ry vertical")
			case 4:
				x2, y2 = x1+float64(c.Intn(7)+3)*rx, y1+float64(c.Intn(5))
				c.Count("ellipseToCenter-class:radii too small")
			case 5:
				phi = float64(c.Intn(8)) * math.Pi / 4
				sn, cs := math.Sincos(phi)
				x2, y2 = x1+2*rx*cs, y1+2*rx*sn
				c.Count("ellipseToCenter-class:rotated diameter")
			default:
				x2, y2 = x1+float64(c.Intn(5)-2), y1+float64(c.Intn(5)-2)
				c.Count("ellipseToCenter-class:small integer chord")
			}
		} else {
			d := genEllipseArc(c, c.Chance(0.3))
			x1, y1 = d[1], d[2]
			rx, ry, phi, fl, x2, y2 = d[5], d[6], d[7], d[8], d[9], d[10]
		}
		large, sweep := fl == 1 || fl == 3, fl == 2 || fl == 3
		cx, cy, t0, t1 := canvas.VerifC08EllipseToCenter(x1, y1, rx, ry, phi, large, sweep, x2, y2)
		// which branch (re-derived for the histogram only)
		eq := func(a, b float64) bool { return math.Abs(a-b) <= 1e-10 }
		switch {
		case eq(x1, x2) && eq(y1, y2):
			c.Count("ellipseToCenter-branch:coincident")
		case eq(math.Abs(x2-x1), 2*rx) && eq(y1, y2) && eq(phi, 0):
			c.Count("ellipseToCenter-branch:half-ellipse shortcut")
		default:
			sn, cs := math.Sincos(phi)
			x1p, y1p := cs*(x1-x2)/2+sn*(y1-y2)/2, -sn*(x1-x2)/2+cs*(y1-y2)/2
			lam := x1p*x1p/rx/rx + y1p*y1p/ry/ry
			switch {
			case lam > 1:
				c.Count("ellipseToCenter-branch:radii scaled")
			case (1-lam)/lam <= 1e-10:
				c.Count("ellipseToCenter-branch:sq clamped")
			default:
				c.Count("ellipseToCenter-branch:general")
			}
		}
		args := hc.Hs(x1, y1, rx, ry, phi) + " " + hc.B(large) + " " + hc.B(sweep) + " " + hc.Hs(x2, y2)
		// theta0 = acos(u) and delta = acos(v) amplify a 1-ulp difference of the libm sin/cos (Go's are
		// pure Go, Lean's are glibc) by 1/sin(angle): compare the angles only where that stays below the
		// comparison tolerance, otherwise compare the centre only (skip-and-count).
		if math.IsNaN(t0) || math.IsNaN(t1) || math.Abs(math.Sin(t0)) < 1e-5 || math.Abs(math.Sin(t1-t0)) < 1e-5 {
			c.Count("ellipseToCenter:angles ill-conditioned (centre only)")
			c.Case("ECC "+args, "~", hc.Hs(cx, cy))
		} else {
			c.Count("ellipseToCenter:full")
			c.Case("EC "+args, "~", hc.Hs(cx, cy, t0, t1))
		}
	}
}

// ---------------------------------------------------------------------------------------------
// oracle

type box struct{ lo, hi [2]float64 }

func newBox() box {
	return box{[2]float64{math.Inf(1), math.Inf(1)}, [2]float64{math.Inf(-1), math.Inf(-1)}}
}
func (b *box) add(p hc.P2) {
	v := [2]float64{p.X, p.Y}
	for a := 0; a < 2; a++ {
		b.lo[a] = math.Min(b.lo[a], v[a])
		b.hi[a] = math.Max(b.hi[a], v[a])
	}
}
func (b *box) merge(o box) {
	for a := 0; a < 2; a++ {
		b.lo[a] = math.Min(b.lo[a], o.lo[a])
		b.hi[a] = math.Max(b.hi[a], o.hi[a])
	}
}

func coord(p hc.P2, a int) float64 {
	if a == 0 {
		return p.X
	}
	return p.Y
}

// segBox: extremes of one segment by dense sampling, each refined by a bracketed ternary search.
// interior[k] reports whether the k-th extreme (xmin,xmax,ymin,ymax) is strictly inside the segment.
func segBox(s hc.Seg, n int) (b box, interior [4]bool) {
	b = newBox()
	if s.Kind == 'M' {
		b.add(s.End)
		return
	}
	pts := hc.SampleSeg(s, n)
	for _, p := range pts {
		b.add(p)
	}
	if s.Kind == 'L' || s.Kind == 'Z' {
		return
	}
	for a := 0; a < 2; a++ {
		for dir := 0; dir < 2; dir++ {
			sign := 1.0
			if dir == 0 {
				sign = -1
			}
			bi, bv := 0, math.Inf(-1)
			for i, p := range pts {
				if v := sign * coord(p, a); v > bv {
					bi, bv = i, v
				}
			}
			lo, hi := float64(max(bi-1, 0))/float64(n), float64(min(bi+1, n))/float64(n)
			for k := 0; k < 100; k++ {
				m1, m2 := lo+(hi-lo)/3, hi-(hi-lo)/3
				if sign*coord(s.At(m1), a) < sign*coord(s.At(m2), a) {
					lo = m1
				} else {
					hi = m2
				}
			}
			if v := sign * coord(s.At((lo+hi)/2), a); v > bv {
				bv = v
			}
			if dir == 0 {
				b.lo[a] = math.Min(b.lo[a], -bv)
			} else {
				b.hi[a] = math.Max(b.hi[a], bv)
			}
			e0, e1 := sign*coord(s.P0, a), sign*coord(s.End, a)
			interior[2*a+dir] = bv > math.Max(e0, e1)+1e-12*(1+math.Abs(bv))
		}
	}
	return
}

// arcUncertainty: the centre of an SVG arc is an ill-conditioned function of its end points when the
// chord is (nearly) a diameter: with lambda the radii check value, centre offset = r*sqrt((1-lambda)/lambda)
// and lambda itself carries rounding noise ~4e-16. Returned as an absolute length.
func arcUncertainty(s hc.Seg, scale float64) float64 {
	rx, ry := math.Abs(s.Rx), math.Abs(s.Ry)
	sin, cos := math.Sincos(s.Phi)
	dx, dy := (s.P0.X-s.End.X)/2, (s.P0.Y-s.End.Y)/2
	x1p, y1p := cos*dx+sin*dy, -sin*dx+cos*dy
	lam := x1p*x1p/(rx*rx) + y1p*y1p/(ry*ry)
	minr, maxr := math.Min(rx, ry), math.Max(rx, ry)
	// |d lambda| <= 2|x1p| dx/rx^2 + 2|y1p| dy/ry^2 with dx,dy ~ u*scale (u = 2^-53) and |x1p|<=rx, |y1p|<=ry
	noise := 16 * 1.1e-16 * math.Max(scale, maxr) / minr
	df := math.Sqrt(noise)
	if lam < 1 {
		df = math.Min(df, noise/math.Sqrt(1-lam))
	}
	// a short chord determines the direction to the centre only to (coordinate noise)/(chord length)
	chord := math.Hypot(s.P0.X-s.End.X, s.P0.Y-s.End.Y)
	dchord := 16 * 1.1e-16 * math.Max(scale, maxr) / math.Max(chord, 1e-300)
	u := maxr * math.Max(1, math.Sqrt(lam)) * (maxr / minr) * (df + math.Min(dchord, 1))
	// ellipseToCenter snaps the radicand sq = (1-lambda)/lambda to 0 when sq <= Epsilon (documented in the
	// source: "Epsilon instead of 0.0 improves numerical stability"), i.e. it centres the arc on the chord
	// midpoint; the exact SVG centre this oracle samples lies sqrt(sq)*|(rx*y1p/ry, ry*x1p/rx)| <=
	// sqrt(sq)*maxr away. Both ellipses pass within ~1e-10 relative of the end points; the box of either is
	// accepted (sweep seed 123: lambda = 1 - 8.5e-11, boxes differ by 1.0e-4).
	if lam > 0 && lam <= 1 {
		if sq := (1 - lam) / lam; sq <= 1.001*1e-10+4*noise {
			u += math.Sqrt(sq) * math.Hypot(rx*y1p/ry, ry*x1p/rx) * 1.001
		}
	}
	return u
}

type pathInfo struct {
	segs    []hc.Seg
	scale   float64
	unc     float64 // extra absolute tolerance from arcs
	hasArc  bool
	arcs    []hc.Seg
	hasCube bool
	exact   box
	perSeg  []box
}

func analyse(c *hc.Ctx, d []float64, hist bool) (pi pathInfo, ok bool) {
	segs, err := hc.Decode(d)
	if err != nil {
		return pi, false
	}
	pi.segs = segs
	pi.scale = 1
	pi.exact = newBox()
	var arcs []hc.Seg
	up := func(v float64) { pi.scale = math.Max(pi.scale, math.Abs(v)) }
	for i, s := range segs {
		up(s.End.X)
		up(s.End.Y)
		switch s.Kind {
		case 'Q':
			up(s.P1.X)
			up(s.P1.Y)
		case 'C':
			up(s.P1.X)
			up(s.P1.Y)
			up(s.P2.X)
			up(s.P2.Y)
			pi.hasCube = true
		case 'A':
			pi.hasArc = true
			arcs = append(arcs, s)
			up(s.Rx)
			up(s.Ry)
		}
		if i == 0 {
			// the library starts from the first MoveTo point
			pi.exact.add(s.End)
		}
		b, interior := segBox(s, 2000)
		pi.perSeg = append(pi.perSeg, b)
		pi.exact.merge(b)
		if hist && s.Kind != 'M' {
			k := 0
			for _, in := range interior {
				if in {
					k++
				}
			}
			c.Count(fmt.Sprintf("seg:%c interior-extremes=%d", s.Kind, k))
			if s.Kind == 'Q' || s.Kind == 'C' {
				branchHist(c, s)
			}
		}
	}
	pi.arcs = arcs
	pi.unc = pi.uncAt(pi.scale)
	return pi, true
}

// uncAt: total arc-centre uncertainty of the path when its coordinates have magnitude `scale`
func (pi pathInfo) uncAt(scale float64) float64 {
	u := 0.0
	for _, s := range pi.arcs {
		u += arcUncertainty(s, scale)
	}
	return u
}

// which branch of Bounds a Bézier axis takes (independent re-derivation, for the histogram only)
func branchHist(c *hc.Ctx, s hc.Seg) {
	for a := 0; a < 2; a++ {
		p0, p1, p2, p3 := coord(s.P0, a), coord(s.P1, a), coord(s.P2, a), coord(s.End, a)
		if s.Kind == 'Q' {
			den := p0 - 2*p1 + p3
			switch {
			case math.Abs(den) <= 1e-10:
				c.Count("quad-axis:tdenom=0")
			case (p0-p1)/den > 1e-10 && (p0-p1)/den < 1-1e-10:
				c.Count("quad-axis:t-inside")
			default:
				c.Count("quad-axis:t-outside")
			}
			continue
		}
		A, B, C := -p0+3*p1-3*p2+p3, 2*p0-4*p1+2*p2, -p0+p1
		disc := B*B - 4*A*C
		switch {
		case math.Abs(A) <= 1e-10 && math.Abs(B) <= 1e-10:
			c.Count("cube-axis:a=b=0")
		case math.Abs(A) <= 1e-10:
			c.Count("cube-axis:a=0 linear")
		case math.Abs(C) <= 1e-10:
			c.Count("cube-axis:c=0")
		case disc < 0:
			c.Count("cube-axis:disc<0")
		case math.Abs(disc) <= 1e-10:
			c.Count("cube-axis:disc=0")
		default:
			q := math.Sqrt(disc)
			k := 0
			for _, t := range []float64{(-B + q) / (2 * A), (-B - q) / (2 * A)} {
				if t > 1e-10 && t < 1-1e-10 {
					k++
				}
			}
			c.Count(fmt.Sprintf("cube-axis:two-roots inside=%d", k))
		}
	}
}

func mapData(d []float64, f func(x, y float64) (float64, float64), reflect bool, dphi float64) []float64 {
	out := append([]float64{}, d...)
	for i := 0; i < len(out); {
		cmd := out[i]
		switch cmd {
		case canvas.MoveToCmd, canvas.LineToCmd, canvas.CloseCmd:
			out[i+1], out[i+2] = f(out[i+1], out[i+2])
			i += 4
		case canvas.QuadToCmd:
			out[i+1], out[i+2] = f(out[i+1], out[i+2])
			out[i+3], out[i+4] = f(out[i+3], out[i+4])
			i += 6
		case canvas.CubeToCmd:
			out[i+1], out[i+2] = f(out[i+1], out[i+2])
			out[i+3], out[i+4] = f(out[i+3], out[i+4])
			out[i+5], out[i+6] = f(out[i+5], out[i+6])
			i += 8
		case canvas.ArcToCmd:
			out[i+3] += dphi
			if reflect {
				out[i+3] = -out[i+3]
				// toggle sweep
				if fl := out[i+4]; fl >= 2 {
					out[i+4] = fl - 2
				} else {
					out[i+4] = fl + 2
				}
			}
			out[i+5], out[i+6] = f(out[i+5], out[i+6])
			i += 8
		default:
			return out
		}
	}
	return out
}

func rectStr(r canvas.Rect) string {
	return fmt.Sprintf("(%.12g,%.12g)-(%.12g,%.12g)", r.X0, r.Y0, r.X1, r.Y1)
}

func checkPath(c *hc.Ctx, d []float64, tag string, sample bool) {
	p := canvas.VerifC08PathFromData(d)
	var fb, bb canvas.Rect
	if msg := hc.Try(func() { fb, bb = p.FastBounds(), p.Bounds() }); msg != "" {
		fail(c, "panic", "Bounds/FastBounds panicked: "+msg, map[string]any{"path": p.String(), "data": d})
		return
	}
	pi, ok := analyse(c, d, true)
	if !ok {
		c.Count("skip-malformed")
		return
	}
	mode := "="
	if pi.hasArc {
		mode = "~"
	}
	c.Case("B "+hc.DataHex(d), mode, hc.Hs(fb.X0, fb.Y0, fb.X1, fb.Y1, bb.X0, bb.Y0, bb.X1, bb.Y1))
	c.Distinct(hc.DataHex(d))
	c.Evals++
	if sample {
		c.Sample(fmt.Sprintf("%s: %s  Bounds %s FastBounds %s sampled (%.9g,%.9g)-(%.9g,%.9g)", tag, p.String(), rectStr(bb), rectStr(fb), pi.exact.lo[0], pi.exact.lo[1], pi.exact.hi[0], pi.exact.hi[1]))
	}
	// The verdict is decided by the Lean specification `Canvas.C08.verdict` (V line): the harness only
	// reports what it observed — the box of its independent dense sampling, the two rectangles the real
	// code returned — and the tolerances derived from the input (scale, arc-centre conditioning).
	tolC := 1e-9*pi.scale + pi.unc
	tolT := 1e-6*pi.scale + pi.unc
	if pi.unc > 1e-9*pi.scale {
		c.Count("arc-illconditioned-centre (tolerance widened)")
	}
	rect := func(r canvas.Rect) string { return hc.Hs(r.X0, r.Y0, r.X1, r.Y1) }
	c.Case("V "+hc.Hs(tolC, tolT, pi.exact.lo[0], pi.exact.lo[1], pi.exact.hi[0], pi.exact.hi[1])+" "+rect(bb)+" "+rect(fb)+
		" | "+tag+" "+p.String()+" | "+hc.DataHex(d), "!", "verdict")

	// equivariance: translation, the two axis reflections and the rotation by 90 degrees; the two
	// rectangles go to the Lean specification `rectNear` (VE line)
	type tr struct {
		name    string
		f       func(x, y float64) (float64, float64)
		reflect bool
		dphi    float64
	}
	dx, dy := c.GenCoord()*pi.scale, c.GenCoord()*pi.scale
	for _, t := range []tr{
		{"translate", func(x, y float64) (float64, float64) { return x + dx, y + dy }, false, 0},
		{"reflectX", func(x, y float64) (float64, float64) { return -x, y }, true, 0},
		{"reflectY", func(x, y float64) (float64, float64) { return x, -y }, true, 0},
		{"rot90", func(x, y float64) (float64, float64) { return -y, x }, false, math.Pi / 2},
	} {
		d2 := mapData(d, t.f, t.reflect, t.dphi)
		p2 := canvas.VerifC08PathFromData(d2)
		var fb2, bb2 canvas.Rect
		if msg := hc.Try(func() { fb2, bb2 = p2.FastBounds(), p2.Bounds() }); msg != "" {
			fail(c, "panic", "Bounds/FastBounds panicked: "+msg, map[string]any{"path": p2.String(), "data": d2})
			continue
		}
		c.Evals++
		img := func(r canvas.Rect) canvas.Rect {
			x0, y0 := t.f(r.X0, r.Y0)
			x1, y1 := t.f(r.X1, r.Y1)
			return canvas.Rect{X0: math.Min(x0, x1), Y0: math.Min(y0, y1), X1: math.Max(x0, x1), Y1: math.Max(y0, y1)}
		}
		sc2 := pi.scale
		if t.name == "translate" {
			sc2 += math.Abs(dx) + math.Abs(dy)
		}
		tol := 2e-9*sc2 + 2*pi.uncAt(sc2)
		info := fmt.Sprintf(" | %s %s dx=%v dy=%v %s", t.name, tag, dx, dy, p.String())
		c.Case("VE "+hc.H(tol)+" "+rect(bb2)+" "+rect(img(bb))+info, "!", "equivariance-bounds:"+t.name)
		c.Case("VE "+hc.H(tol)+" "+rect(fb2)+" "+rect(img(fb))+info, "!", "equivariance-fastbounds:"+t.name)
	}
}

