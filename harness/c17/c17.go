// C17 — Knuth–Plass line breaking (text.Linebreak).
//
//  1. correspondence: the real text.Linebreak and the Lean L2 model (Float instance) are run on the
//     same generated paragraphs; positions, lines, fitness, widths, ratios and demerits of the
//     returned breakpoints are compared bit-exactly.
//  2. oracle (oracle.go): an independent evaluator (exact big.Rat line measures by direct summation,
//     exhaustive enumeration of all legal breakings of small paragraphs) judges the property
//     predicate on the output of the real code.
//  3. the Lean L3 specification `best` (exhaustive recursion, CanvasModel/C17/Spec.lean) is
//     cross-checked against that enumeration on every small paragraph without boundary cases.
package main

import (
	"fmt"
	"math"
	"math/big"
	"strings"

	"github.com/tdewolff/canvas/text"
	"verifharness/hc"
)

func main() { hc.Main("C17", run) }

type params struct{ tol, dl, dflag, dfit, inf float64 }

var defParams = params{2, 10, 100, 100, 1000}

type para struct {
	items []text.Item
	width float64
	loose int
	p     params
	style string
}

func run(c *hc.Ctx) {
	for i := 0; i < c.N; i++ {
		pa := genPara(c)
		runCase(c, pa)
	}
	for _, pa := range fixedParas() {
		runCase(c, pa)
	}
	bpCases(c, c.N/4+50)
}

// ---------------------------------------------------------------------------------------------
// generators

func (pa *para) add(it ...text.Item) { pa.items = append(pa.items, it...) }

// number from a family: small integers, quarters, or arbitrary floats
func num(c *hc.Ctx, fam int, lo, hi float64) float64 {
	switch fam {
	case 0:
		return math.Round(c.Range(lo, hi))
	case 1:
		return math.Round(c.Range(lo, hi)*4) / 4
	}
	return c.Range(lo, hi)
}

func genPara(c *hc.Ctx) para {
	pa := para{p: defParams}
	fam := c.Intn(3) // 0 integer, 1 quarter, 2 float
	r := c.Intn(100)
	small := c.Chance(0.55) // small paragraphs are judged by the exhaustive oracle
	nWords := 3 + c.Intn(10)
	if small {
		nWords = 2 + c.Intn(5)
	}
	wide := c.Chance(0.15) // paragraphs with words wider than the line
	sp := num(c, fam, 1, 4)
	if sp <= 0 {
		sp = 1
	}
	word := func() float64 {
		w := num(c, fam, 1, 12)
		if wide && c.Chance(0.12) {
			w = num(c, fam, 30, 90) // over-wide word
		}
		return w
	}
	switch {
	case r < 34:
		pa.style = "justified"
		pa.add(text.Box(num(c, fam, 0, 3)))
		for w := 0; w < nWords; w++ {
			if w > 0 {
				f := []float64{1, 1, 1, 1.25, 1.5, 2, 3}[c.Intn(7)]
				if c.Chance(0.08) { // explicit newline
					pa.add(text.Glue(0, pa.p.inf, 0), text.Penalty(0, -pa.p.inf, false))
				} else {
					pa.add(text.Glue(sp, sp*text.SpaceStretch*f, sp*text.SpaceShrink/f))
				}
			}
			syl := 1 + c.Intn(3)
			for s := 0; s < syl; s++ {
				if s > 0 {
					if c.Chance(0.2) {
						pa.add(text.Penalty(0, 50, true)) // break after a real hyphen
					} else {
						hw := num(c, fam, 0, 1)
						if c.Chance(0.1) {
							hw = num(c, fam, 1, 3) // hyphen wider than a following syllable may be
						}
						pa.add(text.Penalty(hw, 50, true))
					}
				}
				pa.add(text.Box(word()))
			}
		}
		pa.add(text.Glue(0, pa.p.inf, 0), text.Penalty(0, -pa.p.inf, false))
	case r < 52:
		pa.style = "ragged"
		st := sp
		if nWords > 9 {
			nWords = 9
		}
		pa.add(text.Box(num(c, fam, 0, 3)))
		for w := 0; w < nWords; w++ {
			if w > 0 {
				if c.Chance(0.08) {
					pa.add(text.Glue(0, pa.p.inf, 0), text.Penalty(0, -pa.p.inf, false))
				} else {
					pa.add(text.Glue(0, st, 0), text.Penalty(0, 0, false), text.Glue(sp, -st, 0))
					if c.Chance(0.1) { // double space: glue merged, second penalty without a box
						pa.items[len(pa.items)-1] = text.Glue(sp, 0, 0)
						pa.add(text.Penalty(0, 0, false), text.Glue(sp, -st, 0))
					}
				}
			}
			syl := 1 + c.Intn(2)
			for s := 0; s < syl; s++ {
				if s > 0 {
					pa.add(text.Penalty(0, pa.p.inf, false), text.Glue(0, st, 0), text.Penalty(num(c, fam, 0, 2), 500, true), text.Glue(0, -st, 0))
				}
				pa.add(text.Box(word()))
			}
		}
		pa.add(text.Glue(0, pa.p.inf, 0), text.Penalty(0, -pa.p.inf, false))
	case r < 62:
		pa.style = "centered"
		st := sp
		if nWords > 7 {
			nWords = 7
		}
		pa.add(text.Box(0), text.Glue(0, st, 0))
		for w := 0; w < nWords; w++ {
			if w > 0 {
				pa.add(text.Glue(0, st, 0), text.Penalty(0, 0, false), text.Glue(sp, -st, 0), text.Box(0), text.Penalty(0, pa.p.inf, false), text.Glue(0, st, 0))
			}
			pa.add(text.Box(word()))
		}
		pa.add(text.Glue(0, st, 0), text.Penalty(0, -pa.p.inf, false))
	case r < 76:
		pa.style = "nostretch" // unstretchable or unshrinkable glue, over-wide boxes
		pa.add(text.Box(word()))
		for w := 1; w < nWords; w++ {
			switch c.Intn(4) {
			case 0:
				pa.add(text.Glue(sp, 0, 0))
			case 1:
				pa.add(text.Glue(sp, 0, num(c, fam, 0, 2)))
			case 2:
				pa.add(text.Glue(sp, num(c, fam, 0, 2), 0))
			case 3:
				pa.add(text.Glue(sp, sp/2, sp/3))
			}
			if c.Chance(0.15) {
				pa.add(text.Glue(sp, sp/2, sp/3)) // consecutive glue
			}
			pa.add(text.Box(word()))
			if c.Chance(0.2) {
				pa.add(text.Penalty(num(c, fam, 0, 2), num(c, fam, -60, 200), c.Bool()), text.Box(word()))
			}
		}
		if c.Chance(0.5) {
			pa.add(text.Glue(0, pa.p.inf, 0))
		}
		pa.add(text.Penalty(0, -pa.p.inf, false))
	default:
		pa.style = "adversarial" // arbitrary item soup
		cnt := 3 + c.Intn(24)
		if small {
			cnt = 2 + c.Intn(12)
		}
		for i := 0; i < cnt; i++ {
			switch c.Intn(10) {
			case 0, 1, 2, 3:
				pa.add(text.Box(num(c, fam, 0, 14)))
			case 4, 5, 6:
				y, z := num(c, fam, 0, 3), num(c, fam, 0, 2)
				if c.Chance(0.12) {
					y = -y // negative stretch as produced by GlyphsToItems
				}
				if c.Chance(0.1) {
					y = pa.p.inf
				}
				pa.add(text.Glue(num(c, fam, 0, 4), y, z))
			default:
				p := []float64{0, 50, -50, 500, pa.p.inf, -pa.p.inf, -pa.p.inf - 1, pa.p.inf + 1, 999, -999, 10}[c.Intn(11)]
				pa.add(text.Penalty(num(c, fam, 0, 2), p, c.Chance(0.4)))
			}
		}
		if !c.Chance(0.04) { // a few paragraphs without the final forced break (outside the precondition)
			if c.Chance(0.6) {
				pa.add(text.Glue(0, pa.p.inf, 0))
			}
			pa.add(text.Penalty(0, -pa.p.inf, false))
		}
	}
	pa.width = num(c, fam, 8, 60)
	if c.Chance(0.05) {
		pa.width = num(c, fam, 2, 8)
	}
	if pa.width <= 0 {
		pa.width = 1
	}
	if fam < 2 && c.Chance(0.2) {
		exactFit(c, &pa)
	}
	if c.Chance(0.12) {
		pa.loose = []int{-2, -1, 1, 2, 3}[c.Intn(5)]
	}
	if c.Chance(0.1) {
		pa.p.tol = []float64{1, 1.5, 3, 0.5, 10}[c.Intn(5)]
	}
	if c.Chance(0.05) {
		pa.p.dfit = []float64{0, 10, 1000}[c.Intn(3)]
		pa.p.dflag = []float64{0, 3000}[c.Intn(2)]
		pa.p.dl = []float64{0, 1, 100}[c.Intn(3)]
	}
	return pa
}

func fixedParas() []para {
	inf := 1000.0
	return []para{
		{style: "fixed", p: defParams, width: 10, items: []text.Item{}},
		{style: "fixed", p: defParams, width: 10, items: []text.Item{text.Box(1), text.Glue(1, 1, 1)}},
		{style: "fixed", p: defParams, width: 10, items: []text.Item{text.Box(0), text.Glue(0, inf, 0), text.Penalty(0, -inf, false), text.Box(20), text.Glue(0, inf, 0), text.Penalty(0, -inf, false)}},
		{style: "fixed", p: defParams, width: 10, items: []text.Item{text.Box(3), text.Glue(1, 0.5, 1.0/3), text.Box(3), text.Glue(1, 0.5, 1.0/3), text.Box(3), text.Glue(0, inf, 0), text.Penalty(0, -inf, false)}},
		{style: "fixed", p: defParams, width: 10, items: []text.Item{text.Penalty(0, -inf, false)}},
		{style: "fixed", p: defParams, width: 10, items: []text.Item{text.Penalty(1, 50, true), text.Box(4), text.Penalty(1, 50, true), text.Box(9), text.Penalty(0, -inf, false)}},
		// minimal inputs of the known and of the repaired findings (known_findings.json): regression cases
		{style: "fixed", p: defParams, width: 10, items: []text.Item{text.Box(5), text.Glue(0, inf, 0), text.Penalty(0, -inf, false), text.Glue(0, inf, 0), text.Penalty(0, -inf, false), text.Box(20), text.Glue(0, inf, 0), text.Penalty(0, -inf, false)}},
		{style: "fixed", p: defParams, width: 10, items: []text.Item{text.Box(20), text.Penalty(1, 50, true), text.Box(3), text.Glue(0, inf, 0), text.Penalty(0, -inf, false)}},
		{style: "fixed", p: defParams, width: 10.5, items: []text.Item{text.Box(9), text.Penalty(2, 50, true), text.Box(1), text.Glue(0, inf, 0), text.Penalty(0, -inf, false)}},
		{style: "fixed", p: defParams, width: 10, items: []text.Item{text.Box(5), text.Glue(1, 5, 0), text.Box(1), text.Penalty(0, -50, false), text.Glue(1, 5, 0), text.Penalty(0, 500, false), text.Glue(1, 5, 0), text.Box(3), text.Glue(0, inf, 0), text.Penalty(0, -inf, false)}},
		{style: "fixed", p: defParams, width: 10, items: []text.Item{text.Box(11), text.Glue(0, 0, 0), text.Box(1), text.Glue(1, 0, 5), text.Box(1), text.Glue(0, inf, 0), text.Penalty(0, -inf, false)}},
		{style: "fixed", p: defParams, width: 24.25, items: []text.Item{text.Box(1.0 / 3), text.Glue(0, inf, 0), text.Penalty(0, -inf, false), text.Box(12.75), text.Box(11.5), text.Penalty(1.5, 999, true), text.Glue(0, inf, 0), text.Penalty(0, -inf, false)}},
		{style: "fixed", p: defParams, width: 17.5, items: []text.Item{text.Box(1.0 / 3), text.Glue(0, inf, 0), text.Penalty(0, -inf, false), text.Box(0.75), text.Box(9), text.Glue(0, 3.75, 0), text.Penalty(0, 0, false), text.Glue(3.75, -3.75, 0), text.Box(2.75), text.Penalty(0, inf, false), text.Glue(0, 3.75, 0), text.Penalty(1.25, 500, true), text.Glue(0, -3.75, 0), text.Box(1.25), text.Glue(0, inf, 0), text.Penalty(0, -inf, false)}},
	}
}

// ---------------------------------------------------------------------------------------------
// running one case

func encode(pa para) string {
	var sb strings.Builder
	fmt.Fprintf(&sb, "LB %d %s %s", pa.loose, hc.H(pa.width), hc.Hs(pa.p.tol, pa.p.dl, pa.p.dflag, pa.p.dfit, pa.p.inf))
	for _, it := range pa.items {
		switch it.Type {
		case text.BoxType:
			fmt.Fprintf(&sb, " B %s", hc.H(it.Width))
		case text.GlueType:
			fmt.Fprintf(&sb, " G %s", hc.Hs(it.Width, it.Stretch, it.Shrink))
		default:
			fmt.Fprintf(&sb, " P %s %s", hc.Hs(it.Width, it.Penalty), hc.B(it.Flagged))
		}
	}
	return sb.String()
}

func describe(pa para) map[string]any {
	its := make([]string, len(pa.items))
	for i, it := range pa.items {
		switch it.Type {
		case text.BoxType:
			its[i] = fmt.Sprintf("B(%v)", it.Width)
		case text.GlueType:
			its[i] = fmt.Sprintf("G(%v,%v,%v)", it.Width, it.Stretch, it.Shrink)
		default:
			its[i] = fmt.Sprintf("P(%v,%v,%v)", it.Width, it.Penalty, it.Flagged)
		}
	}
	return map[string]any{"items": strings.Join(its, " "), "width": pa.width, "looseness": pa.loose,
		"params": fmt.Sprintf("tol=%v dl=%v dflag=%v dfit=%v inf=%v", pa.p.tol, pa.p.dl, pa.p.dflag, pa.p.dfit, pa.p.inf),
		"style":  pa.style, "line": encode(pa)}
}

type brk struct {
	pos, line, fit    int
	width, ratio, dem float64
}

func callReal(pa para) (res []brk, ok bool, panicMsg string) {
	sT, sL, sF, sC, sI := text.Tolerance, text.DemeritsLine, text.DemeritsFlagged, text.DemeritsFitness, text.Infinity
	defer func() {
		text.Tolerance, text.DemeritsLine, text.DemeritsFlagged, text.DemeritsFitness, text.Infinity = sT, sL, sF, sC, sI
	}()
	text.Tolerance, text.DemeritsLine, text.DemeritsFlagged, text.DemeritsFitness, text.Infinity = pa.p.tol, pa.p.dl, pa.p.dflag, pa.p.dfit, pa.p.inf
	items := append([]text.Item(nil), pa.items...)
	panicMsg = hc.Try(func() {
		bs, k := text.Linebreak(items, pa.width, pa.loose)
		ok = k
		for _, b := range bs {
			res = append(res, brk{b.Position, b.Line, b.Fitness, b.Width, b.Ratio, b.Demerits})
		}
	})
	return
}

func runCase(c *hc.Ctx, pa para) {
	res, ok, msg := callReal(pa)
	c.Count("style:" + pa.style)
	c.Count(fmt.Sprintf("items:%02d-%02d", len(pa.items)/10*10, len(pa.items)/10*10+9))
	line := encode(pa)
	if msg != "" {
		c.Case(line, "=", "PANIC")
		n := len(pa.items)
		if n > 0 && isForced(pa, n-1) {
			c.Fail("panic", "Linebreak panicked on a paragraph with a final forced break: "+msg, describe(pa))
		} else {
			c.Count("outcome:panic-no-final-forced-break(outside precondition)")
		}
		return
	}
	var sb strings.Builder
	fmt.Fprintf(&sb, "%s %d", hc.B(ok), len(res))
	for _, b := range res {
		fmt.Fprintf(&sb, " %d %d %d %s", b.pos, b.line, b.fit, hc.Hs(b.width, b.ratio, b.dem))
	}
	c.Case(line, "=", sb.String())
	c.Distinct(line)
	if len(c.Samples) < 3 {
		c.Sample(fmt.Sprintf("%v -> ok=%v %v", describe(pa)["items"], ok, res))
	}
	judge(c, pa, res, ok)
}

// exactFit sets the line width so that one candidate line has ratio exactly -1, 0 or Tolerance,
// and (half of the time) prepends a non-dyadic box and a forced break so that the running sums of
// the code carry rounding errors although every later line measure is exact.
func exactFit(c *hc.Ctx, pa *para) {
	n := len(pa.items)
	if n == 0 || !isForced(*pa, n-1) {
		return
	}
	if c.Bool() {
		pre := []text.Item{text.Box([]float64{0.1, 1.0 / 3, 0.7, 2.3}[c.Intn(4)]), text.Glue(0, pa.p.inf, 0), text.Penalty(0, -pa.p.inf, false)}
		pa.items = append(pre, pa.items...)
		n = len(pa.items)
	}
	legal := []int{}
	for i := 0; i < n; i++ {
		if isLegal(*pa, i) {
			legal = append(legal, i)
		}
	}
	if len(legal) < 2 {
		return
	}
	e := newExact(*pa)
	for try := 0; try < 8; try++ {
		i := c.Intn(len(legal))
		a := -1
		if i > 0 && c.Chance(0.8) {
			a = legal[c.Intn(i)]
		}
		m := e.measure(a, legal[i])
		var w *big.Rat
		switch c.Intn(3) {
		case 0:
			w = new(big.Rat).Sub(m.L, m.Z)
		case 1:
			w = new(big.Rat).Add(m.L, new(big.Rat).Mul(rat(pa.p.tol), m.Y))
		default:
			w = m.L
		}
		f, isExact := w.Float64()
		if isExact && f > 0 && f < 200 {
			pa.width = f
			pa.style += "+exactfit"
			return
		}
	}
}
