package main

// Independent oracle for C17. Nothing here calls the library: line measures are exact rational
// sums over the items of the line (Knuth–Plass: natural width / stretch / shrink of the boxes and
// glue between the first box after the previous break and the break, plus the width of a penalty
// broken at), legal/forced breakpoints follow the wording of the property, demerits follow the
// documented formula, and small paragraphs are settled by enumerating every legal breaking.

import (
	"fmt"
	"math"
	"math/big"
	"strings"

	"github.com/tdewolff/canvas/text"
	"verifharness/hc"
)

var failCount = map[string]int{}

const eps = 1e-9 // ratios closer than this to a decision boundary are not judged (counted)

func isForced(pa para, i int) bool {
	it := pa.items[i]
	return it.Type == text.PenaltyType && it.Penalty <= -pa.p.inf
}

func isLegal(pa para, i int) bool {
	it := pa.items[i]
	switch it.Type {
	case text.PenaltyType:
		return it.Penalty < pa.p.inf
	case text.GlueType:
		return i > 0 && pa.items[i-1].Type == text.BoxType && i+1 < len(pa.items) && pa.items[i+1].Type != text.PenaltyType
	}
	return false
}

type exact struct {
	pa         para
	n          int
	pw, py, pz []*big.Rat // exact prefix sums of box+glue width, glue stretch, glue shrink
	absW       float64
}

func rat(f float64) *big.Rat { r := new(big.Rat); r.SetFloat64(f); return r }

func newExact(pa para) *exact {
	e := &exact{pa: pa, n: len(pa.items)}
	w, y, z := new(big.Rat), new(big.Rat), new(big.Rat)
	e.pw, e.py, e.pz = append(e.pw, new(big.Rat)), append(e.py, new(big.Rat)), append(e.pz, new(big.Rat))
	for _, it := range pa.items {
		switch it.Type {
		case text.BoxType:
			w = new(big.Rat).Add(w, rat(it.Width))
			e.absW += math.Abs(it.Width)
		case text.GlueType:
			w = new(big.Rat).Add(w, rat(it.Width))
			y = new(big.Rat).Add(y, rat(it.Stretch))
			z = new(big.Rat).Add(z, rat(it.Shrink))
			e.absW += math.Abs(it.Width)
		default:
			e.absW += math.Abs(it.Width)
		}
		e.pw, e.py, e.pz = append(e.pw, w), append(e.py, y), append(e.pz, z)
	}
	return e
}

// first item of the line that follows a break at a (a = -1: start of the paragraph): glue and
// penalties after a break are discarded up to the next box or forced break
func (e *exact) lineStart(a int) int {
	if a < 0 {
		return 0
	}
	for i := a; i < e.n; i++ {
		if e.pa.items[i].Type == text.BoxType || (i > a && isForced(e.pa, i)) {
			return i
		}
	}
	return e.n
}

type lineM struct {
	L, Y, Z *big.Rat
	kind    int      // 0 finite ratio, +1 underfull and unstretchable, -1 overfull and unshrinkable
	r       *big.Rat // exact ratio (kind 0)
	rf      float64  // ratio as float64 (±Inf for kind ±1)
	rhat    float64  // ranking value used for relaxation: min(r, Infinity); Infinity*(1+(W-L)/W) if unstretchable
	negYZ   bool
	empty   bool // no item between line start and break
	signed  bool // the break precedes the first box after the previous break: K–P measures are negative sums
	// three-valued fit tests on widths (+1 yes, -1 no, 0 within delta of the boundary)
	shr          int  // L <= W + Z : the line can be shrunk to fit
	str          int  // L >= W - Tolerance*Y : the line can be stretched to fit within Tolerance
	exShr, exStr bool // the same in exact arithmetic
	rigidBand    bool // no stretch and L within delta of W: which ratio formula applies is undecidable
}

func tri(d *big.Rat, delta float64) int {
	f, _ := d.Float64()
	switch {
	case f >= delta:
		return 1
	case f <= -delta:
		return -1
	}
	return 0
}

func (e *exact) measure(a, b int) lineM {
	s := e.lineStart(a)
	var m lineM
	m.L = new(big.Rat).Sub(e.pw[b], e.pw[s]) // signed if s > b (K–P: Σ_b − Σ_after(a))
	m.Y = new(big.Rat).Sub(e.py[b], e.py[s])
	m.Z = new(big.Rat).Sub(e.pz[b], e.pz[s])
	if e.pa.items[b].Type == text.PenaltyType {
		m.L.Add(m.L, rat(e.pa.items[b].Width))
	}
	m.empty = s >= b
	m.signed = s > b
	m.negYZ = !m.signed && m.Z.Sign() < 0 // negative shrink: no meaningful measure
	W := rat(e.pa.width)
	delta := 1e-9 * (1 + e.absW + math.Abs(e.pa.width))
	dShr := new(big.Rat).Sub(new(big.Rat).Add(W, m.Z), m.L)
	yPos := m.Y // a line cannot be stretched by a negative amount
	if yPos.Sign() < 0 {
		yPos = new(big.Rat)
	}
	dStr := new(big.Rat).Sub(m.L, new(big.Rat).Sub(W, new(big.Rat).Mul(rat(e.pa.p.tol), yPos)))
	m.shr, m.str = tri(dShr, delta), tri(dStr, delta)
	m.exShr, m.exStr = dShr.Sign() >= 0, dStr.Sign() >= 0
	d := new(big.Rat).Sub(W, m.L)
	if df, _ := d.Float64(); m.Y.Sign() <= 0 && math.Abs(df) <= delta {
		m.rigidBand = true
	}
	switch d.Sign() {
	case 0:
		m.r = new(big.Rat)
	case 1:
		if m.Y.Sign() <= 0 { // nothing (positive) to stretch
			m.kind = 1
			m.rf = math.Inf(1)
			q, _ := new(big.Rat).Quo(d, W).Float64()
			m.rhat = e.pa.p.inf * (1 + q)
			return m
		}
		m.r = new(big.Rat).Quo(d, m.Y)
	default:
		if m.Z.Sign() == 0 {
			m.kind = -1
			m.rf = math.Inf(-1)
			m.rhat = math.Inf(-1)
			return m
		}
		m.r = new(big.Rat).Quo(d, m.Z)
	}
	m.rf, _ = m.r.Float64()
	m.rhat = math.Min(m.rf, e.pa.p.inf)
	return m
}

func fitness(r float64) int {
	switch {
	case r < -0.5:
		return 0
	case r <= 0.5:
		return 1
	case r <= 1:
		return 2
	}
	return 3
}

func nearClassBoundary(r float64) bool {
	return math.Abs(r+0.5) < eps || math.Abs(r-0.5) < eps || math.Abs(r-1) < eps
}

// demerits of the line ending at b with ratio r, after a line of class prevFit ending in a flagged item or not
func (e *exact) lineDem(b int, r float64, prevFit int, prevFlag bool) (float64, int) {
	p := e.pa.p
	it := e.pa.items[b]
	bad := 100 * math.Abs(r) * math.Abs(r) * math.Abs(r)
	var d float64
	switch {
	case it.Type == text.PenaltyType && it.Penalty >= 0:
		d = (p.dl + bad + it.Penalty) * (p.dl + bad + it.Penalty)
	case it.Type == text.PenaltyType && it.Penalty > -p.inf:
		d = (p.dl+bad)*(p.dl+bad) - it.Penalty*it.Penalty
	default:
		d = (p.dl + bad) * (p.dl + bad)
	}
	if prevFlag && it.Flagged {
		d += p.dflag
	}
	c := fitness(r)
	if c-prevFit > 1 || prevFit-c > 1 {
		d += p.dfit
	}
	return d, c
}

type seqStat struct {
	minR, maxRhat         float64
	dem                   float64
	band                  bool // a line ratio within eps of a fitness-class boundary
	negYZ                 bool
	signed                bool // contains a line whose break precedes the first box after the previous break
	exactShrink           bool // every line has ratio >= -1 in exact arithmetic
	exactFeas             bool // every line has ratio in [-1, Tolerance] in exact arithmetic
	strictFeas, looseFeas bool // all lines fit within [-1, Tolerance] with margin / up to the margin
	strictShr, looseShr   bool // all lines can be shrunk to fit with margin / up to the margin
}

func (e *exact) statOf(seq []int, tab map[[2]int]lineM) seqStat {
	st := seqStat{minR: math.Inf(1), maxRhat: math.Inf(-1), exactShrink: true, exactFeas: true,
		strictFeas: true, looseFeas: true, strictShr: true, looseShr: true}
	a, fit, flag := -1, 1, false
	for _, b := range seq {
		m, ok := tab[[2]int{a, b}]
		if !ok {
			m = e.measure(a, b)
			tab[[2]int{a, b}] = m
		}
		st.minR = math.Min(st.minR, m.rf)
		st.maxRhat = math.Max(st.maxRhat, m.rhat)
		st.negYZ = st.negYZ || m.negYZ
		st.signed = st.signed || m.signed
		st.exactShrink = st.exactShrink && m.exShr
		st.exactFeas = st.exactFeas && m.exShr && m.exStr
		st.strictFeas = st.strictFeas && m.shr > 0 && m.str > 0
		st.looseFeas = st.looseFeas && m.shr >= 0 && m.str >= 0
		st.strictShr = st.strictShr && m.shr > 0 && !m.rigidBand
		st.looseShr = st.looseShr && m.shr >= 0
		if m.kind >= 0 {
			if m.kind == 0 && nearClassBoundary(m.rf) {
				st.band = true
			}
			d, c := e.lineDem(b, m.rhat, fit, flag)
			st.dem += d
			fit = c
		}
		flag = e.pa.items[b].Flagged
		a = b
	}
	return st
}

func judge(c *hc.Ctx, pa para, res []brk, ok bool) {
	n := len(pa.items)
	if n == 0 {
		c.Count("outcome:empty-paragraph")
		return
	}
	if !isForced(pa, n-1) {
		c.Count("outcome:no-final-forced-break(outside precondition)")
		return
	}
	c.Evals++
	e := newExact(pa)
	seenKind := map[string]bool{}
	rep := func(kind, desc string) {
		if seenKind[kind] {
			return // one record per kind and paragraph
		}
		seenKind[kind] = true
		if failCount[kind]++; failCount[kind] > 12 {
			c.Count("FAIL:" + kind) // counted, not recorded: keep room for other kinds
			return
		}
		d := describe(pa)
		d["result"] = fmt.Sprint(res)
		d["ok"] = ok
		c.Fail(kind, desc, d)
	}
	if ok {
		c.Count("outcome:ok")
	} else {
		c.Count("outcome:overflow")
	}

	// 1. structure: strictly increasing legal breakpoints, all forced breaks, ends at the final one.
	// The VERDICT is given by the Lean specification `structClass` (proved sound: C17.structVerdict_sound):
	// the raw observation goes out as a `!` line; a FAIL there is a property failure of kind
	// "structure:<class>". The checks below only decide whether the deeper oracle parts can run.
	{
		var sb strings.Builder
		sb.WriteString("VS" + encode(pa)[2:] + " R")
		for _, b := range res {
			fmt.Fprintf(&sb, " %d", b.pos)
		}
		c.Case(sb.String(), "!", "structure")
		c.Count("lean-verdict:structure")
	}
	rep0 := rep
	rep = func(kind, desc string) {
		switch kind {
		case "empty-result", "not-increasing", "illegal-breakpoint", "not-ending-at-final", "forced-break-skipped":
			c.Count("structure-failure-seen-by-go:" + kind) // judged by the Lean verdict
			return
		}
		rep0(kind, desc)
	}
	if len(res) == 0 {
		rep("empty-result", "no breakpoint returned")
		return
	}
	structOK := true
	prev := -1
	seq := make([]int, len(res))
	for i, b := range res {
		seq[i] = b.pos
		if b.pos < 0 || b.pos >= n {
			rep("position-out-of-range", fmt.Sprintf("breakpoint %d at position %d", i, b.pos))
			return
		}
		if b.pos <= prev {
			rep("not-increasing", fmt.Sprintf("breakpoint %d at position %d follows position %d", i, b.pos, prev))
			structOK = false
		}
		if !isLegal(pa, b.pos) {
			rep("illegal-breakpoint", fmt.Sprintf("breakpoint %d at position %d is not a legal breakpoint", i, b.pos))
			structOK = false
		}
		if b.line != i+1 {
			rep("line-number", fmt.Sprintf("breakpoint %d has Line=%d", i, b.line))
			structOK = false
		}
		prev = b.pos
	}
	if res[len(res)-1].pos != n-1 {
		rep("not-ending-at-final", fmt.Sprintf("last breakpoint at %d, final forced break at %d", res[len(res)-1].pos, n-1))
		structOK = false
	}
	in := map[int]bool{}
	for _, p := range seq {
		in[p] = true
	}
	nForced := 0
	for i := 0; i < n; i++ {
		if isForced(pa, i) {
			nForced++
			if !in[i] {
				rep("forced-break-skipped", fmt.Sprintf("forced break at %d is not among the returned breakpoints %v", i, seq))
				structOK = false
				break
			}
		}
	}
	if nForced > 1 {
		c.Count("feature:inner-forced-break")
	}
	if !structOK {
		return
	}

	// 2. reported widths and ratios are those of the returned lines
	tab := map[[2]int]lineM{}
	a := -1
	relaxed := false
	for i, b := range res {
		m := e.measure(a, b.pos)
		tab[[2]int{a, b.pos}] = m
		if m.empty {
			c.Count("feature:empty-line-returned")
		}
		Lf, _ := m.L.Float64()
		if math.Abs(b.width-Lf) > 1e-9*(1+e.absW) {
			rep("reported-width", fmt.Sprintf("line %d (%d,%d]: reported Width %v, natural width %v", i+1, a, b.pos, b.width, Lf))
		}
		inside := m.kind == 0 && m.shr > 0 && m.str > 0
		outside := m.shr < 0 || m.str < 0
		if m.str < 0 {
			relaxed = true
		}
		switch {
		case m.signed:
			c.Count("skip:ratio-of-line-before-first-box")
		case m.negYZ:
			c.Count("skip:ratio-of-line-with-negative-stretch")
		case inside:
			if math.Abs(b.ratio-m.rf) > 1e-7*(1+math.Abs(m.rf)) {
				rep("reported-ratio", fmt.Sprintf("line %d (%d,%d]: reported Ratio %v, adjustment ratio %v", i+1, a, b.pos, b.ratio, m.rf))
			}
		case outside:
			if b.ratio != 0 {
				rep("reported-ratio-outside", fmt.Sprintf("line %d (%d,%d]: ratio %v outside [-1,Tolerance] but reported %v", i+1, a, b.pos, m.rf, b.ratio))
			}
		default:
			c.Count("skip:ratio-at-boundary")
		}
		a = b.pos
	}
	if relaxed && ok {
		c.Count("outcome:relaxed")
	}
	// branches of the modelled functions reached by the returned lines
	for _, b := range res {
		c.Count(fmt.Sprintf("branch:fitness-class-%d", b.fit))
		it := pa.items[b.pos]
		switch {
		case it.Type == text.GlueType:
			c.Count("branch:break-at-glue")
		case isForced(pa, b.pos):
			c.Count("branch:break-at-forced-penalty")
		case it.Penalty >= 0:
			c.Count("branch:break-at-positive-penalty")
		default:
			c.Count("branch:break-at-negative-penalty")
		}
		if it.Type == text.PenaltyType && it.Width != 0 {
			c.Count("branch:break-at-penalty-with-width")
		}
	}
	for k, m := range tab {
		_ = k
		switch {
		case m.signed:
			c.Count("branch:ratio:break-before-first-box")
		case m.kind > 0:
			c.Count("branch:ratio:underfull-unstretchable")
		case m.kind < 0:
			c.Count("branch:ratio:overfull-unshrinkable")
		case m.rf > 0:
			c.Count("branch:ratio:underfull-stretch")
		case m.rf < 0:
			c.Count("branch:ratio:overfull-shrink")
		default:
			c.Count("branch:ratio:exact-fit")
		}
	}
	for i, it := range pa.items {
		if it.Type == text.PenaltyType && it.Width != 0 && isLegal(pa, i) {
			c.Count("branch:deactivation-without-penalty-width")
			break
		}
	}
	if pa.loose != 0 {
		c.Count("branch:looseness-selection")
	}

	// 3. exhaustive: feasibility, optimality, minimal relaxation, overflow
	legal := []int{}
	for i := 0; i < n; i++ {
		if isLegal(pa, i) {
			legal = append(legal, i)
		}
	}
	if len(legal) > 14 {
		c.Count("exhaustive:skipped-too-many-breakpoints")
		return
	}
	if pa.loose != 0 {
		c.Count("exhaustive:skipped-looseness")
		return
	}
	if pa.items[0].Type == text.PenaltyType && pa.items[0].Flagged {
		c.Count("exhaustive:skipped-flagged-first-item")
		return
	}
	for _, it := range pa.items {
		if it.Width < 0 || (it.Type == text.GlueType && it.Shrink < 0) {
			c.Count("exhaustive:skipped-negative-width")
			return
		}
	}
	bestStrict, bestLoose := math.Inf(1), math.Inf(1)
	tStrict, tLoose := math.Inf(1), math.Inf(1) // least max ratio over breakings whose lines can all be shrunk to fit
	band, negYZ, anySigned := false, false, false
	exactFeas, exactShrink := false, false
	nSeq := 0
	var cur []int
	var dfs func(from int)
	dfs = func(from int) {
		for _, b := range legal {
			if b <= from {
				continue
			}
			cur = append(cur, b)
			if b == n-1 {
				nSeq++
				st := e.statOf(cur, tab)
				if st.signed {
					// a line without any box, measured by negative sums: not a candidate of the oracle
					anySigned = true
					cur = cur[:len(cur)-1]
					continue
				}
				negYZ = negYZ || st.negYZ
				exactFeas = exactFeas || st.exactFeas
				exactShrink = exactShrink || st.exactShrink
				if st.strictShr {
					tStrict = math.Min(tStrict, st.maxRhat)
				}
				if st.strictFeas {
					bestStrict = math.Min(bestStrict, st.dem)
				}
				if st.looseShr {
					tLoose = math.Min(tLoose, st.maxRhat)
				}
				if st.looseFeas {
					bestLoose = math.Min(bestLoose, st.dem)
					band = band || st.band
				}
			} else {
				dfs(b)
			}
			cur = cur[:len(cur)-1]
			if isForced(pa, b) {
				break // a forced break cannot be skipped
			}
		}
	}
	dfs(-1)
	c.Count(fmt.Sprintf("exhaustive:breakings:%s", bucket(nSeq)))
	if negYZ {
		c.Count("exhaustive:skipped-negative-stretch-line")
		return
	}
	c.Evals += nSeq
	// cross-check of the Lean L3 specification `best` (exhaustive recursion, evaluated in Float by the
	// driver) against this enumeration, when no candidate line is near a decision boundary
	clear := true
	for _, m := range tab {
		if m.shr == 0 || m.str == 0 || m.rigidBand || (m.kind == 0 && m.shr > 0 && m.str > 0 && nearClassBoundary(m.rf)) {
			clear = false
		}
	}
	if clear && !anySigned && len(legal) <= 12 {
		out := "none"
		if bestStrict < math.Inf(1) {
			out = hc.H(bestStrict)
		}
		c.Case("BEST"+encode(pa)[2:], "~", out)
		c.Count("spec-best-crosscheck")
	}
	code := e.statOf(seq, tab)
	reported := res[len(res)-1].dem
	// Known defect class: deactivation assumes that the least length of a line only grows with the
	// break position, but a break at a penalty with width can give a longer line than a later break
	// (and so can glue that shrinks by more than its width). Failures of feasibility/optimality in
	// paragraphs that contain such a pair are classified separately.
	if code.signed {
		c.Count("skip:returned-line-before-first-box")
		return
	}
	// Remaining known class: deactivation assumes that the least length L-Z of a line only grows with
	// the break position; glue that shrinks by more than its width breaks that (outside the
	// Knuth–Plass input assumptions). Failures in paragraphs with such glue and such a pair are
	// classified separately; everything else is a violation.
	cls := ""
	if hasWideShrink(pa) && e.nonMonotone(legal, tab) {
		cls = ":glue-shrink-exceeds-width"
		c.Count("feature:glue-shrink-exceeds-width")
	}
	switch {
	case bestStrict < math.Inf(1):
		c.Count("exhaustive:feasible")
		if !ok || !code.looseFeas {
			rep("infeasible-though-feasible-exists"+cls, fmt.Sprintf("a breaking with all ratios in [-1,%v] exists (demerits %v) but the returned lines have ratios in [%v,%v], ok=%v", pa.p.tol, bestStrict, code.minR, code.maxRhat, ok))
			return
		}
		if band || code.band {
			c.Count("skip:demerits-with-ratio-at-class-boundary")
			return
		}
		if code.dem > bestStrict+1e-9*math.Abs(bestStrict)+1e-6 {
			rep("suboptimal"+cls, fmt.Sprintf("returned breaking %v has demerits %v, the optimum is %v", seq, code.dem, bestStrict))
		} else if code.dem < bestLoose-1e-9*math.Abs(bestLoose)-1e-6 {
			rep("oracle-inconsistent", fmt.Sprintf("returned breaking %v has demerits %v below the exhaustive optimum %v", seq, code.dem, bestLoose))
		}
		if math.Abs(reported-code.dem) > 1e-9*math.Abs(code.dem)+1e-6 {
			rep("demerits-accounting", fmt.Sprintf("reported total demerits %v, demerits of the returned lines %v", reported, code.dem))
		}
		c.Count("exhaustive:optimal-checked")
	case bestLoose < math.Inf(1):
		c.Count("exhaustive:feasible-only-at-boundary")
		if !ok || !code.looseFeas {
			if exactFeas {
				rep("exact-fit-cancellation"+cls, fmt.Sprintf("a breaking with all ratios in [-1,%v] in exact arithmetic exists (a line has ratio exactly at the boundary; demerits %v); returned lines have ratios in [%v,%v], ok=%v", pa.p.tol, bestLoose, code.minR, code.maxRhat, ok))
			} else {
				c.Count("skip:boundary-band-not-exactly-feasible")
			}
		}
	case tStrict < math.Inf(1):
		c.Count("exhaustive:needs-relaxation")
		if !ok || !code.looseShr {
			rep("overflow-though-shrinkable"+cls, fmt.Sprintf("a breaking whose lines can all be shrunk to fit exists (max ratio %v) but ok=%v, least returned ratio %v", tStrict, ok, code.minR))
			return
		}
		if code.maxRhat > tStrict*(1+1e-9)+1e-9 {
			rep("relaxed-more-than-needed"+cls, fmt.Sprintf("returned breaking %v stretches a line to ratio %v; a breaking with max ratio %v exists", seq, code.maxRhat, tStrict))
		}
	case tLoose < math.Inf(1):
		c.Count("exhaustive:shrinkable-only-at-boundary")
		if !ok {
			if exactShrink {
				rep("exact-fit-cancellation"+cls, fmt.Sprintf("overflow reported although a breaking exists whose tightest line has ratio exactly -1 in exact arithmetic (max ratio %v)", tLoose))
			} else {
				c.Count("skip:boundary-band-not-exactly-feasible")
			}
		}
	default:
		c.Count("exhaustive:overflow-unavoidable")
		if ok {
			rep("overflow-not-reported", fmt.Sprintf("every breaking has a line that cannot be shrunk to fit, but ok=true; returned ratios in [%v,%v]", code.minR, code.maxRhat))
		}
	}
}

// nonMonotone reports whether some line start a and legal breaks b < b' (b not forced, no forced
// break between) exist such that the least length L-Z of the line a→b' is smaller than that of the
// line a→b (by more than the margin), a→b cannot be shrunk to fit (or only exactly) and a→b' can.
// Cause: glue whose shrink exceeds its width (a penalty's width is not counted).
func (e *exact) nonMonotone(legal []int, tab map[[2]int]lineM) bool {
	get := func(a, b int) lineM {
		m, ok := tab[[2]int{a, b}]
		if !ok {
			m = e.measure(a, b)
			tab[[2]int{a, b}] = m
		}
		return m
	}
	delta := 1e-9 * (1 + e.absW + math.Abs(e.pa.width))
	starts := append([]int{-1}, legal...)
	for _, a := range starts {
		over := math.Inf(-1) // longest line so far that could not be shrunk with margin
		for _, b := range legal {
			if b <= a {
				continue
			}
			m := get(a, b)
			least := new(big.Rat).Sub(m.L, m.Z) // least length the line can be shrunk to, without the penalty width
			if e.pa.items[b].Type == text.PenaltyType {
				least.Sub(least, rat(e.pa.items[b].Width))
			}
			Lf, _ := least.Float64()
			if m.shr >= 0 && Lf < over-delta {
				return true
			}
			if m.shr <= 0 {
				over = math.Max(over, Lf)
			}
			if isForced(e.pa, b) {
				break
			}
		}
	}
	return false
}

func hasWideShrink(pa para) bool {
	for _, it := range pa.items {
		if it.Type == text.GlueType && it.Shrink > it.Width {
			return true
		}
	}
	return false
}

func bucket(n int) string {
	switch {
	case n <= 1:
		return "1"
	case n <= 8:
		return "2-8"
	case n <= 64:
		return "9-64"
	case n <= 1024:
		return "65-1024"
	}
	return ">1024"
}
