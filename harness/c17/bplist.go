package main

// Hook-level correspondence for text.Breakpoints (the doubly linked active/inactive lists): operation
// histories over a small node universe are applied to the REAL methods (text.VerifBreakpointsRun,
// build tag verif) and to the Lean pointer-level model (CanvasModel/C17/BPList.lean); head/tail of
// both lists, prev/next of every node and all Has results are compared exactly. For histories that
// respect the discipline of the algorithm (a node is in at most one list; operations on a list only
// with its own or free nodes) an abstract list is kept here and the real pointer state is judged
// against it: forward walk from head = the list, backward walk from tail = its reverse, free nodes
// have nil pointers.

import (
	"fmt"
	"strconv"
	"strings"

	"github.com/tdewolff/canvas/text"
	"verifharness/hc"
)

func indexOf(xs []int, v int) int {
	for i, x := range xs {
		if x == v {
			return i
		}
	}
	return -1
}

func bpCases(c *hc.Ctx, count int) {
	for it := 0; it < count; it++ {
		n := 2 + c.Intn(7)
		nOps := 1 + c.Intn(40)
		class := []string{"discipline", "discipline", "mainloop", "arbitrary"}[c.Intn(4)]
		ops := [][4]int{}
		shadow := [2][]int{}
		where := make([]int, n) // -1 free, else list
		for i := range where {
			where[i] = -1
		}
		free := func() []int {
			r := []int{}
			for i, w := range where {
				if w < 0 {
					r = append(r, i)
				}
			}
			return r
		}
		add := func(kind, l, b, at int) { ops = append(ops, [4]int{kind, l, b, at}) }
		for k := 0; k < nOps; k++ {
			switch class {
			case "arbitrary":
				add(c.Intn(4), c.Intn(2), c.Intn(n), c.Intn(n))
			default:
				l := c.Intn(2)
				if class == "mainloop" {
					l = 0
				}
				r := c.Intn(10)
				fr := free()
				switch {
				case r < 3 && len(fr) > 0: // push a free node
					b := fr[c.Intn(len(fr))]
					add(0, l, b, 0)
					shadow[l] = append(shadow[l], b)
					where[b] = l
					c.Count("bp-op:push")
				case r < 5 && len(fr) > 0 && len(shadow[l]) > 0: // insert a free node before a member
					b := fr[c.Intn(len(fr))]
					i := c.Intn(len(shadow[l]))
					add(1, l, b, shadow[l][i])
					shadow[l] = append(shadow[l][:i], append([]int{b}, shadow[l][i:]...)...)
					where[b] = l
					c.Count("bp-op:insert")
				case r < 8 && len(shadow[l]) > 0: // remove a member (and, like mainLoop, push it to the other list)
					i := c.Intn(len(shadow[l]))
					b := shadow[l][i]
					add(2, l, b, 0)
					shadow[l] = append(shadow[l][:i:i], shadow[l][i+1:]...)
					where[b] = -1
					c.Count("bp-op:remove")
					if class == "mainloop" || c.Bool() {
						add(0, 1-l, b, 0)
						shadow[1-l] = append(shadow[1-l], b)
						where[b] = 1 - l
						c.Count("bp-op:move")
					}
				case r < 9: // guarded no-ops: push a member, remove a free node, insert before a free node
					if len(shadow[l]) > 0 && c.Bool() {
						add(0, l, shadow[l][c.Intn(len(shadow[l]))], 0)
					} else if len(fr) > 0 {
						if c.Bool() {
							add(2, l, fr[c.Intn(len(fr))], 0)
						} else if len(fr) > 1 {
							add(1, l, fr[0], fr[1])
						}
					}
					c.Count("bp-op:guarded-noop")
				default:
					b := c.Intn(n)
					if where[b] < 0 || where[b] == l { // Has is only reliable for own or free nodes
						add(3, l, b, 0)
						c.Count("bp-op:has")
					}
				}
			}
		}
		var sb strings.Builder
		fmt.Fprintf(&sb, "BP %d", n)
		for _, op := range ops {
			fmt.Fprintf(&sb, " %d %d %d %d", op[0], op[1], op[2], op[3])
		}
		out := text.VerifBreakpointsRun(n, ops)
		c.Case(sb.String(), "=", out)
		c.Count("bp-class:" + class)
		if out == "PANIC" {
			c.Count("bp-outcome:panic(nil tail in corrupted list)")
			if class != "arbitrary" {
				c.Fail("breakpoints-list", "list method panicked on a history that respects the discipline", map[string]any{"line": sb.String()})
			}
			continue
		}
		if class == "arbitrary" {
			continue
		}
		// oracle: the real pointer state represents the abstract lists
		c.Evals++
		toks := strings.Fields(out)
		num := func(i int) int { v, _ := strconv.Atoi(toks[i]); return v }
		prev := func(i int) int { return num(4 + 2*i) }
		next := func(i int) int { return num(5 + 2*i) }
		bad := ""
		for l := 0; l < 2; l++ {
			head, tail := num(2*l), num(2*l+1)
			fw := []int{}
			for x, guard := head, 0; x >= 0 && guard <= n; x, guard = next(x), guard+1 {
				fw = append(fw, x)
			}
			bw := []int{}
			for x, guard := tail, 0; x >= 0 && guard <= n; x, guard = prev(x), guard+1 {
				bw = append(bw, x)
			}
			rev := make([]int, len(shadow[l]))
			for i, v := range shadow[l] {
				rev[len(rev)-1-i] = v
			}
			if fmt.Sprint(fw) != fmt.Sprint(shadow[l]) {
				bad = fmt.Sprintf("list %d: walk from head %v, expected %v", l, fw, shadow[l])
			} else if fmt.Sprint(bw) != fmt.Sprint(rev) {
				bad = fmt.Sprintf("list %d: walk from tail %v, expected %v (stale tail or prev pointer)", l, bw, rev)
			}
		}
		for i, w := range where {
			if w < 0 && (prev(i) >= 0 || next(i) >= 0) {
				bad = fmt.Sprintf("free node %d keeps pointers prev=%d next=%d", i, prev(i), next(i))
			}
		}
		// Has observations: in disciplined histories Has(b) must equal membership at that time; the shadow
		// at observation time is not kept, so only the final structure is judged here (Has is compared
		// exactly with the Lean model, for which `has_iff_mem` is proved).
		if bad != "" {
			c.Fail("breakpoints-list", bad, map[string]any{"line": sb.String(), "state": out})
		}
	}
}
