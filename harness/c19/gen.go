package main

import (
	"fmt"
	"math"
	"strings"

	"verifharness/hc"
)

// ---- colours: text and the premultiplied RGBA it denotes (CSS colour keywords / hex / rgb()) ---------

type colour struct {
	text string
	rgba [4]uint8
}

var colours = []colour{
	{"red", [4]uint8{255, 0, 0, 255}}, {"blue", [4]uint8{0, 0, 255, 255}}, {"green", [4]uint8{0, 128, 0, 255}},
	{"lime", [4]uint8{0, 255, 0, 255}}, {"black", [4]uint8{0, 0, 0, 255}}, {"white", [4]uint8{255, 255, 255, 255}},
	{"orange", [4]uint8{255, 165, 0, 255}}, {"teal", [4]uint8{0, 128, 128, 255}}, {"Navy", [4]uint8{0, 0, 128, 255}},
	{"#ff8800", [4]uint8{255, 136, 0, 255}}, {"#123456", [4]uint8{0x12, 0x34, 0x56, 255}}, {"#0af", [4]uint8{0, 0xaa, 0xff, 255}},
	{"#FFF", [4]uint8{255, 255, 255, 255}}, {"rgb(10,20,30)", [4]uint8{10, 20, 30, 255}}, {"rgb(255,0,128)", [4]uint8{255, 0, 128, 255}},
}

func (g *gen) colourVal() Val {
	cl := colours[g.c.Intn(len(colours))]
	return Val{K: 'C', Col: cl.rgba, Text: cl.text}
}

func kw(s string) Val { return Val{K: 'K', Kw: s} }

// ---- generator ---------------------------------------------------------------------------------------------

type gen struct {
	c        *hc.Ctx
	d        *Doc
	nShapes  int
	ids      int
	cssProps map[string]bool // properties reserved for CSS rules in this document
	noWidth  bool            // stroke-width stays 1 (documents that use dash arrays)
	allowPct bool
}

var unitsLen = []string{"px", "mm", "cm", "in", "pt", "pc"}

func (g *gen) coord() float64 {
	c := g.c
	switch c.Intn(4) {
	case 0:
		return float64(c.Intn(101))
	case 1:
		return float64(c.Intn(401)) / 4
	case 2:
		return float64(c.Intn(1001)) / 10
	}
	return float64(c.Intn(61) - 10)
}

func (g *gen) size() float64 { // strictly positive
	c := g.c
	switch c.Intn(3) {
	case 0:
		return float64(1 + c.Intn(60))
	case 1:
		return float64(1+c.Intn(240)) / 4
	}
	return float64(1+c.Intn(600)) / 10
}

// a length with an optional unit; the number is chosen so that the value stays of the order of v px
func (g *gen) dim(v float64) Val {
	c := g.c
	if !c.Chance(0.25) {
		return Val{K: 'D', Num: v}
	}
	u := unitsLen[c.Intn(len(unitsLen))]
	per := map[string]float64{"px": 1, "mm": 96 / 25.4, "cm": 960 / 25.4, "in": 96, "pt": 96.0 / 72, "pc": 16}[u]
	n := float64(int(v/per*4+0.5)) / 4
	if n == 0 {
		n = 0.25
	}
	if c.Chance(0.15) {
		u = strings.ToUpper(u)
	}
	g.d.Features["unit:"+strings.ToLower(u)] = true
	return Val{K: 'D', Num: n, Unit: u}
}

func (g *gen) transform(skew bool) Val {
	c := g.c
	n := 1 + c.Intn(3)
	v := Val{K: 'X'}
	for i := 0; i < n; i++ {
		sep := []string{",", " ", ", "}[c.Intn(3)]
		var f XFn
		k := c.Intn(9) // skewX/skewY are ordinary functions since 3e2eccb
		if skew && i == 0 {
			k = 7 + c.Intn(2)
		}
		switch k {
		case 0:
			f = XFn{"translate", []float64{g.coord() / 2, g.coord() / 2}, sep}
		case 1:
			f = XFn{"translate", []float64{g.coord() / 2}, sep}
		case 2:
			f = XFn{"scale", []float64{[]float64{0.5, 2, 1.5, 0.75, -1, 1.25}[c.Intn(6)]}, sep}
		case 3:
			f = XFn{"scale", []float64{[]float64{0.5, 2, 1.5, -1}[c.Intn(4)], []float64{0.5, 2, 1.25, -1, 1}[c.Intn(5)]}, sep}
		case 4:
			f = XFn{"rotate", []float64{float64(c.Intn(73)*5 - 180)}, sep}
		case 5:
			f = XFn{"rotate", []float64{float64(c.Intn(25) * 15), g.coord() / 2, g.coord() / 2}, sep}
		case 6:
			f = XFn{"matrix", []float64{[]float64{1, 0.5, 2, -1}[c.Intn(4)], []float64{0, 0.5, -0.25}[c.Intn(3)], []float64{0, -0.5, 0.25}[c.Intn(3)], []float64{1, 1.5, 0.5}[c.Intn(3)], float64(c.Intn(21) - 10), float64(c.Intn(21) - 10)}, sep}
		case 7:
			f = XFn{"skewX", []float64{float64(10 + c.Intn(50))}, sep}
		case 8:
			f = XFn{"skewY", []float64{float64(10 + c.Intn(50))}, sep}
		}
		if k >= 7 {
			g.d.Features["skew"] = true
		}
		g.c.Count("xform:" + f.Name + fmt.Sprint(len(f.Args)))
		v.Xf = append(v.Xf, f)
	}
	g.c.Count(fmt.Sprintf("xform-list-len:%d", n))
	return v
}

var styleProps = []string{"fill", "stroke", "stroke-width", "stroke-linecap", "stroke-linejoin", "stroke-dasharray", "stroke-dashoffset"}

func (g *gen) propVal(key string) Val {
	c := g.c
	switch key {
	case "fill":
		if c.Chance(0.12) {
			return kw("none")
		}
		return g.colourVal()
	case "stroke":
		if c.Chance(0.08) {
			return kw("none")
		}
		return g.colourVal()
	case "stroke-width":
		if g.noWidth {
			return Val{K: 'D', Num: 1}
		}
		v := Val{K: 'D', Num: []float64{0.5, 1, 2, 3, 1.5, 4, 0.25}[c.Intn(7)]}
		if c.Chance(0.15) {
			v.Unit = []string{"px", "pt", "mm"}[c.Intn(3)]
		}
		return v
	case "stroke-linecap":
		return kw([]string{"butt", "round", "square"}[c.Intn(3)])
	case "stroke-linejoin":
		return kw([]string{"miter", "round", "bevel"}[c.Intn(3)])
	case "stroke-dasharray":
		if c.Chance(0.1) {
			return kw("none")
		}
		n := []int{2, 2, 2, 4, 4, 1, 3}[c.Intn(7)]
		v := Val{K: 'N', Sep: []string{",", " "}[c.Intn(2)]}
		for i := 0; i < n; i++ {
			v.Nums = append(v.Nums, []float64{1, 2, 3, 4, 5, 6, 8, 2.5, 0.5}[c.Intn(9)])
		}
		return v
	case "stroke-dashoffset":
		return Val{K: 'D', Num: float64(c.Intn(3)*c.Intn(5)) / 2}
	}
	return kw("none")
}

// presentation attributes for an element: each property at most once, never one reserved for CSS
func (g *gen) presAttrs(max int, asStyle float64) []Attr {
	c := g.c
	var out []Attr
	var st []Prop
	used := map[string]bool{}
	n := c.Intn(max + 1)
	for i := 0; i < n; i++ {
		k := styleProps[c.Intn(len(styleProps))]
		if k == "stroke-dasharray" && !g.d.Features["dash"] {
			continue
		}
		if k == "stroke-dashoffset" && !g.d.Features["dash"] {
			continue
		}
		if used[k] || g.cssProps[k] {
			continue
		}
		used[k] = true
		if c.Chance(asStyle) {
			st = append(st, Prop{k, g.propVal(k)})
		} else {
			out = append(out, Attr{Key: k, V: g.propVal(k)})
		}
	}
	if len(st) > 0 {
		g.c.Count("style-attribute")
		out = append(out, Attr{Key: "style", Style: st})
	}
	return out
}

func shuffleAttrs(c *hc.Ctx, a []Attr) {
	for i := len(a) - 1; i > 0; i-- {
		j := c.Intn(i + 1)
		a[i], a[j] = a[j], a[i]
	}
}

func (g *gen) pathData() string {
	c := g.c
	var sb strings.Builder
	subs := 1 + c.Intn(2)
	for s := 0; s < subs; s++ {
		fmt.Fprintf(&sb, "M%s %s", num(g.coord()), num(g.coord()))
		n := 1 + c.Intn(4)
		for i := 0; i < n; i++ {
			k := c.Intn(5)
			// (two H in a row may backtrack; LineTo's reversal merge was fixed upstream in 219108c, so they are generated again)
			switch k {
			case 0, 1:
				fmt.Fprintf(&sb, "L%s %s", num(g.coord()), num(g.coord()))
			case 2:
				fmt.Fprintf(&sb, "H%s", num(g.coord()))
			case 3:
				fmt.Fprintf(&sb, "Q%s %s %s %s", num(g.coord()), num(g.coord()), num(g.coord()), num(g.coord()))
			case 4:
				fmt.Fprintf(&sb, "C%s %s %s %s %s %s", num(g.coord()), num(g.coord()), num(g.coord()), num(g.coord()), num(g.coord()), num(g.coord()))
			}
		}
		if c.Bool() {
			sb.WriteString("Z")
		}
	}
	return sb.String()
}

func (g *gen) shape() *Node {
	c := g.c
	g.nShapes++
	n := &Node{}
	A := func(k string, v Val) { n.Attrs = append(n.Attrs, Attr{Key: k, V: v}) }
	switch c.Intn(8) {
	case 0, 1:
		n.Tag = "rect"
		A("x", g.dim(g.coord()))
		A("y", g.dim(g.coord()))
		wv, hv := g.dim(g.size()), g.dim(g.size())
		A("width", wv)
		A("height", hv)
		wpx, _ := dimPx(wv, 0)
		hpx, _ := dimPx(hv, 0)
		half := math.Min(wpx, hpx) / 2
		// radii within half the smaller side: no clamping (clamping differs from SVG 1.1, class rx-ry)
		// radii up to 1.6 x half the smaller side: each is limited to half its own side (SVG 1.1 9.2, c530d1e)
		rad := func() Val { return Val{K: 'D', Num: math.Max(0.125, float64(int(half*c.Range(0.1, 1.6)*8))/8)} }
		rk := c.Intn(6)
		if half < 0.25 {
			rk = 5
		}
		switch rk {
		case 0:
			A("rx", rad())
			c.Count("rect:rx")
		case 1:
			A("ry", rad())
			c.Count("rect:ry")
		case 2:
			r := rad()
			A("rx", r)
			A("ry", r)
			c.Count("rect:rx=ry")
		case 3, 4:
			if g.d.Class == "rx-ry" || rk == 4 {
				if c.Bool() {
					A("rx", Val{K: 'D', Num: half * 0.25})
					A("ry", Val{K: 'D', Num: half * 0.75})
				} else {
					// larger than half the smaller side: rx and ry are clamped separately by SVG 1.1
					A("rx", Val{K: 'D', Num: float64(int(half*1.5) + 1)})
				}
				g.d.Features["rx-ry"] = true
			}
		}
	case 2:
		n.Tag = "circle"
		if c.Chance(0.9) {
			A("cx", g.dim(g.coord()))
		}
		if c.Chance(0.9) {
			A("cy", g.dim(g.coord()))
		}
		A("r", g.dim(g.size()/2))
	case 3:
		n.Tag = "ellipse"
		A("cx", g.dim(g.coord()))
		A("cy", g.dim(g.coord()))
		A("rx", g.dim(g.size()/2))
		A("ry", g.dim(g.size()/2))
	case 4:
		n.Tag = "line"
		A("x1", g.dim(g.coord()))
		A("y1", g.dim(g.coord()))
		A("x2", g.dim(g.coord()))
		A("y2", g.dim(g.coord()))
	case 5, 6:
		n.Tag = []string{"polyline", "polygon"}[c.Intn(2)]
		k := 2 + c.Intn(5)
		v := Val{K: 'N', Sep: []string{",", " "}[c.Intn(2)]}
		for i := 0; i < k; i++ {
			if c.Chance(0.15) && i >= 2 {
				// collinear continuation (exercises the LineTo merge of the path builder)
				l := len(v.Nums)
				v.Nums = append(v.Nums, 2*v.Nums[l-2]-v.Nums[l-4], 2*v.Nums[l-1]-v.Nums[l-3])
				c.Count("poly:collinear")
			} else {
				v.Nums = append(v.Nums, g.coord(), g.coord())
			}
		}
		A("points", v)
	case 7:
		n.Tag = "path"
		A("d", Val{K: 'P', D: g.pathData()})
	}
	c.Count("shape:" + n.Tag)
	shuffleAttrs(c, n.Attrs)
	return n
}

func (g *gen) group(depth int) *Node {
	c := g.c
	n := &Node{Tag: "g"}
	if c.Chance(0.7) {
		n.Attrs = append(n.Attrs, Attr{Key: "transform", V: g.transform(g.d.Class == "skew" && c.Chance(0.5))})
	}
	n.Attrs = append(n.Attrs, g.presAttrs(3, 0.25)...)
	shuffleAttrs(c, n.Attrs)
	k := 1 + c.Intn(3)
	for i := 0; i < k; i++ {
		n.Kids = append(n.Kids, g.node(depth+1))
	}
	c.Count(fmt.Sprintf("g-depth:%d", depth))
	return n
}

func (g *gen) node(depth int) *Node {
	c := g.c
	if depth < 5 && g.nShapes < 8 && c.Chance(0.45-0.05*float64(depth)) {
		return g.group(depth)
	}
	n := g.shape()
	if c.Chance(0.3) {
		n.Attrs = append(n.Attrs, Attr{Key: "transform", V: g.transform(g.d.Class == "skew" && c.Chance(0.5))})
	}
	n.Attrs = append(n.Attrs, g.presAttrs(4, 0.25)...)
	shuffleAttrs(c, n.Attrs)
	return n
}

var classes = []struct {
	name string
	w    int
}{
	{"plain", 36}, {"css", 12}, {"css-order", 4}, {"style-after-attr", 4}, {"css-vs-style", 3},
	{"dash", 6}, {"dash-sw", 4},
	{"style-before-attr", 3}, {"css-vs-attr", 3}, {"css-specificity", 3}, {"css-on-ancestor", 3}, {"css-id", 3},
	{"bare-group", 6}, {"xform-comma", 3}, {"aspect", 3}, {"skew", 3}, {"fill-rule", 3}, {"rx-ry", 3}, {"viewbox-origin", 3}, {"miterlimit", 3}, {"fit", 2}, {"err", 2},
}

func genDoc(c *hc.Ctx) *Doc {
	tot := 0
	for _, cl := range classes {
		tot += cl.w
	}
	r := c.Intn(tot)
	class := ""
	for _, cl := range classes {
		if r < cl.w {
			class = cl.name
			break
		}
		r -= cl.w
	}
	return genDocClass(c, class)
}

func allNodes(n *Node, f func(n *Node, anc []*Node), anc []*Node) {
	f(n, anc)
	for _, k := range n.Kids {
		allNodes(k, f, append(anc[:len(anc):len(anc)], n))
	}
}

func setAttr(n *Node, key string, v Val, front bool) {
	for i, a := range n.Attrs {
		if a.Key == key {
			n.Attrs[i].V = v
			return
		}
	}
	if front {
		n.Attrs = append([]Attr{{Key: key, V: v}}, n.Attrs...)
	} else {
		n.Attrs = append(n.Attrs, Attr{Key: key, V: v})
	}
}

// forceAttr makes `key` declared exactly once on the element, as a presentation attribute
func forceAttr(n *Node, key string, v Val, front bool) {
	removeAttr(n, key)
	setAttr(n, key, v, front)
}

func removeAttr(n *Node, key string) {
	out := n.Attrs[:0]
	for _, a := range n.Attrs {
		if a.Key == "style" {
			st := a.Style[:0]
			for _, p := range a.Style {
				if p.Key != key {
					st = append(st, p)
				}
			}
			a.Style = st
			if len(st) == 0 {
				continue
			}
		} else if a.Key == key {
			continue
		}
		out = append(out, a)
	}
	n.Attrs = out
}

func genDocClass(c *hc.Ctx, class string) *Doc {
	d := &Doc{Features: map[string]bool{}, Class: class}
	g := &gen{c: c, d: d, cssProps: map[string]bool{}}
	if class == "dash" || class == "dash-sw" {
		d.Features["dash"] = true
		g.noWidth = false // (dash lengths are user units whatever the stroke width since a9d372e)
	}
	isCSS := strings.HasPrefix(class, "css")
	if isCSS {
		// properties that only CSS rules set in this document
		for _, k := range []string{"fill", "stroke", "stroke-width", "stroke-linecap"} {
			if c.Chance(0.6) {
				g.cssProps[k] = true
			}
		}
		if class != "css" && class != "css-id" {
			// the special classes stage their conflict on `fill`, which no base rule and no attribute sets
			g.cssProps["fill"] = true
		} else if len(g.cssProps) == 0 {
			g.cssProps["fill"] = true
		}
	}

	// size and viewBox
	vw, vh := float64(40+c.Intn(161)), float64(40+c.Intn(161)) // viewport in px
	mode := c.Intn(5)
	if class == "fit" {
		mode = 9
	}
	if class == "viewbox-origin" && mode < 2 {
		mode = 2
	}
	switch mode {
	case 0: // width/height only
		w, h := g.dim(vw), g.dim(vh)
		d.W, d.H = &w, &h
		c.Count("head:size")
	case 1:
		w, h := g.dim(vw), g.dim(vh)
		d.W, d.H = &w, &h
		c.Count("head:size")
	case 2, 3: // width/height + viewBox
		w, h := g.dim(vw), g.dim(vh)
		d.W, d.H = &w, &h
		if c.Bool() {
			// same aspect ratio: uniform scale
			s := []float64{0.5, 1, 2, 4, 0.25}[c.Intn(5)]
			pw, _ := dimPx(w, 0)
			ph, _ := dimPx(h, 0)
			d.VB = &[4]float64{0, 0, pw * s, ph * s}
			c.Count("head:size+viewBox-uniform")
		} else {
			d.VB = &[4]float64{0, 0, float64(20 + c.Intn(200)), float64(20 + c.Intn(200))}
			d.PAR = true
			c.Count("head:size+viewBox-none")
		}
	case 4: // viewBox only
		d.VB = &[4]float64{0, 0, vw, vh}
		c.Count("head:viewBox")
	case 9:
		d.Features["fit"] = true
		c.Count("head:none")
	}
	if class == "aspect" {
		// viewBox with another aspect ratio than the viewport and no preserveAspectRatio: xMidYMid meet
		w, h := Val{K: 'D', Num: vw}, Val{K: 'D', Num: vh}
		d.W, d.H = &w, &h
		d.VB = &[4]float64{0, 0, vw * []float64{0.5, 2, 1.5}[c.Intn(3)], vh}
		d.PAR = false
		d.Features["aspect"] = true
		// default (absent or spelled out) mostly; other align/slice values are drawn like the default by the
		// importer (narrow known finding C19-aspect-align-slice)
		switch c.Intn(8) {
		case 0:
			d.PARText = "xMidYMid meet"
		case 1:
			d.PARText = "xMidYMid"
		case 2, 3, 4:
			d.PARText = []string{"xMinYMin meet", "xMaxYMax", "xMinYMid meet", "xMidYMax meet", "xMidYMid slice", "xMinYMax slice"}[c.Intn(6)]
			d.Features["aspect-align-slice"] = true
		}
	}
	if d.VB != nil && (class == "viewbox-origin" || c.Chance(0.3)) {
		// any origin is ordinary since 32efa25
		d.VB[0], d.VB[1] = float64(5+c.Intn(30)), float64(5+c.Intn(30))
		if c.Bool() {
			d.VB[0] = -d.VB[0]
		}
		if c.Chance(0.3) {
			d.VB[1] = -d.VB[1]
		}
		if class == "viewbox-origin" && c.Chance(0.4) {
			// min-x (min-y) beyond the width (height): regression class of fdd9e33
			if c.Bool() {
				d.VB[0] = d.VB[2] + float64(c.Intn(50))
			} else {
				d.VB[1] = d.VB[3] + float64(c.Intn(50))
			}
		}
		d.Features["viewbox-origin"] = true
	}
	if c.Chance(0.1) && d.W != nil && d.VB != nil && class != "viewbox-origin" {
		// percentage width/height: the viewport is taken from the viewBox (100% of an undefined container)
		*d.W, *d.H = Val{K: 'D', Num: 100, Unit: "%"}, Val{K: 'D', Num: 100, Unit: "%"}
		d.VB[2], d.VB[3] = vw, vh
		d.PAR = false
		d.Features["size-percent"] = true
	}

	if d.VB != nil && (d.W != nil && d.W.Unit != "%" && d.VB[0] >= d.VB[2] || d.H != nil && d.H.Unit != "%" && d.VB[1] >= d.VB[3]) {
		// regression class (C19-viewbox-min-ge-size, repaired by 4deb0ae): with a width/height attribute, a viewBox whose min-x (min-y)
		// is not below its width (height) must not be taken for missing
		d.Features["viewbox-min-ge-size"] = true
	}
	root := &Node{Tag: "svg"}
	d.Root = root
	if c.Chance(0.2) {
		root.Attrs = append(root.Attrs, g.presAttrs(2, 0)...)
	}
	k := 1 + c.Intn(4)
	for i := 0; i < k; i++ {
		root.Kids = append(root.Kids, g.node(1))
	}

	var shapes, groups []*Node
	parent := map[*Node]*Node{}
	allNodes(root, func(n *Node, anc []*Node) {
		if len(anc) > 0 {
			parent[n] = anc[len(anc)-1]
		}
		if n.Tag == "g" {
			groups = append(groups, n)
		} else if n.Tag != "svg" {
			shapes = append(shapes, n)
		}
	}, nil)
	pickShape := func() *Node { return shapes[c.Intn(len(shapes))] }
	newID := func() string { g.ids++; return fmt.Sprintf("i%d", g.ids) }
	cls := func(n *Node, name string) {
		for i, a := range n.Attrs {
			if a.Key == "class" {
				n.Attrs[i].V.Words = append(n.Attrs[i].V.Words, name)
				return
			}
		}
		n.Attrs = append(n.Attrs, Attr{Key: "class", V: Val{K: 'W', Words: []string{name}}})
		shuffleAttrs(c, n.Attrs)
	}
	var rules []Rule
	one := func(sn ...SelNode) []Selector { return []Selector{Selector(sn)} }

	switch {
	case isCSS:
		// every reserved property appears in exactly one rule (no cascade conflicts) …
		props := []string{}
		for _, k := range styleProps {
			if g.cssProps[k] && (class == "css" || class == "css-id" || k != "fill") {
				props = append(props, k)
			}
		}
		for _, pk := range props {
			var sels []Selector
			sk := c.Intn(6)
			if class == "css-id" && len(rules) == 0 {
				sk = 2
			}
			switch sk {
			case 0: // type selector
				sels = one(SelNode{Typ: pickShape().Tag})
				c.Count("css:type")
			case 1: // class on a shape
				nm := fmt.Sprintf("c%d", len(rules))
				cls(pickShape(), nm)
				if c.Bool() {
					cls(pickShape(), nm)
				}
				sels = one(SelNode{Attrs: []AttrSel{{2, "class", nm}}})
				c.Count("css:class")
			case 2: // id on a shape
				id := newID()
				setAttr(pickShape(), "id", Val{K: 'T', Str: id}, c.Bool())
				sels = one(SelNode{Typ: []string{"", "*"}[c.Intn(2)], Attrs: []AttrSel{{1, "id", id}}})
				if c.Bool() {
					sels[0][0].Attrs[0].Op = 3 // written as #id, otherwise as [id=…]
				}
				d.Features["css-id"] = true
				c.Count("css:id")
			case 3: // class on a group: inherited by the descendants
				if len(groups) > 0 {
					nm := fmt.Sprintf("c%d", len(rules))
					cls(groups[c.Intn(len(groups))], nm)
					sels = one(SelNode{Typ: "g", Attrs: []AttrSel{{2, "class", nm}}})
					c.Count("css:group-class")
				} else {
					sels = one(SelNode{Typ: "*"})
					c.Count("css:universal")
				}
			case 4: // descendant / child combinator
				s := pickShape()
				if p := parent[s]; p != nil {
					sels = one(SelNode{Typ: p.Tag}, SelNode{Child: c.Bool(), Typ: s.Tag})
					c.Count("css:combinator")
				} else {
					sels = one(SelNode{Typ: s.Tag})
				}
			case 5: // selector list
				sels = []Selector{{SelNode{Typ: pickShape().Tag}}, {SelNode{Typ: pickShape().Tag}}}
				c.Count("css:list")
			}
			rules = append(rules, Rule{Sels: sels, Props: []Prop{{pk, g.propVal(pk)}}})
		}
		s := pickShape()
		switch class {
		case "css-order":
			// two rules of equal specificity on the element itself: the later one wins (spec and importer agree)
			cls(s, "oa")
			cls(s, "ob")
			pk := "fill"
			rules = append(rules, Rule{Sels: one(SelNode{Attrs: []AttrSel{{2, "class", "oa"}}}), Props: []Prop{{pk, g.propVal(pk)}}},
				Rule{Sels: one(SelNode{Attrs: []AttrSel{{2, "class", "ob"}}}), Props: []Prop{{pk, g.propVal(pk)}}})
		case "css-vs-style":
			pk := "fill"
			cls(s, "vs")
			rules = append(rules, Rule{Sels: one(SelNode{Attrs: []AttrSel{{2, "class", "vs"}}}), Props: []Prop{{pk, g.propVal(pk)}}})
			merged := false
			for i, a := range s.Attrs {
				if a.Key == "style" {
					s.Attrs[i].Style = append(s.Attrs[i].Style, Prop{pk, g.propVal(pk)})
					merged = true
				}
			}
			if !merged {
				s.Attrs = append(s.Attrs, Attr{Key: "style", Style: []Prop{{pk, g.propVal(pk)}}})
			}
			shuffleAttrs(c, s.Attrs)
		case "css-vs-attr":
			// a rule and a presentation attribute set the same property: the rule wins in SVG 1.1 (§6.4)
			pk := "fill"
			cls(s, "va")
			rules = append(rules, Rule{Sels: one(SelNode{Attrs: []AttrSel{{2, "class", "va"}}}), Props: []Prop{{pk, g.propVal(pk)}}})
			s.Attrs = append(s.Attrs, Attr{Key: pk, V: g.propVal(pk)})
			shuffleAttrs(c, s.Attrs)
			d.Features["css-vs-attr"] = true
		case "css-specificity":
			// a class rule before a type rule: the class rule wins whatever the order
			pk := "fill"
			cls(s, "sp")
			rules = append(rules, Rule{Sels: one(SelNode{Attrs: []AttrSel{{2, "class", "sp"}}}), Props: []Prop{{pk, g.propVal(pk)}}},
				Rule{Sels: one(SelNode{Typ: s.Tag}), Props: []Prop{{pk, g.propVal(pk)}}})
			d.Features["css-specificity"] = true
		case "css-on-ancestor":
			// rule on an outer group, the property is overridden on an inner group by a second, earlier rule:
			// descendants inherit from the inner group
			pk := "fill"
			inner := &Node{Tag: "g", Kids: []*Node{g.shape()}}
			outer := &Node{Tag: "g", Kids: []*Node{inner}}
			cls(outer, "anc")
			cls(inner, "inn")
			root.Kids = append(root.Kids, outer)
			rules = append(rules, Rule{Sels: one(SelNode{Attrs: []AttrSel{{2, "class", "inn"}}}), Props: []Prop{{pk, g.propVal(pk)}}},
				Rule{Sels: one(SelNode{Attrs: []AttrSel{{2, "class", "anc"}}}), Props: []Prop{{pk, g.propVal(pk)}}})
			d.Features["css-on-ancestor"] = true
		}
		root.Kids = append([]*Node{{Tag: "style", Rules: rules}}, root.Kids...)
	case class == "style-after-attr" || class == "style-before-attr":
		s := pickShape()
		pk := []string{"fill", "stroke", "stroke-width"}[c.Intn(3)]
		removeAttr(s, pk)
		a1 := Attr{Key: pk, V: g.propVal(pk)}
		a2 := Attr{Key: "style", Style: []Prop{{pk, g.propVal(pk)}}}
		// keep a single style attribute
		for _, a := range s.Attrs {
			if a.Key == "style" {
				a2.Style = append(a2.Style, a.Style...)
			}
		}
		removeStyle := s.Attrs[:0]
		for _, a := range s.Attrs {
			if a.Key != "style" {
				removeStyle = append(removeStyle, a)
			}
		}
		s.Attrs = removeStyle
		if class == "style-after-attr" {
			s.Attrs = append(s.Attrs, a1, a2)
		} else {
			s.Attrs = append(s.Attrs, a2, a1)
			d.Features["style-before-attr"] = true
		}
	case class == "bare-group":
		// attribute-less containers styled only by the style sheet (type / descendant / universal
		// selectors), nested, each followed by sibling shapes that must keep the outer paint: the element
		// with zero attributes still needs its own saved state (state_balanced)
		d.Probes = map[*Node]bool{}
		probe := func() *Node {
			n := g.shape()
			if c.Chance(0.3) {
				n.Attrs = append(n.Attrs, Attr{Key: "transform", V: g.transform(false)})
			}
			d.Probes[n] = true
			return n
		}
		inner := func() *Node { // a shape inside a container; may declare properties no rule sets
			n := g.shape()
			if c.Chance(0.4) {
				n.Attrs = append(n.Attrs, Attr{Key: "stroke-linejoin", V: g.propVal("stroke-linejoin")})
			}
			return n
		}
		var container func(depth int) *Node
		container = func(depth int) *Node {
			n := &Node{Tag: "g"}
			if c.Chance(0.2) {
				n.Attrs = []Attr{{Key: "transform", V: g.transform(false)}} // not bare: the other branch
				c.Count("bare-group:with-transform")
			} else {
				c.Count(fmt.Sprintf("bare-group:bare-depth-%d", depth))
			}
			if c.Chance(0.7) {
				n.Kids = append(n.Kids, inner())
			}
			if depth < 3 && c.Chance(0.6) {
				n.Kids = append(n.Kids, container(depth+1))
				n.Kids = append(n.Kids, probe()) // after the nested container, inside this one
			}
			if len(n.Kids) == 0 || c.Chance(0.3) {
				n.Kids = append(n.Kids, inner())
			}
			return n
		}
		variant := c.Intn(6)
		sel := func(sn ...SelNode) []Selector { return []Selector{Selector(sn)} }
		G, ANY := SelNode{Typ: "g"}, SelNode{Typ: "*"}
		var rs []Rule
		switch variant {
		case 0:
			rs = []Rule{{Sels: sel(G), Props: []Prop{{"fill", g.colourVal()}}}}
		case 1:
			rs = []Rule{{Sels: sel(G), Props: []Prop{{"fill", g.colourVal()}}}, {Sels: sel(G, G), Props: []Prop{{"stroke", g.colourVal()}}}}
		case 2:
			rs = []Rule{{Sels: sel(G), Props: []Prop{{"stroke", g.colourVal()}, {"stroke-width", Val{K: 'D', Num: float64(2 + c.Intn(3))}}}}}
		case 3:
			rs = []Rule{{Sels: sel(G, ANY), Props: []Prop{{"fill", g.colourVal()}}}}
		case 4:
			rs = []Rule{{Sels: sel(ANY), Props: []Prop{{"stroke-linecap", kw("round")}}}, {Sels: sel(G), Props: []Prop{{"fill", g.colourVal()}}}}
		case 5:
			rs = []Rule{{Sels: sel(G, SelNode{Child: true, Typ: "g"}), Props: []Prop{{"fill", g.colourVal()}}}, {Sels: sel(G), Props: []Prop{{"stroke", g.colourVal()}}}}
		}
		c.Count(fmt.Sprintf("bare-group:variant-%d", variant))
		root.Attrs = nil
		if c.Chance(0.3) {
			root.Attrs = []Attr{{Key: "fill", V: g.colourVal()}} // the outer paint the probes must keep
		}
		kids := []*Node{{Tag: "style", Rules: rs}}
		if c.Bool() {
			kids = append(kids, probe())
		}
		kids = append(kids, container(1), probe())
		if c.Chance(0.4) {
			kids = append(kids, container(1), probe())
		}
		root.Kids = kids
	case class == "xform-comma":
		// transform functions separated by a comma (SVG 1.1 7.6: comma-wsp between transforms)
		s := pickShape()
		v := g.transform(false)
		for len(v.Xf) < 2 {
			v = g.transform(false)
		}
		v.FSep = []string{",", ", ", " , "}[c.Intn(3)]
		forceAttr(s, "transform", v, c.Bool())
		d.Features["xform-comma"] = true
	case class == "fill-rule":
		s := pickShape()
		forceAttr(s, "fill-rule", kw("evenodd"), c.Bool())
		d.Features["fill-rule"] = true
	case class == "miterlimit":
		s := pickShape()
		lim := Val{K: 'D', Num: float64(2 + c.Intn(9))}
		if c.Bool() {
			// limit first, then the join: the importer applies it
			forceAttr(s, "stroke-miterlimit", lim, true)
			removeAttr(s, "stroke-linejoin")
			s.Attrs = append(s.Attrs, Attr{Key: "stroke-linejoin", V: kw("miter")})
			d.Features["miterlimit-then-join"] = true
		} else {
			removeAttr(s, "stroke-linejoin")
			forceAttr(s, "stroke-miterlimit", lim, false)
			d.Features["miterlimit"] = true
		}
		forceAttr(s, "stroke", g.colourVal(), true)
	case class == "err":
		s := pickShape()
		if c.Bool() {
			setAttr(s, "stroke-width", Val{K: 'D', Num: 2, Unit: []string{"em", "ex", "foo"}[c.Intn(3)]}, false)
		} else {
			setAttr(s, "transform", Val{K: 'X', Xf: []XFn{{"translate", []float64{1, 2, 3}, ","}}}, false)
		}
		d.Features["err"] = true
	}
	if d.Features["dash"] {
		// make sure a dashed stroke is really drawn somewhere
		s := pickShape()
		forceAttr(s, "stroke", g.colourVal(), c.Bool())
		forceAttr(s, "stroke-dasharray", Val{K: 'N', Sep: " ", Nums: []float64{float64(1 + c.Intn(6)), float64(7 + c.Intn(4))}}, c.Bool())
		if class == "dash-sw" {
			forceAttr(s, "stroke-width", Val{K: 'D', Num: []float64{2, 3, 0.5, 4}[c.Intn(4)]}, c.Bool())
			d.Features["dash-sw"] = true
			if c.Bool() {
				// a short outline whose first dash is shorter than the path, but not in multiples of the stroke
				// width (or the other way round): Context.DrawPath's cover shortcut must decide in the units
				// the renderers use (regression class of 7030ab4)
				w, h := float64(3+c.Intn(4)), float64(3+c.Intn(4))
				per := 2 * (w + h)
				sw := []float64{0.25, 0.5, 2, 4}[c.Intn(4)]
				d0 := per * []float64{0.4, 0.6}[c.Intn(2)]
				if sw > 1 {
					d0 = per * 1.5 // longer than the path in user units, shorter in width multiples
				}
				d0 = float64(int(d0*4)) / 4
				r := &Node{Tag: "rect", Attrs: []Attr{
					{Key: "x", V: Val{K: 'D', Num: g.coord()}}, {Key: "y", V: Val{K: 'D', Num: g.coord()}},
					{Key: "width", V: Val{K: 'D', Num: w}}, {Key: "height", V: Val{K: 'D', Num: h}},
					{Key: "fill", V: kw("none")}, {Key: "stroke", V: g.colourVal()},
					{Key: "stroke-width", V: Val{K: 'D', Num: sw}},
					{Key: "stroke-dasharray", V: Val{K: 'N', Sep: " ", Nums: []float64{d0, float64(1 + c.Intn(5))}}}}}
				shuffleAttrs(c, r.Attrs)
				root.Kids = append(root.Kids, r)
				c.Count("dash-sw:cover-decision")
			}
		}
	}
	if class == "skew" {
		has := false
		allNodes(root, func(n *Node, _ []*Node) {
			for _, a := range n.Attrs {
				if a.Key == "transform" {
					for _, f := range a.V.Xf {
						if strings.HasPrefix(f.Name, "skew") {
							has = true
						}
					}
				}
			}
		}, nil)
		if !has {
			setAttr(pickShape(), "transform", g.transform(true), false)
		}
		d.Features["skew"] = true
	}
	return d
}
