package main

// Lexed SVG documents: the generator builds these trees, `SVG()` serialises them to the text handed to
// the real canvas.ParseSVG, `Proto()` to the protocol line for the Lean model (grammar below), and
// spec.go evaluates them according to SVG 1.1.
//
//	DOC   := "DOC" nlens len* optdim optdim optvb nattrs attr* nkids tree*
//	tree  := "E" tag nattrs attr* nkids tree* | "S" nrules rule*
//	attr  := "A" key val | "Y" nprops (key val)*
//	val   := "D" num unit | "K" kw | "C" r g b a | "N" n num* | "X" n (name n num*)* | "P" n cmd* | "T" str | "W" n str*
//	rule  := nsel (nnodes (child typ nattrsel (op attr val)*)*)* nprops (key val)*
//
// floats are 16 hex digits, the empty string is "_".

import (
	"fmt"
	"strconv"
	"strings"

	"github.com/tdewolff/canvas"
	"verifharness/hc"
)

type XFn struct {
	Name string // as written (any case)
	Args []float64
	Sep  string
}

type Val struct {
	K     byte
	Num   float64
	Unit  string
	Kw    string
	Col   [4]uint8 // premultiplied RGBA the colour text denotes (from the generator's own table)
	Text  string   // colour source text
	Nums  []float64
	Sep   string
	Xf    []XFn
	FSep  string // separator between transform functions ("" = one space)
	D     string // path data text
	Str   string
	Words []string
}

type Prop struct {
	Key string
	V   Val
}

type Attr struct {
	Key   string
	V     Val
	Style []Prop // Key == "style"
}

type AttrSel struct {
	Op        int // 0 presence, 1 '=', 2 '~'
	Attr, Val string
}

type SelNode struct {
	Child bool
	Typ   string
	Attrs []AttrSel
}

type Selector []SelNode

type Rule struct {
	Sels  []Selector
	Props []Prop
}

type Node struct {
	Tag   string
	Attrs []Attr
	Kids  []*Node
	Rules []Rule // Tag == "style"
}

type Doc struct {
	W, H *Val // dimension values or nil
	VB   *[4]float64
	PAR  bool   // preserveAspectRatio="none" is written
	PARText string // any other preserveAspectRatio value ("" = attribute absent)
	Root *Node
	// generator bookkeeping
	Features map[string]bool
	Class    string
	// shapes that follow a closed container and declare no paint themselves: their paint shows whether
	// the container's state leaked (judged under kind "state-leak-after-element:…")
	Probes map[*Node]bool
}

func num(f float64) string { return strconv.FormatFloat(f, 'f', -1, 64) }

func nums(fs []float64, sep string) string {
	s := make([]string, len(fs))
	for i, f := range fs {
		s[i] = num(f)
	}
	return strings.Join(s, sep)
}

func (v Val) Text_() string {
	switch v.K {
	case 'D':
		return num(v.Num) + v.Unit
	case 'K':
		return v.Kw
	case 'C':
		return v.Text
	case 'N':
		return nums(v.Nums, v.Sep)
	case 'X':
		var sb strings.Builder
		for i, f := range v.Xf {
			if i > 0 {
				if v.FSep != "" {
					sb.WriteString(v.FSep)
				} else {
					sb.WriteByte(' ')
				}
			}
			sb.WriteString(f.Name + "(" + nums(f.Args, f.Sep) + ")")
		}
		return sb.String()
	case 'P':
		return v.D
	case 'T':
		return v.Str
	case 'W':
		return strings.Join(v.Words, " ")
	}
	return ""
}

func propsText(ps []Prop) string {
	s := make([]string, len(ps))
	for i, p := range ps {
		s[i] = p.Key + ":" + p.V.Text_()
	}
	return strings.Join(s, ";")
}

func (s Selector) Text() string {
	var sb strings.Builder
	for i, n := range s {
		if i > 0 {
			if n.Child {
				sb.WriteByte('>')
			} else {
				sb.WriteByte(' ')
			}
		}
		sb.WriteString(n.Typ)
		for _, a := range n.Attrs {
			switch {
			case a.Op == 3 && a.Attr == "id":
				sb.WriteString("#" + a.Val)
			case a.Op == 1:
				sb.WriteString("[" + a.Attr + "=" + a.Val + "]")
			case a.Op == 2 && a.Attr == "class":
				sb.WriteString("." + a.Val)
			default:
				sb.WriteString("[" + a.Attr + "]")
			}
		}
	}
	return sb.String()
}

func (n *Node) svg(sb *strings.Builder, head string) {
	if n.Tag == "style" {
		sb.WriteString("<style>" + rulesText(n.Rules))
		sb.WriteString("</style>")
		return
	}
	sb.WriteString("<" + n.Tag + head)
	for _, a := range n.Attrs {
		if a.Key == "style" {
			sb.WriteString(` style="` + propsText(a.Style) + `"`)
		} else {
			sb.WriteString(" " + a.Key + `="` + a.V.Text_() + `"`)
		}
	}
	if len(n.Kids) == 0 {
		sb.WriteString("/>")
		return
	}
	sb.WriteString(">")
	for _, k := range n.Kids {
		k.svg(sb, "")
	}
	sb.WriteString("</" + n.Tag + ">")
}

func (d *Doc) SVG() string {
	var sb strings.Builder
	head := ` xmlns="http://www.w3.org/2000/svg"`
	if d.W != nil {
		head += ` width="` + d.W.Text_() + `"`
	}
	if d.H != nil {
		head += ` height="` + d.H.Text_() + `"`
	}
	if d.VB != nil {
		head += ` viewBox="` + nums(d.VB[:], " ") + `"`
	}
	if d.PAR {
		head += ` preserveAspectRatio="none"`
	} else if d.PARText != "" {
		head += ` preserveAspectRatio="` + d.PARText + `"`
	}
	d.Root.svg(&sb, head)
	return sb.String()
}

// ---- protocol --------------------------------------------------------------------------------------

func tok(s string) string {
	if s == "" {
		return "_"
	}
	return s
}

// pathTokens prints a real path as model commands.
func pathTokens(p *canvas.Path) (int, string) {
	segs, err := hc.Decode(p.Data())
	if err != nil {
		return 0, "BAD"
	}
	var sb strings.Builder
	for i, s := range segs {
		if i > 0 {
			sb.WriteByte(' ')
		}
		switch s.Kind {
		case 'M':
			sb.WriteString("M " + hc.Hs(s.End.X, s.End.Y))
		case 'L':
			sb.WriteString("L " + hc.Hs(s.End.X, s.End.Y))
		case 'Q':
			sb.WriteString("Q " + hc.Hs(s.P1.X, s.P1.Y, s.End.X, s.End.Y))
		case 'C':
			sb.WriteString("C " + hc.Hs(s.P1.X, s.P1.Y, s.P2.X, s.P2.Y, s.End.X, s.End.Y))
		case 'A':
			sb.WriteString("A " + hc.Hs(s.Rx, s.Ry, s.Phi) + " " + hc.B(s.Large) + " " + hc.B(s.Sweep) + " " + hc.Hs(s.End.X, s.End.Y))
		case 'Z':
			sb.WriteString("z " + hc.Hs(s.End.X, s.End.Y))
		}
	}
	return len(segs), sb.String()
}

func hexList(fs []float64) string {
	s := fmt.Sprint(len(fs))
	for _, f := range fs {
		s += " " + hc.H(f)
	}
	return s
}

func (v Val) Proto() string {
	switch v.K {
	case 'D':
		return "D " + hc.H(v.Num) + " " + tok(strings.ToLower(v.Unit))
	case 'K':
		return "K " + tok(v.Kw)
	case 'C':
		return fmt.Sprintf("C %d %d %d %d", v.Col[0], v.Col[1], v.Col[2], v.Col[3])
	case 'N':
		return "N " + hexList(v.Nums)
	case 'X':
		s := fmt.Sprintf("X %d", len(v.Xf))
		for i, f := range v.Xf {
			// the name as parseTransform lexes it: the text between ')' and '(' trimmed and lower-cased
			name := f.Name
			if i > 0 {
				name = strings.Trim(v.FSep+name, " \t\n\r,") // commas between transforms are separators (889f8da)
			}
			s += " " + strings.ReplaceAll(strings.ToLower(name), " ", "?") + " " + hexList(f.Args)
		}
		return s
	case 'P':
		// the value of ParseSVGPath (property C11) is an input of the model
		p, err := canvas.ParseSVGPath(v.D)
		if err != nil {
			return "P 0"
		}
		n, s := pathTokens(p)
		if n == 0 {
			return "P 0"
		}
		return fmt.Sprintf("P %d %s", n, s)
	case 'T':
		return "T " + tok(v.Str)
	case 'W':
		s := fmt.Sprintf("W %d", len(v.Words))
		for _, w := range v.Words {
			s += " " + tok(w)
		}
		return s
	}
	return "K _"
}

func propsProto(ps []Prop) string {
	s := fmt.Sprint(len(ps))
	for _, p := range ps {
		s += " " + p.Key + " " + p.V.Proto()
	}
	return s
}

func attrsProto(as []Attr) string {
	s := fmt.Sprint(len(as))
	for _, a := range as {
		if a.Key == "style" {
			s += " Y " + lexedProps(canvas.VerifParseStyleAttribute(propsText(a.Style)), a.Style)
		} else {
			s += " A " + a.Key + " " + a.V.Proto()
		}
	}
	return s
}

// lexedProps maps the (key, value text) pairs the real CSS lexing layer produced back to the lexed
// values of the generator (same position, same key, same text); anything else is passed as a keyword.
func lexedProps(real [][2]string, gen []Prop) string {
	s := fmt.Sprint(len(real))
	for i, kv := range real {
		if i < len(gen) && len(real) == len(gen) && gen[i].Key == kv[0] && gen[i].V.Text_() == kv[1] {
			s += " " + kv[0] + " " + gen[i].V.Proto()
		} else {
			LexMismatch++
			s += " " + tok(strings.ReplaceAll(kv[0], " ", "?")) + " K " + tok(strings.ReplaceAll(kv[1], " ", "?"))
		}
	}
	return s
}

var LexMismatch int

func rulesText(rules []Rule) string {
	var sb strings.Builder
	for _, r := range rules {
		ss := make([]string, len(r.Sels))
		for i, s := range r.Sels {
			ss[i] = s.Text()
		}
		sb.WriteString(strings.Join(ss, ",") + "{" + propsText(r.Props) + "}")
	}
	return sb.String()
}

func (n *Node) proto(sb *strings.Builder) {
	if n.Tag == "style" {
		// the rules as the real CSS lexing layer (parseStyle) delivers them
		real := canvas.VerifParseStyle([]byte(rulesText(n.Rules)))
		fmt.Fprintf(sb, " S %d", len(real))
		for ri, r := range real {
			fmt.Fprintf(sb, " %d", len(r.Selectors))
			for _, s := range r.Selectors {
				fmt.Fprintf(sb, " %d", len(s))
				for _, nd := range s {
					fmt.Fprintf(sb, " %s %s %d", hc.B(nd.Op == '>'), tok(nd.Typ), len(nd.Attrs))
					for _, a := range nd.Attrs {
						op := 9
						switch a.Op {
						case 0:
							op = 0
						case '=':
							op = 1
						case '~':
							op = 2
						case '|':
							op = 3
						}
						fmt.Fprintf(sb, " %d %s %s", op, tok(a.Attr), tok(a.Val))
					}
				}
			}
			var gen []Prop
			if len(real) == len(n.Rules) {
				gen = n.Rules[ri].Props
			}
			sb.WriteString(" " + lexedProps(r.Props, gen))
		}
		return
	}
	sb.WriteString(" E " + n.Tag + " " + attrsProto(n.Attrs))
	fmt.Fprintf(sb, " %d", len(n.Kids))
	for _, k := range n.Kids {
		k.proto(sb)
	}
}

func optDim(v *Val) string {
	if v == nil {
		return "-"
	}
	return "D " + hc.H(v.Num) + " " + tok(strings.ToLower(v.Unit))
}

func (d *Doc) Proto(lens []float64) string {
	var sb strings.Builder
	sb.WriteString("DOC " + hexList(lens) + " " + optDim(d.W) + " " + optDim(d.H))
	if d.VB == nil {
		sb.WriteString(" -")
	} else {
		sb.WriteString(" V " + hc.Hs(d.VB[:]...))
	}
	// the preserveAspectRatio attribute as written (spaces cannot travel in a token)
	par := d.PARText
	if d.PAR {
		par = "none"
	}
	sb.WriteString(" " + tok(strings.ReplaceAll(par, " ", "+")))
	sb.WriteString(" " + attrsProto(d.Root.Attrs))
	fmt.Fprintf(&sb, " %d", len(d.Root.Kids))
	for _, k := range d.Root.Kids {
		k.proto(&sb)
	}
	return sb.String()
}
