package main

import (
	"bytes"
	"fmt"
	"image/color"
	"math"

	"github.com/tdewolff/canvas"
	"github.com/tdewolff/canvas/renderers/svg"
	"verifharness/hc"
)

// outline of a recorded layer in canvas-normalised coordinates (x/W, y/H), densely sampled, plus
// the images of the segment end points
func recOutline(l RLayer, W, H float64) (subs [][]P2, verts []P2, err error) {
	segs, err := hc.Decode(l.Path.Data())
	if err != nil {
		return nil, nil, err
	}
	img := func(u P2) P2 {
		q := l.M.Dot(canvas.Point{X: u.X, Y: u.Y})
		return P2{q.X / W, q.Y / H}
	}
	for _, sub := range hc.Subpaths(segs) {
		var pl []P2
		for _, sg := range sub {
			if sg.Kind == 'M' {
				pl = append(pl, img(sg.End))
				verts = append(verts, img(sg.End))
				continue
			}
			n := 8
			if sg.Kind == 'A' {
				n = 2 * curveN
			} else if sg.Kind != 'L' && sg.Kind != 'Z' {
				n = bezN
			}
			for k := 1; k <= n; k++ {
				pl = append(pl, img(sg.At(float64(k)/float64(n))))
			}
			verts = append(verts, img(sg.End))
		}
		if len(pl) > 1 { // a lone MoveTo paints nothing
			subs = append(subs, pl)
		}
	}
	return subs, verts, nil
}

func hausdorff(a, b [][]P2) float64 {
	worst := 0.0
	dir := func(from, to [][]P2) {
		for _, f := range from {
			for k := 0; k < len(f); k += 3 {
				best := math.Inf(1)
				for _, t := range to {
					if d := polyDist(f[k], t); d < best {
						best = d
					}
				}
				worst = math.Max(worst, best)
			}
		}
	}
	dir(a, b)
	dir(b, a)
	return worst
}

// backtracks: two consecutive straight segments in opposite directions. The path builder's LineTo
// merges such a pair when re-reading (property C10's builder, not the importer), so they are not generated.
func backtracks(p *canvas.Path) bool {
	segs, err := hc.Decode(p.Data())
	if err != nil {
		return true
	}
	for i := 1; i < len(segs); i++ {
		a, b := segs[i-1], segs[i]
		if (a.Kind == 'L') && (b.Kind == 'L' || b.Kind == 'Z') {
			da, db := a.End.Sub(a.P0), b.End.Sub(b.P0)
			if math.Abs(da.Cross(db)) <= 1e-9*da.Len()*db.Len() && da.Dot(db) < 0 {
				return true
			}
		}
	}
	return false
}

// roundTrip: a path drawing rendered by the library's own SVG back-end and parsed back must be an
// equivalent drawing: same size, same geometry within 10^-Precision, same paint.
func roundTrip(c *hc.Ctx) {
	W, H := float64(40+c.Intn(160)), float64(40+c.Intn(160))
	cv := canvas.New(W, H)
	ctx := canvas.NewContext(cv)
	cols := []color.RGBA{canvas.Red, canvas.Blue, canvas.Green, canvas.Black, canvas.Orange, {10, 20, 30, 255}}
	n := 1 + c.Intn(4)
	feats := map[string]bool{}
	for i := 0; i < n; i++ {
		ctx.ResetStyle()
		ctx.ResetView()
		var p *canvas.Path
		switch c.Intn(7) {
		case 0:
			p = canvas.Ellipse(float64(2+c.Intn(20)), float64(2+c.Intn(20)))
		case 1:
			p = canvas.RoundedRectangle(float64(10+c.Intn(30)), float64(10+c.Intn(30)), float64(1+c.Intn(5)))
		default:
			// (arcs with radii at the correction threshold amplify the printed precision: not generated)
			p = c.GenPath([]string{"L", "LQC", "LQC", "LZ"}[c.Intn(4)], 4, 2)
		}
		if p.Empty() {
			c.Count("roundtrip-skip:empty")
			continue
		}
		if backtracks(p) {
			c.Count("roundtrip:backtracking-path") // kept since the LineTo reversal merge was fixed (219108c)
		}
		if c.Chance(0.8) {
			ctx.SetFillColor(cols[c.Intn(len(cols))])
		} else {
			ctx.SetFillColor(canvas.Transparent)
		}
		if c.Chance(0.12) {
			ctx.SetFillRule(canvas.EvenOdd)
			feats["evenodd"] = true
		}
		if c.Chance(0.6) {
			ctx.SetStrokeColor(cols[c.Intn(len(cols))])
			w := []float64{1, 1, 0.5, 2, 3}[c.Intn(5)]
			ctx.SetStrokeWidth(w)
			ctx.SetStrokeCapper([]canvas.Capper{canvas.ButtCap, canvas.RoundCap, canvas.SquareCap}[c.Intn(3)])
			ctx.SetStrokeJoiner([]canvas.Joiner{canvas.MiterJoin, canvas.BevelJoin, canvas.RoundJoin}[c.Intn(3)])
			if c.Chance(0.4) {
				ctx.SetDashes(0, float64(1+c.Intn(4)), float64(1+c.Intn(3)))
				feats["dash"] = true
				if w != 1 {
					feats["dash-sw"] = true
				}
			}
		}
		if c.Chance(0.5) {
			ctx.SetView(canvas.Identity.Translate(float64(c.Intn(40)), float64(c.Intn(40))).Rotate(float64(c.Intn(24) * 15)).Scale(1, 1))
			feats["view"] = true
		}
		ctx.DrawPath(float64(c.Intn(30)), float64(c.Intn(30)), p)
	}
	rec0 := &Recorder{W: W, H: H}
	cv.RenderTo(rec0)
	if len(rec0.Layers) == 0 {
		c.Count("roundtrip-skip:empty")
		return
	}
	var buf bytes.Buffer
	msg := hc.Try(func() {
		r := svg.New(&buf, W, H, nil)
		cv.RenderTo(r)
		r.Close()
	})
	if msg != "" {
		c.Count("roundtrip-skip:writer-panic")
		return
	}
	text := buf.String()
	c.Evals++
	c.Count("roundtrip")
	for f := range feats {
		c.Count("roundtrip-feature:" + f)
	}
	replay := map[string]any{"svg": text}
	p := parse(text)
	if p.Panic != "" || p.C == nil || p.Err != nil {
		fail(c, "roundtrip-parse", fmt.Sprintf("the library's own SVG output is not read back: panic=%q err=%v", p.Panic, p.Err), replay)
		return
	}
	c.Distinct(text)
	near := func(a, b, rel float64) bool { return math.Abs(a-b) <= rel*(1+math.Abs(b)) }
	if !near(p.C.W, W, 1e-7) || !near(p.C.H, H, 1e-7) {
		kind := "roundtrip-size"
		if near(p.C.W, W*96/25.4, 1e-7) && near(p.C.H, H*96/25.4, 1e-7) {
			kind = "roundtrip-size:px-as-mm"
		}
		fail(c, kind, fmt.Sprintf("a %v x %v mm drawing is read back as %v x %v mm", W, H, p.C.W, p.C.H), replay)
	}
	var back []RLayer
	for _, l := range p.Rec.Layers {
		if !l.Path.Empty() {
			back = append(back, l)
		}
	}
	if len(back) != len(rec0.Layers) {
		fail(c, "roundtrip-layer-count", fmt.Sprintf("%d paths drawn, %d read back", len(rec0.Layers), len(back)), replay)
		return
	}
	for i, a := range rec0.Layers {
		b := back[i]
		sa, va, e1 := recOutline(a, W, H)
		sb, vb, e2 := recOutline(b, p.C.W, p.C.H)
		if e1 != nil || e2 != nil {
			continue
		}
		ext := 0.0
		for _, s := range sa {
			for _, q := range s {
				ext = math.Max(ext, q.Dist(s[0]))
			}
		}
		// arcs are written in end-point form: half ellipses are ill-conditioned (error ~ sqrt of the printed precision)
		if d := hausdorff(sa, sb); d > 1e-6+2e-3*ext {
			fail(c, "roundtrip-geometry", fmt.Sprintf("path %d: outlines differ by %.3g of the canvas", i, d), replay)
			continue
		}
		// end points of the segments survive within 10^-Precision (relative to the coordinates, in mm)
		vtol := 20 * math.Pow(10, -float64(canvas.Precision)) * (1 + 300/math.Min(W, H))
		for _, v := range va {
			best := math.Inf(1)
			for _, u := range vb {
				best = math.Min(best, v.Dist(u))
			}
			if best > vtol {
				fail(c, "roundtrip-vertex", fmt.Sprintf("path %d: vertex (%.9g,%.9g) moved by %.3g of the canvas (tolerance %.3g)", i, v.X, v.Y, best, vtol), replay)
				break
			}
		}
		c.Count("roundtrip-geometry-ok")
		if a.Style.HasFill() != b.Style.HasFill() || a.Style.HasFill() && a.Style.Fill.Color != b.Style.Fill.Color {
			fail(c, "roundtrip-fill", fmt.Sprintf("path %d: fill %v read back as %v", i, a.Style.Fill.Color, b.Style.Fill.Color), replay)
		}
		if a.Style.HasFill() && a.Style.FillRule != b.Style.FillRule {
			fail(c, "roundtrip-fill-rule:ignored", fmt.Sprintf("path %d: fill rule %v read back as %v", i, a.Style.FillRule, b.Style.FillRule), replay)
		}
		if a.Style.HasStroke() != b.Style.HasStroke() {
			fail(c, "roundtrip-stroke", fmt.Sprintf("path %d: stroked=%v read back as %v", i, a.Style.HasStroke(), b.Style.HasStroke()), replay)
			continue
		}
		if !a.Style.HasStroke() {
			continue
		}
		scale := func(l RLayer, w float64) float64 { return math.Sqrt(math.Abs(l.M.Det())) / w }
		wa, wb := a.Style.StrokeWidth*scale(a, W), b.Style.StrokeWidth*scale(b, p.C.W)
		if a.Style.Stroke.Color != b.Style.Stroke.Color || !near(wa, wb, 1e-6) ||
			capName(a.Style.StrokeCapper) != capName(b.Style.StrokeCapper) {
			fail(c, "roundtrip-stroke", fmt.Sprintf("path %d: stroke %v width %v cap %s read back as %v width %v cap %s", i, a.Style.Stroke.Color, wa*W,
				capName(a.Style.StrokeCapper), b.Style.Stroke.Color, wb*W, capName(b.Style.StrokeCapper)), replay)
		}
		ja, la := joinName(a.Style.StrokeJoiner)
		jb, lb := joinName(b.Style.StrokeJoiner)
		if ja != jb || ja == "miter" && !near(la, lb, 1e-6) {
			fail(c, "roundtrip-join", fmt.Sprintf("path %d: join %s/%v read back as %s/%v", i, ja, la, jb, lb), replay)
		}
		if len(a.Style.Dashes) == 0 && len(b.Style.Dashes) == 0 {
			continue
		}
		// effective dash lengths in units of the canvas width, compared as on/off function of arc length
		eff := func(l RLayer, w float64) []float64 {
			out := make([]float64, len(l.Style.Dashes))
			for k, d := range l.Style.Dashes {
				out[k] = d * l.Style.StrokeWidth * scale(l, w)
			}
			return out
		}
		ea, eb := eff(a, W), eff(b, p.C.W)
		length := a.Path.Length() * scale(a, W)
		cmp := func(x, y []float64) bool {
			for k := 0; k < 60; k++ {
				t := length * (float64(k) + 0.37) / 60
				on1, m1 := dashOn(x, 0, t)
				on2, m2 := dashOn(y, 0, t)
				if m1 < 1e-7 || m2 < 1e-7 {
					continue
				}
				if on1 != on2 {
					return false
				}
			}
			return true
		}
		if !cmp(ea, eb) {
			kind := "roundtrip-dash"
			wr := a.Style.StrokeWidth * math.Sqrt(math.Abs(a.M.Det())) // the stroke-width the writer printed (user units)
			sc := make([]float64, len(ea))
			for k := range ea {
				sc[k] = ea[k] * wr
			}
			if wr != 1 && cmp(sc, eb) {
				kind = "roundtrip-dash:scaled-by-stroke-width"
			}
			fail(c, kind, fmt.Sprintf("path %d: dashes %v x width %v read back as %v x width %v", i, a.Style.Dashes, wa*W, b.Style.Dashes, wb*W), replay)
		} else {
			c.Count("roundtrip-dash-ok")
		}
	}
}

// unitDocs: every unit of the table, on a shape coordinate and on the document size
func unitDocs(c *hc.Ctx) {
	units := []string{"", "px", "mm", "cm", "in", "pt", "pc", "Q", "MM", "Pt", "deg", "grad", "rad", "turn", "%", "em"}
	for _, u := range units {
		for _, v := range []float64{1, 2.5, 12} {
			d := &Doc{Features: map[string]bool{"unit:" + u: true}, Class: "units"}
			w, h := Val{K: 'D', Num: 500}, Val{K: 'D', Num: 400}
			d.W, d.H = &w, &h
			switch u {
			case "deg", "grad", "rad", "turn", "%", "em", "Q":
				// not lengths of SVG 1.1 (angles; percentages need the viewport rules; em the font): the
				// importer's table is only compared with the model here
				d.Features["err"] = true
			}
			r := &Node{Tag: "rect", Attrs: []Attr{
				{Key: "x", V: Val{K: 'D', Num: v, Unit: u}}, {Key: "y", V: Val{K: 'D', Num: 2 * v, Unit: u}},
				{Key: "width", V: Val{K: 'D', Num: v + 3, Unit: u}}, {Key: "height", V: Val{K: 'D', Num: 7}},
				{Key: "stroke", V: Val{K: 'C', Col: [4]uint8{255, 0, 0, 255}, Text: "red"}}, {Key: "stroke-width", V: Val{K: 'D', Num: v, Unit: u}}}}
			d.Root = &Node{Tag: "svg", Kids: []*Node{r}}
			oneDoc(c, d)
			if u != "%" && u != "deg" && u != "grad" && u != "rad" && u != "turn" {
				d2 := &Doc{Features: map[string]bool{"unit:" + u: true}, Class: "units-size"}
				w2, h2 := Val{K: 'D', Num: v * 4, Unit: u}, Val{K: 'D', Num: v * 3, Unit: u}
				d2.W, d2.H = &w2, &h2
				if u == "em" || u == "Q" {
					d2.Features["err"] = true
				}
				d2.Root = &Node{Tag: "svg", Kids: []*Node{{Tag: "circle", Attrs: []Attr{{Key: "cx", V: Val{K: 'D', Num: 1}}, {Key: "r", V: Val{K: 'D', Num: 1}}}}}}
				oneDoc(c, d2)
			}
		}
	}
}
