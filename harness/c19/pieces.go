package main

// Direct correspondence of single functions of the semantic layer (through the verif hooks): transform
// lists with every arity, the dimension table on random numbers, and cssSelector.AppliesTo on random
// selectors and element stacks. The Lean model answers the same questions (`XF`, `DIM`, `SEL` lines).

import (
	"fmt"
	"strings"

	"github.com/tdewolff/canvas"
	"verifharness/hc"
)

func pieces(c *hc.Ctx) {
	n := c.N
	// ---- parseTransform ------------------------------------------------------------------------------
	names := []string{"matrix", "translate", "scale", "rotate", "skewX", "skewY", "Translate", "SCALE", "foo", "rotateX", ""}
	arity := map[string][]int{"matrix": {6}, "translate": {1, 2}, "scale": {1, 2}, "rotate": {1, 3}, "skewx": {1}, "skewy": {1}}
	for it := 0; it < n; it++ {
		k := c.Intn(5)
		var text, proto strings.Builder
		fmt.Fprintf(&proto, "XF %d", k)
		for i := 0; i < k; i++ {
			name := names[c.Intn(len(names))]
			na := c.Intn(8)
			if ok := arity[strings.ToLower(name)]; ok != nil && c.Chance(0.7) {
				na = ok[c.Intn(len(ok))]
			}
			args := make([]float64, na)
			for j := range args {
				args[j] = []float64{0, 1, -1, 0.5, 2, 30, 45, 90, -120, 7.25, 100, 1e-3}[c.Intn(12)]
			}
			sep := []string{",", " ", ", ", "\t"}[c.Intn(4)]
			if sep == "\t" {
				sep = "\t"
			}
			sep = strings.ReplaceAll(sep, "\\t", "\t")
			between := ""
			if i > 0 {
				between = []string{" ", "", ",", "  ", " , "}[c.Intn(5)]
			}
			pad := []string{"", " "}[c.Intn(2)]
			text.WriteString(between + pad + name + pad + "(" + nums(args, sep) + ")")
			// the function name as parseTransform lexes it: the text between ')' and '(' trimmed and lower-cased
			// (and of commas, which separate transforms: 889f8da)
			lname := strings.ToLower(strings.Trim(between+pad+name+pad, " \t\n\r,"))
			if strings.ContainsAny(lname, " \t") {
				lname = strings.ReplaceAll(lname, " ", "?")
			}
			fmt.Fprintf(&proto, " %s %s", tok(lname), hexList(args))
			good := false
			for _, a := range arity[lname] {
				good = good || a == na
			}
			switch {
			case arity[lname] == nil:
				c.Count("XF:unknown-name")
			case good:
				c.Count(fmt.Sprintf("XF:%s/%d", lname, na))
			default:
				c.Count("XF:bad-arity:" + lname)
			}
		}
		var m canvas.Matrix
		var bad bool
		if msg := hc.Try(func() { m, bad = canvas.VerifParseTransform(text.String()) }); msg != "" {
			fail(c, "panic:parseTransform", msg, map[string]any{"transform": text.String()})
			continue
		}
		c.Case(proto.String(), "~", hc.Hs(m[0][0], m[0][1], m[0][2], m[1][0], m[1][1], m[1][2])+" "+hc.B(bad))
		c.Distinct("XF " + text.String())
	}
	// ---- parseDimension --------------------------------------------------------------------------------
	units := []string{"", "px", "mm", "cm", "in", "pt", "pc", "Q", "q", "MM", "Cm", "deg", "grad", "rad", "turn", "%", "em", "ex", "foo", "p"}
	for it := 0; it < n; it++ {
		u := units[c.Intn(len(units))]
		var v float64
		switch c.Intn(4) {
		case 0:
			v = float64(c.Intn(2001)-1000) / 8
		case 1:
			v = c.Range(-1e4, 1e4)
		case 2:
			v = []float64{0, 1, -1, 1e-9, 1e9, 0.1, 25.4, 96, 72, 2.54}[c.Intn(10)]
		case 3:
			v = c.Norm()
		}
		text := num(v) + u
		par := []float64{1, 100, 0, 37.5, c.Range(0, 500)}[c.Intn(5)]
		x, bad := canvas.VerifParseDimension(text, par)
		c.Case("DIM "+hc.H(v)+" "+tok(strings.ToLower(u))+" "+hc.H(par), "=", hc.H(x)+" "+hc.B(bad))
		c.Count("DIM:" + tok(strings.ToLower(u)))
		c.Distinct("DIM " + text + hc.H(par))
	}
	// ---- cssSelector.AppliesTo ---------------------------------------------------------------------
	tags := []string{"svg", "g", "rect", "circle", "path"}
	for it := 0; it < 2*n; it++ {
		depth := 1 + c.Intn(6)
		stack := make([]canvas.VerifElem, depth)
		for i := range stack {
			e := canvas.VerifElem{Tag: tags[c.Intn(len(tags))], Attrs: map[string]string{}}
			if i == 0 && c.Chance(0.7) {
				e.Tag = "svg"
			}
			if c.Chance(0.4) {
				e.Attrs["class"] = []string{"a", "b", "a b", "b  a", "", "ab", "a-b"}[c.Intn(7)]
			}
			if c.Chance(0.3) {
				e.Attrs["id"] = []string{"x", "y", "x-1", ""}[c.Intn(4)]
			}
			if c.Chance(0.2) {
				e.Attrs["fill"] = []string{"red", "none"}[c.Intn(2)]
			}
			stack[i] = e
		}
		ns := 1 + c.Intn(4)
		if c.Chance(0.03) {
			ns = 0
		}
		sel := make([]canvas.VerifSelNode, ns)
		for i := range sel {
			nd := canvas.VerifSelNode{Op: ' ', Typ: []string{"", "*", "g", "rect", "svg", "circle"}[c.Intn(6)]}
			if i > 0 && c.Chance(0.4) {
				nd.Op = '>'
			}
			if c.Chance(0.05) {
				nd.Op = '+' // not supported: AppliesTo answers false
			}
			for c.Chance(0.35) {
				switch c.Intn(5) {
				case 0:
					nd.Attrs = append(nd.Attrs, canvas.VerifAttrSel{Op: '~', Attr: "class", Val: []string{"a", "b", ""}[c.Intn(3)]})
				case 1:
					nd.Attrs = append(nd.Attrs, canvas.VerifAttrSel{Op: '=', Attr: "id", Val: []string{"x", "y", ""}[c.Intn(3)]})
				case 2:
					nd.Attrs = append(nd.Attrs, canvas.VerifAttrSel{Op: 0, Attr: []string{"class", "id", "fill"}[c.Intn(3)]})
				case 3:
					nd.Attrs = append(nd.Attrs, canvas.VerifAttrSel{Op: '|', Attr: []string{"id", "class"}[c.Intn(2)], Val: []string{"x", "a"}[c.Intn(2)]})
				case 4:
					nd.Attrs = append(nd.Attrs, canvas.VerifAttrSel{Op: '=', Attr: "fill", Val: "red"})
				}
			}
			sel[i] = nd
		}
		// make a good share of the selectors match: take the types from the stack
		if c.Chance(0.5) && ns > 0 {
			j := depth - 1
			for i := ns - 1; i >= 0 && j >= 0; i-- {
				sel[i].Typ = stack[j].Tag
				if sel[i].Op == '>' || c.Bool() {
					j--
				} else {
					j -= 1 + c.Intn(2)
				}
			}
		}
		var got bool
		if msg := hc.Try(func() { got = canvas.VerifSelectorApplies(sel, stack) }); msg != "" {
			fail(c, "panic:AppliesTo", msg, map[string]any{"selector": fmt.Sprint(sel), "stack": fmt.Sprint(stack)})
			continue
		}
		line := fmt.Sprintf("SEL %d%s%s", ns, selProto(sel), stackProto(stack))
		c.Case(line, "=", hc.B(got))
		c.Count(fmt.Sprintf("SEL:nodes=%d:%v", ns, got))
		c.Distinct(line)
		// cssRule.specificity of a rule with this selector and one or two more (type / class / id variants)
		rule := [][]canvas.VerifSelNode{sel}
		for c.Chance(0.5) && len(rule) < 3 {
			top := stack[depth-1]
			extra := []canvas.VerifSelNode{{Op: ' ', Typ: []string{top.Tag, "*", "", "g"}[c.Intn(4)]}}
			if c.Bool() {
				extra[0].Attrs = append(extra[0].Attrs, canvas.VerifAttrSel{Op: '~', Attr: "class", Val: []string{"a", "b"}[c.Intn(2)]})
			}
			if c.Chance(0.3) {
				extra[0].Attrs = append(extra[0].Attrs, canvas.VerifAttrSel{Op: '=', Attr: "id", Val: []string{"x", "y"}[c.Intn(2)]})
			}
			if c.Chance(0.3) {
				extra = append([]canvas.VerifSelNode{{Op: ' ', Typ: stack[0].Tag}}, extra...)
			}
			rule = append(rule, extra)
		}
		var spec int
		if msg := hc.Try(func() { spec = canvas.VerifRuleSpecificity(rule, stack) }); msg != "" {
			fail(c, "panic:specificity", msg, map[string]any{"rule": fmt.Sprint(rule), "stack": fmt.Sprint(stack)})
			continue
		}
		sl := fmt.Sprintf("SPEC %d", len(rule))
		for _, r := range rule {
			sl += fmt.Sprintf(" %d%s", len(r), selProto(r))
		}
		sl += stackProto(stack)
		c.Case(sl, "=", fmt.Sprint(spec))
		if spec < 0 {
			c.Count("SPEC:no-match")
		} else {
			c.Count(fmt.Sprintf("SPEC:ids=%d:classes=%d:types=%d", spec>>20, (spec>>10)&1023, spec&1023))
		}
	}
}

func selProto(sel []canvas.VerifSelNode) string {
	var sb strings.Builder
	for _, nd := range sel {
		child := nd.Op == '>'
		typ := nd.Typ
		if nd.Op != ' ' && nd.Op != '>' {
			// an unsupported combinator makes the whole selector fail: in the lexed form of the model
			// that is a compound that can match nothing
			typ = "\x00unsupported"
		}
		fmt.Fprintf(&sb, " %s %s %d", hc.B(child), tok(typ), len(nd.Attrs))
		for _, a := range nd.Attrs {
			op := 9
			switch a.Op {
			case 0:
				op = 0
			case '=':
				op = 1
			case '~':
				op = 2
			case '|':
				op = 3
			}
			fmt.Fprintf(&sb, " %d %s %s", op, tok(a.Attr), tok(a.Val))
		}
	}
	return sb.String()
}

func stackProto(stack []canvas.VerifElem) string {
	var sb strings.Builder
	fmt.Fprintf(&sb, " %d", len(stack))
	for _, e := range stack {
		keys := []string{}
		for _, k := range []string{"class", "id", "fill"} {
			if _, ok := e.Attrs[k]; ok {
				keys = append(keys, k)
			}
		}
		fmt.Fprintf(&sb, " %s %d", e.Tag, len(keys))
		for _, k := range keys {
			sb.WriteString(" " + k)
		}
		fmt.Fprintf(&sb, " %d", len(keys))
		for _, k := range keys {
			sb.WriteString(" " + k + " " + tok(strings.ReplaceAll(e.Attrs[k], " ", "+"))) // spaces cannot travel in a token
		}
		fmt.Fprintf(&sb, " %d", len(keys))
		for _, k := range keys {
			w := strings.Split(e.Attrs[k], " ")
			fmt.Fprintf(&sb, " %s %d", k, len(w))
			for _, x := range w {
				sb.WriteString(" " + tok(x))
			}
		}
	}
	return sb.String()
}
