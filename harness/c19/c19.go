package main

import (
	"fmt"
	"image"
	"os"
	"strings"

	"github.com/tdewolff/canvas"
	"verifharness/hc"
)

func main() { hc.Main("C19", run) }

// ---- recording renderer ------------------------------------------------------------------------------

type RLayer struct {
	Path  *canvas.Path
	Style canvas.Style
	M     canvas.Matrix
}

type Recorder struct {
	W, H   float64
	Layers []RLayer
	Other  int
}

func (r *Recorder) Size() (float64, float64) { return r.W, r.H }
func (r *Recorder) RenderPath(p *canvas.Path, s canvas.Style, m canvas.Matrix) {
	r.Layers = append(r.Layers, RLayer{p.Copy(), s, m})
}
func (r *Recorder) RenderText(t *canvas.Text, m canvas.Matrix)   { r.Other++ }
func (r *Recorder) RenderImage(i image.Image, m canvas.Matrix) { r.Other++ }

type Parsed struct {
	C     *canvas.Canvas
	Err   error
	Panic string
	Rec   *Recorder
}

func parse(svg string) Parsed {
	var out Parsed
	out.Panic = hc.Try(func() {
		out.C, out.Err = canvas.ParseSVG(strings.NewReader(svg))
		if out.C != nil {
			out.Rec = &Recorder{W: out.C.W, H: out.C.H}
			out.C.RenderTo(out.Rec)
		}
	})
	return out
}

func capName(c canvas.Capper) string {
	switch c.(type) {
	case canvas.ButtCapper:
		return "butt"
	case canvas.RoundCapper:
		return "round"
	case canvas.SquareCapper:
		return "square"
	}
	return fmt.Sprintf("%T", c)
}

func joinName(j canvas.Joiner) (string, float64) {
	switch v := j.(type) {
	case canvas.BevelJoiner:
		return "bevel", 0
	case canvas.RoundJoiner:
		return "round", 0
	case canvas.ArcsJoiner:
		return "arcs", v.Limit
	case canvas.MiterJoiner:
		if v.GapJoiner == nil {
			return "miterclip", v.Limit
		}
		return "miter", v.Limit
	}
	return fmt.Sprintf("%T", j), 0
}

func rgba(p canvas.Paint) string {
	if p.Gradient != nil || p.Pattern != nil {
		return "paint-not-a-colour"
	}
	return fmt.Sprintf("%d %d %d %d", p.Color.R, p.Color.G, p.Color.B, p.Color.A)
}

// the canonical output line, token for token what Drv/C19.lean `showDoc` prints
func showParsed(p Parsed, fitted bool) string {
	if p.Panic != "" {
		return "PANIC " + p.Panic
	}
	if p.C == nil {
		return "NIL"
	}
	errb := hc.B(p.Err != nil)
	if fitted {
		return "FIT " + errb
	}
	var sb strings.Builder
	fmt.Fprintf(&sb, "%s %s %d", hc.Hs(p.C.W, p.C.H), errb, len(p.Rec.Layers))
	for _, l := range p.Rec.Layers {
		n, cmds := pathTokens(l.Path)
		jn, lim := joinName(l.Style.StrokeJoiner)
		if jn == "miter" || jn == "miterclip" {
			jn += " " + hc.H(lim)
		}
		ds := ""
		for _, d := range l.Style.Dashes {
			ds += " " + hc.H(d)
		}
		if ds == "" {
			ds = " "
		}
		if n == 0 {
			cmds = ""
		}
		rule := "nonzero"
		if l.Style.FillRule == canvas.EvenOdd {
			rule = "evenodd"
		} else if l.Style.FillRule != canvas.NonZero {
			rule = fmt.Sprint(l.Style.FillRule)
		}
		fmt.Fprintf(&sb, " P %d %s F %s %s S %s %s %s %s O %s D %d%s M %s", n, cmds, rgba(l.Style.Fill), rule, rgba(l.Style.Stroke),
			hc.H(l.Style.StrokeWidth), capName(l.Style.StrokeCapper), jn, hc.H(l.Style.DashOffset), len(l.Style.Dashes), ds,
			hc.Hs(l.M[0][0], l.M[0][1], l.M[0][2], l.M[1][0], l.M[1][1], l.M[1][2]))
	}
	return strings.Join(strings.Fields(sb.String()), " ")
}

// ---- run -------------------------------------------------------------------------------------------------

func run(c *hc.Ctx) {
	n := c.N
	if c.Tier == "search" {
		n = c.N
	}
	if c.Only == "" || c.Only == "docs" {
		for it := 0; it < n; it++ {
			d := genDoc(c)
			oneDoc(c, d)
		}
	}
	if c.Only == "" || c.Only == "roundtrip" {
		for it := 0; it < n/2; it++ {
			roundTrip(c)
		}
	}
	if c.Only == "" || c.Only == "units" {
		unitDocs(c)
	}
	if c.Only == "" || c.Only == "pieces" {
		pieces(c)
	}
	if LexMismatch > 0 {
		c.Hist["css-lexing-differs-from-generated-text"] = LexMismatch
	}
}

// fail records at most 4 failing inputs per kind (hc keeps 200 records in all: a frequent known class
// must not crowd out a new one); every occurrence is counted in the histogram.
var perKind = map[string]int{}

func fail(c *hc.Ctx, kind, desc string, replay any) {
	perKind[kind]++
	if perKind[kind] <= 4 {
		c.Fail(kind, desc, replay)
	} else {
		c.Count("FAIL:" + kind)
	}
}

func oneDoc(c *hc.Ctx, d *Doc) {
	svg := d.SVG()
	p := parse(svg)
	c.Count("class:" + d.Class)
	// branch coverage of setAttribute / selectors: which declarations and selector forms the document carries
	allNodes(d.Root, func(n *Node, _ []*Node) {
		for _, a := range n.Attrs {
			if a.Key == "style" {
				for _, p := range a.Style {
					c.Count("decl:style-attr:" + p.Key)
				}
			} else if a.Key != "points" && a.Key != "d" {
				c.Count("decl:attr:" + a.Key)
			}
		}
		for _, r := range n.Rules {
			for _, p := range r.Props {
				c.Count("decl:rule:" + p.Key)
			}
			for _, s := range r.Sels {
				c.Count(fmt.Sprintf("selector:compounds=%d", len(s)))
				for i, nd := range s {
					if i > 0 && nd.Child {
						c.Count("selector:child-combinator")
					} else if i > 0 {
						c.Count("selector:descendant-combinator")
					}
				}
			}
		}
	}, nil)
	for f := range d.Features {
		c.Count("feature:" + f)
	}
	if p.Panic != "" {
		fail(c, "panic", "ParseSVG panicked: "+p.Panic, map[string]any{"svg": svg})
		return
	}
	// correspondence with the Lean model: same lexed document, recorded layers token for token
	lens := []float64{}
	fitted := false
	if p.C != nil {
		for _, l := range p.Rec.Layers {
			lens = append(lens, l.Path.Length())
		}
		fitted = d.Features["fit"]
	}
	line := d.Proto(lens)
	if len(line) < 60000 {
		c.Case(line, "~", showParsed(p, fitted))
	} else {
		c.Count("skip-long-line")
	}
	c.Distinct(svg)
	if len(c.Samples) < 3 {
		c.Sample(svg)
	}
	if os.Getenv("C19_DUMP") != "" {
		fmt.Fprintln(os.Stderr, svg)
	}
	// the property predicate, judged on the real code by the SVG 1.1 evaluator of spec.go
	oracle(c, d, svg, p)
}
