package main

// Independent evaluator of the SVG 1.1 semantics of the generated documents (the oracle): viewport and
// viewBox mapping (§7.7-7.9), transform lists (§7.6), units (§7.10, CSS absolute units), the basic
// shapes' outlines (§9), the cascade presentation attribute < style sheet (specificity, order) <
// style attribute with inheritance (§6.4, CSS2 §6.4), stroke properties in user units (§11.4).
// Nothing here calls the library under test.

import (
	"fmt"
	"math"
	"strconv"
	"strings"

	"github.com/tdewolff/canvas"
	"verifharness/hc"
)

type P2 = hc.P2

// Aff is SVG's matrix(a b c d e f): x' = a x + c y + e, y' = b x + d y + f.
type Aff [6]float64

var affI = Aff{1, 0, 0, 1, 0, 0}

// Mul returns m∘n (n is applied to the point first).
func (m Aff) Mul(n Aff) Aff {
	return Aff{
		m[0]*n[0] + m[2]*n[1], m[1]*n[0] + m[3]*n[1],
		m[0]*n[2] + m[2]*n[3], m[1]*n[2] + m[3]*n[3],
		m[0]*n[4] + m[2]*n[5] + m[4], m[1]*n[4] + m[3]*n[5] + m[5],
	}
}
func (m Aff) Apply(p P2) P2 { return P2{m[0]*p.X + m[2]*p.Y + m[4], m[1]*p.X + m[3]*p.Y + m[5]} }

func specTransform(fs []XFn) (Aff, bool) {
	m := affI
	ok := true
	for _, f := range fs {
		a := f.Args
		var t Aff
		switch f.Name {
		case "translate":
			if len(a) == 1 {
				t = Aff{1, 0, 0, 1, a[0], 0}
			} else if len(a) == 2 {
				t = Aff{1, 0, 0, 1, a[0], a[1]}
			} else {
				return m, false
			}
		case "scale":
			if len(a) == 1 {
				t = Aff{a[0], 0, 0, a[0], 0, 0}
			} else if len(a) == 2 {
				t = Aff{a[0], 0, 0, a[1], 0, 0}
			} else {
				return m, false
			}
		case "rotate":
			if len(a) != 1 && len(a) != 3 {
				return m, false
			}
			s, c := math.Sincos(a[0] * math.Pi / 180)
			t = Aff{c, s, -s, c, 0, 0}
			if len(a) == 3 {
				t = Aff{1, 0, 0, 1, a[1], a[2]}.Mul(t).Mul(Aff{1, 0, 0, 1, -a[1], -a[2]})
			}
		case "skewX":
			t = Aff{1, 0, math.Tan(a[0] * math.Pi / 180), 1, 0, 0}
		case "skewY":
			t = Aff{1, math.Tan(a[0] * math.Pi / 180), 0, 1, 0, 0}
		case "matrix":
			if len(a) != 6 {
				return m, false
			}
			t = Aff{a[0], a[1], a[2], a[3], a[4], a[5]}
		default:
			return m, false
		}
		m = m.Mul(t) // "A B" = A∘B
	}
	return m, ok
}

// dimPx: CSS absolute units at 96 px per inch; "" = user units; % of ref.
func dimPx(v Val, ref float64) (float64, bool) {
	switch strings.ToLower(v.Unit) {
	case "", "px":
		return v.Num, true
	case "in":
		return v.Num * 96, true
	case "cm":
		return v.Num * 96 / 2.54, true
	case "mm":
		return v.Num * 96 / 25.4, true
	case "q":
		return v.Num * 96 / 101.6, true
	case "pt":
		return v.Num * 96 / 72, true
	case "pc":
		return v.Num * 16, true
	case "%":
		return v.Num * ref / 100, true
	}
	return 0, false
}

type SpecStyle struct {
	Fill, Stroke [4]uint8
	SW           float64
	Dash         []float64
	DashOff      float64
	Cap, Join    string
	Miter        float64
	FillRule     string
}

type SpecSub struct {
	Pts    []P2
	Closed bool
}

type SpecShape struct {
	N    *Node
	Subs []SpecSub
	CTM  Aff
	St   SpecStyle
	Skew bool // a skew function is on the element or on one of its ancestors
}

type SpecDoc struct {
	VW, VH  float64 // viewport, px
	Fit     bool
	Bad     bool // the document is in error (unknown unit, bad transform)
	Shapes  []SpecShape
	rules   []Rule
	diag    float64
	userW   float64
	userH   float64
	docNote string
}

func lerpPts(a, b P2, n int) []P2 {
	out := make([]P2, 0, n)
	for i := 1; i <= n; i++ {
		t := float64(i) / float64(n)
		out = append(out, P2{a.X + (b.X-a.X)*t, a.Y + (b.Y-a.Y)*t})
	}
	return out
}

const curveN = 96

// Béziers may turn tightly: the chord error of an n-step polyline is |B''|/(8 n^2), so they are sampled
// four times finer than arcs (error < 1e-5 of the viewport for the generated control polygons)
const bezN = 4 * curveN

func ellipseArcPts(cx, cy, rx, ry, t0, t1 float64, n int) []P2 {
	out := make([]P2, 0, n)
	for i := 1; i <= n; i++ {
		t := t0 + (t1-t0)*float64(i)/float64(n)
		out = append(out, P2{cx + rx*math.Cos(t), cy + ry*math.Sin(t)})
	}
	return out
}

func attrOf(n *Node, key string) (Val, bool) {
	for _, a := range n.Attrs {
		if a.Key == key && key != "style" {
			return a.V, true
		}
	}
	return Val{}, false
}

// ---- selectors and cascade (CSS2 §5, §6.4) ------------------------------------------------------------------

func nodeMatches(s SelNode, n *Node) bool {
	if s.Typ != "" && s.Typ != "*" && s.Typ != n.Tag {
		return false
	}
	for _, a := range s.Attrs {
		v, has := attrOf(n, a.Attr)
		switch a.Op {
		case 0:
			if !has {
				return false
			}
		case 1, 3:
			if !has || v.Str != a.Val {
				return false
			}
		case 2:
			found := false
			for _, w := range v.Words {
				if w == a.Val {
					found = true
				}
			}
			if !found {
				return false
			}
		}
	}
	return true
}

// the selector's subject (last compound) must be the element itself
func selMatches(s Selector, i int, n *Node, anc []*Node) bool {
	if i < 0 {
		return true
	}
	if !nodeMatches(s[i], n) {
		return false
	}
	if i == 0 {
		return true
	}
	if s[i].Child {
		return len(anc) > 0 && selMatches(s, i-1, anc[len(anc)-1], anc[:len(anc)-1])
	}
	for k := len(anc) - 1; k >= 0; k-- {
		if selMatches(s, i-1, anc[k], anc[:k]) {
			return true
		}
	}
	return false
}

func specificity(s Selector) int {
	ids, cls, typ := 0, 0, 0
	for _, n := range s {
		if n.Typ != "" && n.Typ != "*" {
			typ++
		}
		for _, a := range n.Attrs {
			if a.Op == 3 && a.Attr == "id" {
				ids++
			} else {
				cls++
			}
		}
	}
	return ids*10000 + cls*100 + typ
}

// declared returns the winning declaration of property key on element n, if any.
func (sd *SpecDoc) declared(n *Node, anc []*Node, key string) (Val, bool) {
	// 1. style attribute
	for _, a := range n.Attrs {
		if a.Key == "style" {
			var v Val
			ok := false
			for _, p := range a.Style {
				if p.Key == key {
					v, ok = p.V, true
				}
			}
			if ok {
				return v, true
			}
		}
	}
	// 2. style sheet rules: specificity, then order
	best, bestSpec := Val{}, -1
	for _, r := range sd.rules {
		sp := -1
		for _, s := range r.Sels {
			if len(s) > 0 && selMatches(s, len(s)-1, n, anc) {
				if x := specificity(s); x > sp {
					sp = x
				}
			}
		}
		if sp < 0 {
			continue
		}
		for _, p := range r.Props {
			if p.Key == key && sp >= bestSpec {
				best, bestSpec = p.V, sp
			}
		}
	}
	if bestSpec >= 0 {
		return best, true
	}
	// 3. presentation attribute (specificity 0, before all other rules)
	return attrOf(n, key)
}

func paintOf(v Val) [4]uint8 {
	if v.K == 'C' {
		return v.Col
	}
	return [4]uint8{} // none
}

func (sd *SpecDoc) walk(n *Node, anc []*Node, st SpecStyle, ctm Aff) {
	if n.Tag == "style" {
		return
	}
	if v, ok := sd.declared(n, anc, "fill"); ok {
		st.Fill = paintOf(v)
	}
	if v, ok := sd.declared(n, anc, "stroke"); ok {
		st.Stroke = paintOf(v)
	}
	if v, ok := sd.declared(n, anc, "stroke-width"); ok {
		if w, ok := dimPx(v, sd.diag); ok {
			st.SW = w
		} else {
			sd.Bad = true
		}
	}
	if v, ok := sd.declared(n, anc, "stroke-dashoffset"); ok {
		st.DashOff, _ = dimPx(v, sd.diag)
	}
	if v, ok := sd.declared(n, anc, "stroke-dasharray"); ok {
		if v.K == 'N' {
			st.Dash = v.Nums
		} else {
			st.Dash = nil
		}
	}
	if v, ok := sd.declared(n, anc, "stroke-linecap"); ok {
		st.Cap = v.Kw
	}
	if v, ok := sd.declared(n, anc, "stroke-linejoin"); ok {
		st.Join = v.Kw
	}
	if v, ok := sd.declared(n, anc, "stroke-miterlimit"); ok {
		st.Miter = v.Num
	}
	if v, ok := sd.declared(n, anc, "fill-rule"); ok {
		st.FillRule = v.Kw
	}
	if v, ok := attrOf(n, "transform"); ok && n.Tag != "svg" {
		t, ok := specTransform(v.Xf)
		if !ok {
			sd.Bad = true
		}
		ctm = ctm.Mul(t)
	}
	L := func(key string, ref float64) float64 {
		v, ok := attrOf(n, key)
		if !ok {
			return 0
		}
		x, ok := dimPx(v, ref)
		if !ok {
			sd.Bad = true
		}
		return x
	}
	var subs []SpecSub
	switch n.Tag {
	case "rect":
		x, y, w, h := L("x", sd.userW), L("y", sd.userH), L("width", sd.userW), L("height", sd.userH)
		_, hasRx := attrOf(n, "rx")
		_, hasRy := attrOf(n, "ry")
		rx, ry := L("rx", sd.userW), L("ry", sd.userH)
		if hasRx && !hasRy {
			ry = rx
		} else if hasRy && !hasRx {
			rx = ry
		}
		rx, ry = math.Min(rx, w/2), math.Min(ry, h/2)
		if w > 0 && h > 0 {
			var pts []P2
			if rx > 0 && ry > 0 {
				pts = []P2{{x + rx, y}}
				pts = append(pts, lerpPts(P2{x + rx, y}, P2{x + w - rx, y}, 8)...)
				pts = append(pts, ellipseArcPts(x+w-rx, y+ry, rx, ry, -math.Pi/2, 0, curveN)...)
				pts = append(pts, lerpPts(P2{x + w, y + ry}, P2{x + w, y + h - ry}, 8)...)
				pts = append(pts, ellipseArcPts(x+w-rx, y+h-ry, rx, ry, 0, math.Pi/2, curveN)...)
				pts = append(pts, lerpPts(P2{x + w - rx, y + h}, P2{x + rx, y + h}, 8)...)
				pts = append(pts, ellipseArcPts(x+rx, y+h-ry, rx, ry, math.Pi/2, math.Pi, curveN)...)
				pts = append(pts, lerpPts(P2{x, y + h - ry}, P2{x, y + ry}, 8)...)
				pts = append(pts, ellipseArcPts(x+rx, y+ry, rx, ry, math.Pi, 1.5*math.Pi, curveN)...)
			} else {
				c := []P2{{x, y}, {x + w, y}, {x + w, y + h}, {x, y + h}, {x, y}}
				pts = []P2{c[0]}
				for i := 0; i < 4; i++ {
					pts = append(pts, lerpPts(c[i], c[i+1], 8)...)
				}
			}
			subs = []SpecSub{{pts, true}}
		}
	case "circle", "ellipse":
		cx, cy := L("cx", sd.userW), L("cy", sd.userH)
		var rx, ry float64
		if n.Tag == "circle" {
			rx = L("r", sd.diag)
			ry = rx
		} else {
			rx, ry = L("rx", sd.userW), L("ry", sd.userH)
		}
		if rx > 0 && ry > 0 {
			pts := append([]P2{{cx + rx, cy}}, ellipseArcPts(cx, cy, rx, ry, 0, 2*math.Pi, 4*curveN)...)
			subs = []SpecSub{{pts, true}}
		}
	case "line":
		a, b := P2{L("x1", sd.userW), L("y1", sd.userH)}, P2{L("x2", sd.userW), L("y2", sd.userH)}
		subs = []SpecSub{{append([]P2{a}, lerpPts(a, b, 8)...), false}}
	case "polyline", "polygon":
		v, _ := attrOf(n, "points")
		var pts []P2
		for i := 0; i+1 < len(v.Nums); i += 2 {
			q := P2{v.Nums[i], v.Nums[i+1]}
			if len(pts) == 0 {
				pts = []P2{q}
			} else {
				pts = append(pts, lerpPts(pts[len(pts)-1], q, 8)...)
			}
		}
		if n.Tag == "polygon" && len(pts) > 0 {
			pts = append(pts, lerpPts(pts[len(pts)-1], pts[0], 8)...)
		}
		if len(pts) > 0 {
			subs = []SpecSub{{pts, n.Tag == "polygon"}}
		}
	case "path":
		v, _ := attrOf(n, "d")
		subs = specPath(v.D)
	}
	// zero-length subpaths (e.g. <line> with coinciding end points, x2="27.75pt" = 37px = x1) have no
	// interior and, with butt caps, no stroke area: they paint nothing and are not part of the outline
	kept := subs[:0:0]
	for _, sb := range subs {
		if len(sb.Pts) > 1 && hc.PolylineLen(sb.Pts) > 0 {
			kept = append(kept, sb)
		}
	}
	if len(kept) > 0 {
		skewed := false
		for _, e := range append(anc[:len(anc):len(anc)], n) {
			if v, ok := attrOf(e, "transform"); ok {
				for _, f := range v.Xf {
					if strings.HasPrefix(strings.ToLower(f.Name), "skew") {
						skewed = true
					}
				}
			}
		}
		sd.Shapes = append(sd.Shapes, SpecShape{N: n, Subs: kept, CTM: ctm, St: st, Skew: skewed})
	}
	for _, k := range n.Kids {
		sd.walk(k, append(anc[:len(anc):len(anc)], n), st, ctm)
	}
}

// specPath interprets the generated subset of path data: M L H Q C Z, absolute (SVG 1.1 §8.3).
func specPath(d string) []SpecSub {
	var subs []SpecSub
	var cur, start P2
	var pts []P2
	flush := func(closed bool) {
		// zero-length subpaths paint nothing (no fill area; butt caps add nothing): not part of the outline
		if len(pts) > 1 && hc.PolylineLen(pts) > 0 {
			subs = append(subs, SpecSub{pts, closed})
		}
		pts = nil
	}
	i := 0
	readNums := func(k int) []float64 {
		out := []float64{}
		for len(out) < k {
			for i < len(d) && (d[i] == ' ' || d[i] == ',') {
				i++
			}
			j := i
			for j < len(d) && (d[j] == '-' || d[j] == '.' || d[j] >= '0' && d[j] <= '9') {
				j++
			}
			f, _ := strconv.ParseFloat(d[i:j], 64)
			out = append(out, f)
			i = j
		}
		return out
	}
	for i < len(d) {
		cmd := d[i]
		i++
		switch cmd {
		case 'M':
			flush(false)
			a := readNums(2)
			cur = P2{a[0], a[1]}
			start = cur
			pts = []P2{cur}
		case 'L':
			a := readNums(2)
			q := P2{a[0], a[1]}
			if len(pts) == 0 {
				pts = []P2{cur}
			}
			pts = append(pts, lerpPts(cur, q, 8)...)
			cur = q
		case 'H':
			a := readNums(1)
			q := P2{a[0], cur.Y}
			if len(pts) == 0 {
				pts = []P2{cur}
			}
			pts = append(pts, lerpPts(cur, q, 8)...)
			cur = q
		case 'Q':
			a := readNums(4)
			s := hc.Seg{Kind: 'Q', P0: cur, P1: P2{a[0], a[1]}, End: P2{a[2], a[3]}}
			if len(pts) == 0 {
				pts = []P2{cur}
			}
			for k := 1; k <= bezN; k++ {
				t := float64(k) / bezN
				u := 1 - t
				pts = append(pts, P2{u*u*s.P0.X + 2*u*t*s.P1.X + t*t*s.End.X, u*u*s.P0.Y + 2*u*t*s.P1.Y + t*t*s.End.Y})
			}
			cur = s.End
		case 'C':
			a := readNums(6)
			p0, p1, p2, p3 := cur, P2{a[0], a[1]}, P2{a[2], a[3]}, P2{a[4], a[5]}
			if len(pts) == 0 {
				pts = []P2{cur}
			}
			for k := 1; k <= bezN; k++ {
				t := float64(k) / bezN
				u := 1 - t
				b0, b1, b2, b3 := u*u*u, 3*u*u*t, 3*u*t*t, t*t*t
				pts = append(pts, P2{b0*p0.X + b1*p1.X + b2*p2.X + b3*p3.X, b0*p0.Y + b1*p1.Y + b2*p2.Y + b3*p3.Y})
			}
			cur = p3
		case 'Z', 'z':
			if len(pts) == 0 {
				pts = []P2{cur}
			}
			pts = append(pts, lerpPts(cur, start, 8)...)
			cur = start
			flush(true)
		}
	}
	flush(false)
	return subs
}

func evalDoc(d *Doc) *SpecDoc {
	sd := &SpecDoc{}
	pct := func(v *Val) bool { return v != nil && v.Unit == "%" }
	if d.W != nil && !pct(d.W) {
		w, ok := dimPx(*d.W, 0)
		sd.VW, sd.Bad = w, sd.Bad || !ok
	} else if d.VB != nil {
		sd.VW = d.VB[2] // 100% of an unspecified container: convention = the viewBox size in px
	}
	if d.H != nil && !pct(d.H) {
		h, ok := dimPx(*d.H, 0)
		sd.VH, sd.Bad = h, sd.Bad || !ok
	} else if d.VB != nil {
		sd.VH = d.VB[3]
	}
	if sd.VW == 0 || sd.VH == 0 {
		sd.Fit = true
		return sd
	}
	vt := affI
	sd.userW, sd.userH = sd.VW, sd.VH
	if d.VB != nil {
		sx, sy := sd.VW/d.VB[2], sd.VH/d.VB[3]
		if d.PAR {
			vt = Aff{sx, 0, 0, sy, -d.VB[0] * sx, -d.VB[1] * sy}
		} else { // SVG 1.1 7.8: <align> [meet|slice], default xMidYMid meet
			s := math.Min(sx, sy)
			ax, ay := 0.5, 0.5
			if f := strings.Fields(d.PARText); len(f) > 0 {
				if len(f) > 1 && f[1] == "slice" {
					s = math.Max(sx, sy)
				}
				if len(f[0]) == 8 {
					ax = map[string]float64{"xMin": 0, "xMid": 0.5, "xMax": 1}[f[0][:4]]
					ay = map[string]float64{"YMin": 0, "YMid": 0.5, "YMax": 1}[f[0][4:]]
				}
			}
			vt = Aff{s, 0, 0, s, -d.VB[0]*s + (sd.VW-d.VB[2]*s)*ax, -d.VB[1]*s + (sd.VH-d.VB[3]*s)*ay}
		}
		sd.userW, sd.userH = d.VB[2], d.VB[3]
	}
	sd.diag = math.Sqrt((sd.userW*sd.userW + sd.userH*sd.userH) / 2)
	allNodes(d.Root, func(n *Node, _ []*Node) {
		if n.Tag == "style" {
			sd.rules = append(sd.rules, n.Rules...)
		}
	}, nil)
	init := SpecStyle{Fill: [4]uint8{0, 0, 0, 255}, SW: 1, Cap: "butt", Join: "miter", Miter: 4, FillRule: "nonzero"}
	sd.walk(d.Root, nil, init, vt)
	return sd
}

// ---- the oracle --------------------------------------------------------------------------------------------------

func polyDist(p P2, pl []P2) float64 {
	if len(pl) == 1 {
		return p.Dist(pl[0])
	}
	return hc.DistPointPolyline(p, pl)
}

func firstFeature(d *Doc, fs ...string) string {
	for _, f := range fs {
		if d.Features[f] {
			return ":" + f
		}
	}
	return ""
}

func dashOn(d []float64, off, s float64) (on bool, margin float64) {
	if len(d) == 0 {
		return true, math.Inf(1)
	}
	if len(d)%2 == 1 {
		d = append(append([]float64{}, d...), d...)
	}
	sum := 0.0
	for _, x := range d {
		sum += x
	}
	if !(sum > 0) {
		return true, math.Inf(1)
	}
	x := math.Mod(s+off, sum)
	if x < 0 {
		x += sum
	}
	for i, l := range d {
		if x < l {
			return i%2 == 0, math.Min(x, l-x)
		}
		x -= l
	}
	return true, 0
}

// coverDecision is the rule "if the pattern element in which the path starts reaches beyond the end of the
// path, the path is all dash (solid) or all gap (none); otherwise keep the pattern", written from its
// definition; the margin is the distance of the path length from the threshold.
func coverDecision(d []float64, off, length float64) (string, float64) {
	if len(d) == 0 {
		return "solid", math.Inf(1)
	}
	if len(d)%2 == 1 {
		d = append(append([]float64{}, d...), d...)
	}
	total := 0.0
	for _, x := range d {
		total += x
	}
	if !(total > 0) {
		return "solid", math.Inf(1)
	}
	x := math.Mod(off, total)
	if x < 0 {
		x += total
	}
	for i, e := range d {
		if x < e {
			remaining := e - x
			if length <= remaining {
				if i%2 == 0 {
					return "solid", remaining - length
				}
				return "none", remaining - length
			}
			return "keep", length - remaining
		}
		x -= e
	}
	return "keep", 0
}

// backtracks: two consecutive straight pieces of an outline in exactly opposite directions
func backtracksPts(vs []P2) bool {
	for i := 2; i < len(vs); i++ {
		da, db := vs[i-1].Sub(vs[i-2]), vs[i].Sub(vs[i-1])
		if da.Len() > 0 && db.Len() > 0 && math.Abs(da.Cross(db)) <= 1e-12*da.Len()*db.Len() && da.Dot(db) < 0 {
			return true
		}
	}
	return false
}

func oracle(c *hc.Ctx, d *Doc, svg string, p Parsed) {
	replay := map[string]any{"svg": svg, "class": d.Class}
	if p.C == nil {
		fail(c, "no-canvas", fmt.Sprintf("ParseSVG returned no canvas: %v", p.Err), replay)
		return
	}
	sd := evalDoc(d)
	if sd.Fit || d.Features["fit"] {
		c.Count("oracle-skip:fit")
		return
	}
	if d.Features["err"] || sd.Bad {
		c.Count("oracle-skip:document-in-error")
		return
	}
	c.Evals++
	if p.Err != nil {
		fail(c, "unexpected-error", fmt.Sprintf("ParseSVG reports %v for a valid document", p.Err), replay)
		return
	}
	precedence := firstFeature(d, "style-before-attr", "css-vs-attr", "css-specificity", "css-on-ancestor", "css-id")
	// 1. canvas size = width x height in mm
	const mmPerPx = 25.4 / 96
	wantW, wantH := sd.VW*mmPerPx, sd.VH*mmPerPx
	near := func(a, b float64) bool { return math.Abs(a-b) <= 1e-9*(1+math.Abs(b)) }
	if !near(p.C.W, wantW) || !near(p.C.H, wantH) {
		// a size that is exactly the px numbers taken as mm is that defect whatever else the document has
		kind := "canvas-size" + firstFeature(d, "viewbox-origin")
		if near(p.C.W, sd.VW) && near(p.C.H, sd.VH) {
			kind = "canvas-size:px-as-mm"
		}
		fail(c, kind, fmt.Sprintf("canvas is %v x %v mm, the document's viewport is %v x %v px = %v x %v mm", p.C.W, p.C.H, sd.VW, sd.VH, wantW, wantH), replay)
	} else {
		c.Count("canvas-size-ok")
	}
	if !(p.C.W > 0 && p.C.H > 0) {
		return
	}
	// 2. layers against rendered shapes, in painting order
	var shapes []SpecShape
	for _, s := range sd.Shapes {
		strokes := s.St.Stroke[3] != 0 && s.St.SW > 0
		if s.St.Fill[3] != 0 || strokes {
			shapes = append(shapes, s)
		}
	}
	var layers []RLayer
	for _, l := range p.Rec.Layers {
		if !l.Path.Empty() {
			layers = append(layers, l)
		}
	}
	if len(shapes) != len(layers) {
		fail(c, "layer-count"+precedence, fmt.Sprintf("%d shapes are painted, %d paths were rendered", len(shapes), len(layers)), replay)
		return
	}
	for i, s := range shapes {
		l := layers[i]
		rp := func(k string, v any) map[string]any {
			return map[string]any{"svg": svg, "class": d.Class, "element": i, "tag": s.N.Tag, k: v}
		}
		// geometry in viewport-normalised coordinates (y down)
		segs, err := hc.Decode(l.Path.Data())
		if err != nil {
			fail(c, "bad-path", err.Error(), replay)
			continue
		}
		var recSubs [][]P2
		for _, sub := range hc.Subpaths(segs) {
			var pl []P2
			for _, sg := range sub {
				n := 8
				if sg.Kind == 'M' {
					q := l.M.Dot(canvas.Point{X: sg.End.X, Y: sg.End.Y})
					pl = append(pl, P2{q.X / p.C.W, 1 - q.Y/p.C.H})
					continue
				}
				if sg.Kind == 'A' {
					n = 2 * curveN
				} else if sg.Kind == 'Q' || sg.Kind == 'C' {
					n = bezN
				}
				for k := 1; k <= n; k++ {
					u := sg.At(float64(k) / float64(n))
					q := l.M.Dot(canvas.Point{X: u.X, Y: u.Y})
					pl = append(pl, P2{q.X / p.C.W, 1 - q.Y/p.C.H})
				}
			}
			if len(pl) > 1 { // a lone MoveTo paints nothing
				recSubs = append(recSubs, pl)
			}
		}
		var specSubs [][]P2
		ext := 0.0
		for _, sub := range s.Subs {
			var pl []P2
			for _, q := range sub.Pts {
				v := s.CTM.Apply(q)
				pl = append(pl, P2{v.X / sd.VW, v.Y / sd.VH})
			}
			for _, q := range pl {
				ext = math.Max(ext, q.Dist(pl[0]))
			}
			specSubs = append(specSubs, pl)
		}
		tol := 1e-7 + 4e-4*ext
		worst, where := 0.0, ""
		dirDist := func(from, to [][]P2, tag string) {
			for _, f := range from {
				for k := 0; k < len(f); k += 3 {
					best := math.Inf(1)
					for _, t := range to {
						if dd := polyDist(f[k], t); dd < best {
							best = dd
						}
					}
					if best > worst {
						worst, where = best, fmt.Sprintf("%s point (%.6g,%.6g)", tag, f[k].X, f[k].Y)
					}
				}
			}
		}
		if len(recSubs) == 0 {
			worst, where = math.Inf(1), "nothing rendered"
		} else {
			dirDist(specSubs, recSubs, "specified outline")
			dirDist(recSubs, specSubs, "rendered outline")
		}
		if worst > tol {
			// the regression/known class is named after the cause that applies to THIS element
			feat := firstFeature(d, "aspect-align-slice", "aspect", "xform-comma", "viewbox-min-ge-size")
			_, hasRx := attrOf(s.N, "rx")
			_, hasRy := attrOf(s.N, "ry")
			switch {
			case feat != "":
			case s.Skew:
				feat = ":skew"
			case s.N.Tag == "rect" && (hasRx || hasRy):
				feat = ":rx-ry"
			default:
				feat = firstFeature(d, "viewbox-origin")
			}
			if feat == "" && straightBacktrack(s.N) {
				feat = ":collinear-backtrack"
			}
			fail(c, "geometry"+feat, fmt.Sprintf("<%s> #%d: %s is %.3g of the viewport away from the other outline (tolerance %.3g)", s.N.Tag, i, where, worst, tol), rp("distance", worst))
			continue
		}
		c.Count("geometry-ok:" + s.N.Tag)
		// paint; a shape after a closed container is judged under its own kind so that a state leak is
		// never absorbed by one of the cascade classes
		pk := func(check string) string {
			if d.Probes[s.N] {
				return "state-leak-after-element:" + check
			}
			return check + precedence
		}
		if d.Probes[s.N] {
			c.Count("probe-after-container")
		}
		rf, rs := l.Style.Fill.Color, l.Style.Stroke.Color
		if [4]uint8{rf.R, rf.G, rf.B, rf.A} != s.St.Fill {
			fail(c, pk("fill"), fmt.Sprintf("<%s> #%d: fill %v, specified %v", s.N.Tag, i, rf, s.St.Fill), rp("fill", fmt.Sprint(rf)))
		}
		if l.Style.FillRule != canvas.NonZero && s.St.FillRule == "nonzero" || l.Style.FillRule != canvas.EvenOdd && s.St.FillRule == "evenodd" {
			fail(c, "fill-rule"+firstFeature(d, "fill-rule"), fmt.Sprintf("<%s> #%d: fill rule %v, specified %s", s.N.Tag, i, l.Style.FillRule, s.St.FillRule), rp("rule", fmt.Sprint(l.Style.FillRule)))
		}
		strokes := s.St.Stroke[3] != 0 && s.St.SW > 0
		if l.Style.HasStroke() != strokes && !(d.Features["dash"] && !l.Style.HasStroke()) {
			fail(c, pk("stroke"), fmt.Sprintf("<%s> #%d: stroked=%v, specified %v", s.N.Tag, i, l.Style.HasStroke(), strokes), rp("stroke", fmt.Sprint(rs)))
			continue
		}
		if !strokes {
			continue
		}
		c.Count("stroked")
		if l.Style.HasStroke() && [4]uint8{rs.R, rs.G, rs.B, rs.A} != s.St.Stroke {
			fail(c, pk("stroke"), fmt.Sprintf("<%s> #%d: stroke %v, specified %v", s.N.Tag, i, rs, s.St.Stroke), rp("stroke", fmt.Sprint(rs)))
		}
		// the recorded path is in user units up to a translation, so widths and dashes compare directly
		if !near(l.Style.StrokeWidth, s.St.SW) {
			fail(c, pk("stroke-width"), fmt.Sprintf("<%s> #%d: stroke width %v user units, specified %v", s.N.Tag, i, l.Style.StrokeWidth, s.St.SW), rp("width", l.Style.StrokeWidth))
			continue
		}
		if capName(l.Style.StrokeCapper) != s.St.Cap {
			fail(c, pk("linecap"), fmt.Sprintf("<%s> #%d: cap %s, specified %s", s.N.Tag, i, capName(l.Style.StrokeCapper), s.St.Cap), rp("cap", capName(l.Style.StrokeCapper)))
		}
		jn, lim := joinName(l.Style.StrokeJoiner)
		if jn != s.St.Join {
			fail(c, pk("linejoin"), fmt.Sprintf("<%s> #%d: join %s, specified %s", s.N.Tag, i, jn, s.St.Join), rp("join", jn))
		} else if jn == "miter" && !near(lim, s.St.Miter) {
			fail(c, "miterlimit"+firstFeature(d, "miterlimit"), fmt.Sprintf("<%s> #%d: miter limit %v, specified %v", s.N.Tag, i, lim, s.St.Miter), rp("limit", lim))
		}
		// dashes as on/off function of the arc length (user units)
		// (Path.checkDash was repaired upstream in 555d813: every pattern and offset is judged)
		if len(s.St.Dash) > 0 || len(l.Style.Dashes) > 0 || !l.Style.HasStroke() {
			c.Count("dashed")
			length := hc.PolylineLen(s.Subs[0].Pts)
			sw := l.Style.StrokeWidth
			_, rd := canvas.ScaleDash(sw, 0, l.Style.Dashes)
			roff := l.Style.DashOffset * sw
			cmp := func(specD []float64, specOff float64) (bad string) {
				for k := 0; k < 60; k++ {
					x := length * (float64(k) + 0.37) / 60
					a, ma := dashOn(specD, specOff, x)
					b, mb := dashOn(rd, roff, x)
					if !l.Style.HasStroke() {
						b, mb = false, math.Inf(1)
					}
					if ma < 1e-6 || mb < 1e-6 {
						continue
					}
					if a != b {
						return fmt.Sprintf("at arc length %.4g of %.4g the stroke is on=%v, specified on=%v", x, length, b, a)
					}
				}
				return ""
			}
			if bad := cmp(s.St.Dash, s.St.DashOff); bad != "" {
				kind := "dash" + precedence
				scaled := make([]float64, len(s.St.Dash))
				for k, x := range s.St.Dash {
					scaled[k] = x * sw
				}
				if precedence == "" && sw != 1 && cmp(scaled, s.St.DashOff*sw) == "" {
					kind = "dash:scaled-by-stroke-width"
				}
				// Context.DrawPath's shortcut "the first dash/gap covers the whole path" is taken on the pattern in
				// multiples of the stroke width against the length in user units (known finding of canvas.go,
				// C14-checkdash-before-width-scaling): classified only when exactly that explains the outcome
				if precedence == "" && sw != 1 && sw > 0 && len(l.Style.Dashes) == 0 {
					inW := make([]float64, len(s.St.Dash))
					for k, x := range s.St.Dash {
						inW[k] = x / sw
					}
					plen := l.Path.Length()
					took, m1 := coverDecision(inW, s.St.DashOff/sw, plen)
					right, m2 := coverDecision(s.St.Dash, s.St.DashOff, plen)
					rendered := "solid"
					if !l.Style.HasStroke() {
						rendered = "none"
					}
					if m1 > 1e-9 && m2 > 1e-9 && took == rendered && right == "keep" {
						kind = "dash:checkdash-width-units"
					}
				}
				fail(c, kind, fmt.Sprintf("<%s> #%d: stroke-dasharray %v (user units) with stroke-width %v: %s; rendered dashes %v x width", s.N.Tag, i, s.St.Dash, sw, bad, l.Style.Dashes),
					rp("dashes", fmt.Sprint(l.Style.Dashes)))
			} else {
				c.Count("dash-ok")
			}
		}
	}
}

// straightBacktrack: the element's outline has a straight segment followed by a straight segment going
// exactly back (the path builder's LineTo merges the pair and loses the far end: known finding of the
// path builder, C03-lineto-reversal-merge, reached here through polyline/polygon/path)
func straightBacktrack(n *Node) bool {
	switch n.Tag {
	case "polyline", "polygon":
		v, _ := attrOf(n, "points")
		var vs []P2
		for i := 0; i+1 < len(v.Nums); i += 2 {
			vs = append(vs, P2{v.Nums[i], v.Nums[i+1]})
		}
		if n.Tag == "polygon" && len(vs) > 0 {
			vs = append(vs, vs[0])
		}
		return backtracksPts(vs)
	case "path":
		v, _ := attrOf(n, "d")
		// vertices of maximal runs of M/L/H/Z commands, read from the text
		var runs [][]P2
		var cur, start P2
		var run []P2
		i := 0
		d := v.D
		rd := func() float64 {
			for i < len(d) && (d[i] == ' ' || d[i] == ',') {
				i++
			}
			j := i
			for j < len(d) && (d[j] == '-' || d[j] == '.' || d[j] >= '0' && d[j] <= '9') {
				j++
			}
			f, _ := strconv.ParseFloat(d[i:j], 64)
			i = j
			return f
		}
		for i < len(d) {
			cmd := d[i]
			i++
			switch cmd {
			case 'M':
				runs = append(runs, run)
				cur = P2{rd(), rd()}
				start = cur
				run = []P2{cur}
			case 'L':
				cur = P2{rd(), rd()}
				run = append(run, cur)
			case 'H':
				cur = P2{rd(), cur.Y}
				run = append(run, cur)
			case 'Q':
				rd()
				rd()
				cur = P2{rd(), rd()}
				runs = append(runs, run)
				run = []P2{cur}
			case 'C':
				rd()
				rd()
				rd()
				rd()
				cur = P2{rd(), rd()}
				runs = append(runs, run)
				run = []P2{cur}
			case 'Z', 'z':
				run = append(run, start)
				cur = start
				runs = append(runs, run)
				run = []P2{cur}
			}
		}
		runs = append(runs, run)
		for _, r := range runs {
			if backtracksPts(r) {
				return true
			}
		}
	}
	return false
}
