package main

import (
	"fmt"
	"strings"

	"github.com/tdewolff/canvas"
	"verifharness/hc"
)

// runSplit: addIntersections / splitAtIntersections against CanvasModel/C01Split.lean. The real
// function runs on two freshly built segments (hook VerifAddIntersections); the observation is the
// returned flag and the number of events pushed; the model computes both from the intersection
// points the sweep found and the end points (exact comparison, as in the code).
func runSplit(c *hc.Ctx) {
	gridPt := func(g int) canvas.Point { return canvas.Point{X: float64(c.Intn(g)), Y: float64(c.Intn(g))} }
	less := func(p, q canvas.Point) bool { return p.X < q.X || p.X == q.X && p.Y < q.Y }
	seg := func(mode int) (canvas.Point, canvas.Point) {
		for {
			var p, q canvas.Point
			switch mode {
			case 0:
				p, q = gridPt(4), gridPt(4)
			case 1:
				p, q = gridPt(9), gridPt(9)
			default:
				p, q = canvas.Point{X: c.GenCoord(), Y: c.GenCoord()}, canvas.Point{X: c.GenCoord(), Y: c.GenCoord()}
			}
			if p == q {
				continue
			}
			if less(q, p) {
				p, q = q, p
			}
			return p, q
		}
	}
	for it := 0; it < c.N*10; it++ {
		mode := []int{0, 0, 1, 1, 2}[c.Intn(5)]
		a0, a1 := seg(mode)
		b0, b1 := seg(mode)
		class := []string{"grid4", "grid9", "float"}[mode]
		switch c.Intn(6) {
		case 0: // T-junction: b starts or ends on a's interior (midpoint of a grid segment is exact)
			m := canvas.Point{X: (a0.X + a1.X) / 2, Y: (a0.Y + a1.Y) / 2}
			if c.Bool() {
				b0 = m
			} else {
				b1 = m
			}
			if b0 == b1 {
				continue
			}
			if less(b1, b0) {
				b0, b1 = b1, b0
			}
			class += ":t-junction"
		case 1: // collinear overlap: b lies on a's line
			d := a1.Sub(a0)
			s, t := float64(c.Intn(5)-1)/2, float64(c.Intn(5)+1)/2
			b0, b1 = a0.Add(d.Mul(s)), a0.Add(d.Mul(t))
			if b0 == b1 {
				continue
			}
			if less(b1, b0) {
				b0, b1 = b1, b0
			}
			class += ":collinear"
		case 2: // shared end point
			if c.Bool() {
				b0 = a0
			} else {
				b1 = a1
			}
			if b0 == b1 || less(b1, b0) {
				continue
			}
			class += ":shared-endpoint"
		}
		switch c.Intn(8) {
		case 0: // b starts directly above a's left end / crossings directly below a left end (status cases)
			b0 = canvas.Point{X: a0.X, Y: a0.Y + float64(1+c.Intn(3))}
			if !less(b0, b1) {
				continue
			}
			class += ":same-left-x"
		}
		aIn, bIn := c.Chance(0.3), c.Chance(0.5)
		c.Evals++
		ret, zs, pushed, msg := canvas.VerifAddIntersections(a0, a1, b0, b1, aIn, bIn)
		if msg != "" {
			// the sweep's own consistency panics (vertical reversal) are outside this contract
			c.Count("addx:panic:" + strings.SplitN(msg, ":", 2)[0])
			continue
		}
		var zt []string
		for _, z := range zs {
			zt = append(zt, hc.H(z.X), hc.H(z.Y))
		}
		line := fmt.Sprintf("ADDX %s %s %s %s %s %s %s %s %s %s Z %d %s", hc.B(aIn), hc.B(bIn), hc.H(a0.X), hc.H(a0.Y), hc.H(a1.X), hc.H(a1.Y),
			hc.H(b0.X), hc.H(b0.Y), hc.H(b1.X), hc.H(b1.Y), len(zs), strings.Join(zt, " "))
		c.Case(strings.TrimSpace(line), "=", fmt.Sprintf("%v %d", ret, pushed))
		c.Count(fmt.Sprintf("addx:%s zs=%d pushed=%d", class, len(zs), pushed))
		c.Count(fmt.Sprintf("addx:in-status a=%v b=%v", aIn, bIn))
		// the contract itself on the real code (gives the failing input when the tie breaks)
		if ret != (pushed > 0) {
			c.Fail("sweep:resort-flag-not-raised-after-split", fmt.Sprintf("addIntersections returned %v but pushed %d events", ret, pushed),
				map[string]any{"a": []float64{a0.X, a0.Y, a1.X, a1.Y}, "b": []float64{b0.X, b0.Y, b1.X, b1.Y}})
		}
	}
}
