package main

// C01 second wave — sweep comparators (LessH, CompareH, compareOverlapsV, compareTangentsV,
// compareV, CompareV, SweepPoint.InterpolateY).
//
// Correspondence: every generated pair is sent to the Lean model Canvas.C01Cmp (Float instance,
// transcribed line by line) as a `CMP …` line and must be answered bit-exactly (mode "=").
//
// Oracle (independent of the code under test, judged on the real outputs): on pairs with
// exactly representable (integer / dyadic) coordinates for which every float InterpolateY the
// comparators can evaluate equals the exact rational value (math/big), the comparators compute
// what an exact ordered field would compute, so the laws proved in
// lean/CanvasProofs/Lemmas/C01Cmp.lean must hold on the real outputs:
//   cmp:compareH-antisymm      WF a, WF b                 ⇒ compareH(b,a) = -compareH(a,b)
//   cmp:lessH-iff-compareH<0                               ⇒ lessH(a,b) = (compareH(a,b) < 0)
//   cmp:tangentsV-antisymm     WF, a.left = b.left        ⇒ tangentsV(b,a) = -tangentsV(a,b)
//   cmp:CompareV-antisymm      CompareVPre(a,b)           ⇒ CompareV(b,a) = -CompareV(a,b)
//   cmp:CompareV-spec-y        CompareVPre(a,b), exact y-values at max(a.X,b.X) differ
//                                                         ⇒ CompareV(a,b) = sign(ya - yb)
// Pairs with an inexact interpolation are skipped and counted (never judged).

import (
	"fmt"
	"math"
	"math/big"
	"strings"

	"github.com/tdewolff/canvas"
	"verifharness/hc"
)

type cmpSP = canvas.VerifCmpSP

func cmpCoord(c *hc.Ctx, mode int) float64 {
	switch mode {
	case 0:
		return float64(c.Intn(9) - 4)
	case 1:
		return float64(c.Intn(65)-32) / 8
	}
	return c.Range(-10, 10)
}

// cmpLexLess: (x0,y0) before (x1,y1) in the sweep order of endpoints
func cmpLexLess(x0, y0, x1, y1 float64) bool { return x0 < x1 || x0 == x1 && y0 < y1 }

// cmpMk makes the event at (x,y) of the segment (x,y)-(ox,oy) with consistent flags
func cmpMk(c *hc.Ctx, x, y, ox, oy float64) cmpSP {
	return cmpSP{X: x, Y: y, OX: ox, OY: oy, Left: cmpLexLess(x, y, ox, oy) || (x == ox && y == oy),
		Vertical: x == ox, Clipping: c.Bool(), Segment: c.Intn(4)}
}

// cmpSeg draws a random segment in coordinate mode `mode`; left selects which endpoint is the event
func cmpSeg(c *hc.Ctx, mode int, left bool) cmpSP {
	x0, y0, x1, y1 := cmpCoord(c, mode), cmpCoord(c, mode), cmpCoord(c, mode), cmpCoord(c, mode)
	switch r := c.Intn(20); {
	case r < 3:
		x1 = x0 // vertical
	case r < 5:
		y1 = y0 // horizontal
	case r < 10 && mode == 0:
		// power-of-two width: interpolation is exact
		x1 = x0 + float64(int(1)<<uint(c.Intn(3)))
	}
	if cmpLexLess(x1, y1, x0, y0) {
		x0, y0, x1, y1 = x1, y1, x0, y0
	}
	if left {
		return cmpMk(c, x0, y0, x1, y1)
	}
	return cmpMk(c, x1, y1, x0, y0)
}

func cmpMoveTo(s cmpSP, x, y float64) cmpSP {
	dx, dy := x-s.X, y-s.Y
	s.X, s.Y, s.OX, s.OY = x, y, s.OX+dx, s.OY+dy
	s.Vertical = s.X == s.OX
	return s
}

var cmpSpecials = []float64{0, math.Copysign(0, -1), 1, -1, 0.5, 3, math.Inf(1), math.Inf(-1), math.NaN(),
	1e308, -1e308, 5e-324, 1e-300, 1.7976931348623157e308, 2, 1.0000000000000002}

func cmpLine(a, b cmpSP) string {
	f := func(s cmpSP) string {
		return fmt.Sprintf("%s %s %s %s %d", hc.Hs(s.X, s.Y, s.OX, s.OY), hc.B(s.Left), hc.B(s.Vertical), hc.B(s.Clipping), s.Segment)
	}
	return "CMP " + f(a) + " " + f(b)
}

func cmpFinite(s cmpSP) bool {
	for _, v := range []float64{s.X, s.Y, s.OX, s.OY} {
		if math.IsNaN(v) || math.IsInf(v, 0) {
			return false
		}
	}
	return true
}

// cmpWF is the well-formedness predicate of the Lean theorems: vertical ⇔ X == other.X
func cmpWF(s cmpSP) bool { return s.Vertical == (s.X == s.OX) }

func cmpRat(f float64) *big.Rat { return new(big.Rat).SetFloat64(f) }

// cmpExactY is the exact y of the line through the segment at abscissa x (segment not vertical)
func cmpExactY(s cmpSP, x float64) *big.Rat {
	t := new(big.Rat).Sub(cmpRat(x), cmpRat(s.X))
	t.Quo(t, new(big.Rat).Sub(cmpRat(s.OX), cmpRat(s.X)))
	d := new(big.Rat).Sub(cmpRat(s.OY), cmpRat(s.Y))
	return d.Mul(d, t).Add(d, cmpRat(s.Y))
}

// cmpIPYExact: the real float InterpolateY at x equals the exact rational value
func cmpIPYExact(s cmpSP, x float64) bool {
	if s.X == s.OX {
		return true // never evaluated on well-formed input under the judged preconditions
	}
	f := canvas.VerifCmpInterpolateY(s, x)
	if math.IsNaN(f) || math.IsInf(f, 0) {
		return false
	}
	return cmpRat(f).Cmp(cmpExactY(s, x)) == 0
}

func cmpOracle(c *hc.Ctx, a, b cmpSP, out [11]int, line string) {
	if !cmpFinite(a) || !cmpFinite(b) {
		return
	}
	if !(cmpIPYExact(b, a.OX) && cmpIPYExact(a, b.OX) && cmpIPYExact(b, a.X) && cmpIPYExact(a, b.X)) {
		c.Count("cmp:oracle:skip-inexact")
		return
	}
	c.Evals++
	desc := func(law string) string {
		return fmt.Sprintf("%s violated: a=%+v b=%+v outputs=%v", law, a, b, out)
	}
	// lessH ⇔ compareH < 0 (both orders); needs no precondition
	c.Count("cmp:oracle:lessH-iff-compareH<0")
	if (out[0] == 1) != (out[2] < 0) || (out[1] == 1) != (out[3] < 0) {
		c.Fail("cmp:lessH-iff-compareH<0", desc("lessH(a,b) = (compareH(a,b) < 0)"), line)
	}
	if !cmpWF(a) || !cmpWF(b) {
		c.Count("cmp:oracle:not-WF")
		return
	}
	c.Count("cmp:oracle:compareH-antisymm")
	if out[3] != -out[2] {
		c.Fail("cmp:compareH-antisymm", desc("compareH(b,a) = -compareH(a,b)"), line)
	}
	if a.Left == b.Left {
		c.Count("cmp:oracle:tangentsV-antisymm")
		if out[6] != -out[5] {
			c.Fail("cmp:tangentsV-antisymm", desc("compareTangentsV(b,a) = -compareTangentsV(a,b)"), line)
		}
	}
	// CompareVPre: both left endpoints, left of (or below, if vertical) their other endpoint, and
	// the comparison abscissa max(a.X,b.X) lies in both x-ranges
	xs := math.Max(a.X, b.X)
	if a.Left && b.Left && a.X <= a.OX && b.X <= b.OX && xs <= a.OX && xs <= b.OX {
		c.Count("cmp:oracle:CompareV-antisymm")
		if out[10] != -out[9] {
			c.Fail("cmp:CompareV-antisymm", desc("CompareV(b,a) = -CompareV(a,b)"), line)
		}
		// y of each segment at xs: the own endpoint if it starts there, else the exact line value
		yAt := func(s cmpSP) *big.Rat {
			if s.X == xs {
				return cmpRat(s.Y)
			}
			return cmpExactY(s, xs)
		}
		if sg := yAt(a).Cmp(yAt(b)); sg != 0 {
			c.Count("cmp:oracle:CompareV-spec-y")
			if out[9] != sg || out[10] != -sg {
				c.Fail("cmp:CompareV-spec-y", desc(fmt.Sprintf("CompareV(a,b) = sign(ya-yb) = %d at x=%v", sg, xs)), line)
			}
		} else {
			c.Count("cmp:oracle:CompareV-tie-at-x")
		}
	}
}

func runCmp(c *hc.Ctx) {
	n := c.N * 10
	for i := 0; i < n; i++ {
		var a, b cmpSP
		var class string
		exact := true
		mode := c.Intn(2) // integer or dyadic coordinates for the structured classes
		bothLeft := func() (bool, bool) {
			switch r := c.Intn(10); {
			case r < 6:
				return true, true
			case r < 8:
				return false, false
			case r < 9:
				return true, false
			}
			return false, true
		}
		switch r := c.Intn(100); {
		case r < 16:
			class = "int"
			la, lb := bothLeft()
			a, b = cmpSeg(c, 0, la), cmpSeg(c, 0, lb)
		case r < 28:
			class = "dyadic"
			la, lb := bothLeft()
			a, b = cmpSeg(c, 1, la), cmpSeg(c, 1, lb)
		case r < 38:
			class, exact = "float", false
			la, lb := bothLeft()
			a, b = cmpSeg(c, 2, la), cmpSeg(c, 2, lb)
			if c.Chance(0.3) {
				b.X = a.X
				b.Vertical = b.X == b.OX
			}
			if c.Chance(0.3) {
				b.Y = a.Y
			}
		case r < 50:
			class = "shared-left"
			a, b = cmpSeg(c, mode, true), cmpSeg(c, mode, true)
			b = cmpMoveTo(b, a.X, a.Y)
		case r < 57:
			class = "shared-right"
			a, b = cmpSeg(c, mode, false), cmpSeg(c, mode, false)
			b = cmpMoveTo(b, a.X, a.Y)
		case r < 64:
			class = "shared-mixed" // right endpoint of a at the left endpoint of b (and other mixes)
			a, b = cmpSeg(c, mode, c.Bool()), cmpSeg(c, mode, c.Bool())
			b = cmpMoveTo(b, a.X, a.Y)
		case r < 71:
			class = "overlap" // the same segment; ids and clipping may differ
			a = cmpSeg(c, mode, c.Chance(0.7))
			b = a
			b.Clipping, b.Segment = c.Bool(), c.Intn(4)
			if c.Chance(0.3) {
				b.Segment = a.Segment
			}
		case r < 80:
			class = "collinear" // two pieces of one line, lattice direction
			px, py := cmpCoord(c, 0), cmpCoord(c, 0)
			dx, dy := float64(c.Intn(4)), float64(c.Intn(7)-3)
			if dx == 0 && dy == 0 {
				dx = 1
			}
			pt := func(k int) (float64, float64) { return px + float64(k)*dx, py + float64(k)*dy }
			i0, i1, j0, j1 := c.Intn(6)-2, c.Intn(6)-2, c.Intn(6)-2, c.Intn(6)-2
			if c.Chance(0.5) {
				j0 = i0
			}
			x0, y0 := pt(i0)
			x1, y1 := pt(i1)
			a = cmpMk(c, x0, y0, x1, y1)
			x0, y0 = pt(j0)
			x1, y1 = pt(j1)
			b = cmpMk(c, x0, y0, x1, y1)
		case r < 90:
			class = "touch" // an endpoint of b lies on the segment a (T-junction / crossing at a vertex)
			a = cmpSeg(c, mode, true)
			den := float64(int(1) << uint(c.Intn(3)))
			k := float64(c.Intn(int(den) + 1))
			bx, by := a.X+(a.OX-a.X)*k/den, a.Y+(a.OY-a.Y)*k/den
			b = cmpMk(c, bx, by, cmpCoord(c, mode), cmpCoord(c, mode))
			if c.Chance(0.3) {
				a, b = b, a
			}
		case r < 96:
			class = "bad-flag" // vertical / left flags inconsistent with the coordinates
			a, b = cmpSeg(c, 0, c.Bool()), cmpSeg(c, 0, c.Bool())
			if c.Chance(0.5) {
				b = cmpMoveTo(b, a.X, a.Y)
			}
			a.Vertical, b.Vertical = c.Bool(), c.Bool()
			if c.Chance(0.5) {
				a.Left, b.Left = c.Bool(), c.Bool()
			}
		default:
			class, exact = "special", false // signed zeros, Inf, NaN, overflow, subnormals, 1 ulp
			sp := func() float64 { return cmpSpecials[c.Intn(len(cmpSpecials))] }
			a = cmpSP{X: sp(), Y: sp(), OX: sp(), OY: sp(), Left: c.Bool(), Vertical: c.Bool(), Clipping: c.Bool(), Segment: c.Intn(3)}
			b = cmpSP{X: sp(), Y: sp(), OX: sp(), OY: sp(), Left: c.Bool(), Vertical: c.Bool(), Clipping: c.Bool(), Segment: c.Intn(3)}
			if c.Chance(0.5) {
				b.X, b.Y = a.X, a.Y
			}
			if c.Chance(0.5) {
				a.Vertical, b.Vertical = a.X == a.OX, b.X == b.OX
			}
		}
		out := canvas.VerifCmpCompare(a, b)
		strs := make([]string, len(out))
		for k, v := range out {
			strs[k] = fmt.Sprint(v)
		}
		line := cmpLine(a, b)
		c.Case(line, "=", strings.Join(strs, " "))
		c.Distinct(line)
		c.Count("cmp:class:" + class)
		c.Count(fmt.Sprintf("cmp:CompareV=%d", out[9]))
		c.Count(fmt.Sprintf("cmp:compareH=%d", out[2]))
		c.Count(fmt.Sprintf("cmp:tangentsV=%d", out[5]))
		c.Count(fmt.Sprintf("cmp:overlapsV=%d", out[4]))
		if exact {
			cmpOracle(c, a, b, out, line)
		} else if cmpFinite(a) && cmpFinite(b) && cmpWF(a) && cmpWF(b) && a.Left == b.Left {
			// statistic only (rounded arithmetic is outside the theorems): does antisymmetry
			// survive rounding (class float) and overflow to Inf/NaN (class special) on well-formed
			// finite float input?
			if out[3] == -out[2] && out[10] == -out[9] && out[6] == -out[5] {
				c.Count("cmp:float-stat:" + class + ":antisymm-holds")
			} else {
				c.Count("cmp:float-stat:" + class + ":antisymm-broken")
				c.Sample("cmp float antisymmetry broken: " + line)
			}
		}
	}
}
