package main

import (
	"fmt"
	"math"
	"strings"

	"github.com/tdewolff/canvas"
	"verifharness/hc"
)

func main() { hc.Main("C01", run) }

var opNames = []string{"and", "or", "not", "xor", "div"}

// applyPaths uses the Paths entry points with each compound operand as a single element
func applyPaths(op string, p, q *canvas.Path) *canvas.Path {
	ps, qs := canvas.Paths{p}, canvas.Paths{q}
	switch op {
	case "and":
		return ps.And(qs)
	case "or":
		return ps.Or(qs)
	case "not":
		return ps.Not(qs)
	case "xor":
		return ps.Xor(qs)
	case "div":
		return ps.DivideBy(qs)
	}
	panic(op)
}

func apply(op string, p, q *canvas.Path) *canvas.Path {
	switch op {
	case "and":
		return p.And(q)
	case "or":
		return p.Or(q)
	case "not":
		return p.Not(q)
	case "xor":
		return p.Xor(q)
	case "div":
		return p.DivideBy(q)
	}
	panic(op)
}

func regionOp(op string, a, b bool) bool {
	switch op {
	case "and":
		return a && b
	case "or":
		return a || b
	case "not":
		return a && !b
	case "xor":
		return a != b
	}
	return a
}

// prefilterApplies reproduces the library's bounding-box pre-filter decision (Rect.Touches with
// Epsilon 1e-10): some contour of one operand touches no contour of the other operand and is
// therefore settled on its own, outside the sweep. Used only to *name* the failure class.
func prefilterApplies(cp, cq [][]hc.P2) bool {
	box := func(c []hc.P2) [4]float64 {
		b := [4]float64{math.Inf(1), math.Inf(1), math.Inf(-1), math.Inf(-1)}
		for _, v := range c {
			b[0], b[1] = math.Min(b[0], v.X), math.Min(b[1], v.Y)
			b[2], b[3] = math.Max(b[2], v.X), math.Max(b[3], v.Y)
		}
		return b
	}
	const eps = 1e-10
	touches := func(r, q [4]float64) bool {
		if q[2]+eps < r[0] || r[2] < q[0]-eps {
			return false
		} else if q[3]+eps < r[1] || r[3] < q[1]-eps {
			return false
		}
		return true
	}
	po, qo := make([]bool, len(cp)), make([]bool, len(cq))
	for i := range cp {
		for j := range cq {
			if touches(box(cp[i]), box(cq[j])) {
				po[i], qo[j] = true, true
			}
		}
	}
	for _, b := range po {
		if !b {
			return true
		}
	}
	for _, b := range qo {
		if !b {
			return true
		}
	}
	return false
}

// delta = 4 x snap grid (DESIGN §8), as float64
var delta = 4 * canvas.BentleyOttmannEpsilon

func run(c *hc.Ctx) {
	// 1. L1: FillRule.Fills and SweepPoint.InResult, enumerated over the whole table for windings
	//    in [-w, w] (w = 2 quick, 4 thorough: 6 ops x 4 rules x 2 x 2 flags x (2w+1)^4)
	w := 2
	if c.Tier == "thorough" {
		w = 3
	}
	fills := canvas.VerifFuncs["FillRule.Fills"].(func(canvas.FillRule, int) bool)
	for r := 0; r < 4; r++ {
		for x := -6; x <= 6; x++ {
			c.Case(fmt.Sprintf("L1 FillRule.Fills %d %d", r, x), "=", hc.B(fills(canvas.FillRule(r), x)))
		}
	}
	inres := canvas.VerifFuncs["SweepPoint.InResult"].(func(bool, bool, int, int, int, int, int, canvas.FillRule) uint8)
	for op := 0; op < 6; op++ {
		for r := 0; r < 4; r++ {
			for fl := 0; fl < 4; fl++ {
				clip, open := fl&1 == 1, fl&2 == 2
				for a := -w; a <= w; a++ {
					for b := -w; b <= w; b++ {
						for s := -1; s <= 1; s++ {
							for t := -1; t <= 1; t++ {
								// record order of the dispatcher: clipping open otherSelfWindings otherWindings selfWindings windings
								c.Case(fmt.Sprintf("L1 SweepPoint.InResult %s %s %d %d %d %d %d %d", hc.B(clip), hc.B(open), t, b, s, a, op, r), "=",
									fmt.Sprint(inres(clip, open, t, b, s, a, op, canvas.FillRule(r))))
							}
						}
					}
				}
			}
		}
	}
	c.Count("l1:InResult-table")

	// 1b. L2 column model: computeSweepFields folded bottom-to-top over random columns
	for it := 0; it < c.N*4; it++ {
		n := 1 + c.Intn(12)
		flags := make([][4]bool, n)
		var toks []string
		for i := range flags {
			flags[i] = [4]bool{c.Bool(), c.Chance(0.25), c.Bool(), c.Chance(0.15)}
			if flags[i][0] {
				flags[i][3] = false // clipping paths are never open
			}
			for _, b := range flags[i] {
				toks = append(toks, hc.B(b))
			}
		}
		op, rule := c.Intn(6), c.Intn(4)
		var outs []string
		for _, r := range canvas.VerifSweepColumn(flags, op, canvas.FillRule(rule)) {
			outs = append(outs, fmt.Sprintf("%d %d %d", r[0], r[1], r[2]))
		}
		line := fmt.Sprintf("COL %d %d %s", op, rule, strings.Join(toks, " "))
		c.Case(line, "=", strings.Join(outs, " "))
		c.Distinct(line)
		c.Count(fmt.Sprintf("column-height:%d", n))
		if it == 0 {
			c.Sample(line + " => " + strings.Join(outs, " "))
		}
	}

	// 1c. second wave: the sweep-line data structures against their Lean models (structs.go,
	//     heap.go, cmp.go): SweepStatus AVL tree, mergeOverlapping, SweepEvents heap, comparators.
	//     They run before the region refinement (a broken data structure makes the sweep hang) on
	//     their own PRNG stream, so the inputs of the region cases below are unchanged.
	failsBefore := len(c.Fails)
	c.WithStream("c01-structs", func() {
		runStructs(c)
		runHeap(c)
		runCmp(c)
	})
	c.WithStream("c01-split", func() { runSplit(c) })
	if len(c.Fails) > failsBefore {
		// a sweep running on a broken status tree / event queue / comparator need not terminate:
		// the failures above already decide the check
		c.Count("region-refinement-skipped(data-structure oracle failed)")
		return
	}

	// 2. region refinement: real And/Or/Not/Xor/DivideBy judged by the exact Lean specification
	for it := 0; it < c.N; it++ {
		var pool []hc.P2
		class := []int{0, 0, 0, 1, 1, 2, 3, 3, 4}[c.Intn(9)]
		class2 := class
		if c.Chance(0.3) {
			class2 = []int{0, 1, 2, 3, 4}[c.Intn(5)]
		}
		P := c.GenPolygon(class, &pool, true)
		Q := c.GenPolygon(class2, &pool, true)
		variant := c.Intn(10) // 0: Q = P (P op P), 1: swapped arguments as an extra call
		if variant == 0 {
			Q = P.Copy()
		}
		key := P.String() + "|" + Q.String()
		fp, fq := P.Flatten(canvas.Tolerance), Q.Flatten(canvas.Tolerance)
		cp, ok1 := hc.Contours(fp)
		cq, ok2 := hc.Contours(fq)
		if !ok1 || !ok2 {
			c.Count("skip-undecodable")
			continue
		}
		overl := hc.OverlappingEdges(cp, cq)
		if overl {
			c.Count("input-with-overlapping-edges")
		}
		// distinct vertices closer than 2.5 cells of the 1e-8 snap grid (class 1 perturbs vertices by
		// 1e-7..1e-9): the recorded sub-grid defect applies to region failures of such operands only
		sfx := ""
		if overl {
			sfx = "+overlapping-edges"
		} else if hc.SubGridVertices(2.5*canvas.BentleyOttmannEpsilon, cp, cq) {
			sfx = "+sub-grid-vertices"
			c.Count("input-with-sub-grid-vertices")
		}
		for _, op := range opNames {
			c.Evals++
			var R *canvas.Path
			pc, qc := P.Copy(), Q.Copy()
			viaPaths := c.Chance(0.25)
			if viaPaths {
				c.Count("entry:Paths." + op)
			}
			if msg := hc.Try(func() {
				if viaPaths {
					R = applyPaths(op, pc, qc)
				} else {
					R = apply(op, pc, qc)
				}
			}); msg != "" {
				first := strings.SplitN(msg, "\n", 2)[0]
				pk := "panic:" + op + ":" + first
				if overl {
					pk += "+overlapping-edges"
				}
				c.Fail(pk, op+" panicked: "+first, map[string]any{"op": op, "P": P.String(), "Q": Q.String()})
				continue
			}
			cr, ok := hc.Contours(R)
			if !ok {
				c.Fail("result-not-flat:"+op, "result is not a flat well-formed path", map[string]any{"op": op, "P": P.String(), "Q": Q.String(), "R": R.String()})
				continue
			}
			pts := c.SamplePoints(40, cp, cq, cr)
			// float oracle: used in the search tier only (the deciding evaluation is the exact Lean
			// specification below); it yields a readable failing input
			for _, pt := range pts {
				if c.Tier != "search" {
					break
				}
				if hc.DistToContours(pt, cp) < 4*delta || hc.DistToContours(pt, cq) < 4*delta || hc.DistToContours(pt, cr) < 4*delta {
					continue
				}
				exp := regionOp(op, hc.WnFloat(pt, cp) != 0, hc.WnFloat(pt, cq) != 0)
				wr := hc.WnFloat(pt, cr)
				if exp != (wr != 0) {
					cls := "boundary"
					if (wr%2 != 0) == exp {
						cls = "orientation-only"
					}
					if prefilterApplies(cp, cq) {
						cls += "+prefilter"
					}
					cls += sfx
					c.Fail("region:"+op+":"+cls, fmt.Sprintf("%s: point (%v,%v) expected filled=%v, result winding %d", op, pt.X, pt.Y, exp, wr),
						map[string]any{"op": op, "P": P.String(), "Q": Q.String(), "R": R.String(), "point": []float64{pt.X, pt.Y}})
					break
				}
			}
			line := fmt.Sprintf("REGION bool %s %s P %s Q %s R %s PTS %s", op, hc.H(delta), hc.PolyTokens(cp), hc.PolyTokens(cq), hc.PolyTokens(cr), hc.PtsTokens(pts))
			kind := "region:" + op
			if prefilterApplies(cp, cq) {
				kind += " +prefilter"
			}
			if sfx != "" {
				if strings.Contains(kind, " ") {
					kind += sfx
				} else {
					kind += " " + sfx
				}
			}
			c.Case(line, "!", kind)
			c.Count(fmt.Sprintf("op:%s class:%d", op, class))
			if len(cr) > 0 {
				c.Distinct(op + key)
			}
			if it == 0 && op == "xor" {
				c.Sample(fmt.Sprintf("%s of %q and %q -> %q", op, P.String(), Q.String(), R.String()))
			}
			// commutativity on the real code for and/or/xor: compared as regions through the same oracle
			if variant == 1 && (op == "and" || op == "or" || op == "xor") {
				var R2 *canvas.Path
				if msg := hc.Try(func() { R2 = apply(op, Q.Copy(), P.Copy()) }); msg == "" {
					if cr2, ok := hc.Contours(R2); ok {
						line := fmt.Sprintf("REGION bool %s %s P %s Q %s R %s PTS %s", op, hc.H(delta), hc.PolyTokens(cq), hc.PolyTokens(cp), hc.PolyTokens(cr2), hc.PtsTokens(pts))
						sk := "region-swapped:" + op
						if prefilterApplies(cq, cp) {
							sk += " +prefilter"
						}
						if sfx != "" {
							if strings.Contains(sk, " ") {
								sk += sfx
							} else {
								sk += " " + sfx
							}
						}
						c.Case(line, "!", sk)
						c.Count("swapped:" + op)
					}
				}
			}
			// inclusion-exclusion of areas
			_ = math.Abs
		}
	}

	// 2b. recorded inputs of repaired sweep defects (corpus/C01/overlap-rootcause.md: A = event queue
	//     order after Reverse, B = tolerance-square membership, C = first segment vertical): judged on
	//     every run by the exact Lean specification; their kinds match no known finding
	for _, rc := range [][3]string{
		{"or", "M1 1L0 3L2 2z", "M0 0L2 1L3 3zM2 1L1 2L0 2z"},
		{"and", "M1 3L3 1L2 1zM3 0L3 2L1 0z", "M0 3L3 1L3 0zM1 3L1 0L3 1z"},
		{"xor", "M2 2L1 0L1 1z", "M0 2L3 0L3 3zM1 0L1 1L3 1z"},
		{"not", "M1 1L0 3L2 2zM0 0L3 3L2 1z", "M2 1L1 2L0 2z"},
		{"or", "M0 3L2 2L0 0zM1 2L2 0L0 2z", "M3 1L1 0L3 2zM1 2L2 0L0 0z"},
		{"and", "M2 0L1 2L0 3zM0 1L2 2L0 3z", "M2 3L0 2L1 1zM0 3L1 3L0 1z"},
		{"not", "M0 2L2 0L2 2zM1 1L2 1L3 0z", "M2 1L1 1L2 0zM0 3L2 2L1 0z"},
		// DivideBy (corpus/C01/div-rootcause.md): hole orientation, hole met by a cut, dead ends of
		// cancelled overlapping segments
		{"div", "M4 2L4 4L8 4L8 2zM3 -3L10 -3L10 5L3 5z", "M4 2L4 4L8 4L8 2zM3 -3L10 -3L10 5L3 5z"},
		{"div", "M0 0L10 0L10 10L0 10zM3 3L3 6L6 6L6 3z", "M5 4L8 4L8 5L5 5z"},
		{"div", "M0 0L10 0L10 10L0 10z", "M-1 5L5 5"},
		{"div", "M-4 1L5 3L5 -4z", "M5 -4L1 2L5 -4L8 2L5 -4L0 -4L8 2z"},
	} {
		op := rc[0]
		P, Q := canvas.MustParseSVGPath(rc[1]), canvas.MustParseSVGPath(rc[2])
		cp, _ := hc.Contours(P)
		cq, _ := hc.Contours(Q)
		c.Evals++
		var R *canvas.Path
		if msg := hc.Try(func() { R = apply(op, P.Copy(), Q.Copy()) }); msg != "" {
			first := strings.SplitN(msg, "\n", 2)[0]
			c.Fail("panic:"+op+":"+first+"+recorded-sweep-input", op+" panicked: "+first, map[string]any{"op": op, "P": rc[1], "Q": rc[2]})
			continue
		}
		cr, ok := hc.Contours(R)
		if !ok {
			c.Fail("result-not-flat:"+op+"+recorded-sweep-input", "result is not a flat well-formed path", map[string]any{"op": op, "P": rc[1], "Q": rc[2], "R": R.String()})
			continue
		}
		pts := c.SamplePoints(60, cp, cq, cr)
		for x := -0.37; x < 3.5; x += 0.2113 {
			for y := -0.41; y < 3.5; y += 0.1931 {
				pts = append(pts, hc.P2{X: x, Y: y})
			}
		}
		line := fmt.Sprintf("REGION bool %s %s P %s Q %s R %s PTS %s", op, hc.H(delta), hc.PolyTokens(cp), hc.PolyTokens(cq), hc.PolyTokens(cr), hc.PtsTokens(pts))
		c.Case(line, "!", "region:"+op+" +recorded-sweep-input")
		c.Count("recorded-sweep-input")
	}

	// 3. bulk class: one or two non-degenerate triangles per operand on a 4x4 integer grid. Shared
	//    edges, vertices on edges and crossings at inexact points are the rule here, every call is
	//    cheap, and the library handles the whole class correctly (no recorded defect applies: the
	//    kinds carry the suffix +small-grid and match no known finding). The float winding number is
	//    exact for the integer operands and only pre-selects: every suspected case, and a random 2%,
	//    goes to the exact Lean specification, which decides.
	c.WithStream("c01-small-grid", func() {
		tri := func(p *canvas.Path) {
			for {
				a := hc.P2{X: float64(c.Intn(4)), Y: float64(c.Intn(4))}
				b := hc.P2{X: float64(c.Intn(4)), Y: float64(c.Intn(4))}
				d := hc.P2{X: float64(c.Intn(4)), Y: float64(c.Intn(4))}
				if b.Sub(a).Cross(d.Sub(a)) == 0 {
					continue
				}
				p.MoveTo(a.X, a.Y)
				p.LineTo(b.X, b.Y)
				p.LineTo(d.X, d.Y)
				p.Close()
				return
			}
		}
		ops := []string{"and", "or", "xor", "not"}
		for it := 0; it < c.N*60; it++ {
			P, Q := &canvas.Path{}, &canvas.Path{}
			tri(P)
			if c.Chance(0.4) {
				tri(P)
			}
			tri(Q)
			if c.Chance(0.4) {
				tri(Q)
			}
			op := ops[c.Intn(len(ops))]
			cp, _ := hc.Contours(P)
			cq, _ := hc.Contours(Q)
			if c.Chance(0.2) && !hc.OverlappingEdges(cp, cq) {
				op = "div" // strict since 3d5f44d/b3742d9 when no edges overlap collinearly
			}
			// since e1c72e9/1501096/4e53250 the whole class is handled correctly, shared edges included:
			// no recorded defect applies (the suffix matches no known finding)
			sg := "+small-grid"
			if hc.OverlappingEdges(cp, cq) {
				c.Count("small-grid:with-overlapping-edges")
			}
			c.Evals++
			var R *canvas.Path
			if msg := hc.Try(func() { R = apply(op, P.Copy(), Q.Copy()) }); msg != "" {
				first := strings.SplitN(msg, "\n", 2)[0]
				c.Fail("panic:"+op+":"+first+sg, op+" panicked: "+first, map[string]any{"op": op, "P": P.String(), "Q": Q.String()})
				continue
			}
			cr, ok := hc.Contours(R)
			if !ok {
				c.Fail("result-not-flat:"+op+sg, "result is not a flat well-formed path", map[string]any{"op": op, "P": P.String(), "Q": Q.String(), "R": R.String()})
				continue
			}
			pts := c.SamplePoints(24, cp, cq, cr)
			suspect := false
			for _, pt := range pts {
				if hc.DistToContours(pt, cp) < 4*delta || hc.DistToContours(pt, cq) < 4*delta || hc.DistToContours(pt, cr) < 4*delta {
					continue
				}
				if regionOp(op, hc.WnFloat(pt, cp) != 0, hc.WnFloat(pt, cq) != 0) != (hc.WnFloat(pt, cr) != 0) {
					suspect = true
					break
				}
			}
			c.Count("small-grid:" + op + sg)
			if suspect || c.Chance(0.02) {
				line := fmt.Sprintf("REGION bool %s %s P %s Q %s R %s PTS %s", op, hc.H(delta), hc.PolyTokens(cp), hc.PolyTokens(cq), hc.PolyTokens(cr), hc.PtsTokens(pts))
				c.Case(line, "!", "region:"+op+" "+sg)
				if suspect {
					c.Count("small-grid:suspected-by-float-oracle")
				}
			}
		}
	})
}
