package main

// Second-wave C01 correspondence: the sweep-line data structures of path_intersection.go driven
// directly through hooks (verif_hooks_c01b.go).
//
//  AVLI/AVLR/AVLQ  the real SweepStatus (InsertAfter / Remove / First / Last / Prev / Next) against
//                  the functional AVL model lean/CanvasModel/C01Avl.lean: after every operation the
//                  complete pre-order dump (payload ids and *stored* heights) must be equal.
//  MRG             the real mergeOverlapping on a synthetic prev-chain against C01Merge.lean.
//
// Independent Go-side oracles judge the property predicates on the real tree (in-order sequence
// against a plain slice, AVL balance and stored heights against recomputed heights, pointer links).

import (
	"fmt"
	"strings"

	"github.com/tdewolff/canvas"
	"verifharness/hc"
)

// ---- functional mirror of the model, used for the rotation-case histogram only; it is itself
// checked against the real tree after every operation ----

type mnode struct {
	l, r  *mnode
	id, h int
}

func mht(n *mnode) int {
	if n == nil {
		return 0
	}
	return n.h
}
func mbal(n *mnode) int { return mht(n.r) - mht(n.l) }
func mupd(n *mnode) *mnode {
	h := mht(n.l)
	if h < mht(n.r) {
		h = mht(n.r)
	}
	return &mnode{n.l, n.r, n.id, h + 1}
}
func mrotL(a *mnode) *mnode {
	b := a.r
	return &mnode{&mnode{a.l, b.l, a.id, a.h}, b.r, b.id, b.h}
}
func mrotR(a *mnode) *mnode {
	b := a.l
	return &mnode{b.l, &mnode{b.r, a.r, a.id, a.h}, b.id, b.h}
}

// mstep is the loop body of rebalance; rot receives the rotation case
func mstep(n *mnode, rot func(string)) *mnode {
	switch b := mbal(n); {
	case b == 2:
		if n.r != nil && mbal(n.r) < 0 {
			rr := mrotR(n.r)
			rr = &mnode{rr.l, mupd(rr.r), rr.id, rr.h}
			n = &mnode{n.l, rr, n.id, n.h}
			rot("right-left")
		} else {
			rot("left")
		}
		n = mrotL(n)
		n = &mnode{mupd(n.l), n.r, n.id, n.h}
	case b == -2:
		if n.l != nil && 0 < mbal(n.l) {
			ll := mrotL(n.l)
			ll = &mnode{mupd(ll.l), ll.r, ll.id, ll.h}
			n = &mnode{ll, n.r, n.id, n.h}
			rot("left-right")
		} else {
			rot("right")
		}
		n = mrotR(n)
		n = &mnode{n.l, mupd(n.r), n.id, n.h}
	case b < -2 || 2 < b:
		panic("mirror: out of shape")
	default:
		rot("none")
	}
	return mupd(n)
}

func msize(n *mnode) int {
	if n == nil {
		return 0
	}
	return msize(n.l) + 1 + msize(n.r)
}

func mins(t *mnode, k, x int, rot func(string)) (*mnode, bool) {
	leaf := &mnode{nil, nil, x, 1}
	stepF := func(n *mnode) (*mnode, bool) {
		m := mstep(n, rot)
		return m, m.h != n.h
	}
	if sl := msize(t.l); k <= sl {
		if t.l == nil {
			h := t.h
			if t.r == nil {
				h++
			}
			return &mnode{leaf, t.r, t.id, h}, t.r == nil
		}
		l, g := mins(t.l, k, x, rot)
		n := &mnode{l, t.r, t.id, t.h}
		if g {
			return stepF(n)
		}
		return n, false
	} else {
		if t.r == nil {
			h := t.h
			if t.l == nil {
				h++
			}
			return &mnode{t.l, leaf, t.id, h}, t.l == nil
		}
		r, g := mins(t.r, k-sl-1, x, rot)
		n := &mnode{t.l, r, t.id, t.h}
		if g {
			return stepF(n)
		}
		return n, false
	}
}

func minsertAt(t *mnode, k, x int, rot func(string)) *mnode {
	if t == nil {
		return &mnode{nil, nil, x, 1}
	}
	if t.l == nil && t.r == nil {
		rot("leaf-root(stale height)")
		if k == 0 {
			return &mnode{&mnode{nil, nil, x, 1}, nil, t.id, t.h}
		}
		return &mnode{nil, &mnode{nil, nil, x, 1}, t.id, t.h}
	}
	n, _ := mins(t, k, x, rot)
	return n
}

func mremMin(t *mnode, rot func(string)) (id, h int, rest *mnode) {
	if t.l == nil {
		return t.id, t.h, t.r
	}
	id, h, l := mremMin(t.l, rot)
	return id, h, mstep(&mnode{l, t.r, t.id, t.h}, rot)
}

func mrem(t *mnode, k int, rot func(string)) *mnode {
	sl := msize(t.l)
	switch {
	case k < sl:
		return mstep(&mnode{mrem(t.l, k, rot), t.r, t.id, t.h}, rot)
	case k == sl:
		if t.l == nil {
			return t.r
		} else if t.r == nil {
			return t.l
		}
		id, h, r := mremMin(t.r, rot)
		return mstep(&mnode{t.l, r, id, h}, rot)
	default:
		return mstep(&mnode{t.l, mrem(t.r, k-sl-1, rot), t.id, t.h}, rot)
	}
}

func mdump(n *mnode, sb *strings.Builder) {
	if n == nil {
		sb.WriteString(" .")
		return
	}
	fmt.Fprintf(sb, " %d:%d", n.id, n.h)
	mdump(n.l, sb)
	mdump(n.r, sb)
}

// ---- oracle on the dump of the real tree ----

type dnode struct {
	l, r  *dnode
	id, h int
}

func parseDump(toks []string, pos *int) *dnode {
	t := toks[*pos]
	*pos++
	if t == "." {
		return nil
	}
	var id, h int
	fmt.Sscanf(t, "%d:%d", &id, &h)
	n := &dnode{id: id, h: h}
	n.l = parseDump(toks, pos)
	n.r = parseDump(toks, pos)
	return n
}

// checkAVL returns the true height and the first violation among: |balance| <= 1 at every node,
// stored height == true height at every node except the root (root: reported separately)
func checkAVL(n *dnode, isRoot bool, staleRoot *bool) (int, string) {
	if n == nil {
		return 0, ""
	}
	hl, e := checkAVL(n.l, false, nil)
	if e != "" {
		return 0, e
	}
	hr, e := checkAVL(n.r, false, nil)
	if e != "" {
		return 0, e
	}
	h := hl
	if h < hr {
		h = hr
	}
	h++
	if hl-hr > 1 || hr-hl > 1 {
		return h, fmt.Sprintf("node %d unbalanced: true heights %d / %d", n.id, hl, hr)
	}
	if n.h != h {
		if isRoot {
			*staleRoot = true
		} else {
			return h, fmt.Sprintf("node %d stores height %d, true height %d", n.id, n.h, h)
		}
	}
	return h, ""
}

func inorder(n *dnode, out *[]int) {
	if n == nil {
		return
	}
	inorder(n.l, out)
	*out = append(*out, n.id)
	inorder(n.r, out)
}

func idStr(v int) string {
	if v < 0 {
		return "-"
	}
	return fmt.Sprint(v)
}

func intsStr(v []int) string {
	s := make([]string, len(v))
	for i, x := range v {
		s[i] = fmt.Sprint(x)
	}
	return strings.Join(s, " ")
}

func runAVL(c *hc.Ctx) {
	nseq := c.N / 5
	fails := 0
	for seq := 0; seq < nseq; seq++ {
		kind := seq % 7
		maxLen := 40 + c.Intn(161) // <= 200
		if kind == 6 {
			maxLen = 60
		}
		if fails >= 5 {
			return
		}
		failsAtStart := fails
		avl := canvas.NewVerifAVL()
		var mirror *mnode
		var ref []int
		nextID := 1
		history := []string{}
		c.Count(fmt.Sprintf("avl:history-kind:%d", kind))
		for step := 0; step < maxLen; step++ {
			n := len(ref)
			// choose the operation
			insert := true
			k := 0
			switch kind {
			case 0: // random mixed
				insert = n == 0 || c.Chance(0.6)
			case 1: // sorted run (always after the last), then removals from the front
				insert = step < maxLen*2/3
				k = n
			case 2: // reverse-sorted run (always before the first), then removals from the back
				insert = step < maxLen*2/3
				if !insert {
					k = n - 1
				}
			case 3: // zig-zag around the middle: forces the double rotations
				insert = n < 3 || c.Chance(0.75)
				k = n/2 + step%2
			case 4: // grow, then drain by random removals
				insert = step < maxLen/2
			case 5: // hover around a small size: many removals with two children
				insert = n < 8 || (n < 24 && c.Bool())
			case 6: // tiny trees: leaf root / stale root height cases
				insert = n == 0 || (n < 4 && c.Chance(0.55))
			}
			if n == 0 {
				insert = true
			}
			if kind == 0 || kind == 4 || kind == 5 || kind == 6 || (kind == 3 && c.Chance(0.2)) {
				if insert {
					k = c.Intn(n + 1)
				} else {
					k = c.Intn(n)
				}
			}
			if insert && k > n {
				k = n
			}
			if !insert && k >= n {
				k = n - 1
			}
			before := avl.Dump()
			var line string
			rots := []string{}
			rot := func(s string) { rots = append(rots, s) }
			var msg string
			if insert {
				id := nextID
				nextID++
				line = fmt.Sprintf("AVLI %s %d %d", before, k, id)
				history = append(history, fmt.Sprintf("i%d", k))
				msg = hc.Try(func() { avl.InsertAt(k, id) })
				ref = append(ref[:k], append([]int{id}, ref[k:]...)...)
				mirror = minsertAt(mirror, k, id, rot)
				c.Count("avl:op:insert")
			} else {
				line = fmt.Sprintf("AVLR %s %d", before, k)
				history = append(history, fmt.Sprintf("r%d", k))
				msg = hc.Try(func() { avl.RemoveAt(k) })
				ref = append(ref[:k:k], ref[k+1:]...)
				mirror = mrem(mirror, k, rot)
				c.Count("avl:op:remove")
			}
			c.Evals++
			replay := map[string]any{"history": strings.Join(history, " ")}
			if msg != "" {
				first := strings.SplitN(msg, "\n", 2)[0]
				c.Case(line, "=", "PANIC")
				if fails < 20 {
					fails++
					c.Fail("avl:panic:"+first, "SweepStatus operation panicked: "+first, replay)
				}
				break
			}
			after := avl.Dump()
			c.Case(line, "=", after)
			c.Distinct(line)
			// histogram of rotation cases (from the mirror, which is checked against the real dump)
			nrot := 0
			for _, r := range rots {
				if strings.HasPrefix(r, "leaf-root") {
					c.Count("avl:case:insert-under-leaf-root(root height left stale)")
				} else if r != "none" {
					c.Count("avl:rotation:" + r)
					nrot++
				}
			}
			if insert {
				c.Count(fmt.Sprintf("avl:rotations-per-insert:%d", nrot))
			} else {
				c.Count(fmt.Sprintf("avl:rotations-per-remove:%d", nrot))
			}
			sb := strings.Builder{}
			mdump(mirror, &sb)
			if sb.String()[1:] != after && fails < 20 {
				fails++
				c.Fail("avl:mirror-mismatch", "Go mirror of the model and the real tree differ: "+after+" vs "+sb.String()[1:], replay)
			}
			// independent oracles on the real tree
			pos := 0
			root := parseDump(strings.Fields(after), &pos)
			var got []int
			inorder(root, &got)
			if intsStr(got) != intsStr(ref) && fails < 20 {
				fails++
				c.Fail("avl:inorder", fmt.Sprintf("in-order sequence %v, expected %v", got, ref), replay)
			}
			stale := false
			if _, e := checkAVL(root, true, &stale); e != "" && fails < 20 {
				fails++
				c.Fail("avl:invariant", e, replay)
			}
			if stale {
				c.Count("avl:root-height-stale(observed)")
			}
			if e := avl.CheckLinks(); e != "" && fails < 20 {
				fails++
				c.Fail("avl:links", e, replay)
			}
			if fails > failsAtStart {
				// a tree that violated an invariant is not driven further: the real code need not
				// terminate on it (Remove's ancestor loop can rotate back and forth forever)
				break
			}
			if len(ref) > 0 {
				c.Count(fmt.Sprintf("avl:size-bucket:%d", (len(ref)+24)/25*25))
			}
			// queries through the real First/Last/Prev/Next
			if len(ref) > 0 && c.Chance(0.35) {
				q := c.Intn(len(ref))
				first, last, prev, next, ino := avl.Query(q)
				c.Case(fmt.Sprintf("AVLQ %s %d", after, q), "=",
					strings.TrimRight(fmt.Sprintf("%s %s %s %s %s", idStr(first), idStr(last), idStr(prev), idStr(next), intsStr(ino)), " "))
				c.Count("avl:op:query")
				wantPrev, wantNext := -1, -1
				if q > 0 {
					wantPrev = ref[q-1]
				}
				if q+1 < len(ref) {
					wantNext = ref[q+1]
				}
				if len(ino) != len(ref) {
					first, last = -2, -2 // in-order walk broken: do not index
				}
				if (first != ref[0] || last != ref[len(ref)-1] || prev != wantPrev || next != wantNext || intsStr(ino) != intsStr(ref)) && fails < 20 {
					fails++
					c.Fail("avl:neighbours", fmt.Sprintf("First/Last/Prev/Next at %d = %d %d %d %d on %v", q, first, last, prev, next, ref), replay)
				}
			}
		}
		if seq == 0 {
			c.Sample("AVL history " + strings.Join(history, " ") + " => " + avl.Dump())
		}
		hc.Try(func() { avl.Clear() }) // Clear walks Next(): under recover like every other call
	}
}

func runMerge(c *hc.Ctx) {
	for it := 0; it < c.N*3; it++ {
		n := 1 + c.Intn(7)
		ents := make([]canvas.VerifMergeEnt, n)
		ngeom := 1 + c.Intn(3)
		var toks []string
		for i := range ents {
			e := canvas.VerifMergeEnt{Clipping: c.Bool(), Vertical: c.Chance(0.15), Increasing: c.Bool(), Open: c.Chance(0.1),
				Overlapped: c.Chance(0.12), Geom: c.Intn(ngeom),
				W: c.Intn(5) - 2, OW: c.Intn(5) - 2, SW: c.Intn(3) - 1, OSW: c.Intn(3) - 1}
			if i > 0 && c.Chance(0.55) {
				e.Geom = ents[i-1].Geom // runs of coincident segments
			}
			if e.Clipping {
				e.Open = false
			}
			ents[i] = e
			toks = append(toks, hc.B(e.Clipping), hc.B(e.Vertical), hc.B(e.Increasing), hc.B(e.Open), hc.B(e.Overlapped),
				fmt.Sprint(e.Geom), fmt.Sprint(e.W), fmt.Sprint(e.OW), fmt.Sprint(e.SW), fmt.Sprint(e.OSW))
		}
		op, rule := c.Intn(6), c.Intn(4)
		line := fmt.Sprintf("MRG %d %d %s", op, rule, strings.Join(toks, " "))
		var out [][6]int
		var prev int
		var opens []bool
		if msg := hc.Try(func() { out, prev, opens = canvas.VerifMergeColumnFlags(ents, op, canvas.FillRule(rule)) }); msg != "" {
			c.Fail("merge:panic", msg, map[string]any{"line": line})
			continue
		}
		var outs []string
		absorbed := 0
		for i, r := range out {
			outs = append(outs, fmt.Sprintf("%d %d %d %d %d %d", r[0], r[1], r[2], r[3], r[4], r[5]))
			if i > 0 && r[4] == 1 && !ents[i].Overlapped {
				absorbed++
			}
		}
		var os []string
		for _, o := range opens {
			os = append(os, hc.B(o))
		}
		c.Case(line, "=", strings.Join(outs, " ")+fmt.Sprintf(" %d ", prev)+strings.Join(os, " "))
		// independent oracle (51f64dd): the run the receiver absorbs is read off the INPUT (leading
		// entries below it with its geometry that were not handled yet); afterwards the receiver is
		// open iff it was open and every absorbed segment is open; nobody else's flag changes
		wantOpen := ents[0].Open
		if !ents[0].Overlapped {
			for i := 1; i < n && !ents[i].Overlapped && ents[i].Geom == ents[0].Geom; i++ {
				wantOpen = wantOpen && ents[i].Open
			}
		}
		if opens[0] != wantOpen {
			c.Fail("merge:open-on-closed", fmt.Sprintf("receiver open=%v after mergeOverlapping, expected %v (open only if it was open and every absorbed segment is open)", opens[0], wantOpen), map[string]any{"line": line})
		}
		for i := 1; i < n; i++ {
			if opens[i] != ents[i].Open {
				c.Fail("merge:open-flag-of-other-segment-changed", fmt.Sprintf("entry %d", i), map[string]any{"line": line})
			}
		}
		c.Distinct(line)
		c.Count(fmt.Sprintf("merge:absorbed:%d", absorbed))
		c.Evals++
		// independent oracle: the signed crossing sums per polygon of the whole chain (what every
		// segment above sees) are unchanged when coincident segments agree on being vertical
		consistent := true
		for i := 1; i < n; i++ {
			if ents[i].Geom == ents[0].Geom && ents[i].Vertical != ents[0].Vertical {
				consistent = false
			}
		}
		if consistent {
			var b0, b1, a0, a1 int
			for i, e := range ents {
				if e.Vertical {
					continue
				}
				sw, osw := e.SW, e.OSW
				asw, aosw := out[i][2], out[i][3]
				if e.Clipping {
					sw, osw, asw, aosw = osw, sw, aosw, asw
				}
				b0, b1, a0, a1 = b0+sw, b1+osw, a0+asw, a1+aosw
			}
			if b0 != a0 || b1 != a1 {
				c.Fail("merge:crossing-sums-changed", fmt.Sprintf("before (%d,%d) after (%d,%d)", b0, b1, a0, a1), map[string]any{"line": line})
			}
		} else {
			c.Count("merge:skip-inconsistent-vertical-flags")
		}
		if it == 0 {
			c.Sample(line + " => " + strings.Join(outs, " "))
		}
	}
}

func runStructs(c *hc.Ctx) {
	runAVL(c)
	runMerge(c)
}
