package main

import (
	"fmt"
	"sort"
	"strconv"
	"strings"

	"github.com/tdewolff/canvas"
	"verifharness/hc"
)

// Correspondence + oracle for the SweepEvents binary heap (Lean model CanvasModel/C01Heap.lean).
//
// Protocol line:  HEAP k1 … kn | op op …   with ops
//
//	init · push K · pop · top · fix I K · down I N · up J
//
// Answer: per op `R : k1 … km ;` (R = popped/top key, 0/1 of down, or `-`), `panic` ends the line.

func heapFmtSteps(steps []canvas.VerifHeapStep) string {
	var sb strings.Builder
	for i, st := range steps {
		if i > 0 {
			sb.WriteByte(' ')
		}
		if st.Panic != "" {
			sb.WriteString("panic")
			break
		}
		if st.HasVal {
			sb.WriteString(strconv.Itoa(st.Val))
		} else {
			sb.WriteByte('-')
		}
		sb.WriteString(" :")
		for _, k := range st.Arr {
			sb.WriteByte(' ')
			sb.WriteString(strconv.Itoa(k))
		}
		sb.WriteString(" ;")
	}
	return sb.String()
}

func heapLine(keys []int, ops []canvas.VerifHeapOp) string {
	var sb strings.Builder
	sb.WriteString("HEAP")
	for _, k := range keys {
		sb.WriteByte(' ')
		sb.WriteString(strconv.Itoa(k))
	}
	sb.WriteString(" |")
	for _, op := range ops {
		switch op.Kind {
		case 0:
			sb.WriteString(" init")
		case 1:
			fmt.Fprintf(&sb, " push %d", op.A)
		case 2:
			sb.WriteString(" pop")
		case 3:
			sb.WriteString(" top")
		case 4:
			fmt.Fprintf(&sb, " fix %d %d", op.A, op.B)
		case 5:
			fmt.Fprintf(&sb, " down %d %d", op.A, op.B)
		case 6:
			fmt.Fprintf(&sb, " up %d", op.A)
		}
	}
	return sb.String()
}

// independent oracle helpers: integer keys, heap property from its definition, sorted multiset
func heapIsHeap(a []int) (bool, int) {
	for i := 1; i < len(a); i++ {
		if a[i] < a[(i-1)/2] {
			return false, i
		}
	}
	return true, 0
}

func heapSorted(a []int) []int {
	b := append([]int(nil), a...)
	sort.Ints(b)
	return b
}

func heapSameInts(a, b []int) bool {
	if len(a) != len(b) {
		return false
	}
	for i := range a {
		if a[i] != b[i] {
			return false
		}
	}
	return true
}

// refInsert / refRemove keep the reference multiset as a sorted slice
func heapRefInsert(ref []int, k int) []int {
	i := sort.SearchInts(ref, k)
	ref = append(ref, 0)
	copy(ref[i+1:], ref[i:])
	ref[i] = k
	return ref
}

func heapRefRemove(ref []int, k int) ([]int, bool) {
	i := sort.SearchInts(ref, k)
	if i >= len(ref) || ref[i] != k {
		return ref, false
	}
	return append(ref[:i], ref[i+1:]...), true
}

func heapSizeBucket(n int) string {
	switch {
	case n == 0:
		return "0"
	case n == 1:
		return "1"
	case n <= 3:
		return "2-3"
	case n <= 7:
		return "4-7"
	case n <= 15:
		return "8-15"
	case n <= 31:
		return "16-31"
	}
	return "32-40"
}

var heapShapeNames = []string{"random", "sorted", "reverse-sorted", "all-equal", "few-distinct", "distinct-shuffled"}

// heapGenKeys generates an initial array of the given shape
func heapGenKeys(c *hc.Ctx, n, shape int) []int {
	keys := make([]int, n)
	switch shape {
	case 0: // random, duplicates possible
		for i := range keys {
			keys[i] = c.Intn(201) - 100
		}
	case 1, 2: // sorted / reverse sorted (non-strict)
		for i := range keys {
			keys[i] = c.Intn(201) - 100
		}
		sort.Ints(keys)
		if shape == 2 {
			for i, j := 0, n-1; i < j; i, j = i+1, j-1 {
				keys[i], keys[j] = keys[j], keys[i]
			}
		}
	case 3: // all equal
		k := c.Intn(21) - 10
		for i := range keys {
			keys[i] = k
		}
	case 4: // few distinct values: many ties
		m := 2 + c.Intn(3)
		for i := range keys {
			keys[i] = c.Intn(m)
		}
	default: // distinct keys, shuffled
		for i := range keys {
			keys[i] = 3*i - 40
		}
		for i := n - 1; i > 0; i-- {
			j := c.Intn(i + 1)
			keys[i], keys[j] = keys[j], keys[i]
		}
	}
	return keys
}

func runHeap(c *hc.Ctx) {
	const maxSize, maxOps = 40, 60

	// 0. tie assumption: LessH on the synthetic events is the integer order of the keys (and is
	//    false both ways for equal keys)
	for it := 0; it < 200; it++ {
		a, b := c.Intn(2001)-1000, c.Intn(2001)-1000
		if it%4 == 0 {
			b = a
		}
		c.Evals++
		var got bool
		if msg := hc.Try(func() { got = canvas.VerifHeapLess(a, b) }); msg != "" || got != (a < b) {
			c.Fail("heap:lessh-key-order", fmt.Sprintf("LessH(key %d, key %d) = %v %s", a, b, got, msg), map[string]any{"a": a, "b": b})
		}
	}

	// 1. heap histories: Init on an arbitrary array, then pushes / pops / tops / fixes
	for it := 0; it < c.N*2; it++ {
		n := c.Intn(maxSize + 1)
		if c.Chance(0.08) {
			n = c.Intn(3)
		}
		shape := c.Intn(len(heapShapeNames))
		keys := heapGenKeys(c, n, shape)
		pPush := c.Range(0.15, 0.6)
		pFix := c.Range(0.1, 0.4)
		nOps := 1 + c.Intn(maxOps)
		ops := []canvas.VerifHeapOp{{Kind: 0}}
		// the generator tracks only the SIZE (to keep every op valid); keys for `fix` are chosen
		// relative to a key of the initial array / pushed so far, which is enough to get both
		// increased and decreased keys
		size := n
		pool := append([]int(nil), keys...)
		newKey := func() int {
			if len(pool) > 0 && c.Chance(0.5) {
				return pool[c.Intn(len(pool))] + c.Intn(7) - 3 // near an existing key: ties and neighbours
			}
			if shape == 4 {
				return c.Intn(5)
			}
			return c.Intn(201) - 100
		}
		budget := 900 // bounds the answer line: sum over ops of (size+2) tokens
		for len(ops) < nOps && budget > 0 {
			budget -= size + 2
			r := c.Float()
			switch {
			case r < pPush && size < maxSize:
				k := newKey()
				pool = append(pool, k)
				ops = append(ops, canvas.VerifHeapOp{Kind: 1, A: k})
				size++
			case r < pPush+pFix && size > 0:
				k := newKey()
				switch c.Intn(4) {
				case 0:
					k = -150 - c.Intn(50) // below everything: goes to the root
				case 1:
					k = 150 + c.Intn(50) // above everything: sinks to a leaf
				}
				pool = append(pool, k)
				ops = append(ops, canvas.VerifHeapOp{Kind: 4, A: c.Intn(size), B: k})
			case c.Chance(0.2) && size > 0:
				ops = append(ops, canvas.VerifHeapOp{Kind: 3})
			case size > 0:
				ops = append(ops, canvas.VerifHeapOp{Kind: 2})
				size--
			default:
				k := newKey()
				pool = append(pool, k)
				ops = append(ops, canvas.VerifHeapOp{Kind: 1, A: k})
				size++
			}
		}
		line := heapLine(keys, ops)
		replay := map[string]any{"line": line}
		var steps []canvas.VerifHeapStep
		if msg := hc.Try(func() { steps = canvas.VerifHeapRun(keys, ops) }); msg != "" {
			c.Fail("heap:panic", "VerifHeapRun panicked: "+strings.SplitN(msg, "\n", 2)[0], replay)
			continue
		}
		c.Case(line, "=", heapFmtSteps(steps))
		c.Distinct(line)
		c.Count("heap:init-shape:" + heapShapeNames[shape])
		c.Count("heap:init-size:" + heapSizeBucket(n))
		if it < 2 {
			c.Sample(line + " => " + heapFmtSteps(steps))
		}

		// independent oracle on the real code's outputs
		ref := heapSorted(keys)
		prev := append([]int(nil), keys...)
		for si, st := range steps {
			op := ops[si]
			c.Evals++
			desc := func(what string) string {
				return fmt.Sprintf("%s at op %d (kind %d %d %d): before %v after %v val %d", what, si, op.Kind, op.A, op.B, prev, st.Arr, st.Val)
			}
			if st.Panic != "" {
				c.Fail("heap:panic-valid-op", desc("valid op panicked: "+st.Panic), replay)
				break
			}
			switch op.Kind {
			case 0:
				c.Count("heap:op:init")
				if heapSameInts(prev, st.Arr) {
					c.Count("heap:init:down-never-moved")
				} else {
					c.Count("heap:init:down-moved")
				}
			case 1:
				c.Count("heap:op:push")
				ref = heapRefInsert(ref, op.A)
				if len(st.Arr) > 0 && st.Arr[len(st.Arr)-1] == op.A && heapSameInts(prev, st.Arr[:len(st.Arr)-1]) {
					c.Count("heap:push:up-stayed")
				} else {
					c.Count("heap:push:up-moved")
				}
			case 2:
				c.Count("heap:op:pop")
				if !st.HasVal || st.Val != ref[0] {
					c.Fail("heap:pop-not-min", desc(fmt.Sprintf("Pop returned %d, minimum is %d", st.Val, ref[0])), replay)
				}
				var ok bool
				if ref, ok = heapRefRemove(ref, st.Val); !ok {
					c.Fail("heap:pop-not-member", desc("Pop returned a key that is not in the heap"), replay)
				}
				if len(st.Arr) > 0 {
					if st.Arr[0] == prev[len(prev)-1] && heapSameInts(st.Arr[1:], prev[1:len(prev)-1]) {
						c.Count("heap:pop:down-stayed")
					} else {
						c.Count("heap:pop:down-moved")
					}
				} else {
					c.Count("heap:pop:last-element")
				}
			case 3:
				c.Count("heap:op:top")
				if !st.HasVal || st.Val != ref[0] {
					c.Fail("heap:top-not-min", desc(fmt.Sprintf("Top returned %d, minimum is %d", st.Val, ref[0])), replay)
				}
				if !heapSameInts(prev, st.Arr) {
					c.Fail("heap:top-modified", desc("Top modified the heap"), replay)
				}
			case 4:
				c.Count("heap:op:fix")
				old := prev[op.A]
				ref, _ = heapRefRemove(ref, old)
				ref = heapRefInsert(ref, op.B)
				switch {
				case op.B > old:
					c.Count("heap:fix:key-increased")
				case op.B < old:
					c.Count("heap:fix:key-decreased")
				default:
					c.Count("heap:fix:key-same")
				}
				// swaps only happen between keys that differ, so the slot tells what moved
				switch {
				case st.Arr[op.A] == op.B:
					c.Count("heap:fix:stayed")
				case st.Arr[op.A] < op.B:
					c.Count("heap:fix:down-moved")
				default:
					c.Count("heap:fix:up-moved")
				}
			}
			if ok, at := heapIsHeap(st.Arr); !ok {
				c.Fail("heap:not-a-heap", desc(fmt.Sprintf("heap property violated at index %d", at)), replay)
				break
			}
			if !heapSameInts(heapSorted(st.Arr), ref) {
				c.Fail("heap:multiset-changed", desc(fmt.Sprintf("contents differ from the reference multiset %v", ref)), replay)
				break
			}
			prev = st.Arr
		}
	}

	// 2. raw loops on arbitrary arrays: down(i, n) with n ≤ len (also i ≥ n) and up(j); only the
	//    correspondence with the model and multiset preservation are judged here
	for it := 0; it < c.N/2; it++ {
		n := c.Intn(maxSize + 1)
		if c.Chance(0.05) {
			n = 0
		}
		shape := c.Intn(len(heapShapeNames))
		keys := heapGenKeys(c, n, shape)
		var ops []canvas.VerifHeapOp
		for k := 1 + c.Intn(20); k > 0; k-- {
			if c.Bool() {
				nn := n
				if c.Chance(0.3) {
					nn = c.Intn(n + 1)
				}
				i := c.Intn(n + 3)
				if c.Chance(0.75) {
					i = c.Intn(nn/2 + 1)
				}
				ops = append(ops, canvas.VerifHeapOp{Kind: 5, A: i, B: nn})
			} else if n > 0 {
				ops = append(ops, canvas.VerifHeapOp{Kind: 6, A: c.Intn(n)})
			} else {
				ops = append(ops, canvas.VerifHeapOp{Kind: 6, A: 0}) // up(0) on the empty slice: breaks at i == j
			}
		}
		line := heapLine(keys, ops)
		replay := map[string]any{"line": line}
		var steps []canvas.VerifHeapStep
		if msg := hc.Try(func() { steps = canvas.VerifHeapRun(keys, ops) }); msg != "" {
			c.Fail("heap:panic", "VerifHeapRun panicked: "+strings.SplitN(msg, "\n", 2)[0], replay)
			continue
		}
		c.Case(line, "=", heapFmtSteps(steps))
		c.Distinct(line)
		ref := heapSorted(keys)
		for si, st := range steps {
			c.Evals++
			if st.Panic != "" {
				c.Fail("heap:panic-valid-op", fmt.Sprintf("raw op %d panicked: %s", si, st.Panic), replay)
				break
			}
			if ops[si].Kind == 5 {
				c.Count(fmt.Sprintf("heap:raw-down:moved=%d", st.Val))
			} else {
				c.Count("heap:raw-up")
			}
			if !heapSameInts(heapSorted(st.Arr), ref) {
				c.Fail("heap:multiset-changed", fmt.Sprintf("raw op %d changed the contents: %v", si, st.Arr), replay)
				break
			}
		}
	}
}
