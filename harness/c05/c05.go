// C05 — dashing. Correspondence of the hand-written Lean model (CanvasModel/C05.lean) with the real
// dashStart / dashCanonical / Path.Dash, and independent oracles for the property predicate
// (oracle.go).
package main

import (
	"fmt"
	"math"
	"os"
	"runtime"
	"strings"
	"time"

	"github.com/tdewolff/canvas"
	"verifharness/hc"
)

func main() { hc.Main("C05", run) }

func run(c *hc.Ctx) {
	// watchdog: never let a runaway allocation (in the library or here) take the machine down
	go func() {
		var ms runtime.MemStats
		for {
			time.Sleep(200 * time.Millisecond)
			runtime.ReadMemStats(&ms)
			if ms.Sys > 4<<30 {
				fmt.Fprintln(os.Stderr, "harness-c05: memory watchdog: more than 4 GiB in use, aborting")
				os.Exit(3)
			}
		}
	}()
	corrCanon(c)
	corrStart(c)
	corrDash(c)
	oracleRegressions(c)
	oracleCurves(c)
	oracleDegenerate(c)
	finishHist(c)
}

func dy(c *hc.Ctx, maxEighths int) float64 { return float64(1+c.Intn(maxEighths)) / 8 }

// genPattern returns a dash array and the name of its class. Dyadic values (multiples of 1/8).
func genPattern(c *hc.Ctx, allowBad bool) ([]float64, string) {
	n := 1 + c.Intn(6)
	d := make([]float64, n)
	for i := range d {
		d[i] = dy(c, 48)
	}
	cls := "plain"
	switch k := c.Intn(12); {
	case k == 0 && n >= 3:
		d[1+c.Intn(n-2)] = 0
		cls = "zero-mid"
	case k == 1 && n >= 4:
		d[1] = 0
		d[2] = 0
		cls = "zero-mid-2"
	case k == 2:
		d[0] = 0
		cls = "zero-first"
	case k == 3:
		d[n-1] = 0
		cls = "zero-last"
	case k == 4:
		for i := range d {
			d[i] = 0
		}
		cls = "all-zero"
	case k == 5:
		d[0] = 0
		d[n-1] = 0
		if n >= 3 {
			d[c.Intn(n)] = 0
		}
		cls = "zero-ends"
	case k == 6 || k == 7:
		r := 2
		if c.Bool() {
			r = 4
		}
		if c.Chance(0.3) {
			r = 3
		}
		base := append([]float64{}, d[:1+c.Intn(min(3, n))]...)
		d = nil
		for i := 0; i < r; i++ {
			d = append(d, base...)
		}
		cls = fmt.Sprintf("repeated-x%d", r)
	case k == 8 && allowBad:
		d[c.Intn(n)] = -dy(c, 16)
		cls = "negative"
	case k == 9 && allowBad:
		// below Epsilon: Equal(x, 0) holds although x != 0
		d[c.Intn(n)] = 5e-11
		cls = "sub-epsilon"
	case k == 10 && n >= 2:
		// nearly repeated halves (differ by one entry)
		base := append([]float64{}, d[:1+c.Intn(min(2, n))]...)
		d = append(append([]float64{}, base...), base...)
		d[len(d)-1] += 0.125
		cls = "almost-repeated"
	}
	if len(d)%2 == 1 {
		cls += "/odd"
	}
	return d, cls
}

func sum(d []float64) float64 {
	s := 0.0
	for _, x := range d {
		s += x
	}
	return s
}

func genOffset(c *hc.Ctx, period float64) (float64, string) {
	if period <= 0 {
		period = 1
	}
	switch c.Intn(8) {
	case 0:
		return 0, "off:zero"
	case 1, 2:
		return math.Round(c.Range(0, period)*8) / 8, "off:in-period"
	case 3:
		return math.Round(c.Range(1, 40)*period*8) / 8, "off:multi-period"
	case 4:
		return -math.Round(c.Range(0, period)*8) / 8, "off:negative-in-period"
	case 5:
		return -math.Round(c.Range(1, 12)*period*8) / 8, "off:negative-multi-period"
	case 6:
		return period * float64(1+c.Intn(3)), "off:exact-periods"
	default:
		return math.Round(c.Range(0, 3*period)*8) / 8, "off:few-periods"
	}
}

func patLine(tag string, off float64, d []float64) string {
	var sb strings.Builder
	fmt.Fprintf(&sb, "%s %s %d", tag, hc.H(off), len(d))
	for _, x := range d {
		sb.WriteByte(' ')
		sb.WriteString(hc.H(x))
	}
	return sb.String()
}

// ---- dashCanonical ------------------------------------------------------------------------------

func corrCanon(c *hc.Ctx) {
	for it := 0; it < 4*c.N; it++ {
		d, cls := genPattern(c, true)
		if it == 0 {
			d, cls = []float64{1, 0, 2, 3}, "witness"
		} else if it == 1 {
			d, cls = []float64{}, "empty"
		}
		off, _ := genOffset(c, sum(d))
		c.Count("canon:" + cls)
		arg := append([]float64{}, d...)
		var o2 float64
		var d2 []float64
		if msg := hc.Try(func() { o2, d2 = canvas.VerifDashCanonical(off, arg) }); msg != "" {
			c.Case(patLine("CANON", off, d), "=", "PANIC")
			fail(c, "panic:dashCanonical", msg, map[string]any{"offset": off, "d": d})
			continue
		}
		switch {
		case len(d2) == 0:
			c.Count("canon-out:[] (solid)")
		case len(d2) == 1 && d2[0] == 0:
			c.Count("canon-out:[0] (nothing)")
		case len(d2) < len(d):
			c.Count("canon-out:shortened")
		default:
			c.Count("canon-out:unchanged-length")
		}
		canonBranches(c, d)
		c.Distinct(fmt.Sprint(off, d))
		c.Case(patLine("CANON", off, d), "=", fmt.Sprintf("%s %d %s A %s", hc.H(o2), len(d2), hc.Hs(d2...), hc.Hs(arg...)))
		// purity: the caller's slice must not change
		c.Evals++
		for i := range d {
			if arg[i] != d[i] {
				fail(c, "impure:dashCanonical-mutates-arg", fmt.Sprintf("dashCanonical(%v, %v) left its argument as %v", off, d, arg),
					map[string]any{"offset": off, "d": d, "after": arg})
				break
			}
		}
		// semantic oracle on the real function's result: the canonical pattern draws the same set
		if !strings.HasPrefix(cls, "negative") && !strings.HasPrefix(cls, "sub-epsilon") {
			checkCanonSemantics(c, off, d, o2, d2)
		}
	}
}

// checkCanonSemantics compares, on a line of length 3 periods + a bit, the dash intervals of the
// original pattern with those of the canonical one (both computed by the independent evaluator).
func checkCanonSemantics(c *hc.Ctx, off float64, d []float64, o2 float64, d2 []float64) {
	c.Evals++
	P := sum(d)
	if len(d)%2 == 1 {
		P *= 2
	}
	L := 3*P + 1.375
	if len(d) == 0 {
		if len(d2) != 0 {
			fail(c, "canonical-semantics", "empty pattern not canonicalised to the empty pattern", map[string]any{"d": d, "out": d2})
		}
		return
	}
	var want [][2]float64
	if P > 0 {
		want = expectedIntervals(off, d, L)
	}
	var got [][2]float64
	switch {
	case len(d2) == 0:
		got = [][2]float64{{0, L}}
	case sum(d2) == 0:
		got = nil
	default:
		got = expectedIntervals(o2, d2, L)
	}
	if sd := symDiff(want, got, L); sd > 1e-9 {
		fail(c, "canonical-semantics", fmt.Sprintf("dashCanonical(%v,%v) = (%v,%v) draws a different set (symmetric difference %g on [0,%g])", off, d, o2, d2, sd, L),
			map[string]any{"offset": off, "d": d, "out_offset": o2, "out": d2})
	}
}

// ---- dashStart ----------------------------------------------------------------------------------

func corrStart(c *hc.Ctx) {
	for it := 0; it < 4*c.N; it++ {
		n := 1 + c.Intn(6)
		d := make([]float64, n)
		for i := range d {
			d[i] = dy(c, 48)
		}
		if c.Chance(0.1) && n > 1 {
			d[c.Intn(n)] = 0 // dashStart itself tolerates zero entries as long as the sum is positive
		}
		if it == 0 {
			d = []float64{2, 2}
		}
		P := sum(d)
		off, ocls := genOffset(c, P)
		if it == 0 {
			off, ocls = -5, "off:negative-multi-period"
		}
		c.Count("start:" + ocls)
		i0, pos0, ok := canvas.VerifDashStart(off, append([]float64{}, d...))
		if !ok {
			c.Case(patLine("START", off, d), "=", "PANIC")
			continue
		}
		c.Distinct(fmt.Sprint(off, d))
		c.Case(patLine("START", off, d), "=", fmt.Sprintf("%d %s", i0, hc.H(pos0)))
		// branches of dashStart reached (statistics only)
		switch {
		case off < 0 && math.Mod(off, P) == 0:
			c.Count("branch:dashStart offset<0, remainder 0 (no period added)")
		case off < 0:
			c.Count("branch:dashStart offset<0, remainder<0 (one period added)")
		case off < d[0]:
			c.Count("branch:dashStart loop not entered")
		case off >= P:
			c.Count("branch:dashStart loop wraps around the pattern")
		default:
			c.Count("branch:dashStart loop inside the first period")
		}
		// oracle: piece i0 starts at path position pos0 <= 0, i.e. offset+pos0 is congruent to the
		// start of piece i0 modulo the period (dyadic values: exact)
		c.Evals++
		pre := sum(d[:i0])
		r := math.Mod(off+pos0-pre, P)
		congruent := r == 0
		replay := map[string]any{"offset": off, "d": d, "i0": i0, "pos0": pos0}
		// (since e14817f for every offset; the kinds below are the regression classes of that defect)
		if !(pos0 <= 0) || !congruent {
			kind := "dashStart:phase"
			if off < -P {
				kind = "dashStart:negative-offset-beyond-period"
			}
			fail(c, kind, fmt.Sprintf("dashStart(%v,%v) = (%d,%v): piece %d would start at path position %v; expected a position <= 0 congruent to %v modulo %v",
				off, d, i0, pos0, i0, pos0, pre-off, P), replay)
		} else if !(-pos0 < d[i0]) {
			fail(c, "dashStart:not-inside-first-piece", fmt.Sprintf("dashStart(%v,%v) = (%d,%v): -pos0 >= d[i0]", off, d, i0, pos0), replay)
		}
	}
}

// ---- whole Dash on rectilinear paths --------------------------------------------------------------

type rsub struct {
	closed bool
	x0, y0 float64
	w, h   float64   // rectangle
	xs     []float64 // open: increasing x of the vertices (first = x0)
	length float64
}

func (s rsub) arcPos(p hc.P2, first bool) (float64, bool) {
	const e = 1e-7
	if !s.closed {
		if math.Abs(p.Y-s.y0) > e {
			return 0, false
		}
		return p.X - s.x0, true
	}
	x, y := p.X-s.x0, p.Y-s.y0
	switch {
	case math.Abs(x) < e && math.Abs(y) < e:
		if first {
			return 0, true
		}
		return s.length, true
	case math.Abs(y) < e:
		return x, true
	case math.Abs(x-s.w) < e:
		return s.w + y, true
	case math.Abs(y-s.h) < e:
		return s.w + s.h + (s.w - x), true
	case math.Abs(x) < e:
		return 2*s.w + s.h + (s.h - y), true
	}
	return 0, false
}

func corrDash(c *hc.Ctx) {
	for it := 0; it < 2*c.N; it++ {
		d, cls := genPattern(c, false)
		if c.Chance(0.03) {
			d, cls = []float64{}, "empty"
		}
		P := sum(d)
		off, ocls := genOffset(c, P)
		ns := 1 + c.Intn(3)
		// class "exact": several subpaths whose lengths are whole periods (plus, sometimes, a whole
		// number of pattern entries), so that pattern boundaries fall exactly on subpath ends
		exact := P > 0 && P < 12 && c.Chance(0.3)
		dd := d
		if len(d)%2 == 1 {
			dd = append(append([]float64{}, d...), d...)
		}
		if exact {
			ns = 2 + c.Intn(2)
			cls += "/exact-subpath-lengths"
			if c.Chance(0.6) {
				off, ocls = float64(c.Intn(3))*sum(dd), "off:exact-periods"
			}
		}
		subs := make([]rsub, ns)
		p := &canvas.Path{}
		for k := range subs {
			s := rsub{closed: c.Chance(0.4), x0: float64(c.Intn(17)-8) / 4, y0: float64(100*k) + 10 + float64(c.Intn(9))/4}
			T := 0.0
			if exact {
				T = float64(1+c.Intn(3)) * sum(dd)
				if c.Chance(0.4) {
					T += sum(dd[:c.Intn(len(dd))])
				}
				if math.Mod(T, 0.25) != 0 {
					s.closed = false
				}
			}
			if exact && s.closed {
				s.w = math.Max(0.125, math.Floor(c.Range(0.1, 0.9)*T/2*8)/8)
				s.h = T/2 - s.w
				if !(s.h > 0) {
					s.w, s.h = T/4, T/4
				}
				s.length = 2*s.w + 2*s.h
				p.MoveTo(s.x0, s.y0)
				p.LineTo(s.x0+s.w, s.y0)
				p.LineTo(s.x0+s.w, s.y0+s.h)
				p.LineTo(s.x0, s.y0+s.h)
				p.Close()
			} else if exact {
				p.MoveTo(s.x0, s.y0)
				if cut := math.Floor(c.Range(0, 1)*T*8) / 8; cut > 0 && cut < T && c.Bool() {
					p.LineTo(s.x0+cut, s.y0)
				}
				p.LineTo(s.x0+T, s.y0)
				s.length = T
			} else if s.closed {
				s.w, s.h = dy(c, 80), dy(c, 80)
				s.length = 2*s.w + 2*s.h
				p.MoveTo(s.x0, s.y0)
				p.LineTo(s.x0+s.w, s.y0)
				p.LineTo(s.x0+s.w, s.y0+s.h)
				p.LineTo(s.x0, s.y0+s.h)
				p.Close()
			} else {
				x := s.x0
				p.MoveTo(x, s.y0)
				for j := 1 + c.Intn(3); j > 0; j-- {
					x += dy(c, 100)
					p.LineTo(x, s.y0)
				}
				s.length = x - s.x0
			}
			subs[k] = s
		}
		var sb strings.Builder
		sb.WriteString(patLine("DASH", off, d))
		fmt.Fprintf(&sb, " %d", ns)
		for _, s := range subs {
			fmt.Fprintf(&sb, " %s %s", hc.H(s.length), hc.B(s.closed))
		}
		c.Count("dash:" + cls)
		c.Count("dash:" + ocls)
		dashBranches(c, off, d, subs)
		var q *canvas.Path
		if msg := hc.Try(func() { q = p.Dash(off, append([]float64{}, d...)...) }); msg != "" {
			c.Case(sb.String(), "=", "PANIC")
			fail(c, "panic:Dash", msg, map[string]any{"path": p.String(), "offset": off, "d": d})
			continue
		}
		c.Distinct(sb.String())
		if q == p {
			c.Count("dash-out:whole")
			c.Case(sb.String(), "=", "W")
			continue
		}
		segs, err := hc.Decode(q.Data())
		if err != nil {
			c.Case(sb.String(), "=", "MALFORMED")
			fail(c, "malformed-output", err.Error(), map[string]any{"path": p.String(), "offset": off, "d": d})
			continue
		}
		var out strings.Builder
		pieces := hc.Subpaths(segs)
		fmt.Fprintf(&out, "P %d", len(pieces))
		bad := ""
		nclosedJoin := 0
		for _, pc := range pieces {
			k := int(math.Floor(pc[0].End.Y / 100))
			if k < 0 || k >= ns {
				bad = "piece outside every subpath band"
				break
			}
			a, ok1 := subs[k].arcPos(pc[0].End, true)
			b, ok2 := subs[k].arcPos(pc[len(pc)-1].End, false)
			if !ok1 || !ok2 {
				bad = fmt.Sprintf("piece end point not on subpath %d", k)
				break
			}
			if subs[k].closed && b < a {
				nclosedJoin++
			}
			fmt.Fprintf(&out, " %d %s %s", k, hc.H(a), hc.H(b))
		}
		if bad != "" {
			c.Case(sb.String(), "=", "OFFPATH")
			fail(c, "piece-off-path", bad, map[string]any{"path": p.String(), "offset": off, "d": d, "out": q.String()})
			continue
		}
		if nclosedJoin > 0 {
			c.Count("dash-out:closed-joined")
		}
		if len(pieces) == 0 {
			c.Count("dash-out:nothing")
		} else {
			c.Count("dash-out:pieces")
		}
		c.Case(sb.String(), "~", out.String())
		if len(d) > 0 {
			judgeDash(c, "rect", p, off, d, q)
		}
		if it < 2 {
			c.Sample(fmt.Sprintf("Dash(%v, %v) on %q = %q", off, d, p.String(), q.String()))
		}
	}
}

// dashBranches counts which branches of Dash / dashCanonical an input reaches (statistics for the
// evidence only; uses the hooks to follow the real canonicalisation and start).
func dashBranches(c *hc.Ctx, off float64, d []float64, subs []rsub) {
	o2, d2 := canvas.VerifDashCanonical(off, append([]float64{}, d...))
	switch {
	case len(d2) == 0:
		c.Count("branch:Dash canonical [] -> returns the path")
		return
	case len(d2) == 1 && d2[0] == 0:
		c.Count("branch:Dash canonical [0] -> returns nothing")
		return
	}
	if len(d2) < len(d) {
		c.Count("branch:Dash pattern shortened by dashCanonical")
	}
	if len(d2)%2 == 1 {
		d2 = append(d2, d2...)
		c.Count("branch:Dash odd pattern doubled")
	}
	i0, pos0, ok := canvas.VerifDashStart(o2, d2)
	if !ok {
		return
	}
	for _, s := range subs {
		i, pos, nt, skipped := i0, pos0, 0, 0
		for pos+d2[i]+1e-10 < s.length {
			pos += d2[i]
			if 0 < pos {
				nt++
			} else {
				skipped++
			}
			i = (i + 1) % len(d2)
		}
		ends := i%2 == 0
		j0 := 0
		if nt%2 == 1 && ends || nt%2 == 0 && !ends {
			j0 = 1
		}
		if skipped > 0 {
			c.Count("branch:Dash position <= 0 skipped")
		}
		switch {
		case nt == 0 && ends:
			c.Count("branch:Dash no cut, subpath inside a dash (kept whole)")
		case nt == 0:
			c.Count("branch:Dash no cut, subpath inside a gap (dropped)")
		case ends && s.closed && j0 == 0:
			c.Count("branch:Dash closed, last piece joined with the first")
		case ends && s.closed:
			c.Count("branch:Dash closed, last piece kept first, not joined")
		case ends:
			c.Count("branch:Dash open, ends in dash")
		case s.closed:
			c.Count("branch:Dash closed, ends in gap")
		default:
			c.Count("branch:Dash open, ends in gap")
		}
		if j0 == 1 {
			c.Count("branch:Dash starts in gap (j0=1)")
		} else {
			c.Count("branch:Dash starts in dash (j0=0)")
		}
		if pos+d2[i] == s.length {
			c.Count("branch:Dash pattern boundary exactly at the subpath end")
		}
	}
}

// canonBranches follows the steps of dashCanonical on a copy (same tests as the code, Epsilon 1e-10)
// and counts the branches reached (statistics only).
func canonBranches(c *hc.Ctx, d0 []float64) {
	eq0 := func(x float64) bool { return math.Abs(x) <= 1e-10 }
	d := append([]float64{}, d0...)
	if len(d) == 0 {
		c.Count("branch:canonical empty input")
		return
	}
	removed := 0
	for i := 1; i < len(d)-1; i++ {
		if eq0(d[i]) {
			d[i-1] += d[i+1]
			d = append(d[:i], d[i+2:]...)
			i--
			removed++
		}
	}
	if removed > 0 {
		c.Count(fmt.Sprintf("branch:canonical middle zeros removed x%d", min(removed, 3)))
	}
	if eq0(d[0]) {
		if len(d) < 3 {
			c.Count("branch:canonical first zero, early return [0]")
			return
		}
		c.Count("branch:canonical first zero folded")
		d[len(d)-1] += d[1]
		d = d[2:]
	}
	if eq0(d[len(d)-1]) {
		if len(d) < 3 {
			c.Count("branch:canonical last zero, early return []")
			return
		}
		c.Count("branch:canonical last zero folded")
		d[0] += d[len(d)-2]
		d = d[:len(d)-2]
	}
	for _, x := range d {
		if x < 0 || eq0(x) {
			c.Count("branch:canonical zero or negative entry left, return [0]")
			return
		}
	}
	halvings := 0
	for len(d)%2 == 0 {
		mid, same := len(d)/2, true
		for i := 0; i < mid; i++ {
			if math.Abs(d[i]-d[mid+i]) > 1e-10 {
				same = false
			}
		}
		if !same {
			break
		}
		d = d[:mid]
		halvings++
	}
	c.Count(fmt.Sprintf("branch:canonical repeated halves removed x%d", halvings))
}
