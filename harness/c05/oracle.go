package main

// Independent oracle for C05: the pattern semantics evaluated from its definition (fmod-based walk),
// arc lengths measured on a dense flattening made with hc.Decode/Seg.At (none of the library's
// length, split or inverse-arc-length code is used), and the comparison of the pieces that the real
// Path.Dash returned with the pattern.

import (
	"fmt"
	"math"
	"os"
	"sort"
	"strings"

	"github.com/tdewolff/canvas"
	"verifharness/hc"
)

// expectedIntervals: maximal drawn intervals on [0,L] for pattern d (all entries >= 0, sum > 0),
// cyclically repeated, doubled when of odd length, shifted by offset. Zero-length dashes draw
// nothing, zero-length gaps merge the neighbouring dashes.
func expectedIntervals(offset float64, d []float64, L float64) [][2]float64 {
	dd := d
	if len(d)%2 == 1 {
		dd = append(append([]float64{}, d...), d...)
	}
	P := sum(dd)
	if !(P > 0) {
		return nil
	}
	ph := math.Mod(offset, P)
	if ph < 0 {
		ph += P
	}
	i := 0
	for guard := 0; ph >= dd[i] && guard < 4*len(dd); guard++ {
		ph -= dd[i]
		i = (i + 1) % len(dd)
	}
	x := -ph
	var out [][2]float64
	for x < L {
		e := x + dd[i]
		if i%2 == 0 && dd[i] > 0 {
			a, b := math.Max(x, 0), math.Min(e, L)
			if b > a {
				if n := len(out); n > 0 && a <= out[n-1][1] {
					out[n-1][1] = b
				} else {
					out = append(out, [2]float64{a, b})
				}
			}
		}
		x = e
		i = (i + 1) % len(dd)
	}
	return out
}

// firstDiff: the first stretch on which the two unions differ (for failure messages).
func firstDiff(a, b [][2]float64, L float64) string {
	pts := []float64{0, L}
	for _, iv := range a {
		pts = append(pts, iv[0], iv[1])
	}
	for _, iv := range b {
		pts = append(pts, iv[0], iv[1])
	}
	sort.Float64s(pts)
	in := func(s [][2]float64, x float64) bool {
		for _, iv := range s {
			if iv[0] <= x && x < iv[1] {
				return true
			}
		}
		return false
	}
	for i := 0; i+1 < len(pts); i++ {
		if pts[i+1]-pts[i] < 1e-12*L || pts[i] < 0 || pts[i+1] > L {
			continue
		}
		mid := (pts[i] + pts[i+1]) / 2
		if in(a, mid) != in(b, mid) {
			return fmt.Sprintf("first difference on %.6g..%.6g (pattern drawn=%v)", pts[i], pts[i+1], in(a, mid))
		}
	}
	return "no difference"
}

// symDiff: measure of the symmetric difference of two unions of intervals inside [0,L].
func symDiff(a, b [][2]float64, L float64) float64 {
	pts := []float64{0, L}
	for _, iv := range a {
		pts = append(pts, iv[0], iv[1])
	}
	for _, iv := range b {
		pts = append(pts, iv[0], iv[1])
	}
	sort.Float64s(pts)
	in := func(s [][2]float64, x float64) bool {
		for _, iv := range s {
			if iv[0] <= x && x < iv[1] {
				return true
			}
		}
		return false
	}
	m := 0.0
	for i := 0; i+1 < len(pts); i++ {
		if pts[i+1] <= pts[i] || pts[i] < 0 || pts[i+1] > L {
			continue
		}
		mid := (pts[i] + pts[i+1]) / 2
		if in(a, mid) != in(b, mid) {
			m += pts[i+1] - pts[i]
		}
	}
	return m
}

// ---- dense flattening -----------------------------------------------------------------------------

type fineSub struct {
	segs     []hc.Seg // drawing segments (no M)
	n        int      // chords per segment
	pts      []hc.P2  // len(segs)*n+1
	cum      []float64
	L        float64
	maxSeg   float64
	closed   bool
	straight bool    // only line segments
	sc       float64 // length scale of the subpath (= L): every tolerance is relative to it
}

func flatten(sub []hc.Seg, n int) fineSub {
	f := fineSub{n: n, straight: true}
	for _, s := range sub {
		if s.Kind == 'M' {
			continue
		}
		if s.Kind == 'Z' {
			f.closed = true
		}
		if s.Kind != 'L' && s.Kind != 'Z' {
			f.straight = false
		}
		f.segs = append(f.segs, s)
	}
	if len(f.segs) == 0 {
		return f
	}
	f.pts = append(f.pts, f.segs[0].P0)
	f.cum = append(f.cum, 0)
	for _, s := range f.segs {
		sp := hc.SampleSeg(s, n)
		l0 := f.L
		for k := 1; k <= n; k++ {
			f.L += sp[k].Dist(sp[k-1])
			f.pts = append(f.pts, sp[k])
			f.cum = append(f.cum, f.L)
		}
		if f.L-l0 > f.maxSeg {
			f.maxSeg = f.L - l0
		}
	}
	f.sc = f.L
	if !(f.sc > 0) {
		f.sc = math.SmallestNonzeroFloat64
	}
	return f
}

// at returns the point at arc length s (clamped; cyclic for closed subpaths).
func (f *fineSub) at(s float64) hc.P2 {
	if f.closed && s > f.L {
		s -= f.L
	}
	if s <= 0 {
		return f.pts[0]
	}
	if s >= f.L {
		return f.pts[len(f.pts)-1]
	}
	i := sort.SearchFloat64s(f.cum, s)
	if i == 0 {
		return f.pts[0]
	}
	if i >= len(f.cum) { // s is NaN
		return hc.P2{X: math.NaN(), Y: math.NaN()}
	}
	a, b := f.cum[i-1], f.cum[i]
	t := 0.0
	if b > a {
		t = (s - a) / (b - a)
	}
	return f.pts[i-1].Add(f.pts[i].Sub(f.pts[i-1]).Mul(t))
}

// candidates returns arc-length positions >= smin where the subpath passes through q, found on the
// chords (coarse) and refined on the true segment.
func (f *fineSub) candidates(q hc.P2, smin float64) []float64 {
	var out []float64
	var outDist []float64
	lastChord := -10
	for i := 0; i+1 < len(f.pts); i++ {
		if f.cum[i+1] < smin-1e-5*f.sc {
			continue
		}
		a, b := f.pts[i], f.pts[i+1]
		cl := b.Dist(a)
		if hc.DistPointSeg(q, a, b) > 2*cl+1e-9*f.sc {
			continue
		}
		// refine on the true curve in the parameter window of this chord
		si, k := i/f.n, i%f.n
		if si >= len(f.segs) {
			continue
		}
		seg := f.segs[si]
		u0, u1 := float64(k)/float64(f.n), float64(k+1)/float64(f.n)
		best, bu := math.Inf(1), u0
		const m = 16
		for j := 0; j <= m; j++ {
			u := u0 + (u1-u0)*float64(j)/m
			if dd := seg.At(u).Dist(q); dd < best {
				best, bu = dd, u
			}
		}
		lo, hi := math.Max(u0, bu-(u1-u0)/m), math.Min(u1, bu+(u1-u0)/m)
		for j := 0; j < 50; j++ {
			m1, m2 := lo+(hi-lo)/3, hi-(hi-lo)/3
			if seg.At(m1).Dist(q) < seg.At(m2).Dist(q) {
				hi = m2
			} else {
				lo = m1
			}
		}
		u := (lo + hi) / 2
		pu := seg.At(u)
		dq := pu.Dist(q)
		if dq > 1e-7*f.sc {
			continue
		}
		s := f.cum[i] + pu.Dist(a)
		if s < smin-1e-5*f.sc {
			continue
		}
		if n := len(out); n > 0 && i <= lastChord+2 && math.Abs(out[n-1]-s) < 1e-7*f.sc {
			// the same passage seen from a neighbouring chord (same arc length): keep the closer one.
			// Different arc lengths are different passages even on neighbouring chords (fold-backs).
			if dq < outDist[n-1] {
				out[n-1], outDist[n-1] = s, dq
			}
			lastChord = i
			continue
		}
		out = append(out, s)
		outDist = append(outDist, dq)
		lastChord = i
	}
	return out
}

// reversed returns the flattening of the same piece traversed backwards.
// devLimit: how far the samples of a located piece may be from the path at the same arc length.
// 1e-4 of the subpath length (flattening differences, re-encoded arcs) plus 2% of the piece's own
// length, never more than 1e-3 of the subpath length: a short piece must hug the path closely, so a
// piece of another subpath that merely leaves a common vertex at a small angle is not mistaken for
// a stretch of this one.
// curveTol: tolerance of a cut on a curved subpath, as a fraction of the longest segment. Was 1%
// (accuracy of the fixed-order Chebyshev inverse); since 56b2370 (16-panel length + Newton/bisection
// polish, residual <= 0.1% of the segment) the measured maximum of the mean cut error over 14
// thorough-size sweeps (seeds 1..8, 51..56, ~10^5 curved subpaths each) is 0.058% of the longest
// segment; 0.2% leaves a margin of 3.5.
const curveTol = 0.002

// lengthTol: Path.Length on a curved subpath, as a fraction of the longest segment (regression class
// of 0b071bc, 8606e8f, 0869084); measured maximum in hist.
const lengthTol = 0.005

func devLimit(f, pf *fineSub) float64 {
	return math.Min(1e-3*f.sc, 1e-4*f.sc+0.02*pf.L)
}

func reversed(f *fineSub) fineSub {
	n := len(f.pts)
	r := fineSub{n: f.n, L: f.L, maxSeg: f.maxSeg, straight: f.straight, pts: make([]hc.P2, n), cum: make([]float64, n)}
	for i := 0; i < n; i++ {
		r.pts[i] = f.pts[n-1-i]
		r.cum[i] = f.L - f.cum[n-1-i]
	}
	return r
}

type obsPiece struct {
	sub  int
	a, b float64 // b may exceed L on a closed subpath (runs through the start point)
	dev  float64 // max distance of the piece's samples from the path at the same arc length
}

// locate finds where piece (segments pc, own flattening pf) lies on f, starting at smin.
func locate(f *fineSub, pf *fineSub, smin float64) (obsPiece, bool) {
	best := obsPiece{dev: math.Inf(1)}
	found := false
	for _, s0 := range f.candidates(pf.pts[0], smin) {
		if !f.closed && s0+pf.L > f.L+1e-3*f.sc {
			continue
		}
		dev := 0.0
		step := len(pf.pts) / 24
		if step < 1 {
			step = 1
		}
		for j := 0; j < len(pf.pts); j += step {
			if dd := pf.pts[j].Dist(f.at(s0 + pf.cum[j])); dd > dev {
				dev = dd
			}
		}
		if dd := pf.pts[len(pf.pts)-1].Dist(f.at(s0 + pf.L)); dd > dev {
			dev = dd
		}
		if dev < best.dev {
			best = obsPiece{a: s0, b: s0 + pf.L, dev: dev}
			found = true
		}
		if dev < 1e-9*f.sc {
			break
		}
	}
	return best, found
}

var failsPerKind = map[string]int{}

// fail records at most 6 failing inputs per kind (the histogram still counts all of them).
func fail(c *hc.Ctx, kind, desc string, replay any) {
	failsPerKind[kind]++
	if failsPerKind[kind] <= 6 {
		c.Fail(kind, desc, replay)
	} else {
		c.Count("FAIL:" + kind)
	}
}

var maxDevPPM float64
var maxCutErrPPM = map[string]float64{}
var maxCutErrCase = map[string]string{}

func bucket(x float64) string {
	switch {
	case x < 1e-9:
		return "<1e-9"
	case x < 1e-6:
		return "<1e-6"
	case x < 1e-5:
		return "<1e-5"
	case x < 1e-4:
		return "<1e-4"
	case x < 1e-3:
		return "<1e-3"
	case x < 1e-2:
		return "<1e-2"
	}
	return ">=1e-2"
}

// beyondPeriod reports whether the offset that reaches dashStart (after dashCanonical's own shifts)
// lies below minus one period of the doubled canonical pattern. Used only to name the failure class.
func beyondPeriod(off float64, d []float64) bool {
	o2, d2 := canvas.VerifDashCanonical(off, append([]float64{}, d...))
	P2 := sum(d2)
	if len(d2)%2 == 1 {
		P2 *= 2
	}
	return P2 > 0 && o2 < -P2
}

// splitAtError measures, for one input subpath, how far the cuts made by the library's own
// Path.SplitAt at the arc lengths ts are from those arc lengths (true lengths of the returned pieces,
// measured on our own dense flattening), and how far Path.Length is from the true length. Used only
// to attribute a failure on a curved subpath to the inverse arc-length approximation (property C09)
// instead of the dash bookkeeping; it never makes a failure disappear.
func splitAtError(sub *canvas.Path, ts []float64, f *fineSub) (worst float64, kind byte) {
	worst = math.Abs(sub.Length() - f.L)
	kind = 'T'
	if len(ts) == 0 {
		return
	}
	var pieces []*canvas.Path
	if msg := hc.Try(func() { pieces = sub.SplitAt(append([]float64{}, ts...)...) }); msg != "" {
		return math.Inf(1), 'P'
	}
	pos := 0.0
	for i, pc := range pieces {
		segs, err := hc.Decode(pc.Data())
		if err != nil {
			return math.Inf(1), 'P'
		}
		pf := flatten(segs, 96)
		pos += pf.L
		want := f.L
		if i < len(ts) {
			want = ts[i]
		}
		if e := math.Abs(pos - want); e > worst {
			worst = e
			kind = 'S'
		}
	}
	if len(pieces) != len(ts)+1 {
		return math.Inf(1), 'N'
	}
	return
}

// judgeDash compares q = p.Dash(off, d...) with the pattern semantics. d must be non-empty with
// entries >= 0.
func judgeDash(c *hc.Ctx, tag string, p *canvas.Path, off float64, d []float64, q *canvas.Path) string {
	kind, desc, replay := judgeDashKind(c, tag, p, off, d, q)
	if kind != "" {
		fail(c, kind, desc, replay)
	}
	return kind
}

// judgeDashKind judges without recording the failure: returns its class ("" = the property holds).
func judgeDashKind(c *hc.Ctx, tag string, p *canvas.Path, off float64, d []float64, q *canvas.Path) (string, string, map[string]any) {
	c.Evals++
	replay := map[string]any{"path": p.String(), "offset": off, "d": d, "out": q.String()}
	kind, desc, ksub := judgeDash1(c, tag, p, off, d, q)
	if kind == "" {
		c.Count(tag + ":judged-ok")
		return "", "", nil
	}
	if ksub != nil && ksub.f.straight && beyondPeriod(off, d) {
		// regression class of the defect repaired by e14817f (only named so on straight subpaths,
		// where no arc-length approximation can be the cause)
		kind = "pattern-mismatch:negative-offset-beyond-period"
	} else if ksub != nil && ksub.path != nil && math.IsNaN(ksub.path.Length()) {
		kind = "path-length-not-finite"
		desc = "[Path.Length of this subpath is NaN] " + desc
	} else if ksub != nil && ksub.f.straight && hasReversal(ksub.f) {
		kind = "reversal-vertex-merged"
		desc = "[subpath has a 180 degree turn; LineTo merged the two collinear legs of a piece] " + desc
	} else if ksub != nil && !ksub.f.straight {
		// attribute to the inverse arc-length approximation when SplitAt/Length alone are that inaccurate here
		var ts []float64
		for _, iv := range ksub.want {
			for _, x := range iv {
				if x > 0 && x < ksub.f.L {
					ts = append(ts, x)
				}
			}
		}
		tol := curveTol * ksub.f.maxSeg
		// cuts within the tolerance of the end are not requested: whether SplitAt makes them depends
		// legitimately on its own total length
		var tsIn []float64
		for _, x := range ts {
			if x < ksub.f.L-tol {
				tsIn = append(tsIn, x)
			}
		}
		e, cause := splitAtError(ksub.path, tsIn, ksub.f)
		lenErr := math.Abs(ksub.path.Length()-ksub.f.L) / ksub.f.maxSeg
		c.Count("accuracy-measure: Path.Length error/longest segment " + bucket(lenErr))
		c.Count("accuracy-measure: worst error comes from " + map[byte]string{'T': "Path.Length", 'S': "a SplitAt cut", 'P': "SplitAt panic/malformed", 'N': "SplitAt piece count"}[cause])
		if lenErr > lengthTol {
			// since 0b071bc/8606e8f Path.Length is within 1.3% of the longest segment on every
			// subpath met in 18 thorough-size sweeps (worst: hairpin cubic
			// M-2.003 2.424C6 -11.016 -7.375 14.621 0.352 -1, 1.3% short); beyond 2% it is not the
			// recorded defect any more (regression class of the two Length repairs)
			kind = "length-accuracy"
			desc = fmt.Sprintf("[Path.Length is off by %.2g%% of the longest segment] %s", 100*lenErr, desc)
		} else if e > tol {
			kinds := map[byte]bool{}
			for _, sg := range ksub.f.segs {
				kinds[sg.Kind] = true
			}
			cls := ""
			for _, k := range []byte("QCA") {
				if kinds[k] {
					cls += string(k)
				}
			}
			c.Count(fmt.Sprintf("%s:attributed-to-SplitAt/Length error %s of longest segment", tag, bucket(e/ksub.f.maxSeg)))
			un, ecc := unevenness(ksub.f)
			c.Count(fmt.Sprintf("accuracy-cause: speed min/max %s, arc rx/ry %s", bucket10(un), bucketEcc(ecc)))
			kind = "inverse-arc-length-accuracy"
			if un >= 0.3 {
				// the recorded defect needs a segment with very uneven parametric speed (sharp turn,
				// near-cusp, eccentric arc); on evenly parametrised curves the approximation is
				// accurate in the unchanged tree, so this is something else
				kind = "inverse-arc-length-accuracy:even-speed-segment"
			}
			desc = fmt.Sprintf("[segment kinds %s: Path.SplitAt/Length are off by %.3g = %.2g%% of the longest segment on this subpath] %s", cls, e, 100*e/ksub.f.maxSeg, desc)
		}
	}
	return kind, desc, replay
}

type subJudge struct {
	f    *fineSub
	path *canvas.Path
	want [][2]float64
}

func judgeDash1(c *hc.Ctx, tag string, p *canvas.Path, off float64, d []float64, q *canvas.Path) (string, string, *subJudge) {
	in, err1 := hc.Decode(p.Data())
	out, err2 := hc.Decode(q.Data())
	if err1 != nil || err2 != nil {
		return "malformed-output", fmt.Sprint(err1, err2), nil
	}
	P := sum(d)
	if len(d)%2 == 1 {
		P *= 2
	}
	const nfine = 768
	var subs []fineSub
	var sj []*subJudge
	psplit := p.Split()
	for _, sp := range hc.Subpaths(in) {
		if f := flatten(sp, nfine); len(f.segs) > 0 {
			subs = append(subs, f)
		}
	}
	if len(psplit) != len(subs) {
		psplit = nil
	}
	for kk := range subs {
		j := &subJudge{f: &subs[kk]}
		if psplit != nil {
			j.path = psplit[kk]
		}
		if P > 0 {
			j.want = expectedIntervals(off, d, subs[kk].L)
		}
		sj = append(sj, j)
	}
	// locate the output pieces
	obs := make([][]obsPiece, len(subs))
	k, smin := 0, 0.0
	for _, pc := range hc.Subpaths(out) {
		pf := flatten(pc, 96)
		if len(pf.segs) == 0 {
			c.Count(tag + ":empty-piece")
			continue
		}
		located := false
		for kk := k; kk < len(subs); kk++ {
			sm := 0.0
			if kk == k {
				sm = smin
				if !subs[kk].straight {
					// cuts may be off by the tolerance, so consecutive pieces may overlap by that much
					sm = math.Max(0, smin-curveTol*subs[kk].maxSeg)
				}
			}
			o, ok := locate(&subs[kk], &pf, sm)
			if !(ok && o.dev < devLimit(&subs[kk], &pf)) && subs[kk].closed && sm > 0 {
				// closed subpath: the piece up to (or through) the start point comes first, the
				// following pieces start again from arc length 0
				o, ok = locate(&subs[kk], &pf, 0)
			}
			if !(ok && o.dev < devLimit(&subs[kk], &pf)) && !subs[kk].straight && pf.L <= 2*curveTol*subs[kk].maxSeg {
				// a piece shorter than twice the cut tolerance that runs backwards along the path (the
				// approximated inverse arc length is not monotone within its accuracy): its extent
				// is within the tolerance of where it should be, take the stretch it covers
				rv := reversed(&pf)
				if o2, ok2 := locate(&subs[kk], &rv, math.Max(0, sm-2*curveTol*subs[kk].maxSeg)); ok2 && o2.dev < devLimit(&subs[kk], &pf) {
					o, ok = o2, true
					c.Count(tag + ":tolerated backward piece shorter than 2% of the longest segment")
				}
			}
			if ok && o.dev < devLimit(&subs[kk], &pf) {
				o.sub = kk
				obs[kk] = append(obs[kk], o)
				if dv := o.dev / subs[kk].sc * 1e6; dv > maxDevPPM {
					maxDevPPM = dv
				}
				k = kk
				smin = o.b
				if subs[kk].closed && smin >= subs[kk].L-1e-9*subs[kk].sc {
					smin -= subs[kk].L
					if smin < 0 {
						smin = 0
					}
				}
				located = true
				break
			}
		}
		if !located && os.Getenv("C05_DEBUG") != "" {
			f := &subs[k]
			fmt.Fprintf(os.Stderr, "DEBUG unlocated piece %q L=%.6g on sub %d (L=%.6g) smin=%.6g\n", pathOf(pc), pf.L, k, f.L, smin)
			for _, s0 := range f.candidates(pf.pts[0], 0) {
				dev := 0.0
				for j := range pf.pts {
					if dd := pf.pts[j].Dist(f.at(s0 + pf.cum[j])); dd > dev {
						dev = dd
					}
				}
				fmt.Fprintf(os.Stderr, "   candidate s0=%.6g dev=%.3g (limit %.3g)\n", s0, dev, devLimit(f, &pf))
			}
		}
		if !located {
			// Is the piece a stretch of the input path at all (anywhere, in either direction)? If it
			// is, the pieces overlap or are out of order (that can be the inverse arc-length
			// approximation); if it is not, the piece has left the path: never attributed to accuracy.
			onPath := false
			for kk := range subs {
				if o, ok := locate(&subs[kk], &pf, 0); ok && o.dev < devLimit(&subs[kk], &pf) {
					onPath = true
					break
				}
				rv := reversed(&pf)
				if o, ok := locate(&subs[kk], &rv, 0); ok && o.dev < devLimit(&subs[kk], &pf) {
					onPath = true
					break
				}
			}
			if !onPath {
				return "piece-off-path:" + tag, fmt.Sprintf("piece %q is not a stretch of the input path", pathOf(pc)), nil
			}
			var j *subJudge
			if k < len(sj) && sj[k].path != nil {
				j = sj[k]
			}
			return "piece-out-of-order:" + tag, fmt.Sprintf("piece %q lies on the input path but does not follow the previous piece (subpath %d from arc length %.6g)", pathOf(pc), k, smin), j
		}
	}
	// compare per subpath
	for kk := range subs {
		f := &subs[kk]
		j := sj[kk]
		if j.path == nil {
			j = nil
		}
		want := sj[kk].want
		var got [][2]float64
		wrapped := false
		for _, o := range obs[kk] {
			if o.b > f.L+1e-9*f.sc && f.closed {
				got = append(got, [2]float64{o.a, f.L}, [2]float64{0, o.b - f.L})
				wrapped = true
			} else {
				got = append(got, [2]float64{o.a, math.Min(o.b, f.L)})
			}
		}
		// VERDICT IN LEAN for straight subpaths: the raw observation (arc-length intervals of the
		// returned pieces) is sent to the Lean driver, which decides it against the pattern
		// semantics (CanvasModel/C05.lean verdictBad; C05.phase_drawn_iff, sampleOk_mono)
		if f.straight && P > 0 && len(got) <= 150 && minAll(d) >= 0 {
			var sb strings.Builder
			sb.WriteString(patLine("VERDICT", off, d))
			fmt.Fprintf(&sb, " %s %d", hc.H(f.L), len(got))
			for _, iv := range got {
				fmt.Fprintf(&sb, " %s %s", hc.H(iv[0]), hc.H(iv[1]))
			}
			c.Case(sb.String(), "!", "lean-verdict:"+tag)
			c.Count(tag + ":verdict decided in Lean")
		}
		if !f.straight && sj[kk].path != nil {
			le := math.Abs(sj[kk].path.Length()-f.L) / f.maxSeg
			c.Count(tag + ":Path.Length error/longest segment " + bucket(le))
			if le*1e6 > maxLenErrPPM {
				maxLenErrPPM = le * 1e6
				maxLenErrCase = sj[kk].path.String()
			}
			if le > lengthTol {
				return "length-accuracy", fmt.Sprintf("subpath %d: Path.Length = %.9g, true length %.9g: off by %.3g%% of the longest segment (bound %.2g%%)", kk, sj[kk].path.Length(), f.L, 100*le, 100*lengthTol), nil
			}
		}
		nb := 2*len(want) + 2
		// Relative to the size of the subpath (the property must hold whatever the unit of the
		// coordinates): curveTol (0.2%) of the longest segment on curves (see curveTol); on straight
		// subpaths 1e-7 of the length plus 1e-9, the latter for the library's absolute Epsilon = 1e-10
		// in `pos+d[i]+Epsilon < length` (never looser than the former 1e-7*(1+L)).
		tolCut := curveTol*f.maxSeg + 1e-6*f.sc
		if f.straight {
			tolCut = 1e-7*f.sc + 1e-9
		}
		sd := symDiff(want, got, f.L)
		rel := sd / float64(nb) / f.maxSeg
		c.Count(tag + ":cut-err/seglen " + bucket(rel))
		if sd <= float64(nb)*tolCut && rel*1e6 > maxCutErrPPM[tag] {
			maxCutErrPPM[tag] = rel * 1e6
			maxCutErrCase[tag] = fmt.Sprintf("Dash(%v, %v) on %q", off, d, p.String())
		}
		if sd > float64(nb)*tolCut {
			// Is the disagreement confined to the stretch after the last pattern boundary that is
			// clearly inside the subpath, with another boundary within the length tolerance of the
			// end? Then Dash's own position list (built from Path.Length) and SplitAt's cuts
			// (built from the Chebyshev lengths) disagree about that last cut and the final piece
			// gets the wrong parity.
			if !f.straight && P > 0 {
				ext := expectedIntervals(off, d, f.L+tolCut)
				nearEnd, lastInside := false, 0.0
				for _, iv := range ext {
					for _, x := range iv {
						if math.Abs(x-f.L) <= tolCut && x != f.L+tolCut {
							nearEnd = true
						} else if x < f.L-tolCut && x > lastInside {
							lastInside = x
						}
					}
				}
				clip := func(s [][2]float64) (o [][2]float64) {
					for _, iv := range s {
						if iv[0] < lastInside {
							o = append(o, [2]float64{iv[0], math.Min(iv[1], lastInside)})
						}
					}
					return
				}
				if nearEnd && lastInside > 0 && symDiff(clip(want), clip(got), lastInside) <= float64(nb)*tolCut {
					return "end-boundary-parity:" + tag, fmt.Sprintf("subpath %d (length %.6g, Path.Length %.6g): a pattern boundary lies within %.3g of the end and the final stretch after %.6g is drawn/skipped wrongly: drawn %v, pattern %v",
						kk, f.L, lenOf(sj[kk].path), tolCut, lastInside, short(got), short(want)), j
				}
			}
			return "pattern-mismatch:" + tag, fmt.Sprintf("subpath %d (length %.6g): drawn stretches %v, pattern prescribes %v; symmetric difference %.4g > %.4g; %s",
				kk, f.L, short(got), short(want), sd, float64(nb)*tolCut, firstDiff(want, got, f.L)), j
		}
		// structure, only when no boundary is within the tolerance band of another one or of the ends
		clear := true
		for i, iv := range want {
			if iv[1]-iv[0] < 4*tolCut || (iv[0] > 0 && iv[0] < 4*tolCut) || (iv[1] < f.L && f.L-iv[1] < 4*tolCut) {
				clear = false
			}
			if i > 0 && iv[0]-want[i-1][1] < 4*tolCut {
				clear = false
			}
		}
		// no pattern boundary (also just outside the subpath) within the band of the two ends
		if P > 0 {
			band := 4 * tolCut
			for _, iv := range expectedIntervals(off-band, d, f.L+2*band) {
				for _, y := range iv {
					if (y > 0 && y < 2*band) || (y > f.L && y < f.L+2*band) {
						clear = false
					}
				}
			}
		}
		if !clear {
			c.Count(tag + ":structure-skipped-in-tolerance-band")
			continue
		}
		wantN := len(want)
		join := f.closed && len(want) >= 2 && want[0][0] == 0 && want[len(want)-1][1] == f.L
		if join {
			wantN--
		}
		if len(obs[kk]) != wantN {
			return "piece-count:" + tag, fmt.Sprintf("subpath %d: %d pieces returned, pattern prescribes %d (closed=%v, joined=%v): got %v want %v",
				kk, len(obs[kk]), wantN, f.closed, join, short(got), short(want)), j
		}
		if join {
			c.Count(tag + ":closed-join-expected")
			if !wrapped {
				return "closed-not-joined:" + tag, fmt.Sprintf("subpath %d is closed and starts and ends inside a dash, but no returned piece runs through the start point", kk), j
			}
		}
		// path order (cyclic for closed subpaths: the piece through/up to the start point may come first)
		desc := 0
		for i := 1; i < len(obs[kk]); i++ {
			if obs[kk][i].a < obs[kk][i-1].a {
				desc++
			}
		}
		if desc > 1 || (desc == 1 && !f.closed) {
			return "piece-order:" + tag, fmt.Sprintf("subpath %d: pieces not in path order: %v", kk, short(got)), j
		}
		c.Count(tag + ":structure-checked")
	}
	return "", "", nil
}

// hasReversal: two consecutive straight segments of the subpath are antiparallel.
func hasReversal(f *fineSub) bool {
	var segs []hc.Seg
	for _, s := range f.segs {
		if s.P0 != s.End {
			segs = append(segs, s)
		}
	}
	for i := 0; i+1 < len(segs); i++ {
		a, b := segs[i].End.Sub(segs[i].P0), segs[i+1].End.Sub(segs[i+1].P0)
		if math.Abs(a.Cross(b)) <= 1e-12*a.Len()*b.Len() && a.Dot(b) < 0 {
			return true
		}
	}
	return false
}

// unevenness: over the curved segments of the subpath, the smallest ratio of slowest to fastest
// parametric speed (from the chords of the dense flattening, which is uniform in the parameter), and
// the largest axis ratio of an elliptical arc.
func unevenness(f *fineSub) (speedRatio, ecc float64) {
	speedRatio, ecc = 1, 1
	for si, g := range f.segs {
		if g.Kind == 'L' || g.Kind == 'Z' {
			continue
		}
		lo, hi := math.Inf(1), 0.0
		for k := 0; k < f.n; k++ {
			cl := f.cum[si*f.n+k+1] - f.cum[si*f.n+k]
			lo, hi = math.Min(lo, cl), math.Max(hi, cl)
		}
		if hi > 0 && lo/hi < speedRatio {
			speedRatio = lo / hi
		}
		if g.Kind == 'A' {
			_, _, _, rx, ry := hc.ArcCenter(g)
			if r := math.Max(rx, ry) / math.Min(rx, ry); r > ecc {
				ecc = r
			}
		}
	}
	return
}

func bucket10(x float64) string {
	for _, b := range []float64{0.01, 0.02, 0.05, 0.1, 0.2, 0.3, 0.5} {
		if x < b {
			return fmt.Sprintf("<%.2f", b)
		}
	}
	return ">=0.5"
}

func bucketEcc(x float64) string {
	for _, b := range []float64{1.5, 2, 3, 5, 10} {
		if x < b {
			return fmt.Sprintf("<%g", b)
		}
	}
	return ">=10"
}

func minAll(d []float64) float64 {
	m := math.Inf(1)
	for _, x := range d {
		m = math.Min(m, x)
	}
	return m
}

func minPositive(d []float64) float64 {
	m := 0.0
	for _, x := range d {
		if x > 0 && (m == 0 || x < m) {
			m = x
		}
	}
	return m
}

func lenOf(p *canvas.Path) float64 {
	if p == nil {
		return math.NaN()
	}
	return p.Length()
}

func short(iv [][2]float64) string {
	s := "["
	for i, x := range iv {
		if i > 0 {
			s += " "
		}
		if i >= 12 {
			s += "…"
			break
		}
		s += fmt.Sprintf("%.5g..%.5g", x[0], x[1])
	}
	return s + "]"
}

func pathOf(pc []hc.Seg) string {
	s := ""
	for _, g := range pc {
		s += fmt.Sprintf("%c%.6g %.6g ", g.Kind, g.End.X, g.End.Y)
	}
	return s
}

// ---- generators -----------------------------------------------------------------------------------

func genRealPattern(c *hc.Ctx) ([]float64, string) {
	if c.Chance(0.5) {
		d, cls := genPattern(c, false)
		return d, cls
	}
	n := 1 + c.Intn(5)
	d := make([]float64, n)
	for i := range d {
		d[i] = math.Round(c.Range(0.4, 9)*1000) / 1000
	}
	cls := "real"
	if n%2 == 1 {
		cls += "/odd"
	}
	return d, cls
}

func oracleCurves(c *hc.Ctx) {
	for it := 0; it < c.N; it++ {
		kinds := []string{"L", "Q", "C", "A", "LQCA", "LQCAZ", "QC"}[c.Intn(7)]
		p := c.GenPath(kinds, 4, 3)
		d, cls := genRealPattern(c)
		if len(d) == 0 {
			continue
		}
		P := sum(d)
		off, ocls := genOffset(c, P)
		if c.Chance(0.3) {
			off += c.Range(-0.5, 0.5)
		}
		if it == 0 {
			p, d, off, cls, ocls = canvas.MustParseSVGPath("M0 0L10 0"), []float64{2, 2}, -5, "witness", "off:negative-multi-period"
		}
		tag := "curve"
		if kinds == "L" {
			tag = "polyline"
		}
		c.Count(tag + ":pattern " + cls)
		c.Count(tag + ":" + ocls)
		c.Count(tag + ":kinds " + kinds)
		q, ran, kind0, desc0, replay0 := runDashCaseKind(c, tag, p, off, d)
		if kind0 != "" {
			fail(c, kind0, desc0, replay0)
		}
		if it == 1 && q != nil {
			c.Sample(fmt.Sprintf("oracle: Dash(%v, %v) on %q = %q", off, d, p.String(), q.String()))
		}
		// SCALE axis: the same shape, pattern and offset in another unit (a power of two, so that
		// every floating-point operation of the library is exactly covariant and only absolute
		// constants in the code can make a difference)
		if ran && c.Chance(0.6) {
			k := scaleExps[c.Intn(len(scaleExps))]
			scaleCase(c, tag, p, off, d, q, kind0, k)
		}
	}
}

var scaleExps = []int{-13, -12, -10, -8, -7, -6, -5, -4, -3, -2, -1, 1, 3, 6, 10, 13}

// scalePath rebuilds p with every coordinate and radius multiplied by s (through the public builder,
// from the decoded raw data; not with the library's Transform).
func scalePath(p *canvas.Path, s float64) *canvas.Path {
	segs, err := hc.Decode(p.Data())
	if err != nil {
		return nil
	}
	q := &canvas.Path{}
	for _, g := range segs {
		switch g.Kind {
		case 'M':
			q.MoveTo(g.End.X*s, g.End.Y*s)
		case 'L':
			q.LineTo(g.End.X*s, g.End.Y*s)
		case 'Q':
			q.QuadTo(g.P1.X*s, g.P1.Y*s, g.End.X*s, g.End.Y*s)
		case 'C':
			q.CubeTo(g.P1.X*s, g.P1.Y*s, g.P2.X*s, g.P2.Y*s, g.End.X*s, g.End.Y*s)
		case 'A':
			q.ArcTo(g.Rx*s, g.Ry*s, g.Phi*180/math.Pi, g.Large, g.Sweep, g.End.X*s, g.End.Y*s)
		case 'Z':
			q.Close()
		}
	}
	return q
}

// scaleCase runs Dash on the scaled twin (scale 2^k) of a case, judges it with the same (relative)
// tolerances, and checks the metamorphic law Dash(s*p, s*off, s*d) = s*Dash(p, off, d).
func scaleCase(c *hc.Ctx, tag string, p *canvas.Path, off float64, d []float64, q *canvas.Path, kind0 string, k int) {
	s := math.Ldexp(1, k)
	base, err := hc.Decode(p.Data())
	ps0 := scalePath(p, 1)
	ps := scalePath(p, s)
	if err != nil || ps == nil || ps0 == nil {
		return
	}
	// the rebuilt path must be the same path (the builder may normalise commands; skip if it did)
	if b0, _ := hc.Decode(ps0.Data()); len(b0) != len(base) {
		c.Count("scale:skip-builder-normalised")
		return
	}
	if bs, _ := hc.Decode(ps.Data()); len(bs) != len(base) {
		c.Count("scale:skip-builder-normalised")
		return
	}
	ds := make([]float64, len(d))
	for i := range d {
		ds[i] = d[i] * s
	}
	c.Count(fmt.Sprintf("scale:2^%d", k))
	qs, ran, kindS, descS, replayS := runDashCaseKind(c, tag, ps, off*s, ds)
	if kindS != "" {
		if kind0 == "" {
			// the same shape and pattern satisfy the property at scale 1 but not at this scale: never
			// attributed to the (scale-free) accuracy of the arc-length inversion
			c.Count("scale:ok-at-1-fails-scaled " + kindS)
			replayS["scale"] = s
			replayS["base_path"] = p.String()
			kind := "scale-dependence:judged"
			if k <= -10 && hasCubic(base) && kindS == "inverse-arc-length-accuracy" {
				// regression class of C05-scale-dependence-cubic-epsilon (repaired by 33b2fe8):
				// absolute zero tests on the inflection coefficients of cubics at coordinates ~1e-3
				kind = "scale-dependence:cubic-below-2^-10"
			}
			fail(c, kind, fmt.Sprintf("holds for the path at scale 1 but fails at scale 2^%d (%s): %s", k, kindS, descS), replayS)
		} else {
			fail(c, kindS, descS, replayS)
		}
	} else if kind0 != "" {
		c.Count("scale:fails-at-1-ok-scaled")
	}
	if !ran || q == nil || qs == nil {
		return
	}
	// metamorphic comparison with the result at scale 1 (on the rebuilt path, to compare like with like)
	var q0 *canvas.Path
	if msg := hc.Try(func() { q0 = ps0.Dash(off, append([]float64{}, d...)...) }); msg != "" {
		return
	}
	c.Evals++
	replay := map[string]any{"path": p.String(), "offset": off, "d": d, "scale": s, "scaled_path": ps.String(), "out": q0.String(), "scaled_out": qs.String()}
	a, err1 := hc.Decode(q0.Data())
	b, err2 := hc.Decode(qs.Data())
	if err1 != nil || err2 != nil {
		return
	}
	ext := 0.0
	for _, g := range base {
		ext = math.Max(ext, math.Max(math.Abs(g.End.X), math.Abs(g.End.Y)))
	}
	// compare the two ends of every returned piece (the number of commands inside a piece may
	// differ by a segment shorter than the builder's absolute Epsilon, which is dropped at one scale
	// and kept at the other)
	pa, pb := hc.Subpaths(a), hc.Subpaths(b)
	if len(pa) != len(pb) {
		c.Count("scale:number of pieces differs (both judged separately)")
		return
	}
	worst := 0.0
	for i := range pa {
		for _, e := range [][2]hc.P2{{pa[i][0].End, pb[i][0].End}, {pa[i][len(pa[i])-1].End, pb[i][len(pb[i])-1].End}} {
			worst = math.Max(worst, math.Max(math.Abs(e[1].X/s-e[0].X), math.Abs(e[1].Y/s-e[0].Y)))
		}
	}
	maxSeg := 0.0
	for _, sp := range hc.Subpaths(base) {
		if f := flatten(sp, 64); f.maxSeg > maxSeg {
			maxSeg = f.maxSeg
		}
	}
	if !(maxSeg > 0) {
		return
	}
	rel := worst / maxSeg
	c.Count("scale:metamorphic deviation/longest segment " + bucket(rel))
	if rel >= 1e-9 {
		kinds := map[byte]bool{}
		for _, g := range base {
			kinds[g.Kind] = true
		}
		cls := ""
		for _, kk := range []byte("QCA") {
			if kinds[kk] {
				cls += string(kk)
			}
		}
		c.Count(fmt.Sprintf("scale:deviating 2^%d kinds %s", k, cls))
	}
	if rel*1e6 > maxScaleDevPPM {
		maxScaleDevPPM = rel * 1e6
	}
	// Power-of-two scaling is exact in floating point, so a deviation can only come from absolute
	// constants in the code. Since 33b2fe8 (cubic inflection coefficients normalised) the unchanged
	// tree shows none at all (observed maximum below 1e-9 of the longest segment over all sweeps), so
	// the law is checked at 1e-6 of the longest segment, whatever the verdict at scale 1. A deviation
	// on a path with cubics at scale <= 2^-10 that stays below 10% is named after the repaired defect
	// (regression class of 33b2fe8).
	if rel > 1e-6 {
		kind := "scale-dependence:positions"
		if k <= -10 && hasCubic(base) && rel <= 0.1 {
			kind = "scale-dependence:cubic-below-2^-10"
		}
		fail(c, kind, fmt.Sprintf("Dash(2^%d*p, 2^%d*offset, 2^%d*d) deviates from 2^%d*Dash(p, offset, d) by %.3g of the longest segment", k, k, k, k, rel), replay)
	}
}

func hasCubic(segs []hc.Seg) bool {
	for _, g := range segs {
		if g.Kind == 'C' {
			return true
		}
	}
	return false
}

var maxScaleDevPPM, maxLenErrPPM float64
var maxLenErrCase string

// runDashCase runs the real Dash on one input and judges the result; ran=false when Dash was not
// called or did not return normally (q is nil when the path itself was returned).
func runDashCase(c *hc.Ctx, tag string, p *canvas.Path, off float64, d []float64) (*canvas.Path, bool) {
	q, ran, kind, desc, replay := runDashCaseKind(c, tag, p, off, d)
	if kind != "" {
		fail(c, kind, desc, replay)
	}
	return q, ran
}

// runDashCaseKind is runDashCase without recording the verdict of the pattern oracle (failures of
// the run itself — panic, non-finite length, impurity — are recorded here).
func runDashCaseKind(c *hc.Ctx, tag string, p *canvas.Path, off float64, d []float64) (*canvas.Path, bool, string, string, map[string]any) {
	P := sum(d)
	{
		// Safety net (regression class of the defect repaired by e51fcfc): Path.Length must be
		// finite, otherwise Dash's position loop never ends (+Inf) or never starts (NaN). Counted as
		// a failure, never skipped silently; Dash is not called so that the harness survives.
		if l := p.Length(); math.IsNaN(l) || math.IsInf(l, 0) {
			c.Evals++
			fail(c, "path-length-not-finite", fmt.Sprintf("Path.Length() = %v; Dash(%v, %v) would not terminate (+Inf) or returns the path undashed (NaN); Dash not called", l, off, d),
				map[string]any{"path": p.String(), "offset": off, "d": d, "length": fmt.Sprint(l)})
			return nil, false, "", "", nil
		} else if minPos := minPositive(d); minPos > 0 && l/minPos > 2000 {
			c.Count(tag + ":skip-more-than-2000-pieces")
			return nil, false, "", "", nil
		}
		orig := append([]float64{}, p.Data()...)
		if os.Getenv("C05_TRACE") != "" {
			fmt.Fprintf(os.Stderr, "TRACE Dash(%v, %v) on %q\n", off, d, p.String())
		}
		var q *canvas.Path
		if msg := hc.Try(func() { q = p.Dash(off, append([]float64{}, d...)...) }); msg != "" {
			fail(c, "panic:Dash", msg, map[string]any{"path": p.String(), "offset": off, "d": d})
			return nil, false, "", "", nil
		}
		for i, x := range p.Data() {
			if x != orig[i] && !(x != x && orig[i] != orig[i]) {
				fail(c, "impure:Dash-mutates-path", "Dash changed its receiver", map[string]any{"path": p.String(), "offset": off, "d": d})
				break
			}
		}
		c.Distinct(fmt.Sprint(p.String(), off, d))
		if q == p {
			// documented: solid stroke. Must be what the pattern prescribes: everything drawn
			c.Count(tag + ":returned-whole")
			if P > 0 {
				L := 50.0 * P
				if w := expectedIntervals(off, d, L); symDiff(w, [][2]float64{{0, L}}, L) > 1e-9*L {
					fail(c, "whole-but-pattern-has-gaps", "Dash returned the path itself although the pattern has gaps", map[string]any{"path": p.String(), "offset": off, "d": d})
				}
			} else {
				fail(c, "whole-for-all-zero", "Dash returned the path itself for an all-zero pattern", map[string]any{"path": p.String(), "offset": off, "d": d})
			}
			return nil, true, "", "", nil
		}
		for _, x := range q.Data() {
			if math.IsNaN(x) || math.IsInf(x, 0) {
				return q, true, "non-finite-coordinate-in-output", fmt.Sprintf("Dash(%v, %v) returned a path with a non-finite coordinate", off, d),
					map[string]any{"path": p.String(), "offset": off, "d": d, "out": q.String()}
			}
		}
		kind, desc, replay := judgeDashKind(c, tag, p, off, d, q)
		return q, true, kind, desc, replay
	}
}

// oracleRegressions replays the recorded inputs of the repaired defects on every run, so that a
// recurrence is reported with its input whatever the seed.
func oracleRegressions(c *hc.Ctx) {
	if one := os.Getenv("C05_ONE"); one != "" {
		// C05_ONE="<svg path>|<offset>|<d0,d1,...>": judge one input (debugging aid)
		parts := strings.Split(one, "|")
		p := canvas.MustParseSVGPath(parts[0])
		var off float64
		fmt.Sscan(parts[1], &off)
		var d []float64
		for _, x := range strings.Split(parts[2], ",") {
			var v float64
			fmt.Sscan(x, &v)
			d = append(d, v)
		}
		q := p.Dash(off, append([]float64{}, d...)...)
		k, desc, _ := judgeDashKind(c, "curve", p, off, d, q)
		fmt.Fprintln(os.Stderr, "C05_ONE verdict:", k, desc)
	}
	cases := []struct {
		name, path string
		off        float64
		d          []float64
	}{
		{"5884f31 two cuts at parameter 1 of a cubic (NaN piece)", "M14.449 -8C12.584 -8 -2 -7.602 5 10.294C3.615 -9 15.305 6.599 -10.432 6C9.661 -4.858 -10.647 16.065 6 -2z", 0, []float64{0.125}},
		{"e14817f negative offset beyond one period", "M0 0L10 0", -5, []float64{2, 2}},
		{"e14817f negative offset after folded leading zero", "M-1 0.25L3.625 0.25", -5, []float64{0, 5.375, 1.375, 3.375}},
		{"8a98a46 cut between SplitAt's length and Path.Length (arc+quad)", "M2 -4.5A13.99387774096553 6.996938870482765 30.392049502180505 1 1 -14.036 1Q0.325 10.114 -2.638 3.5", 7.644705817225682, []float64{5.764, 4.535}},
		{"e51fcfc collinear quad, Length was +Inf", "M-3.5 -1Q-2.415 -1 -8.25 -1", 0, []float64{1.75, 1.625}},
		{"e51fcfc quad ending at its start, Length was NaN", "M-12.8 11.062Q7 -8.5 -5 7.367Q-16.953 1.161 -9 -3Q3.75 4.75 -9 -3z", 3, []float64{3.9, 7.142}},
		{"219108c dash through a 180 degree turn", "M-3 4.25L-3 -11.094z", 48.5, []float64{0.625, 0.75}},
		{"fc041fc arc theta panic", "M0.46 1A20.229 3.491 0.01986189541452029 1 0 -3.75 -1.549A6.330337194810294 3.5119292427551345 30.000000000000014 0 0 7.75 2.25A16.25 1.702 59.99999999999999 1 0 4 -4.246A18.815 8 150.00000000000003 1 1 -14.818 8.715", 148, []float64{3.125, 1}},
	}
	for _, tc := range cases {
		p, err := canvas.ParseSVGPath(tc.path)
		if err != nil {
			continue
		}
		c.Count("regression-input: " + tc.name)
		replay := map[string]any{"path": tc.path, "offset": tc.off, "d": tc.d, "regression": tc.name}
		if l := p.Length(); math.IsNaN(l) || math.IsInf(l, 0) {
			c.Evals++
			fail(c, "path-length-not-finite", fmt.Sprintf("Path.Length() = %v on %q; Dash not called", l, tc.path), replay)
			continue
		}
		var q *canvas.Path
		if msg := hc.Try(func() { q = p.Dash(tc.off, append([]float64{}, tc.d...)...) }); msg != "" {
			fail(c, "panic:Dash", msg, replay)
			continue
		}
		tag := "curve"
		if !strings.ContainsAny(tc.path, "QCA") {
			tag = "polyline"
		}
		nonFinite := false
		for _, x := range q.Data() {
			if math.IsNaN(x) || math.IsInf(x, 0) {
				nonFinite = true
			}
		}
		if nonFinite {
			replay["out"] = q.String()
			fail(c, "non-finite-coordinate-in-output", fmt.Sprintf("Dash(%v, %v) returned a path with a non-finite coordinate", tc.off, tc.d), replay)
			continue
		}
		judgeDash(c, tag, p, tc.off, tc.d, q)
	}
}

func oracleDegenerate(c *hc.Ctx) {
	for it := 0; it < c.N/4+2; it++ {
		p := c.GenPath("LQCA", 4, 3)
		off := c.Range(-10, 10)
		c.Evals++
		// empty pattern returns the path
		var q *canvas.Path
		if msg := hc.Try(func() { q = p.Dash(off) }); msg != "" {
			fail(c, "panic:Dash", msg, map[string]any{"path": p.String(), "offset": off, "d": []float64{}})
			continue
		}
		c.Count("degenerate:empty-pattern")
		if q.String() != p.String() {
			fail(c, "empty-pattern-not-identity", "Dash with an empty pattern did not return the path", map[string]any{"path": p.String(), "offset": off, "out": q.String()})
		}
		// all-zero pattern returns nothing
		n := 1 + c.Intn(4)
		z := make([]float64, n)
		if msg := hc.Try(func() { q = p.Dash(off, z...) }); msg != "" {
			fail(c, "panic:Dash", msg, map[string]any{"path": p.String(), "offset": off, "d": z})
			continue
		}
		c.Count("degenerate:all-zero-pattern")
		if !q.Empty() {
			fail(c, "all-zero-pattern-draws", "Dash with an all-zero pattern returned something", map[string]any{"path": p.String(), "offset": off, "d": z, "out": q.String()})
		}
		// ScaleDash scales offset and pattern
		s := c.Range(0.1, 5)
		d, _ := genPattern(c, false)
		o2, d2 := canvas.ScaleDash(s, off, d)
		ok := o2 == off*s && len(d2) == len(d)
		for i := range d {
			ok = ok && d2[i] == d[i]*s
		}
		c.Count("degenerate:ScaleDash")
		if !ok {
			fail(c, "ScaleDash", "ScaleDash does not scale", map[string]any{"scale": s, "offset": off, "d": d})
		}
	}
}

func finishHist(c *hc.Ctx) {
	for tag, v := range maxCutErrPPM {
		c.Hist["observed-max mean cut error ["+tag+"] (ppm of longest segment)"] = int(math.Ceil(v))
		if tag == "curve" {
			c.Sample(fmt.Sprintf("largest mean cut error on curves %.0f ppm of the longest segment: %s", v, maxCutErrCase[tag]))
		}
	}
	c.Hist["observed-max metamorphic deviation under 2^k scaling (ppm of longest segment)"] = int(math.Ceil(maxScaleDevPPM))
	c.Hist["observed-max Path.Length error on curved subpaths (ppm of longest segment)"] = int(math.Ceil(maxLenErrPPM))
	if maxLenErrCase != "" {
		c.Sample(fmt.Sprintf("largest Path.Length error %.0f ppm of the longest segment: %s", maxLenErrPPM, maxLenErrCase))
	}
	c.Hist["observed-max piece deviation from path (ppm of length)"] = int(math.Ceil(maxDevPPM))
}
