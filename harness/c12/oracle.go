package main

// Oracle: the painted items the independent interpreters read from the real output are compared
// with the reference semantics of rasterizer.RenderPath (rasterizer.go 79-158): the filled path
// under the view, then the stroke = Transform(m)(Stroke(Dash(path, ScaleDash(width, …)), width, cap,
// join)).  A back-end may express the stroke natively when the view is a similarity and the format
// has the join (then width·s, dashes·width·s, cap, join and limit must be those of the style), or as
// the explicit outline (then its geometry must be the reference outline, filled NonZero).

import (
	"fmt"
	"image/color"
	"math"
	"strings"
	"time"

	"github.com/tdewolff/canvas"
	"github.com/tdewolff/canvas/renderers/pdf"
	"verifharness/hc"
)

// ---- geometry comparison -----------------------------------------------------------------------

type edge struct{ a, b hc.P2 }

func edgesOf(segs []hc.Seg, fine int) []edge {
	var out []edge
	for _, s := range segs {
		switch s.Kind {
		case 'M':
		case 'L', 'Z':
			out = append(out, edge{s.P0, s.End})
		default:
			n := fine
			if s.Kind == 'A' {
				// chord error r·step²/8 <= 1e-5·(1+r)
				_, _, dth, rx, ry := hc.ArcCenter(s)
				r := math.Max(rx, ry)
				n = int(math.Abs(dth)/math.Sqrt(8e-5*(1+r)/r)) + 2
			}
			pts := hc.SampleSeg(s, n)
			for i := 0; i+1 < len(pts); i++ {
				out = append(out, edge{pts[i], pts[i+1]})
			}
		}
	}
	return out
}

func samplesOf(segs []hc.Seg, n int) []hc.P2 {
	var out []hc.P2
	for _, s := range segs {
		switch s.Kind {
		case 'M':
		case 'L', 'Z':
			out = append(out, s.P0, hc.P2{X: (s.P0.X + s.End.X) / 2, Y: (s.P0.Y + s.End.Y) / 2}, s.End)
		default:
			out = append(out, hc.SampleSeg(s, n)...)
		}
	}
	return out
}

type grid struct {
	h     float64
	cells map[[2]int][]int
	es    []edge
	tol   float64
}

func newGrid(es []edge, tol float64) *grid {
	g := &grid{h: math.Max(4*tol, 0.5), cells: map[[2]int][]int{}, es: es, tol: tol}
	for i, e := range es {
		x0, x1 := math.Min(e.a.X, e.b.X)-tol, math.Max(e.a.X, e.b.X)+tol
		y0, y1 := math.Min(e.a.Y, e.b.Y)-tol, math.Max(e.a.Y, e.b.Y)+tol
		if (x1-x0)/g.h*(y1-y0)/g.h > 4096 { // a huge edge: keep it in a catch-all cell
			g.cells[[2]int{math.MaxInt32, 0}] = append(g.cells[[2]int{math.MaxInt32, 0}], i)
			continue
		}
		for cx := int(math.Floor(x0 / g.h)); cx <= int(math.Floor(x1/g.h)); cx++ {
			for cy := int(math.Floor(y0 / g.h)); cy <= int(math.Floor(y1/g.h)); cy++ {
				g.cells[[2]int{cx, cy}] = append(g.cells[[2]int{cx, cy}], i)
			}
		}
	}
	return g
}

func (g *grid) near(p hc.P2) bool {
	for _, key := range [][2]int{{int(math.Floor(p.X / g.h)), int(math.Floor(p.Y / g.h))}, {math.MaxInt32, 0}} {
		for _, i := range g.cells[key] {
			if hc.DistPointSeg(p, g.es[i].a, g.es[i].b) <= g.tol {
				return true
			}
		}
	}
	return false
}

func (g *grid) dist(p hc.P2) float64 {
	best := math.Inf(1)
	for _, e := range g.es {
		if d := hc.DistPointSeg(p, e.a, e.b); d < best {
			best = d
		}
	}
	return best
}

func signedArea(segs []hc.Seg) float64 {
	a := 0.0
	for _, sp := range hc.Subpaths(segs) {
		es := edgesOf(sp, 96)
		if len(es) == 0 {
			continue
		}
		for _, e := range es {
			a += e.a.Cross(e.b)
		}
		a += es[len(es)-1].b.Cross(es[0].a) // implicit closing edge (zero when closed)
	}
	return a / 2
}

func extent(segs []hc.Seg) float64 {
	m := 0.0
	for _, s := range segs {
		for _, p := range []hc.P2{s.P0, s.End} {
			m = math.Max(m, math.Max(math.Abs(p.X), math.Abs(p.Y)))
		}
	}
	return m
}

func countDrawn(segs []hc.Seg) int {
	n := 0
	for _, s := range segs {
		if s.Kind != 'M' {
			n++
		}
	}
	return n
}

// geomDiff returns "" when the two geometries coincide as curves (two-sided distance <= tol) and
// enclose the same signed area; otherwise a description. maxd is the largest distance seen when
// it had to be measured exactly.
func geomDiff(ref, got []hc.Seg, tol float64) (string, float64) {
	if countDrawn(ref) == 0 && countDrawn(got) == 0 {
		return "", 0
	}
	if countDrawn(ref) == 0 || countDrawn(got) == 0 {
		return fmt.Sprintf("one side is empty (%d vs %d segments)", countDrawn(ref), countDrawn(got)), math.Inf(1)
	}
	er, eg := edgesOf(ref, 96), edgesOf(got, 96)
	gr, gg := newGrid(er, tol), newGrid(eg, tol)
	worst := 0.0
	far := 0
	for _, p := range samplesOf(ref, 12) {
		if !gg.near(p) {
			if far++; far <= 3 { // exact distances only for the first few far points (they are for the message)
				worst = math.Max(worst, gg.dist(p))
			}
		}
	}
	for _, p := range samplesOf(got, 12) {
		if !gr.near(p) {
			if far++; far <= 6 {
				worst = math.Max(worst, gr.dist(p))
			}
		}
	}
	if worst > tol {
		return fmt.Sprintf("curves differ: a point of one lies %.6g from the other (tolerance %.3g)", worst, tol), worst
	}
	ar, ag := signedArea(ref), signedArea(got)
	per := 0.0
	for _, e := range er {
		per += e.a.Dist(e.b)
	}
	if math.Abs(ar-ag) > 4*tol*per+1e-6*math.Abs(ar)+1e-9 {
		return fmt.Sprintf("signed areas differ: %.8g vs %.8g (orientation or multiplicity)", ar, ag), worst
	}
	return "", worst
}

// ---- reference ---------------------------------------------------------------------------------

func decodePath(p *canvas.Path) []hc.Seg {
	segs, _ := hc.Decode(p.Data())
	return segs
}

func hasArc(segs []hc.Seg) (found bool, rmax, rmin float64) {
	rmin = math.Inf(1)
	for _, s := range segs {
		if s.Kind == 'A' {
			found = true
			rmax = math.Max(rmax, math.Max(s.Rx, s.Ry))
			rmin = math.Min(rmin, math.Min(s.Rx, s.Ry))
		}
	}
	return
}

type simClass int

const (
	simNo simClass = iota
	simYes
	simBorderline
)

// similarity decides m = s·(rotation or reflection) from the definition, with a relative band in
// which the case is skipped.
func similarity(m canvas.Matrix) simClass {
	a, b, c, d := m[0][0], m[0][1], m[1][0], m[1][1]
	n := a*a + b*b + c*c + d*d
	if n == 0 {
		return simBorderline
	}
	e := math.Max(math.Abs(a*a+b*b-c*c-d*d), math.Abs(a*c+b*d)) / n
	switch {
	case e < 1e-12:
		return simYes
	case e > 1e-7:
		return simNo
	}
	return simBorderline
}

// joinExpressible: which joins the format defines. PDF/PS: 0 miter (bevel beyond the miter limit),
// 1 round, 2 bevel. SVG additionally `arcs` (SVG 2) with a limit.
func joinExpressible(backend string, j canvas.Joiner) (ok bool, code int, limit float64) {
	switch t := j.(type) {
	case canvas.BevelJoiner:
		return true, 2, math.NaN()
	case canvas.RoundJoiner:
		return true, 1, math.NaN()
	case canvas.MiterJoiner:
		if _, bevel := t.GapJoiner.(canvas.BevelJoiner); bevel && !math.IsNaN(t.Limit) {
			return true, 0, t.Limit
		}
	case canvas.ArcsJoiner:
		if backend == "svg" && !math.IsNaN(t.Limit) {
			return true, 3, t.Limit
		}
	}
	return false, -1, math.NaN()
}

func refOutline(cl call, scaleDashes bool) []hc.Seg {
	s := cl.style
	p := cl.path
	if 0 < len(s.Dashes) {
		off, d := s.DashOffset, append([]float64{}, s.Dashes...)
		if scaleDashes {
			off *= s.StrokeWidth
			for i := range d {
				d[i] *= s.StrokeWidth
			}
		}
		p = p.Dash(off, d...)
	}
	p = p.Stroke(s.StrokeWidth, s.StrokeCapper, s.StrokeJoiner, canvas.Tolerance)
	return decodePath(p.Transform(cl.m))
}

func normDash(d []float64, ph float64) ([]float64, float64) {
	if len(d) == 0 {
		return nil, 0
	}
	if len(d)%2 == 1 {
		d = append(append([]float64{}, d...), d...)
	}
	per := 0.0
	for _, x := range d {
		per += x
	}
	if 0 < per {
		ph = math.Mod(ph, per)
		if ph < 0 {
			ph += per
		}
		if per-ph < 1e-7*per {
			ph = 0
		}
	}
	return d, ph
}

func closeF(a, b, tol float64) bool { return math.Abs(a-b) <= tol*(1+math.Abs(a)+math.Abs(b)) }

func unpremul(c color.RGBA) ([3]float64, float64) {
	a := float64(c.A)
	return [3]float64{float64(c.R) / a, float64(c.G) / a, float64(c.B) / a}, a / 255
}

// ---- comparison of one draw --------------------------------------------------------------------

type disc struct{ kind, desc string }

type cmpCtx struct {
	c        *hc.Ctx
	backend  string
	unit     float64 // factor applied to the back-end's lengths before comparison
	grads    []canvas.Gradient
	gradName map[string]canvas.Gradient // resource name -> gradient, must be consistent in a program
	colTol   float64
	noAlpha  bool
	prev     *canvas.Paint // the paint of the previously painted item
	prevRGB  [3]float64    // the colour the previous item was painted with
	staleRun bool          // the colour cache defect has occurred earlier in this program
	// PDF: an image call left the cached alpha different from the graphics state's (q … gs … Q) and no `gs`
	// has re-synchronised them yet
	alphaStaleByImage bool
}

func (x *cmpCtx) paint(it item, want canvas.Paint, what string) []disc {
	var out []disc
	prev := x.prev
	x.prev = &want
	defer func() { x.prevRGB = it.pv.rgb }()
	if want.IsGradient() {
		if !it.pv.isGrad {
			return []disc{{x.backend + ":paint:gradient-painted-as-solid-colour", fmt.Sprintf("%s: gradient expected, solid colour %v painted", what, it.pv.rgb)}}
		}
		if g, ok := x.gradName[it.pv.grad]; ok && g != want.Gradient {
			out = append(out, disc{x.backend + ":paint:wrong-gradient", fmt.Sprintf("%s: pattern %s denotes another gradient", what, it.pv.grad)})
		}
		x.gradName[it.pv.grad] = want.Gradient
		if !x.noAlpha && !closeF(it.alpha, 1, 1e-6) {
			q := ""
			if !it.setPaint {
				q = "-on-cached-paint"
			}
			if x.alphaStaleByImage {
				q = ":stale-after-image-save-restore"
			}
			out = append(out, disc{x.backend + ":alpha:gradient-inherits-previous-alpha" + q, fmt.Sprintf("%s: gradient painted with alpha %.6g", what, it.alpha)})
		}
		return out
	}
	if it.pv.isGrad {
		return []disc{{x.backend + ":paint:solid-colour-painted-as-gradient", what}}
	}
	rgb, a := unpremul(want.Color)
	for i := 0; i < 3; i++ {
		if math.Abs(rgb[i]-it.pv.rgb[i]) > x.colTol {
			q := ":colour-operator-emitted"
			if !it.setPaint {
				q = ":no-colour-operator-emitted"
			}
			if x.backend == "ps" && prev != nil && prev.IsColor() {
				// painted with the previous paint's colour, and the previous paint's premultiplied bytes are
				// the new paint's un-premultiplied bytes
				n := toNRGBA(want.Color)
				prgb, _ := unpremul(prev.Color)
				stale := true
				for k := 0; k < 3; k++ {
					stale = stale && math.Abs(prgb[k]-it.pv.rgb[k]) <= x.colTol
				}
				if stale && prev.Color.R == n.R && prev.Color.G == n.G && prev.Color.B == n.B {
					q = ":stale:cached-premultiplied-bytes-equal-new-unpremultiplied"
					x.staleRun = true
				} else if x.staleRun && !it.setPaint && it.pv.rgb == x.prevRGB {
					q = ":stale:persisting-after-the-cache-compare-defect" // same paint requested again: early return keeps the wrong colour
				}
			}
			out = append(out, disc{x.backend + ":paint:colour" + q, fmt.Sprintf("%s: colour %v painted, %v expected", what, it.pv.rgb, rgb)})
			break
		}
	}
	if !x.noAlpha && !closeF(it.alpha, a, 1e-6) {
		q := ":paint-set-in-this-draw"
		if !it.setPaint {
			q = ":stale-on-cached-paint"
		}
		if x.alphaStaleByImage {
			q = ":stale-after-image-save-restore"
		}
		out = append(out, disc{x.backend + ":alpha" + q, fmt.Sprintf("%s: alpha %.6g painted, %.6g expected", what, it.alpha, a)})
	}
	return out
}

func (x *cmpCtx) geomTol(ref []hc.Seg) float64 {
	tol := 3e-5 * (1 + extent(ref))
	if arc, r, rmin := hasArc(ref); arc {
		if x.backend == "svg" {
			// SVG states arcs by their end points: rounding a coordinate by δ (8 significant digits) moves
			// the centre of a (nearly) half ellipse by up to rmax·sqrt(2·δ/rmin)
			delta := 0.5 * math.Pow(10, math.Ceil(math.Log10(1+extent(ref)))-8)
			tol += 4*r*math.Sqrt(2*delta/rmin) + 1e-4*r
		} else if x.backend == "pdf" {
			tol += 5e-3 * r // PDF has no arcs: one cubic Bézier per quarter (Maisonobe), accepted up to 0.5 % of the radius
		} else {
			tol += 1e-4 * r // PostScript: arcs by centre and angles, flattened finely for the comparison
		}
	}
	return tol
}

func closeAll(segs []hc.Seg) []hc.Seg {
	var out []hc.Seg
	for _, sp := range hc.Subpaths(segs) {
		out = append(out, closedLast(sp)...)
	}
	return out
}

func scaleSegs(segs []hc.Seg, f float64) []hc.Seg {
	if f == 1 {
		return segs
	}
	return mapSegs(segs, func(p hc.P2) hc.P2 { return hc.P2{X: p.X * f, Y: p.Y * f} })
}

// compare judges the items one RenderPath call painted.
func (x *cmpCtx) compare(cl call, items []item) []disc {
	var out []disc
	s := cl.style
	for _, it := range items {
		if it.kind == "invalid" {
			out = append(out, invalidDisc(x.backend, it.why))
		}
	}
	if 0 < len(out) {
		return out
	}
	i := 0
	next := func() *item {
		if i < len(items) {
			i++
			return &items[i-1]
		}
		return nil
	}
	ref := decodePath(cl.path.Copy().Transform(cl.m))
	if s.HasFill() {
		it := next()
		if it == nil || it.kind != "fill" {
			return append(out, disc{x.backend + ":order:fill-missing", "the fill is not the first painted item"})
		}
		// filling closes every open subpath implicitly (PDF §8.5.3.1, PLRM fill, SVG §11.3; scan conversion)
		if d, _ := geomDiff(closeAll(ref), closeAll(scaleSegs(it.segs, x.unit)), x.geomTol(ref)); d != "" {
			out = append(out, disc{x.backend + ":geometry:fill", d})
		}
		if it.eo != (s.FillRule == canvas.EvenOdd) {
			out = append(out, disc{x.backend + ":fill-rule", fmt.Sprintf("evenodd=%v painted", it.eo)})
		}
		out = append(out, x.paint(*it, s.Fill, "fill")...)
	}
	if s.HasStroke() {
		sim := similarity(cl.m)
		jok, jcode, jlimit := joinExpressible(x.backend, s.StrokeJoiner)
		it := next()
		if it == nil {
			// an empty outline (fallback route) paints nothing: PDF writes nothing, PostScript fills an empty path
			if cl.outlineEmpty && (sim == simNo || !jok) {
				x.c.Count(x.backend + ":empty-outline-nothing-painted")
				return out
			}
			return append(out, disc{x.backend + ":order:stroke-missing", "no item painted for the stroke"})
		}
		switch it.kind {
		case "stroke":
			if sim == simBorderline {
				x.c.Count("skip:similarity-borderline")
				break
			}
			if sim == simNo || !jok {
				out = append(out, disc{x.backend + ":stroke:native-but-not-expressible", fmt.Sprintf("native stroke operator used for join %T under view %v", s.StrokeJoiner, cl.m)})
				break
			}
			if it.knockout && s.HasFill() {
				out = append(out, disc{x.backend + ":fill-stroke-operator-knockout-under-alpha",
					"fill+stroke painted by one B/b operator with alpha < 1: the pair forms a knockout group (the stroke replaces the fill where they overlap) while the rasterizer blends the stroke over the fill"})
			}
			if d, _ := geomDiff(ref, scaleSegs(it.segs, x.unit), x.geomTol(ref)); d != "" {
				out = append(out, disc{x.backend + ":geometry:stroke-centreline", d})
			}
			sc := math.Sqrt(math.Abs(cl.m.Det()))
			w := s.StrokeWidth * sc
			if !closeF(it.lw*x.unit, w, 1e-6) {
				out = append(out, disc{x.backend + ":stroke:width", fmt.Sprintf("width %.8g painted, %.8g expected", it.lw*x.unit, w)})
			}
			if it.cap != capCode(s.StrokeCapper) {
				out = append(out, disc{x.backend + ":stroke:cap", fmt.Sprintf("cap %d painted", it.cap)})
			}
			if it.join != jcode {
				out = append(out, disc{x.backend + ":stroke:join", fmt.Sprintf("join %d painted, %d expected", it.join, jcode)})
			} else if !math.IsNaN(jlimit) && !closeF(it.ml, jlimit, 1e-6) {
				out = append(out, disc{x.backend + ":stroke:miterlimit", fmt.Sprintf("miter limit %.8g painted, %.8g expected", it.ml, jlimit)})
			}
			wd := make([]float64, len(s.Dashes))
			for k := range wd {
				wd[k] = s.Dashes[k] * w
			}
			gd := make([]float64, len(it.dash))
			for k := range gd {
				gd[k] = it.dash[k] * x.unit
			}
			d1, p1 := normDash(wd, s.DashOffset*w)
			d2, p2 := normDash(gd, it.phase*x.unit)
			same := len(d1) == len(d2) && closeF(p1, p2, 1e-6)
			for k := 0; same && k < len(d1); k++ {
				same = closeF(d1[k], d2[k], 1e-6)
			}
			if !same {
				out = append(out, disc{x.backend + ":stroke:dashes", fmt.Sprintf("dashes %v phase %.8g painted, %v phase %.8g expected", d2, p2, d1, p1)})
			}
			out = append(out, x.paint(*it, s.Stroke, "stroke")...)
		case "fill":
			// explicit outline
			want := refOutline(cl, true)
			tol := x.geomTol(want) + 2*canvas.Tolerance*math.Sqrt(math.Abs(cl.m.Det())+1)
			if d, _ := geomDiff(want, scaleSegs(it.segs, x.unit), tol); d != "" {
				kind := x.backend + ":geometry:stroke-outline"
				if 0 < len(s.Dashes) {
					// (classification only; Dash with the raw pattern may hit Path.Dash's own panics: C05/C09)
					var alt []hc.Seg
					hc.Try(func() { alt = refOutline(cl, false) })
					if d2, _ := geomDiff(alt, scaleSegs(it.segs, x.unit), tol); alt != nil && d2 == "" {
						kind = x.backend + ":outline:dashes-not-scaled-by-stroke-width"
						d = "the explicit outline is dashed with the raw pattern; the reference (and the native route) scale it by the stroke width: " + d
					}
				}
				out = append(out, disc{kind, d})
			}
			if it.eo {
				out = append(out, disc{x.backend + ":outline:filled-evenodd", "the explicit stroke outline is filled with the even-odd rule (style.FillRule); overlapping parts of the outline become holes"})
			}
			if sim == simYes && jok {
				x.c.Count(x.backend + ":outline-although-expressible")
			}
			out = append(out, x.paint(*it, s.Stroke, "stroke-outline")...)
		}
	}
	if i != len(items) {
		out = append(out, disc{x.backend + ":order:extra-items", fmt.Sprintf("%d painted items, %d expected", len(items), i)})
	}
	return out
}

// ---- driver ------------------------------------------------------------------------------------

var failCount = map[string]int{}

func report(c *hc.Ctx, d disc, calls []call, grads []canvas.Gradient, idx int, chunk []byte) {
	failCount[d.kind]++
	if failCount[d.kind] > 3 {
		c.Count("FAIL:" + d.kind)
		return
	}
	// minimal replay: the prefix of the program up to the failing draw
	c.Fail(d.kind, fmt.Sprintf("draw %d: %s", idx, d.desc), map[string]any{
		"draw": idx, "output": string(chunk), "program": describe(calls[:idx+1], grads)})
}

func oracle(c *hc.Ctx, all []call, calls []call, grads []canvas.Gradient, rp, rs, rv *replay) {
	oraclePDF(c, all, grads, rp)
	// PostScript: the default user space unit is 1/72 inch; the program must say otherwise
	sin := newPSInterp()
	sin.run(rs.all[:len(rs.all)-totalLen(rs.segs)]) // prologue: procedure definitions, possibly a unit scale
	xs := &cmpCtx{c: c, backend: "ps", unit: 1, grads: grads, gradName: map[string]canvas.Gradient{}, colTol: 1.01 / 255, noAlpha: true}
	unitReported := false
	for i, cl := range calls {
		if rs.panics[i] != "" {
			report(c, disc{"ps:panic", rs.panics[i]}, calls, grads, i, nil)
			break
		}
		c.Evals++
		items := sin.run(rs.segs[i])
		// lengths read in points -> millimetres
		xs.unit = 1 / ptPerMM
		snap := *xs
		ds := xs.compare(cl, items)
		if hasKindPrefix(ds, "ps:geometry") || hasKindPrefix(ds, "ps:stroke:width") {
			after := *xs
			*xs = snap
			xs.unit = 1
			ds2 := xs.compare(cl, items)
			if !hasKindPrefix(ds2, "ps:geometry") && !hasKindPrefix(ds2, "ps:stroke:width") {
				if !unitReported {
					report(c, disc{"ps:units:coordinates-in-mm-but-user-space-is-points",
						"the program writes millimetre values into the default user space (1/72 inch) without a scale: every length is 25.4/72 of the drawing's"}, calls, grads, i, rs.segs[i])
					unitReported = true
				}
				ds = ds2
			} else {
				*xs = after
			}
		}
		for _, d := range ds {
			report(c, d, calls, grads, i, rs.segs[i])
		}
	}
	// SVG
	xv := &cmpCtx{c: c, backend: "svg", unit: 1, grads: grads, gradName: map[string]canvas.Gradient{}, colTol: 1.01 / 255}
	svgIDs := map[string]bool{} // ids of the gradient definitions written so far
	for i, cl := range calls {
		if rv.panics[i] != "" {
			report(c, disc{"svg:panic", rv.panics[i]}, calls, grads, i, nil)
			break
		}
		c.Evals++
		for _, d := range xv.compare(cl, runSVG(rv.segs[i], pageH)) {
			report(c, d, calls, grads, i, rv.segs[i])
		}
		// every url(#id) must refer to a <defs> written before the referring element, ids are unique
		if es, err := parseSVGElems(rv.segs[i]); err == nil {
			for _, e := range es {
				if e.name == "defs" {
					if svgIDs[e.defID] {
						report(c, disc{"svg:duplicate-id", "gradient id " + e.defID + " defined twice"}, calls, grads, i, rv.segs[i])
					}
					svgIDs[e.defID] = true
					continue
				}
				for _, a := range e.attrs {
					for _, part := range strings.Split(a[1], "url(#")[1:] {
						if id := part[:strings.IndexByte(part+")", ')')]; !svgIDs[id] {
							report(c, disc{"svg:undefined-reference", "url(#" + id + ") refers to no gradient definition written so far"}, calls, grads, i, rv.segs[i])
						}
					}
				}
			}
		}
	}
	checkSVGHeader(c, rv)
	c.Distinct(fmt.Sprintf("%x", rp.all))
}

func totalLen(segs [][]byte) int {
	n := 0
	for _, s := range segs {
		n += len(s)
	}
	return n
}

func hasKindPrefix(ds []disc, p string) bool {
	for _, d := range ds {
		if strings.HasPrefix(d.kind, p) {
			return true
		}
	}
	return false
}

// oraclePDF interprets the content stream page by page (a new page starts from the initial graphics state and
// has its own resources) and judges after EVERY call (a) the painted items against the reference, (b) the
// page writer's cached graphics state against the interpreter's actual graphics state, for every cached
// parameter, (c) that every resource name used resolves in the page's resource dictionary.
func oraclePDF(c *hc.Ctx, calls []call, grads []canvas.Gradient, rp *replay) {
	page := 0
	newInterp := func() *pdfInterp {
		p := page
		in := newPDFInterp(func() map[string][2]float64 { return rp.pages[p].ext })
		in.hasPattern = func(name string) bool {
			for _, q := range rp.pages[p].patterns {
				if q.Name == name {
					return true
				}
			}
			return false
		}
		in.hasXObject = func(name string) bool {
			for _, q := range rp.pages[p].xobjects {
				if q == name {
					return true
				}
			}
			return false
		}
		return in
	}
	pin := newInterp()
	pin.run(rp.prefix) // the page's initial `cm`
	xp := &cmpCtx{c: c, backend: "pdf", unit: 1, grads: grads, gradName: map[string]canvas.Gradient{}, colTol: 1e-6}
	for i, cl := range calls {
		if rp.panics[i] != "" {
			report(c, disc{"pdf:panic", rp.panics[i]}, calls, grads, i, nil)
			break
		}
		c.Evals++
		var ds []disc
		switch cl.kind {
		case kPage:
			checkPDFPatterns(c, rp.pages[page], xp, calls, grads)
			page = rp.pageOf[i]
			pin = newInterp()
			xp.gradName = map[string]canvas.Gradient{}
			xp.alphaStaleByImage = false
			for _, it := range pin.run(rp.segs[i]) {
				ds = append(ds, invalidDisc("pdf", it.why))
			}
		case kImage:
			ds = xp.compareImage(cl, pin.run(rp.segs[i]))
		default:
			ds = xp.compare(cl, pin.run(rp.segs[i]))
		}
		div := cacheDivergence(rp.cache[i], pin.gs, cl.kind == kImage)
		for k := range div {
			if div[k].kind == "pdf:cache-diverges:alpha" && xp.alphaStaleByImage {
				div[k].kind = "pdf:cache-diverges:alpha:persisting-after-image"
			}
		}
		for _, d := range div {
			if strings.HasPrefix(d.kind, "pdf:cache-diverges:alpha") && cl.kind == kImage {
				xp.alphaStaleByImage = true
			}
		}
		if len(div) == 0 {
			xp.alphaStaleByImage = false // cache and graphics state agree again
		}
		for _, d := range append(ds, div...) {
			report(c, d, calls, grads, i, rp.segs[i])
		}
	}
	checkPDFPatterns(c, rp.pages[page], xp, calls, grads)
}

func invalidDisc(backend, why string) disc {
	if strings.HasPrefix(why, "undefined resource") {
		return disc{backend + ":undefined-resource", why}
	}
	return disc{backend + ":invalid:" + strings.ReplaceAll(why, " ", "-"), why}
}

// cacheDivergence: "the cached value equals the interpreter's actual state" judged on the real writer, per
// cached parameter.
func cacheDivergence(cs pdf.VerifC12CacheState, g pdfGS, afterImage bool) []disc {
	var out []disc
	q := ""
	if afterImage {
		q = ":after-image"
	}
	add := func(field, desc string) {
		out = append(out, disc{"pdf:cache-diverges:" + field + q, "after this call the page writer caches " + desc})
	}
	if !closeF(cs.Alpha, g.ca, 1e-6) || !closeF(cs.Alpha, g.CA, 1e-6) {
		add("alpha", fmt.Sprintf("alpha %.6g but the graphics state has ca %.6g CA %.6g", cs.Alpha, g.ca, g.CA))
	}
	paint := func(p canvas.Paint, pv paintVal, field string) {
		if p.IsGradient() {
			if !pv.isGrad {
				add(field, "a gradient but the graphics state has a device colour")
			}
			return
		}
		if p.IsColor() {
			rgb, _ := unpremul(p.Color)
			ok := !pv.isGrad
			for k := 0; ok && k < 3; k++ {
				ok = math.Abs(rgb[k]-pv.rgb[k]) <= 1e-6
			}
			if !ok {
				add(field, fmt.Sprintf("colour %v but the graphics state has %v (pattern %v)", rgb, pv.rgb, pv.isGrad))
			}
		}
	}
	paint(cs.Fill, g.fill, "fill")
	paint(cs.Stroke, g.stroke, "stroke")
	if !closeF(cs.LineWidth, g.lw, 1e-7) {
		add("linewidth", fmt.Sprintf("line width %.8g but the graphics state has %.8g", cs.LineWidth, g.lw))
	}
	if cs.LineCap != g.cap {
		add("linecap", fmt.Sprintf("cap %d but the graphics state has %d", cs.LineCap, g.cap))
	}
	if cs.LineJoin != g.join {
		add("linejoin", fmt.Sprintf("join %d but the graphics state has %d", cs.LineJoin, g.join))
	}
	if !closeF(cs.MiterLimit, g.ml, 1e-7) {
		add("miterlimit", fmt.Sprintf("miter limit %.8g but the graphics state has %.8g", cs.MiterLimit, g.ml))
	}
	if n := len(cs.DashesPhase); 0 < n {
		ok := n-1 == len(g.dash) && closeF(cs.DashesPhase[n-1], g.phase, 1e-7)
		for k := 0; ok && k < n-1; k++ {
			ok = closeF(cs.DashesPhase[k], g.dash[k], 1e-7)
		}
		if !ok {
			add("dashes", fmt.Sprintf("dashes+phase %v but the graphics state has %v phase %.8g", cs.DashesPhase, g.dash, g.phase))
		}
	}
	return out
}

// compareImage: RenderImage(img, m) paints the image once, opaque (the rasterizer draws it `Over` with the
// image's own alpha), on the parallelogram m·[0,w]x[0,h].
func (x *cmpCtx) compareImage(cl call, items []item) []disc {
	var out []disc
	for _, it := range items {
		if it.kind == "invalid" {
			out = append(out, invalidDisc(x.backend, it.why))
		}
	}
	if 0 < len(out) {
		return out
	}
	if len(items) != 1 || items[0].kind != "image" {
		return []disc{{x.backend + ":order:image", fmt.Sprintf("%d painted items for an image call", len(items))}}
	}
	it := items[0]
	if !closeF(it.alpha, 1, 1e-6) {
		q := ""
		if x.alphaStaleByImage {
			q = ":stale-after-image-save-restore"
		}
		out = append(out, disc{x.backend + ":alpha:image" + q, fmt.Sprintf("image painted with alpha %.6g", it.alpha)})
	}
	sz := cl.img.Bounds().Size()
	var b pb
	for k, p := range [][2]float64{{0, 0}, {float64(sz.X), 0}, {float64(sz.X), float64(sz.Y)}, {0, float64(sz.Y)}} {
		q := cl.m.Dot(canvas.Point{X: p[0], Y: p[1]})
		if k == 0 {
			b.moveTo(hcP(q))
		} else {
			b.lineTo(hcP(q))
		}
	}
	b.close()
	if d, _ := geomDiff(b.segs, it.segs, 3e-5*(1+extent(b.segs))); d != "" {
		out = append(out, disc{x.backend + ":geometry:image", d})
	}
	return out
}

// checkPDFPatterns: shading coordinates are the gradient's millimetre coordinates in default page
// space (points); colours of the end stops.
func checkPDFPatterns(c *hc.Ctx, pr pageRes, x *cmpCtx, calls []call, grads []canvas.Gradient) {
	for _, p := range pr.patterns {
		g, ok := x.gradName[p.Name]
		if !ok {
			continue
		}
		var want []float64
		switch t := g.(type) {
		case *canvas.LinearGradient:
			want = []float64{t.Start.X, t.Start.Y, t.End.X, t.End.Y}
		case *canvas.RadialGradient:
			want = []float64{t.C0.X, t.C0.Y, t.R0, t.C1.X, t.C1.Y, t.R1}
		}
		okc := len(want) == len(p.Coords)
		for i := 0; okc && i < len(want); i++ {
			okc = closeF(want[i]*ptPerMM, p.Coords[i], 1e-9)
		}
		c.Count("pdf:pattern-checked")
		if !okc {
			report(c, disc{"pdf:gradient:coords", fmt.Sprintf("pattern %s Coords %v, expected %v mm in points", p.Name, p.Coords, want)}, calls, grads, len(calls)-1, nil)
		}
		// colour function (PDF 32000-1 7.10.3/7.10.4): one exponential function per stop interval, a constant
		// piece before a first offset > 0 and after a last offset < 1, k-1 bounds for k functions
		var stops canvas.Stops
		switch t := g.(type) {
		case *canvas.LinearGradient:
			stops = t.Stops
		case *canvas.RadialGradient:
			stops = t.Stops
		}
		if len(stops) < 2 {
			continue
		}
		var wb []float64
		nf := len(stops) - 1
		if 1e-9 < stops[0].Offset {
			nf++
			wb = append(wb, stops[0].Offset)
		}
		for i := 1; i+1 < len(stops); i++ {
			wb = append(wb, stops[i].Offset)
		}
		if stops[len(stops)-1].Offset < 1-1e-9 {
			nf++
			wb = append(wb, stops[len(stops)-1].Offset)
		}
		c0, _ := unpremul(stops[0].Color)
		c1, _ := unpremul(stops[len(stops)-1].Color)
		okf := p.NFunctions == nf && len(p.C0) == 3 && len(p.C1) == 3
		if nf > 1 {
			okf = okf && len(p.Bounds) == len(wb) && len(p.Encode) == 2*nf
			for i := 0; okf && i < len(wb); i++ {
				okf = closeF(p.Bounds[i], wb[i], 1e-9)
			}
		}
		for i := 0; okf && i < 3; i++ {
			okf = closeF(p.C0[i], c0[i], 1e-9) && closeF(p.C1[i], c1[i], 1e-9)
		}
		c.Count(fmt.Sprintf("pdf:pattern-functions:%d", nf))
		if !okf {
			report(c, disc{"pdf:gradient:function", fmt.Sprintf("pattern %s: %d functions bounds %v C0 %v C1 %v; expected %d functions bounds %v C0 %v C1 %v (stops %v)",
				p.Name, p.NFunctions, p.Bounds, p.C0, p.C1, nf, wb, c0, c1, stops)}, calls, grads, len(calls)-1, nil)
		}
	}
}

func checkSVGHeader(c *hc.Ctx, rv *replay) {
	want := fmt.Sprintf(`width="%vmm" height="%vmm" viewBox="0 0 %v %v"`, pageW, pageH, pageW, pageH)
	if !strings.Contains(string(rv.all), want) {
		c.Fail("svg:header:units", "the root element does not map the viewBox 1:1 to millimetres: "+string(rv.all[:min(len(rv.all), 200)]), nil)
	}
}

// ---- targeted probes ---------------------------------------------------------------------------

func probes(c *hc.Ctx) {
	// 0. outline fallback with an empty outline: the path lies in a gap of the width-scaled dash pattern
	{
		st := canvas.DefaultStyle
		st.Fill = canvas.Paint{}
		st.Stroke = canvas.Paint{Color: canvas.Black}
		st.StrokeWidth = 3
		st.Dashes = []float64{2, 1, 1, 1}
		st.DashOffset = 2.5
		cl := call{path: canvas.MustParseSVGPath("M0 0L0.3 0"), style: st, m: canvas.Identity.Scale(2, 0.5)}
		if o, d := canvas.ScaleDash(st.StrokeWidth, st.DashOffset, st.Dashes); cl.path.Dash(o, d...).Stroke(3, st.StrokeCapper, st.StrokeJoiner, canvas.Tolerance).Empty() {
			rp := replayPDF([]call{cl})
			pin := newPDFInterp(func() map[string][2]float64 { return rp.pages[0].ext })
			pin.run(rp.prefix)
			c.Evals++
			c.Count("probe:empty-stroke-outline")
			for _, it := range pin.run(rp.segs[0]) {
				if it.kind == "invalid" {
					c.Fail("pdf:outline:empty-outline-painted-without-path", "the outline fallback writes `"+strings.TrimSpace(string(rp.segs[0]))+"`: "+it.why,
						map[string]any{"program": describe([]call{cl}, nil), "output": string(rp.segs[0])})
				} else {
					c.Fail("pdf:outline:empty-outline-paints-something", "an empty stroke outline painted an item", map[string]any{"output": string(rp.segs[0])})
				}
			}
		} else {
			c.Count("probe:empty-stroke-outline:not-empty(skipped)")
		}
	}
	// 1. PDF gradient that needs a stitching function (three stops)
	{
		g := canvas.NewLinearGradient(canvas.Point{X: 0, Y: 0}, canvas.Point{X: 10, Y: 0})
		g.Add(0, canvas.Red)
		g.Add(0.5, canvas.Green)
		g.Add(1, canvas.Blue)
		st := canvas.DefaultStyle
		st.Fill = canvas.Paint{Gradient: g}
		cl := call{path: canvas.Rectangle(10, 10), style: st, m: canvas.Identity}
		rp := replayPDF([]call{cl})
		msg := hc.Try(func() { rp.pdf.Close() })
		c.Evals++
		c.Count("probe:pdf-three-stop-gradient")
		if msg != "" || rp.panics[0] != "" {
			c.Fail("pdf:panic:gradient-with-three-stops", "PDF with a three-stop linear gradient: "+rp.panics[0]+msg,
				map[string]any{"gradient": "linear (0,0)-(10,0), stops 0 red, .5 green, 1 blue", "path": cl.path.String()})
		}
	}
	// 2. PDF SetDashes with a negative phase and no dash array: `for dashPhase < 0 { dashPhase += 0 }`
	{
		st := canvas.DefaultStyle
		st.Fill = canvas.Paint{}
		st.Stroke = canvas.Paint{Color: canvas.Black}
		st.DashOffset = -1
		cl := call{path: canvas.Rectangle(10, 10), style: st, m: canvas.Identity}
		done := make(chan string, 1)
		go func() { done <- hc.Try(func() { replayPDF([]call{cl}) }) }()
		c.Evals++
		c.Count("probe:pdf-negative-dash-offset-no-dashes")
		select {
		case <-done:
		case <-time.After(2 * time.Second):
			c.Fail("pdf:hang:negative-dash-offset-without-dashes", "PDF.RenderPath does not return within 2 s for a solid stroke with DashOffset -1 (SetDashes adds a total length of 0 to the negative phase forever)",
				map[string]any{"path": cl.path.String(), "dashoffset": -1, "dashes": []float64{}})
		}
	}
}

func hcP(p canvas.Point) hc.P2 { return hc.P2{X: p.X, Y: p.Y} }
