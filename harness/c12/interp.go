package main

// Independent interpreters of the three output formats (written from PDF 32000-1 §8, the PLRM and
// SVG 1.1 §8/§11, not from the back-ends): content stream / program / document -> painted items in
// canvas space (millimetres, y up).

import (
	"fmt"
	"math"
	"strconv"
	"strings"

	"github.com/tdewolff/canvas"
	"verifharness/hc"
)

const ptPerMM = 72.0 / 25.4

type paintVal struct {
	isGrad bool
	grad   string     // resource name / id
	rgb    [3]float64 // colour components as the format states them (not premultiplied)
}

type item struct {
	kind     string // "fill" | "stroke" | "invalid"
	segs     []hc.Seg
	eo       bool
	pv       paintVal
	alpha    float64
	lw       float64
	cap      int // 0 butt 1 round 2 square
	join     int // 0 miter 1 round 2 bevel 3 arcs
	ml       float64
	dash     []float64
	phase    float64
	knockout bool // PDF B/b under alpha < 1: fill+stroke form one knockout group (§11.7.4.4)
	why      string
	setPaint bool // the chunk that painted this item also set the colour used
}

// ---- path builder ------------------------------------------------------------------------------

type pb struct {
	segs       []hc.Seg
	start, cur hc.P2
	has        bool
}

func (b *pb) moveTo(p hc.P2) {
	b.segs = append(b.segs, hc.Seg{Kind: 'M', P0: b.cur, End: p})
	b.start, b.cur, b.has = p, p, true
}
func (b *pb) lineTo(p hc.P2) {
	if !b.has {
		b.moveTo(p)
		return
	}
	b.segs = append(b.segs, hc.Seg{Kind: 'L', P0: b.cur, End: p})
	b.cur = p
}
func (b *pb) cubeTo(p1, p2, p hc.P2) {
	b.segs = append(b.segs, hc.Seg{Kind: 'C', P0: b.cur, P1: p1, P2: p2, End: p})
	b.cur = p
}
func (b *pb) close() {
	if !b.has {
		return
	}
	b.segs = append(b.segs, hc.Seg{Kind: 'Z', P0: b.cur, End: b.start})
	b.cur = b.start
}
func (b *pb) copy() pb {
	c := *b
	c.segs = append([]hc.Seg{}, b.segs...)
	return c
}

// closedLast returns the segments with the last subpath closed.
func closedLast(segs []hc.Seg) []hc.Seg {
	if len(segs) == 0 || segs[len(segs)-1].Kind == 'Z' {
		return segs
	}
	var start hc.P2
	for _, s := range segs {
		if s.Kind == 'M' {
			start = s.End
		}
	}
	last := segs[len(segs)-1]
	return append(append([]hc.Seg{}, segs...), hc.Seg{Kind: 'Z', P0: last.End, End: start})
}

func mapSegs(segs []hc.Seg, f func(hc.P2) hc.P2) []hc.Seg {
	out := make([]hc.Seg, len(segs))
	for i, s := range segs {
		s.P0, s.P1, s.P2, s.End = f(s.P0), f(s.P1), f(s.P2), f(s.End)
		out[i] = s
	}
	return out
}

// ---- PDF ---------------------------------------------------------------------------------------

type pdfGS struct {
	ctm          [6]float64 // x' = a x + c y + e ; y' = b x + d y + f
	fill, stroke paintVal
	ca, CA       float64
	lw           float64
	cap, join    int
	ml           float64
	dash         []float64
	phase        float64
}

type pdfInterp struct {
	gs    pdfGS
	stack []pdfGS
	path  pb
	opnd  []string
	ext   func() map[string][2]float64
	// resource resolution of the page (nil: not checked)
	hasPattern func(string) bool
	hasXObject func(string) bool
}

func newPDFInterp(ext func() map[string][2]float64) *pdfInterp {
	return &pdfInterp{gs: pdfGS{ctm: [6]float64{1, 0, 0, 1, 0, 0}, ca: 1, CA: 1, lw: 1, ml: 10}, ext: ext}
}

func (in *pdfInterp) dev(x, y float64) hc.P2 {
	m := in.gs.ctm
	return hc.P2{X: (m[0]*x + m[2]*y + m[4]) / ptPerMM, Y: (m[1]*x + m[3]*y + m[5]) / ptPerMM}
}

func (in *pdfInterp) nums(n int) ([]float64, bool) {
	if len(in.opnd) < n {
		return nil, false
	}
	out := make([]float64, n)
	for i, t := range in.opnd[len(in.opnd)-n:] {
		if !isNum(t) {
			return nil, false
		}
		out[i] = num(t)
	}
	in.opnd = in.opnd[:len(in.opnd)-n]
	return out, true
}

func (in *pdfInterp) scaleOf() float64 {
	m := in.gs.ctm
	return math.Sqrt(math.Abs(m[0]*m[3]-m[1]*m[2])) / ptPerMM
}

func (in *pdfInterp) strokeItem(closes bool) item {
	g := in.gs
	segs := in.path.segs
	if closes {
		segs = closedLast(segs)
	}
	s := in.scaleOf()
	d := make([]float64, len(g.dash))
	for i := range d {
		d[i] = g.dash[i] * s
	}
	return item{kind: "stroke", segs: segs, pv: g.stroke, alpha: g.CA, lw: g.lw * s, cap: g.cap, join: g.join, ml: g.ml, dash: d, phase: g.phase * s}
}

// run interprets one chunk of the content stream and returns the items it paints.
func (in *pdfInterp) run(b []byte) []item {
	var items []item
	bad := func(why string) { items = append(items, item{kind: "invalid", why: why}); in.opnd = nil }
	setFill, setStroke := false, false
	for _, t := range scan(b) {
		if isNum(t) || t == "[" || t == "]" || strings.HasPrefix(t, "/") {
			in.opnd = append(in.opnd, t)
			continue
		}
		switch t {
		case "q":
			in.stack = append(in.stack, in.gs)
		case "Q":
			if len(in.stack) == 0 {
				bad("Q without q")
				continue
			}
			in.gs = in.stack[len(in.stack)-1]
			in.stack = in.stack[:len(in.stack)-1]
		case "cm":
			v, ok := in.nums(6)
			if !ok {
				bad("cm operands")
				continue
			}
			c := in.gs.ctm
			in.gs.ctm = [6]float64{
				v[0]*c[0] + v[1]*c[2], v[0]*c[1] + v[1]*c[3],
				v[2]*c[0] + v[3]*c[2], v[2]*c[1] + v[3]*c[3],
				v[4]*c[0] + v[5]*c[2] + c[4], v[4]*c[1] + v[5]*c[3] + c[5]}
		case "w", "M":
			v, ok := in.nums(1)
			if !ok {
				bad(t + " operand")
				continue
			}
			if t == "w" {
				in.gs.lw = v[0]
			} else {
				in.gs.ml = v[0]
			}
		case "J", "j":
			v, ok := in.nums(1)
			if !ok || v[0] != math.Trunc(v[0]) || v[0] < 0 || v[0] > 2 {
				bad(t + " operand")
				continue
			}
			if t == "J" {
				in.gs.cap = int(v[0])
			} else {
				in.gs.join = int(v[0])
			}
		case "d":
			ph, ok := in.nums(1)
			if !ok || len(in.opnd) == 0 || in.opnd[len(in.opnd)-1] != "]" {
				bad("d operands")
				continue
			}
			i := len(in.opnd) - 2
			var arr []float64
			for 0 <= i && in.opnd[i] != "[" {
				arr = append([]float64{num(in.opnd[i])}, arr...)
				i--
			}
			if i < 0 {
				bad("d array")
				continue
			}
			in.opnd = in.opnd[:i]
			if ph[0] < 0 {
				bad("negative dash phase")
			}
			in.gs.dash, in.gs.phase = arr, ph[0]
		case "g", "G":
			v, ok := in.nums(1)
			if !ok {
				bad(t + " operand")
				continue
			}
			pv := paintVal{rgb: [3]float64{v[0], v[0], v[0]}}
			if t == "g" {
				in.gs.fill, setFill = pv, true
			} else {
				in.gs.stroke, setStroke = pv, true
			}
		case "rg", "RG":
			v, ok := in.nums(3)
			if !ok {
				bad(t + " operands")
				continue
			}
			pv := paintVal{rgb: [3]float64{v[0], v[1], v[2]}}
			if t == "rg" {
				in.gs.fill, setFill = pv, true
			} else {
				in.gs.stroke, setStroke = pv, true
			}
		case "cs", "CS":
			if len(in.opnd) == 0 || in.opnd[len(in.opnd)-1] != "/Pattern" {
				bad("colour space")
			}
			in.opnd = nil
		case "scn", "SCN":
			if len(in.opnd) == 0 || !strings.HasPrefix(in.opnd[len(in.opnd)-1], "/") {
				bad("scn operand")
				continue
			}
			pv := paintVal{isGrad: true, grad: in.opnd[len(in.opnd)-1][1:]}
			in.opnd = nil
			if in.hasPattern != nil && !in.hasPattern(pv.grad) {
				items = append(items, item{kind: "invalid", why: "undefined resource: pattern /" + pv.grad + " is not in the page's /Resources /Pattern"})
			}
			if t == "scn" {
				in.gs.fill, setFill = pv, true
			} else {
				in.gs.stroke, setStroke = pv, true
			}
		case "gs":
			if len(in.opnd) == 0 {
				bad("gs operand")
				continue
			}
			name := in.opnd[len(in.opnd)-1][1:]
			in.opnd = nil
			e, ok := in.ext()[name]
			if !ok {
				bad("gs: no ExtGState " + name)
				continue
			}
			in.gs.CA, in.gs.ca = e[0], e[1]
		case "m", "l":
			v, ok := in.nums(2)
			if !ok {
				bad(t + " operands")
				continue
			}
			if t == "m" {
				in.path.moveTo(in.dev(v[0], v[1]))
			} else {
				in.path.lineTo(in.dev(v[0], v[1]))
			}
		case "c":
			v, ok := in.nums(6)
			if !ok {
				bad("c operands")
				continue
			}
			in.path.cubeTo(in.dev(v[0], v[1]), in.dev(v[2], v[3]), in.dev(v[4], v[5]))
		case "h":
			in.path.close()
		case "W", "W*":
			// clipping path: set by the following path-painting operator (here always n); not applied to geometry
		case "Do":
			if len(in.opnd) == 0 || !strings.HasPrefix(in.opnd[len(in.opnd)-1], "/") {
				bad("Do operand")
				continue
			}
			name := in.opnd[len(in.opnd)-1][1:]
			in.opnd = nil
			if in.hasXObject != nil && !in.hasXObject(name) {
				bad("undefined resource: XObject /" + name + " is not in the page's /Resources /XObject")
				continue
			}
			var b pb // image space is the unit square
			b.moveTo(in.dev(0, 0))
			b.lineTo(in.dev(1, 0))
			b.lineTo(in.dev(1, 1))
			b.lineTo(in.dev(0, 1))
			b.close()
			items = append(items, item{kind: "image", segs: b.segs, alpha: in.gs.ca, why: name})
		case "re":
			v, ok := in.nums(4)
			if !ok {
				bad("re operands")
				continue
			}
			in.path.moveTo(in.dev(v[0], v[1]))
			in.path.lineTo(in.dev(v[0]+v[2], v[1]))
			in.path.lineTo(in.dev(v[0]+v[2], v[1]+v[3]))
			in.path.lineTo(in.dev(v[0], v[1]+v[3]))
			in.path.close()
		case "f", "F", "f*", "S", "s", "B", "B*", "b", "b*", "n":
			if len(in.path.segs) == 0 && t != "n" {
				bad("painting operator " + t + " without a path")
				continue
			}
			g := in.gs
			fill := func(eo bool) item {
				return item{kind: "fill", segs: in.path.segs, eo: eo, pv: g.fill, alpha: g.ca, setPaint: setFill}
			}
			ko := g.ca < 1 || g.CA < 1
			switch t {
			case "f", "F":
				items = append(items, fill(false))
			case "f*":
				items = append(items, fill(true))
			case "S", "s":
				it := in.strokeItem(t == "s")
				it.setPaint = setStroke
				items = append(items, it)
			case "B", "B*", "b", "b*":
				f := fill(strings.HasSuffix(t, "*"))
				s := in.strokeItem(t[0] == 'b')
				s.setPaint = setStroke
				f.knockout, s.knockout = ko, ko
				items = append(items, f, s)
			}
			in.path = pb{}
		default:
			bad("unknown operator " + t)
		}
	}
	return items
}

// ---- PostScript --------------------------------------------------------------------------------

type psGS struct {
	col       [3]float64
	lw        float64
	cap, join int
	ml        float64
	dash      []float64
	off       float64
	path      pb
}

type psInterp struct {
	gs     psGS
	stack  []psGS
	opnd   []string
	sx, sy float64 // CTM relative to the default user space (only `scale` occurs)
	depth  int     // inside { } (procedure bodies of the prologue are not executed here)
}

func newPSInterp() *psInterp { return &psInterp{gs: psGS{lw: 1, ml: 10}, sx: 1, sy: 1} }

func (in *psInterp) pt(x, y float64) hc.P2 { return hc.P2{X: x * in.sx, Y: y * in.sy} }

func (in *psInterp) nums(n int) ([]float64, bool) {
	if len(in.opnd) < n {
		return nil, false
	}
	out := make([]float64, n)
	for i, t := range in.opnd[len(in.opnd)-n:] {
		if !isNum(t) {
			return nil, false
		}
		out[i] = num(t)
	}
	in.opnd = in.opnd[:len(in.opnd)-n]
	return out, true
}

// ellipse: `x y rx ry a0 a1 rot ellipse` = translate, rotate, scale, `0 0 1 a0 a1 arc` (counter-
// clockwise, a1 raised by multiples of 360 until >= a0; arcn: clockwise, a1 lowered).
func (in *psInterp) ellipse(v []float64, ccw bool) {
	x, y, rx, ry, a0, a1, rot := v[0], v[1], v[2], v[3], v[4], v[5], v[6]*math.Pi/180
	if ccw {
		for a1 < a0 {
			a1 += 360
		}
	} else {
		for a1 > a0 {
			a1 -= 360
		}
	}
	const n = 720
	for i := 0; i <= n; i++ {
		t := (a0 + (a1-a0)*float64(i)/n) * math.Pi / 180
		ex, ey := rx*math.Cos(t), ry*math.Sin(t)
		p := in.pt(x+math.Cos(rot)*ex-math.Sin(rot)*ey, y+math.Sin(rot)*ex+math.Cos(rot)*ey)
		in.gs.path.lineTo(p) // arc draws a line from the current point to the start of the arc
	}
}

func (in *psInterp) run(b []byte) []item {
	var items []item
	bad := func(why string) { items = append(items, item{kind: "invalid", why: why}); in.opnd = nil }
	setCol := false
	for _, t := range scan(b) {
		if t == "{" {
			in.depth++
			continue
		} else if t == "}" {
			in.depth--
			continue
		} else if 0 < in.depth || strings.HasPrefix(t, "/") || t == "def" {
			continue
		}
		if isNum(t) || t == "[" || t == "]" {
			in.opnd = append(in.opnd, t)
			continue
		}
		g := &in.gs
		switch t {
		case "scale":
			v, ok := in.nums(2)
			if !ok {
				bad(t)
				continue
			}
			in.sx, in.sy = in.sx*v[0], in.sy*v[1]
		case "moveto", "lineto":
			v, ok := in.nums(2)
			if !ok {
				bad(t)
				continue
			}
			if t == "moveto" {
				g.path.moveTo(in.pt(v[0], v[1]))
			} else {
				g.path.lineTo(in.pt(v[0], v[1]))
			}
		case "curveto":
			v, ok := in.nums(6)
			if !ok {
				bad(t)
				continue
			}
			g.path.cubeTo(in.pt(v[0], v[1]), in.pt(v[2], v[3]), in.pt(v[4], v[5]))
		case "closepath":
			g.path.close()
		case "ellipse", "ellipsen":
			v, ok := in.nums(7)
			if !ok {
				bad(t)
				continue
			}
			in.ellipse(v, t == "ellipse")
		case "setgray":
			v, ok := in.nums(1)
			if !ok {
				bad(t)
				continue
			}
			g.col, setCol = [3]float64{v[0], v[0], v[0]}, true
		case "setrgbcolor":
			v, ok := in.nums(3)
			if !ok {
				bad(t)
				continue
			}
			g.col, setCol = [3]float64{v[0], v[1], v[2]}, true
		case "setlinewidth", "setmiterlimit":
			v, ok := in.nums(1)
			if !ok {
				bad(t)
				continue
			}
			if t == "setlinewidth" {
				g.lw = v[0]
			} else {
				g.ml = v[0]
			}
		case "setlinecap", "setlinejoin":
			v, ok := in.nums(1)
			if !ok || v[0] < 0 || v[0] > 2 {
				bad(t)
				continue
			}
			if t == "setlinecap" {
				g.cap = int(v[0])
			} else {
				g.join = int(v[0])
			}
		case "setdash":
			off, ok := in.nums(1)
			if !ok || len(in.opnd) == 0 || in.opnd[len(in.opnd)-1] != "]" {
				bad(t)
				continue
			}
			i := len(in.opnd) - 2
			var arr []float64
			for 0 <= i && in.opnd[i] != "[" {
				arr = append([]float64{num(in.opnd[i])}, arr...)
				i--
			}
			if i < 0 {
				bad(t)
				continue
			}
			in.opnd = in.opnd[:i]
			g.dash, g.off = arr, off[0]
		case "gsave":
			s := *g
			s.path = g.path.copy()
			in.stack = append(in.stack, s)
		case "grestore":
			if 0 < len(in.stack) {
				in.gs = in.stack[len(in.stack)-1]
				in.stack = in.stack[:len(in.stack)-1]
			}
		case "newpath":
			g.path = pb{}
		case "fill", "eofill":
			if 0 < len(g.path.segs) {
				items = append(items, item{kind: "fill", segs: g.path.segs, eo: t == "eofill", pv: paintVal{rgb: g.col}, alpha: 1, setPaint: setCol})
			}
			g.path = pb{}
		case "stroke":
			if 0 < len(g.path.segs) {
				ds := make([]float64, len(g.dash))
				for k := range ds {
					ds[k] = g.dash[k] * in.sx
				}
				items = append(items, item{kind: "stroke", segs: g.path.segs, pv: paintVal{rgb: g.col}, alpha: 1, lw: g.lw * in.sx, cap: g.cap,
					join: g.join, ml: g.ml, dash: ds, phase: g.off * in.sx, setPaint: setCol})
			}
			g.path = pb{}
		default:
			bad("unknown operator " + t)
		}
	}
	return items
}

// ---- SVG ---------------------------------------------------------------------------------------

func parseCSSPaint(v string) (pv paintVal, alpha float64, none bool, err error) {
	v = strings.TrimSpace(v)
	switch {
	case v == "none":
		return pv, 0, true, nil
	case strings.HasPrefix(v, "url(#") && strings.HasSuffix(v, ")"):
		return paintVal{isGrad: true, grad: v[5 : len(v)-1]}, 1, false, nil
	case strings.HasPrefix(v, "#"):
		h := v[1:]
		if len(h) == 3 {
			h = string([]byte{h[0], h[0], h[1], h[1], h[2], h[2]})
		}
		if len(h) != 6 {
			return pv, 0, false, fmt.Errorf("colour %q", v)
		}
		n, e := strconv.ParseUint(h, 16, 32)
		if e != nil {
			return pv, 0, false, e
		}
		return paintVal{rgb: [3]float64{float64(n>>16&255) / 255, float64(n>>8&255) / 255, float64(n&255) / 255}}, 1, false, nil
	case strings.HasPrefix(v, "rgba(") && strings.HasSuffix(v, ")"):
		f := strings.Split(v[5:len(v)-1], ",")
		if len(f) != 4 {
			return pv, 0, false, fmt.Errorf("colour %q", v)
		}
		for i := 0; i < 3; i++ {
			pv.rgb[i] = num(strings.TrimSpace(f[i])) / 255
		}
		return pv, num(strings.TrimSpace(f[3])), false, nil
	}
	return pv, 0, false, fmt.Errorf("colour %q", v)
}

func runSVG(b []byte, height float64) []item {
	es, err := parseSVGElems(b)
	if err != nil {
		return []item{{kind: "invalid", why: err.Error()}}
	}
	var items []item
	for _, e := range es {
		if e.name != "path" {
			continue
		}
		props := map[string]string{"fill": "#000", "stroke": "none", "stroke-width": "1", "stroke-linecap": "butt", "stroke-linejoin": "miter",
			"stroke-miterlimit": "4", "stroke-dasharray": "none", "stroke-dashoffset": "0", "fill-rule": "nonzero"}
		d := ""
		for _, a := range e.attrs {
			switch a[0] {
			case "d":
				d = a[1]
			case "style":
				for _, kv := range strings.Split(a[1], ";") {
					if i := strings.IndexByte(kv, ':'); 0 < i {
						props[strings.TrimSpace(kv[:i])] = strings.TrimSpace(kv[i+1:])
					}
				}
			default:
				props[a[0]] = a[1]
			}
		}
		p, err := canvas.ParseSVGPath(d)
		if err != nil {
			items = append(items, item{kind: "invalid", why: "path data: " + err.Error()})
			continue
		}
		segs, _ := hc.Decode(p.Data())
		// arcs change their sweep direction under the reflection: flatten them first
		segs = flattenArcs(segs)
		segs = mapSegs(segs, func(q hc.P2) hc.P2 { return hc.P2{X: q.X, Y: height - q.Y} })
		if pv, a, none, err := parseCSSPaint(props["fill"]); err != nil {
			items = append(items, item{kind: "invalid", why: err.Error()})
		} else if !none {
			items = append(items, item{kind: "fill", segs: segs, eo: props["fill-rule"] == "evenodd", pv: pv, alpha: a, setPaint: true})
		}
		if pv, a, none, err := parseCSSPaint(props["stroke"]); err != nil {
			items = append(items, item{kind: "invalid", why: err.Error()})
		} else if !none {
			it := item{kind: "stroke", segs: segs, pv: pv, alpha: a, lw: num(props["stroke-width"]), ml: num(props["stroke-miterlimit"]),
				phase: num(props["stroke-dashoffset"]), setPaint: true}
			switch props["stroke-linecap"] {
			case "round":
				it.cap = 1
			case "square":
				it.cap = 2
			}
			switch props["stroke-linejoin"] {
			case "round":
				it.join = 1
			case "bevel":
				it.join = 2
			case "arcs":
				it.join = 3
			}
			if da := props["stroke-dasharray"]; da != "none" {
				for _, f := range strings.FieldsFunc(da, func(r rune) bool { return r == ' ' || r == ',' }) {
					it.dash = append(it.dash, num(f))
				}
			}
			items = append(items, it)
		}
	}
	return items
}

func flattenArcs(segs []hc.Seg) []hc.Seg {
	var out []hc.Seg
	for _, s := range segs {
		if s.Kind != 'A' {
			out = append(out, s)
			continue
		}
		const n = 720
		prev := s.P0
		for i := 1; i <= n; i++ {
			q := s.At(float64(i) / n)
			if i == n {
				q = s.End
			}
			out = append(out, hc.Seg{Kind: 'L', P0: prev, End: q})
			prev = q
		}
	}
	return out
}
