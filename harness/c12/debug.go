package main
import "os"
var debugPanics = os.Getenv("C12_DEBUG") != ""
