// C12 — SVG, PDF and PostScript output encode the drawing the rasterizer renders.
//
// One generated drawing program (1–12 styled path draws through a real canvas.Context with a
// coordinate system and views, recorded as RenderPath(path, style, m) calls) is replayed on the real
// pdf/ps/svg back-ends. (a) Correspondence: the bytes each call emits are tokenised (path data
// abstracted to P/Ph, everything else verbatim) and compared with the Lean model emitters.
// (b) Oracle: independent Go interpreters of the three formats turn the real output into painted
// items that are compared with the reference semantics read off rasterizer.RenderPath.
package main

import (
	"bytes"
	"fmt"
	"image"
	"image/color"
	"math"
	"sort"
	"strings"
	"time"

	"github.com/tdewolff/canvas"
	"github.com/tdewolff/canvas/renderers/pdf"
	"github.com/tdewolff/canvas/renderers/ps"
	"github.com/tdewolff/canvas/renderers/svg"
	"verifharness/hc"
)

func main() { hc.Main("C12", run) }

const pageW, pageH = 200.0, 150.0

// call is one recorded Renderer.RenderPath call.
const (
	kDraw  = 0
	kImage = 1 // RenderImage(img, m)
	kPage  = 2 // PDF.NewPage (other back-ends have one page: ignored there)
)

type call struct {
	path  *canvas.Path
	style canvas.Style
	m     canvas.Matrix
	kind  int
	img   image.Image
	// the stroke outline Stroke(Dash(path, ScaleDash…)) is empty (the path lies in a gap of the dash pattern)
	outlineEmpty bool
}

type recorder struct{ calls []call }

func (r *recorder) Size() (float64, float64) { return pageW, pageH }
func (r *recorder) RenderPath(p *canvas.Path, s canvas.Style, m canvas.Matrix) {
	s.Dashes = append([]float64{}, s.Dashes...)
	r.calls = append(r.calls, call{path: p.Copy(), style: s, m: m})
}
func (r *recorder) RenderText(*canvas.Text, canvas.Matrix) {}
func (r *recorder) RenderImage(img image.Image, m canvas.Matrix) {
	r.calls = append(r.calls, call{kind: kImage, img: img, m: m})
}

// ---- generator ---------------------------------------------------------------------------------

var palette = []color.RGBA{
	{0, 0, 0, 255}, {0, 0, 0, 255}, {255, 0, 0, 255}, {128, 128, 128, 255}, {0, 0, 255, 255},
	{128, 0, 0, 128},                  // red, alpha .5 (premultiplied)
	{50, 0, 0, 128}, {50, 0, 0, 255}, // equal premultiplied bytes, different alpha
	{100, 0, 0, 255},                  // un-premultiplied value of {50,0,0,128}
	{64, 64, 64, 128}, {0, 0, 0, 128}, // grey and black at alpha .5
	{10, 200, 30, 255}, {0, 51, 102, 204},
	{0, 0, 0, 0}, // transparent: no paint
}

type gen struct {
	c     *hc.Ctx
	grads []canvas.Gradient
	imgs  []image.Image
}

func newImages() []image.Image {
	var out []image.Image
	for k, sz := range [][2]int{{4, 3}, {2, 2}} {
		im := image.NewRGBA(image.Rect(0, 0, sz[0], sz[1]))
		for y := 0; y < sz[1]; y++ {
			for x := 0; x < sz[0]; x++ {
				im.SetRGBA(x, y, color.RGBA{uint8(40 * x), uint8(60 * y), uint8(100 * k), 255})
			}
		}
		out = append(out, im)
	}
	return out
}

func (g *gen) paint() canvas.Paint {
	c := g.c
	if c.Chance(0.08) {
		return canvas.Paint{Gradient: g.grads[c.Intn(len(g.grads))]}
	}
	return canvas.Paint{Color: palette[c.Intn(len(palette))]}
}

func (g *gen) joiner() canvas.Joiner {
	c := g.c
	switch c.Intn(14) {
	case 0, 1:
		return canvas.BevelJoin
	case 2, 3:
		return canvas.RoundJoin
	case 4, 5:
		return canvas.MiterJoin
	case 6:
		return canvas.MiterJoiner{GapJoiner: canvas.BevelJoin, Limit: []float64{2, 10, 1.5, 4.00000000001}[c.Intn(4)]}
	case 7:
		return canvas.MiterClipJoin
	case 8:
		return canvas.MiterJoiner{GapJoiner: canvas.RoundJoin, Limit: 4}
	case 9:
		return canvas.MiterJoiner{GapJoiner: canvas.BevelJoin, Limit: math.NaN()}
	case 10:
		return canvas.ArcsJoin
	case 11:
		return canvas.ArcsJoiner{GapJoiner: canvas.BevelJoin, Limit: math.NaN()}
	case 12:
		return canvas.ArcsJoiner{GapJoiner: canvas.BevelJoin, Limit: 2}
	}
	return canvas.MiterJoiner{GapJoiner: canvas.BevelJoin, Limit: 10}
}

func (g *gen) view() (canvas.Matrix, string) {
	c := g.c
	t := canvas.Identity.Translate(float64(20+c.Intn(100)), float64(20+c.Intn(80)))
	switch c.Intn(9) {
	case 0:
		return canvas.Identity, "identity"
	case 1:
		return t, "translate"
	case 2:
		return t.Rotate(float64(c.Intn(24)) * 15), "rotate"
	case 3:
		return t.Scale(2, 2), "scale"
	case 4:
		return t.Rotate(c.Range(0, 360)).Scale(1.5, 1.5), "similarity"
	case 5:
		return t.Scale(0.5, -0.5).Rotate(30), "reflect-similarity"
	case 6:
		return t.Scale(2, 0.5), "nonuniform"
	case 7:
		return t.Shear(c.Range(-1, 1), 0), "shear"
	}
	return t.Rotate(c.Range(0, 360)).Scale(c.Range(0.3, 3), c.Range(0.3, 3)), "general"
}

var dashPool = [][]float64{{3, 3}, {1, 2}, {2}, {3, 1, 1}, {2, 1, 1, 1}, {0.5, 1.5}, {1, 2, 3}, {4}}

// program draws 1–12 styled paths through a real Context and returns the recorded calls.
func (g *gen) program() []call {
	c := g.c
	rec := &recorder{}
	ctx := canvas.NewContext(rec)
	cs := []canvas.CoordSystem{canvas.CartesianI, canvas.CartesianII, canvas.CartesianIII, canvas.CartesianIV}[c.Intn(4)]
	ctx.SetCoordSystem(cs)
	c.Count(fmt.Sprintf("coord-system:%d", cs))
	n := 1 + c.Intn(12)
	if c.Chance(0.5) {
		n = 1 + c.Intn(4)
	}
	sticky := c.Chance(0.6) // change only part of the style between draws: exercises the caches
	for i := 0; i < n; i++ {
		if i == 0 || !sticky || c.Chance(0.5) {
			if c.Chance(0.2) {
				ctx.SetFill(canvas.Paint{}) // stroke-only draws
			} else {
				ctx.SetFill(g.paint())
			}
		}
		if i == 0 || !sticky || c.Chance(0.5) {
			if c.Chance(0.25) {
				ctx.SetStroke(canvas.Paint{})
			} else if c.Chance(0.2) {
				ctx.SetStroke(ctx.Style.Fill) // same paint for fill and stroke: the second set* is a cache hit
				c.Count("stroke-paint=fill-paint")
			} else {
				ctx.SetStroke(g.paint())
			}
		}
		if i == 0 || !sticky || c.Chance(0.4) {
			ctx.SetStrokeWidth([]float64{0.5, 1, 1, 2, 0.25, 3, 0}[c.Intn(7)])
		}
		if i == 0 || !sticky || c.Chance(0.3) {
			ctx.SetStrokeCapper([]canvas.Capper{canvas.ButtCap, canvas.RoundCap, canvas.SquareCap}[c.Intn(3)])
		}
		if i == 0 || !sticky || c.Chance(0.3) {
			ctx.SetStrokeJoiner(g.joiner())
		}
		if i == 0 || !sticky || c.Chance(0.3) {
			if c.Chance(0.5) {
				ctx.SetDashes([]float64{0, 0, 0, -1, 2}[c.Intn(5)]) // an offset without a pattern
			} else {
				d := dashPool[c.Intn(len(dashPool))]
				ctx.SetDashes([]float64{0, 0, 1, 2.5, -1, -7}[c.Intn(6)], append([]float64{}, d...)...)
			}
		}
		if i == 0 || !sticky || c.Chance(0.3) {
			if c.Chance(0.3) {
				ctx.SetFillRule(canvas.EvenOdd)
			} else {
				ctx.SetFillRule(canvas.NonZero)
			}
		}
		if i == 0 || c.Chance(0.4) {
			v, name := g.view()
			ctx.SetView(v)
			c.Count("view:" + name)
		}
		if 0 < i && c.Chance(0.12) {
			// an image between path draws: the back-ends bracket it in save/restore
			ctx.DrawImage(float64(c.Intn(40)), float64(c.Intn(30)), g.imgs[c.Intn(len(g.imgs))], canvas.DPMM(float64(1+c.Intn(3))))
			c.Count("item:image")
		}
		if 0 < i && c.Chance(0.07) {
			rec.calls = append(rec.calls, call{kind: kPage})
			c.Count("item:new-page")
			if c.Chance(0.6) {
				ctx.SetFill(canvas.Paint{Gradient: g.grads[c.Intn(len(g.grads))]}) // reuse a gradient on the new page
			}
		}
		kinds := []string{"L", "LZ", "LQC", "LQCA", "LQCAZ", "A"}[c.Intn(6)]
		p := c.GenPath(kinds, 5, 2)
		if c.Chance(0.15) {
			p = canvas.Rectangle(float64(5+c.Intn(30)), float64(5+c.Intn(20)))
		} else if c.Chance(0.1) {
			p = canvas.Rectangle(30, 30).Append(canvas.Rectangle(10, 10).Translate(10, 10)) // nested, same direction
		}
		ctx.DrawPath(c.GenCoord(), c.GenCoord(), p)
		if c.Chance(0.04) {
			// a RenderPath call Context.DrawPath would no longer make (7030ab4): the whole path lies in a gap of the
			// width-scaled dash pattern, so the stroke outline is empty; renderers must cope with it
			st := ctx.Style
			st.Stroke = canvas.Paint{Color: palette[c.Intn(len(palette)-1)]}
			st.StrokeWidth, st.Dashes, st.DashOffset = 3, []float64{2, 1, 1, 1}, 2.5
			st.StrokeJoiner = g.joiner()
			v, _ := g.view()
			rec.RenderPath(canvas.MustParseSVGPath("M0 0L0.3 0"), st, v)
			c.Count("item:direct-call-in-dash-gap")
		}
	}
	var out []call
	for _, cl := range rec.calls {
		if cl.kind != kDraw {
			out = append(out, cl)
			continue
		}
		if cl.style.DashOffset < 0 && len(cl.style.Dashes) == 0 && cl.style.HasStroke() {
			c.Count("negative-offset-without-dashes")
		}
		if cl.path.Empty() {
			c.Count("skip:empty-path")
			continue
		}
		// Path.Dash / Path.Stroke are other properties' subjects (C05, C04): a draw on which they panic
		// is left out here (and counted) so that the programs stay replayable on all back-ends
		if cl.style.HasStroke() {
			st := cl.style
			var outline *canvas.Path
			if msg := hc.Try(func() {
				p := cl.path
				if st.IsDashed() {
					o, d := canvas.ScaleDash(st.StrokeWidth, st.DashOffset, st.Dashes)
					p = p.Dash(o, d...)
				}
				outline = p.Stroke(st.StrokeWidth, st.StrokeCapper, st.StrokeJoiner, canvas.Tolerance)
			}); msg != "" {
				c.Count("skip:Dash/Stroke-panics(C04/C05)")
				continue
			}
			// a stroke whose outline is empty (the whole path lies in a gap of the width-scaled dash pattern): the outline
			// fallback has nothing to draw
			if outline.Empty() {
				c.Count("draw:empty-stroke-outline")
				cl.outlineEmpty = true
			}
		}
		out = append(out, cl)
	}
	return out
}

// newGradients: two fixed two-stop gradients and four generated ones with 2-5 stops whose first/last
// offsets are 0/1 or strictly inside (PDF then needs a stitching function with constant end pieces).
func newGradients(c *hc.Ctx) []canvas.Gradient {
	g1 := canvas.NewLinearGradient(canvas.Point{X: 0, Y: 0}, canvas.Point{X: 50, Y: 0})
	g1.Add(0, canvas.Red)
	g1.Add(1, canvas.Blue)
	g2 := canvas.NewRadialGradient(canvas.Point{X: 20, Y: 20}, 0, canvas.Point{X: 20, Y: 20}, 30)
	g2.Add(0, canvas.White)
	g2.Add(1, canvas.Black)
	out := []canvas.Gradient{g1, g2}
	cols := []color.RGBA{canvas.Red, canvas.Green, canvas.Blue, canvas.Black, canvas.White, canvas.Yellow, {10, 200, 30, 255}}
	for k := 0; k < 4; k++ {
		n := 2 + c.Intn(4)
		offs := make([]float64, n)
		lo, hi := 0.0, 1.0
		if c.Chance(0.5) {
			lo = float64(1+c.Intn(3)) / 10
		}
		if c.Chance(0.5) {
			hi = 1 - float64(1+c.Intn(3))/10
		}
		for i := range offs {
			offs[i] = lo + (hi-lo)*float64(i)/float64(n-1)
		}
		add := func(f func(float64, color.RGBA)) {
			for i, o := range offs {
				f(o, cols[(k*3+i*2)%len(cols)])
			}
		}
		if k%2 == 0 {
			g := canvas.NewLinearGradient(canvas.Point{X: float64(c.Intn(20)), Y: float64(c.Intn(20))}, canvas.Point{X: float64(30 + c.Intn(40)), Y: float64(c.Intn(40))})
			add(func(o float64, col color.RGBA) { g.Add(o, col) })
			out = append(out, g)
		} else {
			g := canvas.NewRadialGradient(canvas.Point{X: 30, Y: 30}, float64(c.Intn(5)), canvas.Point{X: float64(30 + c.Intn(10)), Y: 30}, float64(20+c.Intn(30)))
			add(func(o float64, col color.RGBA) { g.Add(o, col) })
			out = append(out, g)
		}
		c.Count(fmt.Sprintf("gradient-stops:%d", n))
		if lo != 0 || hi != 1 {
			c.Count("gradient-offsets-inside-0-1")
		}
	}
	return out
}

// ---- protocol encoding -------------------------------------------------------------------------

func paintTok(p canvas.Paint, grads []canvas.Gradient) string {
	if p.IsGradient() {
		for i, g := range grads {
			if g == p.Gradient {
				return fmt.Sprintf("g:%d", i)
			}
		}
		return "g:99"
	}
	if p.Color.A == 0 {
		return "n"
	}
	return fmt.Sprintf("c:%d:%d:%d:%d", p.Color.R, p.Color.G, p.Color.B, p.Color.A)
}

func gapCode(j canvas.Joiner) int {
	switch j.(type) {
	case canvas.BevelJoiner:
		return 0
	case canvas.RoundJoiner:
		return 1
	}
	return 2
}

func limitTok(l float64) string {
	if math.IsNaN(l) {
		return "nan"
	}
	return hc.H(l)
}

func joinTok(j canvas.Joiner) string {
	switch t := j.(type) {
	case canvas.BevelJoiner:
		return "B"
	case canvas.RoundJoiner:
		return "R"
	case canvas.MiterJoiner:
		return fmt.Sprintf("M:%d:%s", gapCode(t.GapJoiner), limitTok(t.Limit))
	case canvas.ArcsJoiner:
		return fmt.Sprintf("A:%d:%s", gapCode(t.GapJoiner), limitTok(t.Limit))
	}
	return "?"
}

func capCode(cp canvas.Capper) int {
	switch cp.(type) {
	case canvas.RoundCapper:
		return 1
	case canvas.SquareCapper:
		return 2
	}
	return 0
}

func lastIsClose(p *canvas.Path) bool {
	d := p.Data()
	return 0 < len(d) && d[len(d)-1] == canvas.CloseCmd
}

// dict builds the `hex text` dictionary of every float64 the back-ends may print for the program.
func dict(calls []call, dec func(float64) string) string {
	seen := map[string]string{}
	add := func(f float64) {
		if math.IsNaN(f) || math.IsInf(f, 0) {
			return
		}
		seen[hc.H(f)] = dec(f)
	}
	add(0)
	add(1)
	for _, cl := range calls {
		if cl.kind != kDraw {
			continue
		}
		s := cl.style
		scale := math.Sqrt(math.Abs(cl.m.Det()))
		for _, w := range []float64{s.StrokeWidth, s.StrokeWidth * scale} {
			add(w)
			tot := 0.0
			arr := s.Dashes
			if len(arr)%2 == 1 {
				arr = append(append([]float64{}, arr...), arr...)
			}
			for _, d := range arr {
				add(d * w)
				tot += d * w
			}
			ph := s.DashOffset * w
			add(ph)
			for k := 0; k < 64 && ph < 0 && 0 < tot; k++ {
				ph += tot
				add(ph)
			}
		}
		if mj, ok := s.StrokeJoiner.(canvas.MiterJoiner); ok {
			add(mj.Limit)
		}
		if aj, ok := s.StrokeJoiner.(canvas.ArcsJoiner); ok {
			add(aj.Limit)
		}
		for _, p := range []canvas.Paint{s.Fill, s.Stroke} {
			if p.Color.A != 0 {
				a := float64(p.Color.A) / 255.0
				add(a)
				for _, x := range []uint8{p.Color.R, p.Color.G, p.Color.B} {
					add(float64(x) / 255.0 / a)
				}
				n := toNRGBA(p.Color)
				for _, x := range []uint8{n.R, n.G, n.B} {
					add(float64(x) / 255.0)
				}
			}
		}
	}
	keys := make([]string, 0, len(seen))
	for k := range seen {
		keys = append(keys, k)
	}
	sort.Strings(keys)
	var sb strings.Builder
	fmt.Fprintf(&sb, "%d", len(keys))
	for _, k := range keys {
		sb.WriteString(" " + k + " " + seen[k])
	}
	return sb.String()
}

// toNRGBA: integer un-premultiplication as image/color defines it (independent copy)
func toNRGBA(c color.RGBA) color.NRGBA {
	if c.A == 0 {
		return color.NRGBA{}
	}
	a := uint32(c.A) * 0x101
	f := func(x uint8) uint8 { return uint8((uint32(x) * 0x101 * 0xffff / a) >> 8) }
	return color.NRGBA{R: f(c.R), G: f(c.G), B: f(c.B), A: c.A}
}

func progLine(tag string, calls []call, grads []canvas.Gradient, dec func(float64) string) string {
	var sb strings.Builder
	sb.WriteString(tag + " " + dict(calls, dec))
	fmt.Fprintf(&sb, " %d", len(calls))
	for i, cl := range calls {
		if cl.kind == kImage {
			sb.WriteString(" I")
			continue
		} else if cl.kind == kPage {
			sb.WriteString(" N")
			continue
		}
		s := cl.style
		m := cl.m
		fmt.Fprintf(&sb, " D %s %s %s %d %s %s %d", paintTok(s.Fill, grads), paintTok(s.Stroke, grads), hc.H(s.StrokeWidth),
			capCode(s.StrokeCapper), joinTok(s.StrokeJoiner), hc.H(s.DashOffset), len(s.Dashes))
		for _, d := range s.Dashes {
			sb.WriteString(" " + hc.H(d))
		}
		closed := lastIsClose(cl.path)
		fmt.Fprintf(&sb, " %s %s %s %d", hc.B(s.FillRule == canvas.EvenOdd),
			hc.Hs(m[0][0], m[0][1], m[0][2], m[1][0], m[1][1], m[1][2]), hc.B(closed), i)
		sb.WriteString(" " + hc.B(cl.outlineEmpty))
	}
	return sb.String()
}

// ---- replay on the real back-ends --------------------------------------------------------------

// pageRes is what a page's resource dictionary offers, snapshot when the page is finished.
type pageRes struct {
	ext      map[string][2]float64
	patterns []pdf.VerifC12Pattern
	xobjects []string
}

type replay struct {
	segs   [][]byte // bytes emitted by each call
	all    []byte   // the whole content / program / document
	prefix []byte   // PDF: content of the first page before the first call
	panics []string // panic message per call ("" if none)
	pdf    *pdf.PDF
	closeP string // panic or error of Close
	// PDF only
	pageOf []int                    // page index of each call
	pages  []pageRes                // resources per page
	cache  []pdf.VerifC12CacheState // the writer's cached graphics state after each call
}

func snapPage(r *pdf.PDF) pageRes {
	return pageRes{pdf.VerifC12ExtGState(r), pdf.VerifC12Patterns(r), pdf.VerifC12XObjects(r)}
}

func replayPDF(calls []call) *replay {
	buf := &bytes.Buffer{}
	r := pdf.New(buf, pageW, pageH, &pdf.Options{Compress: false, SubsetFonts: true, ImageEncoding: canvas.Lossless})
	rp := &replay{pdf: r}
	rp.prefix = append([]byte{}, pdf.VerifC12Content(r)...)
	page := 0
	for _, cl := range calls {
		if cl.kind == kPage {
			rp.pages = append(rp.pages, snapPage(r))
			page++
			msg := hc.Try(func() { r.NewPage(pageW, pageH) }) // writes the finished page: may panic on what it contains
			rp.panics = append(rp.panics, msg)
			rp.segs = append(rp.segs, append([]byte{}, pdf.VerifC12Content(r)...)) // the new page's initial cm
			rp.pageOf = append(rp.pageOf, page)
			rp.cache = append(rp.cache, pdf.VerifC12Cache(r))
			continue
		}
		before := len(pdf.VerifC12Content(r))
		msg := hc.Try(func() {
			if cl.kind == kImage {
				r.RenderImage(cl.img, cl.m)
			} else {
				r.RenderPath(cl.path.Copy(), cl.style, cl.m)
			}
		})
		if msg != "" && debugPanics {
			println("PANIC:", msg)
		}
		rp.panics = append(rp.panics, msg)
		rp.segs = append(rp.segs, append([]byte{}, pdf.VerifC12Content(r)[before:]...))
		rp.pageOf = append(rp.pageOf, page)
		rp.cache = append(rp.cache, pdf.VerifC12Cache(r))
	}
	rp.pages = append(rp.pages, snapPage(r))
	rp.all = append([]byte{}, pdf.VerifC12Content(r)...)
	return rp
}

func replayPS(calls []call) *replay {
	buf := &bytes.Buffer{}
	r := ps.New(buf, pageW, pageH, nil)
	rp := &replay{}
	for _, cl := range calls {
		before := buf.Len()
		msg := hc.Try(func() { r.RenderPath(cl.path.Copy(), cl.style, cl.m) })
		if msg != "" && debugPanics { println("PANIC:", msg, cl.path.String(), joinTok(cl.style.StrokeJoiner), cl.style.StrokeWidth, fmt.Sprint(cl.style.Dashes, cl.style.DashOffset, cl.m)) }
		rp.panics = append(rp.panics, msg)
		rp.segs = append(rp.segs, append([]byte{}, buf.Bytes()[before:]...))
	}
	r.Close()
	rp.all = append([]byte{}, buf.Bytes()...)
	return rp
}

func replaySVG(calls []call) *replay {
	buf := &bytes.Buffer{}
	r := svg.New(buf, pageW, pageH, &svg.Options{EmbedFonts: false, SizeUnits: "mm", ImageEncoding: canvas.Lossless})
	rp := &replay{}
	for _, cl := range calls {
		before := buf.Len()
		msg := hc.Try(func() { r.RenderPath(cl.path.Copy(), cl.style, cl.m) })
		if msg != "" && debugPanics { println("PANIC:", msg, cl.path.String(), joinTok(cl.style.StrokeJoiner), cl.style.StrokeWidth, fmt.Sprint(cl.style.Dashes, cl.style.DashOffset, cl.m)) }
		rp.panics = append(rp.panics, msg)
		rp.segs = append(rp.segs, append([]byte{}, buf.Bytes()[before:]...))
	}
	r.Close()
	rp.all = append([]byte{}, buf.Bytes()...)
	return rp
}

// verdictLine: `PDFV <program as in the PDF line> OBS <pages> <calls> <first page prefix>`.
func verdictLine(calls []call, grads []canvas.Gradient, rp *replay) (string, bool) {
	var sb strings.Builder
	sb.WriteString(progLine("PDFV", calls, grads, pdf.VerifC12Dec))
	fmt.Fprintf(&sb, " OBS %d", len(rp.pages))
	for _, pg := range rp.pages {
		names := make([]string, 0, len(pg.ext))
		for n := range pg.ext {
			names = append(names, n)
		}
		sort.Strings(names)
		fmt.Fprintf(&sb, " %d", len(names))
		for _, n := range names {
			fmt.Fprintf(&sb, " %s %s %s", n, pdf.VerifC12Dec(pg.ext[n][0]), pdf.VerifC12Dec(pg.ext[n][1]))
		}
		fmt.Fprintf(&sb, " %d", len(pg.patterns))
		for _, p := range pg.patterns {
			sb.WriteString(" " + p.Name)
		}
		fmt.Fprintf(&sb, " %d", len(pg.xobjects))
		for _, x := range pg.xobjects {
			sb.WriteString(" " + x)
		}
	}
	fmt.Fprintf(&sb, " %d", len(rp.segs))
	emit := func(b []byte) bool {
		toks, err := tokenisePDF(b)
		if err != nil {
			return false
		}
		fmt.Fprintf(&sb, " %d", len(toks))
		for _, t := range toks {
			sb.WriteString(" " + t)
		}
		return true
	}
	for i, seg := range rp.segs {
		if rp.panics[i] != "" || !emit(seg) {
			return "", false
		}
	}
	if !emit(rp.prefix) {
		return "", false
	}
	return sb.String(), true
}

// countBranches: which branch of the modelled RenderPath functions a draw takes (input distribution).
func countBranches(c *hc.Ctx, cl call) {
	if cl.kind != kDraw {
		return
	}
	s := cl.style
	hf, hs := s.HasFill(), s.HasStroke()
	jok, _, _ := joinExpressible("pdf", s.StrokeJoiner)
	native := jok && similarity(cl.m) == simYes
	b := "nothing"
	switch {
	case hf && !hs:
		b = "fill-only"
	case hs && native && !hf:
		b = "stroke-only-native"
	case hs && native && hf && s.Fill.IsColor() && s.Stroke.IsColor() && s.Fill.Color.A == 255 && s.Stroke.Color.A == 255:
		b = "fill+stroke-one-operator"
	case hs && native && hf:
		b = "fill-then-stroke"
	case hs && hf:
		b = "fill+outline"
	case hs:
		b = "outline-only"
	}
	c.Count("branch:" + b)
	if hs {
		c.Count("join:" + strings.SplitN(joinTok(s.StrokeJoiner), ":", 2)[0] + map[bool]string{true: ":expressible", false: ":fallback"}[jok])
		c.Count(fmt.Sprintf("cap:%d", capCode(s.StrokeCapper)))
		switch {
		case len(s.Dashes) == 0 && s.DashOffset == 0:
			c.Count("dash:solid")
		case len(s.Dashes) == 0:
			c.Count("dash:offset-without-pattern")
		case len(s.Dashes)%2 == 1 && s.DashOffset < 0:
			c.Count("dash:odd+negative-offset")
		case len(s.Dashes)%2 == 1:
			c.Count("dash:odd")
		case s.DashOffset < 0:
			c.Count("dash:even+negative-offset")
		default:
			c.Count("dash:even")
		}
	}
	for _, p := range []canvas.Paint{s.Fill, s.Stroke} {
		switch {
		case p.IsGradient():
			c.Count("paint:gradient")
		case p.Color.A == 0:
			c.Count("paint:none")
		case p.Color.A == 255:
			c.Count("paint:opaque")
		default:
			c.Count("paint:semi-transparent")
		}
	}
	if s.FillRule == canvas.EvenOdd {
		c.Count("rule:evenodd")
	}
	if lastIsClose(cl.path) {
		c.Count("path:closed")
	} else {
		c.Count("path:open")
	}
}

func timed(f func() *replay) *replay {
	ch := make(chan *replay, 1)
	go func() { ch <- f() }()
	select {
	case r := <-ch:
		return r
	case <-time.After(10 * time.Second):
		return nil
	}
}

func joinSegs(rp *replay, tokenise func([]byte) ([]string, error)) string {
	parts := make([]string, len(rp.segs))
	for i, s := range rp.segs {
		if rp.panics[i] != "" {
			parts[i] = "PANIC"
			continue
		}
		toks, err := tokenise(s)
		if err != nil {
			parts[i] = "TOKENISE-ERROR:" + strings.ReplaceAll(err.Error(), " ", "_")
			continue
		}
		parts[i] = strings.Join(toks, " ")
	}
	return strings.Join(parts, " | ")
}

func describe(calls []call, grads []canvas.Gradient) []map[string]any {
	var out []map[string]any
	for _, cl := range calls {
		if cl.kind == kImage {
			out = append(out, map[string]any{"image": fmt.Sprint(cl.img.Bounds().Size()), "m": []float64{cl.m[0][0], cl.m[0][1], cl.m[0][2], cl.m[1][0], cl.m[1][1], cl.m[1][2]}})
			continue
		} else if cl.kind == kPage {
			out = append(out, map[string]any{"newpage": true})
			continue
		}
		s := cl.style
		out = append(out, map[string]any{
			"path": cl.path.String(), "data": hc.DataHex(cl.path.Data()), "fill": paintTok(s.Fill, grads), "stroke": paintTok(s.Stroke, grads), "width": s.StrokeWidth,
			"cap": capCode(s.StrokeCapper), "join": joinTok(s.StrokeJoiner), "dashoffset": s.DashOffset, "dashes": s.Dashes,
			"evenodd": s.FillRule == canvas.EvenOdd,
			"m":       []float64{cl.m[0][0], cl.m[0][1], cl.m[0][2], cl.m[1][0], cl.m[1][1], cl.m[1][2]},
		})
	}
	return out
}

func run(c *hc.Ctx) {
	g := &gen{c: c, grads: newGradients(c), imgs: newImages()}
	nprog := c.N
	for it := 0; it < nprog; it++ {
		calls := g.program()
		if len(calls) == 0 {
			c.Count("skip:empty-program")
			continue
		}
		c.Count(fmt.Sprintf("draws:%02d", len(calls)))
		for _, cl := range calls {
			countBranches(c, cl)
		}
		// a back-end that does not return is a failure with this program as input; the run ends there (the
		// spinning goroutine cannot be stopped, the process exits after the report is written)
		var draws []call // PostScript and SVG: path draws only (one page; their image embedding is not modelled)
		for _, cl := range calls {
			if cl.kind == kDraw {
				draws = append(draws, cl)
			}
		}
		rp, rs, rv := timed(func() *replay { return replayPDF(calls) }), timed(func() *replay { return replayPS(draws) }), timed(func() *replay { return replaySVG(draws) })
		hung := false
		for i, r := range []*replay{rp, rs, rv} {
			if r == nil {
				name := []string{"pdf", "ps", "svg"}[i]
				c.Fail(name+":hang:RenderPath-does-not-return", name+" back-end did not return within 10 s on this program", map[string]any{"program": describe(calls, g.grads)})
				hung = true
			}
		}
		if hung {
			return
		}
		c.Case(progLine("PDF", calls, g.grads, pdf.VerifC12Dec), "=", joinSegs(rp, tokenisePDF))
		// verdict in Lean: the real token text + the pages' resources; the Lean PDF interpreter and the model's
		// reference decide (colour, alpha, rule, stroke parameters, order, resource resolution; not geometry)
		if v, ok := verdictLine(calls, g.grads, rp); ok {
			c.Case(v, "!", "pdf:lean-verdict")
			c.Count("lean-verdict-lines")
		}
		c.Case(progLine("PS", draws, g.grads, ps.VerifC12Dec), "=", joinSegs(rs, tokenisePS))
		c.Case(progLine("SVG", draws, g.grads, svg.VerifC12Dec), "=", joinSegs(rv, tokeniseSVG))
		if it < 2 {
			c.Sample("PDF: " + string(rp.all))
			c.Sample("PS: " + string(rs.all[bytes.LastIndex(rs.all, []byte("def"))+3:]))
			c.Sample("SVG: " + string(rv.all))
		}
		oracle(c, calls, draws, g.grads, rp, rs, rv)
	}
	probes(c)
}
