package main

import (
	"bytes"
	"encoding/xml"
	"fmt"
	"strconv"
	"strings"
)

// scan splits PDF content / PostScript source into tokens: `[ ] { }` are self-delimiting, `/name`
// is one token, `%` starts a comment.
func scan(b []byte) []string {
	var out []string
	i := 0
	isWS := func(c byte) bool { return c == ' ' || c == '\n' || c == '\r' || c == '\t' || c == '\f' || c == 0 }
	isDelim := func(c byte) bool { return strings.IndexByte("[]{}()<>/%", c) >= 0 }
	for i < len(b) {
		c := b[i]
		switch {
		case isWS(c):
			i++
		case c == '%':
			for i < len(b) && b[i] != '\n' {
				i++
			}
		case c == '[' || c == ']' || c == '{' || c == '}':
			out = append(out, string(c))
			i++
		default:
			j := i + 1
			for j < len(b) && !isWS(b[j]) && !isDelim(b[j]) {
				j++
			}
			out = append(out, string(b[i:j]))
			i = j
		}
	}
	return out
}

func isNum(t string) bool {
	_, err := strconv.ParseFloat(t, 64)
	if err != nil && strings.HasPrefix(t, ".") {
		_, err = strconv.ParseFloat("0"+t, 64)
	}
	if err != nil && strings.HasPrefix(t, "-.") {
		_, err = strconv.ParseFloat("-0"+t[1:], 64)
	}
	return err == nil
}

func num(t string) float64 {
	if strings.HasPrefix(t, ".") {
		t = "0" + t
	} else if strings.HasPrefix(t, "-.") {
		t = "-0" + t[1:]
	}
	f, _ := strconv.ParseFloat(t, 64)
	return f
}

// abstractPaths replaces every maximal run of path-construction operators (with their operands) by
// one token: `P`, or `Ph` when withH and the run ends with the close operator.
func abstractPaths(toks []string, arity map[string]int, closeOp string, withH bool) ([]string, error) {
	var out []string
	ph := -1 // index of the placeholder of the current run
	for _, t := range toks {
		if t == "cm" && withH { // PDF: the six operands of cm are geometry: abstracted to M
			if len(out) < 6 {
				return nil, fmt.Errorf("operand underflow at cm")
			}
			out = append(out[:len(out)-6], "M", "cm")
			ph = -1
			continue
		}
		if n, ok := arity[t]; ok {
			if len(out) < n {
				return nil, fmt.Errorf("operand underflow at %s", t)
			}
			for _, o := range out[len(out)-n:] {
				if !isNum(o) {
					return nil, fmt.Errorf("non-numeric operand %s of %s", o, t)
				}
			}
			out = out[:len(out)-n]
			if ph < 0 || ph != len(out)-1 {
				out = append(out, "P")
				ph = len(out) - 1
			}
			if withH && t == closeOp {
				out[ph] = "Ph"
			} else {
				out[ph] = "P"
			}
			continue
		}
		if !isNum(t) {
			ph = -1
		}
		out = append(out, t)
	}
	return out, nil
}

var pdfPathOps = map[string]int{"m": 2, "l": 2, "c": 6, "v": 4, "y": 4, "h": 0, "re": 4}
var psPathOps = map[string]int{"moveto": 2, "lineto": 2, "curveto": 6, "closepath": 0, "ellipse": 7, "ellipsen": 7}

func tokenisePDF(b []byte) ([]string, error) { return abstractPaths(scan(b), pdfPathOps, "h", true) }
func tokenisePS(b []byte) ([]string, error)  { return abstractPaths(scan(b), psPathOps, "closepath", false) }

type svgElem struct {
	name  string
	attrs [][2]string
	defID string
}

func parseSVGElems(b []byte) ([]svgElem, error) {
	dec := xml.NewDecoder(bytes.NewReader(append(append([]byte("<r>"), b...), []byte("</r>")...)))
	var out []svgElem
	depth := 0
	inDefs := false
	for {
		tk, err := dec.Token()
		if err != nil {
			break
		}
		switch t := tk.(type) {
		case xml.StartElement:
			depth++
			if depth == 1 {
				continue
			}
			e := svgElem{name: t.Name.Local}
			for _, a := range t.Attr {
				e.attrs = append(e.attrs, [2]string{a.Name.Local, a.Value})
			}
			if inDefs {
				if depth == 3 {
					for _, a := range t.Attr {
						if a.Name.Local == "id" {
							out[len(out)-1].defID = a.Value
						}
					}
					out[len(out)-1].attrs = append(out[len(out)-1].attrs, [2]string{"kind", t.Name.Local})
					out[len(out)-1].attrs = append(out[len(out)-1].attrs, e.attrs...)
				}
				continue
			}
			if e.name == "defs" {
				inDefs = true
			}
			out = append(out, e)
		case xml.EndElement:
			if inDefs && t.Name.Local == "defs" {
				inDefs = false
			}
			depth--
		}
	}
	if depth != 0 {
		return out, fmt.Errorf("unbalanced SVG fragment")
	}
	return out, nil
}

func tokeniseSVG(b []byte) ([]string, error) {
	es, err := parseSVGElems(b)
	if err != nil {
		return nil, err
	}
	var out []string
	for _, e := range es {
		if e.name == "defs" {
			out = append(out, "defs:"+e.defID)
			continue
		}
		out = append(out, e.name)
		for _, a := range e.attrs {
			v := strings.ReplaceAll(a[1], " ", ",")
			if a[0] == "d" {
				v = "P"
			}
			out = append(out, a[0]+"="+v)
		}
	}
	return out, nil
}
