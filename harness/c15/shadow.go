package main

// Independent oracle for C15: a shadow implementation of the *documented* Context/Canvas semantics,
// written from the property statement (own matrix arithmetic, value semantics for every state
// component, no call into the code under test). Matrices carry an entrywise bound on the magnitude
// of the terms that were summed, from which the comparison tolerance is derived.

import (
	"math"
	"sort"
)

type mat [2][3]float64

var ident = mat{{1, 0, 0}, {0, 1, 0}}

func mmul(m, q mat) mat {
	return mat{{
		m[0][0]*q[0][0] + m[0][1]*q[1][0],
		m[0][0]*q[0][1] + m[0][1]*q[1][1],
		m[0][0]*q[0][2] + m[0][1]*q[1][2] + m[0][2],
	}, {
		m[1][0]*q[0][0] + m[1][1]*q[1][0],
		m[1][0]*q[0][1] + m[1][1]*q[1][1],
		m[1][0]*q[0][2] + m[1][1]*q[1][2] + m[1][2],
	}}
}

func mabs(m mat) mat {
	for i := range m {
		for j := range m[i] {
			m[i][j] = math.Abs(m[i][j])
		}
	}
	return m
}

func (m mat) apply(x, y float64) (float64, float64) {
	return m[0][0]*x + m[0][1]*y + m[0][2], m[1][0]*x + m[1][1]*y + m[1][2]
}

// sm = value + magnitude bound + number of factors
type sm struct {
	v, a mat
	n    int
}

func lift(m mat) sm      { return sm{m, mabs(m), 1} }
func (s sm) mul(q sm) sm { return sm{mmul(s.v, q.v), mmul(s.a, q.a), s.n + q.n} }

var sIdent = sm{ident, ident, 0}

// near compares a matrix produced by the real code with the expectation; tolerance per entry is
// (number of factors + 2) * 2^-50 * (magnitude bound) + 1e-12.
func (s sm) finite() bool {
	for i := 0; i < 2; i++ {
		for j := 0; j < 3; j++ {
			if math.IsNaN(s.v[i][j]) || math.IsInf(s.v[i][j], 0) {
				return false
			}
		}
	}
	return true
}

func (s sm) near(m [2][3]float64) bool {
	for i := 0; i < 2; i++ {
		for j := 0; j < 3; j++ {
			tol := float64(s.n+2)*8.9e-16*s.a[i][j]*4 + 1e-12
			d := math.Abs(s.v[i][j] - m[i][j])
			if !(d <= tol) {
				return false
			}
		}
	}
	return true
}

// elementary transformations, from their documented action on points
func eTranslate(x, y float64) mat { return mat{{1, 0, x}, {0, 1, y}} }
func eScale(sx, sy float64) mat   { return mat{{sx, 0, 0}, {0, sy, 0}} }
func eShear(sx, sy float64) mat   { return mat{{1, sx, 0}, {sy, 1, 0}} }
func eRotate(deg float64) mat {
	s, c := math.Sin(deg*math.Pi/180), math.Cos(deg*math.Pi/180)
	return mat{{c, -s, 0}, {s, c, 0}}
}
func about(e mat, x, y float64) sm {
	return lift(eTranslate(x, y)).mul(lift(e)).mul(lift(eTranslate(-x, -y)))
}

// coordinate system: origin at the documented corner, axes flipped accordingly
func eCSV(cs int, W, H float64) sm {
	switch cs {
	case 1: // II: origin bottom-right, x to the left
		return sm{mat{{-1, 0, W}, {0, 1, 0}}, mat{{1, 0, math.Abs(W)}, {0, 1, 0}}, 3}
	case 2: // III: origin top-right
		return sm{mat{{-1, 0, W}, {0, -1, H}}, mat{{1, 0, math.Abs(W)}, {0, 1, math.Abs(H)}}, 6}
	case 3: // IV: origin top-left, y downwards
		return sm{mat{{1, 0, 0}, {0, -1, H}}, mat{{1, 0, 0}, {0, 1, math.Abs(H)}}, 3}
	}
	return sIdent
}
func flipX(cs int) bool { return cs == 1 || cs == 2 }
func flipY(cs int) bool { return cs == 2 || cs == 3 }

type sPaint struct {
	R, G, B, A uint8
	Grad, Pat  int
}

func (p sPaint) has() bool { return p.A != 0 || p.Grad != 0 || p.Pat != 0 }

type sStyle struct {
	Fill, Stroke sPaint
	Width        float64
	Cap, Join    int
	Off          float64
	Dashes       []float64
	Rule         int
}

func (s sStyle) clone() sStyle {
	s.Dashes = append([]float64{}, s.Dashes...)
	return s
}

func feq(a, b float64) bool { return math.Float64bits(a) == math.Float64bits(b) || a == b }

func dashesEq(a, b []float64) bool {
	if len(a) != len(b) {
		return false
	}
	for i := range a {
		if !feq(a[i], b[i]) {
			return false
		}
	}
	return true
}

// eqExceptDashStroke: all style components that the property pins directly
func (s sStyle) eqBase(o sStyle) bool {
	return s.Fill == o.Fill && feq(s.Width, o.Width) && s.Cap == o.Cap && s.Join == o.Join && feq(s.Off, o.Off) && s.Rule == o.Rule
}
func (s sStyle) eq(o sStyle) bool {
	return s.eqBase(o) && s.Stroke == o.Stroke && dashesEq(s.Dashes, o.Dashes)
}

var defaultSStyle = sStyle{Fill: sPaint{0, 0, 0, 255, 0, 0}, Width: 1}

type sState struct {
	style     sStyle
	view      sm
	coordView sm
	cs        int
}

func (s sState) clone() sState { s.style = s.style.clone(); return s }

// dashAt locates, from the definition of a dash pattern (odd patterns are repeated twice, the offset
// is taken modulo the period), the element in which a path starts: ok=false when the question is
// outside the oracle's domain (zero/negative entries: their canonicalisation is C05's subject) or
// inside the tolerance band. i is even for a dash, odd for a gap; into = how far into the element
// the path starts, remain = what is left of it, di = its full length.
func dashAt(off float64, d []float64) (ok bool, i int, into, remain, di float64) {
	total := 0.0
	for _, x := range d {
		if !(x > 1e-6) {
			return false, 0, 0, 0, 0
		}
		total += x
	}
	if len(d)%2 == 1 {
		d = append(append([]float64{}, d...), d...)
		total *= 2
	}
	pos := math.Mod(off, total)
	if pos < 0 {
		pos += total
	}
	acc := 0.0
	for i < len(d)-1 && acc+d[i] <= pos {
		acc += d[i]
		i++
	}
	// starting exactly on an element boundary is unambiguous; only float fuzz next to a boundary is not
	if acc+d[i]-pos < 1e-7 || (pos != acc && pos-acc < 1e-7) {
		return false, 0, 0, 0, 0
	}
	return true, i, pos - acc, acc + d[i] - pos, d[i]
}

// periodIsOdd: the shortest array describing the same pattern has odd length ([3], but also [3 3]
// or [2 5 2 5 2 5], whose halves/thirds repeat): dash and gap swap roles on every pass through it.
func periodIsOdd(d []float64) bool {
	n := len(d)
	for n%2 == 0 && n > 0 {
		same := true
		for i := 0; i < n/2; i++ {
			if math.Abs(d[i]-d[n/2+i]) > 1e-9 {
				same = false
			}
		}
		if !same {
			break
		}
		n /= 2
	}
	return n%2 == 1
}

// one recorded layer of the shadow canvas
type sLayer struct {
	idx int // index into the immediate call list
	z   int
	pre sm // accumulated Canvas.Transform since it was recorded
}

func stableByZ(ls []sLayer) []sLayer {
	out := append([]sLayer{}, ls...)
	sort.SliceStable(out, func(i, j int) bool { return out[i].z < out[j].z })
	return out
}
