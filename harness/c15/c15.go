// C15 — Context and Canvas apply views, coordinate systems and state as documented.
//
// One generated history (<= 60 Context/Canvas calls, nested Push/Pop up to depth 8, all view
// composers, four coordinate systems, z-index changes, style setters, DrawPath/DrawText/DrawImage/
// FitImage, Canvas.Transform/Clip/Fit/Reset) is run
//   - on the real code: Context -> tee (records every Renderer call) -> Canvas -> RenderViewTo(recorder)
//   - on the Lean Float model (one protocol line, compared bit-exactly; sin/cos of Rotate and the
//     Length/Bounds of the drawn objects are handed to the model as tokens), and
//   - on the shadow oracle of shadow.go, which judges the documented formulas on the real code.
package main

import (
	"fmt"
	"hash/fnv"
	"image"
	"image/color"
	"math"
	"os"
	"strings"

	"github.com/tdewolff/canvas"
	"verifharness/hc"
)

func main() { hc.Main("C15", run) }

// ---- objects drawn ---------------------------------------------------------------------------

type world struct {
	paths   []*canvas.Path
	short   *canvas.Path
	spike   *canvas.Path
	pathID  map[string]int
	texts   []*canvas.Text
	grads   []canvas.Gradient
	pats    []canvas.Pattern
	cappers []canvas.Capper
	joiners []canvas.Joiner
}

func (w *world) idOfPath(p *canvas.Path) int {
	if id, ok := w.pathID[hc.DataHex(p.Data())]; ok {
		return id
	}
	return 9999
}
func (w *world) idOfText(t *canvas.Text) int {
	for i, x := range w.texts {
		if x == t {
			return i + 1
		}
	}
	return 9999
}
func (w *world) paint(p canvas.Paint) sPaint {
	s := sPaint{R: p.Color.R, G: p.Color.G, B: p.Color.B, A: p.Color.A}
	if p.Gradient != nil {
		s.Grad = 99
		for i, g := range w.grads {
			if g == p.Gradient {
				s.Grad = i + 1
			}
		}
	}
	if p.Pattern != nil {
		s.Pat = 99
		for i, g := range w.pats {
			if g == p.Pattern {
				s.Pat = i + 1
			}
		}
	}
	return s
}
func (w *world) style(s canvas.Style) sStyle {
	d := sStyle{Fill: w.paint(s.Fill), Stroke: w.paint(s.Stroke), Width: s.StrokeWidth, Off: s.DashOffset,
		Dashes: append([]float64{}, s.Dashes...), Rule: int(s.FillRule), Cap: 99, Join: 99}
	for i, k := range w.cappers {
		if k == s.StrokeCapper {
			d.Cap = i
		}
	}
	for i, k := range w.joiners {
		if k == s.StrokeJoiner {
			d.Join = i
		}
	}
	return d
}

func paintTok(p sPaint) string {
	return fmt.Sprintf("%d %d %d %d %d %d", p.R, p.G, p.B, p.A, p.Grad, p.Pat)
}
func styleTok(s sStyle) string {
	var sb strings.Builder
	fmt.Fprintf(&sb, "%s %s %s %d %d %s %d", paintTok(s.Fill), paintTok(s.Stroke), hc.H(s.Width), s.Cap, s.Join, hc.H(s.Off), len(s.Dashes))
	for _, d := range s.Dashes {
		sb.WriteString(" " + hc.H(d))
	}
	fmt.Fprintf(&sb, " %d", s.Rule)
	return sb.String()
}
func matTok(m [2][3]float64) string {
	return hc.Hs(m[0][0], m[0][1], m[0][2], m[1][0], m[1][1], m[1][2])
}

// ---- recording renderers ---------------------------------------------------------------------

type call struct {
	kind  byte // P T I
	id    int
	w, h  float64 // image size
	m     canvas.Matrix
	sty   sStyle       // value copy at call time
	live  canvas.Style // as received (aliases whatever the caller aliases)
	path  *canvas.Path
	text  *canvas.Text
	multi int // index of the path within its DrawPath call
}

func (k call) tok() string {
	switch k.kind {
	case 'P':
		return fmt.Sprintf("P %d %s %s", k.id, matTok(k.m), styleTok(k.sty))
	case 'T':
		return fmt.Sprintf("T %d %s", k.id, matTok(k.m))
	}
	return fmt.Sprintf("I %s %s %s", hc.H(k.w), hc.H(k.h), matTok(k.m))
}

type recorder struct {
	w     *world
	W, H  float64
	calls []call
}

func (r *recorder) Size() (float64, float64) { return r.W, r.H }
func (r *recorder) RenderPath(p *canvas.Path, s canvas.Style, m canvas.Matrix) {
	r.calls = append(r.calls, call{kind: 'P', id: r.w.idOfPath(p), m: m, sty: r.w.style(s), live: s, path: p})
}
func (r *recorder) RenderText(t *canvas.Text, m canvas.Matrix) {
	r.calls = append(r.calls, call{kind: 'T', id: r.w.idOfText(t), m: m, text: t})
}
func (r *recorder) RenderImage(img image.Image, m canvas.Matrix) {
	sz := img.Bounds().Size()
	r.calls = append(r.calls, call{kind: 'I', w: float64(sz.X), h: float64(sz.Y), m: m})
}

// tee sits between the Context and the Canvas
type tee struct {
	recorder
	cv *canvas.Canvas
}

func (t *tee) Size() (float64, float64) { return t.cv.Size() }
func (t *tee) RenderPath(p *canvas.Path, s canvas.Style, m canvas.Matrix) {
	t.recorder.RenderPath(p, s, m)
	t.cv.RenderPath(p, s, m)
}
func (t *tee) RenderText(x *canvas.Text, m canvas.Matrix) {
	t.recorder.RenderText(x, m)
	t.cv.RenderText(x, m)
}
func (t *tee) RenderImage(img image.Image, m canvas.Matrix) {
	t.recorder.RenderImage(img, m)
	t.cv.RenderImage(img, m)
}
func (t *tee) SetZIndex(z int) { t.cv.SetZIndex(z) }

// ---- generation ------------------------------------------------------------------------------

var fontFace *canvas.FontFace
var fontTried bool

func face() *canvas.FontFace {
	if !fontTried {
		fontTried = true
		repo := os.Getenv("VERIF_REPO")
		if repo == "" {
			repo = "/repo"
		}
		ff := canvas.NewFontFamily("dejavu")
		if err := ff.LoadFontFile(repo+"/resources/DejaVuSerif.ttf", canvas.FontRegular); err == nil {
			fontFace = ff.Face(12.0, canvas.Black, canvas.FontRegular, canvas.FontNormal)
		}
	}
	return fontFace
}

func newWorld(c *hc.Ctx) *world {
	w := &world{pathID: map[string]int{}}
	add := func(p *canvas.Path) {
		k := hc.DataHex(p.Data())
		if _, ok := w.pathID[k]; ok {
			return
		}
		w.paths = append(w.paths, p)
		w.pathID[k] = len(w.paths)
	}
	for i := 0; i < 3; i++ {
		add(c.GenPath([]string{"L", "LQC", "LQCZ", "LA"}[c.Intn(4)], 3, 1+c.Intn(2)))
	}
	// a short line: dash patterns may cover it entirely
	p := &canvas.Path{}
	x, y := c.GenCoord(), c.GenCoord()
	p.MoveTo(x, y)
	p.LineTo(x+float64(1+c.Intn(3)), y)
	add(p)
	w.short = p
	{
		// a spike: a corner sharper than the miter limit of 4 (bevelled by MiterJoin, cut by MiterClipJoin)
		sp := &canvas.Path{}
		ang := c.Range(0, 2*math.Pi)
		l, open := float64(4+c.Intn(12)), c.Range(0.02, 0.2)
		sp.MoveTo(x, y)
		sp.LineTo(x+l*math.Cos(ang), y+l*math.Sin(ang))
		sp.LineTo(x+l*0.9*math.Cos(ang+open), y+l*0.9*math.Sin(ang+open))
		add(sp)
		w.spike = sp
	}
	if c.Chance(0.3) {
		add(&canvas.Path{})
	}
	if f := face(); f != nil {
		w.texts = []*canvas.Text{canvas.NewTextLine(f, "Lean", canvas.Left), canvas.NewTextLine(f, "C15 gq", canvas.Right), canvas.NewTextLine(f, "", canvas.Left)}
	}
	w.grads = []canvas.Gradient{canvas.NewLinearGradient(canvas.Point{}, canvas.Point{X: 10}), canvas.NewRadialGradient(canvas.Point{}, 1, canvas.Point{X: 1}, 5)}
	w.pats = []canvas.Pattern{canvas.NewLineHatch(canvas.Black, 30, 2, 0.3), canvas.NewLineHatch(canvas.Red, 60, 3, 0.2)}
	w.cappers = []canvas.Capper{canvas.ButtCap, canvas.RoundCap, canvas.SquareCap}
	w.joiners = []canvas.Joiner{canvas.MiterJoin, canvas.BevelJoin, canvas.RoundJoin, canvas.ArcsJoin, canvas.MiterClipJoin}
	return w
}

func genMat(c *hc.Ctx) mat {
	m := ident
	n := 1 + c.Intn(3)
	for i := 0; i < n; i++ {
		switch c.Intn(6) {
		case 0:
			m = mmul(m, eTranslate(c.GenCoord(), c.GenCoord()))
		case 1:
			m = mmul(m, eRotate(float64(c.Intn(24))*15))
		case 2:
			m = mmul(m, eScale(genScale(c), genScale(c)))
		case 3:
			m = mmul(m, eShear(c.Range(-0.7, 0.7), c.Range(-0.7, 0.7)))
		case 4:
			m = mmul(m, eScale(-1, 1))
		case 5:
			m = mmul(m, eRotate(c.Range(0, 360)))
		}
	}
	return m
}

func genScale(c *hc.Ctx) float64 {
	s := []float64{0.5, 2, 1.5, 0.75, 1}[c.Intn(5)]
	if c.Chance(0.3) {
		s = math.Round(c.Range(0.5, 2)*100) / 100
	}
	if c.Chance(0.15) {
		s = -s
	}
	return s
}

func genDashes(c *hc.Ctx) (float64, []float64, string) {
	var d []float64
	kind := ""
	switch c.Intn(9) {
	case 0:
		kind, d = "solid", []float64{}
	case 1:
		kind, d = "preset", append([]float64{}, [][]float64{canvas.Dotted, canvas.Dashed, canvas.Dashdotted, canvas.SparselyDashed}[c.Intn(4)]...)
	case 2, 3:
		kind = "random"
		n := 1 + c.Intn(4)
		for i := 0; i < n; i++ {
			d = append(d, float64(1+c.Intn(12))/2)
		}
	case 4:
		kind = "repeated"
		a, b := float64(1+c.Intn(5)), float64(1+c.Intn(5))
		d = []float64{a, b, a, b}
		if c.Bool() {
			d = append(d, d...)
		}
	case 5:
		kind = "long" // longer than the short paths: first dash / first gap covers the whole path
		d = []float64{float64(4 + c.Intn(6)), float64(4 + c.Intn(6))}
	case 6:
		kind = "with-zero"
		n := 2 + c.Intn(5)
		for i := 0; i < n; i++ {
			d = append(d, float64(1+c.Intn(6)))
		}
		d[c.Intn(n)] = 0
		if c.Chance(0.4) {
			d[c.Intn(n)] = 0
		}
	case 7:
		kind = "negative"
		d = []float64{2, -1, 3}
	case 8:
		kind = "all-zero"
		d = []float64{0}
		if c.Bool() {
			d = []float64{0, 0}
		}
	}
	off := 0.0
	switch c.Intn(4) {
	case 1:
		off = float64(c.Intn(40)) / 2
	case 2:
		off = -float64(c.Intn(20)) / 2
	case 3:
		off = math.Round(c.Range(0, 12)*100) / 100
	}
	return off, d, kind
}

func genColor(c *hc.Ctx) color.RGBA {
	a := uint8([]int{255, 255, 128, 0, 1}[c.Intn(5)])
	ch := func() uint8 {
		if a == 0 {
			return 0
		}
		return uint8(c.Intn(int(a) + 1))
	}
	return color.RGBA{ch(), ch(), ch(), a}
}

// ---- one history -----------------------------------------------------------------------------

type snapshot struct {
	view, coordView, csv canvas.Matrix
	style                sStyle
}

type hist struct {
	c         *hc.Ctx
	w         *world
	cv        *canvas.Canvas
	tee       *tee
	ctx       *canvas.Context
	line      []string // protocol tokens
	human     []string // readable replay
	goOut     []string
	st        sState
	stack     []sState
	snaps     []snapshot // real observable state at each Push
	z         int
	W, H      float64
	layers    []sLayer
	expect    []sm // expected matrix of every immediate call
	noCorr    string
	failed    bool
	aliasSeen map[string]bool
	force     *canvas.Path // the next DrawPath draws this path first
	verdicts  []string     // "V" lines: raw replay observations judged by the Lean specification
	nonFinite bool         // a layer with a NaN/Inf matrix exists (already reported as a failure): matrix oracles are off
}

func (h *hist) op(human string, toks ...string) {
	h.human = append(h.human, human)
	h.line = append(h.line, toks...)
}

func (h *hist) fail(kind, desc string) {
	if strings.HasPrefix(kind, "alias:") {
		if h.aliasSeen[kind] {
			return // the alias findings are reported once per history, in addition to any other failure
		}
		if h.aliasSeen == nil {
			h.aliasSeen = map[string]bool{}
		}
		h.aliasSeen[kind] = true
	} else if h.failed {
		return // one report per history
	} else {
		h.failed = true
	}
	h.c.Fail(kind, desc, map[string]any{"W": h.W, "H": h.H, "history": strings.Join(h.human, "; ")})
}

func (h *hist) snap() snapshot {
	return snapshot{h.ctx.View(), h.ctx.CoordView(), h.ctx.CoordSystemView(), h.w.style(h.ctx.Style)}
}

// after every call: the observable Context state is the documented one, and nothing already
// recorded has changed
func (h *hist) checkState(what string) {
	h.c.Evals++
	if !h.st.view.near(h.ctx.View()) {
		h.fail("view:"+what, fmt.Sprintf("after %s the view is %v, documented %v", what, h.ctx.View(), h.st.view.v))
	}
	if !h.st.coordView.near(h.ctx.CoordView()) {
		h.fail("coordview:"+what, fmt.Sprintf("after %s the coordinate view is %v, documented %v", what, h.ctx.CoordView(), h.st.coordView.v))
	}
	W, H := h.cv.Size()
	if !eCSV(h.st.cs, W, H).near(h.ctx.CoordSystemView()) {
		h.fail(fmt.Sprintf("coord-origin:system-%d", h.st.cs), fmt.Sprintf("CoordSystemView for system %d on %gx%g is %v", h.st.cs, W, H, h.ctx.CoordSystemView()))
	}
	real := h.w.style(h.ctx.Style)
	if !real.eq(h.st.style) {
		if real.eqBase(h.st.style) && real.Stroke == h.st.style.Stroke {
			h.noCorr = "dash-alias"
			h.fail("alias:context-dashes-mutated-by-draw", fmt.Sprintf("after %s the current style has dashes %v although %v were set (a draw rewrote the caller's dash array in place; Push/Pop cannot restore it)", what, real.Dashes, h.st.style.Dashes))
			h.st.style.Dashes = append([]float64{}, real.Dashes...) // resynchronise so that one defect is reported once
			for i := range h.stack {
				_ = i
			}
		} else {
			h.fail("style:"+what, fmt.Sprintf("after %s the style is %+v, documented %+v", what, real, h.st.style))
		}
	}
	h.checkRecorded(what)
}

func (h *hist) checkRecorded(what string) {
	for i, k := range h.tee.calls {
		if k.kind == 'P' && !dashesEq(k.live.Dashes, k.sty.Dashes) {
			h.noCorr = "dash-alias"
			h.fail("alias:recorded-dashes-mutated-by-later-call", fmt.Sprintf("call %d was received with dashes %v; after %s the same style value reads %v", i, k.sty.Dashes, what, k.live.Dashes))
			h.tee.calls[i].live.Dashes = append([]float64{}, k.sty.Dashes...)
		}
	}
}

func (h *hist) compose(name string, e sm) { h.st.view = h.st.view.mul(e) }

func (h *hist) base(x, y float64) sm {
	W, H := h.cv.Size()
	cx, cy := h.st.coordView.v.apply(x, y)
	ax, ay := h.st.coordView.a.apply(math.Abs(x), math.Abs(y))
	t := sm{eTranslate(cx, cy), eTranslate(ax, ay), h.st.coordView.n + 1}
	return eCSV(h.st.cs, W, H).mul(h.st.view).mul(t)
}

// after a draw: the new immediate calls carry the documented matrix and style
func (h *hist) checkDraw(what string, before int, expect []sm, paths []*canvas.Path) {
	h.c.Evals++
	got := h.tee.calls[before:]
	if len(got) != len(expect) {
		h.fail("draw-count:"+what, fmt.Sprintf("%s produced %d renderer calls, documented %d", what, len(got), len(expect)))
		// keep the bookkeeping aligned with the real calls
		for i := range got {
			h.expect = append(h.expect, sm{mat(got[i].m), mabs(mat(got[i].m)), 1})
			h.layers = append(h.layers, sLayer{before + i, h.z, sIdent})
		}
		return
	}
	lostBefore := false
	for i, k := range got {
		h.expect = append(h.expect, expect[i])
		h.layers = append(h.layers, sLayer{before + i, h.z, sIdent})
		if !expect[i].near(k.m) {
			h.fail(fmt.Sprintf("draw-matrix:%s:system-%d", what, h.st.cs), fmt.Sprintf("%s in system %d: renderer received %v, documented CoordSystemView x View x Translate(CoordView(x,y)) = %v", what, h.st.cs, k.m, expect[i].v))
		}
		if k.kind != 'P' {
			continue
		}
		h.tee.calls[before+i].multi = i
		if !k.sty.eqBase(h.st.style) {
			h.fail("draw-style:"+what, fmt.Sprintf("path drawn with style %+v while the current style is %+v", k.sty, h.st.style))
			continue
		}
		h.judgeDash(k, i, len(paths), paths[i].Length(), &lostBefore)
	}
}

// judgeDash: DrawPath may drop the stroke paint only when the dash pattern leaves no ink on the
// path, and may drop the dash pattern only when the first dash covers the whole path.
func (h *hist) judgeDash(k call, i, n int, length float64, lostBefore *bool) {
	cur := h.st.style
	strokeDropped := k.sty.Stroke != cur.Stroke
	if strokeDropped && (k.sty.Stroke != sPaint{}) {
		h.fail("draw-style:stroke-paint", fmt.Sprintf("path drawn with stroke paint %+v, current %+v", k.sty.Stroke, cur.Stroke))
		return
	}
	dashesDropped := !strokeDropped && len(cur.Dashes) > 0 && len(k.sty.Dashes) == 0 && cur.Stroke.has() && 0 < cur.Width
	if !strokeDropped && !dashesDropped {
		return
	}
	defer func() {
		if strokeDropped {
			*lostBefore = true
		}
	}()
	if len(cur.Dashes) == 0 {
		if strokeDropped {
			h.fail("draw-style:stroke-lost", "solid stroke dropped")
		}
		return
	}
	// the renderers draw the pattern in units of the stroke width: judge in those units
	scaled := make([]float64, len(cur.Dashes))
	for j, d := range cur.Dashes {
		scaled[j] = d * cur.Width
	}
	ok, idx, into, remain, di := dashAt(cur.Off*cur.Width, scaled)
	if !ok || length < 1e-6 || math.Abs(length-remain) < 1e-7 {
		h.c.Count("oracle-skip:dash-visibility-undecided")
		return
	}
	desc := fmt.Sprintf("DrawPath with %d paths: path %d (length %g), stroke width %g, dashes %v offset %g (in stroke widths): the path starts %g into element %d (length %g, %g remaining)", n, i, length, cur.Width, cur.Dashes, cur.Off, into, idx, di, remain)
	legit := false
	if strokeDropped {
		legit = idx%2 == 1 && length <= remain // the first gap covers the whole path
	} else {
		legit = idx%2 == 0 && length <= remain // the first dash covers the whole path
	}
	if legit {
		return
	}
	what := "the stroke paint is dropped although the pattern leaves ink on the path"
	if dashesDropped {
		what = "the dash pattern is dropped (solid stroke) although the path extends beyond the first dash"
	}
	switch {
	case strokeDropped && *lostBefore:
		h.fail("drawpath-multi:stroke-cleared-by-earlier-path", desc+"; "+what+"; an earlier path of the same call had no ink")
	case periodIsOdd(cur.Dashes):
		h.fail("checkdash:odd-length-pattern", desc+"; "+what)
	case cur.Off < 0:
		h.fail("checkdash:negative-offset", desc+"; "+what)
	case into > 0 && length <= di+into:
		h.fail("checkdash:start-position-sign", desc+"; "+what+" (consistent with testing length <= d[i]+into instead of d[i]-into)")
	case strokeDropped:
		h.fail("draw-style:stroke-lost", desc+"; "+what)
	default:
		h.fail("draw-style:dashes-dropped", desc+"; "+what)
	}
}

func (h *hist) pathTok(p *canvas.Path) string {
	b := p.Bounds()
	return fmt.Sprintf("%d %s %s", h.w.idOfPath(p), hc.H(p.Length()), hc.Hs(b.X0, b.Y0, b.X1, b.Y1))
}

func fmtF(fs ...float64) string {
	s := make([]string, len(fs))
	for i, f := range fs {
		s[i] = fmt.Sprintf("%g", f)
	}
	return strings.Join(s, ",")
}

func (h *hist) drawPath(n int) {
	c := h.c
	x, y := c.GenCoord(), c.GenCoord()
	ps := make([]*canvas.Path, n)
	toks := []string{"DP", hc.H(x), hc.H(y), fmt.Sprint(n)}
	names := []string{}
	for i := range ps {
		ps[i] = h.w.paths[c.Intn(len(h.w.paths))]
		if i == 0 && h.force != nil {
			ps[i], h.force = h.force, nil
		}
		if n > 1 && i == 0 && c.Bool() {
			ps[i] = h.w.short // the short line first: a dash pattern may leave it without ink
		}
		toks = append(toks, h.pathTok(ps[i]))
		names = append(names, fmt.Sprintf("%q", ps[i].String()))
	}
	h.op(fmt.Sprintf("DrawPath(%s, %s)", fmtF(x, y), strings.Join(names, ",")), toks...)
	var expect []sm
	if h.st.style.Fill.has() || (h.st.style.Stroke.has() && 0 < h.st.style.Width) {
		e := h.base(x, y)
		for range ps {
			expect = append(expect, e)
		}
		c.Count(fmt.Sprintf("draw:path x%d", n))
	} else {
		c.Count("draw:path-invisible-style")
	}
	before := len(h.tee.calls)
	h.ctx.DrawPath(x, y, ps...)
	for _, k := range h.tee.calls[before:] {
		if k.kind == 'P' && len(h.st.style.Dashes) > 0 {
			switch {
			case len(k.sty.Dashes) == 0 && k.sty.Stroke == h.st.style.Stroke && h.st.style.Stroke.has():
				c.Count("dash-outcome:first-dash-covers-or-solid")
			case len(k.sty.Dashes) == 0:
				c.Count("dash-outcome:no-stroke")
			case len(k.sty.Dashes) != len(h.st.style.Dashes):
				c.Count("dash-outcome:canonicalised-shorter")
			default:
				c.Count("dash-outcome:kept")
			}
		}
	}
	h.checkDraw("DrawPath", before, expect, ps)
}

// Fill / Stroke / FillStroke of a path built through the Context's own builder methods
func (h *hist) fillStroke() {
	c := h.c
	p := &canvas.Path{}
	x, y := c.GenCoord(), c.GenCoord()
	h.ctx.MoveTo(x, y)
	p.MoveTo(x, y)
	desc := fmt.Sprintf("MoveTo(%s)", fmtF(x, y))
	n := 1 + c.Intn(4)
	for i := 0; i < n; i++ {
		a, b, e, f, g, k := c.GenCoord(), c.GenCoord(), c.GenCoord(), c.GenCoord(), c.GenCoord(), c.GenCoord()
		switch c.Intn(4) {
		case 0, 1:
			h.ctx.LineTo(a, b)
			p.LineTo(a, b)
			desc += fmt.Sprintf("; LineTo(%s)", fmtF(a, b))
		case 2:
			h.ctx.QuadTo(a, b, e, f)
			p.QuadTo(a, b, e, f)
			desc += fmt.Sprintf("; QuadTo(%s)", fmtF(a, b, e, f))
		case 3:
			h.ctx.CubeTo(a, b, e, f, g, k)
			p.CubeTo(a, b, e, f, g, k)
			desc += fmt.Sprintf("; CubeTo(%s)", fmtF(a, b, e, f, g, k))
		}
	}
	if c.Chance(0.3) {
		h.ctx.Close()
		p.Close()
		desc += "; Close()"
	}
	key := hc.DataHex(p.Data())
	if _, ok := h.w.pathID[key]; !ok {
		h.w.paths = append(h.w.paths, p)
		h.w.pathID[key] = len(h.w.paths)
	}
	which := c.Intn(3)
	tag, name := []string{"FL", "SK", "FS"}[which], []string{"Fill", "Stroke", "FillStroke"}[which]
	h.op(desc+"; "+name+"()", tag, h.pathTok(p))
	// documented: the path is drawn at (0,0) with the current state, without stroke paint (Fill) or
	// without fill paint (Stroke); afterwards the style is what it was and the current path is empty
	saved := h.st.style.clone()
	switch which {
	case 0:
		h.st.style.Stroke = sPaint{}
	case 1:
		h.st.style.Fill = sPaint{}
	}
	var expect []sm
	if h.st.style.Fill.has() || (h.st.style.Stroke.has() && 0 < h.st.style.Width) {
		expect = []sm{h.base(0, 0)}
		c.Count("draw:" + name)
	} else {
		c.Count("draw:" + name + "-invisible")
	}
	before := len(h.tee.calls)
	switch which {
	case 0:
		h.ctx.Fill()
	case 1:
		h.ctx.Stroke()
	case 2:
		h.ctx.FillStroke()
	}
	h.checkDraw(name, before, expect, []*canvas.Path{p})
	h.st.style = saved
	if px, py := h.ctx.Pos(); px != 0 || py != 0 {
		h.fail("fill-resets-path:"+name, fmt.Sprintf("after %s() the current path is not empty: Pos() = (%g,%g)", name, px, py))
	}
}

func (h *hist) drawText() {
	c := h.c
	if len(h.w.texts) == 0 {
		c.Count("text-unavailable")
		return
	}
	i := c.Intn(len(h.w.texts))
	t := h.w.texts[i]
	x, y := c.GenCoord(), c.GenCoord()
	b := t.Bounds()
	h.op(fmt.Sprintf("DrawText(%s, text%d)", fmtF(x, y), i+1), "DT", hc.H(x), hc.H(y), fmt.Sprint(i+1), hc.B(t.Empty()), hc.Hs(b.X0, b.Y0, b.X1, b.Y1))
	var expect []sm
	if !t.Empty() {
		fx, fy := 1.0, 1.0
		if flipX(h.st.cs) {
			fx = -1
		}
		if flipY(h.st.cs) {
			fy = -1
		}
		expect = []sm{h.base(x, y).mul(lift(eScale(fx, fy)))}
		c.Count(fmt.Sprintf("draw:text system-%d", h.st.cs))
	} else {
		c.Count("draw:text-empty")
	}
	before := len(h.tee.calls)
	h.ctx.DrawText(x, y, t)
	h.checkDraw("DrawText", before, expect, nil)
}

func imageMat(cs int, w, ht, sx, sy float64) sm {
	// pixel (px,py) -> ((w-px or px)*sx, (h-py or py)*sy): upright, mirrored box origin
	m := mat{{sx, 0, 0}, {0, sy, 0}}
	if flipX(cs) {
		m[0][0], m[0][2] = -sx, w*sx
	}
	if flipY(cs) {
		m[1][1], m[1][2] = -sy, ht*sy
	}
	return sm{m, mabs(m), 4}
}

func (h *hist) drawImage() {
	c := h.c
	sizes := [][2]int{{4, 3}, {16, 8}, {7, 7}, {0, 0}, {1, 5}}
	s := sizes[c.Intn(len(sizes))]
	img := image.NewRGBA(image.Rect(0, 0, s[0], s[1]))
	x, y := c.GenCoord(), c.GenCoord()
	res := []float64{1, 2, 0.5, 3.7795275590551185, 10}[c.Intn(5)]
	h.op(fmt.Sprintf("DrawImage(%s, image %dx%d, res %g)", fmtF(x, y), s[0], s[1], res), "DI", hc.H(x), hc.H(y), hc.H(float64(s[0])), hc.H(float64(s[1])), hc.H(res))
	var expect []sm
	if s[0] != 0 || s[1] != 0 {
		expect = []sm{h.base(x, y).mul(imageMat(h.st.cs, float64(s[0]), float64(s[1]), 1/res, 1/res))}
		c.Count(fmt.Sprintf("draw:image system-%d", h.st.cs))
	} else {
		c.Count("draw:image-empty")
	}
	before := len(h.tee.calls)
	h.ctx.DrawImage(x, y, img, canvas.DPMM(res))
	h.checkDraw("DrawImage", before, expect, nil)
}

func (h *hist) fitImage() {
	c := h.c
	sizes := [][2]int{{4, 3}, {16, 8}, {7, 7}, {9, 20}}
	s := sizes[c.Intn(len(sizes))]
	img := image.NewRGBA(image.Rect(0, 0, s[0], s[1]))
	x0, y0 := c.GenCoord(), c.GenCoord()
	rw, rh := float64(1+c.Intn(30)), float64(1+c.Intn(30))
	if c.Chance(0.08) {
		rw = 0
	}
	fit := c.Intn(3)
	if fit == 2 && c.Chance(0.3) {
		// a very flat or very narrow rectangle: ImageCover would crop (almost) every row/column
		if c.Bool() {
			rw, rh = float64(20+c.Intn(20)), []float64{0.5, 1, 0.25}[c.Intn(3)]
		} else {
			rw, rh = []float64{0.5, 1, 0.25}[c.Intn(3)], float64(20+c.Intn(20))
		}
	}
	rect := canvas.Rect{X0: x0, Y0: y0, X1: x0 + rw, Y1: y0 + rh}
	h.op(fmt.Sprintf("FitImage(image %dx%d, rect %v, fit %d)", s[0], s[1], rect, fit), "FIM", hc.H(float64(s[0])), hc.H(float64(s[1])), hc.Hs(rect.X0, rect.Y0, rect.X1, rect.Y1), fmt.Sprint(fit))
	w, ht := float64(s[0]), float64(s[1])
	rw, rh = rect.X1-rect.X0, rect.Y1-rect.Y0 // as the code sees them
	var expect []sm
	cropZero, cropTie := false, false
	if math.Abs(rw) > 1e-9 && math.Abs(rh) > 1e-9 {
		var e sm
		switch fit {
		case 0: // stretch onto the rectangle
			e = h.base(x0, y0).mul(imageMat(h.st.cs, w, ht, rw/w, rh/ht))
		case 1: // largest uniformly scaled copy inside, centred
			sc := math.Min(rw/w, rh/ht)
			e = h.base(x0+(rw-w*sc)/2, y0+(rh-ht*sc)/2).mul(imageMat(h.st.cs, w, ht, sc, sc))
		case 2: // smallest uniformly scaled copy covering; cropped (by whole pixels, centred) to the rectangle
			sc := math.Max(rw/w, rh/ht)
			cw, ch := w, ht
			// pixels cropped on each side: rounded to the nearest pixel, but at least one row/column is kept
			v, size := (ht-rh/sc)/2+0.5, ht
			if rw/w < rh/ht {
				v, size = (w-rw/sc)/2+0.5, w
			}
			crop, maxCrop := math.Floor(v), math.Floor((size-1)/2)
			if crop > maxCrop {
				crop = maxCrop
				cropZero = true // (would crop everything)
			} else if math.Abs(v-math.Round(v)) < 1e-9 {
				cropTie = true // the number of cropped pixels is a rounding tie: either neighbour is acceptable
			}
			if rw/w < rh/ht {
				cw = w - 2*crop
			} else {
				ch = ht - 2*crop
			}
			e = h.base(x0, y0).mul(imageMat(h.st.cs, cw, ch, rw/cw, rh/ch))
		}
		e.n += 6
		expect = []sm{e}
		c.Count(fmt.Sprintf("draw:fitimage fit-%d system-%d", fit, h.st.cs))
	} else {
		c.Count("draw:fitimage-empty-rect")
	}
	before := len(h.tee.calls)
	if msg := hc.Try(func() { h.ctx.FitImage(img, rect, canvas.ImageFit(fit)) }); msg != "" {
		h.fail("panic:FitImage", msg)
	}
	if cropTie {
		h.c.Count("oracle-skip:fitimage-cover-rounding-tie")
		got := h.tee.calls[before:]
		for i := range got {
			h.expect = append(h.expect, sm{mat(got[i].m), mabs(mat(got[i].m)), 1})
			h.layers = append(h.layers, sLayer{before + i, h.z, sIdent})
		}
		return
	}
	if cropZero {
		// less than half a pixel row/column of the image would remain visible: one row/column is kept
		c.Count("draw:fitimage-cover-keeps-one-row")
	}
	if got := h.tee.calls[before:]; len(got) == 1 && !(sm{v: mat(got[0].m)}).finite() {
		h.fail("fitimage-cover:cropped-to-zero-pixels", fmt.Sprintf("FitImage(fit %d) of a %dx%d image into %v sends RenderImage a %gx%g image with the non-finite matrix %v", fit, s[0], s[1], rect, got[0].w, got[0].h, got[0].m))
		for i := range got {
			h.expect = append(h.expect, sm{mat(got[i].m), mabs(mat(got[i].m)), 1})
			h.layers = append(h.layers, sLayer{before + i, h.z, sIdent})
		}
		h.nonFinite = true
		return
	}
	h.checkDraw("FitImage", before, expect, nil)
}

// replay of the canvas to a fresh recorder
func (h *hist) replay(view canvas.Matrix) []call {
	W, H := h.cv.Size()
	r := &recorder{w: h.w, W: W, H: H}
	h.cv.RenderViewTo(r, view)
	return r.calls
}

// the canvas replays exactly the recorded operations in ascending z and then drawing order, with
// every layer moved by the transformations applied to the canvas since it was recorded
func (h *hist) checkReplay(what string, view sm, got []call) bool {
	h.c.Evals++
	// raw observation for the Lean verdict: (z, fingerprint) of what was recorded, fingerprints of the replay
	{
		toks := []string{"V", fmt.Sprint(len(h.layers))}
		for _, l := range h.layers {
			toks = append(toks, fmt.Sprint(l.z), fingerprint(h.tee.calls[l.idx]))
		}
		toks = append(toks, fmt.Sprint(len(got)))
		for _, g := range got {
			toks = append(toks, fingerprint(g))
		}
		h.verdicts = append(h.verdicts, strings.Join(toks, " "))
	}
	want := stableByZ(h.layers)
	if len(got) != len(want) {
		h.fail("replay-count:"+what, fmt.Sprintf("%s: canvas replays %d operations, %d were recorded", what, len(got), len(want)))
		return false
	}
	for i, l := range want {
		im := h.tee.calls[l.idx]
		g := got[i]
		if g.kind != im.kind || g.id != im.id || g.w != im.w || g.h != im.h {
			h.fail("replay-order:"+what, fmt.Sprintf("%s: position %d replays %c#%d, documented order (ascending z, then drawing order) has %c#%d (z=%d)", what, i, g.kind, g.id, im.kind, im.id, l.z))
			return false
		}
		if g.kind == 'P' && !g.sty.eq(im.sty) {
			if g.sty.eqBase(im.sty) && g.sty.Stroke == im.sty.Stroke {
				h.noCorr = "dash-alias"
				h.fail("alias:recorded-dashes-mutated-by-later-call", fmt.Sprintf("%s: layer %d was recorded with dashes %v and is replayed with %v", what, i, im.sty.Dashes, g.sty.Dashes))
			} else {
				h.fail("replay-style:"+what, fmt.Sprintf("%s: layer %d replayed with style %+v, recorded %+v", what, i, g.sty, im.sty))
			}
			return false
		}
		e := view.mul(l.pre).mul(h.expect[l.idx])
		if !e.finite() {
			h.c.Count("oracle-skip:non-finite-layer")
		} else if !e.near(g.m) {
			h.fail("replay-matrix:"+what, fmt.Sprintf("%s: layer %d replayed with matrix %v, documented %v", what, i, g.m, e.v))
			return false
		}
	}
	return true
}

// content of a replayed layer, sampled in its own coordinates (points that carry ink)
// fingerprint of a renderer call without its matrix: object identity and style digest
func fingerprint(k call) string {
	f := fnv.New64a()
	switch k.kind {
	case 'P':
		fmt.Fprintf(f, "P %d %s", k.id, styleTok(k.sty))
	case 'T':
		fmt.Fprintf(f, "T %d", k.id)
	default:
		fmt.Fprintf(f, "I %g %g", k.w, k.h)
	}
	return fmt.Sprint(f.Sum64() >> 1)
}

func (h *hist) content(k call) [][2]float64 {
	var pts [][2]float64
	switch k.kind {
	case 'P':
		segs, err := hc.Decode(k.path.Data())
		if err != nil {
			return nil
		}
		hw := 0.0
		if k.sty.Stroke.has() && 0 < k.sty.Width {
			hw = k.sty.Width / 2
		}
		for _, s := range segs {
			if s.Kind == 'M' {
				continue
			}
			sp := hc.SampleSeg(s, 8)
			for j, p := range sp {
				pts = append(pts, [2]float64{p.X, p.Y})
				if hw > 0 && j > 0 && j < len(sp)-1 {
					// the two outline points of the stroke at an interior sample
					t := sp[j+1].Sub(sp[j-1])
					if l := t.Len(); l > 1e-9 {
						n := hc.P2{X: -t.Y / l, Y: t.X / l}
						pts = append(pts, [2]float64{p.X + hw*n.X, p.Y + hw*n.Y}, [2]float64{p.X - hw*n.X, p.Y - hw*n.Y})
					}
				}
			}
		}
	case 'T':
		b := k.text.Bounds()
		pts = [][2]float64{{b.X0, b.Y0}, {b.X1, b.Y0}, {b.X1, b.Y1}, {b.X0, b.Y1}}
	case 'I':
		pts = [][2]float64{{0, 0}, {k.w, 0}, {k.w, k.h}, {0, k.h}}
	}
	return pts
}

func (h *hist) canvasOp() {
	c := h.c
	switch k := c.Intn(11); {
	case k == 10:
		// nested canvases: replay the canvas into a fresh one, which becomes the Context's target
		m := ident
		if c.Bool() {
			m = genMat(c)
		}
		h.op(fmt.Sprintf("cv2 := New(W,H); cv.RenderViewTo(cv2, %v); continue on cv2", m), "CN", matTok(m))
		W, H := h.cv.Size()
		cv2 := canvas.New(W, H)
		h.cv.RenderViewTo(cv2, canvas.Matrix(m))
		h.cv, h.tee.cv = cv2, cv2
		// documented: the recorded operations in ascending z, then drawing order, each moved by the view;
		// the fresh canvas records all of them under its own z-index 0
		nl := stableByZ(h.layers)
		zs := map[int]bool{}
		for _, l := range nl {
			zs[l.z] = true
		}
		c.Count(fmt.Sprintf("nest:distinct-z-flattened:%d", len(zs)))
		for i := range nl {
			nl[i].z = 0
			nl[i].pre = lift(m).mul(nl[i].pre)
		}
		h.layers, h.z = nl, 0
		c.Count("canvas:nest")
		h.checkReplay("nested RenderViewTo", sIdent, h.replay(canvas.Identity))
	case k < 3:
		m := genMat(c)
		h.op(fmt.Sprintf("Canvas.Transform(%v)", m), "CT", matTok(m))
		h.cv.Transform(canvas.Matrix(m))
		for i := range h.layers {
			h.layers[i].pre = lift(m).mul(h.layers[i].pre)
		}
		c.Count("canvas:transform")
		h.checkReplay("Transform", sIdent, h.replay(canvas.Identity))
	case k < 5:
		x0, y0 := c.GenCoord(), c.GenCoord()
		r := canvas.Rect{X0: x0, Y0: y0, X1: x0 + float64(10+c.Intn(200)), Y1: y0 + float64(10+c.Intn(200))}
		h.op(fmt.Sprintf("Canvas.Clip(%v)", r), "CC", hc.Hs(r.X0, r.Y0, r.X1, r.Y1))
		h.cv.Clip(r)
		for i := range h.layers {
			h.layers[i].pre = lift(eTranslate(-r.X0, -r.Y0)).mul(h.layers[i].pre)
		}
		c.Count("canvas:clip")
		W, H := h.cv.Size()
		if math.Abs(W-(r.X1-r.X0)) > 1e-9 || math.Abs(H-(r.Y1-r.Y0)) > 1e-9 {
			h.fail("clip-size", fmt.Sprintf("Clip(%v) leaves the canvas %gx%g", r, W, H))
		}
		h.checkReplay("Clip", sIdent, h.replay(canvas.Identity))
	case k < 9:
		if c.Chance(0.3) {
			// a solid stroke with clipped miters around a spike, so that Fit meets corners beyond the limit
			h.op("SetStrokeJoiner(#4)", "JOIN", "4")
			h.ctx.SetStrokeJoiner(h.w.joiners[4])
			h.st.style.Join = 4
			h.op("SetDashes(0, [])", "DA", hc.H(0), "0")
			h.ctx.SetDashes(0)
			h.st.style.Off, h.st.style.Dashes = 0, []float64{}
			h.op("SetStrokeColor({200 0 0 255})", "ST", paintTok(sPaint{200, 0, 0, 255, 0, 0}))
			h.ctx.SetStrokeColor(color.RGBA{200, 0, 0, 255})
			h.st.style.Stroke = sPaint{200, 0, 0, 255, 0, 0}
			w := []float64{1, 2, 4}[c.Intn(3)]
			h.op(fmt.Sprintf("SetStrokeWidth(%g)", w), "SW", hc.H(w))
			h.ctx.SetStrokeWidth(w)
			h.st.style.Width = w
			h.checkState("spike scene setters")
			h.force = h.w.spike
			h.drawPath(1)
			h.checkState("DrawPath")
			c.Count("fit:spike-scene")
		}
		margin := []float64{0, 1, 2.5, 10}[c.Intn(4)]
		h.op(fmt.Sprintf("Canvas.Fit(%g)", margin), "CF", hc.H(margin))
		before := h.replay(canvas.Identity)
		if len(before) == 0 {
			c.Count("fit:on-empty-canvas")
		}
		h.cv.Fit(margin)
		after := h.replay(canvas.Identity)
		c.Count("canvas:fit")
		h.checkFit(margin, before, after)
	default:
		h.op("Canvas.Reset()", "CX")
		h.cv.Reset()
		h.layers = nil
		c.Count("canvas:reset")
		h.checkReplay("Reset", sIdent, h.replay(canvas.Identity))
	}
}

// overhang returns points of the stroke outline that lie further than half the stroke width from
// the path: miter tips at line-line corners (only when clearly below the miter limit of 4) and the
// corners of square caps at the ends of open subpaths. Computed from the definition of the joins and
// caps, for solid strokes only (with dashes a corner may fall into a gap).
func (h *hist) overhang(k call) (miter, square, clip [][2]float64) {
	if k.kind != 'P' || !(k.sty.Stroke.has() && 0 < k.sty.Width) || len(k.sty.Dashes) != 0 {
		return
	}
	segs, err := hc.Decode(k.path.Data())
	if err != nil {
		return
	}
	hw := k.sty.Width / 2
	for _, sub := range hc.Subpaths(segs) {
		var ls []hc.Seg
		closed := false
		for _, s := range sub {
			if s.Kind == 'Z' {
				closed = true
			}
			if s.Kind != 'M' {
				ls = append(ls, s)
			}
		}
		dir := func(s hc.Seg, atEnd bool) (hc.P2, hc.P2, bool) { // position and unit direction at an end of a line segment
			if s.Kind != 'L' && s.Kind != 'Z' {
				return hc.P2{}, hc.P2{}, false
			}
			a, b := s.At(0), s.At(1)
			d := b.Sub(a)
			if d.Len() < 1e-6 {
				return hc.P2{}, hc.P2{}, false
			}
			d = d.Mul(1 / d.Len())
			if atEnd {
				return b, d, true
			}
			return a, d, true
		}
		if k.sty.Join == 0 || k.sty.Join == 4 { // MiterJoin / MiterClipJoin (limit 4)
			for i := 0; i+1 < len(ls); i++ {
				v, d0, ok0 := dir(ls[i], true)
				_, d1, ok1 := dir(ls[i+1], false)
				if !ok0 || !ok1 {
					continue
				}
				cross, dot := d0.Cross(d1), d0.Dot(d1)
				if math.Abs(cross) < 1e-3 {
					continue
				}
				ch := math.Sqrt((1 + dot) / 2)                               // cos of half the turning angle
				n0, n1 := hc.P2{X: d0.Y, Y: -d0.X}, hc.P2{X: d1.Y, Y: -d1.X} // right normals = outer side of a left turn
				if cross < 0 {
					n0, n1 = n0.Mul(-1), n1.Mul(-1)
				}
				u := n0.Add(n1)
				u = u.Mul(1 / u.Len())
				switch {
				case ch >= 1/3.5: // clearly below the miter limit of 4: the full tip at hw/cos
					tip := v.Add(u.Mul(hw / ch))
					miter = append(miter, [2]float64{tip.X, tip.Y})
				case k.sty.Join == 4 && ch <= 1/4.5:
					// miter-clip (SVG): the miter is cut perpendicular to the bisector at limit*hw from the
					// vertex; the cut spans the wedge of the two outer offset lines, whose half opening
					// angle at the tip (at hw/cos along the bisector) has tangent cos/sin
					sh := math.Sqrt(1 - ch*ch)
					wcut := (hw/ch - 4*hw) * ch / sh
					perp := hc.P2{X: -u.Y, Y: u.X}
					for _, sg := range []float64{1, -1} {
						q := v.Add(u.Mul(4 * hw)).Add(perp.Mul(sg * wcut))
						clip = append(clip, [2]float64{q.X, q.Y})
					}
				}
				// otherwise at or near the limit: the join may be bevelled (MiterJoin) — within hw
			}
		}
		if k.sty.Cap == 2 && !closed && len(ls) > 0 { // SquareCap
			if a, d, ok := dir(ls[0], false); ok {
				n := hc.P2{X: -d.Y, Y: d.X}
				for _, sg := range []float64{1, -1} {
					q := a.Sub(d.Mul(hw)).Add(n.Mul(sg * hw))
					square = append(square, [2]float64{q.X, q.Y})
				}
			}
			if b, d, ok := dir(ls[len(ls)-1], true); ok {
				n := hc.P2{X: -d.Y, Y: d.X}
				for _, sg := range []float64{1, -1} {
					q := b.Add(d.Mul(hw)).Add(n.Mul(sg * hw))
					square = append(square, [2]float64{q.X, q.Y})
				}
			}
		}
	}
	return
}

// Fit moves all content by one common translation so that it lies inside the canvas with the margin
func (h *hist) checkFit(margin float64, before, after []call) {
	h.c.Evals++
	W, H := h.cv.Size()
	if len(before) != len(after) {
		h.fail("fit-count", "Fit changed the number of layers")
		return
	}
	if h.nonFinite {
		// a non-finite layer (already reported) poisons the bounding box: nothing to judge
		h.c.Count("oracle-skip:fit-with-non-finite-layer")
		nan := lift(mat{{math.NaN(), 0, 0}, {0, 0, 0}})
		for i := range h.layers {
			h.layers[i].pre = nan
		}
		return
	}
	var dx, dy float64
	for i := range after {
		b, a := before[i].m, after[i].m
		scale := 1 + math.Abs(b[0][2]) + math.Abs(b[1][2]) + math.Abs(a[0][2]) + math.Abs(a[1][2])
		if a[0][0] != b[0][0] || a[0][1] != b[0][1] || a[1][0] != b[1][0] || a[1][1] != b[1][1] || after[i].kind != before[i].kind || after[i].id != before[i].id {
			h.fail("fit-consistent", fmt.Sprintf("Fit changed layer %d other than by a translation: %v -> %v", i, b, a))
			return
		}
		ddx, ddy := a[0][2]-b[0][2], a[1][2]-b[1][2]
		if i == 0 {
			dx, dy = ddx, ddy
		} else if math.Abs(ddx-dx) > 1e-9*scale || math.Abs(ddy-dy) > 1e-9*scale {
			h.fail("fit-consistent", fmt.Sprintf("Fit moved layer %d by (%g,%g) and layer 0 by (%g,%g)", i, ddx, ddy, dx, dy))
			return
		}
	}
	for i := range h.layers {
		h.layers[i].pre = lift(eTranslate(dx, dy)).mul(h.layers[i].pre)
	}
	for i, k := range after {
		pts := h.content(k)
		if len(pts) == 0 {
			continue
		}
		// layers thinner than Epsilon carry no visible ink and are documented to be ignored
		minx, maxx, miny, maxy := math.Inf(1), math.Inf(-1), math.Inf(1), math.Inf(-1)
		for _, p := range pts {
			minx, maxx, miny, maxy = math.Min(minx, p[0]), math.Max(maxx, p[0]), math.Min(miny, p[1]), math.Max(maxy, p[1])
		}
		if maxx-minx < 1e-6 || maxy-miny < 1e-6 {
			h.c.Count("oracle-skip:fit-degenerate-layer")
			continue
		}
		m := mat(k.m)
		tol := 1e-7 * (1 + math.Abs(W) + math.Abs(H) + math.Abs(m[0][2]) + math.Abs(m[1][2]))
		for _, p := range pts {
			x, y := m.apply(p[0], p[1])
			if x < margin-tol || x > W-margin+tol || y < margin-tol || y > H-margin+tol {
				h.fail("fit-inside", fmt.Sprintf("after Fit(%g) the canvas is %gx%g but layer %d (%c#%d) has content at (%g,%g)", margin, W, H, i, k.kind, k.id, x, y))
				return
			}
		}
	}
	for i, k := range after {
		miter, square, clip := h.overhang(k)
		m := mat(k.m)
		tol := 1e-7 * (1 + math.Abs(W) + math.Abs(H) + math.Abs(m[0][2]) + math.Abs(m[1][2]))
		outside := func(pts [][2]float64) (float64, float64, bool) {
			for _, p := range pts {
				x, y := m.apply(p[0], p[1])
				if x < margin-tol || x > W-margin+tol || y < margin-tol || y > H-margin+tol {
					return x, y, true
				}
			}
			return 0, 0, false
		}
		if len(miter) > 0 {
			h.c.Count("fit:miter-corners-checked")
		}
		if len(square) > 0 {
			h.c.Count("fit:square-caps-checked")
		}
		if x, y, bad := outside(miter); bad {
			h.fail("fit-inside:miter-join-overhang", fmt.Sprintf("after Fit(%g) the canvas is %gx%g but the miter join of layer %d (path %q, stroke width %g) reaches (%g,%g)", margin, W, H, i, k.path.String(), k.sty.Width, x, y))
			break
		}
		if len(clip) > 0 {
			h.c.Count("fit:miter-clip-corners-checked")
		}
		if x, y, bad := outside(clip); bad {
			h.fail("fit-inside:miter-clip-overhang", fmt.Sprintf("after Fit(%g) the canvas is %gx%g but the clipped miter of layer %d (path %q, stroke width %g, MiterClipJoin) reaches (%g,%g)", margin, W, H, i, k.path.String(), k.sty.Width, x, y))
			break
		}
		if x, y, bad := outside(square); bad {
			h.fail("fit-inside:square-cap-overhang", fmt.Sprintf("after Fit(%g) the canvas is %gx%g but the square cap of layer %d (path %q, stroke width %g) reaches (%g,%g)", margin, W, H, i, k.path.String(), k.sty.Width, x, y))
			break
		}
	}
	h.checkReplay("Fit", sIdent, after)
}

func (h *hist) obs() {
	h.line = append(h.line, "OBS")
	W, H := 0.0, 0.0
	_, _ = W, H
	h.goOut = append(h.goOut, "O", matTok(h.ctx.View()), matTok(h.ctx.CoordView()), matTok(h.ctx.CoordSystemView()), styleTok(h.w.style(h.ctx.Style)))
}

func (h *hist) paintArg(which string) {
	c := h.c
	w := h.w
	var p sPaint
	var human string
	isFill := which == "Fill"
	set := func(x interface{}) {
		if isFill {
			h.ctx.SetFill(x)
		} else {
			h.ctx.SetStroke(x)
		}
	}
	switch c.Intn(9) {
	case 0:
		col := genColor(c)
		p, human = sPaint{col.R, col.G, col.B, col.A, 0, 0}, fmt.Sprintf("Set%sColor(%v)", which, col)
		if isFill {
			h.ctx.SetFillColor(col)
		} else {
			h.ctx.SetStrokeColor(col)
		}
	case 1:
		i := c.Intn(len(w.grads))
		p, human = sPaint{Grad: i + 1}, fmt.Sprintf("Set%sGradient(g%d)", which, i+1)
		if isFill {
			h.ctx.SetFillGradient(w.grads[i])
		} else {
			h.ctx.SetStrokeGradient(w.grads[i])
		}
	case 2:
		i := c.Intn(len(w.pats))
		p, human = sPaint{Pat: i + 1}, fmt.Sprintf("Set%sPattern(p%d)", which, i+1)
		if isFill {
			h.ctx.SetFillPattern(w.pats[i])
		} else {
			h.ctx.SetStrokePattern(w.pats[i])
		}
	case 3, 4:
		col := genColor(c)
		p, human = sPaint{col.R, col.G, col.B, col.A, 0, 0}, fmt.Sprintf("Set%s(%v)", which, col)
		set(col)
	case 5:
		i := c.Intn(len(w.grads))
		p, human = sPaint{Grad: i + 1}, fmt.Sprintf("Set%s(gradient g%d)", which, i+1)
		set(w.grads[i])
	case 6:
		i := c.Intn(len(w.pats))
		p, human = sPaint{Pat: i + 1}, fmt.Sprintf("Set%s(pattern p%d)", which, i+1)
		set(w.pats[i])
	case 7:
		col := genColor(c)
		p, human = sPaint{col.R, col.G, col.B, col.A, 0, 0}, fmt.Sprintf("Set%s(Paint{%v})", which, col)
		set(canvas.Paint{Color: col})
	case 8:
		p, human = sPaint{}, fmt.Sprintf("Set%s(nil)", which)
		set(nil)
	}
	tag := "FI"
	if !isFill {
		tag = "ST"
		h.st.style.Stroke = p
	} else {
		h.st.style.Fill = p
	}
	h.op(human, tag, paintTok(p))
	c.Count("setter:" + which)
}

// one random call; returns the name for the histogram
func (h *hist) randomOp() {
	c := h.c
	r := c.Intn(100)
	switch {
	case r < 8:
		if len(h.stack) < 8 {
			h.op("Push()", "PU")
			h.ctx.Push()
			h.stack = append(h.stack, h.st.clone())
			h.snaps = append(h.snaps, h.snap())
			c.Count(fmt.Sprintf("push depth-%d", len(h.stack)))
			h.checkState("Push")
		}
	case r < 15:
		h.pop()
	case r < 19:
		cs := c.Intn(4)
		h.op(fmt.Sprintf("SetCoordSystem(%d)", cs), "CS", fmt.Sprint(cs))
		h.ctx.SetCoordSystem(canvas.CoordSystem(cs))
		h.st.cs = cs
		c.Count(fmt.Sprintf("coordsystem-%d", cs))
		h.checkState("SetCoordSystem")
	case r < 21:
		m := genMat(c)
		h.op(fmt.Sprintf("SetCoordView(%v)", m), "CV", matTok(m))
		h.ctx.SetCoordView(canvas.Matrix(m))
		h.st.coordView = lift(m)
		c.Count("coord:SetCoordView")
		h.checkState("SetCoordView")
	case r < 24:
		x0, y0 := c.GenCoord(), c.GenCoord()
		rect := canvas.Rect{X0: x0, Y0: y0, X1: x0 + float64(1+c.Intn(100)), Y1: y0 + float64(1+c.Intn(100))}
		w, ht := float64(1+c.Intn(50)), float64(1+c.Intn(50))
		h.op(fmt.Sprintf("SetCoordRect(%v, %g, %g)", rect, w, ht), "CR", hc.Hs(rect.X0, rect.Y0, rect.X1, rect.Y1, w, ht))
		h.ctx.SetCoordRect(rect, w, ht)
		// (0,0)-(w,h) is mapped onto rect
		h.st.coordView = lift(mat{{(rect.X1 - rect.X0) / w, 0, rect.X0}, {0, (rect.Y1 - rect.Y0) / ht, rect.Y0}})
		h.st.coordView.n = 3
		c.Count("coord:SetCoordRect")
		h.checkState("SetCoordRect")
	case r < 48:
		h.viewOp()
	case r < 66:
		h.styleOp()
	case r < 70:
		z := c.Intn(7) - 3
		h.op(fmt.Sprintf("SetZIndex(%d)", z), "Z", fmt.Sprint(z))
		h.ctx.SetZIndex(z)
		h.z = z
		c.Count("zindex")
		h.checkState("SetZIndex")
	case r < 84:
		n := 1
		if c.Chance(0.3) {
			n = 2 + c.Intn(2)
		}
		h.drawPath(n)
		h.checkState("DrawPath")
	case r < 88:
		h.drawText()
		h.checkState("DrawText")
	case r < 92:
		h.drawImage()
		h.checkState("DrawImage")
	case r < 94:
		h.fitImage()
		h.checkState("FitImage")
	case r < 96:
		h.fillStroke()
		h.checkState("Fill/Stroke")
	default:
		h.canvasOp()
		h.checkState("canvas operation")
	}
}

func (h *hist) pop() {
	c := h.c
	h.op("Pop()", "PO")
	pre := h.snap()
	h.ctx.Pop()
	post := h.snap()
	h.c.Evals++
	if len(h.stack) == 0 {
		c.Count("pop-empty")
		if pre.view != post.view || pre.coordView != post.coordView || pre.csv != post.csv || !pre.style.eq(post.style) {
			h.fail("pop-empty", "Pop on an empty stack changed the state")
		}
	} else {
		c.Count("pop")
		want := h.snaps[len(h.snaps)-1]
		h.st = h.stack[len(h.stack)-1]
		h.stack, h.snaps = h.stack[:len(h.stack)-1], h.snaps[:len(h.snaps)-1]
		// the canvas size may have changed in between: compare the coordinate system through the state check
		if want.view != post.view || want.coordView != post.coordView {
			h.fail("push-pop:view", fmt.Sprintf("Pop restored view %v / coordinate view %v, pushed %v / %v", post.view, post.coordView, want.view, want.coordView))
		} else if !want.style.eq(post.style) {
			if want.style.eqBase(post.style) && want.style.Stroke == post.style.Stroke {
				h.noCorr = "dash-alias"
				h.fail("alias:context-dashes-mutated-by-draw", fmt.Sprintf("Pop restored dashes %v, pushed %v (a draw between Push and Pop rewrote the shared dash array)", post.style.Dashes, want.style.Dashes))
				h.st.style.Dashes = append([]float64{}, post.style.Dashes...)
			} else {
				h.fail("push-pop:style", fmt.Sprintf("Pop restored style %+v, pushed %+v", post.style, want.style))
			}
		}
	}
	h.obs()
	h.checkState("Pop")
}

func (h *hist) viewOp() {
	c := h.c
	x, y := c.GenCoord(), c.GenCoord()
	sx, sy := genScale(c), genScale(c)
	rot := float64(c.Intn(24)) * 15
	if c.Bool() {
		rot = math.Round(c.Range(-360, 360)*10) / 10
	}
	sn, cs := math.Sincos(rot * math.Pi / 180.0)
	shx, shy := math.Round(c.Range(-0.7, 0.7)*100)/100, math.Round(c.Range(-0.7, 0.7)*100)/100
	name := ""
	switch c.Intn(15) {
	case 0:
		name = "Translate"
		h.op(fmt.Sprintf("Translate(%s)", fmtF(x, y)), "TR", hc.Hs(x, y))
		h.ctx.Translate(x, y)
		h.compose(name, lift(eTranslate(x, y)))
	case 1:
		name = "ReflectX"
		h.op("ReflectX()", "RX")
		h.ctx.ReflectX()
		h.compose(name, lift(eScale(-1, 1)))
	case 2:
		name = "ReflectY"
		h.op("ReflectY()", "RY")
		h.ctx.ReflectY()
		h.compose(name, lift(eScale(1, -1)))
	case 3:
		name = "ReflectXAbout"
		h.op(fmt.Sprintf("ReflectXAbout(%g)", x), "RXA", hc.H(x))
		h.ctx.ReflectXAbout(x)
		h.compose(name, about(eScale(-1, 1), x, 0))
	case 4:
		name = "ReflectYAbout"
		h.op(fmt.Sprintf("ReflectYAbout(%g)", y), "RYA", hc.H(y))
		h.ctx.ReflectYAbout(y)
		h.compose(name, about(eScale(1, -1), 0, y))
	case 5, 6:
		name = "Rotate"
		h.op(fmt.Sprintf("Rotate(%g)", rot), "RO", hc.Hs(sn, cs))
		h.ctx.Rotate(rot)
		h.compose(name, lift(eRotate(rot)))
	case 7:
		name = "RotateAbout"
		h.op(fmt.Sprintf("RotateAbout(%s)", fmtF(rot, x, y)), "ROA", hc.Hs(sn, cs, x, y))
		h.ctx.RotateAbout(rot, x, y)
		h.compose(name, about(eRotate(rot), x, y))
	case 8:
		name = "Scale"
		h.op(fmt.Sprintf("Scale(%s)", fmtF(sx, sy)), "SC", hc.Hs(sx, sy))
		h.ctx.Scale(sx, sy)
		h.compose(name, lift(eScale(sx, sy)))
	case 9:
		name = "ScaleAbout"
		h.op(fmt.Sprintf("ScaleAbout(%s)", fmtF(sx, sy, x, y)), "SCA", hc.Hs(sx, sy, x, y))
		h.ctx.ScaleAbout(sx, sy, x, y)
		h.compose(name, about(eScale(sx, sy), x, y))
	case 10:
		name = "Shear"
		h.op(fmt.Sprintf("Shear(%s)", fmtF(shx, shy)), "SH", hc.Hs(shx, shy))
		h.ctx.Shear(shx, shy)
		h.compose(name, lift(eShear(shx, shy)))
	case 11:
		name = "ShearAbout"
		h.op(fmt.Sprintf("ShearAbout(%s)", fmtF(shx, shy, x, y)), "SHA", hc.Hs(shx, shy, x, y))
		h.ctx.ShearAbout(shx, shy, x, y)
		h.compose(name, about(eShear(shx, shy), x, y))
	case 12:
		name = "ComposeView"
		m := genMat(c)
		h.op(fmt.Sprintf("ComposeView(%v)", m), "MV", matTok(m))
		h.ctx.ComposeView(canvas.Matrix(m))
		h.compose(name, lift(m))
	case 13:
		name = "SetView"
		m := genMat(c)
		h.op(fmt.Sprintf("SetView(%v)", m), "SV", matTok(m))
		h.ctx.SetView(canvas.Matrix(m))
		h.st.view = lift(m)
	case 14:
		name = "ResetView"
		h.op("ResetView()", "RV")
		h.ctx.ResetView()
		h.st.view = sIdent
	}
	c.Count("view:" + name)
	h.checkState(name)
}

func (h *hist) styleOp() {
	c := h.c
	name := ""
	switch c.Intn(12) {
	case 0, 1:
		name = "SetFill"
		h.paintArg("Fill")
	case 2, 3, 4:
		name = "SetStroke"
		h.paintArg("Stroke")
	case 5:
		name = "SetStrokeWidth"
		w := []float64{0, 0.25, 0.5, 0.5, 1, 2, 4}[c.Intn(7)]
		h.op(fmt.Sprintf("SetStrokeWidth(%g)", w), "SW", hc.H(w))
		h.ctx.SetStrokeWidth(w)
		h.st.style.Width = w
	case 6:
		name = "SetStrokeCapper"
		k := c.Intn(len(h.w.cappers))
		h.op(fmt.Sprintf("SetStrokeCapper(#%d)", k), "CAP", fmt.Sprint(k))
		h.ctx.SetStrokeCapper(h.w.cappers[k])
		h.st.style.Cap = k
	case 7:
		name = "SetStrokeJoiner"
		k := c.Intn(len(h.w.joiners))
		h.op(fmt.Sprintf("SetStrokeJoiner(#%d)", k), "JOIN", fmt.Sprint(k))
		h.ctx.SetStrokeJoiner(h.w.joiners[k])
		h.st.style.Join = k
	case 8, 9:
		name = "SetDashes"
		off, d, kind := genDashes(c)
		toks := []string{"DA", hc.H(off), fmt.Sprint(len(d))}
		for _, x := range d {
			toks = append(toks, hc.H(x))
		}
		h.op(fmt.Sprintf("SetDashes(%g, %v)", off, d), toks...)
		h.st.style.Off, h.st.style.Dashes = off, append([]float64{}, d...)
		h.ctx.SetDashes(off, d...)
		c.Count("dashes:" + kind)
	case 10:
		name = "SetFillRule"
		r := c.Intn(2)
		h.op(fmt.Sprintf("SetFillRule(%d)", r), "FR", fmt.Sprint(r))
		h.ctx.SetFillRule(canvas.FillRule(r))
		h.st.style.Rule = r
	case 11:
		name = "ResetStyle"
		h.op("ResetStyle()", "RS")
		h.ctx.ResetStyle()
		h.st.style = defaultSStyle.clone()
	}
	c.Count("setter:" + name)
	h.checkState(name)
}

func history(c *hc.Ctx) {
	sizes := [][2]float64{{100, 80}, {210, 297}, {57.3, 33.1}, {10, 10}}
	sz := sizes[c.Intn(len(sizes))]
	h := &hist{c: c, w: newWorld(c), W: sz[0], H: sz[1]}
	h.cv = canvas.New(sz[0], sz[1])
	h.tee = &tee{recorder: recorder{w: h.w}, cv: h.cv}
	h.ctx = canvas.NewContext(h.tee)
	h.st = sState{style: defaultSStyle.clone(), view: sIdent, coordView: sIdent}
	final := ident
	if c.Bool() {
		final = genMat(c)
	}
	h.line = []string{"H", hc.H(sz[0]), hc.H(sz[1]), matTok(final)}
	// most histories stroke something and start in a random coordinate system
	if c.Chance(0.7) {
		h.paintArg("Stroke")
		h.checkState("SetStroke")
	}
	if c.Chance(0.7) {
		cs := c.Intn(4)
		h.op(fmt.Sprintf("SetCoordSystem(%d)", cs), "CS", fmt.Sprint(cs))
		h.ctx.SetCoordSystem(canvas.CoordSystem(cs))
		h.st.cs = cs
		h.checkState("SetCoordSystem")
	}
	n := 5 + c.Intn(56)
	if c.Tier != "quick" && c.Chance(0.25) {
		n = 60 + c.Intn(140) // long histories in the thorough/search tiers
	}
	for i := 0; i < n; i++ {
		h.randomOp()
	}
	// probes: the state that is current now, and every state still on the stack, is made visible by a draw
	h.obs()
	h.drawPath(1)
	for len(h.stack) > 0 {
		h.pop()
		h.drawPath(1)
		if c.Bool() {
			h.drawText()
		}
	}
	h.pop() // Pop on the empty stack
	h.drawPath(1)
	h.checkState("final draw")
	got := h.replay(canvas.Matrix(final))
	h.checkReplay("RenderViewTo", lift(final), got)
	h.checkRecorded("RenderViewTo")

	c.Count(fmt.Sprintf("history-calls:%d-%d", len(h.human)/20*20, len(h.human)/20*20+19))
	c.Count(fmt.Sprintf("layers-replayed:%d-%d", len(got)/10*10, len(got)/10*10+9))
	zs := map[int]bool{}
	for _, l := range h.layers {
		zs[l.z] = true
	}
	c.Count(fmt.Sprintf("distinct-z:%d", len(zs)))
	for _, v := range h.verdicts {
		c.Case(v, "!", "replay-order-spec")
	}
	c.Count(fmt.Sprintf("verdict-lines:%d", len(h.verdicts)))
	line := strings.Join(h.line, " ")
	c.Distinct(line)
	if h.noCorr != "" {
		// in-place rewriting of a caller's dash array (findings C15-dash-alias-*, fixed by a6207f9) is outside the
		// value-semantics model; these histories are judged by the oracle only
		c.Count("correspondence-skipped:" + h.noCorr)
		return
	}
	out := append([]string{}, h.goOut...)
	out = append(out, "E", fmt.Sprint(len(h.tee.calls)))
	for _, k := range h.tee.calls {
		out = append(out, k.tok())
	}
	out = append(out, "R", fmt.Sprint(len(got)))
	for _, k := range got {
		out = append(out, k.tok())
	}
	W, H := h.cv.Size()
	out = append(out, "S", hc.H(W), hc.H(H))
	c.Case(line, "=", strings.Join(out, " "))
	if len(c.Samples) < 2 {
		c.Sample(strings.Join(h.human, "; "))
	}
}

func run(c *hc.Ctx) {
	// hc seeds splitmix64 with seed*gamma, so consecutive seeds are the same stream shifted by one
	// draw; jump far ahead so that different seeds give different histories
	for i := uint64(0); i < (c.Seed%64)*3000017; i++ {
		c.U64()
	}
	if c.Only == "" || c.Only == "history" {
		for i := 0; i < c.N; i++ {
			history(c)
		}
	}
	if c.Only == "" || c.Only == "alias" {
		for i := 0; i < c.N/2; i++ {
			aliasProbe(c)
		}
	}
}
