package main

// Aliasing probes for the slice-typed style field Style.Dashes ("A" lines): a random sequence of
// caller allocations, caller writes into its own arrays, SetDashes with sub-slices of those arrays,
// Push/Pop, ResetStyle and DrawPath runs on a real Context over a real Canvas; at every "OB" the
// current dashes (ctx.Style.Dashes, live) and the dashes of every layer the canvas replays are
// observed. The Lean heap model (CanvasModel/C15Heap.lean: slice headers over arrays by identity)
// predicts every observation bit-exactly — including the documented aliasing of the caller's array
// by SetDashes — so any change of who shares which array (a copy added or dropped, a buffer
// reused) is a correspondence break, and the oracle below turns it into a failing input:
//   - a recorded layer never changes, whatever the caller or the library does afterwards;
//   - no Context/Canvas call writes into a caller-owned array;
//   - without caller writes in between, Pop restores the dashes that were pushed.

import (
	"fmt"
	"strings"

	"github.com/tdewolff/canvas"
	"verifharness/hc"
)

func aliasProbe(c *hc.Ctx) {
	cv := canvas.New(100, 100)
	ctx := canvas.NewContext(cv)
	ctx.SetFill(canvas.Transparent)
	ctx.SetStrokeColor(canvas.Red)

	var arrays [][]float64 // caller-owned arrays by model id
	ids := []int{}         // model array id of arrays[i]
	nextID := 1            // id 0 is the array of DefaultStyle.Dashes
	line := []string{"A"}
	human := []string{}
	goOut := []string{}
	type saved struct {
		dashes []float64
		dirty  bool // a caller write happened while this entry was on the stack
	}
	var stack []saved
	var layerCopies [][]float64
	fail := func(kind, desc string) {
		c.Fail(kind, desc, map[string]any{"history": strings.Join(human, "; ")})
	}
	replayed := func() []canvas.Style {
		r := &recorder{w: &world{pathID: map[string]int{}}}
		cv.RenderTo(r)
		out := make([]canvas.Style, len(r.calls))
		for i, k := range r.calls {
			out[i] = k.live
		}
		return out
	}
	checkLayers := func(after string) {
		c.Evals++
		ls := replayed()
		if len(ls) != len(layerCopies) {
			fail("alias:layer-count", fmt.Sprintf("after %s the canvas replays %d layers, %d were recorded", after, len(ls), len(layerCopies)))
			return
		}
		for i := range ls {
			if !dashesEq(ls[i].Dashes, layerCopies[i]) {
				fail("alias:recorded-dashes-mutated-by-later-call", fmt.Sprintf("layer %d was recorded with dashes %v; after %s it replays with %v", i, layerCopies[i], after, ls[i].Dashes))
				layerCopies[i] = append([]float64{}, ls[i].Dashes...)
			}
		}
	}
	snapshotArrays := func() [][]float64 {
		cp := make([][]float64, len(arrays))
		for i := range arrays {
			cp[i] = append([]float64{}, arrays[i]...)
		}
		return cp
	}
	checkArrays := func(before [][]float64, what string) {
		for i := range before {
			if !dashesEq(before[i], arrays[i][:len(before[i])]) {
				fail("alias:library-wrote-caller-array", fmt.Sprintf("%s changed the caller's array #%d from %v to %v", what, ids[i], before[i], arrays[i]))
			}
		}
	}
	obs := func() {
		line = append(line, "OB")
		cur := ctx.Style.Dashes
		toks := []string{"O", fmt.Sprint(len(cur))}
		for _, d := range cur {
			toks = append(toks, hc.H(d))
		}
		ls := replayed()
		toks = append(toks, "L", fmt.Sprint(len(ls)))
		for _, l := range ls {
			toks = append(toks, fmt.Sprint(len(l.Dashes)))
			for _, d := range l.Dashes {
				toks = append(toks, hc.H(d))
			}
			toks = append(toks, hc.B(l.Stroke.Has()))
		}
		goOut = append(goOut, toks...)
	}

	n := 8 + c.Intn(30)
	for step := 0; step < n; step++ {
		before := snapshotArrays()
		what := ""
		switch r := c.Intn(100); {
		case r < 15 || len(arrays) == 0:
			_, d, kind := genDashes(c)
			if len(d) == 0 || c.Chance(0.3) {
				d = []float64{float64(1 + c.Intn(6)), float64(1 + c.Intn(6)), float64(1 + c.Intn(6)), float64(1 + c.Intn(6))}
				kind = "four"
			}
			arrays = append(arrays, d)
			ids = append(ids, nextID)
			nextID++
			toks := []string{"AL", fmt.Sprint(len(d))}
			for _, x := range d {
				toks = append(toks, hc.H(x))
			}
			line = append(line, toks...)
			what = fmt.Sprintf("d%d := %v", ids[len(ids)-1], d)
			before = snapshotArrays()
			c.Count("alias:alloc " + kind)
		case r < 35:
			k := c.Intn(len(arrays))
			if len(arrays[k]) == 0 {
				continue
			}
			i := c.Intn(len(arrays[k]))
			v := float64(c.Intn(9))
			if c.Chance(0.2) {
				v = 0
			}
			arrays[k][i] = v
			line = append(line, "W", fmt.Sprint(ids[k]), fmt.Sprint(i), hc.H(v))
			what = fmt.Sprintf("d%d[%d] = %g", ids[k], i, v)
			before = snapshotArrays()
			for j := range stack {
				stack[j].dirty = true
			}
			c.Count("alias:caller-write")
		case r < 55:
			k := c.Intn(len(arrays))
			lo := c.Intn(len(arrays[k]) + 1)
			ln := c.Intn(len(arrays[k]) - lo + 1)
			if c.Bool() {
				lo, ln = 0, len(arrays[k])
			}
			off := float64(c.Intn(9)) / 2
			ctx.SetDashes(off, arrays[k][lo:lo+ln]...)
			line = append(line, "SD", hc.H(off), fmt.Sprint(ids[k]), fmt.Sprint(lo), fmt.Sprint(ln))
			what = fmt.Sprintf("SetDashes(%g, d%d[%d:%d]...)", off, ids[k], lo, lo+ln)
			c.Count("alias:setdashes")
		case r < 65:
			ctx.Push()
			stack = append(stack, saved{dashes: append([]float64{}, ctx.Style.Dashes...)})
			line = append(line, "PU")
			what = "Push()"
			c.Count("alias:push")
		case r < 75:
			ctx.Pop()
			line = append(line, "PO")
			what = "Pop()"
			if len(stack) > 0 {
				s := stack[len(stack)-1]
				stack = stack[:len(stack)-1]
				c.Evals++
				if !s.dirty && !dashesEq(s.dashes, ctx.Style.Dashes) {
					fail("alias:context-dashes-mutated-by-draw", fmt.Sprintf("Pop restored dashes %v, pushed %v, and the caller wrote to none of its arrays in between", ctx.Style.Dashes, s.dashes))
				}
				c.Count("alias:pop")
			} else {
				c.Count("alias:pop-empty")
			}
		case r < 80:
			ctx.ResetStyle()
			ctx.SetFill(canvas.Transparent)
			ctx.SetStrokeColor(canvas.Red)
			line = append(line, "RS")
			what = "ResetStyle()"
			c.Count("alias:resetstyle")
		default:
			l := float64(1 + c.Intn(40))
			p := &canvas.Path{}
			p.MoveTo(0, 0)
			p.LineTo(l, 0)
			ctx.DrawPath(0, 0, p)
			line = append(line, "DP", hc.H(p.Length()))
			nextID++ // the model allocates the array of the canonical copy
			what = fmt.Sprintf("DrawPath(line of length %g)", l)
			ls := replayed()
			if len(ls) == len(layerCopies)+1 {
				layerCopies = append(layerCopies, append([]float64{}, ls[len(ls)-1].Dashes...))
			}
			c.Count("alias:draw")
		}
		human = append(human, what)
		checkArrays(before, what)
		checkLayers(what)
		if c.Chance(0.4) {
			obs()
		}
	}
	obs()
	l := strings.Join(line, " ")
	c.Distinct(l)
	c.Case(l, "=", strings.Join(goOut, " "))
	if c.Hist["alias:sampled"] == 0 {
		c.Count("alias:sampled")
		c.Sample("aliasing probe: " + strings.Join(human, "; "))
	}
}
