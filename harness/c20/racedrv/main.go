// racedrv: the C20 batch run from 16 goroutines in a binary built with -race.
//
//	racedrv <repo> <batch.json> <out.json>
//
// Race reports go to stderr (GORACE=halt_on_error=0); the results of the calls are written to
// out.json so that the harness can also compare them with the sequential results.
package main

import (
	"encoding/json"
	"fmt"
	"os"

	"verifharness/c20/c20ops"
)

func main() {
	if len(os.Args) != 4 {
		fmt.Fprintln(os.Stderr, "usage: racedrv <repo> <batch.json> <out.json>")
		os.Exit(2)
	}
	env, err := c20ops.NewEnv(os.Args[1])
	if err != nil {
		fmt.Fprintln(os.Stderr, "racedrv:", err)
		os.Exit(2)
	}
	ops, err := c20ops.LoadBatch(os.Args[2])
	if err != nil {
		fmt.Fprintln(os.Stderr, "racedrv:", err)
		os.Exit(2)
	}
	r1 := c20ops.RunConc(env, ops, 16)
	r2 := c20ops.RunConcGC(env, ops, 16)
	b, _ := json.Marshal([][]string{r1, r2})
	os.WriteFile(os.Args[3], b, 0o644)
}
