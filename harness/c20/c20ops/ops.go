// Package c20ops: the batch of independent library calls that property C20 runs sequentially,
// concurrently and after pool pollution. Shared by the harness (plain build) and the race driver
// (the same code built with -race).
package c20ops

import (
	"bytes"
	"crypto/sha256"
	"encoding/binary"
	"encoding/hex"
	"encoding/json"
	"fmt"
	"math"
	"os"
	"path/filepath"
	"regexp"
	"runtime"
	"strings"
	"sync"

	"github.com/tdewolff/canvas"
	"github.com/tdewolff/canvas/renderers/pdf"
	"github.com/tdewolff/canvas/renderers/ps"
	"github.com/tdewolff/canvas/renderers/rasterizer"
	"github.com/tdewolff/canvas/renderers/svg"
)

type Op struct {
	Kind string    `json:"kind"`
	A    []float64 `json:"a,omitempty"` // path data (raw, bit-exact)
	B    []float64 `json:"b,omitempty"`
	F    []float64 `json:"f,omitempty"` // numeric parameters
	S    string    `json:"s,omitempty"` // text
}

// MarshalJSON keeps float64 bit patterns (NaN-free inputs; hex for exactness).
type opWire struct {
	Kind string   `json:"kind"`
	A    []uint64 `json:"a,omitempty"`
	B    []uint64 `json:"b,omitempty"`
	F    []uint64 `json:"f,omitempty"`
	S    string   `json:"s,omitempty"`
}

func bits(f []float64) []uint64 {
	r := make([]uint64, len(f))
	for i, x := range f {
		r[i] = math.Float64bits(x)
	}
	return r
}
func unbits(u []uint64) []float64 {
	r := make([]float64, len(u))
	for i, x := range u {
		r[i] = math.Float64frombits(x)
	}
	return r
}

func SaveBatch(file string, ops []Op) error {
	w := make([]opWire, len(ops))
	for i, o := range ops {
		w[i] = opWire{o.Kind, bits(o.A), bits(o.B), bits(o.F), o.S}
	}
	b, err := json.Marshal(w)
	if err != nil {
		return err
	}
	return os.WriteFile(file, b, 0o644)
}

func LoadBatch(file string) ([]Op, error) {
	b, err := os.ReadFile(file)
	if err != nil {
		return nil, err
	}
	var w []opWire
	if err := json.Unmarshal(b, &w); err != nil {
		return nil, err
	}
	ops := make([]Op, len(w))
	for i, o := range w {
		ops[i] = Op{o.Kind, unbits(o.A), unbits(o.B), unbits(o.F), o.S}
	}
	return ops, nil
}

// Env: what the calls share — ONE loaded font family (the property's "shared loaded font").
type Env struct {
	TextFamily *canvas.FontFamily // the font the RichText layouts use: the SAME shared family the renderers embed (RunFresh swaps in a fresh copy)
	CFF        *canvas.FontFamily // a second shared font with CFF outlines (EBGaramond), embedded by some Render calls
	Family    *canvas.FontFamily
	FontBytes []byte // a named font (DejaVuSerif)
	Noname    []byte // the same font with name records 1, 4, 6 renumbered: LoadFont takes the nonameFonts path
}

func NewEnv(repo string) (*Env, error) {
	b, err := os.ReadFile(filepath.Join(repo, "resources", "DejaVuSerif.ttf"))
	if err != nil {
		return nil, err
	}
	fam := canvas.NewFontFamily("dejavu")
	if err := fam.LoadFont(b, 0, canvas.FontRegular); err != nil {
		return nil, err
	}
	e := &Env{Family: fam, FontBytes: b}
	e.TextFamily = fam
	cff, err := os.ReadFile(filepath.Join(repo, "resources", "EBGaramond12-Regular.otf"))
	if err != nil {
		return nil, err
	}
	e.CFF = canvas.NewFontFamily("ebgaramond")
	if err := e.CFF.LoadFont(cff, 0, canvas.FontRegular); err != nil {
		return nil, err
	}
	e.Noname = StripNames(b)
	return e, nil
}

// FreshFamily loads a copy of the font that nothing else has used.
func FreshFamily(b []byte) (*canvas.FontFamily, error) {
	fam := canvas.NewFontFamily("dejavu-text")
	if err := fam.LoadFont(b, 0, canvas.FontRegular); err != nil {
		return nil, err
	}
	return fam, nil
}

// RunFresh runs a layout call with a freshly loaded copy of the font: the result of the call ALONE.
func (op Op) RunFresh(env *Env) string {
	fam, err := FreshFamily(env.FontBytes)
	if err != nil {
		return "error: " + err.Error()
	}
	e := *env
	e.TextFamily = fam
	return op.Run(&e)
}

// StripNames returns a copy of an SFNT font in which the name IDs 1, 4 and 6 are renumbered to
// unused IDs, so that the font has no family/full/PostScript name.
func StripNames(b []byte) []byte {
	c := append([]byte(nil), b...)
	if len(c) < 12 {
		return c
	}
	n := int(binary.BigEndian.Uint16(c[4:]))
	for i := 0; i < n; i++ {
		rec := c[12+16*i:]
		if string(rec[:4]) == "name" {
			off := int(binary.BigEndian.Uint32(rec[8:]))
			cnt := int(binary.BigEndian.Uint16(c[off+2:]))
			for k := 0; k < cnt; k++ {
				p := off + 6 + 12*k + 6
				id := binary.BigEndian.Uint16(c[p:])
				if id == 1 || id == 4 || id == 6 {
					binary.BigEndian.PutUint16(c[p:], 300+id)
				}
			}
		}
	}
	return c
}

func hexData(d []float64) string {
	var sb bytes.Buffer
	for i, f := range d {
		if i > 0 {
			sb.WriteByte(' ')
		}
		fmt.Fprintf(&sb, "%016x", math.Float64bits(f))
	}
	return sb.String()
}

func sum(b []byte) string {
	h := sha256.Sum256(b)
	return hex.EncodeToString(h[:12])
}

var psDate = regexp.MustCompile(`(?m)^%%CreationDate:.*$`)
var pdfStream = regexp.MustCompile(`(?s)(<<[^>]*>>)\s*stream\r?\n(.*?)endstream`)

// normPDF keeps what the call determines: every uncompressed stream (page contents, ToUnicode
// CMaps) with its dictionary. The embedded font programs are always Flate-compressed and carry the
// wall-clock time of writing in their head table (so do the cross-reference offsets after them and
// the creation date): they are reduced to a marker.
func normPDF(b []byte) []byte {
	var out bytes.Buffer
	for _, m := range pdfStream.FindAllSubmatch(b, -1) {
		if bytes.Contains(m[1], []byte("FlateDecode")) {
			out.WriteString("FLATE\n")
		} else {
			out.Write(m[1])
			out.Write(m[2])
		}
	}
	return out.Bytes()
}

func path(d []float64) *canvas.Path { return canvas.VerifC20PathFromData(d) }

var caps = []canvas.Capper{canvas.ButtCap, canvas.RoundCap, canvas.SquareCap}
var joins = []canvas.Joiner{canvas.BevelJoin, canvas.RoundJoin, canvas.MiterJoin}

// Run executes one call on fresh copies of its inputs and returns a canonical text of the result
// (path data as hex, hashes of rendered bytes). Panics are part of the result.
func (op Op) Run(env *Env) (res string) {
	defer func() {
		if r := recover(); r != nil {
			res = "panic: " + fmt.Sprint(r)
		}
	}()
	switch op.Kind {
	case "And":
		return hexData(path(op.A).And(path(op.B)).Data())
	case "Or":
		return hexData(path(op.A).Or(path(op.B)).Data())
	case "Xor":
		return hexData(path(op.A).Xor(path(op.B)).Data())
	case "Not":
		return hexData(path(op.A).Not(path(op.B)).Data())
	case "DivideBy":
		return hexData(path(op.A).DivideBy(path(op.B)).Data())
	case "Settle":
		return hexData(path(op.A).Settle(canvas.FillRule(int(op.F[0]))).Data())
	case "Stroke":
		return hexData(path(op.A).Stroke(op.F[0], caps[int(op.F[1])], joins[int(op.F[2])], op.F[3]).Data())
	case "Offset":
		return hexData(path(op.A).Offset(op.F[0], op.F[1]).Data())
	case "Flatten":
		return hexData(path(op.A).Flatten(op.F[0]).Data())
	case "Dash":
		d := append([]float64(nil), op.F[1:]...)
		return hexData(path(op.A).Dash(op.F[0], d...).Data())
	case "TextBox":
		face := env.Family.Face(op.F[0], canvas.Black, canvas.FontRegular, canvas.FontNormal)
		t := canvas.NewTextBox(face, op.S, op.F[1], op.F[2], canvas.TextAlign(int(op.F[3])), canvas.TextAlign(int(op.F[4])), 0, 0)
		b := t.Bounds()
		c := canvas.New(60, 60)
		ctx := canvas.NewContext(c)
		ctx.DrawText(5, 55, t)
		var buf bytes.Buffer
		r := svg.New(&buf, 60, 60, &svg.Options{EmbedFonts: false, SubsetFonts: false})
		c.RenderTo(r)
		r.Close()
		return hexData([]float64{b.X0, b.Y0, b.X1, b.Y1}) + " svg:" + sum(buf.Bytes())
	case "Render":
		c := canvas.New(40, 40)
		ctx := canvas.NewContext(c)
		ctx.SetFillColor(canvas.Steelblue)
		ctx.SetStrokeColor(canvas.Black)
		ctx.SetStrokeWidth(op.F[0])
		ctx.DrawPath(20, 20, path(op.A))
		fam := env.Family
		if len(op.F) > 2 && op.F[2] == 1 {
			fam = env.CFF
		}
		face := fam.Face(op.F[1], canvas.Black, canvas.FontRegular, canvas.FontNormal)
		ctx.DrawText(2, 30, canvas.NewTextLine(face, op.S, canvas.Left))
		img := rasterizer.Draw(c, canvas.DPMM(2), canvas.DefaultColorSpace)
		out := "png:" + sum(img.Pix)
		var b1, b2, b3 bytes.Buffer
		// the embedded font program carries the time of writing: compare the SVG without embedding
		// byte for byte and the embedding one by length
		s := svg.New(&b1, 40, 40, &svg.Options{EmbedFonts: false, SizeUnits: "mm"})
		c.RenderTo(s)
		s.Close()
		out += " svg:" + sum(b1.Bytes())
		b1.Reset()
		s = svg.New(&b1, 40, 40, &svg.Options{EmbedFonts: true, SubsetFonts: len(op.F) > 3 && op.F[3] == 1, SizeUnits: "mm"})
		c.RenderTo(s)
		s.Close()
		out += fmt.Sprintf(" svgembed:%d", b1.Len())
		p := pdf.New(&b2, 40, 40, &pdf.Options{Compress: false, SubsetFonts: true, ImageEncoding: canvas.Lossless})
		c.RenderTo(p)
		p.Close()
		out += " pdf:" + sum(normPDF(b2.Bytes()))
		e := ps.New(&b3, 40, 40, nil)
		c.RenderTo(e)
		e.Close()
		out += " ps:" + sum(psDate.ReplaceAll(b3.Bytes(), nil))
		return out
	case "RichText":
		// S = runs "face:text" separated by \x1f; F = [size, writing mode, width, height, halign]
		faces := []*canvas.FontFace{
			env.TextFamily.Face(op.F[0], canvas.Black, canvas.FontRegular, canvas.FontNormal),
			env.TextFamily.Face(op.F[0], canvas.Red, canvas.FontRegular, canvas.FontNormal),
			env.TextFamily.Face(op.F[0]*1.5, canvas.Black, canvas.FontRegular, canvas.FontNormal),
		}
		rt := canvas.NewRichText(faces[0])
		rt.SetWritingMode(canvas.WritingMode(int(op.F[1])))
		for _, run := range strings.Split(op.S, "\x1f") {
			rt.WriteFace(faces[int(run[0]-'0')], run[2:])
		}
		return canvas.VerifC20DumpText(rt.ToText(op.F[2], op.F[3], canvas.TextAlign(int(op.F[4])), canvas.Top, 0, 0))
	case "SharedFontState":
		// observable state of the ONE shared loaded font
		f := env.Family.Face(10, canvas.Black, canvas.FontRegular, canvas.FontNormal).Font
		g := env.CFF.Face(10, canvas.Black, canvas.FontRegular, canvas.FontNormal).Font
		return fmt.Sprintf("NumGlyphs=%d NumberOfHMetrics=%d IndexToLocFormat=%d cff:NumGlyphs=%d NumberOfHMetrics=%d GlyphName(A)=%q", f.NumGlyphs(), f.Hhea.NumberOfHMetrics, f.Head.IndexToLocFormat,
			g.NumGlyphs(), g.Hhea.NumberOfHMetrics, g.GlyphName(g.GlyphIndex('A')))
	case "LoadFont":
		f, err := canvas.LoadFont(env.FontBytes, 0, canvas.FontRegular)
		if err != nil {
			return "error: " + err.Error()
		}
		return f.Name() + " " + fmt.Sprint(f.NumGlyphs())
	case "LoadNoname":
		// the unnamed-font path: result deliberately excludes the generated name (f<counter>)
		f, err := canvas.LoadFont(env.Noname, 0, canvas.FontRegular)
		if err != nil {
			return "error: " + err.Error()
		}
		return fmt.Sprint(f.NumGlyphs())
	case "FindSystemFont":
		_, ok := canvas.FindSystemFont(op.S, canvas.FontRegular)
		return fmt.Sprint(ok)
	}
	return "unknown op " + op.Kind
}

// RunSeq runs the batch on one goroutine in the given order.
func RunSeq(env *Env, ops []Op, order []int) []string {
	res := make([]string, len(ops))
	for _, i := range order {
		res[i] = ops[i].Run(env)
	}
	return res
}

// RunConc runs every call of the batch once, spread over g goroutines that start together.
// The split is static (goroutine k runs calls k, k+g, …): a shared work counter would be an atomic
// and order the calls of different goroutines by happens-before, hiding races from the detector.
func RunConc(env *Env, ops []Op, g int) []string { return runConc(env, ops, g, false) }

// RunConcGC does the same while one more goroutine forces garbage collections: a collection empties
// the per-processor parts of the sync.Pools, so goroutines take recycled objects from each other
// much more often (an object that was released too early is then really handed to someone else).
func RunConcGC(env *Env, ops []Op, g int) []string { return runConc(env, ops, g, true) }

func runConc(env *Env, ops []Op, g int, gc bool) []string {
	res := make([]string, len(ops))
	var wg sync.WaitGroup
	start := make(chan struct{})
	stop := make(chan struct{})
	gcDone := make(chan struct{})
	go func() {
		defer close(gcDone)
		if !gc {
			return
		}
		<-start
		for {
			select {
			case <-stop:
				return
			default:
				runtime.GC()
			}
		}
	}()
	for k := 0; k < g; k++ {
		wg.Add(1)
		go func(k int) {
			defer wg.Done()
			<-start
			for i := k; i < len(ops); i += g {
				res[i] = ops[i].Run(env)
				runtime.Gosched()
			}
		}(k)
	}
	close(start)
	wg.Wait()
	close(stop)
	<-gcDone
	return res
}
