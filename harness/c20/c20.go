// C20 harness: (1) ties of the extracted facts to the compiled code (struct field lists by reflection,
// every pool.Get site exercised on a pool filled with junk), (2) the executable happens-before model
// against an independent vector-clock detector on generated traces, (3) refinement of the property on
// the real code: the same batch of calls sequentially, in reverse order, from 16 goroutines and after
// pool pollution must give byte-identical results, and a -race build of the batch must report no data
// race (each report is judged against the extracted table by the Lean driver).
package main

import (
	"bytes"
	"crypto/sha256"
	"encoding/hex"
	"encoding/json"
	"fmt"
	"os"
	"os/exec"
	"path/filepath"
	"regexp"
	"runtime"
	"runtime/debug"
	"sort"
	"strings"
	"time"

	"github.com/tdewolff/canvas"
	"verifharness/c20/c20ops"
	"verifharness/hc"
)

func main() { hc.Main("C20", run) }

type dirs struct{ verif, out, repo, run string }

func locate() dirs {
	d := dirs{run: os.Args[4]}
	d.out = filepath.Dir(filepath.Dir(filepath.Clean(d.run)))
	if abs, err := filepath.Abs(d.out); err == nil {
		d.out = abs
	}
	d.verif = "/verif"
	if s := os.Getenv("VERIF_SPEC"); s != "" {
		d.verif = filepath.Dir(filepath.Dir(filepath.Dir(s)))
	}
	d.repo = os.Getenv("VERIF_REPO")
	if d.repo == "" {
		if b, err := os.ReadFile(filepath.Join(d.out, "mod", "go.mod")); err == nil {
			if m := regexp.MustCompile(`(?m)^replace github.com/tdewolff/canvas => (\S+)`).FindSubmatch(b); m != nil {
				d.repo = string(m[1])
			}
		}
	}
	if d.repo == "" {
		d.repo = "/repo"
	}
	return d
}

func run(c *hc.Ctx) {
	d := locate()
	env, err := c20ops.NewEnv(d.repo)
	if err != nil {
		c.Fail("setup", "cannot load the shared font: "+err.Error(), nil)
		return
	}
	if c.Only == "auditchild" {
		putAuditChild(c, env)
		return
	}
	// watchdog: a call that neither returns nor allocates (a sweep looping on corrupted objects) would
	// keep the harness busy for hours; after 6 minutes without a finished phase the process gives up
	progress := make(chan struct{}, 16)
	go func() {
		for {
			select {
			case <-progress:
			case <-time.After(6 * time.Minute):
				fmt.Fprintln(os.Stderr, "C20 harness: no phase finished for 6 minutes (a library call does not return); giving up")
				os.Exit(3)
			}
		}
	}()
	tick := func() { progress <- struct{}{} }
	if c.Only == "" || c.Only == "facts" {
		factsCorr(c)
	}
	if c.Only == "" || c.Only == "trace" {
		traceCorr(c)
	}
	tick()
	ops := genBatch(c, c.N)
	c20ops.SaveBatch(filepath.Join(d.run, "batch.json"), ops) // for replay by hand
	// the audit runs first and in child processes: when objects are Put twice the pools hand one object
	// to two owners and every later in-process phase would run on corrupted objects (and may not return)
	if c.Only == "" || c.Only == "audit" {
		putAudit(c, d)
		tick()
		if c.Hist["FAIL:pool:double-put:SweepPoint"]+c.Hist["FAIL:pool:double-put:SweepNode"]+c.Hist["FAIL:pool:double-put:toleranceSquare"] > 0 {
			c.Count("skipped-in-process-phases-after-double-put")
			return
		}
	}
	if c.Only == "" || c.Only == "det" {
		determinism(c, env, ops)
		tick()
	}
	if c.Only == "" || c.Only == "race" {
		raceRun(c, d, env, ops)
	}
}

// ---- (1) facts vs. the compiled code -----------------------------------------------------------

var getSites = [][2]string{{"SweepStatus.newNode", "n"}, {"SweepEvents.AddPathEndpoints", "a"}, {"SweepEvents.AddPathEndpoints", "b"},
	{"SweepPoint.SplitAt", "r"}, {"SweepPoint.SplitAt", "l"}, {"toleranceSquares.Add", "square"}}

func factsCorr(c *hc.Ctx) {
	for _, t := range []string{"SweepPoint", "SweepNode", "toleranceSquare"} {
		c.Case("FIELDS "+t, "=", strings.Join(canvas.VerifC20StructFields(t), " "))
		c.Count("facts:fields")
	}
	c.Case("GETSITES", "=", fmt.Sprint(len(getSites)))
	for _, s := range getSites {
		var typ string
		var fields []string
		var vals [2][]string
		ok := true
		for variant := 0; variant < 2; variant++ {
			rec := false
			for try := 0; try < 40 && !rec; try++ {
				var f, v []string
				typ, f, v, rec = canvas.VerifC20GetSite(s[0], s[1], variant)
				fields, vals[variant] = f, v
			}
			if !rec {
				ok = false
			}
		}
		if !ok || len(vals[0]) != len(vals[1]) {
			c.Count("facts:getsite-not-recycled")
			continue
		}
		c.Evals++
		c.Count("facts:getsite-recycled")
		// raw observation: per field the normalised value after the site under junk filling 0 and 1;
		// the Lean driver decides (a field whose two values differ kept what the pool held) and
		// confronts the observation with its own verdict on the extracted statement sequence
		var parts []string
		for i, f := range fields {
			parts = append(parts, f+"="+vals[0][i]+"|"+vals[1][i])
		}
		c.Case("GETOBS "+s[0]+" "+s[1]+" "+typ+" "+strings.Join(parts, " "), "!", "pool")
		c.Distinct("get:" + s[0] + s[1])
	}
}

// ---- (2) executable HB model vs. vector clocks --------------------------------------------------

type ev struct {
	t    int
	kind byte // r w l u g p o a
	name string
	v    int
}

func (e ev) tok() string {
	switch e.kind {
	case 'g', 'p':
		return fmt.Sprintf("%d:%c.%s.%d", e.t, e.kind, e.name, e.v)
	}
	return fmt.Sprintf("%d:%c.%s", e.t, e.kind, e.name)
}

// fixed protection of the generated worlds: x by mutex m, y by ownership of pooled object (p,1),
// z by once o (body o = [z]), w read-only, c only through atomic operations (kind 'a').
func genTrace(c *hc.Ctx, disciplined bool) []ev {
	nt := 2 + c.Intn(3)
	n := 6 + c.Intn(18)
	holder := map[string]int{} // token -> thread+1
	onceDone := map[int]bool{} // thread has called onceDo o
	var tr []ev
	for len(tr) < n {
		t := c.Intn(nt)
		holds := func(tok string) bool { return holder[tok] == t+1 }
		switch c.Intn(10) {
		case 9: // c
			if disciplined || c.Chance(0.7) {
				tr = append(tr, ev{t, 'a', "c", 0})
			} else {
				k := byte('r')
				if c.Bool() {
					k = 'w'
				}
				tr = append(tr, ev{t, k, "c", 0})
			}
		case 0: // lock/unlock m
			if holds("m") {
				tr = append(tr, ev{t, 'u', "m", 0})
				holder["m"] = 0
			} else if holder["m"] == 0 {
				tr = append(tr, ev{t, 'l', "m", 0})
				holder["m"] = t + 1
			}
		case 1: // pool object 1 of p
			if holds("p1") {
				tr = append(tr, ev{t, 'p', "p", 1})
				holder["p1"] = 0
			} else if holder["p1"] == 0 {
				tr = append(tr, ev{t, 'g', "p", 1})
				holder["p1"] = t + 1
			}
		case 2:
			tr = append(tr, ev{t, 'o', "o", 0})
			onceDone[t] = true
		case 3, 4: // x
			if !disciplined || holds("m") {
				k := byte('r')
				if c.Bool() {
					k = 'w'
				}
				tr = append(tr, ev{t, k, "x", 0})
			}
		case 5, 6: // y
			if !disciplined || holds("p1") {
				k := byte('r')
				if c.Bool() {
					k = 'w'
				}
				tr = append(tr, ev{t, k, "y", 0})
			}
		case 7: // z
			if !disciplined {
				k := byte('r')
				if c.Chance(0.2) {
					k = 'w'
				}
				tr = append(tr, ev{t, k, "z", 0})
			} else if onceDone[t] {
				tr = append(tr, ev{t, 'r', "z", 0})
			}
		case 8: // w
			if !disciplined || c.Chance(0.9) {
				tr = append(tr, ev{t, 'r', "w", 0})
			}
			if !disciplined && c.Chance(0.1) {
				tr = append(tr, ev{t, 'w', "w", 0})
			}
		}
	}
	return tr
}

// vector-clock detector (independent of the Lean closure computation)
func vcRaces(tr []ev, nt int) (races []string, obeys map[string]bool) {
	clock := make([][]int, nt)
	for i := range clock {
		clock[i] = make([]int, nt)
	}
	join := func(a, b []int) {
		for i := range a {
			if b[i] > a[i] {
				a[i] = b[i]
			}
		}
	}
	rel := map[string][]int{}
	var onceVC []int
	type acc struct {
		idx, t, clk int
		write       bool
		x           string
		atomic      bool
	}
	var accs []acc
	snap := make([][]int, len(tr))
	held := make([]map[string]bool, nt)
	onceBy := make([]bool, nt)
	for i := range held {
		held[i] = map[string]bool{}
	}
	obeys = map[string]bool{"x": true, "y": true, "z": true, "w": true, "c": true}
	for j, e := range tr {
		C := clock[e.t]
		C[e.t]++
		tokName := e.name
		if e.kind == 'g' || e.kind == 'p' {
			tokName = fmt.Sprintf("%s%d", e.name, e.v)
		}
		switch e.kind {
		case 'l', 'g':
			if L, ok := rel[tokName]; ok {
				join(C, L)
			}
			held[e.t][tokName] = true
		case 'o':
			if onceVC != nil {
				join(C, onceVC)
			}
			onceBy[e.t] = true
		}
		snap[j] = append([]int(nil), C...)
		switch e.kind {
		case 'u', 'p':
			L, ok := rel[tokName]
			if !ok {
				L = make([]int, nt)
				rel[tokName] = L
			}
			join(L, C)
			held[e.t][tokName] = false
		case 'o':
			if onceVC == nil {
				onceVC = append([]int(nil), C...)
				accs = append(accs, acc{j, e.t, C[e.t], true, "z", false})
			}
		case 'a':
			// an atomic operation: counts as a write, synchronises with nothing in the model
			accs = append(accs, acc{j, e.t, C[e.t], true, e.name, true})
			if e.name != "c" {
				obeys[e.name] = false
			}
		case 'r', 'w':
			accs = append(accs, acc{j, e.t, C[e.t], e.kind == 'w', e.name, false})
			switch e.name {
			case "c":
				obeys["c"] = false
			case "x":
				if !held[e.t]["m"] {
					obeys["x"] = false
				}
			case "y":
				if !held[e.t]["p1"] {
					obeys["y"] = false
				}
			case "z":
				if e.kind == 'w' || !onceBy[e.t] {
					obeys["z"] = false
				}
			case "w":
				if e.kind == 'w' {
					obeys["w"] = false
				}
			}
		}
	}
	for b := range accs {
		for a := 0; a < b; a++ {
			p, q := accs[a], accs[b]
			if p.x != q.x || p.t == q.t || !(p.write || q.write) || (p.atomic && q.atomic) {
				continue
			}
			if snap[q.idx][p.t] >= p.clk {
				continue
			}
			races = append(races, fmt.Sprintf("%d:%d:%s", p.idx, q.idx, p.x))
		}
	}
	sort.Slice(races, func(i, j int) bool {
		var a1, a2, b1, b2 int
		var s1, s2 string
		fmt.Sscanf(strings.ReplaceAll(races[i], ":", " "), "%d %d %s", &a1, &a2, &s1)
		fmt.Sscanf(strings.ReplaceAll(races[j], ":", " "), "%d %d %s", &b1, &b2, &s2)
		if a2 != b2 {
			return a2 < b2
		}
		if a1 != b1 {
			return a1 < b1
		}
		return s1 < s2
	})
	return
}

func traceCorr(c *hc.Ctx) {
	n := c.N / 2
	if n < 60 {
		n = 60
	}
	for it := 0; it < n; it++ {
		disc := c.Chance(0.5)
		tr := genTrace(c, disc)
		nt := 0
		var toks []string
		for _, e := range tr {
			if e.t+1 > nt {
				nt = e.t + 1
			}
			toks = append(toks, e.tok())
		}
		races, obeys := vcRaces(tr, nt)
		all := obeys["x"] && obeys["y"] && obeys["z"] && obeys["w"] && obeys["c"]
		if disc && !all {
			c.Fail("harness-bug:disciplined-generator", "disciplined trace does not obey", strings.Join(toks, " "))
		}
		if all && len(races) > 0 {
			// contradicts theorem lockset_drf unless the Go detector is wrong
			c.Fail("model:lockset-theorem-contradicted", "disciplined well-formed trace with a race according to vector clocks: "+strings.Join(races, ","), strings.Join(toks, " "))
		}
		if all {
			c.Count("trace:disciplined")
		} else if len(races) > 0 {
			c.Count("trace:undisciplined-racy")
		} else {
			c.Count("trace:undisciplined-racefree")
		}
		rs := "-"
		if len(races) > 0 {
			rs = strings.Join(races, ",")
		}
		c.Case("TRACE "+strings.Join(toks, " "), "=", fmt.Sprintf("wf=1 obeys=%s%s%s%s%s races=%s", hc.B(obeys["x"]), hc.B(obeys["y"]), hc.B(obeys["z"]), hc.B(obeys["w"]), hc.B(obeys["c"]), rs))
		c.Distinct("trace:" + strings.Join(toks, " "))
	}
}

// ---- (3) the batch ------------------------------------------------------------------------------

var words = []string{"Lorem", "ipsum", "dolor", "sit", "amet,", "consectetur", "adipiscing", "elit.", "Wavy", "AV", "fi", "office", "Tj"}

func genText(c *hc.Ctx) string {
	var w []string
	for i := 0; i < 2+c.Intn(10); i++ {
		w = append(w, words[c.Intn(len(words))])
	}
	return strings.Join(w, " ")
}

// nested: operands whose RESULT has nested contours (plates with n x n holes, concentric rings): only
// for those does the result tracer walk the prev chains down to segments of squares finished long
// before, so only those expose objects that went back to a pool too early.
func plate(n int, dx float64) (outer, holes *canvas.Path) {
	w := 3*float64(n) + 1
	outer = canvas.Rectangle(w, w).Translate(dx, 0)
	holes = &canvas.Path{}
	for i := 0; i < n; i++ {
		for j := 0; j < n; j++ {
			x, y := dx+1+3*float64(i), 1+3*float64(j)
			holes.MoveTo(x, y)
			holes.LineTo(x+2, y)
			holes.LineTo(x+2, y+2)
			holes.LineTo(x, y+2)
			holes.Close()
		}
	}
	return
}

// plateWithHoles: the plate as one path, outer contour counter clockwise, holes clockwise (built by
// hand: the generator must not depend on the operations under test)
func plateWithHoles(n int, dx float64) *canvas.Path {
	w := 3*float64(n) + 1
	p := canvas.Rectangle(w, w).Translate(dx, 0)
	for i := 0; i < n; i++ {
		for j := 0; j < n; j++ {
			x, y := dx+1+3*float64(i), 1+3*float64(j)
			p.MoveTo(x, y)
			p.LineTo(x, y+2)
			p.LineTo(x+2, y+2)
			p.LineTo(x+2, y)
			p.Close()
		}
	}
	return p
}

func genNested(c *hc.Ctx) c20ops.Op {
	data := func(p *canvas.Path) []float64 { return append([]float64(nil), p.Data()...) }
	n := 1 + c.Intn(9)
	if c.Chance(0.15) {
		n = 10 + c.Intn(9)
	}
	dx := float64(c.Intn(8)) * 0.5
	outer, holes := plate(n, dx)
	switch c.Intn(5) {
	case 0:
		c.Count("nested:plate-settle")
		return c20ops.Op{Kind: "Settle", A: data(outer.Append(holes)), F: []float64{float64(canvas.EvenOdd)}}
	case 1:
		c.Count("nested:plate-not-holes")
		return c20ops.Op{Kind: "Not", A: data(outer), B: data(holes)}
	case 2:
		c.Count("nested:plate-xor-shifted")
		return c20ops.Op{Kind: "Xor", A: data(plateWithHoles(n, dx)), B: data(plateWithHoles(n, dx+1.5))}
	case 3:
		c.Count("nested:rings")
		p := &canvas.Path{}
		k := 2 + c.Intn(7)
		for i := 0; i < k; i++ {
			s := float64(2*(k-i)) + dx
			p = p.Append(canvas.Rectangle(s, s).Translate(-s/2, -s/2))
		}
		return c20ops.Op{Kind: "Settle", A: data(p), F: []float64{float64(canvas.EvenOdd)}}
	default:
		c.Count("nested:plate-or-islands")
		_, islands := plate(n, dx+0.5)
		return c20ops.Op{Kind: "Or", A: data(plateWithHoles(n, dx)), B: data(islands.Scale(0.3, 0.3).Translate(0.7*dx, 0))}
	}
}

var ltrWords = []string{"Hello", "world", "office", "AVATAR", "fi", "Tj", "Wavy", "lorem", "ipsum"}
var rtlWords = []string{"שלום", "עולם", "سلام", "مرحبا", "אב"}

// genRich: layouts whose shaping result is post-processed by ToText (cluster offsets of later runs,
// reversal of right-to-left runs, vertical offsets): multi-face rich texts, RTL and mixed-direction
// texts, vertical writing modes, and a single word laid out after a multi-run text that contains it.
func genRich(c *hc.Ctx) []c20ops.Op {
	w := func(l []string) string { return l[c.Intn(len(l))] }
	size := float64(10 + 2*c.Intn(3))
	mk := func(mode int, runs ...string) c20ops.Op {
		width := 0.0
		if c.Chance(0.3) {
			width = float64(15 + c.Intn(30))
		}
		return c20ops.Op{Kind: "RichText", S: strings.Join(runs, "\x1f"), F: []float64{size, float64(mode), width, 0, float64(c.Intn(3))}}
	}
	switch c.Intn(6) {
	case 0:
		c.Count("rich:two-faces")
		return []c20ops.Op{mk(0, "0:"+w(ltrWords)+" ", "1:"+w(ltrWords))}
	case 1:
		c.Count("rich:three-faces")
		return []c20ops.Op{mk(0, "0:"+w(ltrWords)+" ", "2:"+w(ltrWords)+" ", "1:"+w(ltrWords))}
	case 2:
		c.Count("rich:rtl")
		if c.Bool() {
			return []c20ops.Op{mk(0, "0:"+w(rtlWords))}
		}
		return []c20ops.Op{mk(0, "0:"+w(ltrWords)+" "+w(rtlWords)+" "+w(rtlWords)+" "+w(ltrWords))}
	case 3:
		c.Count("rich:vertical")
		return []c20ops.Op{mk(1+c.Intn(2), "0:"+w(ltrWords))}
	case 4:
		c.Count("rich:vertical-two-faces")
		return []c20ops.Op{mk(1+c.Intn(2), "0:"+w(ltrWords)+" ", "1:"+w(ltrWords))}
	default:
		c.Count("rich:word-after-containing-text")
		word := w(ltrWords)
		return []c20ops.Op{mk(0, "0:"+w(ltrWords)+" ", "1:"+word), mk(0, "1:"+word)}
	}
}

func genBatch(c *hc.Ctx, n int) []c20ops.Op {
	ops := []c20ops.Op{{Kind: "SharedFontState"}}
	var pool []hc.P2
	poly := func(classes ...int) []float64 {
		cl := classes[c.Intn(len(classes))]
		return append([]float64(nil), c.GenPolygon(cl, &pool, true).Data()...)
	}
	for len(ops) < n {
		if len(pool) > 60 {
			pool = pool[:0]
		}
		r := c.Float()
		var op c20ops.Op
		switch {
		case r < 0.10:
			op = genNested(c)
		case r < 0.20:
			rs := genRich(c)
			ops = append(ops, rs[:len(rs)-1]...)
			op = rs[len(rs)-1]
		case r < 0.40:
			op = c20ops.Op{Kind: []string{"And", "Or", "Xor", "Not", "DivideBy"}[c.Intn(5)], A: poly(0, 0, 1, 2, 3, 4), B: poly(0, 0, 1, 2, 3, 4)}
		case r < 0.50:
			op = c20ops.Op{Kind: "Settle", A: poly(0, 0, 1, 2, 3), F: []float64{float64(c.Intn(2))}}
		case r < 0.60:
			op = c20ops.Op{Kind: "Stroke", A: poly(0, 2, 3, 4), F: []float64{c.Range(0.2, 2), float64(c.Intn(3)), float64(c.Intn(3)), 0.01 + 0.1*c.Float()}}
		case r < 0.65:
			op = c20ops.Op{Kind: "Offset", A: poly(0, 2, 3, 4), F: []float64{c.Range(-1, 1.5), 0.01 + 0.1*c.Float()}}
		case r < 0.75:
			op = c20ops.Op{Kind: "Flatten", A: poly(4, 4, 2), F: []float64{0.001 + 0.2*c.Float()}}
		case r < 0.85:
			f := []float64{c.Range(-3, 8)}
			for i := 0; i < 1+c.Intn(4); i++ {
				f = append(f, c.Range(0.3, 4))
			}
			op = c20ops.Op{Kind: "Dash", A: poly(0, 2, 3, 4), F: f}
		case r < 0.93:
			op = c20ops.Op{Kind: "TextBox", S: genText(c), F: []float64{float64(8 + c.Intn(8)), float64(20 + c.Intn(40)), float64(20 + c.Intn(40)), float64(c.Intn(4)), float64(c.Intn(3))}}
		case r < 0.98:
			op = c20ops.Op{Kind: "Render", A: poly(0, 2, 3, 4), S: (genText(c) + "      ")[:6], F: []float64{c.Range(0.1, 1), float64(8 + c.Intn(6)), float64(c.Intn(2)), float64(c.Intn(2))}}
			c.Count(fmt.Sprintf("render:cff=%v,svgsubset=%v", op.F[2] == 1, op.F[3] == 1))
		default:
			op = c20ops.Op{Kind: "LoadFont"}
		}
		ops = append(ops, op)
	}
	return ops
}

func opReplay(op c20ops.Op) map[string]any {
	m := map[string]any{"kind": op.Kind}
	if op.A != nil {
		m["a"] = canvas.VerifC20PathFromData(op.A).String()
		m["a_hex"] = hc.DataHex(op.A)
	}
	if op.B != nil {
		m["b"] = canvas.VerifC20PathFromData(op.B).String()
		m["b_hex"] = hc.DataHex(op.B)
	}
	if op.F != nil {
		m["f"] = op.F
	}
	if op.S != "" {
		m["s"] = op.S
	}
	return m
}

func compare(c *hc.Ctx, phase string, ops []c20ops.Op, base, got []string) {
	for i := range ops {
		c.Evals++
		if base[i] != got[i] {
			r := opReplay(ops[i])
			r["alone"], r[phase] = clip(base[i]), clip(got[i])
			c.Fail("nondeterministic:"+phase+":"+ops[i].Kind, fmt.Sprintf("%s call %d returns a different result %s than when run alone in sequence", ops[i].Kind, i, phase), r)
		}
	}
	c.Count("phase:" + phase)
}

func clip(s string) string {
	if len(s) > 1500 {
		return s[:1500] + "…"
	}
	return s
}

func determinism(c *hc.Ctx, env *c20ops.Env, ops []c20ops.Op) {
	order := make([]int, len(ops))
	for i := range order {
		order[i] = i
	}
	base := c20ops.RunSeq(env, ops, order)
	for i, op := range ops {
		c.Count("op:" + op.Kind)
		if strings.HasPrefix(base[i], "panic:") {
			c.Count("result:panic:" + op.Kind)
		} else if base[i] == "" {
			c.Count("result:empty:" + op.Kind)
		}
		c.Distinct(op.Kind + base[i])
	}
	if len(ops) > 0 {
		c.Sample(fmt.Sprintf("%v -> %s", opReplay(ops[0])["kind"], clip(base[0])))
	}
	// layouts: the reference is the call ALONE, i.e. with a freshly loaded copy of the font; the first
	// run with the shared font above is judged against it like all later phases
	fresh := append([]string(nil), base...)
	for i, op := range ops {
		if op.Kind == "RichText" {
			fresh[i] = op.RunFresh(env)
		}
	}
	compare(c, "first-run-shared-font-vs-fresh-font", ops, fresh, base)
	base = fresh
	// the same inputs again, in reverse order: regardless of what ran before
	rev := make([]int, len(ops))
	for i := range rev {
		rev[i] = len(ops) - 1 - i
	}
	compare(c, "reversed-order", ops, base, c20ops.RunSeq(env, ops, rev))
	// 16 goroutines, twice; the second time under forced garbage collections (goroutines then take
	// recycled pool objects from each other)
	compare(c, "16-goroutines", ops, base, c20ops.RunConc(env, ops, 16))
	compare(c, "16-goroutines-gc", ops, base, c20ops.RunConcGC(env, ops, 16))
	// the calls with nested results once more, each goroutine repeating its share
	var nested []c20ops.Op
	var nbase []string
	for rep := 0; rep < 4; rep++ {
		for i, op := range ops {
			if op.Kind == "RichText" || op.Kind != "Render" && op.Kind != "TextBox" && op.Kind != "LoadFont" && op.Kind != "SharedFontState" && len(op.A) > 150 {
				nested, nbase = append(nested, op), append(nbase, base[i])
			}
		}
	}
	compare(c, "16-goroutines-gc", nested, nbase, c20ops.RunConcGC(env, nested, 16))
	if c.Tier != "quick" {
		// larger histories: 64 goroutines under GC pressure, three rounds, pools re-poisoned with the
		// other junk filling before every round
		for round := 0; round < 3; round++ {
			canvas.VerifPoolPoison(2048, round%2)
			compare(c, "64-goroutines-gc", ops, base, c20ops.RunConcGC(env, ops, 64))
			compare(c, "64-goroutines-gc", nested, nbase, c20ops.RunConcGC(env, nested, 64))
		}
	}
	// pools filled with junk objects
	canvas.VerifPoolPoison(512, 0)
	compare(c, "after-pool-junk", ops, base, c20ops.RunSeq(env, ops, order))
	// pools polluted by unrelated operations (some of which panic half-way through a sweep) and junk
	var pool []hc.P2
	for i := 0; i < 200; i++ {
		a := canvas.VerifC20PathFromData(c.GenPolygon(c.Intn(5), &pool, false).Data())
		b := canvas.VerifC20PathFromData(c.GenPolygon(c.Intn(5), &pool, false).Data())
		if msg := hc.Try(func() { a.DivideBy(b); a.Xor(b); a.Settle(canvas.EvenOdd) }); msg != "" {
			c.Count("pollution:panicking-op")
		}
		if len(pool) > 60 {
			pool = pool[:0]
		}
	}
	canvas.VerifPoolPoison(512, 1)
	compare(c, "after-pool-pollution", ops, base, c20ops.RunSeq(env, ops, rev))
	canvas.VerifPoolPoison(512, 0)
	compare(c, "16-goroutines-after-pool-junk", ops, base, c20ops.RunConc(env, ops, 16))
}

// ---- pool audit: no object is Put twice, no result depends on a long history ---------------------

// genCollapse: operands on which segments collapse under the 1e-8 snap grid or coincide: repeated and
// reversed subpaths, self-overlapping grid polygons, near-vertical edges, micro edges shorter than
// the grid, sub-grid coordinates.
func genCollapse(c *hc.Ctx) (*canvas.Path, string) {
	class := []string{"repeated-subpath", "self-overlap", "near-vertical", "micro-edges", "sub-grid"}[c.Intn(5)]
	p := &canvas.Path{}
	ring := func(pts []hc.P2) {
		for i, v := range pts {
			if i == 0 {
				p.MoveTo(v.X, v.Y)
			} else {
				p.LineTo(v.X, v.Y)
			}
		}
		p.Close()
	}
	grid := func(k int) []hc.P2 {
		var pts []hc.P2
		for i := 0; i < k; i++ {
			pts = append(pts, hc.P2{X: float64(c.Intn(9) - 4), Y: float64(c.Intn(9) - 4)})
		}
		return pts
	}
	switch class {
	case "repeated-subpath":
		pts := grid(3 + c.Intn(5))
		ring(pts)
		for r := 0; r < 1+c.Intn(2); r++ {
			q := append([]hc.P2(nil), pts...)
			if c.Bool() {
				for i, j := 0, len(q)-1; i < j; i, j = i+1, j-1 {
					q[i], q[j] = q[j], q[i]
				}
			}
			if c.Chance(0.4) {
				d := float64(1+c.Intn(9)) * 1e-9
				for i := range q {
					q[i].X += d
				}
			}
			ring(q)
		}
	case "self-overlap":
		pts := grid(4 + c.Intn(6))
		for i := 1; i < len(pts); i++ { // axis-parallel and revisited vertices
			if c.Chance(0.4) {
				pts[i].Y = pts[i-1].Y
			} else if c.Chance(0.3) {
				pts[i] = pts[c.Intn(i)]
			}
		}
		ring(pts)
	case "near-vertical":
		pts := grid(3 + c.Intn(6))
		for i := range pts {
			pts[i].X = float64(c.Intn(3)-1) + float64(c.Intn(9))*float64([]float64{1e-10, 5e-10, 2.5e-9, 1e-8}[c.Intn(4)])
		}
		ring(pts)
	case "micro-edges":
		pts := grid(3 + c.Intn(5))
		var q []hc.P2
		for _, v := range pts {
			q = append(q, v)
			for k := 0; k < c.Intn(3); k++ {
				q = append(q, hc.P2{X: v.X + float64(c.Intn(11)-5)*1e-9, Y: v.Y + float64(c.Intn(11)-5)*1e-9})
			}
		}
		ring(q)
	default:
		var pts []hc.P2
		for i := 0; i < 4+c.Intn(8); i++ {
			pts = append(pts, hc.P2{X: float64(c.Intn(13)-6) * 2.5e-9 * float64(1+c.Intn(3)), Y: float64(c.Intn(13)-6) * 2.5e-9 * float64(1+c.Intn(400000000)%7)})
		}
		ring(pts)
		if c.Bool() {
			ring(grid(3 + c.Intn(3)))
		}
	}
	return p, class
}

func genCollapseOp(c *hc.Ctx) (c20ops.Op, string) {
	data := func(p *canvas.Path) []float64 { return append([]float64(nil), p.Data()...) }
	a, cl := genCollapse(c)
	if c.Chance(0.45) {
		return c20ops.Op{Kind: "Settle", A: data(a), F: []float64{float64(c.Intn(4))}}, cl
	}
	b, cl2 := genCollapse(c)
	return c20ops.Op{Kind: []string{"And", "Or", "Xor", "Not", "DivideBy"}[c.Intn(5)], A: data(a), B: data(b)}, cl + "+" + cl2
}

// putAudit runs the audit in child processes with their own address-space cap and time limit: the
// collapse-prone operand classes contain inputs on which a boolean operation does not return and
// allocates without bound (a totality defect, property C10 — not judged here); such a call can only be
// stopped by killing the process. A child that dies is counted, its last call is kept as a sample, and
// the next child continues with another seed.
func putAudit(c *hc.Ctx, d dirs) {
	rounds := 2
	if c.Tier != "quick" {
		rounds = 8
	}
	self, err := os.Executable()
	if err != nil {
		c.Fail("audit-unavailable", err.Error(), nil)
		return
	}
	for r := 0; r < rounds; r++ {
		out := filepath.Join(d.run, fmt.Sprintf("audit-%d", r))
		os.MkdirAll(out, 0o755)
		last := filepath.Join(out, "lastop.json")
		skip := ""
		for attempt := 0; ; attempt++ {
			os.Remove(filepath.Join(out, "report.json"))
			cmd := exec.Command("bash", "-c", `ulimit -v 2500000; exec "$0" "$@"`, self, c.Tier, fmt.Sprint(c.Seed*1000+uint64(r)), fmt.Sprint(c.N), out, "auditchild")
			cmd.Env = append(os.Environ(), "VERIF_C20_LASTOP="+last, "VERIF_C20_SKIP="+skip, "GOMEMLIMIT=1GiB")
			done := make(chan error, 1)
			if err := cmd.Start(); err != nil {
				c.Fail("audit-unavailable", err.Error(), nil)
				return
			}
			go func() { done <- cmd.Wait() }()
			var werr error
			select {
			case werr = <-done:
			case <-time.After(3 * time.Minute):
				cmd.Process.Kill()
				werr = fmt.Errorf("timeout")
			}
			b, rerr := os.ReadFile(filepath.Join(out, "report.json"))
			var rep struct {
				Evaluations int            `json:"evaluations"`
				Distinct    int            `json:"distinct_nontrivial"`
				Hist        map[string]int `json:"hist"`
				Fails       []hc.Fail      `json:"fails"`
			}
			if werr != nil || rerr != nil || json.Unmarshal(b, &rep) != nil {
				// the call that was running does not return: skip it by index and run the child again
				var lo struct {
					Index int            `json:"index"`
					Op    map[string]any `json:"op"`
				}
				lb, _ := os.ReadFile(last)
				if json.Unmarshal(lb, &lo) != nil || attempt >= 15 {
					c.Count("audit:child-abandoned")
					break
				}
				c.Count("audit:call-does-not-return(C10,skipped)")
				delete(lo.Op, "a_hex")
				delete(lo.Op, "b_hex")
				ob, _ := json.Marshal(lo.Op)
				c.Sample("call that does not return (killed at 2.5 GB): " + clip(string(ob)))
				skip += fmt.Sprintf("%d,", lo.Index)
				continue
			}
			c.Count("audit:child-completed")
			c.Evals += rep.Evaluations
			for k, v := range rep.Hist {
				c.Hist[k] += v
			}
			for _, f := range rep.Fails {
				c.Hist["FAIL:"+f.Kind]-- // Fail counts it again
				c.Fail(f.Kind, f.Desc, f.Replay)
			}
			for i := 0; i < rep.Distinct; i++ {
				c.Distinct(fmt.Sprintf("audit-child-%d-%d", r, i))
			}
			break
		}
	}
}

func putAuditChild(c *hc.Ctx, env *c20ops.Env) {
	skip := map[int]bool{}
	for _, f := range strings.Split(os.Getenv("VERIF_C20_SKIP"), ",") {
		var k int
		if _, err := fmt.Sscan(f, &k); err == nil {
			skip[k] = true
		}
	}
	idx := 0
	// guarded: note the call (for the parent, should it not return); false = on the skip list
	guarded := func(op c20ops.Op) bool {
		idx++
		if skip[idx] {
			c.Count("audit:skipped-non-returning-call")
			return false
		}
		if f := os.Getenv("VERIF_C20_LASTOP"); f != "" {
			b, _ := json.Marshal(map[string]any{"index": idx, "op": opReplay(op)})
			os.WriteFile(f, b, 0o644)
		}
		return true
	}
	n := 4 * c.N
	doublePuts := 0
	var probes []c20ops.Op
	for i := 0; i < n; i++ {
		op, cl := genCollapseOp(c)
		if !guarded(op) {
			continue
		}
		var res string
		drained, dups := canvas.VerifC20PutAudit(func() { res = op.Run(env) })
		c.Evals++
		c.Count("audit:class:" + cl[:strings.IndexAny(cl+"+", "+")])
		if strings.HasPrefix(res, "panic") {
			c.Count("audit:panic")
		}
		if drained[0] > 0 {
			c.Count("audit:calls-with-released-points")
		}
		for k, name := range []string{"SweepPoint", "SweepNode", "toleranceSquare"} {
			if dups[k] > 0 {
				r := opReplay(op)
				r["class"], r["drained"], r["duplicates"], r["result"] = cl, drained[k], dups[k], clip(res)
				c.Fail("pool:double-put:"+name, fmt.Sprintf("%s (%s): %d of the %d %s objects returned to the pool by this one call were Put twice", op.Kind, cl, dups[k], drained[k], name), r)
				doublePuts++
			}
		}
		if doublePuts >= 3 {
			return // from here on the real pools would hand one object to two owners: nothing else is meaningful
		}
		if doublePuts > 0 {
			continue // no call on the real pools any more
		}
		// the same call with the collector switched off (nothing leaves the pools during the call)
		// and with a collection after almost every allocation (the pools are emptied again and again
		// during the call): a difference means the call's outcome depends on whether an object it
		// has released is handed back to it — a use after Put inside one call
		c.Distinct("audit:" + op.Kind + hc.DataHex(op.A) + hc.DataHex(op.B))
		if i%8 != 0 {
			continue
		}
		debug.SetGCPercent(-1)
		quiet := op.Run(env)
		runtime.GC()
		runtime.GC()
		debug.SetGCPercent(1)
		storm := op.Run(env)
		debug.SetGCPercent(100)
		c.Evals++
		if quiet != storm {
			r := opReplay(op)
			r["class"], r["gc-off"], r["gc-storm"] = cl, clip(quiet), clip(storm)
			c.Fail("pool:result-depends-on-gc:"+op.Kind, fmt.Sprintf("%s (%s) returns different results with the collector off and with frequent collections (sync.Pool is emptied by the collector)", op.Kind, cl), r)
		}
		if len(probes) < 64 {
			probes = append(probes, op)
		}
	}
	if doublePuts > 0 {
		return
	}
	// long histories: the same call before and after many other calls of these classes
	hist := 10000
	if c.Tier == "quick" {
		hist = 2500
	}
	before := make([]string, len(probes))
	for i, op := range probes {
		before[i] = op.Run(env)
	}
	for i := 0; i < hist; i++ {
		op, _ := genCollapseOp(c)
		if guarded(op) {
			op.Run(env)
		}
	}
	c.Hist["audit:history-calls"] += hist
	after := make([]string, len(probes))
	for i, op := range probes {
		after[i] = op.Run(env)
	}
	compare(c, fmt.Sprintf("after-%d-other-calls", hist), probes, before, after)
}

// ---- race detector ------------------------------------------------------------------------------

func sourceHash(d dirs) string {
	h := sha256.New()
	var files []string
	for _, dir := range []string{d.repo, filepath.Join(d.repo, "text"), filepath.Join(d.repo, "renderers/pdf"), filepath.Join(d.repo, "renderers/ps"),
		filepath.Join(d.repo, "renderers/svg"), filepath.Join(d.repo, "renderers/rasterizer"), filepath.Join(d.verif, "harness/c20/c20ops"), filepath.Join(d.verif, "harness/c20/racedrv")} {
		ents, _ := os.ReadDir(dir)
		for _, e := range ents {
			if !e.IsDir() && (strings.HasSuffix(e.Name(), ".go") && !strings.HasSuffix(e.Name(), "_test.go") || e.Name() == "go.sum") {
				files = append(files, filepath.Join(dir, e.Name()))
			}
		}
	}
	sort.Strings(files)
	for _, f := range files {
		b, _ := os.ReadFile(f)
		fmt.Fprintf(h, "%s %d\n", f, len(b))
		h.Write(b)
	}
	return hex.EncodeToString(h.Sum(nil))[:16]
}

func buildRaceDriver(c *hc.Ctx, d dirs) (string, error) {
	bin := filepath.Join(d.out, "bin", "c20-racedrv-"+sourceHash(d))
	if _, err := os.Stat(bin); err == nil {
		c.Count("race:driver-cached")
		return bin, nil
	}
	old, _ := filepath.Glob(filepath.Join(d.out, "bin", "c20-racedrv-*"))
	for _, f := range old {
		os.Remove(f)
	}
	cmd := exec.Command("go", "build", "-race", "-tags", "verif", "-modfile", filepath.Join(d.out, "mod", "go.mod"), "-o", bin+".tmp", "./c20/racedrv")
	cmd.Dir = filepath.Join(d.verif, "harness")
	env := []string{}
	for _, e := range os.Environ() {
		if strings.HasPrefix(e, "GOFLAGS=") || strings.HasPrefix(e, "GOPROXY=") || strings.HasPrefix(e, "GOSUMDB=") || strings.HasPrefix(e, "GOTOOLCHAIN=") || strings.HasPrefix(e, "GOMEMLIMIT=") {
			continue
		}
		env = append(env, e)
	}
	cmd.Env = append(env, "GOFLAGS=-mod=mod", "GOPROXY=off")
	out, err := cmd.CombinedOutput()
	if err != nil {
		return "", fmt.Errorf("go build -race failed: %v\n%s", err, out)
	}
	c.Count("race:driver-built")
	return bin, os.Rename(bin+".tmp", bin)
}

var modVersion = regexp.MustCompile(`@[^/]+`)
var frameRe = regexp.MustCompile(`^\s+(/\S+\.go):(\d+)`)

type raceReport struct {
	a, b string // top frames of the two conflicting accesses (repo-relative when inside the repo)
	text string
}

func parseRaces(stderr string, repo string) []raceReport {
	var reps []raceReport
	blocks := strings.Split(stderr, "WARNING: DATA RACE")
	for _, blk := range blocks[1:] {
		if i := strings.Index(blk, "=================="); i >= 0 {
			blk = blk[:i]
		}
		var tops []string
		lines := strings.Split(blk, "\n")
		for i, l := range lines {
			if (strings.Contains(l, " by goroutine ") || strings.Contains(l, " by main goroutine")) && (strings.HasPrefix(l, "Read at") || strings.HasPrefix(l, "Write at") || strings.HasPrefix(l, "Previous ") || strings.HasPrefix(l, "Atomic")) {
				for j := i + 1; j < len(lines) && j < i+4; j++ {
					if m := frameRe.FindStringSubmatch(lines[j]); m != nil {
						f := m[1]
						if rel, err := filepath.Rel(repo, f); err == nil && !strings.HasPrefix(rel, "..") {
							f = rel
						} else if i := strings.Index(f, "/pkg/mod/"); i >= 0 {
							// module cache: mod:<module>/<file> without the version
							f = "mod:" + modVersion.ReplaceAllString(f[i+len("/pkg/mod/"):], "")
						}
						tops = append(tops, f+":"+m[2])
						break
					}
				}
			}
		}
		for len(tops) < 2 {
			tops = append(tops, "?")
		}
		a, b := tops[0], tops[1]
		if b < a {
			a, b = b, a
		}
		reps = append(reps, raceReport{a, b, strings.TrimSpace(blk)})
	}
	return reps
}

func raceRun(c *hc.Ctx, d dirs, env *c20ops.Env, ops []c20ops.Op) {
	t0 := time.Now()
	bin, err := buildRaceDriver(c, d)
	if err != nil {
		c.Fail("race-driver-unavailable", err.Error(), nil)
		return
	}
	n := 100
	if c.Tier != "quick" {
		n = 200
	}
	if n > len(ops) {
		n = len(ops)
	}
	// blocks of the same short call first: the goroutines start together and the split is static, so
	// all 16 are inside the same function at the same time (FindSystemFont and LoadFont take
	// microseconds to milliseconds; spread out they would rarely overlap)
	var batch []c20ops.Op
	for i := 0; i < 64; i++ {
		batch = append(batch, c20ops.Op{Kind: "FindSystemFont", S: "DejaVu Serif"})
	}
	for i := 0; i < 32; i++ {
		batch = append(batch, c20ops.Op{Kind: "LoadNoname"})
	}
	for i := 0; i < 16; i++ {
		batch = append(batch, c20ops.Op{Kind: "LoadFont"})
	}
	nrender := 0
	for _, op := range ops { // a block of canvases rendered with the shared fonts at the same time
		if op.Kind == "Render" && nrender < 32 {
			batch = append(batch, op)
			nrender++
		}
	}
	batch = append(batch, ops[:n]...)
	nn := 32
	if c.Tier != "quick" {
		nn = 96
	}
	for i := 0; i < nn; i++ { // results with nested contours: the tracer walks prev chains
		batch = append(batch, genNested(c))
	}
	nr := 0
	for _, op := range ops[n:] { // distinct canvases with the ONE shared font, from several goroutines
		if (op.Kind == "Render" || op.Kind == "TextBox") && nr < 24 || op.Kind == "RichText" {
			batch = append(batch, op)
			nr++
		}
	}
	for _, op := range batch { // what ran under the race detector (each call twice, 16 goroutines)
		c.Count("race:op:" + op.Kind)
	}
	bf, of := filepath.Join(d.run, "race-batch.json"), filepath.Join(d.run, "race-out.json")
	if err := c20ops.SaveBatch(bf, batch); err != nil {
		c.Fail("race-driver-unavailable", err.Error(), nil)
		return
	}
	cmd := exec.Command(bin, d.repo, bf, of)
	var stderr bytes.Buffer
	cmd.Stderr = &stderr
	cmd.Env = append(os.Environ(), "GORACE=halt_on_error=0 history_size=2")
	done := make(chan error, 1)
	if err := cmd.Start(); err != nil {
		c.Fail("race-driver-unavailable", err.Error(), nil)
		return
	}
	go func() { done <- cmd.Wait() }()
	select {
	case <-done:
	case <-time.After(10 * time.Minute):
		cmd.Process.Kill()
		c.Fail("race-driver-unavailable", "race driver timed out", nil)
		return
	}
	os.WriteFile(filepath.Join(d.run, "race-stderr.txt"), stderr.Bytes(), 0o644)
	c.Count("race:runs")
	c.Evals += 2 * len(batch)
	// results of the race-instrumented concurrent runs against the plain sequential ones
	order := make([]int, len(batch))
	for i := range order {
		order[i] = i
	}
	base := c20ops.RunSeq(env, batch, order)
	for i, op := range batch {
		if op.Kind == "RichText" {
			base[i] = op.RunFresh(env)
		}
	}
	var got [][]string
	if b, err := os.ReadFile(of); err == nil && json.Unmarshal(b, &got) == nil && len(got) == 2 && len(got[0]) == len(batch) {
		b2, base2, g0, g1 := batch, base, got[0], got[1]
		compare(c, "16-goroutines-race-build", b2, base2, g0)
		compare(c, "16-goroutines-race-build", b2, base2, g1)
	} else {
		c.Fail("race-driver-unavailable", "race driver produced no results; stderr: "+clip(stderr.String()), nil)
	}
	seen := map[string]bool{}
	reps := parseRaces(stderr.String(), d.repo)
	c.Hist["race:reports"] += len(reps)
	for _, r := range reps {
		key := r.a + " " + r.b
		if seen[key] {
			continue
		}
		seen[key] = true
		txt := strings.Join(strings.Fields(strings.ReplaceAll(clip(r.text), "\n", " ; ")), " ")
		// verdict line: the Lean driver names the package-level variable whose extracted sites
		// these are (kind race:<variable>), or `unlisted`
		c.Case("RACE "+r.a+" "+r.b+" | "+txt, "!", "race")
		c.Sample("race report: " + key)
	}
	if len(reps) == 0 {
		c.Count("race:none")
	}
	c.Hist["race:wall_s"] = int(time.Since(t0).Seconds())
}
