// Standalone replay for C04 findings: strokes (or offsets) one path with the real library and reports,
// for the given points, the distance to the input and the winding number in the flattened result.
//
//	replay stroke "<svg path>" w cap join limit tol  x y [x y ...]
//	replay offset "<svg path>" d tol  x y [x y ...]
package main

import (
	"fmt"
	"math"
	"os"
	"strconv"

	"github.com/tdewolff/canvas"
)

type pt struct{ x, y float64 }

func f(s string) float64 {
	v, err := strconv.ParseFloat(s, 64)
	if err != nil {
		panic(err)
	}
	return v
}

func contours(p *canvas.Path) [][]pt {
	var out [][]pt
	for _, pi := range p.Split() {
		var c []pt
		for _, q := range pi.Coords() {
			c = append(c, pt{q.X, q.Y})
		}
		out = append(out, c)
	}
	return out
}

func wn(p pt, cs [][]pt) int {
	w := 0
	for _, c := range cs {
		n := len(c)
		for i := 0; i < n; i++ {
			a, b := c[i], c[(i+1)%n]
			l := (b.x-a.x)*(p.y-a.y) - (p.x-a.x)*(b.y-a.y)
			if a.y <= p.y && p.y < b.y && l > 0 {
				w++
			} else if b.y <= p.y && p.y < a.y && l < 0 {
				w--
			}
		}
	}
	return w
}

func distSeg(p, a, b pt) float64 {
	dx, dy := b.x-a.x, b.y-a.y
	l2 := dx*dx + dy*dy
	t := 0.0
	if l2 > 0 {
		t = math.Max(0, math.Min(1, ((p.x-a.x)*dx+(p.y-a.y)*dy)/l2))
	}
	return math.Hypot(p.x-a.x-t*dx, p.y-a.y-t*dy)
}

func main() {
	a := os.Args[1:]
	P := canvas.MustParseSVGPath(a[1])
	var R *canvas.Path
	var rest []string
	var tol float64
	if a[0] == "stroke" {
		w, lim := f(a[2]), f(a[5])
		tol = f(a[6])
		cr := map[string]canvas.Capper{"Butt": canvas.ButtCap, "Round": canvas.RoundCap, "Square": canvas.SquareCap}[a[3]]
		jr := map[string]canvas.Joiner{"Bevel": canvas.BevelJoin, "Round": canvas.RoundJoin,
			"Miter": canvas.MiterJoiner{GapJoiner: canvas.BevelJoin, Limit: lim}, "MiterClip": canvas.MiterJoiner{Limit: lim},
			"Arcs": canvas.ArcsJoiner{GapJoiner: canvas.BevelJoin, Limit: lim}, "ArcsClip": canvas.ArcsJoiner{Limit: lim}}[a[4]]
		R = P.Stroke(w, cr, jr, tol)
		rest = a[7:]
	} else {
		tol = f(a[3])
		R = P.Offset(f(a[2]), tol)
		rest = a[4:]
	}
	fmt.Println("input :", P)
	fmt.Println("result:", R)
	// input as polyline (fine sampling of curves through the library-independent route is in the harness;
	// here flat inputs only need their vertices)
	in := contours(P.Flatten(tol / 100))
	closed := []bool{}
	for _, pi := range P.Split() {
		closed = append(closed, pi.Closed())
	}
	res := contours(R.Flatten(tol))
	for i := 0; i+1 < len(rest); i += 2 {
		p := pt{f(rest[i]), f(rest[i+1])}
		d := math.Inf(1)
		for k, c := range in {
			for j := 0; j+1 < len(c); j++ {
				d = math.Min(d, distSeg(p, c[j], c[j+1]))
			}
			if closed[k] {
				d = math.Min(d, distSeg(p, c[len(c)-1], c[0]))
			}
		}
		fmt.Printf("point (%v,%v): distance to input %.9g, winding in result %d, result.Contains (library, NonZero) %v\n", p.x, p.y, d, wn(p, res), R.Contains(p.x, p.y, canvas.NonZero))
	}
}
