package main

import (
	"fmt"
	"math"
	"strings"

	"github.com/tdewolff/canvas"
	"verifharness/hc"
)

func main() { hc.Main("C04", run) }

func run(c *hc.Ctx) {
	only := func(s string) bool { return c.Only == "" || c.Only == s }
	if only("l1") {
		l1(c)
	}
	if only("kernel") {
		kernels(c)
	}
	if only("proto") {
		protocol(c)
	}
	if only("protom") {
		pathProtocol(c)
	}
	if only("flat") {
		regionFlat(c)
	}
	if only("offset") {
		offsetClosed(c)
	}
	if only("curved") {
		regionCurved(c)
	}
	if only("offsetcurved") {
		offsetCurved(c)
	}
}

// ---------------------------------------------------------------------------------------------
// 1. L1: generated Point.Equals/Length/Norm/AngleBetween, intersectionRayLine vs the real functions

func l1(c *hc.Ctx) {
	hc.L1Approx["Point.Length"] = true       // math.Hypot vs sqrt(x²+y²)
	hc.L1Approx["Point.Norm"] = true         // downstream of Hypot
	hc.L1Approx["Point.AngleBetween"] = true // atan2 (1 ulp)
	c.L1Corr(hc.L1Names([]string{"Stroke"}, nil), c.N)
}

// ---------------------------------------------------------------------------------------------
// 2. kernels: real cappers and joiners on fresh paths vs the L2 definitions

var capNames = []string{"Butt", "Round", "Square"}
var cappers = []canvas.Capper{canvas.ButtCap, canvas.RoundCap, canvas.SquareCap}
var joinNames = []string{"Bevel", "Round", "Miter", "MiterClip", "Arcs", "ArcsClip"}

func joiner(kind int, limit float64) canvas.Joiner {
	switch kind {
	case 0:
		return canvas.BevelJoin
	case 1:
		return canvas.RoundJoin
	case 2:
		return canvas.MiterJoiner{GapJoiner: canvas.BevelJoin, Limit: limit}
	case 3:
		return canvas.MiterJoiner{GapJoiner: nil, Limit: limit}
	case 4:
		return canvas.ArcsJoiner{GapJoiner: canvas.BevelJoin, Limit: limit}
	}
	return canvas.ArcsJoiner{GapJoiner: nil, Limit: limit}
}

var limits = []float64{1, 1.001, 1.2, 1.5, 2, 4, 10}

func genHW(c *hc.Ctx) float64 {
	switch c.Intn(4) {
	case 0:
		return []float64{0.125, 0.25, 0.5, 1, 1.5, 2.5}[c.Intn(6)]
	case 1:
		return math.Round(c.Range(0.05, 4)*100) / 100
	default:
		return float64(1+c.Intn(12)) / 4
	}
}

// turn angle classes in degrees (positive = left/CCW turn)
func genTurn(c *hc.Ctx) (deg float64, class string) {
	sign := 1.0
	if c.Bool() {
		sign = -1
	}
	switch c.Intn(7) {
	case 0:
		return sign * c.Range(0.05, 5), "flat"
	case 1:
		return sign * c.Range(170, 179.9), "sharp"
	case 2:
		return sign * 90, "right-angle"
	case 3:
		return 180, "reversal"
	case 4:
		return sign * float64(15*(1+c.Intn(11))), "multiple-of-15"
	default:
		return sign * c.Range(5, 170), "ordinary"
	}
}

func dirOf(deg float64) canvas.Point {
	switch math.Mod(math.Mod(deg, 360)+360, 360) {
	case 0:
		return canvas.Point{X: 1}
	case 90:
		return canvas.Point{Y: 1}
	case 180:
		return canvas.Point{X: -1}
	case 270:
		return canvas.Point{Y: -1}
	}
	s, co := math.Sincos(deg * math.Pi / 180)
	return canvas.Point{X: co, Y: s}
}

func kernels(c *hc.Ctx) {
	nan := math.NaN()
	for it := 0; it < c.N; it++ {
		hw := genHW(c)
		pivot := canvas.Point{X: c.GenCoord(), Y: c.GenCoord()}
		a0 := float64(c.Intn(24)) * 15
		if c.Bool() {
			a0 = c.Range(0, 360)
		}
		turn, class := genTurn(c)
		d0 := dirOf(a0)
		var d1 canvas.Point
		if turn == 180 {
			d1 = d0.Neg()
		} else {
			d1 = dirOf(a0 + turn)
		}
		scale := c.Range(0.1, 9)
		n0 := d0.Mul(scale).Rot90CW().Norm(hw)
		n1 := d1.Mul(c.Range(0.1, 9)).Rot90CW().Norm(hw)

		// cappers
		for k, cr := range cappers {
			p := &canvas.Path{}
			st := pivot.Add(n0)
			p.MoveTo(st.X, st.Y)
			cr.Cap(p, hw, pivot, n0)
			c.Case(fmt.Sprintf("CAP %d %s", k, hc.Hs(hw, pivot.X, pivot.Y, n0.X, n0.Y)), "~", hc.DataHex(p.Data()[4:]))
			c.Count("kernel:cap:" + capNames[k])
		}
		if n0.Equals(n1) {
			c.Count("kernel:skip-equal-normals")
			continue
		}
		limit := limits[c.Intn(len(limits))]
		for kind := 0; kind < 6; kind++ {
			den := hw*hw + n0.Dot(n1)
			lim := math.Max(limit, 1.001)
			if kind >= 2 && math.Abs(lim*lim*den-2*hw*hw) < 1e-7*hw*hw {
				c.Count("kernel:skip-clip-decision-boundary")
				continue
			}
			rhs, lhs := &canvas.Path{}, &canvas.Path{}
			rpos, lpos := pivot.Add(n0), pivot.Sub(n0)
			rhs.MoveTo(rpos.X, rpos.Y)
			lhs.MoveTo(lpos.X, lpos.Y)
			joiner(kind, limit).Join(rhs, lhs, hw, pivot, n0, n1, nan, nan)
			line := fmt.Sprintf("JOIN %d %s", kind, hc.Hs(limit, hw, pivot.X, pivot.Y, n0.X, n0.Y, n1.X, n1.Y, rpos.X, rpos.Y, lpos.X, lpos.Y))
			c.Case(line, "~", hc.DataHex(rhs.Data()[4:])+" | "+hc.DataHex(lhs.Data()[4:]))
			c.Distinct(line)
			sub := ""
			if kind >= 2 {
				if turn == 180 {
					sub = ":reversal-bevel"
				} else if lim*lim*den < 2*hw*hw {
					sub = ":clipped"
				} else {
					sub = ":tip"
				}
			}
			c.Count("kernel:join:" + joinNames[kind] + sub)
			if kind == 0 {
				c.Count("kernel:turn:" + class)
			}
			if it == 0 && kind == 2 {
				c.Sample(line + " => " + hc.DataHex(rhs.Data()[4:]) + " | " + hc.DataHex(lhs.Data()[4:]))
			}
		}
	}
}

// ---------------------------------------------------------------------------------------------
// 3. protocol of offset(): recording Capper / Joiner vs the L2 skeleton

type recJoiner struct {
	inner canvas.Joiner
	ev    *[]string
}

func (r recJoiner) Join(rhs, lhs *canvas.Path, hw float64, pivot, n0, n1 canvas.Point, r0, r1 float64) {
	*r.ev = append(*r.ev, "J "+hc.Hs(pivot.X, pivot.Y, n0.X, n0.Y, n1.X, n1.Y, r0, r1))
	r.inner.Join(rhs, lhs, hw, pivot, n0, n1, r0, r1)
}

type recCapper struct {
	inner canvas.Capper
	ev    *[]string
}

func (r recCapper) Cap(p *canvas.Path, hw float64, pivot, n0 canvas.Point) {
	*r.ev = append(*r.ev, "C "+hc.Hs(pivot.X, pivot.Y, n0.X, n0.Y))
	r.inner.Cap(p, hw, pivot, n0)
}

func runOffsetRecorded(pi *canvas.Path, hw float64, strokeOpen bool) (string, int, int) {
	var ev []string
	rhs, lhs := pi.VerifC04Offset(hw, recCapper{canvas.ButtCap, &ev}, recJoiner{canvas.BevelJoin, &ev}, strokeOpen, 0.01)
	if rhs == nil {
		return "NIL", 0, 0
	}
	if rhs.Empty() || (lhs != nil && lhs.Empty()) {
		// a side collapsed to a point (e.g. the inner offset of a circle by its radius): Close() then
		// removes the lone MoveTo; the skeleton does not model path contents
		return "COLLAPSED", 0, 0
	}
	nj, nc := 0, 0
	for _, e := range ev {
		if e[0] == 'J' {
			nj++
		} else {
			nc++
		}
	}
	l := "nil"
	if lhs != nil {
		l = hc.B(lhs.Closed())
	}
	ev = append(ev, "END", hc.B(rhs.Closed()), l)
	return strings.Join(ev, " "), nj, nc
}

// raw flat subpath data: collinear runs, reversals, zero-length close, tiny segments
func genRawFlat(c *hc.Ctx) ([]float64, bool) {
	n := 1 + c.Intn(6)
	q := func() float64 { return float64(c.Intn(33)-16) / 4 }
	pts := []hc.P2{{q(), q()}}
	for len(pts) < n+1 {
		last := pts[len(pts)-1]
		var v hc.P2
		switch c.Intn(6) {
		case 0: // collinear continuation (equal normals: no join)
			if len(pts) >= 2 {
				d := last.Sub(pts[len(pts)-2])
				v = last.Add(d.Mul(float64(1 + c.Intn(2))))
			} else {
				v = hc.P2{q(), q()}
			}
		case 1: // reversal
			if len(pts) >= 2 {
				d := last.Sub(pts[len(pts)-2])
				v = last.Sub(d.Mul(0.5))
			} else {
				v = hc.P2{q(), q()}
			}
		case 2: // tiny step
			v = hc.P2{last.X + float64(c.Intn(3)-1)/64, last.Y + float64(c.Intn(3)-1)/64}
		default:
			v = hc.P2{q(), q()}
		}
		if v == last {
			continue
		}
		pts = append(pts, v)
	}
	d := []float64{1, pts[0].X, pts[0].Y, 1}
	for _, v := range pts[1:] {
		d = append(d, 2, v.X, v.Y, 2)
	}
	closed := false
	switch c.Intn(4) {
	case 0: // closing segment
		if pts[len(pts)-1] != pts[0] {
			d = append(d, 32, pts[0].X, pts[0].Y, 32)
			closed = true
		}
	case 1: // explicit line back, zero-length Close
		if pts[len(pts)-1] != pts[0] {
			d = append(d, 2, pts[0].X, pts[0].Y, 2)
		}
		d = append(d, 32, pts[0].X, pts[0].Y, 32)
		closed = true
	}
	return d, closed
}

func protocol(c *hc.Ctx) {
	// flat: the Lean model computes the states itself from the raw data
	for it := 0; it < c.N; it++ {
		hw := genHW(c)
		d, closed := genRawFlat(c)
		pi := canvas.VerifC04PathFromData(d)
		strokeOpen := c.Chance(0.7)
		out, nj, nc := runOffsetRecorded(pi, hw, strokeOpen)
		if out == "COLLAPSED" {
			c.Count("proto:skip-collapsed-side")
			continue
		}
		line := fmt.Sprintf("PROTO %s %s D %s", hc.B(strokeOpen), hc.H(hw), hc.DataHex(d))
		c.Case(line, "~", out)
		c.Distinct(line)
		c.Count(fmt.Sprintf("proto:flat closed=%v strokeOpen=%v caps=%d", closed, strokeOpen, nc))
		c.Count(fmt.Sprintf("proto:flat joins=%d", nj))
		if it == 0 {
			c.Sample(line + " => " + out)
		}
	}
	// general (curves, arcs, builder-made paths with several subpaths): abstract states
	for it := 0; it < c.N; it++ {
		hw := genHW(c)
		var p *canvas.Path
		switch c.Intn(7) {
		case 5: // closed subpath of exactly one segment: the cubic is joined with itself
			p, _ = genTeardrop(c)
		case 6: // the same, among other subpaths / as a quadratic that returns to its start
			p, _ = genTeardrop(c)
			if c.Bool() {
				p = p.Append(c.GenPath("LQC", 3, 1))
			} else {
				q := &canvas.Path{}
				q.MoveTo(c.GenCoord(), c.GenCoord())
				q.QuadTo(c.GenCoord(), c.GenCoord(), q.Pos().X, q.Pos().Y)
				q.Close()
				p = p.Append(q)
			}
		case 0:
			p = canvas.Circle(float64(1 + c.Intn(5)))
		case 1:
			p = canvas.Ellipse(float64(2+c.Intn(5)), float64(1+c.Intn(3)))
		case 2:
			p = canvas.RoundedRectangle(float64(4+c.Intn(5)), float64(3+c.Intn(4)), 1)
		default:
			p = c.GenPath([]string{"LQCA", "LA", "QC", "LLLZ", "LQCAZ"}[c.Intn(5)], 5, 3)
		}
		strokeOpen := c.Chance(0.7)
		for _, pi := range p.Split() {
			segs, closed, ok := statesOf(pi, hw)
			if !ok {
				c.Count("proto:skip-undecodable")
				continue
			}
			out, nj, nc := runOffsetRecorded(pi, hw, strokeOpen)
			if out == "COLLAPSED" {
				c.Count("proto:skip-collapsed-side")
				continue
			}
			var sb strings.Builder
			fmt.Fprintf(&sb, "PROTOA %s %s %d", hc.B(closed), hc.B(strokeOpen), len(segs))
			for _, s := range segs {
				sb.WriteByte(' ')
				sb.WriteString(hc.Hs(s.p0.X, s.p0.Y, s.p1.X, s.p1.Y, s.n0.X, s.n0.Y, s.n1.X, s.n1.Y, s.r0, s.r1))
			}
			c.Case(sb.String(), "~", out)
			c.Distinct(sb.String())
			c.Count(fmt.Sprintf("proto:general closed=%v strokeOpen=%v caps=%d", closed, strokeOpen, nc))
			if closed && len(segs) == 1 {
				c.Count(fmt.Sprintf("proto:general closed single segment joins=%d", nj))
			}
			if nj < len(segs)-1 || (closed && nj < len(segs)) {
				c.Count("proto:general some-smooth-junction")
			}
		}
	}
}

// pathProtocol: whole paths with several subpaths (dashes, builder-made mixtures) through the PUBLIC
// API only: Stroke with recording Capper/Joiner (FastStroke on, so that the contours of the outline
// are not merged by settling) and Offset; compared with the path-level skeleton (PROTOM).
func pathProtocol(c *hc.Ctx) {
	defer func(old bool) { canvas.FastStroke = old }(canvas.FastStroke)
	canvas.FastStroke = true
	for it := 0; it < c.N/2; it++ {
		hw := genHW(c)
		var p *canvas.Path
		class := ""
		switch c.Intn(4) {
		case 0, 1: // dashes of an open or closed path
			base := c.GenPath([]string{"L", "LQ", "LQCA", "LLZ"}[c.Intn(4)], 4, 1)
			d := []float64{float64(1+c.Intn(8)) / 2, float64(1+c.Intn(6)) / 2}
			if c.Bool() {
				d = append(d, float64(1+c.Intn(4))/2, float64(1+c.Intn(4))/2)
			}
			p = base.Dash(c.Range(0, 3), d...)
			class = "dashed"
		case 2:
			p = c.GenPath([]string{"LQCA", "LLLZ", "LQCAZ"}[c.Intn(3)], 4, 4)
			class = "subpaths"
		default:
			p, _ = genTeardrop(c)
			p = p.Append(c.GenPath("LQ", 3, 2))
			class = "loop+subpaths"
		}
		stroke := c.Chance(0.75)
		var sb strings.Builder
		subs := p.Split()
		nOpen, ok := 0, true
		fmt.Fprintf(&sb, "PROTOM %s %d", hc.B(stroke), len(subs))
		for _, pi := range subs {
			segs, closed, good := statesOf(pi, hw)
			if !good {
				ok = false
				break
			}
			if !closed && len(segs) > 0 {
				nOpen++
			}
			fmt.Fprintf(&sb, " %s %d", hc.B(closed), len(segs))
			for _, s := range segs {
				sb.WriteByte(' ')
				sb.WriteString(hc.Hs(s.p0.X, s.p0.Y, s.p1.X, s.p1.Y, s.n0.X, s.n0.Y, s.n1.X, s.n1.Y, s.r0, s.r1))
			}
		}
		if !ok || len(subs) == 0 || len(subs) > 40 {
			c.Count("protom:skip")
			continue
		}
		var ev []string
		var r *canvas.Path
		msg := hc.Try(func() {
			if stroke {
				r = p.Stroke(2*hw, recCapper{canvas.ButtCap, &ev}, recJoiner{canvas.BevelJoin, &ev}, 0.01)
			} else {
				r = p.Offset(hw, 0.01)
			}
		})
		if msg != "" {
			c.Fail("panic:path-protocol", "Stroke/Offset panicked: "+msg, map[string]any{"P": p.String(), "hw": hw, "stroke": stroke})
			continue
		}
		caps, joins := 0, 0
		for _, e := range ev {
			if e[0] == 'C' {
				caps++
			} else {
				joins++
			}
		}
		contours := len(r.Split())
		out := fmt.Sprintf("%d %d %d", caps, joins, contours)
		line := sb.String()
		if !stroke {
			// Offset uses the library's own ButtCap/RoundJoin: only the contour count is observable
			line = "PROTOMC" + line[len("PROTOM"):]
			out = fmt.Sprint(contours)
		}
		c.Case(line, "=", out)
		c.Distinct(line)
		c.Count(fmt.Sprintf("protom:%s stroke=%v", class, stroke))
		if stroke && class == "dashed" {
			c.Count(fmt.Sprintf("protom:dashed caps==2*open:%v", caps == 2*nOpen))
		}
	}
}

type state struct {
	p0, p1, n0, n1 canvas.Point
	r0, r1         float64
}

// statesOf re-derives the state list of offset() for one subpath (end normals and radii through the
// hooks, the control flow written from the description of the first loop).
func statesOf(pi *canvas.Path, hw float64) ([]state, bool, bool) {
	segs, err := hc.Decode(pi.Data())
	if err != nil {
		return nil, false, false
	}
	var out []state
	closed := false
	nan := math.NaN()
	cp := func(p hc.P2) canvas.Point { return canvas.Point{X: p.X, Y: p.Y} }
	for _, s := range segs {
		a, b := cp(s.P0), cp(s.End)
		switch s.Kind {
		case 'L':
			n := b.Sub(a).Rot90CW().Norm(hw)
			out = append(out, state{a, b, n, n, nan, nan})
		case 'Q':
			c1, c2 := canvas.VerifC04QuadToCubic(a, cp(s.P1), b)
			n0, n1, r0, r1 := canvas.VerifC04CubicEnds(a, c1, c2, b, hw)
			out = append(out, state{a, b, n0, n1, r0, r1})
		case 'C':
			n0, n1, r0, r1 := canvas.VerifC04CubicEnds(a, cp(s.P1), cp(s.P2), b, hw)
			out = append(out, state{a, b, n0, n1, r0, r1})
		case 'A':
			n0, n1, r0, r1 := canvas.VerifC04ArcEnds(a, s.Rx, s.Ry, s.Phi, s.Large, s.Sweep, b, hw)
			out = append(out, state{a, b, n0, n1, r0, r1})
		case 'Z':
			if !a.Equals(b) {
				n := b.Sub(a).Rot90CW().Norm(hw)
				out = append(out, state{a, b, n, n, nan, nan})
			}
			closed = true
		}
	}
	return out, closed, true
}
